import PyYetiVerif.Lemmas.NasFloatLast
/-! C12: the dispatch of the if-chains of `format_float8/16` — tests as magnitude comparisons
with the literals' doubles, decidable per-row side conditions (`stepOK`, `chainOK`, `lastOKpos`,
`lastOKneg`, `firstOK`) and their soundness: `formatFloat_good`. -/
set_option linter.unusedSimpArgs false
set_option linter.unusedVariables false
namespace PyYetiVerif.NasFloat
open PyYetiVerif.PyFloat PyYetiVerif.Generated.NasFloat

/-- a well-formed field of the emitted grammar, right-justified in `W` characters -/
def Good (W : Nat) (y : Str) : Prop :=
  ∃ f : Fld, f.wf = true ∧ f.text.length ≤ W ∧ y = rjust W f.text

theorem Good.length {W : Nat} {y : Str} (h : Good W y) : y.length = W := by
  obtain ⟨f, _, hlen, rfl⟩ := h
  exact rjust_length_of_le _ _ hlen

theorem Good.scan {W : Nat} {y : Str} (h : Good W y) (k : Bool) :
    ∃ f : Fld, f.wf = true ∧ y = rjust W f.text ∧
      nasSscanf y k = .flt (toBits f.dec.1 f.dec.2.1 f.dec.2.2) := by
  obtain ⟨f, hwf, hlen, rfl⟩ := h
  exact ⟨f, hwf, rfl, by rw [rjust]; exact nasSscanf_field f hwf _ k⟩

/-- `|x| < b` and `|x| ≥ b` on fractions -/
def mlt (x b : Dbl) : Prop := x.num * b.den < b.num * x.den
def mge (x b : Dbl) : Prop := b.num * x.den ≤ x.num * b.den

instance (x b : Dbl) : Decidable (mlt x b) := by unfold mlt; infer_instance
instance (x b : Dbl) : Decidable (mge x b) := by unfold mge; infer_instance

theorem not_mlt_iff (x b : Dbl) : ¬ mlt x b ↔ mge x b := by
  unfold mlt mge; omega

/-! ### the tests of the if-chains as magnitude comparisons -/

theorem lt_pos (x b : Dbl) (hx : x.neg = false) (hb : b.neg = false) : x.lt b = decide (mlt x b) := by
  unfold Dbl.lt Dbl.snum mlt
  simp only [hx, hb, Bool.false_eq_true, if_false]
  congr 1
  apply propext
  constructor <;> intro h <;> exact_mod_cast h

theorem le_pos (l x : Dbl) (hx : x.neg = false) (hl : l.neg = false) : l.le x = decide (mge x l) := by
  unfold Dbl.le Dbl.snum mge
  simp only [hx, hl, Bool.false_eq_true, if_false]
  congr 1
  apply propext
  constructor <;> intro h <;> exact_mod_cast h

theorem lt_neg (x b : Dbl) (hx : x.neg = true) :
    (⟨true, b.num, b.den⟩ : Dbl).lt x = decide (mlt x b) := by
  unfold Dbl.lt Dbl.snum mlt
  simp only [hx, if_true]
  congr 1
  apply propext
  constructor
  · intro h
    have : ((x.num * b.den : ℕ) : Int) < ((b.num * x.den : ℕ) : Int) := by push_cast; linarith
    exact_mod_cast this
  · intro h
    have : ((x.num * b.den : ℕ) : Int) < ((b.num * x.den : ℕ) : Int) := by exact_mod_cast h
    push_cast at this; linarith

theorem le_neg (x b : Dbl) (hx : x.neg = true) :
    x.le (⟨true, b.num, b.den⟩ : Dbl) = decide (mge x b) := by
  unfold Dbl.le Dbl.snum mge
  simp only [hx, if_true]
  congr 1
  apply propext
  constructor
  · intro h
    have : ((b.num * x.den : ℕ) : Int) ≤ ((x.num * b.den : ℕ) : Int) := by push_cast; linarith
    exact_mod_cast this
  · intro h
    have : ((b.num * x.den : ℕ) : Int) ≤ ((x.num * b.den : ℕ) : Int) := by exact_mod_cast h
    push_cast at this; linarith

/-- transport a lower bound: `|x| ≥ l` and `l ≥ 10^-p` give `|x| ≥ 10^-p` -/
theorem mge_pow (x l : Dbl) (p : Nat) (hl : 0 < l.den) (h : mge x l) (hp : l.den ≤ l.num * 10 ^ p) :
    x.den ≤ x.num * 10 ^ p := by
  unfold mge at h
  have h1 : x.den * l.den ≤ x.den * (l.num * 10 ^ p) := Nat.mul_le_mul_left _ hp
  have h2 : l.num * x.den * 10 ^ p ≤ x.num * l.den * 10 ^ p := Nat.mul_le_mul_right _ h
  have h3 : x.den * l.den ≤ x.num * 10 ^ p * l.den := by
    calc x.den * l.den ≤ x.den * (l.num * 10 ^ p) := h1
      _ = l.num * x.den * 10 ^ p := by ring
      _ ≤ x.num * l.den * 10 ^ p := h2
      _ = x.num * 10 ^ p * l.den := by ring
  exact Nat.le_of_mul_le_mul_right h3 hl

theorem mge_pow' (x l : Dbl) (K : Nat) (hl : 0 < l.den) (h : mge x l) (hp : l.den ≤ 10 ^ K * l.num) :
    x.den ≤ 10 ^ K * x.num := by
  have := mge_pow x l K hl h (by rw [mul_comm]; exact hp)
  rw [mul_comm]; exact this

/-- transport an upper bound: `|x| < b` and `b·10^K ≤ 1` give `|x|·10^K < 1` -/
theorem mlt_pow (x b : Dbl) (K : Nat) (hb : 0 < b.den) (hx : 0 < x.den) (h : mlt x b)
    (hp : b.num * 10 ^ K ≤ b.den) : x.num * 10 ^ K < x.den := by
  unfold mlt at h
  have h1 : x.num * 10 ^ K * b.den < b.num * x.den * 10 ^ K := by
    have := Nat.mul_lt_mul_of_pos_right h (show 0 < 10 ^ K by positivity)
    calc x.num * 10 ^ K * b.den = x.num * b.den * 10 ^ K := by ring
      _ < b.num * x.den * 10 ^ K := this
  have h2 : b.num * x.den * 10 ^ K ≤ x.den * b.den := by
    calc b.num * x.den * 10 ^ K = x.den * (b.num * 10 ^ K) := by ring
      _ ≤ x.den * b.den := Nat.mul_le_mul_left _ hp
  exact Nat.lt_of_mul_lt_mul_right (lt_of_lt_of_le h1 h2)

/-- `|x| < b` with `b ≤ n/d` gives the arithmetic bound of the branch theorems -/
theorem mlt_exact (x b : Dbl) (n d : Nat) (hb : 0 < b.den) (hd0 : 0 < d) (h : mlt x b)
    (he : b.num * d ≤ n * b.den) : x.num * d < n * x.den := by
  unfold mlt at h
  have h1 : x.num * d * b.den < b.num * x.den * d := by
    have := Nat.mul_lt_mul_of_pos_right h hd0
    calc x.num * d * b.den = x.num * b.den * d := by ring
      _ < b.num * x.den * d := this
  have h2 : b.num * x.den * d ≤ n * x.den * b.den := by
    calc b.num * x.den * d = b.num * d * x.den := by ring
      _ ≤ n * b.den * x.den := Nat.mul_le_mul_right _ he
      _ = n * x.den * b.den := by ring
  exact Nat.lt_of_mul_lt_mul_right (lt_of_lt_of_le h1 h2)

theorem rjust_len_inv (W : Nat) (t : Str) (h : (rjust W t).length = W) : t.length ≤ W := by
  simp only [rjust, List.length_append, List.length_replicate] at h
  omega

/-! ### per-row side conditions (decidable) and the step lemmas -/

/-- the literal bound of a row as the double the code compares with -/
def rowB (r : Row) : Dbl := litDbl r.num r.den

/-- lower bound known after the test of `r` has failed -/
def nextLo (lo : Option Dbl) (r : Row) : Option Dbl :=
  if r.lnum == 0 && r.strict then some (rowB r) else lo

/-- side conditions of one row given the lower bound `lo` established by the failed strict tests
before it (`neg` = negative chain) -/
def stepOK (W : Nat) (neg : Bool) (lo : Option Dbl) (r : Row) : Bool :=
  !(rowB r).neg && decide (0 < (rowB r).den) &&
  (match r.kind with
   | 0 => true
   | 1 => r.lnum == 0 && r.strict && decide (1 ≤ r.prec) &&
       (match lo with
        | some l => decide (0 < l.den) &&
            ((W != 8) || (decide (l.den ≤ 10 ^ 9 * l.num) && decide ((rowB r).num * 10 ^ 1 ≤ (rowB r).den))) &&
            (!neg || (decide (r.prec + 1 ≤ 250) && decide (r.prec % 10 ≠ 0) &&
              decide ((r.prec + 1) % 10 ≠ 0) && decide (l.den ≤ 10 ^ (r.prec + 1) * l.num)))
        | none => false)
   | _ => r.lnum == 0 && r.strict && decide (RowOK W neg r) &&
       decide ((rowB r).num * r.den ≤ r.num * (rowB r).den) && decide (0 < r.den) &&
       (match lo with
        | some l => decide (0 < l.den) && decide (l.den ≤ l.num * 10 ^ r.prec)
        | none => false))

def chainOK (W : Nat) (neg : Bool) : Option Dbl → List Row → Bool
  | _, [] => true
  | lo, r :: rs => stepOK W neg lo r && chainOK W neg (nextLo lo r) rs

/-- the test of a strict row without range guard, on magnitudes -/
theorem rowTest_strict (neg : Bool) (r : Row) (x : Dbl) (hx : x.neg = neg) (hl : r.lnum = 0)
    (hs : r.strict = true) (hb : (rowB r).neg = false) :
    rowTest neg r x = decide (mlt x (rowB r)) := by
  unfold rowTest
  cases neg with
  | true =>
    simp only [if_true, hs]
    exact lt_neg x (litDbl r.num r.den) hx
  | false =>
    simp only [Bool.false_eq_true, if_false, hl, beq_self_eq_true, if_true, Bool.true_and, hs]
    exact lt_pos x (litDbl r.num r.den) hx hb

theorem good_sci (W : Nat) (c : Sci) (hc : SciOK W c 0) (x : Dbl) (hd : 0 < x.den)
    (hr : x.num = 0 ∨ (x.den ≤ 10 ^ 999 * x.num ∧ x.num < 10 ^ 999 * x.den)) :
    Good W (formatScientific W c x) := by
  rcases Nat.eq_zero_or_pos x.num with h0 | hn
  · have hz : x.isZero = true := by simp [Dbl.isZero, h0]
    refine ⟨⟨false, ['0'], [], none⟩, by decide, ?_, ?_⟩
    · obtain ⟨_, _, hrows⟩ := hc
      have := (hrows false 1 (by simp)).2.2
      have h1 := (hrows false 1 (by simp)).1
      have hW2 : 2 ≤ W := by
        simp only [Bool.false_eq_true, if_false] at this; omega
      simp [Fld.text, Fld.mant, Fld.exText]
      exact hW2
    · simp [formatScientific, hz, Fld.text, Fld.mant, Fld.exText]
  · have hz : x.isZero = false := by
      have : x.num ≠ 0 := by omega
      simp [Dbl.isZero, this]
    rcases hr with h0 | ⟨hlo, hhi⟩
    · omega
    · obtain ⟨P, N3, _, _, _, hwf, hlen, hshape⟩ := sciCore_struct W c false hc x hn hd hlo hhi
      simp only [Bool.false_eq_true, if_false] at hshape
      exact ⟨_, hwf, hlen, by simp [formatScientific, hz, hshape]⟩

/-- **one row of an if-chain**: under the decidable side conditions, for `x` of the chain's sign
above the lower bound established so far and passing the row's test, the row's body returns a
well-formed field right-justified in `W` characters. -/
theorem step_good (W : Nat) (c : Sci) (neg : Bool) (hc : SciOK W c 0) (lo : Option Dbl) (r : Row)
    (hok : stepOK W neg lo r = true) (x : Dbl) (hx : x.neg = neg) (hn : 0 < x.num) (hd : 0 < x.den)
    (hlo : x.den ≤ 10 ^ 999 * x.num) (hhi : x.num < 10 ^ 999 * x.den)
    (hlow : ∀ l, lo = some l → mge x l)
    (htest : rowTest neg r x = true) : Good W (rowBody W c neg r x) := by
  unfold stepOK at hok
  simp only [Bool.and_eq_true, Bool.not_eq_true', decide_eq_true_eq] at hok
  obtain ⟨⟨hbneg, hbden⟩, hkind⟩ := hok
  rcases hk : r.kind with _ | _ | k
  · -- kind 0: scientific
    have : rowBody W c neg r x = formatScientific W c x := by simp [rowBody, hk]
    rw [this]
    exact good_sci W c hc x hd (Or.inr ⟨hlo, hhi⟩)
  · -- kind 1: mixed
    rw [hk] at hkind
    simp only [Bool.and_eq_true, beq_iff_eq, decide_eq_true_eq] at hkind
    obtain ⟨⟨⟨hl0, hs⟩, hp⟩, hlo'⟩ := hkind
    cases hloeq : lo with
    | none => rw [hloeq] at hlo'; exact absurd hlo' (by simp)
    | some l =>
      rw [hloeq] at hlo'
      simp only [Bool.and_eq_true, decide_eq_true_eq, Bool.or_eq_true, bne_iff_ne, ne_eq,
        Bool.not_eq_true'] at hlo'
      obtain ⟨⟨hlden, h8c⟩, hnegc⟩ := hlo'
      have hge := hlow l hloeq
      have hlt : mlt x (rowB r) := by
        rw [rowTest_strict neg r x hx hl0 hs hbneg] at htest
        simpa using htest
      have h8 : W = 8 → x.den ≤ 10 ^ 9 * x.num ∧ x.num * 10 ^ 1 < x.den := by
        intro hW
        rcases h8c with h | ⟨h1, h2⟩
        · exact absurd hW h
        · exact ⟨mge_pow' x l 9 hlden hge h1, mlt_pow x (rowB r) 1 hbden hd hlt h2⟩
      cases neg with
      | false =>
        have : rowBody W c false r x = smallPos W r.prec c x := by simp [rowBody, hk]
        rw [this]
        obtain ⟨f, hwf, hlen, hshape, _⟩ := smallPos_good W r.prec c hc hp x hx hn hd hlo hhi h8
        exact ⟨f, hwf, hlen, hshape⟩
      | true =>
        have : rowBody W c true r x = smallNeg W r.prec c x := by simp [rowBody, hk]
        rw [this]
        rcases hnegc with h | ⟨⟨⟨h250, hm1⟩, hm2⟩, hl1⟩
        · exact absurd h (by simp)
        · obtain ⟨f, hwf, hlen, hshape, _⟩ := smallNeg_good W r.prec c hc hp h250 ⟨hm1, hm2⟩ x hx hn hd
            hlo hhi (mge_pow' x l (r.prec + 1) hlden hge hl1) h8
          exact ⟨f, hwf, hlen, hshape⟩
  · -- kinds 2, 3: fixed notation
    rw [hk] at hkind
    simp only [Bool.and_eq_true, beq_iff_eq, decide_eq_true_eq] at hkind
    obtain ⟨⟨⟨⟨⟨hl0, hs⟩, hrow⟩, hex⟩, hrden⟩, hlo'⟩ := hkind
    cases hloeq : lo with
    | none => rw [hloeq] at hlo'; exact absurd hlo' (by simp)
    | some l =>
      rw [hloeq] at hlo'
      simp only [Bool.and_eq_true, decide_eq_true_eq] at hlo'
      obtain ⟨hlden, hlp⟩ := hlo'
      have hge := hlow l hloeq
      have hlt : mlt x (rowB r) := by
        rw [rowTest_strict neg r x hx hl0 hs hbneg] at htest
        simpa using htest
      have hxb : x.num * r.den < r.num * x.den := mlt_exact x (rowB r) r.num r.den hbden hrden hlt hex
      have hlen := rowBody_length W c neg r hrow x hx hxb
      have hxlo : x.den ≤ x.num * 10 ^ r.prec := mge_pow x l r.prec hlden hge hlp
      have hrow' := hrow
      simp only [RowOK] at hrow'
      obtain ⟨_, _, _, hp, hk3, hkind', _⟩ := hrow'
      have hkind'' : r.kind = 2 ∨ (r.kind = 3 ∧ neg = true) := by
        rcases hkind' with h | h
        · exact Or.inl h
        · exact Or.inr ⟨h, (hk3.1 h).1⟩
      have hshape := rowBody_shape W c neg r hp hkind'' x hx
      have hN : 0 < rheDiv (x.num * 10 ^ r.prec) x.den := rheDiv_ge _ _ 1 hd (by simpa using hxlo)
      refine ⟨_, fixedFld_wf _ _ _ _ hN, ?_, hshape⟩
      rw [hshape] at hlen
      exact rjust_len_inv W _ hlen


/-! ### the whole chain -/

theorem chain_good (W : Nat) (c : Sci) (neg : Bool) (hc : SciOK W c 0) (last : Dbl → Str)
    (rows : List Row) (lo : Option Dbl) (hok : chainOK W neg lo rows = true)
    (x : Dbl) (hx : x.neg = neg) (hn : 0 < x.num) (hd : 0 < x.den)
    (hlo : x.den ≤ 10 ^ 999 * x.num) (hhi : x.num < 10 ^ 999 * x.den)
    (hlow : ∀ l, lo = some l → mge x l)
    (hlast : (∀ r ∈ rows, rowTest neg r x = false) → Good W (last x)) :
    Good W (chain W c neg last rows x) := by
  induction rows generalizing lo with
  | nil => exact hlast (by simp)
  | cons r rs ih =>
    simp only [chainOK, Bool.and_eq_true] at hok
    obtain ⟨hstep, hrest⟩ := hok
    unfold chain
    by_cases htest : rowTest neg r x = true
    · simp only [htest, if_true]
      exact step_good W c neg hc lo r hstep x hx hn hd hlo hhi hlow htest
    · have hfalse : rowTest neg r x = false := by simpa using htest
      simp only [hfalse, Bool.false_eq_true, if_false]
      apply ih (nextLo lo r) hrest
      · intro l hl
        unfold nextLo at hl
        by_cases hcond : (r.lnum == 0 && r.strict) = true
        · simp only [hcond, if_true, Option.some.injEq] at hl
          subst hl
          simp only [Bool.and_eq_true, beq_iff_eq] at hcond
          have hbneg : (rowB r).neg = false := by
            unfold stepOK at hstep
            simp only [Bool.and_eq_true, Bool.not_eq_true'] at hstep
            exact hstep.1.1
          rw [rowTest_strict neg r x hx hcond.1 hcond.2 hbneg] at hfalse
          exact (not_mlt_iff x (rowB r)).1 (by simpa using hfalse)
        · simp only [hcond, Bool.false_eq_true, if_false] at hl
          exact hlow l hl
      · intro hall
        apply hlast
        intro r' hr'
        rcases List.mem_cons.1 hr' with rfl | h
        · exact hfalse
        · exact hall r' h

/-! ### the final branches inside the chain -/

/-- beyond the field: `x ≥ 10^(W-1)` falls back to scientific notation -/
theorem lastPos_sci (W : Nat) (c : Sci) (hW : 1 ≤ W) (x : Dbl) (hneg : x.neg = false) (hd : 0 < x.den)
    (hbig : 10 ^ (W - 1) * x.den ≤ x.num) :
    lastPos W c (1, 1) x = formatScientific W c x := by
  have hN : 10 ^ (W - 1) * 10 ≤ rheDiv (x.num * 10 ^ 1) x.den := by
    apply rheDiv_ge _ _ _ hd
    calc 10 ^ (W - 1) * 10 * x.den = 10 ^ (W - 1) * x.den * 10 := by ring
      _ ≤ x.num * 10 := Nat.mul_le_mul_right _ hbig
      _ = x.num * 10 ^ 1 := by rw [pow_one]
  have hI : 10 ^ (W - 1) ≤ rheDiv (x.num * 10 ^ 1) x.den / 10 ^ 1 := by
    rw [pow_one, Nat.le_div_iff_mul_le (by norm_num)]; exact hN
  have hL : W ≤ (natDigits (rheDiv (x.num * 10 ^ 1) x.den / 10 ^ 1)).length := by
    have := natDigits_length_ge (W - 1) _ hI
    omega
  have hfmt := fmtF_shape 1 (by norm_num) x
  rw [hneg] at hfmt
  simp only [Bool.false_eq_true, if_false, List.nil_append] at hfmt
  have hidx : ∃ i, indexOf? '.' (rjust W (fmtF 1 x)) = some i ∧ ¬ i < W := by
    rw [hfmt, rjust]
    have := indexOf_dot (List.replicate (W - (natDigits (rheDiv (x.num * 10 ^ 1) x.den / 10 ^ 1) ++
        '.' :: fracDigits 1 (rheDiv (x.num * 10 ^ 1) x.den)).length) ' ')
      (natDigits (rheDiv (x.num * 10 ^ 1) x.den / 10 ^ 1))
      (fracDigits 1 (rheDiv (x.num * 10 ^ 1) x.den))
      (by intro c hc; rw [List.eq_of_mem_replicate hc]; decide)
      (fun c hc => isDigit_ne c '.' (natDigits_all_digit _ c hc) (by decide))
    simp only [List.append_assoc] at this
    refine ⟨_, this, ?_⟩
    simp only [List.length_replicate, List.length_cons, List.length_append, fracDigits_length]
    omega
  obtain ⟨i, hi, hiW⟩ := hidx
  unfold lastPos
  simp only [hi, hiW, if_false]

def lastOKpos (W : Nat) (rows : List Row) : Bool :=
  match rows.getLast? with
  | some g =>
    g.kind == 0 && g.lnum != 0 && g.strict &&
      !(litDbl g.lnum g.lden).neg && !(rowB g).neg &&
      decide (0 < (litDbl g.lnum g.lden).den) && decide (0 < (rowB g).den) &&
      decide ((litDbl g.lnum g.lden).num * 2 = (2 * 10 ^ (W - 1) - 1) * (litDbl g.lnum g.lden).den) &&
      decide ((rowB g).num = 10 ^ (W - 1) * (rowB g).den)
  | none => false

def lastOKneg (W : Nat) (rows : List Row) : Bool :=
  match rows.getLast? with
  | some g =>
    g.kind == 0 && !g.strict && !(rowB g).neg && decide (0 < (rowB g).den) &&
      decide ((rowB g).num * 2 = (2 * 10 ^ (W - 2) - 1) * (rowB g).den)
  | none => false

theorem last_pos_good (W : Nat) (c : Sci) (hc : SciOK W c 0) (hW : 2 ≤ W) (rows : List Row)
    (hok : lastOKpos W rows = true) (x : Dbl) (hx : x.neg = false) (hn : 0 < x.num) (hd : 0 < x.den)
    (hlo : x.den ≤ 10 ^ 999 * x.num) (hhi : x.num < 10 ^ 999 * x.den)
    (hall : ∀ r ∈ rows, rowTest false r x = false) : Good W (lastPos W c (1, 1) x) := by
  unfold lastOKpos at hok
  cases hg : rows.getLast? with
  | none => rw [hg] at hok; exact absurd hok (by simp)
  | some g =>
    rw [hg] at hok
    simp only [Bool.and_eq_true, beq_iff_eq, bne_iff_ne, ne_eq, Bool.not_eq_true', decide_eq_true_eq] at hok
    obtain ⟨⟨⟨⟨⟨⟨⟨⟨hk, hl⟩, hs⟩, hloneg⟩, hhineg⟩, hloden⟩, hhiden⟩, hloeq⟩, hhieq⟩ := hok
    have hfail := hall g (List.mem_of_getLast? hg)
    unfold rowTest at hfail
    have hl' : (g.lnum == 0) = false := by simpa using hl
    simp only [Bool.false_eq_true, if_false, hl', hs, if_true] at hfail
    have hhineg' : (litDbl g.num g.den).neg = false := hhineg
    rw [le_pos _ x hx hloneg, lt_pos x (litDbl g.num g.den) hx hhineg'] at hfail
    simp only [Bool.and_eq_false_iff, decide_eq_false_iff_not] at hfail
    rcases hfail with h | h
    · -- below the guard
      have hlt : mlt x (litDbl g.lnum g.lden) := by
        unfold mlt mge at *; omega
      have hg2 : 2 * x.num < (2 * 10 ^ (W - 1) - 1) * x.den := by
        unfold mlt at hlt
        have h1 : 2 * x.num * (litDbl g.lnum g.lden).den < (litDbl g.lnum g.lden).num * 2 * x.den := by
          nlinarith
        rw [hloeq] at h1
        have h2 : (2 * 10 ^ (W - 1) - 1) * (litDbl g.lnum g.lden).den * x.den =
            (2 * 10 ^ (W - 1) - 1) * x.den * (litDbl g.lnum g.lden).den := by ring
        rw [h2] at h1
        exact Nat.lt_of_mul_lt_mul_right h1
      obtain ⟨fp, hfp, hshape, hlen⟩ := lastPos_shape W c hW x hx hd hg2
      exact ⟨_, intFld_wf false _ fp hfp, hlen, hshape⟩
    · -- at or beyond 10^(W-1)
      have hge : mge x (rowB g) := (not_mlt_iff x (rowB g)).1 h
      have hbig : 10 ^ (W - 1) * x.den ≤ x.num := by
        unfold mge at hge
        rw [hhieq] at hge
        have : 10 ^ (W - 1) * x.den * (rowB g).den ≤ x.num * (rowB g).den := by
          calc 10 ^ (W - 1) * x.den * (rowB g).den = 10 ^ (W - 1) * (rowB g).den * x.den := by ring
            _ ≤ x.num * (rowB g).den := hge
        exact Nat.le_of_mul_le_mul_right this hhiden
      rw [lastPos_sci W c (by omega) x hx hd hbig]
      exact good_sci W c hc x hd (Or.inr ⟨hlo, hhi⟩)

theorem last_neg_good (W : Nat) (c : Sci) (hW : 3 ≤ W) (rows : List Row)
    (hok : lastOKneg W rows = true) (x : Dbl) (hx : x.neg = true) (hd : 0 < x.den)
    (hall : ∀ r ∈ rows, rowTest true r x = false) : Good W (lastNeg W c (1, W - 1) x) := by
  unfold lastOKneg at hok
  cases hg : rows.getLast? with
  | none => rw [hg] at hok; exact absurd hok (by simp)
  | some g =>
    rw [hg] at hok
    simp only [Bool.and_eq_true, beq_iff_eq, Bool.not_eq_true', decide_eq_true_eq] at hok
    obtain ⟨⟨⟨⟨hk, hs⟩, hbneg⟩, hbden⟩, hbeq⟩ := hok
    have hfail := hall g (List.mem_of_getLast? hg)
    unfold rowTest at hfail
    simp only [if_true, hs, Bool.false_eq_true, if_false] at hfail
    rw [le_neg x (litDbl g.num g.den) hx] at hfail
    have hlt : mlt x (rowB g) := by
      have : ¬ mge x (litDbl g.num g.den) := by simpa using hfail
      unfold mlt mge rowB at *; omega
    have hg2 : 2 * x.num < (2 * 10 ^ (W - 2) - 1) * x.den := by
      unfold mlt at hlt
      have h1 : 2 * x.num * (rowB g).den < (rowB g).num * 2 * x.den := by nlinarith
      rw [hbeq] at h1
      have h2 : (2 * 10 ^ (W - 2) - 1) * (rowB g).den * x.den =
          (2 * 10 ^ (W - 2) - 1) * x.den * (rowB g).den := by ring
      rw [h2] at h1
      exact Nat.lt_of_mul_lt_mul_right h1
    obtain ⟨hshape, hlen⟩ := lastNeg_shape W c hW x hx hd hg2
    exact ⟨_, intFld_wf _ _ [] (Or.inl rfl), hlen, hshape⟩

/-! ### the whole formatter -/

def firstOK (rows : List Row) : Bool :=
  match rows with
  | r0 :: _ => r0.kind == 0 && r0.lnum == 0 && r0.strict && decide (0 < (rowB r0).num) && !(rowB r0).neg
  | [] => false

/-- everything `decide` has to check about a pair of tables -/
def FormatOK (W : Nat) (pos neg : List Row) (posLast negLast : Nat × Nat) : Prop :=
  chainOK W false none pos = true ∧ lastOKpos W pos = true ∧ firstOK pos = true ∧
  chainOK W true none neg = true ∧ lastOKneg W neg = true ∧ posLast = (1, 1) ∧ negLast = (1, W - 1)

instance (W : Nat) (pos neg : List Row) (a b : Nat × Nat) : Decidable (FormatOK W pos neg a b) := by
  unfold FormatOK; infer_instance

/-- **the whole of `format_floatW`** as interpreted from its tables: for every fraction that is
zero or has `10^-999 ≤ |x| < 10^999` the result is a well-formed field of the emitted grammar,
right-justified in `W` characters. -/
theorem formatFloat_good (W : Nat) (c : Sci) (pos neg : List Row) (posLast negLast : Nat × Nat)
    (hc : SciOK W c 0) (hW : 3 ≤ W) (hok : FormatOK W pos neg posLast negLast)
    (x : Dbl) (hd : 0 < x.den)
    (hr : x.num = 0 ∨ (x.den ≤ 10 ^ 999 * x.num ∧ x.num < 10 ^ 999 * x.den)) :
    Good W (if geZero x then chain W c false (lastPos W c posLast) pos x
            else chain W c true (lastNeg W c negLast) neg x) := by
  obtain ⟨hcp, hlp, hfp, hcn, hln, hpl, hnl⟩ := hok
  subst hpl hnl
  rcases Nat.eq_zero_or_pos x.num with h0 | hn
  · -- zero: the first row of the positive chain is scientific and its test passes
    have hz : x.isZero = true := by simp [Dbl.isZero, h0]
    have hge : geZero x = true := by simp [geZero, hz]
    simp only [hge, if_true]
    cases pos with
    | nil => exact absurd hfp (by simp [firstOK])
    | cons r0 rs =>
      simp only [firstOK, Bool.and_eq_true, beq_iff_eq, decide_eq_true_eq, Bool.not_eq_true'] at hfp
      obtain ⟨⟨⟨⟨hk, hl⟩, hs⟩, hbnum⟩, hbneg⟩ := hfp
      have htest : rowTest false r0 x = true := by
        unfold rowTest
        simp only [Bool.false_eq_true, if_false, hl, beq_self_eq_true, if_true, Bool.true_and, hs]
        unfold Dbl.lt Dbl.snum
        have hb : (litDbl r0.num r0.den).neg = false := hbneg
        have hbn : 0 < (litDbl r0.num r0.den).num := hbnum
        simp only [h0, hb, Bool.false_eq_true, if_false, decide_eq_true_eq]
        split_ifs <;> simp <;> positivity
      unfold chain
      simp only [htest, if_true]
      have : rowBody W c false r0 x = formatScientific W c x := by simp [rowBody, hk]
      rw [this]
      exact good_sci W c hc x hd (Or.inl h0)
  · have hz : x.isZero = false := by
      have : x.num ≠ 0 := by omega
      simp [Dbl.isZero, this]
    obtain ⟨hlo, hhi⟩ : x.den ≤ 10 ^ 999 * x.num ∧ x.num < 10 ^ 999 * x.den := by
      rcases hr with h | h
      · omega
      · exact h
    cases hxn : x.neg with
    | false =>
      have hge : geZero x = true := by simp [geZero, hxn]
      simp only [hge, if_true]
      exact chain_good W c false hc _ pos none hcp x hxn hn hd hlo hhi (by simp)
        (fun hall => last_pos_good W c hc (by omega) pos hlp x hxn hn hd hlo hhi hall)
    | true =>
      have hge : geZero x = false := by simp [geZero, hxn, hz]
      simp only [hge, Bool.false_eq_true, if_false]
      exact chain_good W c true hc _ neg none hcn x hxn hn hd hlo hhi (by simp)
        (fun hall => last_neg_good W c hW neg hln x hxn hd hall)

end PyYetiVerif.NasFloat
