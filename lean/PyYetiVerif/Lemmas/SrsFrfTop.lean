import PyYetiVerif.Lemmas.SrsFrfPeak
/-! Helper lemmas for C03: decomposition of the top-level `srsFrf` model (what each returned
component is), lengths of the intermediate arrays, `scale_by_Q_only`. -/
set_option linter.unusedVariables false
set_option linter.unusedSimpArgs false
set_option linter.unusedSectionVars false
namespace PyYetiVerif.Srs

theorem allSome_eq_some {β : Type} (l : List (Option β)) : ∀ r : List β,
    allSome l = some r ↔ l = r.map some := by
  induction l with
  | nil =>
    intro r
    cases r <;> simp [allSome]
  | cons x l ih =>
    intro r
    cases x with
    | none =>
      cases r <;> simp [allSome]
    | some v =>
      cases hrest : allSome l with
      | none =>
        simp only [allSome, hrest]
        constructor
        · intro h; cases h
        · intro h
          cases r with
          | nil => simp at h
          | cons a r =>
            simp only [List.map_cons, List.cons.injEq] at h
            have := (ih r).mpr h.2
            rw [hrest] at this
            cases this
      | some vs =>
        simp only [allSome, hrest]
        have hvs := (ih vs).mp hrest
        constructor
        · intro h
          cases h
          simp [hvs]
        · intro h
          cases r with
          | nil => simp at h
          | cons a r =>
            simp only [List.map_cons, List.cons.injEq, Option.some.injEq] at h
            have h2 := (ih r).mpr h.2
            rw [hrest] at h2
            cases h2
            rw [h.1]

theorem map_allSome {γ β : Type} (F : γ → List (Option β)) (l : List γ) : ∀ r : List (List β),
    l.map (fun x => allSome (F x)) = r.map some → l.map F = r.map (·.map some) := by
  induction l with
  | nil => intro r h; cases r <;> simp at h ⊢
  | cons x l ih =>
    intro r h
    cases r with
    | nil => simp at h
    | cons a r =>
      simp only [List.map_cons, List.cons.injEq] at h ⊢
      exact ⟨(allSome_eq_some _ _).mp h.1, ih r h.2⟩

/-! ### lengths -/

theorem placeSingle_length (grid : List ℝ) (x a : ℝ) : (placeSingle grid x a).length = grid.length := by
  simp [placeSingle]

theorem frfAmps_length (frq col grid : List ℝ) : (frfAmps frq col grid).length = grid.length := by
  unfold frfAmps
  split
  · exact placeSingle_length _ _ _
  · simp

theorem rowsOfCols_length (n : ℕ) (colsL : List (List ℝ)) : (rowsOfCols n colsL).length = n := by
  simp [rowsOfCols]

theorem filterMap_getElem?_length (colsL : List (List ℝ)) (k n : ℕ) (hk : k < n)
    (h : ∀ c ∈ colsL, c.length = n) : (colsL.filterMap (·[k]?)).length = colsL.length := by
  induction colsL with
  | nil => rfl
  | cons c cs ih =>
    have hc : c.length = n := h c (List.mem_cons_self ..)
    have hk' : k < c.length := by omega
    have : c[k]? = some c[k] := List.getElem?_eq_getElem hk'
    simp only [List.filterMap_cons, this, List.length_cons]
    rw [ih (fun c' hc' => h c' (List.mem_cons_of_mem _ hc'))]

theorem rowsOfCols_row_length (n : ℕ) (colsL : List (List ℝ)) (h : ∀ c ∈ colsL, c.length = n) :
    ∀ row ∈ rowsOfCols n colsL, row.length = colsL.length := by
  intro row hrow
  simp only [rowsOfCols, List.mem_map, List.mem_range] at hrow
  obtain ⟨k, hk, rfl⟩ := hrow
  exact filterMap_getElem?_length colsL k n hk h

/-! ### the interpolant on its own abscissas -/

theorem map_interpLin_self (frq ys : List ℝ) (hlen : ys.length = frq.length) (h2 : 2 ≤ frq.length)
    (hs : frq.Pairwise (· < ·)) : frq.map (interpLin (frq.zip ys)) = ys := by
  have hfst : (frq.zip ys).map Prod.fst = frq := List.map_fst_zip (by omega)
  apply List.ext_getElem
  · simp [hlen]
  · intro k h1 h2'
    simp only [List.getElem_map]
    have hk : k < frq.length := by simpa using h1
    have hmem : (frq[k], ys[k]) ∈ frq.zip ys := by
      have : (frq.zip ys)[k]'(by simp [hlen, hk]) = (frq[k], ys[k]) := by simp
      rw [← this]
      exact List.getElem_mem _
    have := interpLin_node (frq.zip ys) (by simp [hlen]; omega) (by rw [hfst]; exact hs)
      (frq[k], ys[k]) hmem
    simpa using this

theorem frfAmps_of_two (frq col grid : List ℝ) (h2 : 2 ≤ frq.length) :
    frfAmps frq col grid = grid.map (interpLin (frq.zip col)) := by
  unfold frfAmps
  split
  · simp at h2
  · rfl

/-! ### decomposition of `srsFrf` -/

theorem srsFrfSh_eq_some (Q : ℝ) (sf grid : List ℝ) (amps : List (List ℝ)) (sh : List (List ℝ))
    (h : srsFrfSh Q sf grid amps = some sh) :
    (sf.map fun fn => amps.map fun a => srsFrfOne Q fn grid a) = sh.map (·.map some) :=
  map_allSome _ _ _ ((allSome_eq_some _ _).mp h)

theorem cols_len_of_not_any (cols : List (List (ℝ × ℝ))) (frq : List ℝ)
    (h2 : ¬(cols.any fun c => c.length != frq.length) = true) : ∀ c ∈ cols, c.length = frq.length := by
  intro c hc
  by_contra hne
  apply h2
  rw [List.any_eq_true]
  exact ⟨c, hc, by simpa using hne⟩

theorem srsFrf_full (cols : List (List (ℝ × ℝ))) (frq : List ℝ) (srs : Option (List ℝ)) (Q : ℝ)
    (g : Bool) (ret : Option Bool) (out : FrfOut ℝ)
    (h : srsFrf cols frq srs Q g ret false = some out) :
    frq ≠ [] ∧ (∀ c ∈ cols, c.length = frq.length) ∧
    srsFrfSh Q (frfSrsFrq Q frq srs false) (frfGrid Q frq (frfSrsFrq Q frq srs false))
        (cols.map fun c => frfAmps frq (absCol c) (frfGrid Q frq (frfSrsFrq Q frq srs false)))
      = some out.sh ∧
    out.srsFrq = (if frfReturnsFrq srs.isSome ret then some (frfSrsFrq Q frq srs false) else none) ∧
    out.resp = (if g then some
      ⟨frfGrid Q frq (frfSrsFrq Q frq srs false),
        srsFrfFrfs Q (frfSrsFrq Q frq srs false) (frfGrid Q frq (frfSrsFrq Q frq srs false))
          (cols.map fun c => frfAmps frq (absCol c) (frfGrid Q frq (frfSrsFrq Q frq srs false))),
        frfSrsFrq Q frq srs false⟩ else none) := by
  unfold srsFrf at h
  simp only [Bool.and_false, Bool.false_eq_true, if_false] at h
  by_cases h1 : frq.isEmpty = true
  · rw [if_pos h1] at h; cases h
  rw [if_neg h1] at h
  by_cases h2 : (cols.any fun c => c.length != frq.length) = true
  · rw [if_pos h2] at h; cases h
  rw [if_neg h2] at h
  have hne : frq ≠ [] := by
    intro e; apply h1; simp [e]
  cases hsh : srsFrfSh Q (frfSrsFrq Q frq srs false) (frfGrid Q frq (frfSrsFrq Q frq srs false))
      (cols.map fun c => frfAmps frq (absCol c) (frfGrid Q frq (frfSrsFrq Q frq srs false))) with
  | none => simp only [hsh] at h; cases h
  | some sh =>
    simp only [hsh] at h
    cases h
    exact ⟨hne, cols_len_of_not_any cols frq h2, rfl, rfl, rfl⟩

theorem srsFrf_qonly (cols : List (List (ℝ × ℝ))) (frq : List ℝ) (srs : Option (List ℝ)) (Q : ℝ)
    (ret : Option Bool) (out : FrfOut ℝ)
    (h : srsFrf cols frq srs Q false ret true = some out) :
    frq ≠ [] ∧ (∀ c ∈ cols, c.length = frq.length) ∧
    out.sh = (rowsOfCols (frfSrsFrq Q frq srs true).length
        (cols.map fun c => frfAmps frq (absCol c) (frfSrsFrq Q frq srs true))).map
          (fun row => row.map (· * Q)) ∧
    out.srsFrq = (if frfReturnsFrq srs.isSome ret then some (frfSrsFrq Q frq srs true) else none) ∧
    out.resp = none := by
  unfold srsFrf at h
  simp only [Bool.false_and, Bool.false_eq_true, if_false, if_true] at h
  by_cases h1 : frq.isEmpty = true
  · rw [if_pos h1] at h; cases h
  rw [if_neg h1] at h
  by_cases h2 : (cols.any fun c => c.length != frq.length) = true
  · rw [if_pos h2] at h; cases h
  rw [if_neg h2] at h
  have hne : frq ≠ [] := by
    intro e; apply h1; simp [e]
  cases h
  exact ⟨hne, cols_len_of_not_any cols frq h2, rfl, rfl, rfl⟩

theorem srsFrf_raises (cols : List (List (ℝ × ℝ))) (frq : List ℝ) (srs : Option (List ℝ)) (Q : ℝ)
    (ret : Option Bool) : srsFrf cols frq srs Q true ret true = none := by
  simp [srsFrf]

end PyYetiVerif.Srs
