import PyYetiVerif.Lemmas.BulkText
/-! Helper lemmas for `wttabled1` → `rdtabled1` on physical lines (C13; core Lean only). -/
namespace PyYetiVerif.Bulk

theorem fullChunks_rest_lt {α : Type} (k : Nat) (hk : 0 < k) (l : List α) : (fullChunks k l).2.length < k := by
  fun_induction fullChunks k l with
  | case1 l h res ih => exact ih
  | case2 l h => simp only; omega

theorem cardVals_map {α β : Type} (f : α → β) (b : α) (inc : Nat) (rows : List (List α)) :
    (cardVals b inc rows).map f = cardVals (f b) inc (rows.map (List.map f)) := by
  induction rows with
  | nil => rfl
  | cons r rs ih =>
      cases rs with
      | nil => rfl
      | cons r' rs' =>
          simp only [cardVals, List.map_cons, List.map_append] at ih ⊢
          rw [ih]
          simp [padTo]

theorem pairUp_map {α β : Type} (f : α → β) (l : List α) :
    pairUp (l.map f) = (pairUp l).map (List.map fun p => (f p.1, f p.2)) := by
  induction l using pairUp.induct with
  | case1 => rfl
  | case2 a => rfl
  | case3 a b r ih =>
      simp only [List.map_cons, pairUp, ih]
      cases pairUp r <;> rfl

theorem tablePairs_map {α β : Type} (f : α → β) (l : List α) :
    tablePairs (l.map f) = (tablePairs l).map (List.map fun p => (f p.1, f p.2)) := by
  unfold tablePairs
  rw [← List.map_drop, ← List.map_dropLast, pairUp_map]

theorem nasScan_nil : nasScan [] = Val.blank := by decide

/-- a line consisting of the continuation mark only -/
theorem lineFields_star : lineFields .f16 false ['*'] = [] := by
  have : fixedBody false ['*'] = [] := by decide
  simp only [lineFields, this, chunks_nil, List.map_nil]

/-- what the theorem asks of the arguments of `wttabled1`: a card name of at most 8 (7 for the 16-wide
form) characters without `$`, `,` or `*`, a table id that fits its field, and pair fields of exactly
8 (16) columns without `$`, the second of each pair not ending in white space -/
structure TabIn (wide : Bool) (name : Txt) (tid : Int) (pairs : List (Txt × Txt)) : Prop where
  name_ne : name ≠ []
  name_len : name.length + (if wide then 1 else 0) ≤ 8
  name_d : '$' ∉ name
  name_c : ',' ∉ name
  name_s : '*' ∉ name
  tid_len : (dec tid).length ≤ (if wide then 16 else 8)
  fields : ∀ p ∈ pairs, p.1.length = (if wide then 16 else 8) ∧ p.2.length = (if wide then 16 else 8) ∧
    '$' ∉ p.1 ∧ '$' ∉ p.2 ∧ LastSolid p.2

theorem mem_padR {c : Char} {w : Nat} {s : Txt} (h : c ∈ padR w s) : c ∈ s ∨ c = ' ' := by
  rcases List.mem_append.mp h with h | h
  · exact Or.inl h
  · exact Or.inr (mem_blanks h)

theorem flat2_mem (g : List (Txt × Txt)) (f : Txt) (hf : f ∈ flat2 g) : ∃ p ∈ g, f = p.1 ∨ f = p.2 := by
  simp only [flat2, List.mem_flatMap, List.mem_cons, List.not_mem_nil, or_false] at hf
  obtain ⟨p, hp, h⟩ := hf
  exact ⟨p, hp, h⟩

theorem flat2_concat (g : List (Txt × Txt)) (p : Txt × Txt) : flat2 (g ++ [p]) = (flat2 g ++ [p.1]) ++ [p.2] := by
  simp [flat2]

theorem isCont_blanks8 (x : Txt) : isCont .f8 (blanks 8 ++ x) = true := rfl
theorem isCont_star16 (x : Txt) : isCont .f16 (txt "*       " ++ x) = true := rfl

/-- a data line with `k` complete pairs (`k` = 4 or 2): exactly 72 columns -/
theorem tab_row_full (wide : Bool) (name : Txt) (tid : Int) (pairs : List (Txt × Txt)) (h : TabIn wide name tid pairs)
    (g : List (Txt × Txt)) (hg : g.length = (if wide then 2 else 4)) (hsub : ∀ p ∈ g, p ∈ pairs) :
    lineFields (if wide then .f16 else .f8) false ((if wide then txt "*       " else blanks 8) ++ (flat2 g).flatten) =
      (flat2 g).map nasScan := by
  have hw : ∀ f ∈ flat2 g, f.length = (if wide then 16 else 8) := by
    intro f hf
    obtain ⟨p, hp, e | e⟩ := flat2_mem g f hf <;> subst e
    · exact (h.fields p (hsub p hp)).1
    · exact (h.fields p (hsub p hp)).2.1
  have hd : ∀ f ∈ flat2 g, '$' ∉ f := by
    intro f hf
    obtain ⟨p, hp, e | e⟩ := flat2_mem g f hf <;> subst e
    · exact (h.fields p (hsub p hp)).2.2.1
    · exact (h.fields p (hsub p hp)).2.2.2.1
  have hlen := flatten_length_uniform _ (flat2 g) hw
  rw [flat2_length, hg] at hlen
  rcases List.eq_nil_or_concat g with e | ⟨g', p, e⟩
  · subst e; cases wide <;> simp at hg
  · have e' : g = g' ++ [p] := by simpa using e
    have hp : p ∈ pairs := hsub p (by simp [e'])
    have hsol : LastSolid ((flat2 g).flatten) := by
      rw [e', flat2_concat]
      simp only [List.flatten_append, List.flatten_cons, List.flatten_nil, List.append_nil]
      apply lastSolid_append _ (h.fields p hp).2.2.2.2
      intro e0; have := (h.fields p hp).2.1; rw [e0] at this; cases wide <;> simp at this
    cases wide with
    | false =>
        simp only [Bool.false_eq_true, if_false] at hw hlen ⊢
        apply lineFields_fixed .f8 (by decide) false (blanks 8) (by decide) (flat2 g) 8 (by decide) hw
        · simp only [List.length_append, blanks_length, hlen]; decide
        · intro hm
          rcases List.mem_append.mp hm with hm | hm
          · exact absurd (mem_blanks hm) (by decide)
          · obtain ⟨f, hf, hm⟩ := List.mem_flatten.mp hm
            exact hd f hf hm
        · apply lastSolid_append _ hsol
          intro e0; rw [e0] at hlen; simp at hlen
    | true =>
        simp only [if_true] at hw hlen ⊢
        apply lineFields_fixed .f16 (by decide) false (txt "*       ") (by decide) (flat2 g) 16 (by decide) hw
        · simp only [List.length_append, hlen]; decide
        · intro hm
          rcases List.mem_append.mp hm with hm | hm
          · exact absurd hm (by decide)
          · obtain ⟨f, hf, hm⟩ := List.mem_flatten.mp hm
            exact hd f hf hm
        · apply lastSolid_append _ hsol
          intro e0; rw [e0] at hlen; simp at hlen

/-- the last data line: fewer than `k` pairs, then `ENDT` -/
theorem tab_row_last (wide : Bool) (name : Txt) (tid : Int) (pairs : List (Txt × Txt)) (h : TabIn wide name tid pairs)
    (g : List (Txt × Txt)) (hg : g.length < (if wide then 2 else 4)) (hsub : ∀ p ∈ g, p ∈ pairs) :
    lineFields (if wide then .f16 else .f8) false
        ((if wide then txt "*       " else blanks 8) ++ (flat2 g ++ [txt "ENDT"]).flatten) =
      (flat2 g ++ [txt "ENDT"]).map nasScan := by
  have hw : ∀ f ∈ flat2 g, f.length = (if wide then 16 else 8) := by
    intro f hf
    obtain ⟨p, hp, e | e⟩ := flat2_mem g f hf <;> subst e
    · exact (h.fields p (hsub p hp)).1
    · exact (h.fields p (hsub p hp)).2.1
  have hd : ∀ f ∈ flat2 g, '$' ∉ f := by
    intro f hf
    obtain ⟨p, hp, e | e⟩ := flat2_mem g f hf <;> subst e
    · exact (h.fields p (hsub p hp)).2.2.1
    · exact (h.fields p (hsub p hp)).2.2.2.1
  have hlen := flatten_length_uniform _ (flat2 g) hw
  rw [flat2_length] at hlen
  have e : (flat2 g ++ [txt "ENDT"]).flatten = (flat2 g).flatten ++ txt "ENDT" := by simp
  rw [e]
  have hET : LastSolid (txt "ENDT") := by intro c hc; simp [txt] at hc; subst hc; decide
  cases wide with
  | false =>
      simp only [Bool.false_eq_true, if_false] at hw hlen hg ⊢
      apply lineFields_fixed_short .f8 (by decide) false (blanks 8) (by decide) (flat2 g) (txt "ENDT") 8 (by decide) hw
        (by decide)
      · simp only [List.length_append, blanks_length, hlen]
        have : (txt "ENDT").length = 4 := by decide
        omega
      · intro hm
        rcases List.mem_append.mp hm with hm | hm
        · exact absurd (mem_blanks hm) (by decide)
        · rcases List.mem_append.mp hm with hm | hm
          · obtain ⟨f, hf, hm⟩ := List.mem_flatten.mp hm
            exact hd f hf hm
          · exact absurd hm (by decide)
      · rw [← List.append_assoc]; exact lastSolid_append (by decide) hET
  | true =>
      simp only [if_true] at hw hlen hg ⊢
      apply lineFields_fixed_short .f16 (by decide) false (txt "*       ") (by decide) (flat2 g) (txt "ENDT") 16 (by decide) hw
        (by decide)
      · simp only [List.length_append, hlen]
        have : (txt "ENDT").length = 4 := by decide
        have : (txt "*       ").length = 8 := by decide
        omega
      · intro hm
        rcases List.mem_append.mp hm with hm | hm
        · exact absurd hm (by decide)
        · rcases List.mem_append.mp hm with hm | hm
          · obtain ⟨f, hf, hm⟩ := List.mem_flatten.mp hm
            exact hd f hf hm
          · exact absurd hm (by decide)
      · rw [← List.append_assoc]; exact lastSolid_append (by decide) hET

/-- the written table id field -/
def tidTxt (wide : Bool) (tid : Int) : Txt := padL (if wide then 16 else 8) (dec tid)

/-- the fields of the physical lines of the card -/
def tabRowsTxt (wide : Bool) (tid : Int) (pairs : List (Txt × Txt)) : List (List Txt) :=
  (if wide then [[tidTxt wide tid], []] else [[tidTxt wide tid]]) ++ tabled1Rows wide pairs

theorem tab_rows_fields (wide : Bool) (name : Txt) (tid : Int) (pairs : List (Txt × Txt)) (h : TabIn wide name tid pairs) :
    ((tabled1Rows wide pairs).map fun r => (if wide then txt "*       " else blanks 8) ++ r.flatten).map
        (lineFields (if wide then .f16 else .f8) false) =
      (tabled1Rows wide pairs).map (List.map nasScan) := by
  rw [tabled1Rows_eq]
  obtain ⟨h1, h2⟩ := fullChunks_spec (if wide then 2 else 4) pairs
  have h3 := fullChunks_rest_lt (if wide then 2 else 4) (by cases wide <;> decide) pairs
  generalize fullChunks (if wide then 2 else 4) pairs = fc at h1 h2 h3
  have hsub1 : ∀ g ∈ fc.1, ∀ p ∈ g, p ∈ pairs := by
    intro g hg p hp
    rw [← h1]
    exact List.mem_append_left _ (List.mem_flatten.mpr ⟨g, hg, hp⟩)
  have hsub2 : ∀ p ∈ fc.2, p ∈ pairs := by
    intro p hp; rw [← h1]; exact List.mem_append_right _ hp
  simp only [List.map_append, List.map_map, List.map_cons, List.map_nil]
  congr 1
  · apply List.map_congr_left
    intro g hg
    exact tab_row_full wide name tid pairs h g (h2 g hg) (hsub1 g hg)
  · congr 1
    have := tab_row_last wide name tid pairs h fc.2 h3 hsub2
    simpa using this

theorem rdcards_tabled1 (wide : Bool) (name : Txt) (tid : Int) (pairs : List (Txt × Txt)) (h : TabIn wide name tid pairs) :
    rdcards name (tabled1Lines wide name tid pairs) =
      [(cardVals ([] : Txt) (if wide then 4 else 8) (tabRowsTxt wide tid pairs)).map nasScan] := by
  have hrows := tab_rows_fields wide name tid pairs h
  have hnm : ∀ (x : Txt) (r : Txt), startsWith (lower name) (lower (padR 8 (name ++ x) ++ r)) = true := by
    intro x r
    have : padR 8 (name ++ x) ++ r = name ++ (x ++ blanks (8 - (name ++ x).length) ++ r) := by simp [padR]
    rw [this, lower_append]; exact startsWith_append _ _
  rw [cardVals_map, nasScan_nil]
  unfold rdcards
  cases wide with
  | false =>
      simp only [Bool.false_eq_true, if_false] at hrows ⊢
      have hlen := h.name_len; simp at hlen
      have hfl : FixedLine 8 (padR 8 name) ([] ++ [padL 8 (dec tid)]) 0 := by
        refine FixedLine.build 8 _ [] _ 0 (padR_length hlen) ?_ ?_ ?_ ?_ (lastSolid_padL_dec 8 tid) (by simp)
        · intro hm; rcases mem_padR hm with hm | hm
          · exact h.name_d hm
          · exact absurd hm (by decide)
        · intro hm; rcases mem_padR hm with hm | hm
          · exact h.name_c hm
          · exact absurd hm (by decide)
        · intro f hf; simp at hf; subst hf
          exact ⟨padL_length (by have := h.tid_len; simpa using this),
            notin_padL_dec '$' (by decide) (by decide) (by decide) 8 tid,
            notin_padL_dec ',' (by decide) (by decide) (by decide) 8 tid⟩
        · intro e; simp [padL] at e; exact dec_ne_nil tid e.2
      have hstar : (padR 8 name).contains '*' = false := by
        rw [List.contains_eq_mem]; simp only [decide_eq_false_iff_not]
        intro hm; rcases mem_padR hm with hm | hm
        · exact h.name_s hm
        · exact absurd hm (by decide)
      have hm := hfl.modeOf
      rw [hstar] at hm; simp only [Bool.false_eq_true, if_false] at hm
      have hl1 : padR 8 name ++ padL 8 (dec tid) = padR 8 name ++ ([] ++ [padL 8 (dec tid)]).flatten ++ blanks 0 := by
        simp [blanks]
      have hlines : tabled1Lines false name tid pairs =
          (padR 8 name ++ padL 8 (dec tid)) ::
            (((tabled1Rows false pairs).map fun r => blanks 8 ++ r.flatten) ++ []) := by
        simp [tabled1Lines]
      rw [hlines, List.length_cons, hl1, rdcardsAux_card (lower name) _ _ _ [] (by
          have := hnm [] (([] ++ [padL 8 (dec tid)]).flatten ++ blanks 0)
          simpa [List.append_assoc] using this)
        (by
          rw [hm]; intro x hx
          obtain ⟨r, _, rfl⟩ := List.mem_map.mp hx
          exact isCont_blanks8 _)
        (by simp), hm, hfl.fields .f8 (by decide) (by decide) true, hrows, rdcardsAux_nil]
      simp [tabRowsTxt, tidTxt, Mode.inc]
  | true =>
      simp only [if_true] at hrows ⊢
      have hlen := h.name_len; simp at hlen
      have hfl : FixedLine 16 (padR 8 (name ++ ['*'])) ([] ++ [padL 16 (dec tid)]) 0 := by
        refine FixedLine.build 16 _ [] _ 0 (padR_length (by simpa using hlen)) ?_ ?_ ?_ ?_ (lastSolid_padL_dec 16 tid) (by simp)
        · intro hm; rcases mem_padR hm with hm | hm
          · rcases List.mem_append.mp hm with hm | hm
            · exact h.name_d hm
            · exact absurd hm (by decide)
          · exact absurd hm (by decide)
        · intro hm; rcases mem_padR hm with hm | hm
          · rcases List.mem_append.mp hm with hm | hm
            · exact h.name_c hm
            · exact absurd hm (by decide)
          · exact absurd hm (by decide)
        · intro f hf; simp at hf; subst hf
          exact ⟨padL_length (by have := h.tid_len; simpa using this),
            notin_padL_dec '$' (by decide) (by decide) (by decide) 16 tid,
            notin_padL_dec ',' (by decide) (by decide) (by decide) 16 tid⟩
        · intro e; simp [padL] at e; exact dec_ne_nil tid e.2
      have hstar : (padR 8 (name ++ ['*'])).contains '*' = true := by
        rw [List.contains_eq_mem]; simp [padR]
      have hm := hfl.modeOf
      rw [hstar] at hm; simp only [if_true] at hm
      have hl1 : padR 8 (name ++ ['*']) ++ padL 16 (dec tid) =
          padR 8 (name ++ ['*']) ++ ([] ++ [padL 16 (dec tid)]).flatten ++ blanks 0 := by
        simp [blanks]
      have hlines : tabled1Lines true name tid pairs =
          (padR 8 (name ++ ['*']) ++ padL 16 (dec tid)) ::
            ((['*'] :: (tabled1Rows true pairs).map fun r => txt "*       " ++ r.flatten) ++ []) := by
        simp [tabled1Lines]
      rw [hlines, List.length_cons, hl1, rdcardsAux_card (lower name) _ _ _ [] (by
          have := hnm ['*'] (([] ++ [padL 16 (dec tid)]).flatten ++ blanks 0)
          simpa [List.append_assoc] using this)
        (by
          rw [hm]; intro x hx
          rcases List.mem_cons.mp hx with rfl | hx
          · rfl
          · obtain ⟨r, _, rfl⟩ := List.mem_map.mp hx
            exact isCont_star16 _)
        (by simp), hm, hfl.fields .f16 (by decide) (by decide) true, List.map_cons, lineFields_star, hrows, rdcardsAux_nil]
      simp [tabRowsTxt, tidTxt, Mode.inc]

theorem tabRows_head (wide : Bool) (tid : Int) (pairs : List (Txt × Txt)) :
    ∃ rest, cardVals ([] : Txt) (if wide then 4 else 8) (tabRowsTxt wide tid pairs) = tidTxt wide tid :: rest := by
  have hne : ∃ q qs, tabled1Rows wide pairs = q :: qs := by
    rw [tabled1Rows_eq]
    cases (fullChunks (if wide then 2 else 4) pairs).1.map flat2 with
    | nil => exact ⟨_, _, rfl⟩
    | cons a b => exact ⟨_, _, rfl⟩
  obtain ⟨q, qs, hq⟩ := hne
  cases wide <;> simp [tabRowsTxt, hq, cardVals, padTo]

/-- `rdtabled1 (wttabled1 …)` on physical lines -/
theorem rdTabled1_written (wide : Bool) (name : Txt) (tid : Int) (pairs : List (Txt × Txt)) (h : TabIn wide name tid pairs) :
    rdTabled1 name (tabled1Lines wide name tid pairs) =
      some [(Val.int tid, pairs.map fun p => ((nasScan p.1).arr, (nasScan p.2).arr))] := by
  unfold rdTabled1
  rw [rdcards_tabled1 wide name tid pairs h]
  obtain ⟨rest, hrest⟩ := tabRows_head wide tid pairs
  have htp := tabled1_fields wide (tidTxt wide tid) pairs
  have hc : ((cardVals ([] : Txt) (if wide then 4 else 8) (tabRowsTxt wide tid pairs)).map nasScan).map Val.arr =
      (cardVals ([] : Txt) (if wide then 4 else 8) (tabRowsTxt wide tid pairs)).map (fun t => (nasScan t).arr) := by
    rw [List.map_map]; rfl
  have hk : (nasScan (tidTxt wide tid)).arr = Val.int tid := by
    simp [tidTxt, nasScan_padL, Val.arr]
  simp only [List.foldl_cons, List.foldl_nil, hc]
  rw [tablePairs_map]
  simp only [tabRowsTxt] at htp hrest ⊢
  rw [htp, hrest]
  simp [hk, dictPut]

end PyYetiVerif.Bulk
