import PyYetiVerif.Lemmas.Rainflow
import Mathlib.Algebra.Order.Ring.Abs
import Mathlib.Algebra.Order.Field.Basic
import Mathlib.Tactic.Linarith
/-!
"The largest range is always counted" (C05) for sequences of true reversal points.

For input that alternates strictly (every interior point is a strict local extremum) the stack of
the rainflow machine (newest first) always (i) alternates, (ii) has strictly decreasing ranges from
the oldest pair to the newest, (iii) spans every point read so far.  Hence at the end every point
lies between the two oldest stack points, whose range is the first half cycle counted by step 6.
-/
set_option linter.unusedSectionVars false
namespace PyYetiVerif.Rainflow

variable {α : Type} [Field α] [LinearOrder α] [IsStrictOrderedRing α]

/-- `b` is a strict local extremum between `a` and `c` -/
def Turn (a b c : α) : Prop := (a < b ∧ c < b) ∨ (b < a ∧ b < c)

theorem Turn.symm {a b c : α} (h : Turn a b c) : Turn c b a := by
  rcases h with ⟨h1, h2⟩ | ⟨h1, h2⟩
  · exact Or.inl ⟨h2, h1⟩
  · exact Or.inr ⟨h2, h1⟩

/-- consecutive triples turn; a two-point list has distinct entries.  (Symmetric under reversal, so
it is used both for the input, oldest first, and for the stack, newest first.) -/
def Alt : List α → Prop
  | c :: b :: a :: rest => Turn a b c ∧ Alt (b :: a :: rest)
  | [b, a] => a ≠ b
  | _ => True

/-- ranges strictly decrease from the oldest pair to the newest (stack newest first) -/
def Dec : List α → Prop
  | c :: b :: a :: rest => absd b c < absd a b ∧ Dec (b :: a :: rest)
  | _ => True

def InHull (x : α) (st : List α) : Prop := ∃ p ∈ st, ∃ q ∈ st, p ≤ x ∧ x ≤ q

theorem absd_abs (a b : α) : absd a b = |a - b| := by
  unfold absd
  split
  · rw [abs_sub_comm, abs_of_pos]; linarith
  · rw [abs_of_nonneg]; linarith

/-- step 5 / step 4 fire (`X ≥ Y`) at a turn: the new point reaches at least as far as `a` -/
theorem order_fire {a b c : α} (ht : Turn a b c) (hx : ¬ absd b c < absd a b) :
    (c ≤ a ∧ a < b) ∨ (b < a ∧ a ≤ c) := by
  simp only [absd_abs, not_lt] at hx
  rcases ht with ⟨h1, h2⟩ | ⟨h1, h2⟩
  · left
    rw [abs_of_neg (by linarith : a - b < 0), abs_of_pos (by linarith : b - c > 0)] at hx
    exact ⟨by linarith, h1⟩
  · right
    rw [abs_of_pos (by linarith : a - b > 0), abs_of_neg (by linarith : b - c < 0)] at hx
    exact ⟨h1, by linarith⟩

/-- the loop exits (`X < Y`) at a turn: the new point lies strictly between `a` and `b` -/
theorem order_exit {a b c : α} (ht : Turn a b c) (hx : absd b c < absd a b) :
    (a < c ∧ c < b) ∨ (b < c ∧ c < a) := by
  simp only [absd_abs] at hx
  rcases ht with ⟨h1, h2⟩ | ⟨h1, h2⟩
  · left
    rw [abs_of_neg (by linarith : a - b < 0), abs_of_pos (by linarith : b - c > 0)] at hx
    exact ⟨by linarith, h2⟩
  · right
    rw [abs_of_pos (by linarith : a - b > 0), abs_of_neg (by linarith : b - c < 0)] at hx
    exact ⟨h2, by linarith⟩

theorem InHull.mono {x : α} {s t : List α} (h : InHull x s) (hst : ∀ p ∈ s, p ∈ t) : InHull x t := by
  obtain ⟨p, hp, q, hq, h1, h2⟩ := h
  exact ⟨p, hst p hp, q, hst q hq, h1, h2⟩

/-- replace stack members by others that are at least as extreme -/
theorem InHull.replace {x : α} {s t : List α} (h : InHull x s)
    (hlo : ∀ p ∈ s, ∃ p' ∈ t, p' ≤ p) (hhi : ∀ q ∈ s, ∃ q' ∈ t, q ≤ q') : InHull x t := by
  obtain ⟨p, hp, q, hq, h1, h2⟩ := h
  obtain ⟨p', hp', hpp⟩ := hlo p hp
  obtain ⟨q', hq', hqq⟩ := hhi q hq
  exact ⟨p', hp', q', hq', le_trans hpp h1, le_trans h2 hqq⟩

/-- direction of the newest range -/
def Up : List α → Prop
  | c :: b :: _ => c < b
  | _ => False
def Down : List α → Prop
  | c :: b :: _ => b < c
  | _ => False

/-- The inner loop keeps alternation, restores decreasing ranges, keeps every seen point inside
the span of the stack, keeps the newest point on top and keeps the direction of the newest range. -/
theorem reduce1_inv (st : List α) (seen : List α)
    (hA : Alt st) (hD : Dec st.tail) (hH : ∀ x ∈ seen, InHull x st) (hl : 2 ≤ st.length) :
    Alt (reduce1 st).1 ∧ Dec (reduce1 st).1 ∧ (∀ x ∈ seen, InHull x (reduce1 st).1) ∧
      2 ≤ (reduce1 st).1.length ∧ (reduce1 st).1.head? = st.head? ∧
      (Up st → Up (reduce1 st).1) ∧ (Down st → Down (reduce1 st).1) := by
  fun_induction reduce1 st with
  | case1 c b a hlt =>
      exact ⟨hA, ⟨hlt, trivial⟩, hH, hl, rfl, id, id⟩
  | case2 c b a hx =>
      have ho := order_fire hA.1 hx
      refine ⟨?_, trivial, ?_, by simp, rfl, id, id⟩
      · show b ≠ c
        rcases hA.1 with ⟨_, h⟩ | ⟨_, h⟩
        · exact ne_of_gt h
        · exact ne_of_lt h
      · intro x hxs
        apply (hH x hxs).replace
        · intro p hp
          simp only [List.mem_cons, List.mem_nil_iff, or_false] at hp
          rcases hp with rfl | rfl | rfl
          · exact ⟨p, by simp, le_refl _⟩
          · exact ⟨p, by simp, le_refl _⟩
          · rcases ho with ⟨h1, _⟩ | ⟨h1, _⟩
            · exact ⟨c, by simp, h1⟩
            · exact ⟨b, by simp, le_of_lt h1⟩
        · intro q hq
          simp only [List.mem_cons, List.mem_nil_iff, or_false] at hq
          rcases hq with rfl | rfl | rfl
          · exact ⟨q, by simp, le_refl _⟩
          · exact ⟨q, by simp, le_refl _⟩
          · rcases ho with ⟨_, h2⟩ | ⟨_, h2⟩
            · exact ⟨b, by simp, le_of_lt h2⟩
            · exact ⟨c, by simp, h2⟩
  | case3 c b a r rest hlt =>
      exact ⟨hA, ⟨hlt, hD⟩, hH, hl, rfl, id, id⟩
  | case4 c b a r rest hx res ih =>
      -- orderings: either c ≤ a < b < r or r < b < a ≤ c
      have hT1 : Turn a b c := hA.1
      have hT2 : Turn r a b := hA.2.1
      have hAt : Alt (a :: r :: rest) := hA.2.2
      have hYr : absd a b < absd r a := hD.1
      have hDr : Dec (a :: r :: rest) := hD.2
      have ho := order_fire hT1 hx
      have ho2 := order_exit hT2 hYr
      have hord : (c ≤ a ∧ a < b ∧ b < r) ∨ (r < b ∧ b < a ∧ a ≤ c) := by
        rcases ho with ⟨h1, h2⟩ | ⟨h1, h2⟩ <;> rcases ho2 with ⟨g1, g2⟩ | ⟨g1, g2⟩
        · exact absurd (lt_trans h2 g2) (lt_irrefl _)
        · exact Or.inl ⟨h1, h2, g2⟩
        · exact Or.inr ⟨g1, h1, h2⟩
        · exact absurd (lt_trans h1 g1) (lt_irrefl _)
      -- the shortened stack alternates
      have hA2 : Alt (c :: r :: rest) := by
        cases rest with
        | nil =>
            show r ≠ c
            rcases hord with ⟨h1, h2, h3⟩ | ⟨h1, h2, h3⟩
            · exact ne_of_gt (lt_of_le_of_lt h1 (lt_trans h2 h3))
            · exact ne_of_lt (lt_of_lt_of_le (lt_trans h1 h2) h3)
        | cons q rest' =>
            refine ⟨?_, hAt.2⟩
            have hq : Turn q r a := hAt.1
            rcases hq with ⟨q1, q2⟩ | ⟨q1, q2⟩
            · left
              refine ⟨q1, ?_⟩
              rcases hord with ⟨h1, h2, h3⟩ | ⟨h1, h2, h3⟩
              · exact lt_of_le_of_lt h1 (lt_trans h2 h3)
              · exact absurd (lt_trans (lt_trans h1 h2) q2) (lt_irrefl _)
            · right
              refine ⟨q1, ?_⟩
              rcases hord with ⟨h1, h2, h3⟩ | ⟨h1, h2, h3⟩
              · exact absurd (lt_trans q2 (lt_trans h2 h3)) (lt_irrefl _)
              · exact lt_of_lt_of_le (lt_trans h1 h2) h3
      have hD2 : Dec (c :: r :: rest).tail := by
        cases rest with
        | nil => trivial
        | cons q rest' => exact hDr.2
      have hH2 : ∀ x ∈ seen, InHull x (c :: r :: rest) := by
        intro x hxs
        apply (hH x hxs).replace
        · intro p hp
          simp only [List.mem_cons] at hp
          rcases hp with rfl | rfl | rfl | hp
          · exact ⟨p, by simp, le_refl _⟩
          · rcases hord with ⟨h1, h2, h3⟩ | ⟨h1, h2, h3⟩
            · exact ⟨c, by simp, le_trans h1 (le_of_lt h2)⟩
            · exact ⟨r, by simp, le_of_lt h1⟩
          · rcases hord with ⟨h1, h2, h3⟩ | ⟨h1, h2, h3⟩
            · exact ⟨c, by simp, h1⟩
            · exact ⟨r, by simp, le_of_lt (lt_trans h1 h2)⟩
          · exact ⟨p, by simp only [List.mem_cons]; exact Or.inr hp, le_refl _⟩
        · intro q hq
          simp only [List.mem_cons] at hq
          rcases hq with rfl | rfl | rfl | hq
          · exact ⟨q, by simp, le_refl _⟩
          · rcases hord with ⟨h1, h2, h3⟩ | ⟨h1, h2, h3⟩
            · exact ⟨r, by simp, le_of_lt h3⟩
            · exact ⟨c, by simp, le_trans (le_of_lt h2) h3⟩
          · rcases hord with ⟨h1, h2, h3⟩ | ⟨h1, h2, h3⟩
            · exact ⟨r, by simp, le_of_lt (lt_trans h2 h3)⟩
            · exact ⟨c, by simp, h3⟩
          · exact ⟨q, by simp only [List.mem_cons]; exact Or.inr hq, le_refl _⟩
      obtain ⟨i1, i2, i3, i4, i5, i6, i7⟩ := ih hA2 hD2 hH2 (by simp)
      refine ⟨i1, i2, i3, i4, i5, ?_, ?_⟩
      · intro hup
        apply i6
        show c < r
        have hcb : c < b := hup
        rcases hord with ⟨h1, h2, h3⟩ | ⟨h1, h2, h3⟩
        · exact lt_trans hcb h3
        · exact absurd (lt_of_lt_of_le (lt_trans hcb h2) h3) (lt_irrefl _)
      · intro hdn
        apply i7
        show r < c
        have hbc : b < c := hdn
        rcases hord with ⟨h1, h2, h3⟩ | ⟨h1, h2, h3⟩
        · exact absurd (lt_of_le_of_lt h1 (lt_trans h2 hbc)) (lt_irrefl _)
        · exact lt_trans h1 hbc
  | case5 st h1 h2 =>
      match st, hl, h1, h2 with
      | [c, b], _, _, _ => exact ⟨hA, trivial, hH, by simp, rfl, id, id⟩
      | [c, b, a], _, h1, _ => exact absurd rfl (h1 c b a)
      | c :: b :: a :: r :: rest, _, _, h2 => exact absurd rfl (h2 c b a r rest)

/-! ### the fold over the input -/

structure StInv (st seen : List α) : Prop where
  alt : Alt st
  dec : Dec st
  hull : ∀ x ∈ seen, InHull x st
  len : 2 ≤ st.length

theorem turn_ne_left {a b c : α} (h : Turn a b c) : a ≠ b := by
  rcases h with ⟨h1, _⟩ | ⟨h1, _⟩
  · exact ne_of_lt h1
  · exact ne_of_gt h1

theorem fold_inv (rest : List α) (p c : α) (st : List α) (out : List (α × α × Bool))
    (seen : List α) (hI : StInv st seen) (hhead : st.head? = some c)
    (hdir : (c < p → Up st) ∧ (p < c → Down st)) (hin : Alt (p :: c :: rest)) :
    StInv (rest.foldl step1 (st, out)).1 (seen ++ rest) := by
  induction rest generalizing p c st out seen with
  | nil => simpa using hI
  | cons n rest' ih =>
      simp only [List.foldl_cons, step1]
      -- shape of the stack
      obtain ⟨s, tl, rfl⟩ : ∃ s tl, st = c :: s :: tl := by
        match st, hI.len, hhead with
        | x :: y :: tl, _, hh => simp at hh; subst hh; exact ⟨y, tl, rfl⟩
      have hT : Turn p c n := hin.1.symm
      have hA : Alt (n :: c :: s :: tl) := by
        refine ⟨?_, hI.alt⟩
        rcases hT with ⟨h1, h2⟩ | ⟨h1, h2⟩
        · left; exact ⟨hdir.2 h1, h2⟩
        · right; exact ⟨hdir.1 h1, h2⟩
      have hH : ∀ x ∈ seen ++ [n], InHull x (n :: c :: s :: tl) := by
        intro x hx
        rcases List.mem_append.mp hx with h | h
        · exact (hI.hull x h).mono (fun q hq => List.mem_cons_of_mem _ hq)
        · simp only [List.mem_cons, List.mem_nil_iff, or_false] at h
          subst h
          exact ⟨x, by simp, x, by simp, le_refl _, le_refl _⟩
      obtain ⟨i1, i2, i3, i4, i5, i6, i7⟩ :=
        reduce1_inv (n :: c :: s :: tl) (seen ++ [n]) hA hI.dec hH (by simp)
      have := ih c n (reduce1 (n :: c :: s :: tl)).1 (out ++ (reduce1 (n :: c :: s :: tl)).2) (seen ++ [n]) ⟨i1, i2, i3, i4⟩
        (by simpa using i5) ⟨fun h => i6 h, fun h => i7 h⟩ hin.2
      simpa [List.append_assoc] using this

/-- the two oldest entries (oldest, second oldest) of a stack given newest first -/
def bot2 : List α → Option (α × α)
  | [b, a] => some (a, b)
  | _ :: b :: a :: rest => bot2 (b :: a :: rest)
  | _ => none

theorem bot2_some (st : List α) (h : 2 ≤ st.length) : ∃ a0 a1, bot2 st = some (a0, a1) := by
  fun_induction bot2 st with
  | case1 b a => exact ⟨a, b, rfl⟩
  | case2 x b a rest ih => exact ih (by simp)
  | case3 st h1 h2 =>
      match st, h, h1, h2 with
      | [b, a], _, h1, _ => exact absurd rfl (h1 b a)
      | x :: b :: a :: rest, _, _, h2 => exact absurd rfl (h2 x b a rest)

theorem bot2_reverse (st : List α) (a0 a1 : α) (h : bot2 st = some (a0, a1)) :
    ∃ r, st.reverse = a0 :: a1 :: r := by
  fun_induction bot2 st with
  | case1 b a => simp at h; obtain ⟨rfl, rfl⟩ := h; exact ⟨[], rfl⟩
  | case2 x b a rest ih =>
      obtain ⟨r, hr⟩ := ih h
      exact ⟨r ++ [x], by rw [List.reverse_cons, hr]; rfl⟩
  | case3 st h1 h2 => simp at h

theorem hull_bot2 (st : List α) (a0 a1 : α) (hA : Alt st) (hD : Dec st)
    (h : bot2 st = some (a0, a1)) : ∀ p ∈ st, min a0 a1 ≤ p ∧ p ≤ max a0 a1 := by
  fun_induction bot2 st with
  | case1 b a =>
      simp at h; obtain ⟨rfl, rfl⟩ := h
      intro p hp
      simp only [List.mem_cons, List.mem_nil_iff, or_false] at hp
      rcases hp with rfl | rfl
      · exact ⟨min_le_right _ _, le_max_right _ _⟩
      · exact ⟨min_le_left _ _, le_max_left _ _⟩
  | case2 x b a rest ih =>
      have ih' := ih hA.2 hD.2 h
      intro p hp
      simp only [List.mem_cons] at hp
      rcases hp with rfl | hp
      · have hb := ih' b (by simp)
        have ha := ih' a (by simp)
        rcases order_exit hA.1 hD.1 with ⟨h1, h2⟩ | ⟨h1, h2⟩
        · exact ⟨le_trans ha.1 (le_of_lt h1), le_trans (le_of_lt h2) hb.2⟩
        · exact ⟨le_trans hb.1 (le_of_lt h1), le_trans (le_of_lt h2) ha.2⟩
      · exact ih' p (by simpa [List.mem_cons] using hp)
  | case3 st h1 h2 => simp at h

/-- For true reversal points (length ≥ 2, every interior point a strict local extremum) the
overall range of the input is one of the counted ranges. -/
theorem largest_range1 (pts : List α) (hl : 2 ≤ pts.length) (hA : Alt pts) :
    ∃ row ∈ rainflow1 pts, ∀ x ∈ pts, ∀ y ∈ pts, |x - y| ≤ row.1 := by
  match pts, hl, hA with
  | p0 :: p1 :: rest, _, hA =>
      have hne : p0 ≠ p1 := by
        cases rest with
        | nil => exact fun h => hA h.symm
        | cons p2 r => exact (turn_ne_left hA.1.symm)
      have h0 : StInv [p1, p0] [p0, p1] :=
        ⟨hne, trivial, by
          intro x hx
          simp only [List.mem_cons, List.mem_nil_iff, or_false] at hx
          rcases hx with rfl | rfl
          · exact ⟨x, by simp, x, by simp, le_refl _, le_refl _⟩
          · exact ⟨x, by simp, x, by simp, le_refl _, le_refl _⟩, by simp⟩
      have hf := fold_inv rest p0 p1 [p1, p0] ([] ++ (reduce1 [p1, p0]).2) [p0, p1] h0 rfl
        ⟨fun h => h, fun h => h⟩ hA
      have hfold : (p0 :: p1 :: rest).foldl step1 ([], [])
          = rest.foldl step1 ([p1, p0], [] ++ (reduce1 [p1, p0]).2) := by
        simp [List.foldl_cons, step1, reduce1]
      obtain ⟨a0, a1, hb⟩ := bot2_some _ hf.len
      obtain ⟨r, hr⟩ := bot2_reverse _ a0 a1 hb
      have hh := hull_bot2 _ a0 a1 hf.alt hf.dec hb
      refine ⟨(absd a0 a1, a0 + a1, false), ?_, ?_⟩
      · unfold rainflow1
        rw [hfold]
        simp only [List.mem_append]
        right
        rw [hr]
        simp [finish1]
      · intro x hx y hy
        have bound : ∀ z ∈ p0 :: p1 :: rest, min a0 a1 ≤ z ∧ z ≤ max a0 a1 := by
          intro z hz
          have hz' : z ∈ [p0, p1] ++ rest := by simpa using hz
          obtain ⟨p, hp, q, hq, h1, h2⟩ := hf.hull z hz'
          exact ⟨le_trans (hh p hp).1 h1, le_trans h2 (hh q hq).2⟩
        have bx := bound x hx
        have by' := bound y hy
        show |x - y| ≤ absd a0 a1
        rw [absd_abs, abs_le]
        have hmm : max a0 a1 - min a0 a1 = |a0 - a1| := by
          rcases le_total a0 a1 with h | h
          · rw [max_eq_right h, min_eq_left h, abs_sub_comm, abs_of_nonneg (by linarith)]
          · rw [max_eq_left h, min_eq_right h, abs_of_nonneg (by linarith)]
        constructor <;> linarith [bx.1, bx.2, by'.1, by'.2]

end PyYetiVerif.Rainflow
