import PyYetiVerif.Lemmas.FixtimeFull
import Mathlib.Data.List.Sort
/-! Helper lemmas for C19, second part: the most frequent rate, `_del_outtimes` membership,
`_del_loners` only adds, `_mk_initial_tnew` never raises, the alignment shift. -/
namespace PyYetiVerif.Fixtime

/-! ### `value_counts().index[0]` -/

/-- one step of `modeFirst`'s fold -/
def modeStep (L : List Int) (best : Option (Int × Nat)) (x : Int) : Option (Int × Nat) :=
  let c := countOf x L
  match best with
  | none => some (x, c)
  | some (b, cb) => if cb < c then some (x, c) else some (b, cb)

theorem modeFirst_eq (l : List Int) : modeFirst l = l.foldl (modeStep l) none := rfl

theorem modeFold_spec (L : List Int) : ∀ (r : List Int) (best : Option (Int × Nat)),
    (∀ b cb, best = some (b, cb) → cb = countOf b L ∧ b ∈ L) → (∀ x ∈ r, x ∈ L) →
    ∀ k c, r.foldl (modeStep L) best = some (k, c) →
      c = countOf k L ∧ k ∈ L ∧ (∀ b cb, best = some (b, cb) → cb ≤ c) ∧ ∀ y ∈ r, countOf y L ≤ c
  | [], best, hb, _, k, c, h => by
      simp only [List.foldl_nil] at h
      obtain ⟨h1, h2⟩ := hb k c h
      refine ⟨h1, h2, ?_, by simp⟩
      intro b cb hbb
      rw [h] at hbb
      injection hbb with e
      injection e with _ e2
      omega
  | x :: r, best, hb, hr, k, c, h => by
      simp only [List.foldl_cons] at h
      have hx : x ∈ L := hr x (by simp)
      have hb' : ∀ b cb, modeStep L best x = some (b, cb) → cb = countOf b L ∧ b ∈ L := by
        intro b cb hs
        unfold modeStep at hs
        cases best with
        | none =>
            simp only at hs
            injection hs with e; injection e with e1 e2
            subst e1; subst e2; exact ⟨rfl, hx⟩
        | some p =>
            obtain ⟨b0, cb0⟩ := p
            simp only at hs
            split at hs
            · injection hs with e; injection e with e1 e2
              subst e1; subst e2; exact ⟨rfl, hx⟩
            · injection hs with e; injection e with e1 e2
              subst e1; subst e2; exact hb b0 cb0 rfl
      obtain ⟨h1, h2, h3, h4⟩ := modeFold_spec L r (modeStep L best x) hb'
        (fun y hy => hr y (List.mem_cons_of_mem _ hy)) k c h
      refine ⟨h1, h2, ?_, ?_⟩
      · intro b cb hbb
        subst hbb
        unfold modeStep at h3
        simp only at h3
        by_cases hc : cb < countOf x L
        · have := h3 x (countOf x L) (by rw [if_pos hc]); omega
        · exact h3 b cb (by rw [if_neg hc])
      · intro y hy
        rcases List.mem_cons.mp hy with rfl | hy
        · unfold modeStep at h3
          cases best with
          | none => exact h3 y (countOf y L) rfl
          | some p =>
              obtain ⟨b0, cb0⟩ := p
              simp only at h3
              by_cases hc : cb0 < countOf y L
              · exact h3 y (countOf y L) (by rw [if_pos hc])
              · have := h3 b0 cb0 (by rw [if_neg hc]); omega
        · exact h4 y hy

/-- `modeFirst`: the returned value occurs in the list, the count is its count, no value occurs
more often -/
theorem modeFirst_spec (l : List Int) (k : Int) (c : Nat) (h : modeFirst l = some (k, c)) :
    k ∈ l ∧ c = countOf k l ∧ ∀ y ∈ l, countOf y l ≤ c := by
  rw [modeFirst_eq] at h
  obtain ⟨h1, h2, _, h4⟩ := modeFold_spec l l none (by simp) (fun _ hx => hx) k c h
  exact ⟨h2, h1, h4⟩

/-! ### `_del_outtimes`: who stays -/

/-- the 3-sigma test of `_del_outtimes` for one time `x` against the vector `t` -/
def outlierAt (t : List ℚ) (x : ℚ) : Bool :=
  let n : ℚ := (t.length : ℚ)
  let mn := sumQ t / n
  let var := sumQ (t.map fun y => (y - mn) * (y - mn)) / (n - 1)
  decide (9 * var < (x - mn) * (x - mn))

theorem outlierFlags_eq (t : List ℚ) : outlierFlags t = t.map (outlierAt t) := rfl

theorem zip_filterMap_filter (g : Nat → Option ℚ) (f : ℚ → Bool) (want : Bool) : ∀ (keep : List Nat),
    (∀ i ∈ keep, (g i).isSome) →
    ((keep.zip ((keep.filterMap g).map f)).filter fun x => x.2 == want).map (·.1) =
      keep.filter fun i => match g i with
        | some x => f x == want
        | none => false
  | [], _ => by simp
  | i :: r, h => by
      have hi := h i (by simp)
      obtain ⟨x, hx⟩ := Option.isSome_iff_exists.mp hi
      have ih := zip_filterMap_filter g f want r (fun j hj => h j (List.mem_cons_of_mem _ hj))
      rw [List.filterMap_cons, hx]
      simp only [List.map_cons, List.zip_cons_cons, List.filter_cons, hx]
      by_cases hw : (f x == want) = true
      · simp only [hw, if_true, List.map_cons]; rw [ih]
      · simp only [hw, Bool.false_eq_true, if_false]; rw [ih]

/-- `keep` after `_del_outtimes(…, delouttimes=True)`: the members of `keep` whose time passes the
3-sigma test computed on the times of `keep` -/
theorem delOuttimes_fst (told : List ℚ) (keep : List Nat) (hk : ∀ i ∈ keep, i < told.length) :
    (delOuttimes told keep true).1 = keep.filter fun i => match told[i]? with
      | some x => !outlierAt (keep.filterMap fun j => told[j]?) x
      | none => false := by
  unfold delOuttimes
  simp only [if_true]
  rw [outlierFlags_eq]
  have := zip_filterMap_filter (fun i => told[i]?) (outlierAt (keep.filterMap fun j => told[j]?)) false keep
    (fun i hi => by simp [hk i hi])
  have e1 : (fun (x : Nat × Bool) => !x.2) = fun x => x.2 == false := by
    funext x; cases x.2 <;> rfl
  rw [e1, this]
  apply List.filter_congr
  intro i _
  cases told[i]? with
  | none => rfl
  | some x =>
      simp only
      cases outlierAt (List.filterMap (fun j => told[j]?) keep) x <;> rfl

/-! ### `_del_loners` only adds -/

theorem length_delLoners (flags : List Bool) (n nz : Nat) :
    (delLoners flags n nz).length = flags.length := by
  unfold delLoners
  simp only
  split_ifs <;> simp

theorem delLoners_keeps (flags : List Bool) (n nz : Nat) (i : Nat) (h : flags[i]? = some true) :
    (delLoners flags n nz)[i]? = some true := by
  have hi : i < flags.length := by
    by_contra hc
    rw [List.getElem?_eq_none (by omega)] at h
    cases h
  unfold delLoners
  simp only
  split_ifs
  · exact h
  · rw [List.getElem?_map, List.getElem?_range hi]
    simp only [Option.map_some]
    rw [List.getElem?_map, List.getElem?_range hi]
    simp [h]

/-! ### `searchsorted` is monotone in the value -/

theorem ssLeft_mono {α : Type} [LinearOrder α] : ∀ (a : List α) (v w : α), v ≤ w → ssLeft a v ≤ ssLeft a w
  | [], _, _, _ => by simp [ssLeft]
  | x :: r, v, w, h => by
      rw [ssLeft_cons, ssLeft_cons]
      by_cases h1 : x < v
      · rw [if_pos h1, if_pos (lt_of_lt_of_le h1 h)]
        have := ssLeft_mono r v w h
        omega
      · rw [if_neg h1]; omega

end PyYetiVerif.Fixtime
