import PyYetiVerif.Model.Op4FixedInput
import PyYetiVerif.Lemmas.Op4Fixed
import PyYetiVerif.Lemmas.Op4Sparse
import PyYetiVerif.Lemmas.Op4Input
/-! C04: the repaired writer on a sparse input writes the file of the ndarray the input stands for. -/
namespace PyYetiVerif.Op4
open PyYetiVerif.Generated.Op4Consts

theorem spStringsFx_eq (cplx : Bool) (f : Nat → Option Entry) (n : Nat)
    (hnz : ∀ r v, f r = some v → v.isZero cplx = false) :
    spStringsFx cplx (ceOf f 0 n) = stringsFx cplx (colOf f 0 n) := by
  have hidx : nzIdx cplx (colOf f 0 n) = idxOf f 0 n := nzIdxFrom_colOf cplx f hnz n 0
  unfold spStringsFx stringsFx
  rw [ceOf_eq, hidx]
  simp only [List.map_map, Function.comp_def, List.map_id']
  have h1 : (idxOf f 0 n).map (fun r => gOf f r) =
      (expand (splitStrings (maxStrRows cplx) (colStats (idxOf f 0 n)))).map (gOf f) := by
    rw [expand_splitStrings _ (maxStrRows_pos cplx), expand_colStats]
  rw [h1, sliceRuns_expand]
  apply List.map_congr_left
  intro q hq
  rw [← hidx] at hq
  have hr := runFx_in_range cplx _ q hq
  rw [colOf_length] at hr
  rw [colOf_slice f n q.1 q.2 hr]

theorem spStringsFx_colEntries (add : Nat → Nat → Nat) (A : SpIn) (c : Nat) :
    spStringsFx A.cplx (colEntries add A c) = stringsFx A.cplx (denseCol add A c) := by
  rw [colEntries_eq, denseCol_eq]
  exact spStringsFx_eq A.cplx _ A.rows fun r v h => foundAt_nz add A r c v h

theorem encColNonbigFx_S (e : Endian) (cplx : Bool) (c : Nat) (col : List Entry) :
    encColNonbigFx e cplx c col = encColNonbigS e cplx c (stringsFx cplx col) := by
  unfold encColNonbigFx encColNonbigS
  split <;> simp_all

theorem encColNonbigFx_zero (e : Endian) (cplx : Bool) (c : Nat) (col : List Entry) (h : nzIdx cplx col = []) :
    encColNonbigFx e cplx c col = [] := by
  unfold encColNonbigFx
  simp [stringsFx, h, colStats, splitStrings]

theorem encColsSpFx_eq (add : Nat → Nat → Nat) (e : Endian) (A : SpIn) :
    (colsWithData add A).flatMap (encColSpFx add e .nonbigmat A) =
      encCols (encColNonbigFx e A.cplx) 0 ((List.range A.ncols).map (denseCol add A)) := by
  rw [List.range_eq_range', encCols_map_range' (encColNonbigFx e A.cplx) (denseCol add A) encCols (fun _ => rfl)
    (fun _ _ _ => rfl) A.ncols 0]
  unfold colsWithData
  rw [List.range_eq_range']
  have hper : ∀ c, c ∈ List.range' 0 A.ncols →
      encColSpFx add e .nonbigmat A c = encColNonbigFx e A.cplx c (denseCol add A c) := by
    intro c _
    simp only [encColSpFx]; rw [encColNonbigFx_S, spStringsFx_colEntries]
  rw [flatMap_filter_nil]
  · exact flatMap_congr' _ _ _ hper
  · intro c hc hp
    rw [hper c hc]
    have hnil := (colEntries_nil_iff add A c).1 ((isEmpty_false_of_ne _).1 hp)
    exact encColNonbigFx_zero e A.cplx c _ hnil

theorem stringsFitFx_S (cplx : Bool) (col : List Entry) :
    stringsFitFx cplx col = stringsFitS cplx (stringsFx cplx col) := rfl

/-- **the binary file the repaired writer writes for a sparse input is the file of the ndarray it stands for** -/
theorem encMatWordsSpFx_eq (add : Nat → Nat → Nat) (e : Endian) (lay : Layout) (name : List Nat) (form : Nat)
    (A : SpIn) :
    encMatWordsSpFx add e lay name form A = encMatWordsFx e lay (denseMat add name form A) := by
  cases lay
  · exact encMatWordsSp_eq add e .dense name form A
  · exact encMatWordsSp_eq add e .bigmat name form A
  · unfold encMatWordsSpFx encMatWordsFx
    simp only [headerWords_G, denseMat, List.length_map, List.length_range, encColsSpFx_eq, List.append_assoc]
    have hall : ((colsWithData add A).all fun c => stringsFitS A.cplx (spStringsFx A.cplx (colEntries add A c)))
        = ((List.range A.ncols).map (denseCol add A)).all (stringsFitFx A.cplx) := by
      rw [Bool.eq_iff_iff]
      simp only [List.all_eq_true, List.mem_map, List.mem_range, colsWithData, List.mem_filter,
        forall_exists_index, and_imp, forall_apply_eq_imp_iff₂]
      constructor
      · intro h c hc
        rw [stringsFitFx_S, ← spStringsFx_colEntries]
        by_cases hp : (!(colEntries add A c).isEmpty) = true
        · exact h c hc hp
        · have : colEntries add A c = [] := (isEmpty_false_of_ne _).1 (by simpa using hp)
          rw [this]; rfl
      · intro h c hc _
        have := h c hc
        rwa [stringsFitFx_S, ← spStringsFx_colEntries] at this
    rw [hall]

theorem writeOneWordsFx_dense (add : Nat → Nat → Nat) (e : Endian) (lay : Layout) (w : WMat) :
    writeOneWordsFx add e lay w = writeMatWordsFx e lay (w.dense add) := by
  cases w with
  | nd m => rfl
  | sp name form A =>
    have henc := encMatWordsSpFx_eq add e lay name form A
    simp only [writeOneWordsFx, writeMatWordsFx, WMat.dense]
    rw [henc]
    have hlen : (denseMat add name form A).cols.length = A.ncols := by simp [denseMat]
    have hall : ((List.range A.ncols).all
          (fun c => decide (recLenFx lay A.cplx (denseCol add A c) < 2147483648))) =
        (denseMat add name form A).cols.all
          (fun col => decide (recLenFx lay (denseMat add name form A).cplx col < 2147483648)) := by
      simp only [denseMat, List.all_map, Function.comp_def]
      rfl
    simp only [hlen, hall]
    rfl

theorem writeAllWordsFx_dense (add : Nat → Nat → Nat) (e : Endian) : ∀ (ws : List (Layout × WMat)),
    writeAllWordsFx add e ws = writeFileWordsFx e (ws.map fun p => (p.1, p.2.dense add)) := by
  intro ws
  induction ws with
  | nil => rfl
  | cons p t ih =>
    obtain ⟨l, w⟩ := p
    simp only [writeAllWordsFx, writeFileWordsFx, List.map_cons, writeOneWordsFx_dense, ih]

end PyYetiVerif.Op4
