import PyYetiVerif.Lemmas.GenMachineInit
import PyYetiVerif.Model.GenMachineApi
/-!
Helper lemmas for `Props/C08Api.lean`: the solver object with its slot and its generator handles
simulates the specification in which every generator is a pure history.
-/
namespace PyYetiVerif.GenMachine

section api
variable {V X W A O Q Y : Type} [Add V] [Add X] [Add W]

/-- one documented request is accepted and is the abstract machine's step -/
theorem stepApi_of_valid (L : Lin V X W) (nt : Nat) (a : ApiState V X W) (op : Op V)
    (hs : 1 ≤ a.s.cur → a.started = true) (hv : ValidOp a.s op)
    (hh : OpInHorizon nt op) :
    ∃ b, stepApi L nt a op = .ok ⟨b, step L a.s op⟩ ∧ (1 ≤ (step L a.s op).cur → b = true) := by
  cases op with
  | send i f =>
    obtain ⟨hi1, _⟩ := hv
    have hlt : ¬ nt ≤ i := by
      have : i < nt := hh
      omega
    have hi0 : ¬ i = 0 := by omega
    exact ⟨true, by simp only [stepApi, hlt, hi0, if_false, step], fun _ => rfl⟩
  | addon f =>
    have h1 : 1 ≤ a.s.cur := hv
    have hst := hs h1
    exact ⟨a.started, by simp only [stepApi, hst, if_true, step], fun _ => hst⟩

/-- the relation between the object and the specification: same handle counter, same slot, and
every generator alive with its arrays equal to the abstract machine run over everything sent to
it so far -/
def Rel (S : Solver V X W A O Q Y) (ob : Obj V X W) (sp : Spec V O) : Prop :=
  ob.count = sp.count ∧ ob.slot = sp.slot ∧
    ∀ g, (ob.gens g = none ∧ sp.gens g = none) ∨
      ∃ gi sg, ob.gens g = some gi ∧ sp.gens g = some sg ∧ gi.nt = sg.nt ∧ gi.dead = false ∧
        gi.a.s = sg.state S ∧ (1 ≤ gi.a.s.cur → gi.a.started = true)

theorem rel_new (S : Solver V X W A O Q Y) : Rel S Obj.new Spec.new :=
  ⟨rfl, rfl, fun _ => Or.inl ⟨rfl, rfl⟩⟩

theorem rel_step (S : Solver V X W A O Q Y) (hstart : ∀ o f0, (S.start o f0).cur = 0)
    (ob : Obj V X W) (sp : Spec V O) (c : Call V O Q) (hr : Rel S ob sp)
    (ha : Admissible S sp c) :
    (objStep S ob c).2 = (specStep S sp c).2 ∧ Rel S (objStep S ob c).1 (specStep S sp c).1 := by
  obtain ⟨hc, hsl, hg⟩ := hr
  cases c with
  | generator nt o f0 =>
    refine ⟨by simp only [objStep, specStep, hc], ?_, ?_, ?_⟩
    · simp only [objStep, specStep, hc]
    · simp only [objStep, specStep, hc]
    · intro g
      by_cases h : g = sp.count
      · subst h
        refine Or.inr ⟨⟨nt, false, ⟨false, S.start o f0⟩⟩, ⟨nt, o, f0, []⟩, ?_, ?_, rfl, rfl, rfl, ?_⟩
        · simp only [objStep, hc, upd_same]
        · simp only [specStep, upd_same]
        · intro h1
          have h0 : (S.start o f0).cur = 0 := hstart o f0
          have h1' : 1 ≤ (S.start o f0).cur := h1
          omega
      · have h' : g ≠ ob.count := by rw [hc]; exact h
        simp only [objStep, specStep, upd_ne _ _ h, upd_ne _ _ h']
        exact hg g
  | send g op =>
    obtain ⟨sg, hsg, hv, hh⟩ := ha
    rcases hg g with ⟨_, hn⟩ | ⟨gi, sg', hgi, hsg', hnt, hdead, hst, hstarted⟩
    · rw [hsg] at hn; exact absurd hn (by simp)
    · have e : sg' = sg := by rw [hsg] at hsg'; exact (Option.some.inj hsg').symm
      subst e
      have hv' : ValidOp gi.a.s op := by rw [hst]; exact hv
      have hh' : OpInHorizon gi.nt op := by rw [hnt]; exact hh
      obtain ⟨b, hb, hb'⟩ := stepApi_of_valid S.L gi.nt gi.a op hstarted hv' hh'
      have hstate : SpecGen.state S { sg' with ops := sg'.ops ++ [op] } = step S.L gi.a.s op := by
        show run S.L (S.start sg'.o sg'.f0) (sg'.ops ++ [op]) = _
        rw [run_append, hst]; rfl
      refine ⟨by simp only [objStep, specStep, hgi, hsg, hdead, hb, Bool.false_eq_true, if_false,
        hstate], ?_, ?_, ?_⟩
      · simp only [objStep, specStep, hgi, hsg, hdead, hb, Bool.false_eq_true, if_false, hc]
      · simp only [objStep, specStep, hgi, hsg, hdead, hb, Bool.false_eq_true, if_false, hsl]
      · intro g'
        by_cases h : g' = g
        · subst h
          refine Or.inr ⟨{ gi with a := ⟨b, step S.L gi.a.s op⟩ },
            { sg' with ops := sg'.ops ++ [op] }, ?_, ?_, hnt, hdead, ?_, hb'⟩
          · simp only [objStep, hgi, hdead, hb, Bool.false_eq_true, if_false, upd_same]
          · simp only [specStep, hsg, upd_same]
          · exact hstate.symm
        · simp only [objStep, specStep, hgi, hsg, hdead, hb, Bool.false_eq_true, if_false,
            upd_ne _ _ h]
          exact hg g'
  | tsolve nt o force => exact ⟨rfl, hc, hsl, hg⟩
  | getF2x q => exact ⟨rfl, hc, hsl, hg⟩
  | finalize gf =>
    cases hs : sp.slot with
    | none =>
      have hs' : ob.slot = none := hsl.trans hs
      refine ⟨?_, ?_⟩
      · simp only [objStep, specStep, hs, hs']
      · simp only [objStep, specStep, hs, hs']; exact ⟨hc, hsl, hg⟩
    | some g =>
      have hs' : ob.slot = some g := hsl.trans hs
      rcases hg g with ⟨hn1, hn2⟩ | ⟨gi, sg, hgi, hsg, hnt, hdead, hst, hstarted⟩
      · refine ⟨?_, ?_⟩
        · simp only [objStep, specStep, hs, hs', hn1, hn2]
        · simp only [objStep, specStep, hs, hs', hn1, hn2]; exact ⟨hc, hsl, hg⟩
      · refine ⟨?_, ?_⟩
        · simp only [objStep, specStep, hs, hs', hgi, hsg, hnt, hst]
        · simp only [objStep, specStep, hs, hs', hgi, hsg]; exact ⟨hc, rfl, hg⟩

theorem rel_run (S : Solver V X W A O Q Y) (hstart : ∀ o f0, (S.start o f0).cur = 0)
    (cs : List (Call V O Q)) :
    ∀ (ob : Obj V X W) (sp : Spec V O), Rel S ob sp → AdmissibleAll S sp cs →
      (objRun S ob cs).2 = (specRun S sp cs).2 ∧ Rel S (objRun S ob cs).1 (specRun S sp cs).1 := by
  induction cs with
  | nil => intro ob sp hr _; exact ⟨rfl, hr⟩
  | cons c cs ih =>
    intro ob sp hr ha
    obtain ⟨h1, h2⟩ := rel_step S hstart ob sp c hr ha.1
    obtain ⟨h3, h4⟩ := ih _ _ h2 ha.2
    exact ⟨by simp only [objRun, specRun, h1, h3], by simp only [objRun, specRun]; exact h4⟩

end api

end PyYetiVerif.GenMachine
