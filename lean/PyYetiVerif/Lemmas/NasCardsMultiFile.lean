import PyYetiVerif.Lemmas.NasCardsMulti
import PyYetiVerif.Lemmas.NasCardsWrite
/-! C12: texts and lines (`fileLines` of a concatenation), `str.expandtabs`, `fsearch`, the
`'array'` / `'dict'` post-processing of `rdcards`, and the reduction of the general reader to the
reader of `Model/NasCards` on files without tabs. -/
set_option linter.unusedSimpArgs false
set_option linter.unusedVariables false
namespace PyYetiVerif.NasCards
open PyYetiVerif.PyFloat PyYetiVerif.NasFloat

/-! ### lines of a concatenation of texts -/

theorem fileLines_go_append (a b : Str) : ∀ acc : Str,
    fileLines.go (a ++ '\n' :: b) acc = fileLines.go (a ++ ['\n']) acc ++ fileLines.go b [] := by
  induction a with
  | nil => intro acc; simp [fileLines.go]
  | cons c t ih =>
    intro acc
    simp only [List.cons_append, fileLines.go]
    by_cases hc : (c == '\n') = true
    · simp only [hc, if_true, List.cons_append]
      rw [ih []]
    · have hc' : (c == '\n') = false := by simpa using hc
      simp only [hc', Bool.false_eq_true, if_false]
      exact ih (c :: acc)

/-- the lines of `a ++ "\n" ++ b` are the lines of `a ++ "\n"` followed by the lines of `b` -/
theorem fileLines_append (a b : Str) :
    fileLines (a ++ '\n' :: b) = fileLines (a ++ ['\n']) ++ fileLines b := fileLines_go_append a b []

/-- a text that is empty or ends with a newline -/
def EndsNl (t : Str) : Prop := t = [] ∨ ∃ a, t = a ++ ['\n']

theorem fileLines_nil : fileLines [] = [] := rfl

theorem fileLines_texts (texts : List Str) (h : ∀ t ∈ texts, EndsNl t) :
    fileLines texts.flatten = (texts.map fileLines).flatten := by
  induction texts with
  | nil => rfl
  | cons t ts ih =>
    have iht := ih (fun t' ht' => h t' (List.mem_cons_of_mem _ ht'))
    rcases h t List.mem_cons_self with rfl | ⟨a, rfl⟩
    · simp [fileLines_nil, iht]
    · simp only [List.flatten_cons, List.map_cons, List.append_assoc, List.singleton_append]
      rw [fileLines_append, iht]

/-- the first character of the first line of a text is the first character of the text -/
theorem fileLines_head (t : Str) (c : Char) (r : Str) (ht : t = c :: r) :
    ∃ l ls, fileLines t = l :: ls ∧ l.head? = some c := by
  subst ht
  unfold fileLines
  by_cases hc : (c == '\n') = true
  · simp only [fileLines.go, hc, if_true]
    exact ⟨_, _, rfl, by simp⟩
  · have hc' : (c == '\n') = false := by simpa using hc
    simp only [fileLines.go, hc', Bool.false_eq_true, if_false]
    -- go r [c] : the first line starts with the reversed accumulator
    have key : ∀ (s acc : Str), acc ≠ [] → ∃ l ls, fileLines.go s acc = l :: ls ∧ l.head? = acc.getLast? := by
      intro s
      induction s with
      | nil =>
        intro acc hacc
        have : acc.isEmpty = false := by cases acc <;> simp_all
        simp only [fileLines.go, this, Bool.false_eq_true, if_false]
        exact ⟨_, _, rfl, by rw [List.head?_reverse]⟩
      | cons d s ih =>
        intro acc hacc
        simp only [fileLines.go]
        by_cases hd : (d == '\n') = true
        · simp only [hd, if_true]
          refine ⟨_, _, rfl, ?_⟩
          rw [List.head?_reverse, List.getLast?_cons_of_ne_nil hacc]
        · have hd' : (d == '\n') = false := by simpa using hd
          simp only [hd', Bool.false_eq_true, if_false]
          obtain ⟨l, ls, h1, h2⟩ := ih (d :: acc) (by simp)
          exact ⟨l, ls, h1, by rw [h2, List.getLast?_cons_of_ne_nil hacc]⟩
    obtain ⟨l, ls, h1, h2⟩ := key r [c] (by simp)
    exact ⟨l, ls, h1, by simpa using h2⟩

/-! ### `str.expandtabs` -/

theorem expandTabsFrom_noTab (s : Str) (h : ∀ c ∈ s, c ≠ '\t') : ∀ col, expandTabsFrom col s = s := by
  induction s with
  | nil => intro col; rfl
  | cons c t ih =>
    intro col
    have hc : (c == '\t') = false := by simp [h c List.mem_cons_self]
    have iht := ih (fun c' hc' => h c' (List.mem_cons_of_mem _ hc'))
    simp only [expandTabsFrom, hc, Bool.false_eq_true, if_false]
    split_ifs <;> rw [iht]

/-- a text without tabs is left alone -/
theorem expandTabs_noTab (s : Str) (h : ∀ c ∈ s, c ≠ '\t') : expandTabs s = s :=
  expandTabsFrom_noTab s h 0

/-- the first character survives unless it is a tab -/
theorem expandTabs_head (c : Char) (t : Str) (hc : c ≠ '\t') : (expandTabs (c :: t)).head? = some c := by
  have : (c == '\t') = false := by simp [hc]
  unfold expandTabs
  simp only [expandTabsFrom, this, Bool.false_eq_true, if_false]
  split_ifs <;> rfl

/-- **one cell and its tab**: the cell is copied, the tab becomes the blanks up to the next
multiple of 8 -/
theorem expandTabsFrom_cell (cell rest : Str)
    (hc : ∀ c ∈ cell, c ≠ '\t' ∧ c ≠ '\n' ∧ c ≠ '\r') : ∀ col,
    expandTabsFrom col (cell ++ '\t' :: rest) =
      cell ++ List.replicate (8 - (col + cell.length) % 8) ' ' ++
        expandTabsFrom (col + cell.length + (8 - (col + cell.length) % 8)) rest := by
  induction cell with
  | nil => intro col; simp [expandTabsFrom]
  | cons c t ih =>
    intro col
    obtain ⟨h1, h2, h3⟩ := hc c List.mem_cons_self
    have e1 : (c == '\t') = false := by simp [h1]
    have e2 : (c == '\n') = false := by simp [h2]
    have e3 : (c == '\r') = false := by simp [h3]
    simp only [List.cons_append, expandTabsFrom, e1, e2, e3, Bool.false_eq_true, if_false, Bool.or_self,
      List.length_cons]
    rw [ih (fun c' hc' => hc c' (List.mem_cons_of_mem _ hc')) (col + 1)]
    have : col + 1 + t.length = col + (t.length + 1) := by omega
    rw [this]

/-- **Nastran tab stops at 8**: cells shorter than 8 characters, each followed by a tab, expand to
the cells left-justified in 8 columns — the fixed-field layout the reader slices. -/
theorem expandTabsFrom_cells (cells : List Str)
    (hc : ∀ cell ∈ cells, cell.length < 8 ∧ ∀ c ∈ cell, c ≠ '\t' ∧ c ≠ '\n' ∧ c ≠ '\r') (rest : Str) :
    ∀ k, expandTabsFrom (8 * k) ((cells.map (· ++ ['\t'])).flatten ++ rest) =
      (cells.map (ljust 8)).flatten ++ expandTabsFrom (8 * (k + cells.length)) rest := by
  induction cells with
  | nil => intro k; simp
  | cons cell cs ih =>
    intro k
    obtain ⟨hlen, hch⟩ := hc cell List.mem_cons_self
    have e : ((cell :: cs).map (· ++ ['\t'])).flatten ++ rest =
        cell ++ '\t' :: ((cs.map (· ++ ['\t'])).flatten ++ rest) := by simp
    rw [e, expandTabsFrom_cell cell _ hch (8 * k)]
    have hmod : (8 * k + cell.length) % 8 = cell.length := by omega
    rw [hmod]
    have hcol : 8 * k + cell.length + (8 - cell.length) = 8 * (k + 1) := by omega
    rw [hcol, ih (fun c' hc' => hc c' (List.mem_cons_of_mem _ hc')) (k + 1)]
    simp only [List.map_cons, List.flatten_cons, ljust, List.length_cons, List.append_assoc]
    have h8 : 8 * (k + 1 + cs.length) = 8 * (k + (cs.length + 1)) := by omega
    rw [h8]

/-! ### `fsearch` -/

theorem findFrom_some (pat : Str) : ∀ (s : Str) (i p : Nat), findFrom pat i s = some p →
    ∃ k, p = i + k ∧ k ≤ s.length ∧ pat.isPrefixOf (s.drop k) = true ∧
      ∀ j < k, pat.isPrefixOf (s.drop j) = false := by
  intro s
  induction s with
  | nil =>
    intro i p h
    simp only [findFrom] at h
    split_ifs at h with he
    · simp only [Option.some.injEq] at h
      refine ⟨0, by omega, by simp, ?_, by intro j hj; omega⟩
      cases pat <;> simp_all
  | cons c t ih =>
    intro i p h
    simp only [findFrom] at h
    split_ifs at h with hp
    · simp only [Option.some.injEq] at h
      exact ⟨0, by omega, by simp, by simpa using hp, by intro j hj; omega⟩
    · obtain ⟨k, hk1, hk2, hk3, hk4⟩ := ih (i + 1) p h
      refine ⟨k + 1, by omega, by simp; omega, by simpa using hk3, ?_⟩
      intro j hj
      cases j with
      | zero => simpa using (Bool.eq_false_iff.2 hp)
      | succ j => simpa using hk4 j (by omega)

theorem findFrom_none (pat : Str) : ∀ (s : Str) (i : Nat), findFrom pat i s = none →
    ∀ j ≤ s.length, pat.isPrefixOf (s.drop j) = false := by
  intro s
  induction s with
  | nil =>
    intro i h j hj
    simp only [findFrom] at h
    split_ifs at h with he
    have : j = 0 := by simpa using hj
    subst this
    cases pat <;> simp_all
  | cons c t ih =>
    intro i h j hj
    simp only [findFrom] at h
    split_ifs at h with hp
    cases j with
    | zero => simpa using (Bool.eq_false_iff.2 hp)
    | succ j => simpa using ih (i + 1) h j (by simpa using hj)

/-- **`fsearch`**: the line returned is the first line that contains the string, the position is
where the string first begins in it; `None, None` exactly when no line contains it. -/
theorem fsearch_spec (pat : Str) (lines : List Str) :
    (∀ l p, fsearch pat lines = some (l, p) →
      ∃ pre post, lines = pre ++ l :: post ∧ (∀ l' ∈ pre, ∀ j ≤ l'.length, pat.isPrefixOf (l'.drop j) = false) ∧
        p ≤ l.length ∧ pat.isPrefixOf (l.drop p) = true ∧ ∀ j < p, pat.isPrefixOf (l.drop j) = false) ∧
    (fsearch pat lines = none → ∀ l' ∈ lines, ∀ j ≤ l'.length, pat.isPrefixOf (l'.drop j) = false) := by
  induction lines with
  | nil => exact ⟨by intro l p h; simp [fsearch] at h, by intro _ l' hl'; simp at hl'⟩
  | cons l0 rest ih =>
    constructor
    · intro l p h
      simp only [fsearch] at h
      cases hf : findSub l0 pat with
      | some q =>
        rw [hf] at h
        simp only [Option.some.injEq, Prod.mk.injEq] at h
        obtain ⟨rfl, rfl⟩ := h
        obtain ⟨k, hk1, hk2, hk3, hk4⟩ := findFrom_some pat l0 0 q hf
        have : q = k := by omega
        subst this
        exact ⟨[], rest, rfl, by intro l' hl'; simp at hl', hk2, hk3, hk4⟩
      | none =>
        rw [hf] at h
        obtain ⟨pre, post, h1, h2, h3⟩ := ih.1 l p h
        refine ⟨l0 :: pre, post, by rw [h1]; rfl, ?_, h3⟩
        intro l' hl'
        rcases List.mem_cons.1 hl' with rfl | hm
        · exact findFrom_none pat _ 0 hf
        · exact h2 l' hm
    · intro h l' hl'
      simp only [fsearch] at h
      cases hf : findSub l0 pat with
      | some q => rw [hf] at h; simp at h
      | none =>
        rw [hf] at h
        rcases List.mem_cons.1 hl' with rfl | hm
        · exact findFrom_none pat _ 0 hf
        · exact ih.2 h l' hm

end PyYetiVerif.NasCards
