import PyYetiVerif.Lemmas.UsetUp
/-!
The recursion of `upqsetpv` up the superelement tree (`Model/UsetUp.lean`): the answer does not
depend on the fuel once the fuel is not used up, `selist.length + 1` levels are never used up when
`selist` has no cycle, and two superelements that name each other as upstream use up every fuel.
-/
namespace PyYetiVerif.Uset
open PyYetiVerif.Locate (normIndex)

/-- "the recursion fuel was used up" -/
def IsRec {β : Type} (x : Except Err β) : Prop := x = .error .recursion

/-! ### no routine but the recursion itself answers `.recursion` -/

theorem lookupD_noRec {β : Type} (d : List (Nat × β)) (k : Nat) : ¬ IsRec (lookupD d k) := by
  unfold lookupD IsRec
  split <;> simp

theorem mksetpv_noRec (words : List Nat) (a b : Nat) : ¬ IsRec (mksetpv words a b) := by
  unfold mksetpv IsRec
  split <;> simp

theorem maskSel_noRec {β : Type} (x : List β) (m : List Bool) : ¬ IsRec (maskSel x m) := by
  unfold maskSel IsRec
  split <;> simp

theorem bcast_noRec (v : List Bool) (n : Nat) : ¬ IsRec (bcast v n) := by
  unfold bcast IsRec
  split
  · simp
  · split <;> simp

theorem take_noRec {β : Type} (x : List β) (idx : List Int) : ¬ IsRec (take x idx) := by
  unfold take IsRec
  split <;> simp

/-- `x >>= f` is not `.recursion` when neither `x` nor any `f v` is -/
theorem bind_noRec {β γ : Type} {x : Except Err β} {f : β → Except Err γ}
    (hx : ¬ IsRec x) (hf : ∀ v, x = .ok v → ¬ IsRec (f v)) : ¬ IsRec (x >>= f) := by
  cases x with
  | error e =>
      intro h
      apply hx
      simpa [IsRec, bind, Except.bind] using h
  | ok v => simpa [bind, Except.bind] using hf v rfl

theorem upMask_noRec (nas : Nas) (sedn : Nat) (usetdn : List Row) (dnids : List Nat) :
    ¬ IsRec (upMask nas sedn usetdn dnids) := by
  unfold upMask
  simp only
  split
  · refine bind_noRec (lookupD_noRec _ _) ?_
    intro upids _
    split
    · split <;> simp [IsRec]
    · split <;> simp [IsRec]
  · simp [IsRec]

theorem qupOwn_noRec (a q p : Nat) (usetup : List Row) : ¬ IsRec (qupOwn a q p usetup) := by
  unfold qupOwn
  refine bind_noRec (mksetpv_noRec _ _ _) ?_
  intro qv _
  split
  · simp [IsRec]
  · refine bind_noRec (mksetpv_noRec _ _ _) ?_
    intro pa _
    refine bind_noRec (maskSel_noRec _ _) ?_
    intro d _
    simp [IsRec]

theorem upqWrite_noRec (nas : Nas) (sedn : Nat) (usetdn : List Row) (pv qup : List Bool)
    (dnids : List Nat) (maps : List (Int × Int)) :
    ¬ IsRec (upqWrite nas sedn usetdn pv qup dnids maps) := by
  unfold upqWrite
  refine bind_noRec (upMask_noRec _ _ _ _) ?_
  intro m _
  simp only
  split
  · refine bind_noRec (bcast_noRec _ _) ?_
    intro v _; simp [IsRec]
  · split
    · simp [IsRec]
    · split
      · refine bind_noRec (take_noRec _ _) ?_
        intro idx _
        refine bind_noRec (bcast_noRec _ _) ?_
        intro v _; simp [IsRec]
      · split
        · refine bind_noRec (bcast_noRec _ _) ?_
          intro v _; simp [IsRec]
        · simp [IsRec]

/-! ### the answer is the same for every fuel that is not used up -/

section mono
variable {a q p : Nat} {nas : Nas}

/-- `r'` answers as `r` wherever `r` does not run out of fuel -/
def RecLe (r r' : Nat → Except Err (List Bool)) : Prop := ∀ s, ¬ IsRec (r s) → r' s = r s

theorem upqQup_rec_or {r : Nat → Except Err (List Bool)} {seup : Nat} {usetup : List Row}
    (h : IsRec (upqQup a q p nas r seup usetup)) :
    nas.selist.any (fun x => x.2 = seup) = true ∧ IsRec (r seup) := by
  unfold upqQup at h
  cases hq : qupOwn a q p usetup with
  | error e =>
      rw [hq] at h
      exact absurd (by rw [hq]; simpa [IsRec, bind, Except.bind] using h) (qupOwn_noRec a q p usetup)
  | ok qup0 =>
      rw [hq] at h
      simp only [bind, Except.bind] at h
      split at h
      · rename_i hany
        refine ⟨hany, ?_⟩
        cases hr : r seup with
        | error e =>
            rw [hr] at h
            simpa [IsRec] using h
        | ok qup2 =>
            rw [hr] at h
            simp only at h
            exfalso
            cases hpa : mksetpv (usetup.map (·.2.2)) p a with
            | error e =>
                rw [hpa] at h
                exact mksetpv_noRec _ _ _ (by rw [hpa]; simpa [IsRec] using h)
            | ok pa =>
                rw [hpa] at h
                simp only at h
                cases hm : maskSel qup2 pa with
                | error e =>
                    rw [hm] at h
                    exact maskSel_noRec _ _ (by rw [hm]; simpa [IsRec] using h)
                | ok q2 =>
                    rw [hm] at h
                    simp only at h
                    split at h
                    · simp [IsRec, pure, Except.pure] at h
                    · split at h <;> simp [IsRec, pure, Except.pure] at h
      · simp [IsRec, pure, Except.pure] at h

theorem upqQup_mono {r r' : Nat → Except Err (List Bool)} (hle : RecLe r r') (seup : Nat)
    (usetup : List Row) (h : ¬ IsRec (upqQup a q p nas r seup usetup)) :
    upqQup a q p nas r' seup usetup = upqQup a q p nas r seup usetup := by
  by_cases hr : IsRec (r seup)
  · -- the recursion is not reached
    unfold upqQup at h ⊢
    cases hq : qupOwn a q p usetup with
    | error e => rfl
    | ok qup0 =>
        rw [hq] at h
        simp only [bind, Except.bind] at h ⊢
        split
        · exfalso
          apply h
          rename_i hany
          rw [if_pos hany, hr]
          rfl
        · rfl
  · unfold upqQup
    rw [hle seup hr]

theorem upqStep_rec_or {r : Nat → Except Err (List Bool)} {sedn : Nat} {usetdn : List Row}
    {pv : List Bool} {seup : Nat} (h : IsRec (upqStep a q p nas r sedn usetdn pv seup)) :
    seup ≠ sedn ∧ nas.selist.any (fun x => x.2 = seup) = true ∧ IsRec (r seup) := by
  unfold upqStep at h
  split at h
  · simp [IsRec, pure, Except.pure] at h
  · rename_i hne
    refine ⟨hne, ?_⟩
    cases h1 : lookupD nas.uset seup with
    | error e => rw [h1] at h; exact absurd (by rw [h1]; simpa [IsRec, bind, Except.bind] using h) (lookupD_noRec nas.uset seup)
    | ok usetup =>
      cases h2 : lookupD nas.dnids seup with
      | error e => rw [h1, h2] at h; exact absurd (by rw [h2]; simpa [IsRec, bind, Except.bind] using h) (lookupD_noRec nas.dnids seup)
      | ok dnids =>
        cases h3 : lookupD nas.maps seup with
        | error e => rw [h1, h2, h3] at h; exact absurd (by rw [h3]; simpa [IsRec, bind, Except.bind] using h) (lookupD_noRec nas.maps seup)
        | ok maps =>
          rw [h1, h2, h3] at h
          simp only [bind, Except.bind] at h
          cases h4 : upqQup a q p nas r seup usetup with
          | error e =>
              rw [h4] at h
              exact upqQup_rec_or (by rw [h4]; simpa [IsRec] using h)
          | ok qup =>
              rw [h4] at h
              simp only at h
              split at h
              · exact absurd h (upqWrite_noRec _ _ _ _ _ _ _)
              · simp [IsRec, pure, Except.pure] at h

theorem upqStep_mono {r r' : Nat → Except Err (List Bool)} (hle : RecLe r r') (sedn : Nat)
    (usetdn : List Row) (pv : List Bool) (seup : Nat)
    (h : ¬ IsRec (upqStep a q p nas r sedn usetdn pv seup)) :
    upqStep a q p nas r' sedn usetdn pv seup = upqStep a q p nas r sedn usetdn pv seup := by
  unfold upqStep at h ⊢
  split
  · rfl
  · rename_i hne
    rw [if_neg hne] at h
    cases h1 : lookupD nas.uset seup with
    | error e => rfl
    | ok usetup =>
      cases h2 : lookupD nas.dnids seup with
      | error e => rfl
      | ok dnids =>
        cases h3 : lookupD nas.maps seup with
        | error e => rfl
        | ok maps =>
          rw [h1, h2, h3] at h
          simp only [bind, Except.bind] at h ⊢
          have hq : ¬ IsRec (upqQup a q p nas r seup usetup) := by
            intro hq
            apply h
            rw [hq]
            rfl
          rw [upqQup_mono hle seup usetup hq]

theorem foldlM_upqStep_mono {r r' : Nat → Except Err (List Bool)} (hle : RecLe r r') (sedn : Nat)
    (usetdn : List Row) : ∀ (l : List Nat) (init : List Bool),
    ¬ IsRec (l.foldlM (upqStep a q p nas r sedn usetdn) init) →
    l.foldlM (upqStep a q p nas r' sedn usetdn) init = l.foldlM (upqStep a q p nas r sedn usetdn) init
  | [], _, _ => rfl
  | x :: t, init, h => by
      rw [List.foldlM_cons] at h ⊢
      rw [List.foldlM_cons]
      have hx : ¬ IsRec (upqStep a q p nas r sedn usetdn init x) := by
        intro hx
        apply h
        rw [hx]
        rfl
      rw [upqStep_mono hle sedn usetdn init x hx]
      cases hs : upqStep a q p nas r sedn usetdn init x with
      | error e => rfl
      | ok pv' =>
          rw [hs] at h
          exact foldlM_upqStep_mono hle sedn usetdn t pv' h

/-- one more level of fuel does not change an answer that did not use up the fuel -/
theorem upqsetpv_fuel_succ : ∀ (fuel : Nat), RecLe (upqsetpv a q p nas fuel) (upqsetpv a q p nas (fuel + 1))
  | 0 => by
      intro s h
      exact absurd rfl h
  | fuel + 1 => by
      intro s h
      have ih := upqsetpv_fuel_succ fuel
      rw [upqsetpv] at h
      rw [upqsetpv, upqsetpv]
      split
      · rfl
      · rename_i hne
        rw [if_neg hne] at h
        cases hu : lookupD nas.uset s with
        | error e => rfl
        | ok usetdn =>
            rw [hu] at h
            simp only [bind, Except.bind] at h ⊢
            exact foldlM_upqStep_mono ih s usetdn _ _ h

theorem upqsetpv_fuel_le {fuel fuel' : Nat} (hle : fuel ≤ fuel') (s : Nat)
    (h : ¬ IsRec (upqsetpv a q p nas fuel s)) :
    upqsetpv a q p nas fuel' s = upqsetpv a q p nas fuel s := by
  induction hle with
  | refl => rfl
  | step _ ih =>
      rw [upqsetpv_fuel_succ _ s (by rw [ih]; exact h), ih]

end mono

/-! ### a `selist` without cycles never uses up `selist.length + 1` levels -/

/-- `selist` has no cycle: the SEs can be ranked so that every row `[seup, sedn]` (other than a row
that names an SE as its own downstream, which the loop skips) goes from a lower to a higher rank -/
def Acyclic (selist : List (Nat × Nat)) : Prop :=
  ∃ rank : Nat → Nat, ∀ r ∈ selist, r.1 ≠ r.2 → rank r.1 < rank r.2

theorem filter_length_le' {β : Type} (f g : β → Bool) (himp : ∀ x, f x = true → g x = true) :
    ∀ (l : List β), (l.filter f).length ≤ (l.filter g).length
  | [] => by simp
  | z :: t => by
      have ih := filter_length_le' f g himp t
      simp only [List.filter_cons]
      by_cases hz : f z = true
      · simp [hz, himp z hz]; exact ih
      · by_cases hgz : g z = true
        · simp [hz, hgz]; omega
        · simp [hz, hgz]; exact ih

theorem filter_length_lt {β : Type} (f g : β → Bool) : ∀ (l : List β),
    (∀ x, f x = true → g x = true) → (∃ x ∈ l, g x = true ∧ f x = false) →
    (l.filter f).length < (l.filter g).length
  | [], _, ⟨x, hx, _⟩ => by cases hx
  | y :: t, himp, ⟨x, hx, hg, hf⟩ => by
      have hle : (t.filter f).length ≤ (t.filter g).length := filter_length_le' f g himp t
      rcases List.mem_cons.mp hx with rfl | hx'
      · simp only [List.filter_cons, hg, hf, if_true]
        simp
        omega
      · have := filter_length_lt f g t himp ⟨x, hx', hg, hf⟩
        simp only [List.filter_cons]
        by_cases hz : f y = true
        · simp [hz, himp y hz]; exact this
        · by_cases hgz : g y = true
          · simp [hz, hgz]; omega
          · simp [hz, hgz]; exact this

theorem foldlM_upqStep_noRec {a q p : Nat} {nas : Nas} {r : Nat → Except Err (List Bool)} {sedn : Nat}
    {usetdn : List Row} : ∀ (l : List Nat) (init : List Bool),
    (∀ c ∈ l, c ≠ sedn → nas.selist.any (fun x => x.2 = c) = true → ¬ IsRec (r c)) →
    ¬ IsRec (l.foldlM (upqStep a q p nas r sedn usetdn) init)
  | [], _, _ => by simp [IsRec, List.foldlM, pure, Except.pure]
  | x :: t, init, h => by
      rw [List.foldlM_cons]
      refine bind_noRec ?_ ?_
      · intro hx
        obtain ⟨h1, h2, h3⟩ := upqStep_rec_or hx
        exact h x List.mem_cons_self h1 h2 h3
      · intro pv' _
        exact foldlM_upqStep_noRec t pv' (fun c hc => h c (List.mem_cons_of_mem _ hc))

/-- the measure that decreases along the recursion: the rows of `selist` below `s` -/
def below (selist : List (Nat × Nat)) (rank : Nat → Nat) (s : Nat) : Nat :=
  (selist.filter fun r => decide (rank r.2 < rank s)).length

theorem upqsetpv_noRec_of_below {a q p : Nat} {nas : Nas} {rank : Nat → Nat}
    (hr : ∀ r ∈ nas.selist, r.1 ≠ r.2 → rank r.1 < rank r.2) :
    ∀ (n s : Nat), below nas.selist rank s ≤ n → ¬ IsRec (upqsetpv a q p nas (n + 1) s)
  | n, s, hn => by
      rw [upqsetpv]
      split
      · simp [IsRec]
      · refine bind_noRec (lookupD_noRec _ _) ?_
        intro usetdn _
        apply foldlM_upqStep_noRec
        intro c hc hne hany
        -- `(c, s)` is a row of `selist`
        obtain ⟨row, hrow, rfl⟩ := List.mem_map.mp hc
        obtain ⟨hmem, hrs⟩ := List.mem_filter.mp hrow
        have hrs' : row.2 = s := by simpa using hrs
        have hlt : rank row.1 < rank s := by
          rw [← hrs']; exact hr row hmem (by rw [hrs']; exact hne)
        -- some row has `row.1` as its downstream SE: it is below `s` but not below `row.1`
        obtain ⟨up, hup, hup2⟩ := List.any_eq_true.mp hany
        have hup2' : up.2 = row.1 := by simpa using hup2
        have hdec : below nas.selist rank row.1 < below nas.selist rank s := by
          unfold below
          apply filter_length_lt
          · intro x hx
            have : rank x.2 < rank row.1 := by simpa using hx
            simp; omega
          · exact ⟨up, hup, by simp [hup2']; exact hlt, by simp [hup2']⟩
        match n, hn with
        | 0, hn => omega
        | n + 1, hn =>
            exact upqsetpv_noRec_of_below hr n row.1 (by omega)

/-- with `selist.length + 1` levels of fuel an acyclic `selist` never uses the fuel up, and every
larger fuel gives the same answer -/
theorem upqsetpv_fuel_enough {a q p : Nat} {nas : Nas} (hac : Acyclic nas.selist) (fuel s : Nat)
    (hf : nas.selist.length + 1 ≤ fuel) :
    ¬ IsRec (upqsetpv a q p nas fuel s) ∧
    upqsetpv a q p nas fuel s = upqsetpv a q p nas (nas.selist.length + 1) s := by
  obtain ⟨rank, hr⟩ := hac
  have h0 : ¬ IsRec (upqsetpv a q p nas (nas.selist.length + 1) s) :=
    upqsetpv_noRec_of_below hr _ s (by unfold below; exact List.length_filter_le _ _)
  have := upqsetpv_fuel_le hf s h0
  exact ⟨by rw [this]; exact h0, this⟩

/-! ### two SEs that name each other as upstream -/

theorem upqsetpv_cycle {a q p : Nat} {nas : Nas} {s c : Nat} {us uc : List Row}
    {ds dc : List Nat} {ms mc : List (Int × Int)} {rs rc : List Nat} {qs qc : List Bool}
    (hs : ((nas.selist.filter fun r => r.2 = s).map (·.1)).filter (fun x => decide (x ≠ s)) = c :: rs)
    (hc : ((nas.selist.filter fun r => r.2 = c).map (·.1)).filter (fun x => decide (x ≠ c)) = s :: rc)
    (h1 : lookupD nas.uset s = .ok us) (h2 : lookupD nas.uset c = .ok uc)
    (h3 : lookupD nas.dnids s = .ok ds) (h4 : lookupD nas.dnids c = .ok dc)
    (h5 : lookupD nas.maps s = .ok ms) (h6 : lookupD nas.maps c = .ok mc)
    (h7 : qupOwn a q p us = .ok qs) (h8 : qupOwn a q p uc = .ok qc) :
    ∀ fuel, IsRec (upqsetpv a q p nas fuel s) ∧ IsRec (upqsetpv a q p nas fuel c)
  | 0 => ⟨rfl, rfl⟩
  | fuel + 1 => by
      obtain ⟨ihs, ihc⟩ := upqsetpv_cycle hs hc h1 h2 h3 h4 h5 h6 h7 h8 fuel
      have hne : c ≠ s := by
        have : c ∈ c :: rs := List.mem_cons_self
        rw [← hs] at this
        simpa using (List.mem_filter.mp this).2
      have hanyc : nas.selist.any (fun x => x.2 = c) = true := by
        have : s ∈ s :: rc := List.mem_cons_self
        rw [← hc] at this
        obtain ⟨row, hrow, _⟩ := List.mem_map.mp (List.mem_filter.mp this).1
        exact List.any_eq_true.mpr ⟨row, (List.mem_filter.mp hrow).1, (List.mem_filter.mp hrow).2⟩
      have hanys : nas.selist.any (fun x => x.2 = s) = true := by
        have : c ∈ c :: rs := List.mem_cons_self
        rw [← hs] at this
        obtain ⟨row, hrow, _⟩ := List.mem_map.mp (List.mem_filter.mp this).1
        exact List.any_eq_true.mpr ⟨row, (List.mem_filter.mp hrow).1, (List.mem_filter.mp hrow).2⟩
      constructor
      · rw [upqsetpv]
        rw [if_neg (by intro h0; rw [h0] at hs; cases hs), h1]
        simp only [bind, Except.bind]
        rw [foldlM_upqStep_skip, hs, List.foldlM_cons]
        have : upqStep a q p nas (upqsetpv a q p nas fuel) s us (List.replicate us.length false) c
            = .error .recursion := by
          unfold upqStep
          rw [if_neg hne, h2, h4, h6]
          simp only [bind, Except.bind]
          unfold upqQup
          rw [h8]
          simp only [bind, Except.bind, hanyc, if_true]
          rw [ihc]
        rw [this]; rfl
      · rw [upqsetpv]
        rw [if_neg (by intro h0; rw [h0] at hc; cases hc), h2]
        simp only [bind, Except.bind]
        rw [foldlM_upqStep_skip, hc, List.foldlM_cons]
        have : upqStep a q p nas (upqsetpv a q p nas fuel) c uc (List.replicate uc.length false) s
            = .error .recursion := by
          unfold upqStep
          rw [if_neg (Ne.symm hne), h1, h3, h5]
          simp only [bind, Except.bind]
          unfold upqQup
          rw [h7]
          simp only [bind, Except.bind, hanys, if_true]
          rw [ihs]
        rw [this]; rfl

end PyYetiVerif.Uset
