import PyYetiVerif.Lemmas.Locate
import Mathlib.Data.List.Nodup
import Mathlib.Data.List.Perm.Basic
/-!
`merge_lists`: invariants of the insertion loop (`mergeStep`) and of the `merged.index(e, prev)`
loop that forms `pv1`.
-/
namespace PyYetiVerif.Locate

section
variable {α : Type} [DecidableEq α]

theorem sublist_insertAt (l : List α) (i : Nat) (xs : List α) : l.Sublist (insertAt l i xs) := by
  unfold insertAt
  conv => lhs; rw [← List.take_append_drop i l]
  rw [List.append_assoc]
  exact List.Sublist.append (List.Sublist.refl _) (List.sublist_append_right _ _)

theorem perm_insertAt (l : List α) (i : Nat) (xs : List α) : (insertAt l i xs).Perm (l ++ xs) := by
  unfold insertAt
  conv => rhs; rw [← List.take_append_drop i l]
  rw [List.append_assoc, List.append_assoc]
  exact List.Perm.append_left _ List.perm_append_comm

theorem mem_insertAt {l : List α} {i : Nat} {xs : List α} {x : α} :
    x ∈ insertAt l i xs ↔ x ∈ l ∨ x ∈ xs := by
  rw [(perm_insertAt l i xs).mem_iff, List.mem_append]

/-- list1 stays a subsequence of the working list -/
theorem foldl_mergeStep_sublist : ∀ (l2 : List α) (st : List α × List α),
    st.1.Sublist (l2.foldl mergeStep st).1
  | [], _ => List.Sublist.refl _
  | e :: t, st => by
      rw [List.foldl_cons]
      refine List.Sublist.trans ?_ (foldl_mergeStep_sublist t _)
      unfold mergeStep
      split
      · exact sublist_insertAt _ _ _
      · exact List.Sublist.refl _

/-- the merged list holds exactly the items of both lists -/
theorem foldl_mergeStep_mem (x : α) : ∀ (l2 : List α) (st : List α × List α),
    (x ∈ (l2.foldl mergeStep st).1 ++ (l2.foldl mergeStep st).2 ↔ x ∈ st.1 ∨ x ∈ st.2 ∨ x ∈ l2)
  | [], st => by simp
  | e :: t, st => by
      rw [List.foldl_cons, foldl_mergeStep_mem x t]
      unfold mergeStep
      split
      · rename_i hc
        have he : e ∈ st.1 := by simpa using hc
        simp only [mem_insertAt, List.not_mem_nil, false_or, List.mem_cons]
        constructor
        · rintro ((h | h) | h)
          · exact Or.inl h
          · exact Or.inr (Or.inl h)
          · exact Or.inr (Or.inr (Or.inr h))
        · rintro (h | h | h | h)
          · exact Or.inl (Or.inl h)
          · exact Or.inl (Or.inr h)
          · exact Or.inl (Or.inl (h ▸ he))
          · exact Or.inr h
      · simp only [List.mem_append, List.mem_cons, List.not_mem_nil, or_false]
        constructor
        · rintro (h | (h | h) | h)
          · exact Or.inl h
          · exact Or.inr (Or.inl h)
          · exact Or.inr (Or.inr (Or.inl h))
          · exact Or.inr (Or.inr (Or.inr h))
        · rintro (h | h | h | h)
          · exact Or.inl h
          · exact Or.inr (Or.inl (Or.inl h))
          · exact Or.inr (Or.inl (Or.inr h))
          · exact Or.inr (Or.inr h)

/-- no repeats in the inputs, none in the merged list -/
theorem foldl_mergeStep_nodup : ∀ (l2 : List α) (st : List α × List α),
    st.1.Nodup → (st.2 ++ l2).Nodup → (∀ x ∈ st.1, x ∉ st.2) →
    ((l2.foldl mergeStep st).1 ++ (l2.foldl mergeStep st).2).Nodup
  | [], st, h1, h2, h3 => by
      simp only [List.foldl_nil]
      rw [List.append_nil] at h2
      exact List.Nodup.append h1 h2 (by intro x hx hx2; exact h3 x hx hx2)
  | e :: t, st, h1, h2, h3 => by
      rw [List.foldl_cons]
      apply foldl_mergeStep_nodup t
      · unfold mergeStep
        split
        · simp only
          rw [(perm_insertAt _ _ _).nodup_iff]
          exact List.Nodup.append h1 (List.Nodup.of_append_left h2)
            (by intro x hx hx2; exact h3 x hx hx2)
        · exact h1
      · unfold mergeStep
        split
        · simp only [List.nil_append]
          exact (List.nodup_cons.mp (List.Nodup.of_append_right h2)).2
        · simpa using h2
      · unfold mergeStep
        split
        · simp
        · rename_i hc
          have he : e ∉ st.1 := by simpa using hc
          intro x hx
          simp only [List.mem_append, List.mem_singleton, not_or]
          exact ⟨h3 x hx, fun hxe => he (hxe ▸ hx)⟩

/-- searching from `prev` for the items of a list that is a subsequence of what lies at and
behind `prev`: every search succeeds, at non-decreasing positions `≥ prev`. -/
theorem pv1Loop_spec (merged : List α) : ∀ (l : List α) (prev : Nat),
    l.Sublist (merged.drop prev) →
    (pv1Loop merged prev l).map (merged[·]?) = l.map some ∧
    (pv1Loop merged prev l).Pairwise (· ≤ ·) ∧ ∀ i ∈ pv1Loop merged prev l, prev ≤ i
  | [], _, _ => by simp [pv1Loop]
  | e :: rest, prev, hsub => by
      have hmem : e ∈ merged.drop prev := hsub.subset List.mem_cons_self
      have hget : merged[indexFrom merged e prev]? = some e := by
        unfold indexFrom
        rw [← List.getElem?_drop]
        exact List.getElem?_idxOf hmem
      have hrest : rest.Sublist (merged.drop (indexFrom merged e prev)) := by
        unfold indexFrom
        rw [← List.drop_drop]
        generalize merged.drop prev = D at hsub hmem
        clear hget
        induction D with
        | nil => cases hmem
        | cons d D' ih =>
            by_cases hde : d = e
            · subst hde
              rw [List.idxOf_cons_self, List.drop_zero]
              exact (List.cons_sublist_cons.mp hsub).trans (List.sublist_cons_self _ _)
            · have hne : ¬ (d == e) = true := by simpa using hde
              rw [List.idxOf_cons, cond_eq_ite, if_neg hne, List.drop_succ_cons]
              have hsub' : (e :: rest).Sublist D' := by
                cases hsub with
                | cons _ h => exact h
                | cons_cons _ h => exact absurd rfl hde
              exact ih hsub' (hsub'.subset List.mem_cons_self)
      obtain ⟨ih1, ih2, ih3⟩ := pv1Loop_spec merged rest (indexFrom merged e prev) hrest
      unfold pv1Loop
      simp only [List.map_cons, hget, ih1, List.pairwise_cons, List.mem_cons, true_and]
      refine ⟨⟨fun i hi => ih3 i hi, ih2⟩, ?_⟩
      have hle : prev ≤ indexFrom merged e prev := by unfold indexFrom; omega
      rintro i (rfl | hi)
      · exact hle
      · exact Nat.le_trans hle (ih3 i hi)

/-- positions are distinct when the items are -/
theorem pairwise_lt_of_map {β : Type} {R : List Nat} {l : List β} (f : Nat → Option β)
    (h1 : R.map f = l.map some) (h2 : R.Pairwise (· ≤ ·)) (hnd : l.Nodup) :
    R.Pairwise (· < ·) := by
  have hR : R.Nodup := by
    apply List.Nodup.of_map f
    rw [h1]
    exact hnd.map (fun a b h => Option.some.inj h)
  have := h2.and hR
  exact this.imp (by intro a b h; omega)

/-- `x` stands immediately in front of `y` -/
def Adj (x y : α) (m : List α) : Prop := ∃ C D, m = C ++ x :: y :: D

omit [DecidableEq α] in
theorem Adj.append_right {x y : α} {m : List α} (h : Adj x y m) (t : List α) : Adj x y (m ++ t) := by
  obtain ⟨C, D, rfl⟩ := h
  exact ⟨C, D ++ t, by simp⟩

omit [DecidableEq α] in
theorem Adj.append_left {x y : α} {m : List α} (h : Adj x y m) (t : List α) : Adj x y (t ++ m) := by
  obtain ⟨C, D, rfl⟩ := h
  exact ⟨t ++ C, D, by simp⟩

/-- an insertion anywhere but directly in front of that `y` keeps `x` in front of `y` -/
theorem adj_insertAt {x y : α} {m : List α} (h : Adj x y m) (i : Nat) (xs : List α)
    (hy : m[i]? ≠ some y) :
    Adj x y (insertAt m i xs) := by
  obtain ⟨C, D, rfl⟩ := h
  unfold insertAt
  by_cases h1 : i ≤ C.length
  · refine ⟨C.take i ++ xs ++ C.drop i, D, ?_⟩
    rw [List.take_append, List.drop_append]
    have h2 : i - C.length = 0 := by omega
    simp [h2]
  · have h3 : i ≠ C.length + 1 := by
      intro h3
      apply hy
      rw [h3, List.getElem?_append_right (by omega)]
      simp
    refine ⟨C, D.take (i - C.length - 2) ++ xs ++ D.drop (i - C.length - 2), ?_⟩
    rw [List.take_append, List.drop_append]
    have h4 : i - C.length = (i - C.length - 2) + 2 := by omega
    have h5 : C.length ≤ i := by omega
    rw [List.take_of_length_le h5, List.drop_of_length_le h5, h4]
    simp

theorem foldl_mergeStep_adj_left {x y : α} : ∀ (t : List α) (st : List α × List α),
    Adj x y st.1 → y ∉ t → Adj x y ((t.foldl mergeStep st).1 ++ (t.foldl mergeStep st).2)
  | [], st, h, _ => h.append_right _
  | e :: t, st, h, hy => by
      rw [List.foldl_cons]
      have hye : y ≠ e := fun he => hy (he ▸ List.mem_cons_self)
      apply foldl_mergeStep_adj_left t _ _ (fun h' => hy (List.mem_cons_of_mem _ h'))
      unfold mergeStep
      split
      · rename_i hc
        have he : e ∈ st.1 := by simpa using hc
        have hg : st.1[st.1.idxOf e]? ≠ some y := by
          rw [List.getElem?_idxOf he]
          intro h'; exact hye (Option.some.inj h').symm
        exact adj_insertAt h _ _ hg
      · exact h

theorem foldl_mergeStep_adj_right {x y : α} : ∀ (t : List α) (st : List α × List α),
    Adj x y st.2 → y ∉ t → Adj x y ((t.foldl mergeStep st).1 ++ (t.foldl mergeStep st).2)
  | [], st, h, _ => h.append_left _
  | e :: t, st, h, hy => by
      rw [List.foldl_cons]
      have hy' : y ∉ t := fun h' => hy (List.mem_cons_of_mem _ h')
      unfold mergeStep
      split
      · apply foldl_mergeStep_adj_left t _ _ hy'
        simp only
        unfold insertAt
        exact (h.append_left _).append_right _
      · exact foldl_mergeStep_adj_right t _ (h.append_right _) hy'

theorem foldl_mergeStep_fst_mem {x : α} (l2 : List α) (st : List α × List α)
    (h : x ∈ (l2.foldl mergeStep st).1) : x ∈ st.1 ∨ x ∈ st.2 ∨ x ∈ l2 :=
  (foldl_mergeStep_mem x l2 st).mp (List.mem_append_left _ h)

/-- an item of `list2` that is new (not in `list1`) ends up immediately in front of its
successor in `list2` (no repeats in `list2`) -/
theorem mergeLists_adj (l1 A B : List α) (x y : α) (hnd : (A ++ x :: y :: B).Nodup)
    (hx : x ∉ l1) : Adj x y (mergeLists l1 (A ++ x :: y :: B)).1 := by
  unfold mergeLists
  simp only
  rw [List.foldl_append, List.foldl_cons, List.foldl_cons]
  have hxA : x ∉ A := by
    intro h
    have := (List.nodup_append.mp hnd).2.2 x h x List.mem_cons_self
    exact this rfl
  have hyB : y ∉ B := by
    have := (List.nodup_cons.mp (List.nodup_cons.mp (List.Nodup.of_append_right hnd)).2).1
    exact this
  set st := A.foldl mergeStep (l1, []) with hst
  have hxm : x ∉ st.1 := by
    intro h
    rcases foldl_mergeStep_fst_mem A (l1, []) h with h | h | h
    · exact hx h
    · cases h
    · exact hxA h
  have hstep : mergeStep st x = (st.1, st.2 ++ [x]) := by
    unfold mergeStep
    rw [if_neg (by simpa using hxm)]
  rw [hstep]
  by_cases hym : y ∈ st.1
  · apply foldl_mergeStep_adj_left B _ _ hyB
    unfold mergeStep
    rw [if_pos (by simpa using hym)]
    simp only
    unfold insertAt
    have hd : ∃ D, st.1.drop (st.1.idxOf y) = y :: D := by
      have hlt : st.1.idxOf y < st.1.length := List.idxOf_lt_length_of_mem hym
      refine ⟨st.1.drop (st.1.idxOf y + 1), ?_⟩
      rw [List.drop_eq_getElem_cons hlt, List.getElem_idxOf hlt]
    obtain ⟨D, hD⟩ := hd
    rw [hD]
    exact ⟨st.1.take (st.1.idxOf y) ++ st.2, D, by simp⟩
  · apply foldl_mergeStep_adj_right B _ _ hyB
    unfold mergeStep
    rw [if_neg (by simpa using hym)]
    exact ⟨st.2, [], by simp⟩

/-- a new last item of `list2` is the last item of the merged list -/
theorem mergeLists_last (l1 A : List α) (x : α) (hnd : (A ++ [x]).Nodup) (hx : x ∉ l1) :
    ∃ C, (mergeLists l1 (A ++ [x])).1 = C ++ [x] := by
  unfold mergeLists
  simp only
  rw [List.foldl_append, List.foldl_cons, List.foldl_nil]
  have hxA : x ∉ A := by
    intro h
    exact (List.nodup_append.mp hnd).2.2 x h x List.mem_cons_self rfl
  set st := A.foldl mergeStep (l1, []) with hst
  have hxm : x ∉ st.1 := by
    intro h
    rcases foldl_mergeStep_fst_mem A (l1, []) h with h | h | h
    · exact hx h
    · cases h
    · exact hxA h
  have hstep : mergeStep st x = (st.1, st.2 ++ [x]) := by
    unfold mergeStep
    rw [if_neg (by simpa using hxm)]
  rw [hstep]
  exact ⟨st.1 ++ st.2, by simp⟩

end

end PyYetiVerif.Locate
