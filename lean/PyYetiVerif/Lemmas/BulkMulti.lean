import PyYetiVerif.Model.BulkMulti
import PyYetiVerif.Lemmas.BulkCord
/-! Helper lemmas for files holding the cards of several readers (C13; core Lean only). -/
namespace PyYetiVerif.Bulk

theorem rdcardsByAux_card' (p : Txt → Bool) (keep : Bool) (fuel : Nat) (l : Txt) (cs rest : List Txt)
    (hm : p l = true) (hc : ∀ x ∈ cs, isCont (modeOf l) x = true)
    (hr : ∀ x, rest.head? = some x → isCont (modeOf l) x = false) :
    rdcardsByAux p keep (fuel + 1) (l :: (cs ++ rest)) = cardOf keep l cs :: rdcardsByAux p keep fuel rest := by
  simp [rdcardsByAux, hm, spanCont_append (modeOf l) cs rest hc hr, cardOf]

theorem rdcardsByAux_skip_many (p : Txt → Bool) (keep : Bool) (pre rest : List Txt) (h : ∀ l ∈ pre, p l = false)
    (fuel : Nat) (hf : pre.length ≤ fuel) :
    rdcardsByAux p keep fuel (pre ++ rest) = rdcardsByAux p keep (fuel - pre.length) rest := by
  have := rdcardsByAux_skip_all p keep pre h (fuel - pre.length) rest
  rw [show pre.length + (fuel - pre.length) = fuel by omega] at this
  exact this

theorem fileOf_cons (s : Seg) (r : List Seg) : fileOf (s :: r) = s.lines ++ fileOf r := by
  simp [fileOf]

/-- reader `k` on a well-formed file returns exactly its own cards -/
theorem rdcardsByAux_segs (ps : List (Txt → Bool)) (keep : Bool) (k : Nat) (hk : k < ps.length) :
    ∀ (segs : List Seg), FileOK ps segs → ∀ fuel, (fileOf segs).length < fuel →
      rdcardsByAux (ps.getD k fun _ => false) keep fuel (fileOf segs) = ownCards keep k segs := by
  intro segs
  induction segs with
  | nil => intro _ fuel _; exact rdcardsByAux_nil _ keep fuel
  | cons s r ih =>
      intro hok fuel hf
      cases s with
      | junk ls =>
          obtain ⟨hj, hr⟩ := hok
          rw [fileOf_cons] at hf ⊢
          simp only [Seg.lines, List.length_append] at hf ⊢
          rw [rdcardsByAux_skip_many _ keep ls _ (fun l hl => hj l hl k hk) fuel (by omega)]
          exact ih hr _ (by omega)
      | card o f cs =>
          obtain ⟨hm, _, hc, hnext, hr⟩ := hok
          rw [fileOf_cons] at hf ⊢
          simp only [Seg.lines, List.length_append, List.length_cons, List.cons_append] at hf ⊢
          by_cases hko : k = o
          · have hp : (ps.getD k fun _ => false) f = true := by rw [hm k hk]; simp [hko]
            obtain ⟨n, rfl⟩ : ∃ n, fuel = n + 1 := ⟨fuel - 1, by omega⟩
            rw [rdcardsByAux_card' _ keep n f cs _ hp (fun x hx => (hc x hx).1) hnext]
            simp only [ownCards, hko, if_true]
            rw [← hko, ih hr n (by omega)]
          · have hp : (ps.getD k fun _ => false) f = false := by rw [hm k hk]; simp [hko]
            have hall : ∀ l ∈ f :: cs, (ps.getD k fun _ => false) l = false := by
              intro l hl
              rcases List.mem_cons.mp hl with rfl | hl
              · exact hp
              · exact (hc l hl).2 k hk
            have e : f :: (cs ++ fileOf r) = (f :: cs) ++ fileOf r := rfl
            rw [e, rdcardsByAux_skip_many _ keep (f :: cs) _ hall fuel (by simp; omega)]
            have hne : ¬ o = k := fun h => hko h.symm
            simp only [ownCards, hne, if_false]
            exact ih hr _ (by simp; omega)

theorem rdcardsBy_segs (ps : List (Txt → Bool)) (keep : Bool) (k : Nat) (hk : k < ps.length) (segs : List Seg)
    (h : FileOK ps segs) : rdcardsBy (ps.getD k fun _ => false) keep (fileOf segs) = ownCards keep k segs :=
  rdcardsByAux_segs ps keep k hk segs h _ (Nat.lt_succ_self _)

/-- `rdcards(f, name)` with a plain name is the matcher reader without the name field -/
theorem rdcardsAux_eq_By (nm : Txt) : ∀ (fuel : Nat) (ls : List Txt),
    rdcardsAux nm fuel ls = rdcardsByAux (fun l => startsWith nm (lower l)) false fuel ls := by
  intro fuel
  induction fuel with
  | zero => intro ls; rfl
  | succ n ih =>
      intro ls
      cases ls with
      | nil => rfl
      | cons l rest =>
          simp only [rdcardsAux, rdcardsByAux]
          split
          · simp only [Bool.false_eq_true, if_false]; rw [ih]
          · exact ih rest

theorem rdcards_eq_By (name : Txt) (ls : List Txt) : rdcards name ls = rdcardsBy (nameMatch name) false ls := by
  unfold rdcards rdcardsBy nameMatch
  exact rdcardsAux_eq_By (lower name) _ ls

/-- the own cards of reader `k` do not depend on the other segments -/
theorem ownCards_filter (keep : Bool) (k : Nat) (segs : List Seg) :
    ownCards keep k (segs.filter (Seg.ownedBy k)) = ownCards keep k segs := by
  induction segs with
  | nil => rfl
  | cons s r ih =>
      cases s with
      | junk ls => simp [List.filter, Seg.ownedBy, ownCards, ih]
      | card o f cs =>
          by_cases h : o = k
          · subst h; simp [List.filter, Seg.ownedBy, ownCards, ih]
          · have : (o == k) = false := by simpa using h
            simp [List.filter, Seg.ownedBy, ownCards, ih, h, this]

/-- removing every segment reader `k` does not own leaves a well-formed file -/
theorem fileOK_filter (ps : List (Txt → Bool)) (k : Nat) (segs : List Seg) (h : FileOK ps segs) :
    FileOK ps (segs.filter (Seg.ownedBy k)) := by
  induction segs with
  | nil => trivial
  | cons s r ih =>
      cases s with
      | junk ls => simp only [List.filter, Seg.ownedBy]; exact ih h.2
      | card o f cs =>
          obtain ⟨hm, hnc, hc, _, hr⟩ := h
          by_cases hk : (o == k) = true
          · simp only [List.filter, Seg.ownedBy, hk]
            refine ⟨hm, hnc, hc, ?_, ih hr⟩
            intro x hx
            -- the next line is the first line of another own card: never a continuation line
            generalize hq : r.filter (Seg.ownedBy k) = q at hx
            have hqok : FileOK ps q := by rw [← hq]; exact ih hr
            have hown : ∀ s ∈ q, Seg.ownedBy k s = true := by
              intro s hs; rw [← hq] at hs; exact (List.mem_filter.mp hs).2
            cases q with
            | nil => simp [fileOf] at hx
            | cons s q' =>
                cases s with
                | junk ls =>
                    have := hown (Seg.junk ls) (by simp)
                    simp [Seg.ownedBy] at this
                | card o' f' cs' =>
                    simp [fileOf, Seg.lines] at hx
                    subst hx
                    obtain ⟨h1, h2, h3⟩ := hqok.2.1
                    cases modeOf f <;> assumption
          · have : (o == k) = false := by simpa using hk
            simp only [List.filter, Seg.ownedBy, this]
            exact ih hr

theorem fileOKb_sound (ps : List (Txt → Bool)) : ∀ segs, fileOKb ps segs = true → FileOK ps segs := by
  intro segs
  induction segs with
  | nil => intro _; trivial
  | cons s r ih =>
      intro h
      cases s with
      | junk ls =>
          simp only [fileOKb, Bool.and_eq_true, List.all_eq_true, List.mem_range, Bool.not_eq_true'] at h
          exact ⟨fun l hl k hk => h.1 l hl k hk, ih h.2⟩
      | card o f cs =>
          simp only [fileOKb, Bool.and_eq_true, List.all_eq_true, List.mem_range, Bool.not_eq_true', beq_iff_eq] at h
          obtain ⟨⟨⟨⟨h1, h234⟩, h5⟩, h6⟩, h7⟩ := h
          refine ⟨fun k hk => h1 k hk, ⟨h234.1.1, h234.1.2, h234.2⟩, fun l hl => ⟨(h5 l hl).1, fun k hk => (h5 l hl).2 k hk⟩, ?_, ih h7⟩
          intro x hx
          rw [hx] at h6
          simpa using h6

end PyYetiVerif.Bulk
