import PyYetiVerif.Lemmas.NasCardsMultiArr
import PyYetiVerif.Lemmas.NasCardsLarge
/-! C12: the texts the writers produce are block texts without tabs (hypotheses of `rdcards_texts`);
the writers' type dispatch. -/
set_option linter.unusedSimpArgs false
set_option linter.unusedVariables false
namespace PyYetiVerif.NasCards
open PyYetiVerif.PyFloat PyYetiVerif.NasFloat

theorem body8_chars (fmt : Dbl → Str) : ∀ (toks : List Tok) (i : Nat), ∀ c ∈ body8 fmt i toks,
    c ∈ "\n+       ".toList ∨ ∃ t ∈ toks, c ∈ enc 8 fmt t
  | [], i, c, hc => by simp [body8] at hc
  | t :: ts, i, c, hc => by
    simp only [body8, List.mem_append] at hc
    rcases hc with (h | h) | h
    · left
      split_ifs at h
      · exact h
      · simp at h
    · exact Or.inr ⟨t, List.mem_cons_self, h⟩
    · rcases body8_chars fmt ts (i + 1) c h with h' | ⟨t', ht', hc'⟩
      · exact Or.inl h'
      · exact Or.inr ⟨t', List.mem_cons_of_mem _ ht', hc'⟩

theorem body16_chars (fmt : Dbl → Str) : ∀ (toks : List Tok) (i : Nat), ∀ c ∈ body16 fmt i toks,
    c ∈ "*\n*       ".toList ∨ ∃ t ∈ toks, c ∈ enc 16 fmt t
  | [], i, c, hc => by simp [body16] at hc
  | t :: ts, i, c, hc => by
    simp only [body16, List.mem_append] at hc
    rcases hc with (h | h) | h
    · left
      split_ifs at h
      · exact h
      · have : c ∈ "\n*       ".toList := h
        revert this; generalize c = d; intro hd
        have key : ∀ d ∈ "\n*       ".toList, d ∈ "*\n*       ".toList := by decide
        exact key d hd
      · simp at h
    · exact Or.inr ⟨t, List.mem_cons_self, h⟩
    · rcases body16_chars fmt ts (i + 1) c h with h' | ⟨t', ht', hc'⟩
      · exact Or.inl h'
      · exact Or.inr ⟨t', List.mem_cons_of_mem _ ht', hc'⟩

theorem name_head (name : Str) (hname : NameOK name) (rest : Str) :
    ∀ c ∈ (ljust 8 name ++ rest).head?, c ≠ ' ' ∧ c ≠ '+' ∧ c ≠ '*' ∧ c ≠ ',' ∧ c ≠ '\t' := by
  obtain ⟨⟨c0, t, hn, hlet⟩, _, _⟩ := hname
  intro c hc
  rw [hn] at hc
  simp only [ljust, List.cons_append, List.head?_cons, Option.mem_def, Option.some.injEq] at hc
  subst hc
  have key : ∀ d : Char, isLetter d = true → d ≠ ' ' ∧ d ≠ '+' ∧ d ≠ '*' ∧ d ≠ ',' ∧ d ≠ '\t' := by
    intro d hd
    refine ⟨?_, ?_, ?_, ?_, ?_⟩ <;> (rintro rfl; exact absurd hd (by decide))
  exact key _ hlet

theorem name_noTab (name : Str) (hname : NameOK name) : ∀ c ∈ ljust 8 name, c ≠ '\t' := by
  obtain ⟨_, _, hch⟩ := hname
  intro c hc
  simp only [ljust, List.mem_append] at hc
  rcases hc with h | h
  · rintro rfl; exact absurd (hch _ h).1 (by decide)
  · rw [List.eq_of_mem_replicate h]; decide

theorem cardField_noTab (W : Nat) (f : Str) (h : CardField W f) : ∀ c ∈ f, c ≠ '\t' := by
  intro c hc heq
  have := h.1.2.1 c hc (by rw [heq]; decide)
  rw [heq] at this
  exact absurd this (by decide)

/-- the text `wtcard8` writes is a block text without tabs -/
theorem wtcard8_block (name : Str) (toks : List Tok) (text : Str) (hname : NameOK name)
    (hf : ∀ t ∈ toks, CardField 8 (enc 8 formatFloat8 t)) (hw : wtcard8 name toks = some text) :
    BlockText text ∧ ∀ c ∈ text, c ≠ '\t' := by
  unfold wtcard8 at hw
  split_ifs at hw
  simp only [Option.some.injEq] at hw
  subst hw
  refine ⟨⟨⟨_, rfl⟩, ?_⟩, ?_⟩
  · rw [List.append_assoc]; exact name_head name hname _
  · intro c hc
    simp only [List.mem_append, List.mem_singleton] at hc
    rcases hc with (h | h) | h
    · exact name_noTab name hname c h
    · rcases body8_chars formatFloat8 toks 0 c h with h' | ⟨t, ht, hct⟩
      · have key : ∀ d ∈ "\n+       ".toList, d ≠ '\t' := by decide
        exact key c h'
      · exact cardField_noTab 8 _ (hf t ht) c hct
    · rw [h]; decide

/-- the text `wtcard16` / `wtcard16d` writes is a block text without tabs -/
theorem wtcard16_block (fmt : Dbl → Str) (name : Str) (toks : List Tok) (text : Str) (hname : NameOK name)
    (hf : ∀ t ∈ toks, CardField 16 (enc 16 fmt t)) (hw : wtcard16With fmt name toks = some text) :
    BlockText text ∧ ∀ c ∈ text, c ≠ '\t' := by
  unfold wtcard16With at hw
  have hP : ∀ c ∈ (if nLines16 toks.length % 2 != 0 then ['\n', '*'] else []), c ≠ '\t' := by
    intro c hc
    split_ifs at hc
    · have key : ∀ d ∈ ['\n', '*'], d ≠ '\t' := by decide
      exact key c hc
    · simp at hc
  generalize (if nLines16 toks.length % 2 != 0 then ['\n', '*'] else []) = P at hw hP
  split_ifs at hw
  simp only [Option.some.injEq] at hw
  subst hw
  refine ⟨⟨⟨_, rfl⟩, ?_⟩, ?_⟩
  · rw [List.append_assoc, List.append_assoc]; exact name_head name hname _
  · intro c hc
    simp only [List.mem_append, List.mem_singleton] at hc
    rcases hc with ((h | h) | h) | h
    · exact name_noTab name hname c h
    · rcases body16_chars fmt toks 0 c h with h' | ⟨t, ht, hct⟩
      · have key : ∀ d ∈ "*\n*       ".toList, d ≠ '\t' := by decide
        exact key c h'
      · exact cardField_noTab 16 _ (hf t ht) c hct
    · exact hP c h
    · rw [h]; decide

/-! ### the writers' type dispatch -/

theorem okToks_some_iff : ∀ (fields : List TokX) (toks : List Tok),
    okToks fields = some toks ↔ fields = toks.map TokX.ok
  | [], toks => by
    cases toks <;> simp [okToks]
  | .bad :: r, toks => by
    cases toks <;> simp [okToks]
  | .ok t :: r, toks => by
    cases toks with
    | nil => simp [okToks]
    | cons t' ts =>
      simp only [okToks, Option.map_eq_some_iff, List.map_cons, List.cons.injEq, TokX.ok.injEq]
      constructor
      · rintro ⟨a, ha, h1, h2⟩
        exact ⟨h1, by rw [← h2]; exact (okToks_some_iff r a).1 ha⟩
      · rintro ⟨h1, h2⟩
        exact ⟨ts, (okToks_some_iff r ts).2 h2, h1, rfl⟩

theorem okToks_none_iff : ∀ (fields : List TokX), okToks fields = none ↔ TokX.bad ∈ fields
  | [] => by simp [okToks]
  | .bad :: r => by simp [okToks]
  | .ok t :: r => by
    simp only [okToks, Option.map_eq_none_iff, List.mem_cons, reduceCtorEq, false_or]
    exact okToks_none_iff r

end PyYetiVerif.NasCards
