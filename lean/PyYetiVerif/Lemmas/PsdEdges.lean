import PyYetiVerif.Lemmas.PsdArea
/-! Helper lemmas for C19: the band edges `rescale._get_fl_fu` builds around centre frequencies
(linear scale: `c ∓ Df/2`; otherwise geometric means, end bands mirrored in log space). -/
namespace PyYetiVerif.Psd
open Real

section field
variable {α : Type} [Field α] [LinearOrder α] [IsStrictOrderedRing α]

omit [LinearOrder α] [IsStrictOrderedRing α] in
theorem length_diffs : ∀ c : List α, (diffs c).length = c.length - 1
  | [] => rfl
  | [_] => rfl
  | a :: b :: r => by
      have := length_diffs (b :: r)
      simp only [diffs, List.length_cons] at this ⊢
      omega

omit [LinearOrder α] [IsStrictOrderedRing α] in
theorem getElem_diffs : ∀ (c : List α) (i : Nat) (h : i + 1 < c.length),
    (diffs c)[i]'(by rw [length_diffs]; omega) = c[i + 1] - c[i]
  | a :: b :: r, 0, _ => by simp [diffs]
  | a :: b :: r, i + 1, h => by
      have := getElem_diffs (b :: r) i (by simpa using h)
      simpa [diffs] using this

omit [IsStrictOrderedRing α] in
/-- `np.all(Df == Df[0])`: every step equals the first -/
theorem isLinExact_iff (c : List α) (d0 : α) (r : List α) (hd : diffs c = d0 :: r) :
    isLinExact c = true ↔ ∀ d ∈ diffs c, d = d0 := by
  unfold isLinExact
  rw [hd]
  simp only [List.all_eq_true, Bool.and_eq_true, decide_eq_true_eq, List.mem_cons, forall_eq_or_imp,
    true_and]
  constructor
  · intro h d hd'; exact le_antisymm (h d hd').1 (h d hd').2
  · intro h d hd'; rw [h d hd']; exact ⟨le_refl _, le_refl _⟩

/-- **linear scale, exact**: with all steps equal to `d`, consecutive bands share an edge, every
centre is the middle of its band and every band has width `d` -/
theorem edgesLin_partition (c : List α) (d : α) (hd : ∀ x ∈ diffs c, x = d) :
    (edgesLin c d).1.length = c.length ∧ (edgesLin c d).2.length = c.length ∧
    (∀ (i : Nat) (h : i + 1 < c.length),
      (edgesLin c d).2[i]'(by simp [edgesLin]; omega) = (edgesLin c d).1[i + 1]'(by simp [edgesLin]; omega)) ∧
    (∀ (i : Nat) (h : i < c.length),
      ((edgesLin c d).1[i]'(by simp [edgesLin]; omega) + (edgesLin c d).2[i]'(by simp [edgesLin]; omega)) / 2 = c[i] ∧
      (edgesLin c d).2[i]'(by simp [edgesLin]; omega) - (edgesLin c d).1[i]'(by simp [edgesLin]; omega) = d) := by
  refine ⟨by simp [edgesLin], by simp [edgesLin], ?_, ?_⟩
  · intro i h
    have := hd _ (List.getElem_mem (l := diffs c) (n := i) (by rw [length_diffs]; omega))
    rw [getElem_diffs c i h] at this
    simp only [edgesLin, List.getElem_map]
    linarith
  · intro i h
    simp only [edgesLin, List.getElem_map]
    constructor <;> ring


omit [Field α] [LinearOrder α] [IsStrictOrderedRing α] in
theorem setLast_eq (l : List α) (u v : α) (h : l.getLast? = some u) :
    setLast l v = l.dropLast ++ [v] := by
  unfold setLast
  have hne : l ≠ [] := by rintro rfl; simp at h
  have hl : l = l.dropLast ++ [u] := by
    have := List.dropLast_append_getLast hne
    rw [List.getLast?_eq_some_getLast hne] at h
    rw [← Option.some.inj h]; exact this.symm
  have hr : l.reverse = u :: l.dropLast.reverse := by
    conv_lhs => rw [hl]
    simp
  rw [hr]
  simp

omit [Field α] [IsStrictOrderedRing α] in
/-- **`extendends`**: the lower edge of the first output band is raised to the lower EDGE of the
first input band when it lies below it, the upper edge of the last output band is lowered to the
upper edge of the last input band when it lies above it; nothing else changes -/
theorem clipEnds_spec (FLin FUin FL FU : List α) (a b u v : α) (h1 : FL.head? = some a)
    (h2 : FLin.head? = some b) (h3 : FU.getLast? = some u) (h4 : FUin.getLast? = some v) :
    (clipEnds FLin FUin FL FU).1 = max a b :: FL.tail ∧
      (clipEnds FLin FUin FL FU).2 = FU.dropLast ++ [min u v] := by
  unfold clipEnds
  simp only [h1, h2, h3, h4]
  constructor
  · cases FL with
    | nil => simp at h1
    | cons x r =>
        simp only [List.head?_cons, Option.some.injEq] at h1
        subst h1
        split_ifs with h
        · simp [setHead, max_eq_right h.le]
        · simp [max_eq_left (not_lt.mp h)]
  · split_ifs with h
    · rw [setLast_eq FU u v h3, min_eq_right h.le]
    · rw [min_eq_left (not_lt.mp h)]
      have hne : FU ≠ [] := by rintro rfl; simp at h3
      rw [List.getLast?_eq_some_getLast hne] at h3
      rw [← Option.some.inj h3]
      exact (List.dropLast_append_getLast hne).symm

end field

/-- **linear within the code's tolerance** `|Df/Df[0] - 1| < 1e-12`: the bands `c ∓ Df[0]/2` do
not share edges exactly; the gap or overlap between consecutive bands is `|Df[i] - Df[0]|`, below
`1e-12·|Df[0]|` -/
theorem edgesLin_tol (c : List ℝ) (d0 : ℝ) (r : List ℝ) (hd : diffs c = d0 :: r)
    (ht : isLinTol c = true) (i : Nat) (h : i + 1 < c.length) :
    (edgesLin c d0).2[i]'(by simp [edgesLin]; omega) - (edgesLin c d0).1[i + 1]'(by simp [edgesLin]; omega)
        = d0 - (c[i + 1] - c[i]) ∧
      |(edgesLin c d0).2[i]'(by simp [edgesLin]; omega) - (edgesLin c d0).1[i + 1]'(by simp [edgesLin]; omega)|
        < 1e-12 * |d0| := by
  have hval : (edgesLin c d0).2[i]'(by simp [edgesLin]; omega) -
      (edgesLin c d0).1[i + 1]'(by simp [edgesLin]; omega) = d0 - (c[i + 1] - c[i]) := by
    simp only [edgesLin, List.getElem_map]; ring
  refine ⟨hval, ?_⟩
  rw [hval]
  unfold isLinTol at ht
  rw [hd] at ht
  simp only [List.all_eq_true, decide_eq_true_eq] at ht
  have hmem : c[i + 1] - c[i] ∈ d0 :: r := by
    rw [← hd, ← getElem_diffs c i h]; exact List.getElem_mem _
  have h0 := ht d0 (by simp)
  have hi := ht _ hmem
  rw [absv_eq_abs] at h0 hi
  have hd0 : d0 ≠ 0 := by
    intro e
    rw [e] at h0
    norm_num at h0
  have e : d0 - (c[i + 1] - c[i]) = -((c[i + 1] - c[i]) / d0 - 1) * d0 := by
    field_simp; ring
  rw [e, abs_mul, abs_neg]
  exact mul_lt_mul_of_pos_right hi (abs_pos.mpr hd0)

theorem length_mids : ∀ c : List ℝ, (mids c).length = c.length - 1
  | [] => rfl
  | [_] => rfl
  | a :: b :: r => by
      have := length_mids (b :: r)
      simp only [mids, List.length_cons] at this ⊢
      omega

theorem getElem_mids : ∀ (c : List ℝ) (i : Nat) (h : i + 1 < c.length),
    (mids c)[i]'(by rw [length_mids]; omega) = Real.sqrt (c[i] * c[i + 1])
  | a :: b :: r, 0, _ => by simp [mids]; rfl
  | a :: b :: r, i + 1, h => by
      have := getElem_mids (b :: r) i (by simpa using h)
      simpa [mids] using this

/-- the logarithmic branch, written out -/
theorem edgesLog_eq (c0 c1 : ℝ) (rest : List ℝ) :
    ∃ m0 ml cl, (mids (c0 :: c1 :: rest)).head? = some m0 ∧
      (mids (c0 :: c1 :: rest)).getLast? = some ml ∧ (c0 :: c1 :: rest).getLast? = some cl ∧
      edgesLog (c0 :: c1 :: rest) =
        ((m0 / c1 * c0) :: mids (c0 :: c1 :: rest), mids (c0 :: c1 :: rest) ++ [cl / ml * cl]) := by
  have hne : mids (c0 :: c1 :: rest) ≠ [] := by simp [mids]
  obtain ⟨m0, hm0⟩ : ∃ m0, (mids (c0 :: c1 :: rest)).head? = some m0 :=
    ⟨_, List.head?_eq_some_head hne⟩
  obtain ⟨ml, hml⟩ : ∃ ml, (mids (c0 :: c1 :: rest)).getLast? = some ml :=
    ⟨_, List.getLast?_eq_some_getLast hne⟩
  obtain ⟨cl, hcl⟩ : ∃ cl, (c0 :: c1 :: rest).getLast? = some cl :=
    ⟨_, List.getLast?_eq_some_getLast (by simp)⟩
  refine ⟨m0, ml, cl, hm0, hml, hcl, ?_⟩
  unfold edgesLog
  simp only [hm0, hml, hcl]

/-- **logarithmic scale**: consecutive bands share an edge, the shared edge is the geometric mean
of the two centres, and each END centre is the geometric mean of its own band edges (the end bands
are mirrored in log space) -/
theorem edgesLog_partition (c : List ℝ) (hn : 2 ≤ c.length) (hpos : ∀ x ∈ c, 0 < x) :
    ∃ (h1 : (edgesLog c).1.length = c.length) (h2 : (edgesLog c).2.length = c.length),
      (∀ (i : Nat) (h : i + 1 < c.length),
        (edgesLog c).2[i] = (edgesLog c).1[i + 1] ∧ (edgesLog c).2[i] = Real.sqrt (c[i] * c[i + 1])) ∧
      (edgesLog c).1[0] * (edgesLog c).2[0] = c[0] ^ 2 ∧
      (edgesLog c).1[c.length - 1] * (edgesLog c).2[c.length - 1] = c[c.length - 1] ^ 2 := by
  obtain ⟨c0, c1, rest, rfl⟩ : ∃ c0 c1 rest, c = c0 :: c1 :: rest := by
    match c, hn with
    | c0 :: c1 :: rest, _ => exact ⟨c0, c1, rest, rfl⟩
  obtain ⟨m0, ml, cl, hm0, hml, hcl, he⟩ := edgesLog_eq c0 c1 rest
  have hlen := length_mids (c0 :: c1 :: rest)
  have h1 : (edgesLog (c0 :: c1 :: rest)).1.length = (c0 :: c1 :: rest).length := by
    rw [he]; simp only [List.length_cons] at hlen ⊢; omega
  have h2 : (edgesLog (c0 :: c1 :: rest)).2.length = (c0 :: c1 :: rest).length := by
    rw [he]; simp only [List.length_append, List.length_cons, List.length_nil] at hlen ⊢; omega
  refine ⟨h1, h2, ?_, ?_, ?_⟩
  · intro i h
    have hi : i < (mids (c0 :: c1 :: rest)).length := by rw [hlen]; omega
    have e2 : (edgesLog (c0 :: c1 :: rest)).2[i] = (mids (c0 :: c1 :: rest))[i] := by
      simp only [he]; rw [List.getElem_append_left hi]
    have e1 : (edgesLog (c0 :: c1 :: rest)).1[i + 1] = (mids (c0 :: c1 :: rest))[i] := by
      simp only [he]; rfl
    rw [e2, e1, getElem_mids _ i h]
    exact ⟨rfl, rfl⟩
  · have hc0 : 0 < c0 := hpos c0 (by simp)
    have hc1 : 0 < c1 := hpos c1 (by simp)
    have hm : m0 = Real.sqrt (c0 * c1) := by
      simp only [mids, List.head?_cons, Option.some.injEq] at hm0
      exact hm0.symm
    have e1 : (edgesLog (c0 :: c1 :: rest)).1[0] = m0 / c1 * c0 := by simp only [he]; rfl
    have e2 : (edgesLog (c0 :: c1 :: rest)).2[0] = m0 := by
      simp only [he]
      rw [List.getElem_append_left (by rw [hlen]; simp)]
      simp only [mids, List.getElem_cons_zero]
      exact hm.symm
    rw [e1, e2, hm]
    have hs : Real.sqrt (c0 * c1) * Real.sqrt (c0 * c1) = c0 * c1 :=
      Real.mul_self_sqrt (mul_pos hc0 hc1).le
    simp only [List.getElem_cons_zero]
    field_simp
    nlinarith [hs]
  · set n := (c0 :: c1 :: rest).length with hn'
    have hnl : (mids (c0 :: c1 :: rest)).length = n - 1 := hlen
    have hcl' : cl = (c0 :: c1 :: rest)[n - 1] := by
      rw [List.getLast?_eq_getElem?, List.getElem?_eq_getElem (by omega)] at hcl
      exact (Option.some.inj hcl).symm
    have hml' : ml = Real.sqrt ((c0 :: c1 :: rest)[n - 2] * (c0 :: c1 :: rest)[n - 1]) := by
      rw [List.getLast?_eq_getElem?, List.getElem?_eq_getElem (by rw [hnl]; omega)] at hml
      have := getElem_mids (c0 :: c1 :: rest) (n - 2) (by omega)
      have e : n - 2 + 1 = n - 1 := by omega
      simp only [hnl, e] at this hml
      have e' : n - 1 - 1 = n - 2 := by omega
      simp only [e'] at hml
      rw [← this]; exact (Option.some.inj hml).symm
    have e1 : (edgesLog (c0 :: c1 :: rest)).1[n - 1] = ml := by
      simp only [he]
      have : n - 1 = (n - 2) + 1 := by omega
      simp only [this, List.getElem_cons_succ]
      rw [List.getLast?_eq_getElem?, List.getElem?_eq_getElem (by rw [hnl]; omega)] at hml
      have e' : (mids (c0 :: c1 :: rest)).length - 1 = n - 2 := by omega
      simp only [e'] at hml
      exact Option.some.inj hml
    have e2 : (edgesLog (c0 :: c1 :: rest)).2[n - 1] = cl / ml * cl := by
      simp only [he]
      rw [List.getElem_append_right (by rw [hnl])]
      simp [hnl]
    rw [e1, e2]
    have hp1 : 0 < (c0 :: c1 :: rest)[n - 1] := hpos _ (List.getElem_mem _)
    have hp2 : 0 < (c0 :: c1 :: rest)[n - 2] := hpos _ (List.getElem_mem _)
    have hml0 : 0 < ml := by rw [hml']; exact Real.sqrt_pos.mpr (mul_pos hp2 hp1)
    rw [← hcl']
    field_simp


/-- which branch `_get_fl_fu` takes -/
theorem getFlFu_eq (c : List ℝ) (d0 : ℝ) (r : List ℝ) (hd : diffs c = d0 :: r) :
    getFlFu c = if isLinTol c then edgesLin c d0 else edgesLog c := by
  unfold getFlFu; rw [hd]

/-- the edges of the INPUT scale: exact-equality test first -/
theorem inEdges_eq (F : List ℝ) (d0 : ℝ) (r : List ℝ) (hd : diffs F = d0 :: r) :
    inEdges F = if isLinExact F then edgesLin F d0 else getFlFu F := by
  unfold inEdges; rw [hd]

end PyYetiVerif.Psd
