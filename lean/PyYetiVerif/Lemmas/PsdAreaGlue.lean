import PyYetiVerif.Lemmas.PsdArea
/-! Helper lemmas for C19: gluing the per-segment area formula of `psd.area` over the whole log-log
interpolant `psd.interp(spec, ·, linear=False)` (the model's `interpLog`). -/
namespace PyYetiVerif.Psd
open Real PyYetiVerif.Fixtime

section field
variable {α : Type} [Field α] [LinearOrder α] [IsStrictOrderedRing α]

omit [Field α] [IsStrictOrderedRing α] in
/-- `searchsorted(xs, x) = k + 1` when `xs[k] < x ≤ xs[k+1]` -/
theorem ssLeft_between (xs : List α) (hs : xs.Pairwise (· < ·)) (k : Nat) (hk : k + 1 < xs.length)
    (x : α) (h1 : xs[k] < x) (h2 : x ≤ xs[k + 1]) : ssLeft xs x = k + 1 := by
  have hs' : xs.Pairwise (· ≤ ·) := hs.imp le_of_lt
  apply le_antisymm
  · by_contra hlt
    have := lt_of_lt_ssLeft xs x (k + 1) hk (not_le.mp hlt)
    exact absurd h2 (not_le.mpr this)
  · by_contra hlt
    have hle : ssLeft xs x ≤ k := by omega
    have := le_of_ssLeft_le xs x hs' k (by omega) hle
    exact absurd h1 (not_lt.mpr this)

/-- `interp1d(xs, ys)(x)` on the segment `[xs[k], xs[k+1]]` is the chord through the two points -/
theorem interp1dLin_seg (xs ys : List α) (hs : xs.Pairwise (· < ·)) (hl : ys.length = xs.length)
    (k : Nat) (hk : k + 1 < xs.length) (x : α) (h1 : xs[k] ≤ x) (h2 : x ≤ xs[k + 1]) :
    interp1dLin xs ys x =
      (ys[k + 1]'(by omega) - ys[k]'(by omega)) / (xs[k + 1] - xs[k]) * (x - xs[k])
        + ys[k]'(by omega) := by
  have hs' : xs.Pairwise (· ≤ ·) := hs.imp le_of_lt
  rcases eq_or_lt_of_le h1 with heq | hlt
  · subst heq
    rw [interp1dLin_at xs ys hs (by omega) hl k (by omega)]
    ring
  · have hh : xs.head? = some xs[0] := by
      rw [List.head?_eq_getElem?, List.getElem?_eq_getElem]
    have hlast : xs.getLast? = some xs[xs.length - 1] := by
      rw [List.getLast?_eq_getElem?, List.getElem?_eq_getElem]
    have h0 : xs[0] ≤ x :=
      le_trans (sorted_getElem_le hs' (Nat.zero_le k) (by omega)) h1
    have hL : x ≤ xs[xs.length - 1] :=
      le_trans h2 (sorted_getElem_le hs' (show k + 1 ≤ xs.length - 1 by omega) (by omega))
    unfold interp1dLin
    rw [hh, hlast]
    simp only
    rw [if_neg (not_lt.mpr h0), if_neg (not_lt.mpr hL), ssLeft_between xs hs k hk x hlt h2,
      if_neg (by omega), if_neg (by omega)]
    rw [List.getElem?_eq_getElem (show k + 1 - 1 < xs.length by omega),
      List.getElem?_eq_getElem hk,
      List.getElem?_eq_getElem (show k + 1 - 1 < ys.length by omega),
      List.getElem?_eq_getElem (show k + 1 < ys.length by omega)]
    simp only [Nat.add_sub_cancel]

end field

/-- the slope `s = log(p2/p1)/log(f2/f1)` of the segment between two rows of a specification -/
noncomputable def segSlope (a b : ℝ × ℝ) : ℝ := log (b.2 / a.2) / log (b.1 / a.1)

/-- the law through `(f1, p1)` with the slope computed from `(f2, p2)` passes through `(f2, p2)` -/
theorem segLaw_end (a b : ℝ × ℝ) (ha1 : 0 < a.1) (hab : a.1 < b.1) (ha2 : 0 < a.2) (hb2 : 0 < b.2) :
    segLaw a.1 a.2 (segSlope a b) b.1 = b.2 := by
  unfold segLaw segSlope
  have hr : 1 < b.1 / a.1 := (one_lt_div ha1).mpr hab
  have hr0 : 0 < b.1 / a.1 := by linarith
  have hL : log (b.1 / a.1) ≠ 0 := ne_of_gt (Real.log_pos hr)
  rw [Real.rpow_def_of_pos hr0, mul_div_cancel₀ _ hL, Real.exp_log (div_pos hb2 ha2)]
  field_simp

/-- on the segment `[f_k, f_{k+1}]` the log-log interpolant is the constant-dB/octave law through
`(f_k, p_k)` with the slope of that segment -/
theorem interpLog_seg (spec : List (ℝ × ℝ)) (hf : (spec.map (·.1)).Pairwise (· < ·))
    (hpos : ∀ r ∈ spec, 0 < r.1 ∧ 0 < r.2) (k : Nat) (hk : k + 1 < spec.length) (x : ℝ)
    (h1 : spec[k].1 ≤ x) (h2 : x ≤ spec[k + 1].1) :
    interpLog spec x = segLaw spec[k].1 spec[k].2 (segSlope spec[k] spec[k + 1]) x := by
  have hpk := hpos spec[k] (List.getElem_mem _)
  have hpk1 := hpos spec[k + 1] (List.getElem_mem _)
  have hx : 0 < x := lt_of_lt_of_le hpk.1 h1
  have hlogs : (spec.map fun r => Real.log r.1).Pairwise (· < ·) := by
    rw [List.pairwise_map] at hf ⊢
    exact hf.imp_of_mem fun {a b} ha hb h => Real.log_lt_log (hpos a ha).1 h
  have hs' : (spec.map (·.1)).Pairwise (· ≤ ·) := hf.imp le_of_lt
  have key := interp1dLin_seg (spec.map fun r => Real.log r.1) (spec.map fun r => Real.log r.2)
    hlogs (by simp) k (by simpa using hk) (Real.log x)
    (by simpa using Real.log_le_log hpk.1 h1) (by simpa using Real.log_le_log hx h2)
  simp only [List.getElem_map] at key
  unfold interpLog
  have e1 : ∀ y : ℝ, PsdOps.log y = Real.log y := fun _ => rfl
  have e2 : ∀ y : ℝ, PsdOps.exp y = Real.exp y := fun _ => rfl
  simp only [e1, e2]
  rw [key]
  have hh : (spec.map (·.1)).head? = some spec[0].1 := by
    rw [List.head?_eq_getElem?, List.getElem?_eq_getElem (by simp; omega)]
    simp
  have hl : (spec.map (·.1)).getLast? = some spec[spec.length - 1].1 := by
    rw [List.getLast?_eq_getElem?, List.getElem?_eq_getElem (by simp; omega)]
    simp
  rw [hh, hl]
  have h0 : spec[0].1 ≤ x := by
    have := sorted_getElem_le hs' (Nat.zero_le k) (by simp; omega)
    simp only [List.getElem_map] at this
    exact le_trans this h1
  have hL : x ≤ spec[spec.length - 1].1 := by
    have := sorted_getElem_le hs' (show k + 1 ≤ spec.length - 1 by omega) (by simp; omega)
    simp only [List.getElem_map] at this
    exact le_trans h2 this
  simp only
  rw [if_pos ⟨h0, hL⟩]
  have hlt : spec[k].1 < spec[k + 1].1 := by
    have := List.pairwise_iff_getElem.mp hf k (k + 1) (by simp; omega) (by simpa using hk)
      (Nat.lt_succ_self k)
    simpa using this
  unfold segLaw segSlope
  rw [Real.rpow_def_of_pos (div_pos hx hpk.1), Real.log_div (ne_of_gt hpk1.2) (ne_of_gt hpk.2),
    Real.log_div (ne_of_gt hpk1.1) (ne_of_gt hpk.1), Real.log_div (ne_of_gt hx) (ne_of_gt hpk.1)]
  have : Real.exp ((Real.log spec[k + 1].2 - Real.log spec[k].2) /
      (Real.log spec[k + 1].1 - Real.log spec[k].1) * (Real.log x - Real.log spec[k].1)
      + Real.log spec[k].2) = spec[k].2 * Real.exp ((Real.log x - Real.log spec[k].1) *
        ((Real.log spec[k + 1].2 - Real.log spec[k].2) /
          (Real.log spec[k + 1].1 - Real.log spec[k].1))) := by
    rw [Real.exp_add, Real.exp_log hpk.2, mul_comm]
    congr 2
    ring
  exact this

/-- `g` follows, on every segment of the specification, the constant-dB/octave law of that
segment, and every segment's slope is one for which `psd.area`'s formula is exact -/
def SegOK (g : ℝ → ℝ) : List (ℝ × ℝ) → Prop
  | a :: b :: r =>
      (0 < a.1 ∧ a.1 < b.1 ∧ 0 < a.2 ∧ 0 < b.2 ∧
        (segSlope a b = -1 ∨ 1e-8 ≤ |segSlope a b + 1|) ∧
        ∀ x ∈ Set.Icc a.1 b.1, g x = segLaw a.1 a.2 (segSlope a b) x) ∧ SegOK g (b :: r)
  | _ => True

theorem segOK_of_index (g : ℝ → ℝ) (R : ℝ × ℝ → ℝ × ℝ → Prop)
    (hR : ∀ a b, R a b → 0 < a.1 ∧ a.1 < b.1 ∧ 0 < a.2 ∧ 0 < b.2 ∧
        (segSlope a b = -1 ∨ 1e-8 ≤ |segSlope a b + 1|) ∧
        ∀ x ∈ Set.Icc a.1 b.1, g x = segLaw a.1 a.2 (segSlope a b) x) :
    ∀ spec : List (ℝ × ℝ), (∀ (k : Nat) (hk : k + 1 < spec.length), R spec[k] spec[k + 1]) →
      SegOK g spec
  | [], _ => trivial
  | [_], _ => trivial
  | a :: b :: r, h => by
      refine ⟨hR a b (h 0 (by simp)), segOK_of_index g R hR (b :: r) ?_⟩
      intro k hk
      have := h (k + 1) (by simpa using hk)
      simpa using this

theorem segLaw_intervalIntegrable (f1 p1 s a b : ℝ) (hf1 : 0 < f1) (ha : 0 < a) (hb : 0 < b) :
    IntervalIntegrable (segLaw f1 p1 s) MeasureTheory.volume a b := by
  apply ContinuousOn.intervalIntegrable
  unfold segLaw
  apply ContinuousOn.mul continuousOn_const
  apply ContinuousOn.rpow_const
  · exact (continuous_id.div_const f1).continuousOn
  · intro x hx
    left
    have : 0 < x := by
      rcases Set.mem_uIcc.mp hx with ⟨h, _⟩ | ⟨h, _⟩ <;> linarith
    exact ne_of_gt (div_pos this hf1)

/-- gluing: a function that follows the segment laws has integral `psd.area(spec)` over the
specification's frequency range -/
theorem area_glue (g : ℝ → ℝ) : ∀ (r : List (ℝ × ℝ)) (a : ℝ × ℝ), SegOK g (a :: r) →
    IntervalIntegrable g MeasureTheory.volume a.1 ((a :: r).getLast (by simp)).1 ∧
      ∫ x in a.1..((a :: r).getLast (by simp)).1, g x = area (a :: r)
  | [], a, _ => by
      refine ⟨by simp, ?_⟩
      simp [area, segAreas, sumL]
  | b :: r, a, h => by
      obtain ⟨⟨ha1, hab, ha2, hb2, hs, hg⟩, hrest⟩ := h
      obtain ⟨hint, hval⟩ := area_glue g r b hrest
      have hb1 : 0 < b.1 := by linarith
      have hseg : IntervalIntegrable g MeasureTheory.volume a.1 b.1 := by
        apply (segLaw_intervalIntegrable a.1 a.2 (segSlope a b) a.1 b.1 ha1 ha1 hb1).congr
        intro x hx
        rw [Set.uIoc_of_le hab.le] at hx
        exact (hg x ⟨hx.1.le, hx.2⟩).symm
      have hlast : (a :: b :: r).getLast (by simp) = (b :: r).getLast (by simp) :=
        List.getLast_cons_cons ..
      rw [hlast]
      refine ⟨hseg.trans hint, ?_⟩
      rw [← intervalIntegral.integral_add_adjacent_intervals hseg hint, hval]
      have hI : ∫ x in a.1..b.1, g x = areaSeg a.1 a.2 b.1 b.2 := by
        rw [intervalIntegral.integral_congr (g := segLaw a.1 a.2 (segSlope a b))]
        · have := areaSeg_eq_integral a.1 b.1 a.2 (segSlope a b) ha1 hab ha2 hs
          rw [segLaw_end a b ha1 hab ha2 hb2] at this
          exact this.symm
        · intro x hx
          rw [Set.uIcc_of_le hab.le] at hx
          exact hg x hx
      rw [hI]
      unfold area
      rw [sumL_eq_sum, sumL_eq_sum]
      simp [segAreas]

/-- **area = integral of the interpolant**: for a specification with strictly increasing positive
frequencies, positive PSD values and segment slopes that are `-1` or at least `1e-8` away from it,
`psd.area(spec)` is the integral of `psd.interp(spec, ·, linear=False)` over `[f_0, f_n]` -/
theorem area_eq_integral_interpLog (spec : List (ℝ × ℝ)) (hf : (spec.map (·.1)).Pairwise (· < ·))
    (hpos : ∀ r ∈ spec, 0 < r.1 ∧ 0 < r.2) (hn : 0 < spec.length)
    (hs : ∀ (k : Nat) (hk : k + 1 < spec.length),
      segSlope spec[k] spec[k + 1] = -1 ∨ 1e-8 ≤ |segSlope spec[k] spec[k + 1] + 1|) :
    ∫ x in spec[0].1..spec[spec.length - 1].1, interpLog spec x = area spec := by
  have hok : SegOK (interpLog spec) spec := by
    apply segOK_of_index (interpLog spec)
      (fun a b => ∃ (k : Nat) (hk : k + 1 < spec.length), a = spec[k] ∧ b = spec[k + 1])
    · rintro a b ⟨k, hk, rfl, rfl⟩
      have hpk := hpos spec[k] (List.getElem_mem _)
      have hpk1 := hpos spec[k + 1] (List.getElem_mem _)
      have hlt : spec[k].1 < spec[k + 1].1 := by
        have := List.pairwise_iff_getElem.mp hf k (k + 1) (by simp; omega) (by simpa using hk)
          (Nat.lt_succ_self k)
        simpa using this
      exact ⟨hpk.1, hlt, hpk.2, hpk1.2, hs k hk,
        fun x hx => interpLog_seg spec hf hpos k hk x hx.1 hx.2⟩
    · intro k hk
      exact ⟨k, hk, rfl, rfl⟩
  cases spec with
  | nil => simp at hn
  | cons a r =>
      have := (area_glue (interpLog (a :: r)) r a hok).2
      rw [List.getLast_eq_getElem] at this
      simpa using this

end PyYetiVerif.Psd
