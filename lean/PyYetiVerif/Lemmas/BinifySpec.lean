import PyYetiVerif.Lemmas.Binify
import PyYetiVerif.Lemmas.BinifyAuto
/-! Helper lemmas for C10 / explicit bins: the converse of `digitize_index`, what `_binify` drops. -/
set_option linter.unusedSectionVars false
set_option linter.unusedVariables false
namespace PyYetiVerif.Binify

section order
variable {α : Type} [LinearOrder α]

theorem digitize_ge_of_below (right : Bool) (x : α) (bins : List α) :
    ∀ (k : Nat) (lo : α), List.Pairwise (· < ·) bins → bins[k]? = some lo →
      below right x lo = true → k + 1 ≤ digitize right x bins := by
  induction bins with
  | nil => intro k lo _ h; simp at h
  | cons a t ih =>
      intro k lo hs hlo hl
      rw [digitize_eq]
      cases k with
      | zero =>
          simp only [List.getElem?_cons_zero, Option.some.injEq] at hlo
          subst hlo
          rw [List.filter_cons_of_pos (by simpa using hl)]
          simp
      | succ k =>
          simp only [List.getElem?_cons_succ] at hlo
          have hal : a < lo := (List.pairwise_cons.mp hs).1 lo (List.mem_of_getElem? hlo)
          have ha : below right x a = true := below_mono right x a lo (le_of_lt hal) hl
          rw [List.filter_cons_of_pos (by simpa using ha), List.length_cons]
          have := ih k lo (List.pairwise_cons.mp hs).2 hlo hl
          rw [digitize_eq] at this
          omega

theorem digitize_le_of_not_below (right : Bool) (x : α) (bins : List α) :
    ∀ (k : Nat) (lo : α), List.Pairwise (· < ·) bins → bins[k]? = some lo →
      below right x lo = false → digitize right x bins ≤ k := by
  induction bins with
  | nil => intro k lo _ h; simp at h
  | cons a t ih =>
      intro k lo hs hlo hl
      rw [digitize_eq]
      cases k with
      | zero =>
          simp only [List.getElem?_cons_zero, Option.some.injEq] at hlo
          subst hlo
          rw [filter_nil_of_not_below right x a t hs hl]
          simp
      | succ k =>
          simp only [List.getElem?_cons_succ] at hlo
          have := ih k lo (List.pairwise_cons.mp hs).2 hlo hl
          rw [digitize_eq] at this
          have h2 : ((a :: t).filter (below right x)).length ≤ (t.filter (below right x)).length + 1 := by
            rw [List.filter_cons]
            split <;> simp
          omega

/-- `digitize` returns `k + 1` exactly for the values of the documented interval of bin `k` -/
theorem digitize_eq_iff' (right : Bool) (x : α) (bins : List α) (k : Nat) (lo hi : α)
    (hs : List.Pairwise (· < ·) bins) (hlo : bins[k]? = some lo) (hhi : bins[k + 1]? = some hi) :
    digitize right x bins = k + 1 ↔ inBin right lo hi x := by
  constructor
  · intro hd
    apply inBin_of_below
    · by_contra hb
      have := digitize_le_of_not_below right x bins k lo hs hlo (by simpa using hb)
      omega
    · by_contra hb
      have := digitize_ge_of_below right x bins (k + 1) hi hs hhi (by simpa using hb)
      omega
  · intro hx
    obtain ⟨h1, h2⟩ := inBin_below right lo hi x hx
    exact digitize_index right x bins k lo hi hs hlo hhi h1 h2

/-- the guard of `_binify(ensure_boundaries=True)` for one axis is the coverage test -/
theorem guard_iff_covered (right : Bool) (x : α) (bins : List α) (hs : List.Pairwise (· < ·) bins) :
    (0 < digitize right x bins ∧ digitize right x bins - 1 < bins.length - 1) ↔ Covered right bins x := by
  constructor
  · rintro ⟨h1, h2⟩
    obtain ⟨k, hk⟩ : ∃ k, digitize right x bins = k + 1 := ⟨digitize right x bins - 1, by omega⟩
    have hk1 : k + 1 < bins.length := by omega
    refine ⟨k, bins[k], bins[k + 1], List.getElem?_eq_getElem (by omega), List.getElem?_eq_getElem hk1, ?_⟩
    exact (digitize_eq_iff' right x bins k _ _ hs (List.getElem?_eq_getElem (by omega))
      (List.getElem?_eq_getElem hk1)).mp hk
  · rintro ⟨k, lo, hi, hlo, hhi, hx⟩
    have := (digitize_eq_iff' right x bins k lo hi hs hlo hhi).mpr hx
    have hk1 : k + 1 < bins.length := (List.getElem?_eq_some_iff.mp hhi).1
    omega

/-- "inside the range of the explicit bins": `b0 < x ≤ bl` (`right`) or `b0 ≤ x < bl` -/
def inRange (right : Bool) (bins : List α) (x : α) : Bool :=
  match bins.head?, bins.getLast? with
  | some b0, some bl => decide (inBin right b0 bl x)
  | _, _ => false

theorem pairwise_head_le (bins : List α) (hs : List.Pairwise (· < ·) bins) (b0 : α)
    (h0 : bins.head? = some b0) : ∀ v ∈ bins, b0 ≤ v := by
  cases bins with
  | nil => simp at h0
  | cons a t =>
      simp only [List.head?_cons, Option.some.injEq] at h0
      subst h0
      intro v hv
      rcases List.mem_cons.mp hv with rfl | hv
      · exact le_refl _
      · exact le_of_lt ((List.pairwise_cons.mp hs).1 v hv)

theorem pairwise_le_last (bins : List α) (hs : List.Pairwise (· < ·) bins) (bl : α)
    (hl : bins.getLast? = some bl) : ∀ v ∈ bins, v ≤ bl := by
  induction bins with
  | nil => simp at hl
  | cons a t ih =>
      cases t with
      | nil =>
          simp only [List.getLast?_singleton, Option.some.injEq] at hl
          subst hl
          intro v hv; simp at hv; exact le_of_eq hv
      | cons b t' =>
          rw [List.getLast?_cons_cons] at hl
          have h1 := ih (List.pairwise_cons.mp hs).2 hl
          intro v hv
          rcases List.mem_cons.mp hv with rfl | hv
          · exact le_trans (le_of_lt ((List.pairwise_cons.mp hs).1 b (by simp))) (h1 b (by simp))
          · exact h1 v hv

theorem inRange_iff_covered (right : Bool) (bins : List α) (hs : List.Pairwise (· < ·) bins) (x : α) :
    inRange right bins x = true ↔ Covered right bins x := by
  unfold inRange
  constructor
  · intro h
    cases h0 : bins.head? with
    | none => simp [h0] at h
    | some b0 =>
        cases hl : bins.getLast? with
        | none => simp [h0, hl] at h
        | some bl =>
            simp only [h0, hl, decide_eq_true_eq] at h
            obtain ⟨h1, h2⟩ := inBin_below right b0 bl x h
            exact covered_of_flip right x bins b0 bl h0 hl h1 h2
  · rintro ⟨k, lo, hi, hlo, hhi, hx⟩
    have hne : bins ≠ [] := by rintro rfl; simp at hlo
    obtain ⟨b0, h0⟩ : ∃ b0, bins.head? = some b0 := by
      cases bins with
      | nil => exact absurd rfl hne
      | cons a t => exact ⟨a, rfl⟩
    obtain ⟨bl, hl⟩ : ∃ bl, bins.getLast? = some bl := ⟨bins.getLast hne, List.getLast?_eq_some_getLast hne⟩
    simp only [h0, hl, decide_eq_true_eq]
    obtain ⟨h1, h2⟩ := inBin_below right lo hi x hx
    have a1 := pairwise_head_le bins hs b0 h0 lo (List.mem_of_getElem? hlo)
    have a2 := pairwise_le_last bins hs bl hl hi (List.mem_of_getElem? hhi)
    apply inBin_of_below
    · exact below_mono right x b0 lo a1 h1
    · by_contra hb
      have := below_mono right x hi bl a2 (by simpa using hb)
      rw [h2] at this; cases this

theorem increasing_pairwise (bins : List α) (h : increasing bins = true) : List.Pairwise (· < ·) bins := by
  induction bins with
  | nil => exact List.Pairwise.nil
  | cons a t ih =>
      cases t with
      | nil => simp
      | cons b t' =>
          simp only [increasing, Bool.and_eq_true, decide_eq_true_eq] at h
          have h1 := ih h.2
          refine List.pairwise_cons.mpr ⟨?_, h1⟩
          intro v hv
          rcases List.mem_cons.mp hv with rfl | hv
          · exact h.1
          · exact lt_trans h.1 ((List.pairwise_cons.mp h1).1 v hv)

end order

section table
variable {α : Type} [LinearOrder α] {β : Type} [AddCommMonoid β]

/-- with `ensure_boundaries=True` a cycle outside either range leaves the table unchanged -/
theorem binify_drops (right : Bool) (br bm : List α) (hr : List.Pairwise (· < ·) br)
    (hm : List.Pairwise (· < ·) bm) (amp mean : α) (cnt : β) (cs : List (α × α × β))
    (T : List (List β)) (h : ¬ (Covered right br amp ∧ Covered right bm mean)) :
    binifyLoop right true br bm ((amp, mean, cnt) :: cs) T = binifyLoop right true br bm cs T := by
  conv_lhs => unfold binifyLoop
  simp only [if_true]
  rw [if_neg]
  rintro ⟨a1, a2, a3, a4⟩
  exact h ⟨(guard_iff_covered right amp br hr).mp ⟨a3, a4⟩, (guard_iff_covered right mean bm hm).mp ⟨a1, a2⟩⟩

end table

end PyYetiVerif.Binify
