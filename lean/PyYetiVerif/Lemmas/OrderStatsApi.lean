import PyYetiVerif.Model.OrderStatsApi
import Mathlib.Tactic.Common
import Mathlib.Tactic.Ring
import Mathlib.Data.List.Forall2
/-!
Lemmas about the broadcasting model of `Model/OrderStatsApi.lean`: the `k`-th element produced by the
C-order iteration over the broadcast shape `R` is built from the operands' elements at the *clipped*
multi-index (index 0 along every dimension in which the operand has extent 1) — numpy's rule.
-/
namespace PyYetiVerif.OrderStats

/-- flat (C-order) position of a multi-index in an array of the given shape -/
def ravel : List Nat → List Nat → Nat
  | _ :: ds, i :: is => i * size ds + ravel ds is
  | _, _ => 0

/-- `Σ idx_j · stride_j` -/
def dot : List Nat → List Nat → Nat
  | [], _ => 0
  | i :: is, st => i * st.headD 0 + dot is st.tail

/-- `idx` is a multi-index of an array of shape `R` -/
def Valid (idx R : List Nat) : Prop := List.Forall₂ (· < ·) idx R

/-- the multi-index at which an operand of (padded) shape `P` is read when the broadcast is at `idx` -/
def clip : List Nat → List Nat → List Nat
  | p :: ps, i :: is => (if p = 1 then 0 else i) :: clip ps is
  | _, _ => []

/-- every extent of `P` is the result's or 1 -/
def Compat (P R : List Nat) : Prop := List.Forall₂ (fun p r => p = r ∨ p = 1) P R

theorem rows_length {β : Type} (g : Nat → List β) (m : Nat) (hg : ∀ i, (g i).length = m) :
    ∀ d, (rows g d).length = d * m := by
  intro d
  induction d with
  | zero => simp [rows]
  | succ d ih => simp [rows, ih, hg, Nat.succ_mul]

theorem rows_getElem? {β : Type} (g : Nat → List β) (m : Nat) (hg : ∀ i, (g i).length = m) :
    ∀ d i k, i < d → k < m → (rows g d)[i * m + k]? = (g i)[k]? := by
  intro d
  induction d with
  | zero => intro i k hi; omega
  | succ d ih =>
    intro i k hi hk
    simp only [rows]
    have hlen := rows_length g m hg d
    by_cases hid : i < d
    · have h1 : (i + 1) * m ≤ d * m := Nat.mul_le_mul_right m (by omega)
      rw [Nat.succ_mul] at h1
      rw [List.getElem?_append_left (by omega)]
      exact ih i k hid hk
    · have hie : i = d := by omega
      subst hie
      rw [List.getElem?_append_right (by omega)]
      congr 1
      omega

theorem offsets_length : ∀ (R st : List Nat) (off : Nat), (offsets R st off).length = size R := by
  intro R
  induction R with
  | nil => intro st off; simp [offsets, size]
  | cons d ds ih =>
    intro st off
    simp only [offsets, size]
    exact rows_length _ (size ds) (fun i => ih _ _) d

theorem ravel_lt : ∀ (R idx : List Nat), Valid idx R → ravel R idx < size R := by
  intro R
  induction R with
  | nil => intro idx h; cases h; simp [ravel, size]
  | cons d ds ih =>
    intro idx h
    cases h with
    | cons hi hrest =>
      rename_i i is
      simp only [ravel, size]
      have h1 := ih is hrest
      have h2 : (i + 1) * size ds ≤ d * size ds := Nat.mul_le_mul_right _ (by omega)
      rw [Nat.succ_mul] at h2
      omega

/-- the element of the C-order iteration at the flat position of `idx` is `off + Σ idx_j stride_j` -/
theorem offsets_get : ∀ (R idx st : List Nat) (off : Nat), Valid idx R →
    (offsets R st off)[ravel R idx]? = some (off + dot idx st) := by
  intro R
  induction R with
  | nil => intro idx st off h; cases h; simp [offsets, ravel, dot]
  | cons d ds ih =>
    intro idx st off h
    cases h with
    | cons hi hrest =>
      rename_i i is
      simp only [offsets, ravel, dot]
      rw [rows_getElem? _ (size ds) (fun j => offsets_length _ _ _) d i _ hi (ravel_lt ds is hrest)]
      rw [ih is st.tail _ hrest]
      simp [Nat.add_assoc]

theorem clip_valid : ∀ (P R idx : List Nat), Compat P R → Valid idx R → Valid (clip P idx) P := by
  intro P
  induction P with
  | nil => intro R idx hc hv; cases hc; cases hv; exact List.Forall₂.nil
  | cons p ps ih =>
    intro R idx hc hv
    cases hc with
    | cons hpr hrest =>
      cases hv with
      | cons hi hvrest =>
        simp only [clip]
        refine List.Forall₂.cons ?_ (ih _ _ hrest hvrest)
        by_cases hp : p = 1
        · simp [hp]
        · rcases hpr with h | h
          · simp only [hp, if_false]; omega
          · exact absurd h hp

/-- reading an operand with its broadcast strides is reading its own element at the clipped index -/
theorem dot_bstrides : ∀ (P R idx : List Nat), Compat P R → Valid idx R →
    dot idx (bstrides P) = ravel P (clip P idx) := by
  intro P
  induction P with
  | nil => intro R idx hc hv; cases hc; cases hv; simp [dot, ravel]
  | cons p ps ih =>
    intro R idx hc hv
    cases hc with
    | cons hpr hrest =>
      cases hv with
      | cons hi hvrest =>
        simp only [dot, bstrides, clip, ravel, List.headD_cons, List.tail_cons]
        rw [ih _ _ hrest hvrest]
        by_cases hp : p = 1 <;> simp [hp]

theorem bdim_spec {a b d : Nat} (h : bdim a b = some d) : (a = d ∨ a = 1) ∧ (b = d ∨ b = 1) := by
  unfold bdim at h
  split at h
  · simp only [Option.some.injEq] at h; omega
  · split at h
    · simp only [Option.some.injEq] at h; omega
    · split at h
      · simp only [Option.some.injEq] at h; omega
      · simp at h

theorem bzip3_compat : ∀ (A B C R : List Nat), bzip3 A B C = some R →
    Compat A R ∧ Compat B R ∧ Compat C R := by
  intro A
  induction A with
  | nil =>
    intro B C R h
    cases B <;> cases C <;> simp [bzip3] at h
    subst h
    exact ⟨List.Forall₂.nil, List.Forall₂.nil, List.Forall₂.nil⟩
  | cons a as ih =>
    intro B C R h
    cases B with
    | nil => simp [bzip3] at h
    | cons b bs =>
      cases C with
      | nil => simp [bzip3] at h
      | cons c cs =>
        simp only [bzip3] at h
        cases hab : bdim a b with
        | none => simp [hab] at h
        | some d =>
          simp only [hab] at h
          cases hdc : bdim d c with
          | none => simp [hdc] at h
          | some e =>
            cases hz : bzip3 as bs cs with
            | none => simp [hdc, hz] at h
            | some ds =>
              simp only [hdc, hz, Option.some.injEq] at h
              subst h
              obtain ⟨h1, h2, h3⟩ := ih bs cs ds hz
              obtain ⟨ha, hb⟩ := bdim_spec hab
              obtain ⟨hd, hc⟩ := bdim_spec hdc
              refine ⟨List.Forall₂.cons ?_ h1, List.Forall₂.cons ?_ h2, List.Forall₂.cons hc h3⟩
              · by_cases h1' : a = 1
                · exact Or.inr h1'
                · left
                  rcases ha with ha | ha
                  · rcases hd with hd | hd
                    · omega
                    · -- d = 1 and a = d: a = 1
                      omega
                  · exact absurd ha h1'
              · by_cases h1' : b = 1
                · exact Or.inr h1'
                · left
                  rcases hb with hb | hb
                  · rcases hd with hd | hd
                    · omega
                    · omega
                  · exact absurd hb h1'

theorem Compat.length_eq {P R : List Nat} (h : Compat P R) : P.length = R.length :=
  List.Forall₂.length_eq h

theorem allSome_spec {γ : Type} : ∀ (l : List (Option γ)) (l' : List γ), allSome l = some l' →
    l'.length = l.length ∧ ∀ k : Nat, l[k]? = (l'[k]?).map some := by
  intro l
  induction l with
  | nil =>
    intro l' h
    simp only [allSome, Option.some.injEq] at h
    subst h
    simp
  | cons x xs ih =>
    intro l' h
    cases x with
    | none => simp [allSome] at h
    | some x =>
      simp only [allSome] at h
      cases hx : allSome xs with
      | none => simp [hx] at h
      | some t =>
        simp only [hx, Option.map_some, Option.some.injEq] at h
        subst h
        obtain ⟨h1, h2⟩ := ih t hx
        refine ⟨by simp [h1], fun k => ?_⟩
        cases k with
        | zero => simp
        | succ k => simpa using h2 k

theorem map3_getElem? {γ : Type} (g : Nat → Nat → Nat → Option γ) :
    ∀ (la lb lc : List Nat) (k i j l : Nat), la[k]? = some i → lb[k]? = some j → lc[k]? = some l →
      (map3 g la lb lc)[k]? = some (g i j l) := by
  intro la
  induction la with
  | nil => intro lb lc k i j l h; simp at h
  | cons a as ih =>
    intro lb lc k i j l ha hb hc
    cases lb with
    | nil => simp at hb
    | cons b bs =>
      cases lc with
      | nil => simp at hc
      | cons c cs =>
        cases k with
        | zero =>
          simp only [List.getElem?_cons_zero, Option.some.injEq] at ha hb hc
          subst ha hb hc
          simp [map3]
        | succ k =>
          simp only [List.getElem?_cons_succ] at ha hb hc
          simpa [map3] using ih bs cs k i j l ha hb hc

theorem map3_length {γ : Type} (g : Nat → Nat → Nat → Option γ) :
    ∀ (la lb lc : List Nat), la.length = lb.length → lb.length = lc.length →
      (map3 g la lb lc).length = la.length := by
  intro la
  induction la with
  | nil => intro lb lc h1 h2; cases lb <;> cases lc <;> simp_all [map3]
  | cons a as ih =>
    intro lb lc h1 h2
    cases lb with
    | nil => simp at h1
    | cons b bs =>
      cases lc with
      | nil => simp at h2
      | cons c cs =>
        simp only [List.length_cons, Nat.add_right_cancel_iff] at h1 h2
        simp [map3, ih bs cs h1 h2]

/-- the flat position at which an operand of shape `s` is read when the broadcast (shape `R`) is at `idx`:
its own C-order position of the clipped index, in its shape padded with leading 1s -/
def readAt (R s idx : List Nat) : Nat := ravel (pad R.length s) (clip (pad R.length s) idx)

/-- **elementwise semantics of the broadcast**: shape = numpy's broadcast shape, and the element at every
multi-index is `f` of the operands' elements at the clipped multi-index. -/
theorem bmap3_spec {β₁ β₂ β₃ γ : Type} (f : β₁ → β₂ → β₃ → γ) (a : Nd β₁) (b : Nd β₂) (c : Nd β₃)
    (out : Nd γ) (h : bmap3 f a b c = some out) :
    bshape3 a.shape b.shape c.shape = some out.shape ∧ out.data.length = size out.shape ∧
      ∀ idx, Valid idx out.shape → ∃ x y z,
        a.data[readAt out.shape a.shape idx]? = some x ∧ b.data[readAt out.shape b.shape idx]? = some y ∧
        c.data[readAt out.shape c.shape idx]? = some z ∧
        out.data[ravel out.shape idx]? = some (f x y z) := by
  unfold bmap3 at h
  cases hR : bshape3 a.shape b.shape c.shape with
  | none => simp [hR] at h
  | some R =>
    simp only [hR, Option.map_eq_some_iff] at h
    obtain ⟨d, hd, rfl⟩ := h
    obtain ⟨hlen, hget⟩ := allSome_spec _ _ hd
    have hcomp : Compat (pad R.length a.shape) R ∧ Compat (pad R.length b.shape) R ∧
        Compat (pad R.length c.shape) R := by
      unfold bshape3 at hR
      simp only at hR
      have h3 := bzip3_compat _ _ _ _ hR
      have hl : R.length = max a.shape.length (max b.shape.length c.shape.length) := by
        have := h3.1.length_eq
        simp only [pad, List.length_append, List.length_replicate] at this
        omega
      rw [hl]
      exact h3
    have la : (bcastIdx R a.shape).length = size R := offsets_length _ _ _
    have lb : (bcastIdx R b.shape).length = size R := offsets_length _ _ _
    have lc : (bcastIdx R c.shape).length = size R := offsets_length _ _ _
    refine ⟨rfl, ?_, fun idx hv => ?_⟩
    · rw [hlen, map3_length _ _ _ _ (by rw [la, lb]) (by rw [lb, lc]), la]
    · have ga : (bcastIdx R a.shape)[ravel R idx]? = some (readAt R a.shape idx) := by
        unfold bcastIdx readAt
        rw [offsets_get R idx _ 0 hv, dot_bstrides _ R idx hcomp.1 hv]; simp
      have gb : (bcastIdx R b.shape)[ravel R idx]? = some (readAt R b.shape idx) := by
        unfold bcastIdx readAt
        rw [offsets_get R idx _ 0 hv, dot_bstrides _ R idx hcomp.2.1 hv]; simp
      have gc : (bcastIdx R c.shape)[ravel R idx]? = some (readAt R c.shape idx) := by
        unfold bcastIdx readAt
        rw [offsets_get R idx _ 0 hv, dot_bstrides _ R idx hcomp.2.2 hv]; simp
      have hk := hget (ravel R idx)
      rw [map3_getElem? _ _ _ _ _ _ _ _ ga gb gc] at hk
      -- the entry is `some _`, so all three reads succeeded
      have hlt : ravel R idx < d.length := by
        rw [hlen, map3_length _ _ _ _ (by rw [la, lb]) (by rw [lb, lc]), la]
        exact ravel_lt R idx hv
      rw [List.getElem?_eq_getElem hlt] at hk
      simp only [Option.map_some] at hk
      cases hx : a.data[readAt R a.shape idx]? with
      | none => simp [hx] at hk
      | some x =>
        cases hy : b.data[readAt R b.shape idx]? with
        | none => simp [hx, hy] at hk
        | some y =>
          cases hz : c.data[readAt R c.shape idx]? with
          | none => simp [hx, hy, hz] at hk
          | some z =>
            simp only [hx, hy, hz, Option.some.injEq] at hk
            exact ⟨x, y, z, rfl, rfl, rfl, by rw [List.getElem?_eq_getElem hlt, ← hk]⟩

/-- every produced element is `f` of some elements of the operands -/
theorem bmap3_mem {β₁ β₂ β₃ γ : Type} (f : β₁ → β₂ → β₃ → γ) (a : Nd β₁) (b : Nd β₂) (c : Nd β₃)
    (out : Nd γ) (h : bmap3 f a b c = some out) :
    ∀ v ∈ out.data, ∃ x ∈ a.data, ∃ y ∈ b.data, ∃ z ∈ c.data, v = f x y z := by
  unfold bmap3 at h
  cases hR : bshape3 a.shape b.shape c.shape with
  | none => simp [hR] at h
  | some R =>
    simp only [hR, Option.map_eq_some_iff] at h
    obtain ⟨d, hd, rfl⟩ := h
    simp only
    generalize bcastIdx R a.shape = la at hd
    generalize bcastIdx R b.shape = lb at hd
    generalize bcastIdx R c.shape = lc at hd
    induction la generalizing lb lc d with
    | nil =>
      simp only [map3, allSome, Option.some.injEq] at hd
      subst hd; intro v hv; simp at hv
    | cons i is ih =>
      cases lb with
      | nil => simp only [map3, allSome, Option.some.injEq] at hd; subst hd; intro v hv; simp at hv
      | cons j js =>
        cases lc with
        | nil => simp only [map3, allSome, Option.some.injEq] at hd; subst hd; intro v hv; simp at hv
        | cons k ks =>
          simp only [map3] at hd
          cases hx : a.data[i]? with
          | none => simp [hx, allSome] at hd
          | some x =>
            cases hy : b.data[j]? with
            | none => simp [hx, hy, allSome] at hd
            | some y =>
              cases hz : c.data[k]? with
              | none => simp [hx, hy, hz, allSome] at hd
              | some z =>
                simp only [hx, hy, hz, allSome, Option.map_eq_some_iff] at hd
                obtain ⟨t, ht, rfl⟩ := hd
                intro v hv
                rcases List.mem_cons.1 hv with hv | hv
                · exact ⟨x, List.mem_of_getElem? hx, y, List.mem_of_getElem? hy, z,
                    List.mem_of_getElem? hz, hv⟩
                · exact ih (lb := js) (lc := ks) (d := t) ht v hv

theorem collect_ok {γ : Type} : ∀ (l : List (Except Err γ)) (l' : List γ), collect l = .ok l' →
    l'.length = l.length ∧ ∀ k : Nat, l[k]? = (l'[k]?).map Except.ok := by
  intro l
  induction l with
  | nil => intro l' h; simp only [collect, Except.ok.injEq] at h; subst h; simp
  | cons x xs ih =>
    intro l' h
    cases x with
    | error e => simp [collect] at h
    | ok x =>
      simp only [collect] at h
      cases hx : collect xs with
      | error e => simp [hx] at h
      | ok t =>
        simp only [hx, Except.ok.injEq] at h
        subst h
        obtain ⟨h1, h2⟩ := ih t hx
        refine ⟨by simp [h1], fun k => ?_⟩
        cases k with
        | zero => simp
        | succ k => simpa using h2 k

/-- a non-empty list of `TypeError`s collects to a `TypeError`, an empty one to nothing -/
theorem collect_all_typeError {γ : Type} : ∀ (l : List (Except Err γ)),
    (∀ v ∈ l, v = .error .typeError) → collect l = (if l = [] then .ok [] else .error .typeError) := by
  intro l hl
  cases l with
  | nil => simp [collect]
  | cons x xs =>
    have := hl x (List.mem_cons_self)
    subst this
    simp [collect]

theorem exists_valid_of_size_pos : ∀ (R : List Nat), 0 < size R → ∃ idx, Valid idx R := by
  intro R
  induction R with
  | nil => intro _; exact ⟨[], List.Forall₂.nil⟩
  | cons d ds ih =>
    intro h
    simp only [size] at h
    have hd : 0 < d := Nat.pos_of_mul_pos_right h
    have hds : 0 < size ds := Nat.pos_of_mul_pos_left h
    obtain ⟨is, his⟩ := ih hds
    exact ⟨0 :: is, List.Forall₂.cons hd his⟩

/-- the frame of the `'r'`, `'n'`, `'p'` branches: shape, length, and the value at every multi-index is the
scalar routine's value for the elements of the arguments at the clipped multi-index -/
theorem elementwise_ok {β₁ β₂ β₃ γ : Type} (f : β₁ → β₂ → β₃ → Except Err γ)
    (a : Option (Nd β₁)) (b : Option (Nd β₂)) (c : Option (Nd β₃)) (o : Nd γ)
    (h : elementwise f a b c = .ok o) :
    bshape3 (lift a).shape (lift b).shape (lift c).shape = some o.shape ∧
      o.data.length = size o.shape ∧
      ∀ idx, Valid idx o.shape → ∃ x y z v,
        (lift a).data[readAt o.shape (lift a).shape idx]? = some (some x) ∧
        (lift b).data[readAt o.shape (lift b).shape idx]? = some (some y) ∧
        (lift c).data[readAt o.shape (lift c).shape idx]? = some (some z) ∧
        f x y z = .ok v ∧ o.data[ravel o.shape idx]? = some v := by
  unfold elementwise at h
  cases hb : bmap3 (need3 f) (lift a) (lift b) (lift c) with
  | none => simp [hb] at h
  | some m =>
    simp only [hb] at h
    cases hc : collect m.data with
    | error e => simp [hc] at h
    | ok d =>
      simp only [hc, Except.ok.injEq] at h
      subst h
      obtain ⟨h1, h2, h3⟩ := bmap3_spec _ _ _ _ _ hb
      obtain ⟨c1, c2⟩ := collect_ok _ _ hc
      refine ⟨h1, by simp only; rw [c1, h2], fun idx hv => ?_⟩
      obtain ⟨x, y, z, hx, hy, hz, hm⟩ := h3 idx hv
      have hk := c2 (ravel m.shape idx)
      rw [hm] at hk
      cases hdk : d[ravel m.shape idx]? with
      | none => simp [hdk] at hk
      | some v =>
        simp only [hdk, Option.map_some, Option.some.injEq] at hk
        cases x with
        | none => simp [need3] at hk
        | some x =>
          cases y with
          | none => simp [need3] at hk
          | some y =>
            cases z with
            | none => simp [need3] at hk
            | some z =>
              simp only [need3] at hk
              exact ⟨x, y, z, v, hx, hy, hz, hk, rfl⟩

/-- an absent (None) argument: the call fails on the shapes, or with `TypeError` at the first element, or
there is no element at all -/
theorem elementwise_absent {β₁ β₂ β₃ γ : Type} (f : β₁ → β₂ → β₃ → Except Err γ)
    (a : Option (Nd β₁)) (b : Option (Nd β₂)) (c : Option (Nd β₃))
    (habs : a = none ∨ b = none ∨ c = none) :
    elementwise f a b c = .error .shapeError ∨ elementwise f a b c = .error .typeError ∨
      ∃ sh, elementwise f a b c = .ok ⟨sh, []⟩ := by
  unfold elementwise
  cases hb : bmap3 (need3 f) (lift a) (lift b) (lift c) with
  | none => exact Or.inl rfl
  | some m =>
    right
    have hall : ∀ v ∈ m.data, v = .error .typeError := by
      intro v hv
      obtain ⟨x, hx, y, hy, z, hz, rfl⟩ := bmap3_mem _ _ _ _ _ hb v hv
      rcases habs with h | h | h
      · subst h; simp only [lift, List.mem_singleton] at hx; subst hx; simp [need3]
      · subst h; simp only [lift, List.mem_singleton] at hy; subst hy
        cases x <;> simp [need3]
      · subst h; simp only [lift, List.mem_singleton] at hz; subst hz
        cases x <;> cases y <;> simp [need3]
    simp only
    rw [collect_all_typeError _ hall]
    by_cases he : m.data = []
    · right; exact ⟨m.shape, by simp [he]⟩
    · left; simp [he]


/-- leading 1-dimensions do not move the data: the padded position is the operand's own position of the
trailing part of the clipped index -/
theorem ravel_pad (k : Nat) (s idx : List Nat) :
    ravel (List.replicate k 1 ++ s) (List.replicate k 0 ++ idx) = ravel s idx := by
  induction k with
  | zero => simp
  | succ k ih => simp [List.replicate_succ, ravel, ih]

end PyYetiVerif.OrderStats
