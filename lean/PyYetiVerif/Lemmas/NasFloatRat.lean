import PyYetiVerif.Lemmas.NasFloatSci
import Mathlib.Tactic.LinearCombination
/-! C12: the rational semantics of emitted fields (`decRat`), the half-unit accuracy of a
fixed-notation field, the two-stage bound of a scientific field, range and sign of the printed
exponent; `SciOK` (decidable side condition on the constants of a scientific formatter) and the
main lemma `sciCore_main`. -/
set_option linter.unusedSimpArgs false
set_option linter.unusedVariables false
namespace PyYetiVerif.NasFloat
open PyYetiVerif.PyFloat PyYetiVerif.Generated.NasFloat

/-- the rational a decimal triple `(neg, a, b)` stands for -/
def decRat (d : Bool × Nat × Nat) : ℚ := (if d.1 then -1 else 1) * ((d.2.1 : ℚ) / d.2.2)

/-- the rational a number `± num/den` stands for -/
def dblRat (x : Dbl) : ℚ := (if x.neg then -1 else 1) * ((x.num : ℚ) / x.den)

theorem decRat_decOf (neg : Bool) (M : Nat) (sh : Int) :
    decRat (decOf neg M sh) = (if neg then -1 else 1) * ((M : ℚ) * (10 : ℚ) ^ sh) := by
  unfold decRat decOf
  by_cases h : sh ≥ 0
  · simp only [h, if_true]
    have : sh = (sh.toNat : Int) := by omega
    conv_rhs => rw [this, zpow_natCast]
    push_cast; ring
  · simp only [h, if_false]
    have : sh = -((-sh).toNat : Int) := by omega
    conv_rhs => rw [this, zpow_neg, zpow_natCast]
    push_cast; ring

/-- value of a field whose digits denote `N / 10^P` and whose exponent is `E` -/
theorem fld_rat (f : Fld) (P N : Nat) (hlen : f.fp.length ≤ P)
    (hval : digitsVal (f.ip ++ f.fp) * 10 ^ (P - f.fp.length) = N) :
    decRat f.dec = (if f.neg then -1 else 1) * ((N : ℚ) * (10 : ℚ) ^ (f.expVal - (P : Int))) := by
  unfold Fld.dec
  rw [decRat_decOf]
  congr 1
  rw [← hval]
  push_cast
  have h10 : (10 : ℚ) ≠ 0 := by norm_num
  have e : f.expVal - (f.fp.length : Int) = ((P - f.fp.length : Nat) : Int) + (f.expVal - (P : Int)) := by
    omega
  rw [e, zpow_add₀ h10, zpow_natCast]
  ring


theorem sgn_abs (b : Bool) (u w : ℚ) :
    |(if b then (-1 : ℚ) else 1) * u - (if b then (-1 : ℚ) else 1) * w| = |u - w| := by
  cases b
  · simp
  · simp only [if_true]
    rw [show (-1 : ℚ) * u - -1 * w = -(u - w) by ring, abs_neg]

/-- **accuracy of a fixed-notation field**: the decimal the emitted field denotes is within half a
unit of its last decimal of the number formatted: `|field − x| ≤ ½·10^-p`. -/
theorem fixed_rat_err (neg drop : Bool) (p : Nat) (x : Dbl) (hd : 0 < x.den) (hneg : x.neg = neg) :
    |decRat (fixedFld neg drop p (rheDiv (x.num * 10 ^ p) x.den)).dec - dblRat x| ≤
      1 / 2 * (10 : ℚ) ^ (-(p : Int)) := by
  obtain ⟨hlen, hval⟩ := fixedFld_val neg drop p (rheDiv (x.num * 10 ^ p) x.den)
  rw [fld_rat _ p _ hlen hval]
  have hex : (fixedFld neg drop p (rheDiv (x.num * 10 ^ p) x.den)).expVal = 0 := rfl
  have hfn : (fixedFld neg drop p (rheDiv (x.num * 10 ^ p) x.den)).neg = neg := rfl
  rw [hex, hfn]
  unfold dblRat
  rw [hneg, sgn_abs]
  have hr := rheDiv_rat (x.num * 10 ^ p) x.den hd
  generalize rheDiv (x.num * 10 ^ p) x.den = N at hr
  have hpos : (0 : ℚ) < (10 : ℚ) ^ p := by positivity
  have e1 : ((x.num * 10 ^ p : ℕ) : ℚ) / x.den = (x.num : ℚ) / x.den * 10 ^ p := by push_cast; ring
  rw [e1] at hr
  have e2 : (N : ℚ) * (10 : ℚ) ^ ((0 : Int) - (p : Int)) - (x.num : ℚ) / x.den =
      ((N : ℚ) - (x.num : ℚ) / x.den * 10 ^ p) * ((10 : ℚ) ^ p)⁻¹ := by
    rw [zero_sub, zpow_neg, zpow_natCast]; field_simp
  rw [e2, abs_mul, abs_of_pos (inv_pos.2 hpos), zpow_neg, zpow_natCast]
  exact mul_le_mul_of_nonneg_right hr (le_of_lt (inv_pos.2 hpos))

/-- range and sign of the exponent printed by `%.qe` for `10^-K ≤ |x| < 10^K` -/
theorem eParts_exp_bounds (q K : Nat) (x : Dbl) (hn : 0 < x.num) (hd : 0 < x.den)
    (hlo : x.den ≤ 10 ^ K * x.num) (hhi : x.num < 10 ^ K * x.den) :
    -(K : Int) ≤ (eParts q x).2 ∧ (eParts q x).2 ≤ K ∧
    (x.absLtOne = true → (eParts q x).2 ≤ 0) ∧ (x.absLtOne = false → 0 ≤ (eParts q x).2) := by
  obtain ⟨-, -, -, e0, h1, h2, he⟩ := eParts_spec q x hn hd
  have hdq : (0 : ℚ) < x.den := by exact_mod_cast hd
  have hnq : (0 : ℚ) < x.num := by exact_mod_cast hn
  have h10 : (1 : ℚ) < 10 := by norm_num
  have hX1 : (x.num : ℚ) / x.den < (10 : ℚ) ^ (K : Int) := by
    rw [zpow_natCast, div_lt_iff₀ hdq]; exact_mod_cast hhi
  have hX2 : (10 : ℚ) ^ (-(K : Int)) ≤ (x.num : ℚ) / x.den := by
    rw [zpow_neg, zpow_natCast, le_div_iff₀ hdq, inv_mul_le_iff₀ (by positivity)]; exact_mod_cast hlo
  have ha : e0 < K := (zpow_lt_zpow_iff_right₀ h10).1 (lt_of_le_of_lt h1 hX1)
  have hb : -(K : Int) < e0 + 1 := (zpow_lt_zpow_iff_right₀ h10).1 (lt_of_le_of_lt hX2 h2)
  refine ⟨by omega, by omega, ?_, ?_⟩
  · intro hlt
    have : x.num < x.den := by simpa [Dbl.absLtOne] using hlt
    have hX : (x.num : ℚ) / x.den < (10 : ℚ) ^ (0 : Int) := by
      rw [zpow_zero, div_lt_one hdq]; exact_mod_cast this
    have : e0 < 0 := (zpow_lt_zpow_iff_right₀ h10).1 (lt_of_le_of_lt h1 hX)
    omega
  · intro hge
    have : x.den ≤ x.num := by simpa [Dbl.absLtOne] using hge
    have hX : (10 : ℚ) ^ (0 : Int) ≤ (x.num : ℚ) / x.den := by
      rw [zpow_zero, le_div_iff₀ hdq, one_mul]; exact_mod_cast this
    have : (0 : Int) < e0 + 1 := (zpow_lt_zpow_iff_right₀ h10).1 (lt_of_le_of_lt hX h2)
    omega


theorem sciFld_expVal (neg dm eneg : Bool) (P N3 : Nat) (e : Int)
    (h1 : eneg = true → e ≤ 0) (h2 : eneg = false → 0 ≤ e) :
    (sciFld neg dm eneg P N3 e).expVal = e := by
  simp only [sciFld, Fld.expVal, FExp.val, digitsVal_natDigits]
  cases eneg
  · have := h2 rfl
    simp only [Bool.false_eq_true, if_false]
    omega
  · have := h1 rfl
    simp only [if_true]
    omega

/-- **accuracy of a scientific field** (two-stage rounding): with `N` the `q`-decimal digits of
the first stage (`|N − |x|·10^(q−e)| ≤ ½`) and `N3` a nearest integer to `N / 10^(q−P)`, the
emitted field `± N3·10^(e−P)` satisfies `|field − x| ≤ (½·10^-P + ½·10^-q)·10^e`. -/
theorem sci_rat_err (neg dm eneg : Bool) (P N3 q N : Nat) (e : Int) (X : ℚ) (hPq : P < q)
    (he1 : eneg = true → e ≤ 0) (he2 : eneg = false → 0 ≤ e)
    (hacc : |(N : ℚ) - X * (10 : ℚ) ^ ((q : Int) - e)| ≤ 1 / 2)
    (h1 : 2 * (N3 * 10 ^ (q - P)) ≤ 2 * N + 10 ^ (q - P))
    (h2 : 2 * N ≤ 2 * (N3 * 10 ^ (q - P)) + 10 ^ (q - P)) :
    |decRat (sciFld neg dm eneg P N3 e).dec - (if neg then -1 else 1) * X| ≤
      (1 / 2 * (10 : ℚ) ^ (-(P : Int)) + 1 / 2 * (10 : ℚ) ^ (-(q : Int))) * (10 : ℚ) ^ e := by
  obtain ⟨hlen, hval⟩ := sciFld_val neg dm eneg P N3 e
  rw [fld_rat _ P _ hlen hval, sciFld_expVal neg dm eneg P N3 e he1 he2]
  have hfn : (sciFld neg dm eneg P N3 e).neg = neg := rfl
  rw [hfn, sgn_abs]
  have h10 : (10 : ℚ) ≠ 0 := by norm_num
  have h1' : (2 * ((N3 : ℚ) * 10 ^ (q - P))) ≤ 2 * N + 10 ^ (q - P) := by exact_mod_cast h1
  have h2' : (2 * (N : ℚ)) ≤ 2 * ((N3 : ℚ) * 10 ^ (q - P)) + 10 ^ (q - P) := by exact_mod_cast h2
  have hM : ((10 : ℚ) ^ (q - P)) = (10 : ℚ) ^ ((q : Int) - (P : Int)) := by
    rw [← zpow_natCast]; congr 1; omega
  rw [hM] at h1' h2'
  -- factor 10^(e-q)
  have hF : (0 : ℚ) < (10 : ℚ) ^ (e - (q : Int)) := by positivity
  have e1 : (N3 : ℚ) * (10 : ℚ) ^ (e - (P : Int)) - X =
      (((N3 : ℚ) * (10 : ℚ) ^ ((q : Int) - (P : Int)) - N) + ((N : ℚ) - X * (10 : ℚ) ^ ((q : Int) - e))) *
        (10 : ℚ) ^ (e - (q : Int)) := by
    have a1 : (10 : ℚ) ^ (e - (P : Int)) = (10 : ℚ) ^ ((q : Int) - (P : Int)) * (10 : ℚ) ^ (e - (q : Int)) := by
      rw [← zpow_add₀ h10]; congr 1; ring
    have a2 : (10 : ℚ) ^ ((q : Int) - e) * (10 : ℚ) ^ (e - (q : Int)) = 1 := by
      rw [← zpow_add₀ h10]; simp
    rw [a1]
    linear_combination (X) * a2
  have e2 : (1 / 2 * (10 : ℚ) ^ (-(P : Int)) + 1 / 2 * (10 : ℚ) ^ (-(q : Int))) * (10 : ℚ) ^ e =
      (1 / 2 * (10 : ℚ) ^ ((q : Int) - (P : Int)) + 1 / 2) * (10 : ℚ) ^ (e - (q : Int)) := by
    have a1 : (10 : ℚ) ^ (-(P : Int)) * (10 : ℚ) ^ e = (10 : ℚ) ^ ((q : Int) - (P : Int)) * (10 : ℚ) ^ (e - (q : Int)) := by
      rw [← zpow_add₀ h10, ← zpow_add₀ h10]; congr 1; ring
    have a2 : (10 : ℚ) ^ (-(q : Int)) * (10 : ℚ) ^ e = (10 : ℚ) ^ (e - (q : Int)) := by
      rw [← zpow_add₀ h10]; congr 1; ring
    linear_combination (1 / 2 : ℚ) * a1 + (1 / 2 : ℚ) * a2
  rw [e1, e2, abs_mul, abs_of_pos hF]
  apply mul_le_mul_of_nonneg_right _ (le_of_lt hF)
  have hA : |(N3 : ℚ) * (10 : ℚ) ^ ((q : Int) - (P : Int)) - N| ≤ 1 / 2 * (10 : ℚ) ^ ((q : Int) - (P : Int)) := by
    rw [abs_le]; constructor <;> linarith
  calc |((N3 : ℚ) * (10 : ℚ) ^ ((q : Int) - (P : Int)) - N) + ((N : ℚ) - X * (10 : ℚ) ^ ((q : Int) - e))|
      ≤ |(N3 : ℚ) * (10 : ℚ) ^ ((q : Int) - (P : Int)) - N| + |(N : ℚ) - X * (10 : ℚ) ^ ((q : Int) - e)| :=
        abs_add_le _ _
    _ ≤ 1 / 2 * (10 : ℚ) ^ ((q : Int) - (P : Int)) + 1 / 2 := add_le_add hA hacc


/-- Side condition on the constants `(ePrec, base, extra, posOff, negOff)` of a scientific
formatter of width `W` whose exponent mark takes `m` characters (`0`, or `1` for `D`): for either
sign and an exponent of `L = 1, 2, 3` digits the field `[-]d.<P decimals>[D]±<L digits>` fills the
width exactly (`σ + 3 + P + m + L = W`: `P` is the largest number of decimals that fits), `P ≥ 1`,
the first rounding keeps at least two digits more than the second (`P + 2 ≤ ePrec`: the 1 % slack)
and `10^ePrec < 2^50` (the double conversion of the mantissa cannot move the second rounding). -/
def SciOK (W : Nat) (c : Sci) (m : Nat) : Prop :=
  1 ≤ c.ePrec ∧ c.ePrec ≤ 15 ∧ ∀ neg : Bool, ∀ L ∈ [1, 2, 3],
    1 ≤ sciPrec c neg L ∧ sciPrec c neg L + 2 ≤ c.ePrec ∧
      (if neg then 1 else 0) + 3 + sciPrec c neg L + m + L = W

instance (W : Nat) (c : Sci) (m : Nat) : Decidable (SciOK W c m) := by
  unfold SciOK; infer_instance

theorem natDigits_len_le3 (n : Nat) (h : n ≤ 999) : (natDigits n).length ∈ [1, 2, 3] := by
  have h1 := natDigits_length_pos n
  have h2 := natDigits_length_le 2 n (by omega)
  simp only [List.mem_cons, List.not_mem_nil, or_false]
  omega

/-- **main lemma for the scientific fall-backs**: for `10^-999 ≤ |x| < 10^999` the body of
`_format_scientificW` / `format_double16` emits a well-formed field of the grammar, right-justified
in `W` characters, of the sign of `x`, with exponent `E ∈ [-999, 999]`, whose decimal value is
within `(½·10^-P + ½·10^-q)·10^E` of `x`, `P` being the number of decimals the width leaves for
that sign and exponent. -/
theorem sciCore_main (W : Nat) (c : Sci) (dm : Bool) (hc : SciOK W c (if dm then 1 else 0))
    (x : Dbl) (hn : 0 < x.num) (hd : 0 < x.den)
    (hlo : x.den ≤ 10 ^ 999 * x.num) (hhi : x.num < 10 ^ 999 * x.den) :
    ∃ f : Fld, f.wf = true ∧ sciCore W c (if dm then ['D'] else []) x = rjust W f.text ∧
      f.text.length ≤ W ∧ f.neg = x.neg ∧ -999 ≤ f.expVal ∧ f.expVal ≤ 999 ∧
      (∃ e, f.ex = some e ∧ e.dmark = dm) ∧
      |decRat f.dec - dblRat x| ≤
        (1 / 2 * (10 : ℚ) ^ (-(sciPrec c x.neg (natDigits f.expVal.natAbs).length : Int)) +
          1 / 2 * (10 : ℚ) ^ (-(c.ePrec : Int))) * (10 : ℚ) ^ f.expVal := by
  obtain ⟨hq1, hq15, hrows⟩ := hc
  obtain ⟨hb1, hb2, hs1, hs2⟩ := eParts_exp_bounds c.ePrec 999 x hn hd hlo hhi
  obtain ⟨-, -, hacc, -⟩ := eParts_spec c.ePrec x hn hd
  generalize he : (eParts c.ePrec x).2 = e at hb1 hb2 hs1 hs2 hacc
  have hLmem := natDigits_len_le3 e.natAbs (by omega)
  obtain ⟨hP1, hP2, hW⟩ := hrows x.neg _ hLmem
  obtain ⟨N3, h1, h2, h3, h4, hshape⟩ := sciCore_shape W c dm x hn hd hq1 hq15
    (sciPrec c x.neg (natDigits (eParts c.ePrec x).2.natAbs).length) rfl
    (by rw [he]; exact hP1) (by rw [he]; omega)
  rw [he] at h1 h2 h3 h4 hshape
  generalize hP : sciPrec c x.neg (natDigits e.natAbs).length = P at *
  have hen1 : x.absLtOne = true → e ≤ 0 := hs1
  have hen2 : x.absLtOne = false → 0 ≤ e := hs2
  have hexp := sciFld_expVal x.neg dm x.absLtOne P N3 e hen1 hen2
  refine ⟨sciFld x.neg dm x.absLtOne P N3 e, sciFld_wf _ _ _ _ _ _ (by omega), hshape, ?_, rfl,
    by rw [hexp]; exact hb1, by rw [hexp]; exact hb2, ⟨_, rfl, rfl⟩, ?_⟩
  · have := sciFld_length x.neg dm x.absLtOne P N3 e hP1 h4
    omega
  · rw [hexp, hP]
    have := sci_rat_err x.neg dm x.absLtOne P N3 c.ePrec (eParts c.ePrec x).1 e
      ((x.num : ℚ) / x.den) (by omega) hen1 hen2 hacc h1 h2
    unfold dblRat
    exact this

end PyYetiVerif.NasFloat
