import PyYetiVerif.Model.PsdOct
import Mathlib.Analysis.SpecialFunctions.Pow.Real
import Mathlib.Analysis.SpecialFunctions.Log.Base
import Mathlib.Algebra.Order.Floor.Ring
import Mathlib.Tactic.Linarith
import Mathlib.Tactic.Ring
import Mathlib.Tactic.FieldSimp
/-! Helper lemmas for C19 (`psd.get_freq_oct` at `ℝ`). -/
namespace PyYetiVerif.PsdOct
open Real

noncomputable instance instOctOpsReal : OctOps ℝ :=
  ⟨Real.logb 2, Real.logb 10, fun x y => x ^ y, fun x => (⌊x⌋ : ℝ), fun x => ⌈x⌉₊⟩

/-- the band factor: `2^(1/(2n))` (exact octaves) or `10^(3/(20n))` -/
noncomputable def octFactor (n : ℝ) (exact : Bool) : ℝ :=
  if exact then (2 : ℝ) ^ (1 / (2 * n)) else (10 : ℝ) ^ (3 / (20 * n))

/-- the ratio of consecutive centres (and of a band's edges): `2^(1/n)` or `10^(3/(10n))` -/
noncomputable def octRatio (n : ℝ) (exact : Bool) : ℝ :=
  if exact then (2 : ℝ) ^ (1 / n) else (10 : ℝ) ^ (3 / (10 * n))

theorem octFactor_pos (n : ℝ) (exact : Bool) : 0 < octFactor n exact := by
  unfold octFactor; split <;> exact Real.rpow_pos_of_pos (by norm_num) _

theorem octFactor_sq (n : ℝ) (hn : n ≠ 0) (exact : Bool) :
    octFactor n exact * octFactor n exact = octRatio n exact := by
  unfold octFactor octRatio
  split
  · rw [← Real.rpow_add (by norm_num)]; congr 1; field_simp; ring
  · rw [← Real.rpow_add (by norm_num)]; congr 1; field_simp; ring

theorem octScale_factor (n s e : ℝ) (exact : Bool) (anchor : Option ℝ) :
    (octScale n s e exact anchor).2 = octFactor n exact := by
  unfold octScale octFactor
  split <;> rfl

/-- consecutive centre frequencies of the untrimmed scale differ by the factor `octRatio`, and all
are positive -/
theorem octScale_step (n s e : ℝ) (hn : n ≠ 0) (exact : Bool) (anchor : Option ℝ)
    (ha : ∀ a, anchor = some a → 0 < a) (i : Nat)
    (hi : i + 1 < (octScale n s e exact anchor).1.length) :
    (octScale n s e exact anchor).1[i + 1] = (octScale n s e exact anchor).1[i] * octRatio n exact ∧
      0 < (octScale n s e exact anchor).1[i] := by
  have h2 : (0 : ℝ) < 2 := by norm_num
  have h10 : (0 : ℝ) < 10 := by norm_num
  have key : ∀ (B : ℝ) (_ : 0 < B) (a x y z : ℝ), x = y + z → a * B ^ x = a * B ^ y * B ^ z := by
    intro B hB a x y z h; rw [h, Real.rpow_add hB]; ring
  cases exact with
  | true =>
    simp only [octScale, octRatio, if_true] at hi ⊢
    have hapos : 0 < anchor.getD (1000 : ℝ) := by
      cases anchor with
      | none => norm_num
      | some a => exact ha a rfl
    simp only [arange, List.getElem_map, List.getElem_range]
    refine ⟨?_, mul_pos hapos (Real.rpow_pos_of_pos h2 _)⟩
    apply key _ h2
    push_cast; field_simp; ring
  | false =>
    simp only [octScale, octRatio, Bool.false_eq_true, if_false] at hi ⊢
    have hapos : 0 < anchor.getD (1 : ℝ) := by
      cases anchor with
      | none => norm_num
      | some a => exact ha a rfl
    simp only [arange, List.getElem_map, List.getElem_range]
    refine ⟨?_, mul_pos hapos (Real.rpow_pos_of_pos h10 _)⟩
    apply key _ h10
    push_cast; field_simp; ring

theorem take_drop_map {β γ : Type} (f : β → γ) (l : List β) (lo hi : Nat) :
    ((l.map f).take hi).drop lo = ((l.take hi).drop lo).map f := by
  rw [← List.map_take, ← List.map_drop]

/-- what `get_freq_oct` returns is a contiguous slice `[lo, hi)` of the untrimmed scale with the
edges `F/factor`, `F·factor` -/
theorem getFreqOct_slice (n fr0 e : ℝ) (exact : Bool) (trim : Trim) (anchor : Option ℝ)
    (F FL FU : List ℝ) (h : getFreqOct n fr0 e exact trim anchor = some (F, FL, FU)) :
    ∃ lo hi, F = (((octScale n (if 0 < fr0 then fr0 else 1) e exact anchor).1).take hi).drop lo ∧
      FL = F.map (· / octFactor n exact) ∧ FU = F.map (· * octFactor n exact) := by
  unfold getFreqOct at h
  simp only at h
  rw [octScale_factor] at h
  split at h
  · rename_i lo hi _
    refine ⟨lo, hi, ?_⟩
    simp only [Option.some.injEq, Prod.mk.injEq] at h
    obtain ⟨h1, h2, h3⟩ := h
    subst h1
    refine ⟨rfl, ?_, ?_⟩
    · rw [← h2, take_drop_map]
    · rw [← h3, take_drop_map]
  · exact absurd h (by simp)

/-- **octave bands**: every returned band has `FU/FL = 2^(1/n)` (`10^(3/(10n))` for the
approximate scale), its centre is the geometric mean of its edges, and consecutive bands share an
edge -/
theorem getFreqOct_bands (n fr0 e : ℝ) (hn : 0 < n) (exact : Bool) (trim : Trim)
    (anchor : Option ℝ) (ha : ∀ a, anchor = some a → 0 < a)
    (F FL FU : List ℝ) (h : getFreqOct n fr0 e exact trim anchor = some (F, FL, FU)) :
    ∃ (h1 : FL.length = F.length) (h2 : FU.length = F.length),
      (∀ (i : Nat) (hi : i < F.length),
        0 < F[i] ∧ FL[i] = F[i] / octFactor n exact ∧ FU[i] = F[i] * octFactor n exact ∧
        FU[i] / FL[i] = octRatio n exact ∧ F[i] ^ 2 = FL[i] * FU[i]) ∧
      (∀ (i : Nat) (hi : i + 1 < F.length), FU[i] = FL[i + 1]) := by
  obtain ⟨lo, hi, hF, hFL, hFU⟩ := getFreqOct_slice n fr0 e exact trim anchor F FL FU h
  have hn0 : n ≠ 0 := ne_of_gt hn
  have hfp := octFactor_pos n exact
  have hsq := octFactor_sq n hn0 exact
  subst hFL hFU
  refine ⟨by simp, by simp, ?_, ?_⟩
  · -- positivity: every element of the slice is an element of the untrimmed scale
    have hpos : ∀ (i : Nat) (hi' : i < F.length), 0 < F[i] := by
      intro i hi'
      subst hF
      have hmem : ((List.take hi (octScale n (if 0 < fr0 then fr0 else 1) e exact anchor).1).drop lo)[i]
          ∈ (octScale n (if 0 < fr0 then fr0 else 1) e exact anchor).1 :=
        List.mem_of_mem_take (List.mem_of_mem_drop (List.getElem_mem _))
      generalize ((List.take hi (octScale n (if 0 < fr0 then fr0 else 1) e exact anchor).1).drop lo)[i] = x at hmem
      unfold octScale at hmem
      split at hmem
      · obtain ⟨b, _, rfl⟩ := List.mem_map.mp hmem
        have : 0 < anchor.getD (1000 : ℝ) := by
          cases anchor with
          | none => norm_num
          | some a => exact ha a rfl
        exact mul_pos this (Real.rpow_pos_of_pos (by norm_num) _)
      · obtain ⟨b, _, rfl⟩ := List.mem_map.mp hmem
        have : 0 < anchor.getD (1 : ℝ) := by
          cases anchor with
          | none => norm_num
          | some a => exact ha a rfl
        exact mul_pos this (Real.rpow_pos_of_pos (by norm_num) _)
    intro i hi'
    have hp := hpos i hi'
    refine ⟨hp, by simp, by simp, ?_, ?_⟩
    · simp only [List.getElem_map]; rw [← hsq]; field_simp
    · simp only [List.getElem_map]; field_simp
  · intro i hi'
    simp only [List.getElem_map]
    subst hF
    simp only [List.length_drop, List.length_take] at hi'
    simp only [List.getElem_drop, List.getElem_take]
    have hstep := (octScale_step n (if 0 < fr0 then fr0 else 1) e hn0 exact anchor ha (lo + i)
      (by omega)).1
    have e1 : lo + (i + 1) = lo + i + 1 := by omega
    simp only [e1]
    rw [hstep, ← hsq]
    field_simp

end PyYetiVerif.PsdOct
