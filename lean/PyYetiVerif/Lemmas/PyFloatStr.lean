import PyYetiVerif.Lemmas.NasFloat
/-! String lemmas for C12 (second layer): strip / replace / lower / takeWhile on strings of a known
shape, `digitsVal` of digit strings, and `parseDec?` / `parseInt?` on `[pad][-]ip.fp[tail]`. -/
set_option linter.unusedSimpArgs false
set_option linter.unusedVariables false
namespace PyYetiVerif.PyFloat

/-! ### strip -/

theorem dropWhile_of_head_neg (p : Char → Bool) (s : Str) (h : ∀ c ∈ s.head?, p c = false) :
    s.dropWhile p = s := by
  cases s with
  | nil => rfl
  | cons a t => simp [List.dropWhile, h a (by simp)]

/-- stripping a left-padded string none of whose characters is strippable -/
theorem stripBy_pad_of_all (p : Char → Bool) (sp : Char) (hsp : p sp = true) (n : Nat) (s : Str)
    (h : ∀ c ∈ s, p c = false) : stripBy p (List.replicate n sp ++ s) = s := by
  unfold stripBy
  rw [lstripBy_replicate_append _ _ hsp]
  have h1 : lstripBy p s = s := by
    unfold lstripBy
    apply dropWhile_of_head_neg
    intro c hc
    cases s with
    | nil => simp at hc
    | cons a t => simp at hc; subst hc; exact h _ List.mem_cons_self
  rw [h1]
  unfold rstripBy
  have h2 : s.reverse.dropWhile p = s.reverse := by
    apply dropWhile_of_head_neg
    intro c hc
    have : c ∈ s.reverse := List.mem_of_mem_head? hc
    exact h c (List.mem_reverse.1 this)
  rw [h2, List.reverse_reverse]

theorem stripWs_pad_of_all (n : Nat) (s : Str) (h : ∀ c ∈ s, isWs c = false) :
    stripWs (List.replicate n ' ' ++ s) = s :=
  stripBy_pad_of_all isWs ' ' (by decide) n s h

theorem stripWs_of_all (s : Str) (h : ∀ c ∈ s, isWs c = false) : stripWs s = s := by
  have := stripWs_pad_of_all 0 s h
  simpa using this

/-- right strip of `u ++ [d] ++ z` where `d` is not strippable and all of `z` is -/
theorem rstripBy_append_all (p : Char → Bool) (u : Str) (d : Char) (hd : p d = false) (z : Str)
    (hz : ∀ c ∈ z, p c = true) : rstripBy p (u ++ d :: z) = u ++ [d] := by
  unfold rstripBy
  have e : (u ++ d :: z).reverse = z.reverse ++ d :: u.reverse := by simp
  rw [e]
  have h1 : (z.reverse ++ d :: u.reverse).dropWhile p = d :: u.reverse := by
    have hz' : ∀ c ∈ z.reverse, p c = true := fun c hc => hz c (List.mem_reverse.1 hc)
    generalize z.reverse = w at hz'
    induction w with
    | nil => simp [List.dropWhile, hd]
    | cons a w ih =>
      have ha : p a = true := hz' a List.mem_cons_self
      simp only [List.cons_append, List.dropWhile, ha]
      exact ih (fun c hc => hz' c (List.mem_cons_of_mem _ hc))
  rw [h1]; simp

/-- every string splits into a right-stripped part and a strippable suffix -/
theorem rstripBy_split (p : Char → Bool) (s : Str) :
    ∃ z, s = rstripBy p s ++ z ∧ (∀ c ∈ z, p c = true) ∧
      (∀ c ∈ (rstripBy p s).getLast?, p c = false) := by
  unfold rstripBy
  have key : ∀ w : Str, ∃ z, w = z ++ w.dropWhile p ∧ (∀ c ∈ z, p c = true) ∧
      (∀ c ∈ (w.dropWhile p).head?, p c = false) := by
    intro w
    induction w with
    | nil => exact ⟨[], by simp⟩
    | cons a w ih =>
      by_cases ha : p a = true
      · obtain ⟨z, h1, h2, h3⟩ := ih
        refine ⟨a :: z, ?_, ?_, ?_⟩
        · simp only [List.dropWhile, ha, List.cons_append]; rw [← h1]
        · intro c hc
          rcases List.mem_cons.1 hc with rfl | hc
          · exact ha
          · exact h2 c hc
        · simpa only [List.dropWhile, ha] using h3
      · refine ⟨[], ?_, by simp, ?_⟩
        · simp [List.dropWhile, ha]
        · simp only [List.dropWhile, ha]
          intro c hc; simp at hc; subst hc; simpa using ha
  obtain ⟨z, h1, h2, h3⟩ := key s.reverse
  refine ⟨z.reverse, ?_, ?_, ?_⟩
  · have := congrArg List.reverse h1
    simpa using this
  · intro c hc; exact h2 c (List.mem_reverse.1 hc)
  · intro c hc
    apply h3 c
    rw [List.getLast?_reverse] at hc
    exact hc

theorem lstripBy_of_head (p : Char → Bool) (c : Char) (t : Str) (h : p c = false) :
    lstripBy p (c :: t) = c :: t := lstripBy_cons_neg p c h t

/-! ### digits -/

theorem fracDigits_all_digit (p n : Nat) : ∀ c ∈ fracDigits p n, isDigit c = true := by
  induction p generalizing n with
  | zero => simp [fracDigits]
  | succ p ih =>
    intro c hc
    simp only [fracDigits, List.mem_append, List.mem_singleton] at hc
    rcases hc with hc | rfl
    · exact ih _ c hc
    · have key : ∀ d, d < 10 → isDigit (digitChar d) = true := by decide
      exact key _ (Nat.mod_lt _ (by norm_num))

theorem digitChar_isDigit' (d : Nat) (h : d < 10) : isDigit (digitChar d) = true := by
  have key : ∀ d, d < 10 → isDigit (digitChar d) = true := by decide
  exact key d h

theorem digitChar_val' (d : Nat) (h : d < 10) : (digitChar d).toNat - 48 = d := by
  have key : ∀ d, d < 10 → (digitChar d).toNat - 48 = d := by decide
  exact key d h

theorem digitsVal_snoc (s : Str) (c : Char) :
    digitsVal (s ++ [c]) = digitsVal s * 10 + (c.toNat - 48) := by
  simp [digitsVal, List.foldl_append]

theorem foldl_digits (t : Str) (acc : Nat) :
    t.foldl (fun acc c => acc * 10 + (c.toNat - 48)) acc =
      acc * 10 ^ t.length + t.foldl (fun acc c => acc * 10 + (c.toNat - 48)) 0 := by
  induction t generalizing acc with
  | nil => simp
  | cons c t ih =>
    simp only [List.foldl_cons, List.length_cons]
    rw [ih (acc * 10 + (c.toNat - 48)), ih (0 * 10 + (c.toNat - 48))]
    ring

theorem digitsVal_append (s t : Str) :
    digitsVal (s ++ t) = digitsVal s * 10 ^ t.length + digitsVal t := by
  unfold digitsVal
  rw [List.foldl_append, foldl_digits]

theorem natDigits_all_digit (n : Nat) : ∀ c ∈ natDigits n, isDigit c = true := by
  induction n using Nat.strong_induction_on with
  | _ n ih =>
    by_cases h10 : n < 10
    · rw [natDigits_lt_ten n h10]
      intro c hc; simp at hc; subst hc; exact digitChar_isDigit' n h10
    · rw [natDigits_ge_ten n h10]
      intro c hc
      simp only [List.mem_append, List.mem_singleton] at hc
      rcases hc with hc | rfl
      · exact ih (n / 10) (by omega) c hc
      · exact digitChar_isDigit' _ (Nat.mod_lt _ (by norm_num))

theorem digitsVal_natDigits (n : Nat) : digitsVal (natDigits n) = n := by
  induction n using Nat.strong_induction_on with
  | _ n ih =>
    by_cases h10 : n < 10
    · rw [natDigits_lt_ten n h10]
      simp [digitsVal, digitChar_val' n h10]
    · rw [natDigits_ge_ten n h10, digitsVal_snoc, ih (n / 10) (by omega),
        digitChar_val' _ (Nat.mod_lt _ (by norm_num))]
      omega

theorem digitsVal_fracDigits (p n : Nat) : digitsVal (fracDigits p n) = n % 10 ^ p := by
  induction p generalizing n with
  | zero => simp [fracDigits, digitsVal, Nat.mod_one]
  | succ p ih =>
    simp only [fracDigits]
    rw [digitsVal_snoc, ih, digitChar_val' _ (Nat.mod_lt _ (by norm_num))]
    have h1 : n % 10 ^ (p + 1) = (n / 10 % 10 ^ p) * 10 + n % 10 := by
      rw [pow_succ, mul_comm (10 ^ p) 10, Nat.mod_mul]
      ring
    rw [h1]

/-- the digits `I.ddd…` of `N` at precision `p` denote `N` -/
theorem digitsVal_int_frac (p N : Nat) :
    digitsVal (natDigits (N / 10 ^ p) ++ fracDigits p N) = N := by
  rw [digitsVal_append, digitsVal_natDigits, digitsVal_fracDigits, fracDigits_length]
  exact Nat.div_add_mod' N (10 ^ p)

theorem digitsVal_replicate_zero (n : Nat) : digitsVal (List.replicate n '0') = 0 := by
  induction n with
  | zero => rfl
  | succ n ih =>
    rw [List.replicate_succ', digitsVal_snoc, ih]; rfl

/-- the head of `str(n)` is not `'0'` for `n ≥ 1` -/
theorem natDigits_head_ne_zero (n : Nat) (h : 1 ≤ n) : ∃ c u, natDigits n = c :: u ∧ c ≠ '0' ∧
    isDigit c = true := by
  induction n using Nat.strong_induction_on with
  | _ n ih =>
    by_cases h10 : n < 10
    · rw [natDigits_lt_ten n h10]
      refine ⟨digitChar n, [], rfl, ?_, digitChar_isDigit' n h10⟩
      have key : ∀ d, 1 ≤ d → d < 10 → digitChar d ≠ '0' := by decide
      exact key n h h10
    · rw [natDigits_ge_ten n h10]
      obtain ⟨c, u, hcu, hc, hd⟩ := ih (n / 10) (by omega) (by omega)
      exact ⟨c, u ++ [digitChar (n % 10)], by rw [hcu]; rfl, hc, hd⟩

theorem natDigits_head_digit (n : Nat) : ∃ c u, natDigits n = c :: u ∧ isDigit c = true := by
  have hpos := natDigits_length_pos n
  cases h : natDigits n with
  | nil => rw [h] at hpos; simp at hpos
  | cons c u => exact ⟨c, u, rfl, natDigits_all_digit n c (by rw [h]; exact List.mem_cons_self)⟩

theorem natDigits_last_digit (n : Nat) : ∃ u, natDigits n = u ++ [digitChar (n % 10)] := by
  by_cases h10 : n < 10
  · exact ⟨[], by rw [natDigits_lt_ten n h10, Nat.mod_eq_of_lt h10]; rfl⟩
  · exact ⟨natDigits (n / 10), natDigits_ge_ten n h10⟩

theorem rstripBy_snoc_keep (p : Char → Bool) (v : Str) (d : Char) (hd : p d = false) :
    rstripBy p (v ++ [d]) = v ++ [d] := by
  simp [rstripBy, hd]

/-! ### character classes -/

theorem isDigit_not_ws (c : Char) (h : isDigit c = true) : isWs c = false := by
  simp only [isDigit, Bool.and_eq_true, decide_eq_true_eq] at h
  obtain ⟨h1, _⟩ := h
  have h1' : 48 ≤ c.toNat := h1
  have hne : ∀ d : Char, d.toNat < 48 → c ≠ d := by
    intro d hd hcd; rw [hcd] at h1'; omega
  simp [isWs, hne ' ' (by decide), hne '\n' (by decide), hne '\t' (by decide), hne '\r' (by decide),
    hne '\x0b' (by decide), hne '\x0c' (by decide)]

theorem isDigit_ne (c d : Char) (h : isDigit c = true) (hd : isDigit d = false) : c ≠ d := by
  rintro rfl; rw [h] at hd; exact absurd hd (by decide)

theorem takeWhile_append_stop (p : Char → Bool) (u : Str) (t : Str) (hu : ∀ c ∈ u, p c = true)
    (ht : ∀ c ∈ t.head?, p c = false) : (u ++ t).takeWhile p = u ∧ (u ++ t).dropWhile p = t := by
  induction u with
  | nil =>
    cases t with
    | nil => simp
    | cons a t => simp [List.takeWhile, List.dropWhile, ht a (by simp)]
  | cons a u ih =>
    have ha : p a = true := hu a List.mem_cons_self
    obtain ⟨h1, h2⟩ := ih (fun c hc => hu c (List.mem_cons_of_mem _ hc))
    simp [List.takeWhile, List.dropWhile, ha, h1, h2]

/-! ### replace with a one-character pattern, lower -/

theorem replace_single_go (c : Char) (rep : Str) (fuel : Nat) (s : Str) (h : s.length ≤ fuel) :
    replace.go [c] rep fuel s = s.flatMap (fun x => if x == c then rep else [x]) := by
  induction fuel generalizing s with
  | zero =>
    have : s = [] := List.length_eq_zero_iff.1 (by omega)
    subst this; rfl
  | succ fuel ih =>
    cases s with
    | nil => rfl
    | cons a t =>
      simp only [List.length_cons] at h
      have ht := ih t (by omega)
      by_cases hac : a = c
      · subst hac
        simp [replace.go, List.isPrefixOf, ht]
      · have : (c == a) = false := by simp [Ne.symm hac]
        have h2 : (a == c) = false := by simp [hac]
        simp [replace.go, List.isPrefixOf, this, h2, ht, hac]

theorem replace_single (c : Char) (rep : Str) (s : Str) :
    replace [c] rep s = s.flatMap (fun x => if x == c then rep else [x]) := by
  unfold replace
  simp only [List.isEmpty_cons, Bool.false_eq_true, if_false]
  exact replace_single_go c rep _ s (le_refl _)

theorem flatMap_id_of_not_mem (c : Char) (rep : Str) (s : Str) (h : ∀ x ∈ s, x ≠ c) :
    s.flatMap (fun x => if x == c then rep else [x]) = s := by
  induction s with
  | nil => rfl
  | cons a t ih =>
    have ha : (a == c) = false := by simp [h a List.mem_cons_self]
    simp only [List.flatMap_cons, ha, Bool.false_eq_true, if_false, List.singleton_append]
    rw [ih (fun x hx => h x (List.mem_cons_of_mem _ hx))]

theorem replace_single_not_mem (c : Char) (rep : Str) (s : Str) (h : ∀ x ∈ s, x ≠ c) :
    replace [c] rep s = s := by
  rw [replace_single, flatMap_id_of_not_mem c rep s h]

/-- one occurrence of `c`, at a known place -/
theorem replace_single_once (c : Char) (rep : Str) (u v : Str) (hu : ∀ x ∈ u, x ≠ c)
    (hv : ∀ x ∈ v, x ≠ c) : replace [c] rep (u ++ c :: v) = u ++ rep ++ v := by
  rw [replace_single, List.flatMap_append, flatMap_id_of_not_mem c rep u hu, List.flatMap_cons,
    flatMap_id_of_not_mem c rep v hv]
  simp

theorem lower_of_no_upper (s : Str) (h : ∀ c ∈ s, ¬ ('A' ≤ c ∧ c ≤ 'Z')) : lower s = s := by
  unfold lower
  induction s with
  | nil => rfl
  | cons a t ih =>
    have ha := h a List.mem_cons_self
    have : ('A' ≤ a && a ≤ 'Z') = false := by
      simp only [Bool.and_eq_false_iff, decide_eq_false_iff_not]
      by_cases h1 : 'A' ≤ a
      · right; exact fun h2 => ha ⟨h1, h2⟩
      · left; exact h1
    simp only [List.map_cons, this, Bool.false_eq_true, if_false]
    rw [ih (fun c hc => h c (List.mem_cons_of_mem _ hc))]

theorem lower_append (s t : Str) : lower (s ++ t) = lower s ++ lower t := by
  simp [lower]

theorem isDigit_not_upper (c : Char) (h : isDigit c = true) : ¬ ('A' ≤ c ∧ c ≤ 'Z') := by
  simp only [isDigit, Bool.and_eq_true, decide_eq_true_eq] at h
  rintro ⟨h1, _⟩
  have a : c.toNat ≤ 57 := h.2
  have b : 65 ≤ c.toNat := h1
  omega

end PyYetiVerif.PyFloat
