import PyYetiVerif.Lemmas.BulkSetCut
/-! `rdsets` on the lines of a SET statement whose item tokens are whole up to a line `L` that does not end in a
comma (C13; core Lean only): the set is closed by `L`. -/
namespace PyYetiVerif.Bulk

/-- a stripped line that is neither empty nor ends in a comma closes the set -/
theorem rdSetBody_last (fuel : Nat) (L : Txt) (rest : List Txt) (h1 : (strip L).isEmpty = false)
    (h2 : (strip L).getLast? ≠ some ',') :
    rdSetBody (fuel + 1) (strip L) rest = (rdSetLine (strip L)).map fun v => (v, rest) := by
  simp only [rdSetBody, h1, Bool.false_eq_true, if_false, h2]

/-- lines of whole `item, ` tokens followed by a closing line `L` -/
theorem rdSetBody_groups_cut (L : Txt) (rest : List Txt) (h1 : (strip L).isEmpty = false)
    (h2 : (strip L).getLast? ≠ some ',') (Gs : List (List Txt)) : ∀ (g : List Txt) (K : List Item) (fuel : Nat),
    g ≠ [] → (∀ x ∈ Gs, x ≠ []) → (∀ x ∈ K, x.NonNeg) → (g :: Gs).flatten = K.map ctok → Gs.length + 2 ≤ fuel →
    rdSetBody fuel (strip g.flatten) (Gs.map List.flatten ++ L :: rest) =
      (rdSetLine (strip L)).map fun v => (expand K ++ v, rest) := by
  induction Gs with
  | nil =>
      intro g K fuel hg _ hn hfl hf
      simp only [List.flatten_cons, List.flatten_nil, List.append_nil] at hfl
      have hK : K ≠ [] := by intro e; subst e; exact hg (by simpa using hfl)
      obtain ⟨f, rfl⟩ : ∃ f, fuel = f + 2 := ⟨fuel - 2, by simp at hf; omega⟩
      rw [hfl, List.map_nil, List.nil_append, rdSetBody_cont (f + 1) K hK hn, rdSetBody_last f L rest h1 h2]
      cases rdSetLine (strip L) <;> rfl
  | cons g' Gs' ih =>
      intro g K fuel hg hGs hn hfl hf
      rw [List.flatten_cons] at hfl
      obtain ⟨K1, K2, eK, e1, e2⟩ := List.map_eq_append_iff.mp hfl.symm
      have hK1 : K1 ≠ [] := by intro e; subst e; exact hg (by simpa using e1.symm)
      obtain ⟨f, rfl⟩ : ∃ f, fuel = f + 1 := ⟨fuel - 1, by simp at hf; omega⟩
      have hn1 : ∀ x ∈ K1, x.NonNeg := fun x hx => hn x (by simp [eK, hx])
      have hn2 : ∀ x ∈ K2, x.NonNeg := fun x hx => hn x (by simp [eK, hx])
      rw [← e1, List.map_cons, List.cons_append, rdSetBody_cont f K1 hK1 hn1,
        ih g' K2 f (hGs g' (by simp)) (fun x hx => hGs x (by simp [hx])) hn2 e2.symm (by simp at hf ⊢; omega)]
      cases rdSetLine (strip L) <;> simp [eK, expand_append]

/-- `rdsets` on: the header line (head token and whole `item, ` tokens), lines of whole `item, ` tokens, a closing
line `L`, and lines none of which is a SET header -/
theorem rdSets_cut (setid : Int) (hs : 0 ≤ setid) (K : List Item) (hn : ∀ x ∈ K, x.NonNeg)
    (T1 : List Txt) (Gs : List (List Txt)) (hGs : ∀ x ∈ Gs, x ≠ []) (hfl : T1 ++ Gs.flatten = K.map ctok)
    (L : Txt) (rest : List Txt) (h1 : (strip L).isEmpty = false) (h2 : (strip L).getLast? ≠ some ',')
    (hrest : ∀ l ∈ rest, setHead l = none) :
    rdSets (((txt "SET " ++ dec setid ++ txt " = ") :: T1).flatten :: (Gs.map List.flatten ++ L :: rest)) =
      (rdSetLine (strip L)).map fun v => [(Val.int setid, expand K ++ v)] := by
  have hTd : ∀ x, T1.flatten.head? = some x → x.isDigit = true := by
    intro x hx
    by_cases hT1 : T1 = []
    · subst hT1; simp at hx
    · obtain ⟨K1, K2, eK, e1, _⟩ := List.map_eq_append_iff.mp hfl.symm
      have hK1 : K1 ≠ [] := by intro e; subst e; exact hT1 (by simpa using e1.symm)
      obtain ⟨⟨c, t, e, hc⟩, _⟩ := joined_ends K1 hK1 (fun y hy => hn y (by simp [eK, hy]))
      rw [← e1, flatten_ctok K1 hK1, e] at hx
      simp at hx; subst hx; exact hc
  have hline : ((txt "SET " ++ dec setid ++ txt " = ") :: T1).flatten = txt "SET " ++ dec setid ++ txt " = " ++ T1.flatten := by
    simp
  have hnb : startsWith (txt "begin bulk") (lower (skipSp (txt "SET " ++ dec setid ++ txt " = " ++ T1.flatten))) = false := by
    have e : txt "SET " ++ dec setid ++ txt " = " ++ T1.flatten = 'S' :: ('E' :: 'T' :: ' ' :: (dec setid ++ txt " = " ++ T1.flatten)) := by
      simp [txt]
    rw [e]
    simp only [skipSp, List.dropWhile_cons]
    rfl
  have hbody : rdSetBody ((Gs.map List.flatten ++ L :: rest).length + 2) (strip T1.flatten) (Gs.map List.flatten ++ L :: rest) =
      (rdSetLine (strip L)).map fun v => (expand K ++ v, rest) := by
    by_cases hT1 : T1 = []
    · subst hT1
      rw [List.nil_append] at hfl
      have hstrip : strip ([] : List Txt).flatten = [] := by decide
      rw [hstrip]
      cases Gs with
      | nil =>
          have hK : K = [] := by simpa using hfl.symm
          subst hK
          simp only [List.map_nil, List.nil_append, List.length_cons]
          rw [rdSetBody_empty, rdSetBody_last _ L rest h1 h2]
          cases rdSetLine (strip L) <;> simp [expand]
      | cons g Gs' =>
          simp only [List.map_cons, List.cons_append, List.length_cons]
          rw [rdSetBody_empty, rdSetBody_groups_cut L rest h1 h2 Gs' g K _ (hGs g (by simp))
            (fun x hx => hGs x (by simp [hx])) hn hfl (by simp)]
          cases rdSetLine (strip L) <;> simp
    · exact rdSetBody_groups_cut L rest h1 h2 Gs T1 K _ hT1 hGs hn (by simpa using hfl) (by simp)
  unfold rdSets
  rw [hline]
  simp only [List.length_cons, rdSetsAux, hnb, Bool.false_eq_true, if_false, setHead_written setid hs _ hTd, hbody]
  cases rdSetLine (strip L) with
  | none => rfl
  | some v =>
      simp only [Option.map_some]
      rw [rdSetsAux_no_head rest hrest]
      simp [dictPut, Int.toNat_of_nonneg hs]

end PyYetiVerif.Bulk
