import PyYetiVerif.Lemmas.NasFloatScan
/-! C12: the exact text of a fixed-notation branch of `format_float8/16` — `strip(" 0")`,
`replace("-0.", "-.")` and right justification of a `%.pf` rendering, as a field of the grammar
`Spec/NasFloatField` whose digits denote the rounded integer. -/
set_option linter.unusedSimpArgs false
set_option linter.unusedVariables false
namespace PyYetiVerif.NasFloat
open PyYetiVerif.PyFloat PyYetiVerif.Generated.NasFloat

/-- right strip passes a non-strippable character only after everything right of it is gone -/
theorem rstripBy_append_keep (p : Char → Bool) (u : Str) (d : Char) (hd : p d = false) (v : Str) :
    rstripBy p (u ++ d :: v) = u ++ d :: rstripBy p v := by
  obtain ⟨z, hz, hzall, hlast⟩ := rstripBy_split p v
  generalize hv' : rstripBy p v = v' at hz hlast
  rw [hz]
  rcases List.eq_nil_or_concat v' with rfl | ⟨w, l, rfl⟩
  · simp only [List.nil_append]
    rw [rstripBy_append_all p u d hd z hzall]
  · simp only [List.concat_eq_append] at hlast ⊢
    have hl : p l = false := hlast l (by simp)
    have e : u ++ d :: ((w ++ [l]) ++ z) = (u ++ d :: w) ++ l :: z := by simp
    rw [e, rstripBy_append_all p _ l hl z hzall]
    simp

/-- what `strip(" 0")` leaves of a digit string's right end: the zeros are exactly what went -/
theorem rstrip_zeros (fd : Str) (hfd : ∀ c ∈ fd, isDigit c = true) :
    ∃ n, fd = rstripBy isStrip fd ++ List.replicate n '0' := by
  obtain ⟨z, hz, hzall, _⟩ := rstripBy_split isStrip fd
  refine ⟨z.length, ?_⟩
  have : z = List.replicate z.length '0' := by
    apply List.eq_replicate_iff.2
    refine ⟨rfl, ?_⟩
    intro c hc
    have h1 := hzall c hc
    have h2 : isDigit c = true := hfd c (by rw [hz]; exact List.mem_append_right _ hc)
    simp only [isStrip, List.contains_cons, List.contains_nil, Bool.or_false, Bool.or_eq_true,
      beq_iff_eq] at h1
    rcases h1 with rfl | rfl
    · exact absurd h2 (by decide)
    · rfl
  rw [← this]; exact hz


/-- the integer digits as they survive `strip(" 0")`: the lone `0` of a non-negative number below
one is removed -/
def ipKept (drop : Bool) (I : Nat) : Str := if drop && I == 0 then [] else natDigits I

theorem ipKept_digits (neg : Bool) (I : Nat) : ∀ c ∈ ipKept neg I, isDigit c = true := by
  unfold ipKept
  split_ifs
  · simp
  · exact natDigits_all_digit I

theorem ipKept_val (neg : Bool) (I : Nat) : digitsVal (ipKept neg I) = I := by
  unfold ipKept
  split_ifs with h
  · simp only [Bool.and_eq_true, beq_iff_eq] at h
    rw [h.2]; rfl
  · exact digitsVal_natDigits I

theorem isStrip_digit (c : Char) (hd : isDigit c = true) (h0 : c ≠ '0') : isStrip c = false := by
  have : c ≠ ' ' := isDigit_ne c ' ' hd (by decide)
  simp [isStrip, this, h0]

/-- `strip(" 0")` of a right-justified `%.pf` rendering -/
theorem strip_fixed (neg : Bool) (I : Nat) (fd : Str) (pad : Nat) :
    stripChars [' ', '0'] (List.replicate pad ' ' ++
        ((if neg then ['-'] else []) ++ natDigits I ++ '.' :: fd)) =
      (if neg then ['-'] else []) ++ (ipKept (!neg) I ++ '.' :: rstripBy isStrip fd) := by
  have hstrip : ∀ s, stripChars [' ', '0'] s = rstripBy isStrip (lstripBy isStrip s) := fun _ => rfl
  have hdot : isStrip '.' = false := by decide
  rw [hstrip, lstripBy_replicate_append _ _ (by decide : isStrip ' ' = true)]
  cases neg with
  | true =>
    simp only [if_true, List.singleton_append, List.cons_append, List.nil_append, ipKept,
      Bool.not_true, Bool.false_and, Bool.false_eq_true, if_false]
    rw [lstripBy_cons_neg _ _ (by decide : isStrip '-' = false)]
    have e : '-' :: (natDigits I ++ '.' :: fd) = ('-' :: natDigits I) ++ '.' :: fd := by simp
    rw [e, rstripBy_append_keep _ _ _ hdot]; simp
  | false =>
    simp only [Bool.false_eq_true, if_false, List.nil_append, ipKept, Bool.not_false, Bool.true_and]
    by_cases hI : I = 0
    · subst hI
      simp only [natDigits_zero, beq_self_eq_true, if_true, List.singleton_append, List.nil_append]
      rw [lstripBy_cons_pos _ _ (by decide : isStrip '0' = true), lstripBy_cons_neg _ _ hdot]
      have := rstripBy_append_keep isStrip [] '.' hdot fd
      simpa using this
    · have hb : (I == 0) = false := by simp [hI]
      simp only [hb, Bool.false_eq_true, if_false]
      obtain ⟨c, u, hcu, hc0, hcd⟩ := natDigits_head_ne_zero I (by omega)
      rw [hcu]
      simp only [List.cons_append]
      rw [lstripBy_cons_neg _ _ (isStrip_digit c hcd hc0)]
      have e : c :: (u ++ '.' :: fd) = (c :: u) ++ '.' :: fd := by simp
      rw [e, rstripBy_append_keep _ _ _ hdot]; simp


theorem go_pad (fuel pad : Nat) (t : Str) (h : pad + t.length ≤ fuel) :
    replace.go dashZeroDot dashDot fuel (List.replicate pad ' ' ++ t) =
      List.replicate pad ' ' ++ replace.go dashZeroDot dashDot (fuel - pad) t := by
  induction pad generalizing fuel with
  | zero => simp
  | succ pad ih =>
    obtain ⟨fuel', rfl⟩ : ∃ f', fuel = f' + 1 := ⟨fuel - 1, by omega⟩
    have hp : dashZeroDot.isPrefixOf (' ' :: (List.replicate pad ' ' ++ t)) = false := by
      simp [dashZeroDot, List.isPrefixOf]
    simp only [List.replicate_succ, List.cons_append, replace.go, hp, Bool.false_eq_true, if_false]
    rw [ih fuel' (by omega)]
    simp

/-- `field.replace("-0.", "-.")` on a padded `%.pf` rendering of a negative number -/
theorem replace_dash_fixed (pad I : Nat) (fd : Str) (hfd : ∀ c ∈ fd, isDigit c = true) :
    replace dashZeroDot dashDot (List.replicate pad ' ' ++ ('-' :: (natDigits I ++ '.' :: fd))) =
      List.replicate pad ' ' ++ ('-' :: (ipKept true I ++ '.' :: fd)) := by
  have hnd : ∀ s : Str, (∀ c ∈ s, isDigit c = true) → ∀ c ∈ s, c ≠ '-' :=
    fun s hs c hc => isDigit_ne c '-' (hs c hc) (by decide)
  unfold replace
  simp only [dashZeroDot, List.isEmpty_cons, Bool.false_eq_true, if_false]
  change replace.go dashZeroDot dashDot _ _ = _
  rw [go_pad _ _ _ (by simp)]
  congr 1
  simp only [List.length_append, List.length_replicate, List.length_cons, Nat.add_sub_cancel_left]
  generalize hfuel : (natDigits I).length + (fd.length + 1) + 1 = fuel
  obtain ⟨f', rfl⟩ : ∃ f', fuel = f' + 1 := ⟨fuel - 1, by omega⟩
  by_cases hI : I = 0
  · subst hI
    simp only [natDigits_zero, ipKept, Bool.true_and, beq_self_eq_true, if_true,
      List.singleton_append, List.nil_append]
    have h2 : replace.go dashZeroDot dashDot (f' + 1) ('-' :: '0' :: '.' :: fd) =
        dashDot ++ replace.go dashZeroDot dashDot f' fd := by
      simp [replace.go, dashZeroDot, List.isPrefixOf]
    rw [h2, go_no_dash _ _ (hnd fd hfd)]; rfl
  · have hb : (I == 0) = false := by simp [hI]
    simp only [ipKept, Bool.true_and, hb, Bool.false_eq_true, if_false]
    obtain ⟨c, u, hcu, hc0, hcd⟩ := natDigits_head_ne_zero I (by omega)
    rw [hcu]
    simp only [List.cons_append]
    have hp : dashZeroDot.isPrefixOf ('-' :: c :: (u ++ '.' :: fd)) = false := by
      simp [dashZeroDot, List.isPrefixOf, Ne.symm hc0]
    have hrest : ∀ x ∈ c :: (u ++ '.' :: fd), x ≠ '-' := by
      intro x hx
      simp only [List.mem_cons, List.mem_append] at hx
      rcases hx with rfl | hx | rfl | hx
      · exact isDigit_ne _ '-' hcd (by decide)
      · have : x ∈ natDigits I := by rw [hcu]; exact List.mem_cons_of_mem _ hx
        exact isDigit_ne _ '-' (natDigits_all_digit I x this) (by decide)
      · decide
      · exact hnd fd hfd x hx
    have h2 : replace.go dashZeroDot dashDot (f' + 1) ('-' :: c :: (u ++ '.' :: fd)) =
        '-' :: replace.go dashZeroDot dashDot f' (c :: (u ++ '.' :: fd)) := by
      rw [replace.go]; simp only [hp, Bool.false_eq_true, if_false]
    rw [h2, go_no_dash _ _ hrest]


/-- the field a fixed-notation branch emits for the rounded integer `N` at precision `p`
(`drop` = a zero integer part is not written) -/
def fixedFld (neg drop : Bool) (p N : Nat) : Fld :=
  ⟨neg, ipKept drop (N / 10 ^ p), rstripBy isStrip (fracDigits p N), none⟩

theorem rstrip_frac_digits (p N : Nat) : ∀ c ∈ rstripBy isStrip (fracDigits p N), isDigit c = true := by
  obtain ⟨n, hn⟩ := rstrip_zeros (fracDigits p N) (fracDigits_all_digit p N)
  intro c hc
  exact fracDigits_all_digit p N c (by rw [hn]; exact List.mem_append_left _ hc)

/-- the digits that remain denote the same number: `ip.fp = N / 10^p` -/
theorem fixedFld_val (neg drop : Bool) (p N : Nat) :
    (fixedFld neg drop p N).fp.length ≤ p ∧
    digitsVal ((fixedFld neg drop p N).ip ++ (fixedFld neg drop p N).fp) *
      10 ^ (p - (fixedFld neg drop p N).fp.length) = N := by
  obtain ⟨n, hn⟩ := rstrip_zeros (fracDigits p N) (fracDigits_all_digit p N)
  have hlen : (rstripBy isStrip (fracDigits p N)).length + n = p := by
    have := congrArg List.length hn
    simp only [fracDigits_length, List.length_append, List.length_replicate] at this
    omega
  simp only [fixedFld]
  refine ⟨by omega, ?_⟩
  have e : p - (rstripBy isStrip (fracDigits p N)).length = n := by omega
  rw [e]
  have h1 : digitsVal (ipKept drop (N / 10 ^ p) ++ fracDigits p N) = N := by
    rw [digitsVal_append, ipKept_val, digitsVal_fracDigits, fracDigits_length]
    exact Nat.div_add_mod' N (10 ^ p)
  rw [hn, ← List.append_assoc, digitsVal_append, digitsVal_replicate_zero, List.length_replicate] at h1
  simpa using h1

theorem fixedFld_wf (neg drop : Bool) (p N : Nat) (hN : 0 < N) : (fixedFld neg drop p N).wf = true := by
  have hval := (fixedFld_val neg drop p N).2
  have hne : ¬ ((fixedFld neg drop p N).ip = [] ∧ (fixedFld neg drop p N).fp = []) := by
    rintro ⟨h1, h2⟩
    rw [h1, h2] at hval
    simp [digitsVal] at hval
    omega
  simp only [fixedFld] at hne
  simp only [Fld.wf, fixedFld, Bool.and_eq_true, Bool.not_eq_true', Bool.and_eq_false_iff, beq_iff_eq]
  refine ⟨⟨⟨(all_iff _).2 (ipKept_digits drop _), (all_iff _).2 (rstrip_frac_digits p N)⟩, ?_⟩, trivial⟩
  by_cases h1 : ipKept drop (N / 10 ^ p) = []
  · by_cases h2 : rstripBy isStrip (fracDigits p N) = []
    · exact absurd ⟨h1, h2⟩ hne
    · right; simpa using h2
  · left; simpa using h1

theorem fixedFld_text (neg drop : Bool) (p N : Nat) :
    (fixedFld neg drop p N).text =
      (if neg then ['-'] else []) ++ (ipKept drop (N / 10 ^ p) ++ '.' :: rstripBy isStrip (fracDigits p N)) := by
  cases neg <;> simp [Fld.text, Fld.mant, Fld.exText, fixedFld]


theorem strip_neg (pad : Nat) (mid fd : Str) :
    stripChars [' ', '0'] (List.replicate pad ' ' ++ ('-' :: (mid ++ '.' :: fd))) =
      '-' :: (mid ++ '.' :: rstripBy isStrip fd) := by
  have hstrip : ∀ s, stripChars [' ', '0'] s = rstripBy isStrip (lstripBy isStrip s) := fun _ => rfl
  rw [hstrip, lstripBy_replicate_append _ _ (by decide : isStrip ' ' = true),
    lstripBy_cons_neg _ _ (by decide : isStrip '-' = false)]
  have e : '-' :: (mid ++ '.' :: fd) = ('-' :: mid) ++ '.' :: fd := by simp
  rw [e, rstripBy_append_keep _ _ _ (by decide : isStrip '.' = false)]; simp

theorem fmtF_shape (p : Nat) (hp : p ≠ 0) (x : Dbl) :
    fmtF p x = (if x.neg then ['-'] else []) ++
      natDigits (rheDiv (x.num * 10 ^ p) x.den / 10 ^ p) ++
        '.' :: fracDigits p (rheDiv (x.num * 10 ^ p) x.den) := by
  simp [fmtF, fmtFixedN, hp]

/-- **Shape of a fixed-notation branch**: for every number, the branch `f"{value:W.pf}"`
(+ `replace("-0.", "-.")` in the row below one of the negative chain) + `strip(" 0")` + right
justification emits the field `[-]ip.fp` whose digits are those of the rounded integer
`N = round_half_even(|x|·10^p)` with the trailing zeros (and a zero integer part) removed. -/
theorem rowBody_shape (W : Nat) (c : Sci) (neg : Bool) (r : Row) (hp : 1 ≤ r.prec)
    (hkind : r.kind = 2 ∨ (r.kind = 3 ∧ neg = true)) (x : Dbl) (hneg : x.neg = neg) :
    rowBody W c neg r x = rjust W (fixedFld neg (!neg || r.kind == 3) r.prec
      (rheDiv (x.num * 10 ^ r.prec) x.den)).text := by
  have hp0 : r.prec ≠ 0 := by omega
  rw [fixedFld_text]
  rcases hkind with hk | ⟨hk, hn⟩
  · have hbody : rowBody W c neg r x = finish W (rjust W (fmtF r.prec x)) := by
      simp [rowBody, hk]
    have hk3 : (r.kind == 3) = false := by simp [hk]
    rw [hbody, finish, fmtF_shape _ hp0, hneg, hk3, Bool.or_false]
    congr 1
    rw [rjust]
    exact strip_fixed neg _ _ _
  · have hbody : rowBody W c neg r x =
        finish W (replace dashZeroDot dashDot (rjust W (fmtF r.prec x))) := by
      simp [rowBody, hk, dashZeroDot, dashDot]
    have hk3 : (r.kind == 3) = true := by simp [hk]
    subst hn
    rw [hbody, finish, fmtF_shape _ hp0, hneg, hk3, Bool.or_true]
    congr 1
    simp only [if_true, List.singleton_append, List.cons_append, List.nil_append]
    rw [rjust]
    have e : '-' :: (natDigits (rheDiv (x.num * 10 ^ r.prec) x.den / 10 ^ r.prec) ++
        '.' :: fracDigits r.prec (rheDiv (x.num * 10 ^ r.prec) x.den)) =
        ('-' :: (natDigits (rheDiv (x.num * 10 ^ r.prec) x.den / 10 ^ r.prec) ++
        '.' :: fracDigits r.prec (rheDiv (x.num * 10 ^ r.prec) x.den))) := rfl
    rw [replace_dash_fixed _ _ _ (fracDigits_all_digit _ _), strip_neg]


/-- the decimal a fixed-notation field denotes is `± N / 10^p` -/
theorem fixedFld_dec (neg drop : Bool) (p N : Nat) :
    (fixedFld neg drop p N).dec.1 = neg ∧
    (fixedFld neg drop p N).dec.2.1 * 10 ^ p = N * (fixedFld neg drop p N).dec.2.2 ∧
    0 < (fixedFld neg drop p N).dec.2.2 := by
  obtain ⟨hlen, hval⟩ := fixedFld_val neg drop p N
  generalize hf : fixedFld neg drop p N = f at hlen hval
  have hex : f.ex = none := by rw [← hf]; rfl
  have hneg : f.neg = neg := by rw [← hf]; rfl
  simp only [Fld.dec, Fld.expVal, hex, decOf, hneg]
  by_cases h0 : f.fp.length = 0
  · have : (0 : Int) - (f.fp.length : Int) ≥ 0 := by omega
    simp only [this, if_true]
    rw [h0] at hval ⊢
    simp only [Nat.sub_zero] at hval
    refine ⟨trivial, ?_, by norm_num⟩
    simp [hval]
  · have : ¬ ((0 : Int) - (f.fp.length : Int) ≥ 0) := by omega
    simp only [this, if_false]
    refine ⟨trivial, ?_, by positivity⟩
    have e : (-((0 : Int) - (f.fp.length : Int))).toNat = f.fp.length := by omega
    rw [e]
    calc digitsVal (f.ip ++ f.fp) * 10 ^ p
        = digitsVal (f.ip ++ f.fp) * (10 ^ (p - f.fp.length) * 10 ^ f.fp.length) := by
          rw [← pow_add]; congr 2; omega
      _ = N * 10 ^ f.fp.length := by rw [← mul_assoc, hval]

theorem digitsVal_lt (s : Str) (h : ∀ c ∈ s, isDigit c = true) : digitsVal s < 10 ^ s.length := by
  induction s with
  | nil => simp [digitsVal]
  | cons c t ih =>
    have e : c :: t = [c] ++ t := rfl
    rw [e, digitsVal_append]
    have hc : isDigit c = true := h c (by simp)
    have ht := ih (fun d hd => h d (List.mem_cons_of_mem _ hd))
    simp only [isDigit, Bool.and_eq_true, decide_eq_true_eq] at hc
    have hc2 : c.toNat ≤ 57 := hc.2
    have h1 : digitsVal [c] ≤ 9 := by simp [digitsVal]; omega
    simp only [List.length_append, List.length_cons, List.length_nil, Nat.zero_add]
    have h2 : digitsVal [c] * 10 ^ t.length ≤ 9 * 10 ^ t.length := Nat.mul_le_mul_right _ h1
    have h3 : 10 ^ (1 + t.length) = 10 * 10 ^ t.length := by rw [pow_add]; simp
    omega

end PyYetiVerif.NasFloat
