import Mathlib.Analysis.Calculus.MeanValue
import Mathlib.Analysis.Calculus.Deriv.Pow
import Mathlib.Analysis.Calculus.Deriv.Shift
import Mathlib.Analysis.Calculus.Deriv.Add
import Mathlib.Analysis.Calculus.Deriv.Mul
import Mathlib.Tactic.Ring
import Mathlib.Tactic.FieldSimp
import Mathlib.Tactic.Linarith
import Mathlib.Tactic.Positivity
import Mathlib.Tactic.Abel
/-!
Vector-valued versions of the Taylor remainder bounds of `Lemmas/NewmarkTaylor.lean`: `g : ℝ → E`, `E` a real
normed space, explicit derivative chains and bounds on the norms of the derivatives.  One fencing lemma
(`norm_le_of_deriv_norm_le`, from Mathlib's `image_norm_le_of_norm_deriv_right_le_deriv_boundary`).
-/
namespace PyYetiVerif.Newmark
open Set

variable {E : Type*} [NormedAddCommGroup E] [NormedSpace ℝ E]

/-- if `φ 0 = 0` and `‖φ'‖ ≤ c sⁿ` on `[0, h]` then `‖φ s‖ ≤ c/(n+1) s^(n+1)` on `[0, h]` -/
theorem norm_le_of_deriv_norm_le (φ φ' : ℝ → E) (h c : ℝ) (n : ℕ)
    (hd : ∀ s ∈ Icc 0 h, HasDerivAt φ (φ' s) s) (h0 : φ 0 = 0)
    (hb : ∀ s ∈ Icc 0 h, ‖φ' s‖ ≤ c * s ^ n) :
    ∀ s ∈ Icc 0 h, ‖φ s‖ ≤ c / (n + 1) * s ^ (n + 1) := by
  have hn : ((n : ℝ) + 1) ≠ 0 := by positivity
  have hB : ∀ s : ℝ, HasDerivAt (fun s => c / (n + 1) * s ^ (n + 1)) (c * s ^ n) s := by
    intro s
    have := (hasDerivAt_pow (n + 1) s).const_mul (c / ((n : ℝ) + 1))
    refine this.congr_deriv ?_
    push_cast
    field_simp
  have hcont : ContinuousOn φ (Icc 0 h) := fun s hs => (hd s hs).continuousAt.continuousWithinAt
  intro s hs
  exact image_norm_le_of_norm_deriv_right_le_deriv_boundary (f := φ) (f' := φ') (a := 0) (b := h) hcont
    (fun x hx => (hd x (Ico_subset_Icc_self hx)).hasDerivWithinAt)
    (B := fun s => c / (n + 1) * s ^ (n + 1)) (B' := fun s => c * s ^ n)
    (by simp [h0]) hB (fun x hx => hb x (Ico_subset_Icc_self hx)) hs

section diffs
variable (g g1 g2 g3 : ℝ → E)

theorem norm_sym_le (f : ℝ → E) (a h M : ℝ) (hM : ∀ t ∈ Icc (a - h) (a + h), ‖f t‖ ≤ M) :
    ∀ s ∈ Icc 0 h, ‖f (a + s) + f (a - s)‖ ≤ 2 * M * s ^ 0 := by
  intro s hs
  have h1 := hM (a + s) ⟨by linarith [hs.1, hs.2], by linarith [hs.1, hs.2]⟩
  have h2 := hM (a - s) ⟨by linarith [hs.1, hs.2], by linarith [hs.1, hs.2]⟩
  have h3 := norm_add_le (f (a + s)) (f (a - s))
  simp only [pow_zero, mul_one]
  linarith

/-- derivative of `s ↦ f(a+s) − f(a−s)` -/
theorem hasDerivAt_antisym (f f' : ℝ → E) (hd : ∀ t, HasDerivAt f (f' t) t) (a s : ℝ) :
    HasDerivAt (fun s => f (a + s) - f (a - s)) (f' (a + s) + f' (a - s)) s := by
  have := ((hd (a + s)).comp_const_add a s).sub ((hd (a - s)).comp_const_sub a s)
  exact this.congr_deriv (by simp)

/-- derivative of `s ↦ f(a+s) + f(a−s) − c` -/
theorem hasDerivAt_sym (f f' : ℝ → E) (hd : ∀ t, HasDerivAt f (f' t) t) (a s : ℝ) (c : E) :
    HasDerivAt (fun s => f (a + s) + f (a - s) - c) (f' (a + s) - f' (a - s)) s := by
  have := (((hd (a + s)).comp_const_add a s).add ((hd (a - s)).comp_const_sub a s)).sub_const c
  exact this.congr_deriv (by simp [sub_eq_add_neg])

/-- second difference, two derivatives: `‖g(a+h) + g(a−h) − 2 g(a)‖ ≤ M h²` with `‖g''‖ ≤ M` -/
theorem second_diff_le_vec (hd0 : ∀ t, HasDerivAt g (g1 t) t) (hd1 : ∀ t, HasDerivAt g1 (g2 t) t)
    (a h M : ℝ) (hh : 0 ≤ h) (hM : ∀ t ∈ Icc (a - h) (a + h), ‖g2 t‖ ≤ M) :
    ‖g (a + h) + g (a - h) - (2 : ℝ) • g a‖ ≤ M * h ^ 2 := by
  have b2 := norm_sym_le g2 a h M hM
  have b1 := norm_le_of_deriv_norm_le _ _ h (2 * M) 0 (fun s _ => hasDerivAt_antisym g1 g2 hd1 a s)
    (by simp) b2
  have b0 := norm_le_of_deriv_norm_le _ _ h (2 * M / ((0 : ℕ) + 1)) (0 + 1)
    (fun s _ => hasDerivAt_sym g g1 hd0 a s ((2 : ℝ) • g a)) (by simp [two_smul]) b1
  refine le_trans (b0 h ⟨hh, le_refl _⟩) (le_of_eq ?_)
  push_cast; ring

/-- centred first difference, three derivatives:
`‖g(a+h) − g(a−h) − 2h g'(a)‖ ≤ M h³ / 3` with `‖g'''‖ ≤ M` -/
theorem centered_diff_le_vec (hd0 : ∀ t, HasDerivAt g (g1 t) t) (hd1 : ∀ t, HasDerivAt g1 (g2 t) t)
    (hd2 : ∀ t, HasDerivAt g2 (g3 t) t)
    (a h M : ℝ) (hh : 0 ≤ h) (hM : ∀ t ∈ Icc (a - h) (a + h), ‖g3 t‖ ≤ M) :
    ‖g (a + h) - g (a - h) - (2 * h) • g1 a‖ ≤ M / 3 * h ^ 3 := by
  have e0 : ∀ s ∈ Icc 0 h, HasDerivAt (fun s => g (a + s) - g (a - s) - (2 * s) • g1 a)
      (g1 (a + s) + g1 (a - s) - (2 : ℝ) • g1 a) s := by
    intro s _
    have := (hasDerivAt_antisym g g1 hd0 a s).sub (((hasDerivAt_id s).const_mul 2).smul_const (g1 a))
    exact this.congr_deriv (by simp)
  have b3 := norm_sym_le g3 a h M hM
  have b2 := norm_le_of_deriv_norm_le _ _ h (2 * M) 0 (fun s _ => hasDerivAt_antisym g2 g3 hd2 a s)
    (by simp) b3
  have b1 := norm_le_of_deriv_norm_le _ _ h (2 * M / ((0 : ℕ) + 1)) (0 + 1)
    (fun s _ => hasDerivAt_sym g1 g2 hd1 a s ((2 : ℝ) • g1 a)) (by simp [two_smul]) b2
  have b0 := norm_le_of_deriv_norm_le _ _ h (2 * M / ((0 : ℕ) + 1) / ((0 + 1 : ℕ) + 1)) (0 + 1 + 1) e0
    (by simp) b1
  refine le_trans (b0 h ⟨hh, le_refl _⟩) (le_of_eq ?_)
  push_cast; ring

/-- second difference against the second derivative, four derivatives:
`‖g(a+h) + g(a−h) − 2 g(a) − h² g''(a)‖ ≤ M h⁴ / 12` with `‖g''''‖ ≤ M` -/
theorem second_diff_taylor_le_vec (g4 : ℝ → E) (hd0 : ∀ t, HasDerivAt g (g1 t) t)
    (hd1 : ∀ t, HasDerivAt g1 (g2 t) t) (hd2 : ∀ t, HasDerivAt g2 (g3 t) t)
    (hd3 : ∀ t, HasDerivAt g3 (g4 t) t)
    (a h M : ℝ) (hh : 0 ≤ h) (hM : ∀ t ∈ Icc (a - h) (a + h), ‖g4 t‖ ≤ M) :
    ‖g (a + h) + g (a - h) - (2 : ℝ) • g a - (h ^ 2) • g2 a‖ ≤ M / 12 * h ^ 4 := by
  have e0 : ∀ s ∈ Icc 0 h, HasDerivAt (fun s => g (a + s) + g (a - s) - (2 : ℝ) • g a - (s ^ 2) • g2 a)
      (g1 (a + s) - g1 (a - s) - (2 * s) • g2 a) s := by
    intro s _
    have := (hasDerivAt_sym g g1 hd0 a s ((2 : ℝ) • g a)).sub ((hasDerivAt_pow 2 s).smul_const (g2 a))
    exact this.congr_deriv (by simp)
  have b1 : ∀ s ∈ Icc 0 h, ‖g1 (a + s) - g1 (a - s) - (2 * s) • g2 a‖ ≤ M / 3 * s ^ 3 := by
    intro s hs
    exact centered_diff_le_vec g1 g2 g3 g4 hd1 hd2 hd3 a s M hs.1 fun t ht =>
      hM t ⟨by linarith [ht.1, hs.2], by linarith [ht.2, hs.2]⟩
  have b0 := norm_le_of_deriv_norm_le _ _ h (M / 3) 3 e0 (by simp [two_smul]) b1
  refine le_trans (b0 h ⟨hh, le_refl _⟩) (le_of_eq ?_)
  push_cast; ring

/-- one-sided Taylor remainders of orders 1, 2, 3 with `‖g'''‖ ≤ M` on `[a, a+h]` -/
theorem forward_taylor_le_vec (hd0 : ∀ t, HasDerivAt g (g1 t) t) (hd1 : ∀ t, HasDerivAt g1 (g2 t) t)
    (hd2 : ∀ t, HasDerivAt g2 (g3 t) t)
    (a h M : ℝ) (hh : 0 ≤ h) (hM : ∀ t ∈ Icc a (a + h), ‖g3 t‖ ≤ M) :
    ‖g2 (a + h) - g2 a‖ ≤ M * h ∧
    ‖g1 (a + h) - g1 a - h • g2 a‖ ≤ M / 2 * h ^ 2 ∧
    ‖g (a + h) - g a - h • g1 a - (h ^ 2 / 2) • g2 a‖ ≤ M / 6 * h ^ 3 := by
  have e2 : ∀ s ∈ Icc 0 h, HasDerivAt (fun s => g2 (a + s) - g2 a) (g3 (a + s)) s := by
    intro s _
    exact ((hd2 (a + s)).comp_const_add a s).sub_const (g2 a)
  have e1 : ∀ s ∈ Icc 0 h, HasDerivAt (fun s => g1 (a + s) - g1 a - s • g2 a) (g2 (a + s) - g2 a) s := by
    intro s _
    have := (((hd1 (a + s)).comp_const_add a s).sub_const (g1 a)).sub
      ((hasDerivAt_id s).smul_const (g2 a))
    exact this.congr_deriv (by simp)
  have e0 : ∀ s ∈ Icc 0 h, HasDerivAt (fun s => g (a + s) - g a - s • g1 a - (s ^ 2 / 2) • g2 a)
      (g1 (a + s) - g1 a - s • g2 a) s := by
    intro s _
    have := ((((hd0 (a + s)).comp_const_add a s).sub_const (g a)).sub
      ((hasDerivAt_id s).smul_const (g1 a))).sub
      (((hasDerivAt_pow 2 s).div_const 2).smul_const (g2 a))
    exact this.congr_deriv (by simp)
  have b3 : ∀ s ∈ Icc 0 h, ‖g3 (a + s)‖ ≤ M * s ^ 0 := by
    intro s hs
    simpa using hM (a + s) ⟨by linarith [hs.1], by linarith [hs.2]⟩
  have b2 := norm_le_of_deriv_norm_le _ _ h M 0 e2 (by simp) b3
  have b1 := norm_le_of_deriv_norm_le _ _ h (M / ((0 : ℕ) + 1)) (0 + 1) e1 (by simp) b2
  have b0 := norm_le_of_deriv_norm_le _ _ h (M / ((0 : ℕ) + 1) / ((0 + 1 : ℕ) + 1)) (0 + 1 + 1) e0
    (by simp) b1
  have hmem : h ∈ Icc 0 h := ⟨hh, le_refl _⟩
  refine ⟨?_, ?_, ?_⟩
  · refine le_trans (b2 h hmem) (le_of_eq ?_)
    push_cast; ring
  · refine le_trans (b1 h hmem) (le_of_eq ?_)
    push_cast; ring
  · refine le_trans (b0 h hmem) (le_of_eq ?_)
    push_cast; ring

end diffs

end PyYetiVerif.Newmark
