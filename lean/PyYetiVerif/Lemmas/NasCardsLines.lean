import PyYetiVerif.Lemmas.NasCards
import PyYetiVerif.Lemmas.NasFloatScan
/-! C12 cards: the reader on physical lines — white space at the right end does not matter, one
line (`fieldsOf_line`: the trailing blank fields are not read), continuation lines (`glue`). -/
set_option linter.unusedSimpArgs false
set_option linter.unusedVariables false
namespace PyYetiVerif.NasCards
open PyYetiVerif.PyFloat PyYetiVerif.NasFloat

/-! ### white space at the right end does not matter to the reader -/

theorem rstripBy_append_allp (p : Char → Bool) (w z : Str) (hz : ∀ c ∈ z, p c = true) :
    rstripBy p (w ++ z) = rstripBy p w := by
  unfold rstripBy
  rw [List.reverse_append]
  have : ∀ (a b : Str), (∀ c ∈ a, p c = true) → (a ++ b).dropWhile p = b.dropWhile p := by
    intro a b ha
    induction a with
    | nil => rfl
    | cons x a ih =>
      have hx : p x = true := ha x List.mem_cons_self
      simp only [List.cons_append, List.dropWhile, hx]
      exact ih (fun c hc => ha c (List.mem_cons_of_mem _ hc))
  rw [this _ _ (fun c hc => hz c (List.mem_reverse.1 hc))]

theorem lstripBy_all (p : Char → Bool) (s : Str) (h : ∀ c ∈ s, p c = true) : lstripBy p s = [] := by
  unfold lstripBy
  induction s with
  | nil => rfl
  | cons a t ih =>
    simp only [List.dropWhile, h a List.mem_cons_self]
    exact ih (fun c hc => h c (List.mem_cons_of_mem _ hc))

theorem stripBy_append_allp (p : Char → Bool) (u z : Str) (hz : ∀ c ∈ z, p c = true) :
    stripBy p (u ++ z) = stripBy p u := by
  unfold stripBy
  by_cases hu : ∃ x ∈ u, p x = false
  · rw [lstripBy_append_of_mem p u z hu, rstripBy_append_allp p _ z hz]
  · have hu' : ∀ c ∈ u, p c = true := by
      intro c hc
      by_contra hcon
      exact hu ⟨c, hc, by simpa using hcon⟩
    have h1 : lstripBy p (u ++ z) = [] := lstripBy_all p _ (by
      intro c hc
      rcases List.mem_append.1 hc with h | h
      · exact hu' c h
      · exact hz c h)
    rw [h1, lstripBy_all p u hu']

theorem nasSscanf_congr (s t : Str) (k : Bool) (h : stripWs s = stripWs t) :
    nasSscanf s k = nasSscanf t k := by
  unfold nasSscanf parseInt? parseFloat? parseDec?
  rw [h]

theorem cardVal_append_ws (u z : Str) (hz : ∀ c ∈ z, isWs c = true) : cardVal (u ++ z) = cardVal u := by
  unfold cardVal
  rw [nasSscanf_congr (u ++ z) u true (stripBy_append_allp isWs u z hz)]

theorem cardVal_rstripWs (f : Str) : cardVal (rstripWs f) = cardVal f := by
  obtain ⟨z, hz, hzall, _⟩ := rstripBy_split isWs f
  conv_rhs => rw [hz]
  exact (cardVal_append_ws _ z hzall).symm


/-! ### one physical line -/

/-- drop the elements satisfying `p` from the right end -/
def dropEnd {α : Type} (p : α → Bool) (l : List α) : List α := (l.reverse.dropWhile p).reverse

theorem dropEnd_split {α : Type} (p : α → Bool) (l : List α) :
    ∃ z, l = dropEnd p l ++ z ∧ (∀ x ∈ z, p x = true) ∧ (∀ x ∈ (dropEnd p l).getLast?, p x = false) := by
  unfold dropEnd
  have key : ∀ w : List α, ∃ z, w = z ++ w.dropWhile p ∧ (∀ c ∈ z, p c = true) ∧
      (∀ c ∈ (w.dropWhile p).head?, p c = false) := by
    intro w
    induction w with
    | nil => exact ⟨[], by simp⟩
    | cons a w ih =>
      by_cases ha : p a = true
      · obtain ⟨z, h1, h2, h3⟩ := ih
        refine ⟨a :: z, ?_, ?_, ?_⟩
        · simp only [List.dropWhile, ha, List.cons_append]; rw [← h1]
        · intro c hc
          rcases List.mem_cons.1 hc with rfl | hc
          · exact ha
          · exact h2 c hc
        · simpa only [List.dropWhile, ha] using h3
      · refine ⟨[], ?_, by simp, ?_⟩
        · simp [List.dropWhile, ha]
        · simp only [List.dropWhile, ha]
          intro c hc; simp at hc; subst hc; simpa using ha
  obtain ⟨z, h1, h2, h3⟩ := key l.reverse
  refine ⟨z.reverse, ?_, ?_, ?_⟩
  · have := congrArg List.reverse h1
    simpa using this
  · intro c hc; exact h2 c (List.mem_reverse.1 hc)
  · intro c hc
    apply h3 c
    rw [List.getLast?_reverse] at hc
    exact hc

theorem dropEnd_append_all {α : Type} (p : α → Bool) (w z : List α) (hz : ∀ c ∈ z, p c = true) :
    dropEnd p (w ++ z) = dropEnd p w := by
  unfold dropEnd
  rw [List.reverse_append]
  have : ∀ (a b : List α), (∀ c ∈ a, p c = true) → (a ++ b).dropWhile p = b.dropWhile p := by
    intro a b ha
    induction a with
    | nil => rfl
    | cons x a ih =>
      have hx : p x = true := ha x List.mem_cons_self
      simp only [List.cons_append, List.dropWhile, hx]
      exact ih (fun c hc => ha c (List.mem_cons_of_mem _ hc))
  rw [this _ _ (fun c hc => hz c (List.mem_reverse.1 hc))]

theorem dropEnd_snoc_keep {α : Type} (p : α → Bool) (w : List α) (g : α) (hg : p g = false) :
    dropEnd p (w ++ [g]) = w ++ [g] := by
  simp [dropEnd, hg]

/-- a field all of whose characters are blanks -/
def isBlankField (f : Str) : Bool := f.all (· == ' ')

/-- what the reader's field loop needs of a formatted field: exact width, the only white space in
it is the blank, no comment character -/
def FieldOK (n : Nat) (f : Str) : Prop :=
  f.length = n ∧ (∀ c ∈ f, isWs c = true → c = ' ') ∧ ∀ c ∈ f, c ≠ '$'

theorem fieldsLoop_trunc (n : Nat) (hn : 0 < n) (s : Str) (init : List Str) (g' : Str)
    (hinit : ∀ f ∈ init, f.length = n) (hg1 : 0 < g'.length) (hg2 : g'.length ≤ n) (j fuel : Nat)
    (hs : s.drop j = init.flatten ++ g') (hfit : j + (init.length + 1) * n ≤ 72)
    (hfuel : init.length + 1 ≤ fuel) :
    fieldsLoop n s (j + init.length * n + g'.length) fuel j = init.map cardVal ++ [cardVal g'] := by
  induction init generalizing j fuel with
  | nil =>
    obtain ⟨fuel', rfl⟩ : ∃ fuel', fuel = fuel' + 1 := ⟨fuel - 1, by simp at hfuel; omega⟩
    simp only [List.length_nil, Nat.zero_mul, Nat.add_zero, Nat.zero_add, Nat.one_mul,
      List.flatten_nil, List.nil_append, List.map_nil] at hfit hs ⊢
    have hc1 : j ≤ 72 - n := by omega
    have hc2 : j + g'.length > j := by omega
    have htake : (s.drop j).take n = g' := by rw [hs]; exact List.take_of_length_le hg2
    have hstop : fieldsLoop n s (j + g'.length) fuel' (j + n) = [] := by
      cases fuel' with
      | zero => rfl
      | succ f =>
        have : ¬ (j + n ≤ 72 - n ∧ j + g'.length > j + n) := by omega
        simp only [fieldsLoop, this, if_false]
    simp only [fieldsLoop, hc1, hc2, and_self, if_true, htake, hstop]
  | cons f rest ih =>
    have hf : f.length = n := hinit f List.mem_cons_self
    have hrest : ∀ g ∈ rest, g.length = n := fun g hg => hinit g (List.mem_cons_of_mem _ hg)
    obtain ⟨fuel', rfl⟩ : ∃ fuel', fuel = fuel' + 1 := by
      simp only [List.length_cons] at hfuel; exact ⟨fuel - 1, by omega⟩
    simp only [List.length_cons] at hfit hfuel ⊢
    have e1 : (rest.length + 1 + 1) * n = n + (rest.length + 1) * n := by ring
    have e3 : (rest.length + 1) * n = n + rest.length * n := by ring
    have hc1 : j ≤ 72 - n := by rw [e1] at hfit; omega
    have hc2 : j + (rest.length + 1) * n + g'.length > j := by rw [e3]; omega
    have htake : (s.drop j).take n = f := by
      rw [hs, List.flatten_cons, List.append_assoc, List.take_left' hf]
    have hdrop : s.drop (j + n) = rest.flatten ++ g' := by
      rw [← List.drop_drop, hs, List.flatten_cons, List.append_assoc, List.drop_left' hf]
    have e2 : j + (rest.length + 1) * n + g'.length = (j + n) + rest.length * n + g'.length := by
      rw [e3]; ring
    have := ih hrest (j + n) fuel' hdrop (by rw [e1] at hfit; omega) (by omega)
    simp only [fieldsLoop, hc1, hc2, and_self, if_true, htake, List.map_cons, List.cons_append]
    rw [e2, this]


theorem rstripBy_append_of_mem (p : Char → Bool) (u v : Str) (h : ∃ x ∈ v, p x = false) :
    rstripBy p (u ++ v) = u ++ rstripBy p v := by
  unfold rstripBy
  rw [List.reverse_append]
  have := lstripBy_append_of_mem p v.reverse u.reverse (by
    obtain ⟨x, hx, hp⟩ := h
    exact ⟨x, List.mem_reverse.2 hx, hp⟩)
  unfold lstripBy at this
  rw [this]; simp

theorem blank_all_ws (f : Str) (h : isBlankField f = true) : ∀ c ∈ f, isWs c = true := by
  intro c hc
  simp only [isBlankField, List.all_eq_true, beq_iff_eq] at h
  rw [h c hc]; decide

theorem nonblank_mem (n : Nat) (f : Str) (hok : FieldOK n f) (h : isBlankField f = false) :
    ∃ x ∈ f, isWs x = false := by
  simp only [isBlankField, List.all_eq_false, beq_iff_eq] at h
  obtain ⟨x, hx, hne⟩ := h
  refine ⟨x, hx, ?_⟩
  by_contra hcon
  exact hne (hok.2.1 x hx (by simpa using hcon))

theorem flatten_length_eq (n : Nat) (fs : List Str) (h : ∀ f ∈ fs, f.length = n) :
    fs.flatten.length = fs.length * n := by
  induction fs with
  | nil => simp
  | cons f rest ih =>
    have := ih (fun g hg => h g (List.mem_cons_of_mem _ hg))
    simp only [List.flatten_cons, List.length_append, List.length_cons, this, h f List.mem_cons_self]
    ring

/-- **one physical line**: the reader's loop on the right-stripped line `head ++ f₁ … f_k` returns
the values of the fields up to the last non-blank one — the trailing blank fields are not read. -/
theorem fieldsOf_line (n : Nat) (hn : 0 < n) (head : Str) (hhead : head.length = 8) (fs : List Str)
    (hfs : ∀ f ∈ fs, FieldOK n f) (hfit : 8 + fs.length * n ≤ 72) :
    fieldsOf n (rstripWs (head ++ fs.flatten)) (rstripWs (head ++ fs.flatten)).length =
      (dropEnd isBlankField fs).map cardVal := by
  obtain ⟨bs, hsplit, hbs, hlast⟩ := dropEnd_split isBlankField fs
  generalize hgs : dropEnd isBlankField fs = gs at hsplit hlast
  have hbws : ∀ c ∈ bs.flatten, isWs c = true := by
    intro c hc
    obtain ⟨b, hb, hcb⟩ := List.mem_flatten.1 hc
    exact blank_all_ws b (hbs b hb) c hcb
  have hs : rstripWs (head ++ fs.flatten) = rstripWs (head ++ gs.flatten) := by
    rw [hsplit, List.flatten_append, ← List.append_assoc]
    exact rstripBy_append_allp isWs _ _ hbws
  rw [hs]
  have hgsub : ∀ f ∈ gs, FieldOK n f := fun f hf => hfs f (by rw [hsplit]; exact List.mem_append_left _ hf)
  have hglen : gs.length ≤ fs.length := by rw [hsplit]; simp
  rcases List.eq_nil_or_concat gs with rfl | ⟨gs', g, rfl⟩
  · simp only [List.flatten_nil, List.append_nil, List.map_nil]
    have : (rstripWs head).length ≤ 8 := by rw [← hhead]; exact rstripBy_length_le _ _
    unfold fieldsOf fieldsLoop
    have hnot : ¬ (8 ≤ 72 - n ∧ (rstripWs head).length > 8) := by omega
    simp only [hnot, if_false]
  · simp only [List.concat_eq_append] at hlast hgsub hglen ⊢
    have hgnb : isBlankField g = false := hlast g (by simp)
    have hgok : FieldOK n g := hgsub g (by simp)
    obtain ⟨x, hx, hxws⟩ := nonblank_mem n g hgok hgnb
    have hinit : ∀ f ∈ gs', f.length = n := fun f hf => (hgsub f (by simp [hf])).1
    have e : head ++ (gs' ++ [g]).flatten = (head ++ gs'.flatten) ++ g := by simp
    rw [e, rstripWs, rstripBy_append_of_mem isWs _ g ⟨x, hx, hxws⟩]
    have hg'pos : 0 < (rstripBy isWs g).length := by
      obtain ⟨z, hz, hzall, _⟩ := rstripBy_split isWs g
      by_contra hcon
      have hnil : rstripBy isWs g = [] := List.length_eq_zero_iff.1 (by omega)
      rw [hnil, List.nil_append] at hz
      have := hzall x (by rw [← hz]; exact hx)
      rw [this] at hxws; exact absurd hxws (by decide)
    have hg'le : (rstripBy isWs g).length ≤ n := by rw [← hgok.1]; exact rstripBy_length_le _ _
    have hlen : (head ++ gs'.flatten ++ rstripBy isWs g).length =
        8 + gs'.length * n + (rstripBy isWs g).length := by
      simp only [List.length_append, hhead, flatten_length_eq n gs' hinit]
    rw [hlen]
    unfold fieldsOf
    have hdrop : (head ++ gs'.flatten ++ rstripBy isWs g).drop 8 = gs'.flatten ++ rstripBy isWs g := by
      rw [List.append_assoc, ← hhead, List.drop_left]
    simp only [List.length_append, List.length_cons, List.length_nil] at hglen
    have hfit' : 8 + (gs'.length + 1) * n ≤ 72 := by
      have : (gs'.length + 1) * n ≤ fs.length * n := Nat.mul_le_mul_right _ (by omega)
      omega
    have hfuel : gs'.length + 1 ≤ 72 := by
      have : (gs'.length + 1) * 1 ≤ (gs'.length + 1) * n := Nat.mul_le_mul_left _ hn
      omega
    rw [fieldsLoop_trunc n hn _ gs' _ hinit hg'pos hg'le 8 72 hdrop hfit' hfuel]
    have := cardVal_rstripWs g
    unfold rstripWs at this
    simp [this]


/-! ### continuation lines -/

/-- what the reader makes of the values read on consecutive physical lines: every line but the
last is padded with blanks to `inc` values -/
def glue (inc : Nat) : List (List NasVal) → List NasVal
  | [] => []
  | [r] => r
  | r :: r' :: rs => r ++ List.replicate (inc - r.length) (NasVal.str []) ++ glue inc (r' :: rs)

/-- the values the reader's inner loop finds on a continuation line -/
def lineVals (n : Nat) (l : Str) : List NasVal :=
  fieldsOf n (procLine (l.take 72)) (procLine (l.take 72)).length

theorem rdfixedGo_lines (n inc : Nat) (conchar : Str) (lines : List Str)
    (hcont : ∀ l ∈ lines, isCont conchar l = true) (cnt target : Nat) (s : Str) (length : Nat) :
    rdfixedGo n inc conchar cnt target s length lines =
      (List.replicate (target - cnt) (NasVal.str []) ++
        glue inc (fieldsOf n s length :: lines.map (lineVals n)), lines.length) := by
  induction lines generalizing cnt target s length with
  | nil => simp [rdfixedGo, glue]
  | cons l ls ih =>
    have hl : isCont conchar l = true := hcont l List.mem_cons_self
    have hls : ∀ l' ∈ ls, isCont conchar l' = true := fun l' h => hcont l' (List.mem_cons_of_mem _ h)
    rw [rdfixedGo]
    simp only [hl, if_true]
    rw [ih hls]
    simp only [List.map_cons, glue, List.length_cons, lineVals, List.append_assoc, Prod.mk.injEq,
      and_true]
    have e : target + inc - (target + (fieldsOf n s length).length) =
        inc - (fieldsOf n s length).length := by omega
    rw [e]

end PyYetiVerif.NasCards
