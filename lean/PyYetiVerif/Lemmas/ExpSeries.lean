import Mathlib.RingTheory.PowerSeries.Exp
import Mathlib.Tactic.LinearCombination
import Mathlib.Tactic.FieldSimp
import PyYetiVerif.Model.ExpSeries
/-!
# C07 — lemmas about the coefficient sequences of `Model/ExpSeries.lean`

Route: the sequences are packed into formal power series over ℚ (`eS = exp ℚ`, `phi1S`, `phi2S`);
the defining relations `x·φ1 = e − 1`, `x·φ2 = e − φ1` and Mathlib's `e(x)² = e(2x)`
(`PowerSeries.exp_mul_exp_eq_exp_add`) give every doubling identity by `linear_combination` after
cancelling `X`; `coeff_mk_mul` reads the result back as a statement about `cauchy`.
-/
open PowerSeries
namespace PyYetiVerif.ExpSeries

theorem fact_eq (n : ℕ) : fact n = n.factorial := by
  induction n with
  | zero => rfl
  | succ n ih => simp [fact, ih, Nat.factorial_succ]

theorem cauchy_eq_sum (a b : ℕ → ℚ) (k : ℕ) :
    cauchy a b k = ∑ i ∈ Finset.range (k + 1), a i * b (k - i) := by
  unfold cauchy
  generalize k + 1 = n
  induction n with
  | zero => simp
  | succ n ih =>
    rw [List.range_succ, List.foldr_append, Finset.sum_range_succ]
    simp only [List.foldr_cons, List.foldr_nil]
    have : ∀ (l : List ℕ) (c : ℚ), List.foldr (fun i acc => a i * b (k - i) + acc) c l
        = List.foldr (fun i acc => a i * b (k - i) + acc) 0 l + c := by
      intro l c
      induction l with
      | nil => simp
      | cons x l ihl => simp [ihl]; ring
    rw [this, ih]; ring

theorem coeff_mk_mul (a b : ℕ → ℚ) (k : ℕ) :
    coeff k (mk a * mk b) = cauchy a b k := by
  rw [coeff_mul, cauchy_eq_sum, Finset.Nat.sum_antidiagonal_eq_sum_range_succ_mk]
  simp [coeff_mk]


/-- the four series as formal power series over ℚ -/
noncomputable def eS : ℚ⟦X⟧ := mk eCoef
noncomputable def phi1S : ℚ⟦X⟧ := mk phi1Coef
noncomputable def phi2S : ℚ⟦X⟧ := mk phi2Coef

theorem eS_eq_exp : eS = exp ℚ := by
  ext n
  simp [eS, eCoef, fact_eq, coeff_exp]

/-- `x·φ1(x) = e(x) − 1` -/
theorem X_mul_phi1S : X * phi1S = eS - 1 := by
  ext n
  cases n with
  | zero => simp [eS, eCoef, fact]
  | succ n =>
    rw [coeff_succ_X_mul]
    simp [phi1S, eS, phi1Coef, eCoef, coeff_mk, coeff_one]

theorem phi2_rel (n : ℕ) : phi2Coef n = eCoef (n + 1) - phi1Coef (n + 1) := by
  simp only [phi2Coef, eCoef, phi1Coef, fact_eq]
  have h1 : ((n + 1).factorial : ℚ) = (n + 1) * n.factorial := by
    rw [Nat.factorial_succ]; push_cast; ring
  have h2 : ((n + 1 + 1).factorial : ℚ) = (n + 2) * ((n + 1) * n.factorial) := by
    rw [Nat.factorial_succ, Nat.factorial_succ]; push_cast; ring
  have h0 : (n.factorial : ℚ) ≠ 0 := by positivity
  rw [h1, h2]
  push_cast
  field_simp
  ring

/-- `x·φ2(x) = e(x) − φ1(x)` -/
theorem X_mul_phi2S : X * phi2S = eS - phi1S := by
  ext n
  cases n with
  | zero => simp [eS, phi1S, eCoef, phi1Coef, fact]
  | succ n =>
    rw [coeff_succ_X_mul]
    simp only [phi2S, eS, phi1S, coeff_mk, map_sub]
    exact phi2_rel n

/-- `e(x)² = e(2x)` -/
theorem eS_sq : eS * eS = rescale 2 eS := by
  have := exp_mul_exp_eq_exp_add (A := ℚ) 1 1
  rw [rescale_one] at this
  simp only [RingHom.id_apply] at this
  rw [eS_eq_exp, this]
  norm_num

theorem rescale_two_X_mul (f : ℚ⟦X⟧) : rescale 2 (X * f) = 2 * X * rescale 2 f := by
  rw [map_mul, rescale_X, map_ofNat]

theorem two_X_mul_rescale_phi1S : 2 * X * rescale 2 phi1S = eS * eS - 1 := by
  rw [← rescale_two_X_mul, X_mul_phi1S, map_sub, map_one, eS_sq]

theorem two_X_mul_rescale_phi2S : 2 * X * rescale 2 phi2S = eS * eS - rescale 2 phi1S := by
  rw [← rescale_two_X_mul, X_mul_phi2S, map_sub, eS_sq]

/-- `2·φ1(2x) = φ1(x)·(1 + e(x))` -/
theorem phi1S_doubling : 2 * rescale 2 phi1S = phi1S + phi1S * eS := by
  apply X_mul_cancel
  linear_combination two_X_mul_rescale_phi1S - (1 + eS) * X_mul_phi1S

/-- `4·φ2(2x) = φ2(x) + e(x)·(φ2(x) + φ1(x))` -/
theorem phi2S_doubling : 4 * rescale 2 phi2S = phi2S + eS * (phi2S + phi1S) := by
  apply X_mul_cancel
  apply X_mul_cancel
  linear_combination (2 * X) * two_X_mul_rescale_phi2S - two_X_mul_rescale_phi1S
    - (X * X_mul_phi2S - X_mul_phi1S) - eS * X * X_mul_phi1S - eS * (X * X_mul_phi2S - X_mul_phi1S)


theorem mk_add (a b : ℕ → ℚ) : (mk fun j => a j + b j : ℚ⟦X⟧) = mk a + mk b := by
  ext n; simp

/-- coefficient form of `e(x)² = e(2x)` -/
theorem cauchy_e_e (k : ℕ) : cauchy eCoef eCoef k = 2 ^ k * eCoef k := by
  have := congrArg (coeff k) eS_sq
  rwa [eS, coeff_mk_mul, coeff_rescale, coeff_mk] at this

/-- coefficient form of `2·φ1(2x) = φ1(x)·(1 + e(x))` -/
theorem cauchy_phi1_e (k : ℕ) :
    2 * (2 ^ k * phi1Coef k) = phi1Coef k + cauchy phi1Coef eCoef k := by
  have := congrArg (coeff k) phi1S_doubling
  rw [map_add, phi1S, eS, coeff_mk_mul, coeff_mk] at this
  rw [← this]
  have h2 : (2 : ℚ⟦X⟧) = C (2 : ℚ) := (map_ofNat C 2).symm
  rw [h2, coeff_C_mul, coeff_rescale, coeff_mk]

/-- coefficient form of `4·φ2(2x) = φ2(x) + e(x)·(φ2(x) + φ1(x))` -/
theorem cauchy_e_phi (k : ℕ) :
    4 * (2 ^ k * phi2Coef k)
      = phi2Coef k + cauchy eCoef (fun j => phi2Coef j + phi1Coef j) k := by
  have := congrArg (coeff k) phi2S_doubling
  rw [map_add, phi2S, phi1S, eS, ← mk_add, coeff_mk_mul, coeff_mk] at this
  rw [← this]
  have h4 : (4 : ℚ⟦X⟧) = C (4 : ℚ) := (map_ofNat C 4).symm
  rw [h4, coeff_C_mul, coeff_rescale, coeff_mk]

theorem phi1_rel (n : ℕ) : phi1Coef n = eCoef (n + 1) := rfl

theorem psi_rel (n : ℕ) : psiCoef n = eCoef (n + 2) := rfl

theorem phi1_sub_phi2 (n : ℕ) : phi1Coef n - phi2Coef n = psiCoef n := by
  rw [phi2_rel, phi1_rel, phi1_rel, psi_rel]; ring

end PyYetiVerif.ExpSeries
