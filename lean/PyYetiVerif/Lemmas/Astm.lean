import PyYetiVerif.Spec.Astm
import PyYetiVerif.Lemmas.Rainflow
/-! The code's `j == 2` test is the standard's "range Y contains the starting point S". -/
set_option linter.unusedSectionVars false
namespace PyYetiVerif.Astm
open PyYetiVerif.Rainflow

variable {α : Type} [Sub α] [Add α] [LT α] [DecidableLT α]

/-- offsets strictly decrease from newest to oldest -/
def Dec (st : List (α × Nat)) : Prop := st.Pairwise (fun x y => y.2 < x.2)

/-- `S` is the offset of the oldest undiscarded point -/
def SBottom (S : Nat) (st : List (α × Nat)) : Prop := ∀ p, st.getLast? = some p → p.2 = S

theorem steps25_eq (S : Nat) (st : List (α × Nat)) (hd : Dec st) (hs : SBottom S st) :
    (steps25 S st).1.1 = (reduce st).1 ∧ (steps25 S st).2 = (reduce st).2 ∧
      SBottom (steps25 S st).1.2 (reduce st).1 := by
  fun_induction reduce st generalizing S with
  | case1 c b a hlt => rw [steps25]; simp [hlt, hs]
  | case2 c b a hlt =>
      have hS : a.2 = S := hs a (by simp)
      rw [steps25]; simp only [hlt, if_false, hS, true_or, if_true]
      simp [steps25, SBottom]
  | case3 c b a r rest hlt => rw [steps25]; simp [hlt, hs]
  | case4 c b a r rest hlt res ih =>
      unfold Dec at hd
      simp only [List.pairwise_cons, List.mem_cons, forall_eq_or_imp] at hd
      -- the bottom lies in r :: rest, strictly below a and b
      have hbot : ∃ p, (c :: b :: a :: r :: rest).getLast? = some p ∧ p ∈ r :: rest := by
        refine ⟨(r :: rest).getLast (by simp), ?_, List.getLast_mem _⟩
        simp [List.getLast?_eq_some_getLast]
      obtain ⟨p, hp1, hp2⟩ := hbot
      have hpS : p.2 = S := hs p hp1
      have hpa : p.2 < a.2 := by
        simp only [List.mem_cons] at hp2
        rcases hp2 with rfl | h
        · exact hd.2.2.1.1
        · exact hd.2.2.1.2 p h
      have hab : a.2 < b.2 := hd.2.1.1
      have hne : ¬(a.2 = S ∨ b.2 = S) := by omega
      have hd' : Dec (c :: r :: rest) := by
        unfold Dec
        simp only [List.pairwise_cons, List.mem_cons, forall_eq_or_imp]
        exact ⟨⟨hd.1.2.2.1, hd.1.2.2.2⟩, hd.2.2.2⟩
      have hs' : SBottom S (c :: r :: rest) := by
        intro q hq
        apply hs q
        simpa [List.getLast?_cons_cons] using hq
      obtain ⟨i1, i2, i3⟩ := ih S hd' hs'
      rw [steps25]
      simp only [hlt, if_false, hne, res]
      exact ⟨i1, by rw [i2], i3⟩
  | case5 st h1 h2 =>
      match st, h1, h2 with
      | [], _, _ => simp [steps25, SBottom]
      | [a], _, _ => simpa [steps25] using hs
      | [a, b], _, _ => simpa [steps25] using hs
      | [c, b, a], h1, _ => exact absurd rfl (h1 c b a)
      | c :: b :: a :: r :: rest, _, h2 => exact absurd rfl (h2 c b a r rest)

end PyYetiVerif.Astm

namespace PyYetiVerif.Astm
open PyYetiVerif.Rainflow
variable {α : Type} [Sub α] [Add α] [LT α] [DecidableLT α]

theorem reduce_sublist (st : List (α × Nat)) : (reduce st).1.Sublist st := by
  fun_induction reduce st with
  | case1 c b a h => exact List.Sublist.refl _
  | case2 c b a h =>
      exact List.Sublist.cons₂ c (List.Sublist.cons₂ b (List.Sublist.cons a (List.Sublist.refl [])))
  | case3 c b a r rest h => exact List.Sublist.refl _
  | case4 c b a r rest h res ih =>
      exact ih.trans (List.Sublist.cons₂ c (List.Sublist.cons b (List.Sublist.cons a (List.Sublist.refl _))))
  | case5 st h1 h2 => exact List.Sublist.refl _

theorem fold_eq (ps : List (α × Nat)) (k : Nat)
    (hps : ps.Pairwise (fun x y => x.2 < y.2)) (hk : ∀ p ∈ ps, k ≤ p.2)
    (acc : List (α × Nat) × List (Cyc α)) (S : Nat)
    (hd : Dec acc.1) (hlt : ∀ p ∈ acc.1, p.2 < k) (hs : SBottom S acc.1)
    (h0 : acc.1 = [] → ∀ p, ps.head? = some p → p.2 = S) :
    (ps.foldl step1 ((acc.1, S), acc.2)).1.1 = (ps.foldl step acc).1 ∧
    (ps.foldl step1 ((acc.1, S), acc.2)).2 = (ps.foldl step acc).2 := by
  induction ps generalizing k acc S with
  | nil => exact ⟨rfl, rfl⟩
  | cons p ps ih =>
      simp only [List.foldl_cons]
      have hd' : Dec (p :: acc.1) := by
        unfold Dec; simp only [List.pairwise_cons]
        refine ⟨fun q hq => ?_, hd⟩
        have := hlt q hq; have := hk p (by simp); omega
      have hs' : SBottom S (p :: acc.1) := by
        intro q hq
        cases hacc : acc.1 with
        | nil => rw [hacc] at hq; simp at hq; subst hq; exact h0 hacc p (by simp)
        | cons x xs =>
            rw [hacc] at hq
            apply hs q; rw [hacc]
            simpa [List.getLast?_cons_cons] using hq
      obtain ⟨e1, e2, e3⟩ := steps25_eq S (p :: acc.1) hd' hs'
      simp only [List.pairwise_cons] at hps
      have hstep : step1 ((acc.1, S), acc.2) p
          = (((step acc p).1, (steps25 S (p :: acc.1)).1.2), (step acc p).2) := by
        simp only [step1, step]
        rw [← e1, ← e2]
      rw [hstep]
      have hsub := reduce_sublist (p :: acc.1)
      apply ih (p.2 + 1) hps.2
      · intro q hq; have := hps.1 q hq; omega
      · exact hd'.sublist hsub
      · intro q hq
        have hq' : q ∈ p :: acc.1 := hsub.subset hq
        simp only [List.mem_cons] at hq'
        rcases hq' with rfl | h
        · omega
        · have := hlt q h; have := hk p (by simp); omega
      · exact e3
      · intro he; exact absurd he (reduce_nonempty _ (by simp))

theorem index_pairwise (pts : List α) (k : Nat) :
    (index pts k).Pairwise (fun x y => x.2 < y.2) ∧ ∀ p ∈ index pts k, k ≤ p.2 := by
  induction pts generalizing k with
  | nil => simp [index]
  | cons x xs ih =>
      obtain ⟨h1, h2⟩ := ih (k + 1)
      simp only [index, List.pairwise_cons, List.mem_cons, forall_eq_or_imp]
      refine ⟨⟨fun q hq => ?_, h1⟩, by simp, fun q hq => ?_⟩
      · have := h2 q hq; simp; omega
      · have := h2 q hq; omega

theorem astm_eq_rainflow (pts : List α) : astm pts = rainflow pts := by
  unfold astm rainflow run
  obtain ⟨h1, h2⟩ := index_pairwise pts 0
  have h := fold_eq (index pts 0) 0 h1 h2 ([], []) 0 (by simp [Dec]) (by simp) (by simp [SBottom])
    (by
      intro _ p hp
      cases pts with
      | nil => simp [index] at hp
      | cons x xs => simp [index] at hp; subst hp; rfl)
  simp only at h ⊢
  rw [h.1, h.2]

end PyYetiVerif.Astm
