import PyYetiVerif.Lemmas.Rainflow
/-! Structure of the rainflow table (core Lean only): closing order, laminarity, the chain of half
cycles. -/
set_option linter.unusedSectionVars false
set_option linter.unusedVariables false
namespace PyYetiVerif.Rainflow

variable {α : Type} [Sub α] [Add α] [LT α] [DecidableLT α]

/-- after row `r` has been counted, offset `x` can still occur: outside `[s, e]` for a full cycle
(both its points are discarded), at or after `e` for a half cycle (everything before is gone) -/
def Dead (r : Cyc α) (x : Nat) : Prop := if r.full then (x < r.s ∨ r.e < x) else r.e ≤ x

/-- `q` can be counted after `r` -/
def Later (r q : Cyc α) : Prop :=
  if r.full then (q.e < r.s ∨ r.e < q.s ∨ (q.s < r.s ∧ r.e < q.e)) else r.e ≤ q.s

theorem later_of_dead (r q : Cyc α) (hs : Dead r q.s) (he : Dead r q.e) (hq : q.s < q.e) : Later r q := by
  unfold Dead at hs he
  unfold Later
  split
  · next hf =>
      simp only [hf, if_true] at hs he
      omega
  · next hf =>
      simp only [hf] at hs he
      exact hs

def Sorted (st : List (α × Nat)) : Prop := st.Pairwise (fun x y => y.2 < x.2)

theorem reduce_closing (st : List (α × Nat)) : ∀ (rows : List (Cyc α)),
    Sorted st → (∀ r ∈ rows, ∀ p ∈ st, Dead r p.2) → rows.Pairwise Later →
    Sorted (reduce st).1 ∧ (∀ p ∈ (reduce st).1, p ∈ st) ∧
      (∀ r ∈ rows ++ (reduce st).2, ∀ p ∈ (reduce st).1, Dead r p.2) ∧
      (rows ++ (reduce st).2).Pairwise Later ∧
      (∀ r ∈ (reduce st).2, r.s < r.e ∧ ∃ p ∈ st, r.e = p.2) := by
  fun_induction reduce st with
  | case1 c b a h => intro rows h1 h3 h5; exact ⟨h1, fun p hp => hp, by simpa using h3, by simpa using h5, by simp⟩
  | case3 c b a r rest h =>
      intro rows h1 h3 h5; exact ⟨h1, fun p hp => hp, by simpa using h3, by simpa using h5, by simp⟩
  | case5 st h1' h2' =>
      intro rows h1 h3 h5; exact ⟨h1, fun p hp => hp, by simpa using h3, by simpa using h5, by simp⟩
  | case2 c b a h =>
      intro rows h1 h3 h5
      simp only [Sorted, List.pairwise_cons, List.mem_cons, List.mem_nil_iff, or_false, forall_eq_or_imp,
        forall_eq] at h1
      obtain ⟨⟨hcb, hca⟩, hba, _⟩ := h1
      have hdead : ∀ p ∈ [c, b], Dead (mkCyc false a b) p.2 := by
        intro p hp
        simp only [List.mem_cons, List.mem_nil_iff, or_false] at hp
        rcases hp with rfl | rfl <;> simp [Dead, mkCyc] <;> omega
      refine ⟨?_, ?_, ?_, ?_, ?_⟩
      · simp [Sorted, hcb]
      · intro p hp; simp only [List.mem_cons, List.mem_nil_iff, or_false] at hp ⊢
        rcases hp with rfl | rfl <;> simp
      · intro r hr p hp
        simp only [List.mem_append, List.mem_cons, List.mem_nil_iff, or_false] at hr
        rcases hr with hr | rfl
        · apply h3 r hr p
          simp only [List.mem_cons, List.mem_nil_iff, or_false] at hp ⊢
          rcases hp with rfl | rfl <;> simp
        · exact hdead p hp
      · rw [List.pairwise_append]
        refine ⟨h5, by simp, ?_⟩
        intro r hr q hq
        simp only [List.mem_cons, List.mem_nil_iff, or_false] at hq
        subst hq
        exact later_of_dead r _ (h3 r hr a (by simp)) (h3 r hr b (by simp)) (by simpa [mkCyc] using hba)
      · intro r hr
        simp only [List.mem_cons, List.mem_nil_iff, or_false] at hr
        subst hr
        exact ⟨by simpa [mkCyc] using hba, b, by simp, rfl⟩
  | case4 c b a r rest h res ih =>
      intro rows h1 h3 h5
      have h1' := h1
      simp only [Sorted, List.pairwise_cons, List.mem_cons, forall_eq_or_imp] at h1
      obtain ⟨⟨hcb, hca, hcr, hcrest⟩, ⟨hba, hbr, hbrest⟩, ⟨har, harest⟩, hrr, hrest⟩ := h1
      have hs1 : Sorted (c :: r :: rest) := by
        simp only [Sorted, List.pairwise_cons, List.mem_cons, forall_eq_or_imp]
        exact ⟨⟨hcr, hcrest⟩, hrr, hrest⟩
      have hdead : ∀ p ∈ c :: r :: rest, Dead (mkCyc true a b) p.2 := by
        intro p hp
        simp only [List.mem_cons] at hp
        simp only [Dead, mkCyc, if_true]
        rcases hp with rfl | rfl | hp
        · right; exact hcb
        · left; exact har
        · left; exact harest p hp
      have h3' : ∀ r' ∈ rows ++ [mkCyc true a b], ∀ p ∈ c :: r :: rest, Dead r' p.2 := by
        intro r' hr' p hp
        simp only [List.mem_append, List.mem_cons, List.mem_nil_iff, or_false] at hr'
        rcases hr' with hr' | rfl
        · apply h3 r' hr' p
          simp only [List.mem_cons] at hp ⊢
          rcases hp with rfl | rfl | hp
          · simp
          · simp
          · right; right; right; right; exact hp
        · exact hdead p hp
      have h5' : (rows ++ [mkCyc true a b]).Pairwise Later := by
        rw [List.pairwise_append]
        refine ⟨h5, by simp, ?_⟩
        intro r' hr' q hq
        simp only [List.mem_cons, List.mem_nil_iff, or_false] at hq
        subst hq
        exact later_of_dead r' _ (h3 r' hr' a (by simp)) (h3 r' hr' b (by simp)) (by simpa [mkCyc] using hba)
      obtain ⟨i1, i2, i3, i4, i5⟩ := ih (rows ++ [mkCyc true a b]) hs1 h3' h5'
      refine ⟨i1, ?_, ?_, ?_, ?_⟩
      · intro p hp
        have := i2 p hp
        simp only [List.mem_cons] at this ⊢
        rcases this with rfl | rfl | hp
        · simp
        · simp
        · right; right; right; right; exact hp
      · simpa [res, List.append_assoc] using i3
      · simpa [res, List.append_assoc] using i4
      · intro r' hr'
        simp only [List.mem_cons] at hr'
        rcases hr' with rfl | hr'
        · exact ⟨by simpa [mkCyc] using hba, b, by simp, rfl⟩
        · obtain ⟨hlt, p, hp, he⟩ := i5 r' hr'
          refine ⟨hlt, p, ?_, he⟩
          simp only [List.mem_cons] at hp ⊢
          rcases hp with rfl | rfl | hp
          · simp
          · simp
          · right; right; right; right; exact hp

/-- invariant of the main loop: `k` points read -/
structure Closing (k : Nat) (acc : List (α × Nat) × List (Cyc α)) : Prop where
  sorted : Sorted acc.1
  lt : ∀ p ∈ acc.1, p.2 < k
  dead : ∀ r ∈ acc.2, ∀ p ∈ acc.1, Dead r p.2
  elt : ∀ r ∈ acc.2, r.e < k
  later : acc.2.Pairwise Later

theorem dead_future (r : Cyc α) (x : Nat) (h : r.e < x) : Dead r x := by
  unfold Dead; split <;> omega

theorem step_closing (k : Nat) (acc : List (α × Nat) × List (Cyc α)) (x : α) (h : Closing k acc) :
    Closing (k + 1) (step acc (x, k)) := by
  obtain ⟨h1, h2, h3, h4, h5⟩ := h
  have hs : Sorted ((x, k) :: acc.1) := by
    simp only [Sorted, List.pairwise_cons]; exact ⟨fun p hp => h2 p hp, h1⟩
  have hd : ∀ r ∈ acc.2, ∀ p ∈ (x, k) :: acc.1, Dead r p.2 := by
    intro r hr p hp
    simp only [List.mem_cons] at hp
    rcases hp with rfl | hp
    · exact dead_future r k (h4 r hr)
    · exact h3 r hr p hp
  obtain ⟨i1, i2, i3, i4, i5⟩ := reduce_closing ((x, k) :: acc.1) acc.2 hs hd h5
  refine ⟨i1, ?_, i3, ?_, i4⟩
  · intro p hp
    have := i2 p hp
    simp only [List.mem_cons] at this
    rcases this with rfl | hp'
    · simp
    · have := h2 p hp'; omega
  · intro r hr
    simp only [step, List.mem_append] at hr
    rcases hr with hr | hr
    · have := h4 r hr; omega
    · obtain ⟨_, p, hp, he⟩ := i5 r hr
      simp only [List.mem_cons] at hp
      rcases hp with rfl | hp'
      · simp [he]
      · have := h2 p hp'; omega

theorem fold_closing (xs : List α) (k : Nat) (acc : List (α × Nat) × List (Cyc α)) (h : Closing k acc) :
    Closing (k + xs.length) ((index xs k).foldl step acc) := by
  induction xs generalizing k acc with
  | nil => simpa [index] using h
  | cons x xs ih =>
      simp only [index, List.foldl_cons, List.length_cons]
      have := ih (k + 1) _ (step_closing k acc x h)
      have e : k + 1 + xs.length = k + (xs.length + 1) := by omega
      rw [e] at this; exact this

/-- step 6 -/
theorem finish_closing (l : List (α × Nat)) (hl : l.Pairwise (fun x y => x.2 < y.2)) :
    (finish l).Pairwise Later ∧
      ∀ q ∈ finish l, q.s < q.e ∧ (∃ p ∈ l, q.s = p.2) ∧ (∃ p ∈ l, q.e = p.2) := by
  fun_induction finish l with
  | case2 l h => simp
  | case1 a b rest ih =>
      have hl' := hl
      simp only [List.pairwise_cons, List.mem_cons, forall_eq_or_imp] at hl
      obtain ⟨⟨hab, harest⟩, hbrest, hrest⟩ := hl
      obtain ⟨i1, i2⟩ := ih (List.Pairwise.of_cons hl')
      refine ⟨?_, ?_⟩
      · rw [List.pairwise_cons]
        refine ⟨?_, i1⟩
        intro q hq
        obtain ⟨_, ⟨p, hp, hs⟩, _⟩ := i2 q hq
        simp only [Later, mkCyc, Bool.false_eq_true, if_false]
        simp only [List.mem_cons] at hp
        rcases hp with rfl | hp
        · omega
        · have := hbrest p hp; omega
      · intro q hq
        simp only [List.mem_cons] at hq
        rcases hq with rfl | hq
        · exact ⟨by simpa [mkCyc] using hab, ⟨a, by simp, rfl⟩, ⟨b, by simp, rfl⟩⟩
        · obtain ⟨j1, ⟨p, hp, hs⟩, ⟨p', hp', he⟩⟩ := i2 q hq
          exact ⟨j1, ⟨p, List.mem_cons_of_mem _ hp, hs⟩, ⟨p', List.mem_cons_of_mem _ hp', he⟩⟩

/-- **closing order**: in the table, a row is `Later` than every row before it -/
theorem rainflow_closing (pts : List α) : (rainflow pts).Pairwise Later := by
  unfold rainflow run
  have h := fold_closing pts 0 ([], []) ⟨by simp [Sorted], by simp, by simp, by simp, by simp⟩
  obtain ⟨h1, h2, h3, h4, h5⟩ := h
  have hrev : ((index pts 0).foldl step ([], [])).1.reverse.Pairwise (fun x y => x.2 < y.2) := by
    rw [List.pairwise_reverse]; exact h1
  obtain ⟨f1, f2⟩ := finish_closing _ hrev
  show (((index pts 0).foldl step ([], [])).2 ++ finish ((index pts 0).foldl step ([], [])).1.reverse).Pairwise Later
  rw [List.pairwise_append]
  refine ⟨h5, f1, ?_⟩
  intro r hr q hq
  obtain ⟨hlt, ⟨p, hp, hs⟩, ⟨p', hp', he⟩⟩ := f2 q hq
  apply later_of_dead r q _ _ hlt
  · rw [hs]; exact h3 r hr p (List.mem_reverse.mp hp)
  · rw [he]; exact h3 r hr p' (List.mem_reverse.mp hp')

/-! ### the half cycles form one chain -/

/-- `rows` lead from offset `a` to offset `b`: each starts where the previous one stopped -/
def Chain : Nat → List (Cyc α) → Nat → Prop
  | a, [], b => a = b
  | a, r :: rs, b => r.s = a ∧ Chain r.e rs b

theorem chain_append (a c : Nat) (xs ys : List (Cyc α)) :
    Chain a (xs ++ ys) c ↔ ∃ b, Chain a xs b ∧ Chain b ys c := by
  induction xs generalizing a with
  | nil => simp [Chain]
  | cons x xs ih =>
      simp only [List.cons_append, Chain, ih]
      constructor
      · rintro ⟨h1, b, h2, h3⟩; exact ⟨b, ⟨h1, h2⟩, h3⟩
      · rintro ⟨b, ⟨h1, h2⟩, h3⟩; exact ⟨h1, b, h2, h3⟩

def halves (rows : List (Cyc α)) : List (Cyc α) := rows.filter fun c => !c.full

/-- the oldest stack entry -/
def bottom (st : List (α × Nat)) : Option Nat := st.getLast?.map Prod.snd

theorem reduce_chain (st : List (α × Nat)) (hne : st ≠ []) :
    ∃ b0 b1, bottom st = some b0 ∧ bottom (reduce st).1 = some b1 ∧ Chain b0 (halves (reduce st).2) b1 := by
  fun_induction reduce st with
  | case1 c b a h => exact ⟨a.2, a.2, by simp [bottom], by simp [bottom], by simp [halves, Chain]⟩
  | case2 c b a h => exact ⟨a.2, b.2, by simp [bottom], by simp [bottom], by simp [halves, Chain, mkCyc]⟩
  | case3 c b a r rest h =>
      cases hb : bottom (c :: b :: a :: r :: rest) with
      | none => simp [bottom] at hb
      | some x => exact ⟨x, x, rfl, rfl, by simp [halves, Chain]⟩
  | case4 c b a r rest h res ih =>
      obtain ⟨b0, b1, h0, h1, h2⟩ := ih (by simp)
      refine ⟨b0, b1, ?_, by simpa [res] using h1, ?_⟩
      · simpa [bottom] using h0
      · simpa [halves, mkCyc, res] using h2
  | case5 st h1 h2 =>
      cases hb : bottom st with
      | none =>
          cases st with
          | nil => exact absurd rfl hne
          | cons x xs => simp [bottom] at hb
      | some x => exact ⟨x, x, rfl, rfl, by simp [halves, Chain]⟩

theorem bottom_cons (p : α × Nat) (st : List (α × Nat)) (hne : st ≠ []) :
    bottom (p :: st) = bottom st := by
  cases st with
  | nil => exact absurd rfl hne
  | cons x xs => simp [bottom, List.getLast?_cons_cons]

theorem fold_chain (ps : List (α × Nat)) (acc : List (α × Nat) × List (Cyc α)) (b : Nat)
    (hne : acc.1 ≠ []) (hb : bottom acc.1 = some b) (hc : Chain 0 (halves acc.2) b) :
    ∃ b', bottom (ps.foldl step acc).1 = some b' ∧ Chain 0 (halves (ps.foldl step acc).2) b' ∧
      (ps.foldl step acc).1 ≠ [] := by
  induction ps generalizing acc b with
  | nil => exact ⟨b, hb, hc, hne⟩
  | cons p ps ih =>
      rw [List.foldl_cons]
      obtain ⟨b0, b1, h0, h1, h2⟩ := reduce_chain (p :: acc.1) (by simp)
      rw [bottom_cons p acc.1 hne, hb] at h0
      cases h0
      apply ih (step acc p) b1 (reduce_nonempty _ (by simp)) h1
      simp only [step, halves, List.filter_append]
      exact (chain_append 0 b1 _ _).mpr ⟨b, hc, h2⟩

theorem finish_chain (l : List (α × Nat)) (a b : Nat) (ha : l.head?.map Prod.snd = some a)
    (hb : l.getLast?.map Prod.snd = some b) : Chain a (halves (finish l)) b := by
  fun_induction finish l generalizing a with
  | case1 x y rest ih =>
      simp only [List.head?_cons, Option.map_some, Option.some.injEq] at ha
      subst ha
      have := ih y.2 (by simp) (by simpa [List.getLast?_cons_cons] using hb)
      simpa [halves, mkCyc, Chain] using this
  | case2 l h =>
      match l, h with
      | [], _ => simp at ha
      | [x], _ =>
          simp at ha hb
          simp [halves, Chain, ← ha, ← hb]
      | x :: y :: r, h => exact absurd rfl (h x y r)

theorem fold_top (ps : List (α × Nat)) (acc : List (α × Nat) × List (Cyc α)) (t : Nat)
    (ht : acc.1.head?.map Prod.snd = some t) :
    ((ps.foldl step acc).1.head?.map Prod.snd) = some ((ps.getLast?.map Prod.snd).getD t) := by
  induction ps generalizing acc t with
  | nil => simpa using ht
  | cons p ps ih =>
      rw [List.foldl_cons]
      have hh : (step acc p).1.head?.map Prod.snd = some p.2 := by
        simp only [step]
        exact reduce_head (p :: acc.1) p acc.1 rfl
      have := ih (step acc p) p.2 hh
      rw [this]
      cases ps with
      | nil => simp
      | cons q qs =>
          cases hz : (q :: qs).getLast? with
          | none => simp at hz
          | some z => simp [List.getLast?_cons_cons, hz]
where
  reduce_head (st : List (α × Nat)) (p : α × Nat) (tl : List (α × Nat)) (h : st = p :: tl) :
      (reduce st).1.head?.map Prod.snd = some p.2 := by
    fun_induction reduce st generalizing tl with
    | case1 c b a hlt => cases h; rfl
    | case2 c b a hlt => cases h; rfl
    | case3 c b a r rest hlt => cases h; rfl
    | case4 c b a r rest hlt res ih => cases h; exact ih _ rfl
    | case5 st h1 h2 => subst h; rfl

/-- **the half cycles**, in table order, lead from the first point to the last one:
`0 = s₁`, `eᵢ = sᵢ₊₁`, `e_m = L - 1` -/
theorem rainflow_half_chain (pts : List α) (hne : pts ≠ []) :
    Chain 0 (halves (rainflow pts)) (pts.length - 1) := by
  cases pts with
  | nil => exact absurd rfl hne
  | cons x xs =>
      unfold rainflow run
      simp only [index, List.foldl_cons]
      have hs0 : step ([], []) (x, 0) = ([(x, 0)], ([] : List (Cyc α))) := by simp [step, reduce]
      rw [hs0]
      obtain ⟨b', h1, h2, h3⟩ := fold_chain (index xs 1) ([(x, 0)], []) 0 (by simp) (by simp [bottom])
        (by simp [halves, Chain])
      have htop := fold_top (index xs 1) ([(x, 0)], ([] : List (Cyc α))) 0 (by simp)
      show Chain 0 (halves (((index xs 1).foldl step ([(x, 0)], [])).2 ++
        finish ((index xs 1).foldl step ([(x, 0)], [])).1.reverse)) _
      simp only [halves, List.filter_append]
      refine (chain_append 0 _ _ _).mpr ⟨b', h2, ?_⟩
      apply finish_chain
      · rw [List.head?_reverse]; exact h1
      · rw [List.getLast?_reverse, htop]
        congr 1
        cases xs with
        | nil => simp [index]
        | cons y ys =>
            have : ((index (y :: ys) 1).getLast?.map Prod.snd) = some (1 + (y :: ys).length - 1) :=
              index_last (y :: ys) 1 (by simp)
            rw [this]; simp
where
  index_last (l : List α) (k : Nat) (h : l ≠ []) :
      (index l k).getLast?.map Prod.snd = some (k + l.length - 1) := by
    induction l generalizing k with
    | nil => exact absurd rfl h
    | cons a as ih =>
        cases as with
        | nil => simp [index]
        | cons b bs =>
            have := ih (k + 1) (by simp)
            simp only [index, List.getLast?_cons_cons] at this ⊢
            rw [this]; simp; omega

/-! ### offsets only label: shifting them shifts the table's offsets -/

def shiftPt (d : Nat) (p : α × Nat) : α × Nat := (p.1, p.2 + d)
def shiftCyc (d : Nat) (c : Cyc α) : Cyc α := { c with s := c.s + d, e := c.e + d }

theorem reduce_shift (d : Nat) (st : List (α × Nat)) :
    reduce (st.map (shiftPt d)) = ((reduce st).1.map (shiftPt d), (reduce st).2.map (shiftCyc d)) := by
  fun_induction reduce st with
  | case1 c b a hlt =>
      simp only [List.map_cons, List.map_nil, shiftPt]
      rw [reduce]; simp only [hlt, if_true]
  | case2 c b a hlt =>
      simp only [List.map_cons, List.map_nil, shiftPt]
      rw [reduce]; simp only [hlt, if_false, mkCyc, shiftCyc]
  | case3 c b a r rest hlt =>
      simp only [List.map_cons, shiftPt]
      rw [reduce]; simp only [hlt, if_true, List.map_nil]
  | case4 c b a r rest hlt res ih =>
      simp only [List.map_cons, shiftPt] at ih ⊢
      rw [reduce]; simp only [hlt, if_false, ih, res, mkCyc, shiftCyc, List.map_cons]
  | case5 st h1 h2 =>
      match st, h1, h2 with
      | [], _, _ => simp [reduce]
      | [a], _, _ => simp [reduce]
      | [a, b], _, _ => simp [reduce]
      | [c, b, a], h1, _ => exact absurd rfl (h1 c b a)
      | c :: b :: a :: r :: rest, _, h2 => exact absurd rfl (h2 c b a r rest)

theorem finish_shift (d : Nat) (l : List (α × Nat)) :
    finish (l.map (shiftPt d)) = (finish l).map (shiftCyc d) := by
  fun_induction finish l with
  | case1 a b rest ih =>
      simp only [List.map_cons] at ih ⊢
      rw [finish, ih]
      simp [mkCyc, shiftCyc, shiftPt]
  | case2 l hl =>
      match l, hl with
      | [], _ => simp [finish]
      | [a], _ => simp [finish]
      | a :: b :: r, hl => exact absurd rfl (hl a b r)

theorem fold_shift (d : Nat) (ps : List (α × Nat)) (acc : List (α × Nat) × List (Cyc α)) :
    (ps.map (shiftPt d)).foldl step (acc.1.map (shiftPt d), acc.2.map (shiftCyc d))
      = ((ps.foldl step acc).1.map (shiftPt d), (ps.foldl step acc).2.map (shiftCyc d)) := by
  induction ps generalizing acc with
  | nil => rfl
  | cons p ps ih =>
      simp only [List.map_cons, List.foldl_cons]
      have : step (acc.1.map (shiftPt d), acc.2.map (shiftCyc d)) (shiftPt d p)
          = ((step acc p).1.map (shiftPt d), (step acc p).2.map (shiftCyc d)) := by
        simp only [step]
        have h1 := reduce_shift d (p :: acc.1)
        simp only [List.map_cons] at h1
        rw [h1]; simp
      rw [this, ih]

theorem index_shift (d : Nat) (l : List α) (k : Nat) : index l (k + d) = (index l k).map (shiftPt d) := by
  induction l generalizing k with
  | nil => rfl
  | cons x xs ih =>
      simp only [index, List.map_cons, shiftPt]
      rw [show k + d + 1 = (k + 1) + d by omega, ih]

/-- rows already emitted are only carried along -/
theorem fold_prefix (ps : List (α × Nat)) (st : List (α × Nat)) (pre r : List (Cyc α)) :
    ps.foldl step (st, pre ++ r) = ((ps.foldl step (st, r)).1, pre ++ (ps.foldl step (st, r)).2) := by
  induction ps generalizing st r with
  | nil => rfl
  | cons p ps ih =>
      simp only [List.foldl_cons]
      have : step (st, pre ++ r) p = ((step (st, r) p).1, pre ++ (step (st, r) p).2) := by
        simp [step, List.append_assoc]
      rw [this, ih]

/-- a repeated FIRST point only adds a zero-range half cycle (offsets 0, 1) in front of the table -/
theorem duplicate_first_aux (x : α) (rest : List α) (h0 : ∀ y : α, ¬ absd x y < absd x x) :
    rainflow (x :: x :: rest) = mkCyc false (x, 0) (x, 1) :: (rainflow (x :: rest)).map (shiftCyc 1) := by
  cases rest with
  | nil => simp [rainflow, run, index, step, reduce, finish]
  | cons y rest =>
      have hL : (index (x :: x :: y :: rest) 0).foldl step ([], [])
          = (index rest 3).foldl step ([(y, 2), (x, 1)], [mkCyc false (x, 0) (x, 1)]) := by
        simp only [index, List.foldl_cons]
        have s1 : step ([], ([] : List (Cyc α))) (x, 0) = ([(x, 0)], []) := by simp [step, reduce]
        have s2 : step ([(x, 0)], ([] : List (Cyc α))) (x, 1) = ([(x, 1), (x, 0)], []) := by
          simp [step, reduce]
        have s3 : step ([(x, 1), (x, 0)], ([] : List (Cyc α))) (y, 2)
            = ([(y, 2), (x, 1)], [mkCyc false (x, 0) (x, 1)]) := by
          simp [step, reduce, h0 y]
        rw [s1, s2, s3]
      have hR : (index (x :: y :: rest) 0).foldl step ([], [])
          = (index rest 2).foldl step ([(y, 1), (x, 0)], []) := by
        simp only [index, List.foldl_cons]
        have s1 : step ([], ([] : List (Cyc α))) (x, 0) = ([(x, 0)], []) := by simp [step, reduce]
        have s2 : step ([(x, 0)], ([] : List (Cyc α))) (y, 1) = ([(y, 1), (x, 0)], []) := by
          simp [step, reduce]
        rw [s1, s2]
      have hsh := fold_shift 1 (index rest 2) ([(y, 1), (x, 0)], ([] : List (Cyc α)))
      rw [← index_shift 1 rest 2] at hsh
      simp only [List.map_cons, List.map_nil, shiftPt] at hsh
      have hp := fold_prefix (index rest 3) [(y, 2), (x, 1)] [mkCyc false (x, 0) (x, 1)] []
      simp only [List.append_nil] at hp
      unfold rainflow run
      simp only [hL, hR, hp, hsh]
      simp only [List.cons_append, List.nil_append, List.map_append, ← finish_shift, List.map_reverse]

/-- what a plateau inside the sequence does: with the stack `x :: w :: rest` (top `x`), reading a
copy `x'` of `x` changes nothing yet, and the next point `y` then counts the pair `(x, x')` as ONE FULL
cycle of range zero and discards both — `y` is compared with `w`, the point before the plateau, as if
`x` had never been there -/
theorem plateau_step (x x' y w : α × Nat) (rest : List (α × Nat)) (rows : List (Cyc α))
    (h1 : absd x.1 x'.1 < absd w.1 x.1) (h2 : ¬ absd x'.1 y.1 < absd x.1 x'.1) :
    step (step (x :: w :: rest, rows) x') y
      = ((reduce (y :: w :: rest)).1, rows ++ mkCyc true x x' :: (reduce (y :: w :: rest)).2) := by
  have s1 : step (x :: w :: rest, rows) x' = (x' :: x :: w :: rest, rows) := by
    simp only [step]
    cases rest with
    | nil => rw [reduce]; simp [h1]
    | cons r rest => rw [reduce]; simp [h1]
  rw [s1]
  simp only [step]
  rw [reduce]
  simp [h2]

end PyYetiVerif.Rainflow
