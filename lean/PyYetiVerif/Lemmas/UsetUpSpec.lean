import PyYetiVerif.Lemmas.UsetUp
import Mathlib.Data.List.Forall2
/-!
What one pass of the loop of `upqsetpv` writes (`Model/UsetUp.lean`): the loop body as "compute
the connection of one upstream SE, then assign", the flags of an upstream SE with own upstream SEs,
and the result of a sequence of index assignments whose common places carry equal values.
-/
namespace PyYetiVerif.Uset
open PyYetiVerif.Locate (normIndex)

/-! ### list facts -/

theorem forall₂_get_left {β γ : Type} {R : β → γ → Prop} : ∀ {l1 : List β} {l2 : List γ},
    List.Forall₂ R l1 l2 → ∀ (k : Nat) (x : β), l1[k]? = some x → ∃ y, l2[k]? = some y ∧ R x y
  | _, _, .nil, k, x, h => by simp at h
  | _, _, .cons hr ht, 0, x, h => by
      simp at h; subst h; exact ⟨_, by simp, hr⟩
  | _, _, .cons hr ht, k + 1, x, h => by
      simp at h
      obtain ⟨y, hy, hR⟩ := forall₂_get_left ht k x h
      exact ⟨y, by simpa using hy, hR⟩

theorem forall₂_get_right {β γ : Type} {R : β → γ → Prop} : ∀ {l1 : List β} {l2 : List γ},
    List.Forall₂ R l1 l2 → ∀ (k : Nat) (y : γ), l2[k]? = some y → ∃ x, l1[k]? = some x ∧ R x y
  | _, _, .nil, k, x, h => by simp at h
  | _, _, .cons hr ht, 0, x, h => by
      simp at h; subst h; exact ⟨_, by simp, hr⟩
  | _, _, .cons hr ht, k + 1, x, h => by
      simp at h
      obtain ⟨y, hy, hR⟩ := forall₂_get_right ht k x h
      exact ⟨y, by simpa using hy, hR⟩

/-- `x[mask]` entry by entry: the `k`-th selected entry is the entry at the `k`-th `True` place -/
theorem sel_positions {β : Type} : ∀ (x : List β) (mask : List Bool) (k0 : Nat),
    x.length = mask.length →
    List.Forall₂ (fun y j => k0 ≤ j ∧ x[j - k0]? = some y)
      (((x.zip mask).filter (·.2)).map (·.1)) (((mask.zipIdx k0).filter (·.1)).map (·.2))
  | [], [], _, _ => by simp
  | [], _ :: _, _, h => by simp at h
  | _ :: _, [], _, h => by simp at h
  | a :: x, b :: mask, k0, h => by
      have ih := sel_positions x mask (k0 + 1) (by simpa using h)
      have ih' : List.Forall₂ (fun y j => k0 ≤ j ∧ (a :: x)[j - k0]? = some y)
          (((x.zip mask).filter (·.2)).map (·.1)) (((mask.zipIdx (k0 + 1)).filter (·.1)).map (·.2)) := by
        refine ih.imp ?_
        intro y j ⟨h1, h2⟩
        refine ⟨by omega, ?_⟩
        have : j - k0 = (j - (k0 + 1)) + 1 := by omega
        rw [this]
        simpa using h2
      rw [List.zip_cons_cons, List.zipIdx_cons]
      cases b
      · simpa [List.filter_cons] using ih'
      · simp only [List.filter_cons, if_true, List.map_cons]
        exact List.Forall₂.cons ⟨Nat.le_refl _, by simp⟩ ih'

theorem maskSel_spec {β : Type} {x : List β} {mask : List Bool} {y : List β}
    (h : maskSel x mask = .ok y) :
    mask.length = x.length ∧ List.Forall₂ (fun v j => x[j]? = some v) y (positions mask) := by
  unfold maskSel at h
  split at h
  · cases h
  · rename_i hl
    have hl' : mask.length = x.length := by simpa using hl
    cases h
    refine ⟨hl', ?_⟩
    have := sel_positions x mask 0 hl'.symm
    unfold positions
    refine this.imp ?_
    intro v j ⟨_, hj⟩
    simpa using hj

theorem zipWith_or_get : ∀ (l1 l2 : List Bool) (k : Nat), l1.length = l2.length →
    ((List.zipWith (· || ·) l1 l2)[k]? = some true ↔ (l1[k]? = some true ∨ l2[k]? = some true))
  | [], [], k, _ => by simp
  | [], _ :: _, _, h => by simp at h
  | _ :: _, [], _, h => by simp at h
  | a :: l1, b :: l2, 0, _ => by simp
  | a :: l1, b :: l2, k + 1, h => by
      simpa using zipWith_or_get l1 l2 k (by simpa using h)

theorem count_true_map {β : Type} (f : β → Bool) : ∀ (l : List β),
    (l.map f).count true = (l.filter f).length
  | [] => rfl
  | a :: t => by
      simp only [List.map_cons, List.count_cons, List.filter_cons]
      by_cases h : f a = true
      · simp [h, count_true_map f t]
      · simp [h, count_true_map f t]

theorem aRows_length (amask : Nat) (tbl : List Row) :
    (aRows amask tbl).length = (tbl.filter fun r => inSet r.2.2 amask).length := by
  unfold aRows
  rw [positions_length, count_true_map]

theorem filter_eq_self_of_length {β : Type} (f : β → Bool) : ∀ (l : List β),
    (l.filter f).length = l.length → l.filter f = l
  | [], _ => rfl
  | a :: t, h => by
      simp only [List.filter_cons] at h ⊢
      by_cases ha : f a = true
      · simp only [ha, if_true, List.length_cons] at h ⊢
        rw [filter_eq_self_of_length f t (by omega)]
      · simp only [ha] at h
        have := List.length_filter_le f t
        simp at h
        omega

/-! ### the flags of one upstream SE -/

theorem qupOwn_length {a q p : Nat} {usetup : List Row} {qup0 : List Bool}
    (h : qupOwn a q p usetup = .ok qup0) : qup0.length = (aRows a usetup).length := by
  unfold qupOwn at h
  simp only [bind, Except.bind] at h
  cases hq : mksetpv (usetup.map (·.2.2)) a q with
  | error e => rw [hq] at h; cases h
  | ok qv =>
    rw [hq] at h
    simp only at h
    have hqv : qv.length = (aRows a usetup).length := by
      unfold mksetpv at hq
      split at hq
      · cases hq
      · cases hq
        rw [aRows_length, List.length_map, List.filter_map, List.length_map]
        rfl
    split at h
    · cases h; exact hqv
    · cases hpa : mksetpv (usetup.map (·.2.2)) p a with
      | error e => rw [hpa] at h; cases h
      | ok pa =>
        rw [hpa] at h
        simp only at h
        cases hm : maskSel (usetup.map (·.2.1)) pa with
        | error e => rw [hm] at h; cases h
        | ok d =>
          rw [hm] at h
          cases h
          obtain ⟨hl, hf⟩ := maskSel_spec hm
          rw [List.length_map, hf.length_eq]
          unfold mksetpv at hpa
          split at hpa
          · cases hpa
          · cases hpa
            rw [List.length_map, List.length_map] at hl
            have := filter_eq_self_of_length _ _ (by rw [hl, List.length_map])
            rw [this, List.map_map]
            rfl

/-- the flags of an upstream SE over its a-set: its own flags (`qupOwn`), or-ed - when some
`selist` row names it as downstream SE - with the entries of `upqsetpv(nas, seup)` at its a-set
rows.  `hr`: the recursive answer has one flag per row of the table of `seup`. -/
theorem upqQup_ok {a q p : Nat} {nas : Nas} {r : Nat → Except Err (List Bool)} {seup : Nat}
    {usetup : List Row} {qup : List Bool}
    (hr : ∀ x, r seup = .ok x → x.length = usetup.length)
    (h : upqQup a q p nas r seup usetup = .ok qup) :
    ∃ qup0, qupOwn a q p usetup = .ok qup0 ∧ qup.length = qup0.length ∧
      ((nas.selist.any (fun x => x.2 = seup) = false ∧ qup = qup0) ∨
       (nas.selist.any (fun x => x.2 = seup) = true ∧ ∃ qup2, r seup = .ok qup2 ∧
          ∀ k : Nat, qup[k]? = some true ↔
            (qup0[k]? = some true ∨ ∃ j, (aRows a usetup)[k]? = some j ∧ qup2[j]? = some true))) := by
  unfold upqQup at h
  cases hq : qupOwn a q p usetup with
  | error e => rw [hq] at h; cases h
  | ok qup0 =>
    rw [hq] at h
    simp only [bind, Except.bind] at h
    refine ⟨qup0, rfl, ?_⟩
    split at h
    · rename_i hany
      cases hr2 : r seup with
      | error e => rw [hr2] at h; cases h
      | ok qup2 =>
        rw [hr2] at h
        simp only at h
        cases hpa : mksetpv (usetup.map (·.2.2)) p a with
        | error e => rw [hpa] at h; cases h
        | ok pa =>
          rw [hpa] at h
          simp only at h
          cases hm : maskSel qup2 pa with
          | error e => rw [hm] at h; cases h
          | ok q2 =>
            rw [hm] at h
            simp only at h
            obtain ⟨hl, hf⟩ := maskSel_spec hm
            have hpa' : pa = usetup.map (fun r => inSet r.2.2 a) := by
              unfold mksetpv at hpa
              split at hpa
              · cases hpa
              · cases hpa
                rw [List.length_map, hr qup2 hr2] at hl
                have := filter_eq_self_of_length _ _ (by rw [hl, List.length_map])
                rw [this, List.map_map]
                rfl
            have hpos : positions pa = aRows a usetup := by rw [hpa']; rfl
            rw [hpos] at hf
            have hlen : q2.length = qup0.length := by
              rw [hf.length_eq, qupOwn_length hq]
            rw [if_pos hlen] at h
            cases h
            refine ⟨by rw [List.length_zipWith, hlen]; simp, Or.inr ⟨hany, qup2, rfl, ?_⟩⟩
            intro k
            rw [zipWith_or_get qup0 q2 k hlen.symm]
            constructor
            · rintro (h0 | h2)
              · exact Or.inl h0
              · obtain ⟨j, hj, hv⟩ := forall₂_get_left hf k true h2
                exact Or.inr ⟨j, hj, hv⟩
            · rintro (h0 | ⟨j, hj, hv⟩)
              · exact Or.inl h0
              · obtain ⟨v, hv', hR⟩ := forall₂_get_right hf k j hj
                rw [hv] at hR
                cases hR
                exact Or.inr hv'
    · rename_i hany
      cases h
      exact ⟨rfl, Or.inl ⟨(Bool.not_eq_true _).mp hany, rfl⟩⟩

/-! ### the loop body: compute the connection, then assign -/

theorem upqWrite_eq (nas : Nas) (sedn : Nat) (usetdn : List Row) (pv qup : List Bool)
    (dnids : List Nat) (maps : List (Int × Int)) :
    upqWrite nas sedn usetdn pv qup dnids maps =
      (upqIdx nas sedn usetdn dnids maps >>= fun idx =>
        bcast qup idx.length >>= fun v => pure (scatter pv idx v)) := by
  unfold upqWrite upqIdx
  cases hm : upMask nas sedn usetdn dnids with
  | error e => rfl
  | ok m =>
    simp only [bind, Except.bind]
    by_cases h1 : maps = []
    · simp only [h1, if_true]; rfl
    · simp only [h1, if_false]
      by_cases h2 : maps.any (fun r => r.2 ≠ 1) = true
      · simp only [h2, if_true]
      · simp only [h2]
        by_cases h3 : (maps.map (·.1)).length = (positions m).length
        · simp only [h3, if_true]
          cases take (positions m) (maps.map (·.1)) <;> rfl
        · simp only [h3, if_false]
          by_cases h4 : diffsPos (maps.map (·.1)) = true
          · simp only [h4, if_true]; rfl
          · simp only [h4]; rfl

/-- what one upstream SE contributes: nothing (`none`: the row is skipped, or the SE has no flag
set), or the places and the values of one index assignment -/
def upqLink (a q p : Nat) (nas : Nas) (r : Nat → Except Err (List Bool)) (sedn : Nat)
    (usetdn : List Row) (c : Nat) : Except Err (Option (List Nat × List Bool)) :=
  if c = sedn then pure none
  else
    lookupD nas.uset c >>= fun usetup =>
    lookupD nas.dnids c >>= fun dnids =>
    lookupD nas.maps c >>= fun maps =>
    upqQup a q p nas r c usetup >>= fun qup =>
    if qup.any id then
      upqIdx nas sedn usetdn dnids maps >>= fun idx =>
      bcast qup idx.length >>= fun v => pure (some (idx, v))
    else pure none

def applyLink (pv : List Bool) : Option (List Nat × List Bool) → List Bool
  | none => pv
  | some (idx, v) => scatter pv idx v

theorem upqStep_eq_link (a q p : Nat) (nas : Nas) (r : Nat → Except Err (List Bool)) (sedn : Nat)
    (usetdn : List Row) (pv : List Bool) (c : Nat) :
    upqStep a q p nas r sedn usetdn pv c =
      (upqLink a q p nas r sedn usetdn c >>= fun w => pure (applyLink pv w)) := by
  unfold upqStep upqLink
  by_cases hc : c = sedn
  · simp only [hc, if_true]; rfl
  · simp only [hc, if_false]
    cases lookupD nas.uset c with
    | error e => rfl
    | ok usetup =>
      cases lookupD nas.dnids c with
      | error e => rfl
      | ok dnids =>
        cases lookupD nas.maps c with
        | error e => rfl
        | ok maps =>
          simp only [bind, Except.bind]
          cases upqQup a q p nas r c usetup with
          | error e => rfl
          | ok qup =>
            simp only
            by_cases hq : qup.any id = true
            · simp only [hq, if_true]
              rw [upqWrite_eq]
              simp only [bind, Except.bind]
              cases upqIdx nas sedn usetdn dnids maps with
              | error e => rfl
              | ok idx =>
                simp only
                cases bcast qup idx.length <;> rfl
            · simp only [hq]; rfl

/-- the loop: every upstream SE yields a contribution, applied in `selist` order -/
theorem foldlM_upqStep_links {a q p : Nat} {nas : Nas} {r : Nat → Except Err (List Bool)} {sedn : Nat}
    {usetdn : List Row} : ∀ (l : List Nat) (init out : List Bool),
    l.foldlM (upqStep a q p nas r sedn usetdn) init = .ok out →
    ∃ ws, List.Forall₂ (fun c w => upqLink a q p nas r sedn usetdn c = .ok w) l ws ∧
      out = ws.foldl applyLink init
  | [], init, out, h => by
      simp [List.foldlM, pure, Except.pure] at h
      exact ⟨[], .nil, by simp [h]⟩
  | c :: t, init, out, h => by
      rw [List.foldlM_cons, upqStep_eq_link] at h
      cases hl : upqLink a q p nas r sedn usetdn c with
      | error e => rw [hl] at h; cases h
      | ok w =>
        rw [hl] at h
        simp only [bind, Except.bind, pure, Except.pure] at h
        obtain ⟨ws, hws, hout⟩ := foldlM_upqStep_links t _ out h
        exact ⟨w :: ws, .cons hl hws, by simpa using hout⟩

/-! ### a sequence of index assignments -/

/-- assignment `w` writes `True` at place `i` -/
def WritesTrue (w : Option (List Nat × List Bool)) (i : Nat) : Prop :=
  ∃ (idx : List Nat) (v : List Bool) (k : Nat), w = some (idx, v) ∧ idx[k]? = some i ∧ v[k]? = some true

/-- assignment `w` writes at place `i` -/
def Targets (w : Option (List Nat × List Bool)) (i : Nat) : Prop :=
  ∃ idx v, w = some (idx, v) ∧ i ∈ idx

/-- shape of one assignment: distinct places inside the vector, one value per place -/
def GoodWrite (n : Nat) (w : Option (List Nat × List Bool)) : Prop :=
  ∀ idx v, w = some (idx, v) → idx.Nodup ∧ idx.length = v.length ∧ ∀ i ∈ idx, i < n

theorem applyLink_length (pv : List Bool) (w : Option (List Nat × List Bool)) :
    (applyLink pv w).length = pv.length := by
  cases w with
  | none => rfl
  | some x => exact scatter_length _ _ _

theorem applyLink_true {n : Nat} {pv : List Bool} {w : Option (List Nat × List Bool)}
    (hn : pv.length = n) (hw : GoodWrite n w) (i : Nat) :
    (applyLink pv w)[i]? = some true ↔ (WritesTrue w i ∨ (¬ Targets w i ∧ pv[i]? = some true)) := by
  cases w with
  | none =>
      simp only [applyLink]
      constructor
      · intro h; exact Or.inr ⟨(by rintro ⟨_, _, h, _⟩; cases h), h⟩
      · rintro (⟨_, _, _, h, _⟩ | ⟨_, h⟩)
        · cases h
        · exact h
  | some x =>
      obtain ⟨idx, v⟩ := x
      obtain ⟨hnd, hl, hb⟩ := hw idx v rfl
      simp only [applyLink]
      have hat := scatter_at idx v pv hnd hl (by intro j hj; rw [hn]; exact hb j hj)
      by_cases hi : i ∈ idx
      · obtain ⟨k, hk⟩ := List.getElem?_of_mem hi
        obtain ⟨b, hb1, hb2⟩ := forall₂_get_left hat k i hk
        rw [hb2]
        constructor
        · intro h
          simp only [Option.some.injEq] at h
          subst h
          exact Or.inl ⟨idx, v, k, rfl, hk, hb1⟩
        · rintro (⟨idx', v', k', he, hk', hv'⟩ | ⟨hnt, _⟩)
          · simp only [Option.some.injEq, Prod.mk.injEq] at he
            obtain ⟨rfl, rfl⟩ := he
            -- distinct places: k' = k
            have hkk : k' = k := by
              have h1 := List.getElem?_eq_some_iff.mp hk
              have h2 := List.getElem?_eq_some_iff.mp hk'
              obtain ⟨l1, e1⟩ := h1
              obtain ⟨l2, e2⟩ := h2
              exact (List.Nodup.getElem_inj_iff hnd).mp (e2.trans e1.symm)
            subst hkk
            rw [hb1] at hv'
            exact hv'
          · exact absurd ⟨idx, v, rfl, hi⟩ hnt
      · rw [scatter_other idx v pv i hi]
        constructor
        · intro h
          exact Or.inr ⟨by
            rintro ⟨idx', v', he, hm⟩
            simp only [Option.some.injEq, Prod.mk.injEq] at he
            obtain ⟨rfl, rfl⟩ := he
            exact hi hm, h⟩
        · rintro (⟨idx', v', k', he, hk', _⟩ | ⟨_, h⟩)
          · simp only [Option.some.injEq, Prod.mk.injEq] at he
            obtain ⟨rfl, rfl⟩ := he
            exact absurd (List.mem_of_getElem? hk') hi
          · exact h

/-- a sequence of assignments whose values agree wherever two of them write at the same place:
the final vector is `True` exactly at the places where some assignment writes `True`, and at the
untouched places that were `True` before -/
theorem foldl_applyLink_true {n : Nat} : ∀ (ws : List (Option (List Nat × List Bool))) (pv : List Bool),
    pv.length = n → (∀ w ∈ ws, GoodWrite n w) →
    (∀ w ∈ ws, ∀ w' ∈ ws, ∀ (idx : List Nat) (v : List Bool) (idx' : List Nat) (v' : List Bool) (k k' i : Nat), w = some (idx, v) → w' = some (idx', v') →
        idx[k]? = some i → idx'[k']? = some i → v[k]? = v'[k']?) →
    ∀ i, (ws.foldl applyLink pv)[i]? = some true ↔
      ((∃ w ∈ ws, WritesTrue w i) ∨ ((∀ w ∈ ws, ¬ Targets w i) ∧ pv[i]? = some true))
  | [], pv, _, _, _, i => by simp
  | w :: t, pv, hn, hg, hc, i => by
      rw [List.foldl_cons]
      have ih := foldl_applyLink_true t (applyLink pv w) (by rw [applyLink_length, hn])
        (fun w' hw' => hg w' (List.mem_cons_of_mem _ hw'))
        (fun w1 h1 w2 h2 => hc w1 (List.mem_cons_of_mem _ h1) w2 (List.mem_cons_of_mem _ h2)) i
      rw [ih, applyLink_true hn (hg w List.mem_cons_self) i]
      constructor
      · rintro (⟨w', hw', ht⟩ | ⟨hnt, (hwt | ⟨hnw, hpv⟩)⟩)
        · exact Or.inl ⟨w', List.mem_cons_of_mem _ hw', ht⟩
        · exact Or.inl ⟨w, List.mem_cons_self, hwt⟩
        · refine Or.inr ⟨?_, hpv⟩
          intro w' hw'
          rcases List.mem_cons.mp hw' with rfl | hw'
          · exact hnw
          · exact hnt w' hw'
      · rintro (⟨w', hw', ht⟩ | ⟨hnt, hpv⟩)
        · rcases List.mem_cons.mp hw' with rfl | hw't
          · -- `w'` is the head: either no later assignment touches `i`, or a later one does - with the same value
            by_cases hex : ∃ w2 ∈ t, Targets w2 i
            · obtain ⟨w2, hw2, idx2, v2, he2, hi2⟩ := hex
              obtain ⟨idx, v, k, he, hk, hv⟩ := ht
              obtain ⟨k2, hk2⟩ := List.getElem?_of_mem hi2
              have := hc w' List.mem_cons_self w2 (List.mem_cons_of_mem _ hw2) idx v idx2 v2 k k2 i he he2 hk hk2
              exact Or.inl ⟨w2, hw2, idx2, v2, k2, he2, hk2, by rw [← this]; exact hv⟩
            · refine Or.inr ⟨?_, Or.inl ht⟩
              intro w2 hw2 ht2
              exact hex ⟨w2, hw2, ht2⟩
          · exact Or.inl ⟨w', hw't, ht⟩
        · exact Or.inr ⟨fun w' hw' => hnt w' (List.mem_cons_of_mem _ hw'),
            Or.inr ⟨hnt w List.mem_cons_self, hpv⟩⟩

/-! ### the pieces of one contribution -/

theorem lookupD_inj {β : Type} {d : List (Nat × β)} {k : Nat} {x y : β}
    (h1 : lookupD d k = .ok x) (h2 : lookupD d k = .ok y) : x = y := by
  rw [h1] at h2; cases h2; rfl

theorem upqLink_ok {a q p : Nat} {nas : Nas} {r : Nat → Except Err (List Bool)} {sedn : Nat}
    {usetdn : List Row} {c : Nat} {w : Option (List Nat × List Bool)}
    (h : upqLink a q p nas r sedn usetdn c = .ok w) :
    (c = sedn ∧ w = none) ∨
    (c ≠ sedn ∧ ∃ usetup dnids maps qup, lookupD nas.uset c = .ok usetup ∧
      lookupD nas.dnids c = .ok dnids ∧ lookupD nas.maps c = .ok maps ∧
      upqQup a q p nas r c usetup = .ok qup ∧
      ((qup.any id = false ∧ w = none) ∨
       (qup.any id = true ∧ ∃ idx v, upqIdx nas sedn usetdn dnids maps = .ok idx ∧
          bcast qup idx.length = .ok v ∧ w = some (idx, v)))) := by
  unfold upqLink at h
  by_cases hc : c = sedn
  · rw [if_pos hc] at h
    cases h
    exact Or.inl ⟨hc, rfl⟩
  · rw [if_neg hc] at h
    refine Or.inr ⟨hc, ?_⟩
    cases h1 : lookupD nas.uset c with
    | error e => rw [h1] at h; cases h
    | ok usetup =>
      cases h2 : lookupD nas.dnids c with
      | error e => rw [h1, h2] at h; cases h
      | ok dnids =>
        cases h3 : lookupD nas.maps c with
        | error e => rw [h1, h2, h3] at h; cases h
        | ok maps =>
          rw [h1, h2, h3] at h
          simp only [bind, Except.bind] at h
          cases h4 : upqQup a q p nas r c usetup with
          | error e => rw [h4] at h; cases h
          | ok qup =>
            rw [h4] at h
            simp only at h
            refine ⟨usetup, dnids, maps, qup, rfl, rfl, rfl, h4, ?_⟩
            by_cases hq : qup.any id = true
            · rw [if_pos hq] at h
              cases h5 : upqIdx nas sedn usetdn dnids maps with
              | error e => rw [h5] at h; cases h
              | ok idx =>
                rw [h5] at h
                simp only at h
                cases h6 : bcast qup idx.length with
                | error e => rw [h6] at h; cases h
                | ok v =>
                  rw [h6] at h
                  cases h
                  exact Or.inr ⟨hq, idx, v, rfl, h6, rfl⟩
            · rw [if_neg hq] at h
              cases h
              exact Or.inl ⟨(Bool.not_eq_true _).mp hq, rfl⟩

theorem linkIdx_some {nas : Nas} {c s : Nat} {idx : List Nat} (h : linkIdx nas (c, s) = some idx) :
    c ≠ s ∧ ∃ usetdn dnids maps, lookupD nas.uset s = .ok usetdn ∧ lookupD nas.dnids c = .ok dnids ∧
      lookupD nas.maps c = .ok maps ∧ upqIdx nas s usetdn dnids maps = .ok idx := by
  unfold linkIdx at h
  simp only at h
  split at h
  · cases h
  · rename_i hne
    refine ⟨hne, ?_⟩
    split at h
    · rename_i usetdn dnids maps h1 h2 h3
      split at h
      · rename_i idx' h4
        cases h
        exact ⟨usetdn, dnids, maps, h1, h2, h3, h4⟩
      · cases h
    · cases h

theorem linkIdx_of {nas : Nas} {c s : Nat} {idx : List Nat} {usetdn : List Row} {dnids : List Nat}
    {maps : List (Int × Int)} (hne : c ≠ s) (h1 : lookupD nas.uset s = .ok usetdn)
    (h2 : lookupD nas.dnids c = .ok dnids) (h3 : lookupD nas.maps c = .ok maps)
    (h4 : upqIdx nas s usetdn dnids maps = .ok idx) : linkIdx nas (c, s) = some idx := by
  unfold linkIdx
  simp only
  rw [if_neg hne, h1, h2, h3]
  simp only
  rw [h4]

theorem bcast_same {vals out : List Bool} {n : Nat} (h : bcast vals n = .ok out)
    (hl : vals.length = n) : out = vals := by
  unfold bcast at h
  rw [if_pos hl] at h
  cases h; rfl

theorem upMask_length {nas : Nas} {sedn : Nat} {usetdn : List Row} {dnids : List Nat}
    {m : List Bool} (h : upMask nas sedn usetdn dnids = .ok m) : m.length = usetdn.length := by
  rcases (upMask_spec h).2 with h | ⟨_, _, _, _, h⟩ <;> rw [h, idMask_length]

/-- the places of an assignment are rows of the downstream table -/
theorem upqIdx_lt {nas : Nas} {sedn : Nat} {usetdn : List Row} {dnids : List Nat}
    {maps : List (Int × Int)} {idx : List Nat} (h : upqIdx nas sedn usetdn dnids maps = .ok idx) :
    ∀ i ∈ idx, i < usetdn.length := by
  unfold upqIdx at h
  cases hm : upMask nas sedn usetdn dnids with
  | error e => rw [hm] at h; cases h
  | ok m =>
    rw [hm] at h
    simp only [bind, Except.bind] at h
    have hpos : ∀ i ∈ positions m, i < usetdn.length := by
      intro i hi
      rw [← upMask_length hm]
      exact (List.getElem?_eq_some_iff.mp (mem_positions.mp hi)).1
    split at h
    · cases h; exact hpos
    · split at h
      · cases h
      · split at h
        · intro i hi
          have hf := take_spec h
          obtain ⟨k, hk⟩ := List.getElem?_of_mem hi
          obtain ⟨_, _, j, _, hj⟩ := forall₂_get_right hf k i hk
          exact hpos i (List.mem_of_getElem? hj)
        · split at h
          · cases h; exact hpos
          · cases h

theorem any_of_get {l : List Bool} {k : Nat} (h : l[k]? = some true) : l.any id = true :=
  List.any_eq_true.mpr ⟨true, List.mem_of_getElem? h, rfl⟩

theorem forall₂_mem_right {β γ : Type} {R : β → γ → Prop} {l1 : List β} {l2 : List γ}
    (h : List.Forall₂ R l1 l2) {y : γ} (hy : y ∈ l2) : ∃ x ∈ l1, R x y := by
  obtain ⟨k, hk⟩ := List.getElem?_of_mem hy
  obtain ⟨x, hx, hR⟩ := forall₂_get_right h k y hk
  exact ⟨x, List.mem_of_getElem? hx, hR⟩

theorem forall₂_mem_left {β γ : Type} {R : β → γ → Prop} {l1 : List β} {l2 : List γ}
    (h : List.Forall₂ R l1 l2) {x : β} (hx : x ∈ l1) : ∃ y ∈ l2, R x y := by
  obtain ⟨k, hk⟩ := List.getElem?_of_mem hx
  obtain ⟨y, hy, hR⟩ := forall₂_get_left h k x hk
  exact ⟨y, List.mem_of_getElem? hy, hR⟩

end PyYetiVerif.Uset
