import PyYetiVerif.Lemmas.UsetTranBlocks
/-!
What `upSelectWith` / `procMsetWith` / `selSet` (`Model/UsetTran.lean`) select: the picked rows are rows of the set;
the g-set table `iddofG` (`rowsOfMask`).
-/
set_option linter.constructorNameAsVariable false
set_option linter.unusedSectionVars false
namespace PyYetiVerif.Uset
open PyYetiVerif.Locate

section sel
variable {κ : Type} [LinearOrder κ] (mkKey : Nat → Nat → κ)
variable {α : Type} [Add α] [Mul α] [OfNat α 0] [OfNat α 1] [DecidableEq α]

theorem selSet_spec {iddof : List κ} {xs : List Nat} {dofr : List κ} {g : Bool} {r : List Nat × List Nat}
    (h : selSet iddof xs dofr g = .ok r) : List.Forall₂ (fun i p => xs[i]? = some p) r.1 r.2 := by
  unfold selSet at h
  split at h
  · simp only [Except.ok.injEq] at h
    subst h
    exact .nil
  · obtain ⟨pv, _, h⟩ := bind_ok h
    obtain ⟨x', hx, h⟩ := bind_ok h
    simp only [Except.ok.injEq] at h
    subst h
    exact takeIdx_ok hx

theorem mksetpv_all_true {words : List Nat} {major minor : Nat}
    (h : ∀ w ∈ words, inSet w major = true ∧ inSet w minor = true) :
    mksetpv words major minor = .ok (words.map fun _ => true) := by
  unfold mksetpv
  rw [if_neg, List.filter_eq_self.mpr (fun w hw => (h w hw).1)]
  · congr 1
    apply List.map_congr_left
    intro w hw
    exact (h w hw).2
  · intro hany
    obtain ⟨w, hw, hb⟩ := List.any_eq_true.mp hany
    simp [(h w hw).1] at hb

theorem rowsOfMask_all_true : ∀ (tbl : List Row), rowsOfMask tbl (tbl.map fun _ => true) = tbl
  | [] => rfl
  | r :: t => by
      have ih := rowsOfMask_all_true t
      unfold rowsOfMask at ih ⊢
      simp only [List.map_cons, List.zip_cons_cons, List.filter_cons_of_pos, ih]

theorem rowsOfMask_positions : ∀ (tbl : List Row) (pv : List Bool) (k : Nat), pv.length = tbl.length →
    List.Forall₂ (fun i r => ∃ j, i = k + j ∧ tbl[j]? = some r)
      (((pv.zipIdx k).filter (·.1)).map (·.2)) (rowsOfMask tbl pv)
  | [], [], _, _ => by simp [rowsOfMask]
  | [], _ :: _, _, h => by simp at h
  | _ :: _, [], _, h => by simp at h
  | r :: t, b :: pv, k, h => by
      have ih := rowsOfMask_positions t pv (k + 1) (by simpa using h)
      have ih' : List.Forall₂ (fun i r' => ∃ j, i = k + j ∧ (r :: t)[j]? = some r')
          (((pv.zipIdx (k + 1)).filter (·.1)).map (·.2)) (rowsOfMask t pv) :=
        ih.imp fun i r' ⟨j, hi, hj⟩ => ⟨j + 1, by omega, by simpa using hj⟩
      unfold rowsOfMask at ih' ⊢
      cases b with
      | true =>
          simp only [List.zipIdx_cons, List.filter_cons_of_pos, List.map_cons, List.zip_cons_cons]
          exact .cons ⟨0, rfl, rfl⟩ ih'
      | false =>
          simp only [List.zipIdx_cons, List.zip_cons_cons, Bool.false_eq_true, not_false_eq_true,
            List.filter_cons_of_neg]
          exact ih'

theorem procMsetWith_spec {idd : Except TErr (List κ)} {mk : Masks} {tbl : List Row} {gm : Option (M α)} {dofr : List κ}
    {m' : List Nat} {g' : M α} (h : procMsetWith idd mk tbl gm dofr = .ok (some (m', g'))) :
    ∃ (m : List Nat) (gmM : M α) (pv : List Nat), setPos tbl mk.g mk.m = .ok m ∧ gm = some gmM ∧
      List.Forall₂ (fun i p => m[i]? = some p) pv m' ∧ g'.c = gmM.c ∧
      List.Forall₂ (fun i y => gmM.r[i]? = some y) pv g'.r := by
  unfold procMsetWith at h
  obtain ⟨m, hm, h⟩ := bind_ok h
  split at h
  · cases h
  · obtain ⟨iddof, _, h⟩ := bind_ok h
    obtain ⟨pv, _, h⟩ := bind_ok h
    split at h
    · cases h
    · obtain ⟨m'', hm', h⟩ := bind_ok h
      cases gm with
      | none => cases h
      | some g =>
          simp only at h
          obtain ⟨g'', hg, h⟩ := bind_ok h
          simp only [Except.ok.injEq, Option.some.injEq, Prod.mk.injEq] at h
          obtain ⟨rfl, rfl⟩ := h
          obtain ⟨hc, hr⟩ := rowsAt_ok hg
          exact ⟨m, g, pv, hm, rfl, takeIdx_ok hm', hc, hr⟩

/-- the selections of `formtran` (`se != 0`): every picked row is a row of its set (for any evaluation `idd` of the `[id, dof]` table) -/
theorem upSelectWith_spec {idd : Except TErr (List κ)} {mk : Masks} {tbl : List Row} {got goq gm : Option (M α)} {dofr : List κ}
    {x : UpSel α} (h : upSelectWith idd mk tbl got goq gm dofr = .ok x) :
    ∃ (t o q s : List Nat), setPos tbl mk.g mk.t = .ok t ∧ setPos tbl mk.g mk.o = .ok o ∧
      setPos tbl mk.g mk.q = .ok q ∧ setPos tbl mk.g mk.s = .ok s ∧
      List.Forall₂ (fun i p => t[i]? = some p) x.pvdoft x.t' ∧
      List.Forall₂ (fun i p => o[i]? = some p) x.pvdofo x.o' ∧
      List.Forall₂ (fun i p => q[i]? = some p) x.pvdofq x.q' ∧
      List.Forall₂ (fun i p => s[i]? = some p) x.pvdofs x.s' ∧
      (∀ g, got = some g → x.gotM = g) ∧ (∀ g, goq = some g → x.goqM = g) ∧
      (got = none → ∀ r ∈ x.gotM.r, r.length = x.gotM.c) ∧ (goq = none → ∀ r ∈ x.goqM.r, r.length = x.goqM.c) ∧
      x.pm = (match procMsetWith idd mk tbl gm dofr with | .ok v => v | .error _ => none) ∧
      (∃ v, procMsetWith idd mk tbl gm dofr = .ok v) ∧
      (∀ y, x.pm = some y → setPos tbl mk.n mk.t = .ok x.tnoq.1 ∧ setPos tbl mk.n mk.o = .ok x.tnoq.2.1 ∧
        setPos tbl mk.n mk.q = .ok x.tnoq.2.2) := by
  unfold upSelectWith at h
  obtain ⟨t, ht, h⟩ := bind_ok h
  obtain ⟨iddof, _, h⟩ := bind_ok h
  obtain ⟨st, hst, h⟩ := bind_ok h
  obtain ⟨o, ho, h⟩ := bind_ok h
  obtain ⟨so, hso, h⟩ := bind_ok h
  obtain ⟨goqM, hgoq, h⟩ := bind_ok h
  obtain ⟨gotM, hgot, h⟩ := bind_ok h
  obtain ⟨pm, hpm, h⟩ := bind_ok h
  obtain ⟨tnoq, htnoq, h⟩ := bind_ok h
  obtain ⟨q, hq, h⟩ := bind_ok h
  obtain ⟨sq, hsq, h⟩ := bind_ok h
  obtain ⟨s, hs, h⟩ := bind_ok h
  obtain ⟨ss, hss, h⟩ := bind_ok h
  simp only [Except.ok.injEq] at h
  subst h
  refine ⟨t, o, q, s, ht, ho, hq, hs, selSet_spec hst, selSet_spec hso, selSet_spec hsq, selSet_spec hss,
    ?_, ?_, ?_, ?_, ?_, ⟨pm, hpm⟩, ?_⟩
  · intro g hg; subst hg
    simp only [pure, Except.pure, Except.ok.injEq] at hgot
    exact hgot.symm
  · intro g hg; subst hg
    simp only [pure, Except.pure, Except.ok.injEq] at hgoq
    exact hgoq.symm
  · intro hg; subst hg
    simp only at hgot
    obtain ⟨t1, _, hgot⟩ := bind_ok hgot
    simp only [pure, Except.pure, Except.ok.injEq] at hgot
    subst hgot
    intro r hr
    simp only at hr ⊢
    rw [List.eq_of_mem_replicate hr, zeroRow_length]
  · intro hg; subst hg
    simp only at hgoq
    obtain ⟨q1, _, hgoq⟩ := bind_ok hgoq
    simp only [pure, Except.pure, Except.ok.injEq] at hgoq
    subst hgoq
    intro r hr
    split at hr
    · simp only at hr
      rename_i hpos
      simp only [hpos, if_true]
      rw [List.eq_of_mem_replicate hr, zeroRow_length]
    · rename_i hpos
      simp only [hpos, if_false]
      simp only [List.mem_singleton] at hr
      subst hr
      rfl
  · simp only [hpm]
  · intro y hy
    simp only at hy
    subst hy
    simp only at htnoq
    obtain ⟨t_n, ht_n, htnoq⟩ := bind_ok htnoq
    obtain ⟨o_n, ho_n, htnoq⟩ := bind_ok htnoq
    obtain ⟨q_n, hq_n, htnoq⟩ := bind_ok htnoq
    simp only [pure, Except.pure, Except.ok.injEq] at htnoq
    subst htnoq
    exact ⟨ht_n, ho_n, hq_n⟩

end sel
end PyYetiVerif.Uset
