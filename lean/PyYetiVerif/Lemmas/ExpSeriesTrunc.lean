import Mathlib.Analysis.Complex.Exponential
import Mathlib.Tactic.Linarith
import Mathlib.Tactic.Positivity
import Mathlib.Tactic.FieldSimp
import Mathlib.Tactic.Ring
import PyYetiVerif.Model.ExpSeries
/-!
# C07 — truncation error of a diagonal Padé approximant of `exp`, scalar case

`q(x)·e^x − p(x)` for `|x| ≤ θ`, with `p, q` coefficient lists over ℚ: split `e^x = T_N(x) + R_N(x)`
(`|R_N| ≤ 2|x|^N/N!` for `|x| ≤ (N+1)/2`, Mathlib `Complex.exp_bound'`); `q·T_N − p` is an explicit
polynomial whose coefficients below `x^(2m+1)` vanish (checked on the lists), the rest is bounded by
the polynomial of absolute values at `θ`.
-/
open Finset
namespace PyYetiVerif.ExpSeries

/-- evaluation over ℝ of a rational coefficient list (constant term first) -/
noncomputable def evalR (p : List ℚ) (x : ℝ) : ℝ := p.foldr (fun c acc => (c : ℝ) + x * acc) 0

@[simp] theorem evalR_nil (x : ℝ) : evalR [] x = 0 := rfl
@[simp] theorem evalR_cons (c : ℚ) (p : List ℚ) (x : ℝ) : evalR (c :: p) x = c + x * evalR p x := rfl

theorem evalR_polyAdd (p q : List ℚ) (x : ℝ) : evalR (polyAdd p q) x = evalR p x + evalR q x := by
  induction p generalizing q with
  | nil => simp [polyAdd]
  | cons a p ih =>
    cases q with
    | nil => simp [polyAdd]
    | cons b q => simp only [polyAdd, evalR_cons, ih]; push_cast; ring

theorem evalR_polyScale (c : ℚ) (p : List ℚ) (x : ℝ) : evalR (polyScale c p) x = c * evalR p x := by
  induction p with
  | nil => simp [polyScale]
  | cons a p ih =>
    have : polyScale c (a :: p) = (c * a) :: polyScale c p := rfl
    rw [this, evalR_cons, evalR_cons, ih]; push_cast; ring

theorem evalR_polyMul (p q : List ℚ) (x : ℝ) : evalR (polyMul p q) x = evalR p x * evalR q x := by
  induction p with
  | nil => simp [polyMul]
  | cons a p ih =>
    simp only [polyMul, evalR_polyAdd, evalR_polyScale, evalR_cons, ih]
    push_cast; ring

theorem evalR_replicate_append (k : ℕ) (g : List ℚ) (x : ℝ) :
    evalR (List.replicate k 0 ++ g) x = x ^ k * evalR g x := by
  induction k with
  | zero => simp
  | succ k ih =>
    rw [List.replicate_succ, List.cons_append, evalR_cons, ih, pow_succ]; push_cast; ring

theorem evalR_eq_sum (l : List ℚ) (x : ℝ) :
    evalR l x = ∑ k ∈ range l.length, ((l.getD k 0 : ℚ) : ℝ) * x ^ k := by
  induction l with
  | nil => simp
  | cons c l ih =>
    rw [evalR_cons, ih, List.length_cons, Finset.sum_range_succ', Finset.mul_sum]
    simp only [List.getD_cons_succ, List.getD_cons_zero, pow_zero, mul_one]
    rw [add_comm]
    congr 1
    apply Finset.sum_congr rfl
    intro k _
    rw [pow_succ]; ring

/-- the first `N` Taylor coefficients of `exp` -/
def expList (N : ℕ) : List ℚ := (List.range N).map eCoef

theorem fact_eq'' (n : ℕ) : fact n = n.factorial := by
  induction n with
  | zero => rfl
  | succ n ih => simp [fact, ih, Nat.factorial_succ]

theorem evalR_expList (N : ℕ) (x : ℝ) :
    evalR (expList N) x = ∑ k ∈ range N, x ^ k / (k.factorial : ℝ) := by
  rw [evalR_eq_sum]
  have hl : (expList N).length = N := by simp [expList]
  rw [hl]
  apply Finset.sum_congr rfl
  intro k hk
  have hk' : k < N := Finset.mem_range.mp hk
  have : (expList N).getD k 0 = eCoef k := by
    simp [expList, List.getD, hk']
  rw [this, eCoef, fact_eq'']
  push_cast
  ring

/-- Taylor remainder of the real exponential (from `Complex.exp_bound'`) -/
theorem real_exp_tail (x : ℝ) (N : ℕ) (h : |x| / (N + 1 : ℝ) ≤ 1 / 2) :
    |Real.exp x - ∑ k ∈ range N, x ^ k / (k.factorial : ℝ)| ≤ |x| ^ N / (N.factorial : ℝ) * 2 := by
  have hc : ‖(x : ℂ)‖ / (N.succ : ℝ) ≤ 1 / 2 := by
    rw [Complex.norm_real, Real.norm_eq_abs]; push_cast; exact h
  have := Complex.exp_bound' (x := (x : ℂ)) (n := N) hc
  rw [Complex.norm_real, Real.norm_eq_abs] at this
  convert this using 1
  rw [← Complex.ofReal_exp]
  have : (∑ m ∈ range N, (x : ℂ) ^ m / (m.factorial : ℂ))
      = ((∑ m ∈ range N, x ^ m / (m.factorial : ℝ) : ℝ) : ℂ) := by
    push_cast; rfl
  rw [this, ← Complex.ofReal_sub, Complex.norm_real, Real.norm_eq_abs]

def absList (p : List ℚ) : List ℚ := p.map fun c => |c|

theorem polyEval_absList_nonneg (p : List ℚ) (t : ℚ) (ht : 0 ≤ t) : 0 ≤ polyEval (absList p) t := by
  induction p with
  | nil => simp [absList, polyEval]
  | cons c p ih =>
    have : polyEval (absList (c :: p)) t = |c| + t * polyEval (absList p) t := rfl
    rw [this]
    have := abs_nonneg c
    positivity

theorem abs_evalR_le (p : List ℚ) (x : ℝ) (t : ℚ) (hx : |x| ≤ t) :
    |evalR p x| ≤ ((polyEval (absList p) t : ℚ) : ℝ) := by
  have ht : (0 : ℚ) ≤ t := by
    have : (0 : ℝ) ≤ t := le_trans (abs_nonneg x) hx
    exact_mod_cast this
  induction p with
  | nil => simp [absList, polyEval]
  | cons c p ih =>
    have e : polyEval (absList (c :: p)) t = |c| + t * polyEval (absList p) t := rfl
    rw [e, evalR_cons]
    push_cast
    have hB : (0 : ℝ) ≤ ((polyEval (absList p) t : ℚ) : ℝ) := by
      exact_mod_cast polyEval_absList_nonneg p t ht
    calc |(c : ℝ) + x * evalR p x| ≤ |(c : ℝ)| + |x * evalR p x| := abs_add_le _ _
      _ = |(c : ℝ)| + |x| * |evalR p x| := by rw [abs_mul]
      _ ≤ |(c : ℝ)| + (t : ℝ) * ((polyEval (absList p) t : ℚ) : ℝ) := by
        have := mul_le_mul hx ih (abs_nonneg _) (le_trans (abs_nonneg x) hx)
        linarith

/-- **residual of the approximant**: if the product `q·T_N − p` has no coefficient below `x^(2m+1)`
(`hlist`, a statement about lists that `decide` settles), then for `|x| ≤ t ≤ (N+1)/2`
`|q(x) e^x − p(x)| ≤ |x|^(2m+1)·κ` with the explicit rational `κ` below -/
theorem residual_bound (p q g : List ℚ) (m N : ℕ) (t : ℚ) (hN : (t : ℝ) ≤ ((N : ℝ) + 1) / 2)
    (hNm : 2 * m + 1 ≤ N)
    (hlist : polyAdd (polyMul q (expList N)) (polyScale (-1) p) = List.replicate (2 * m + 1) 0 ++ g)
    (x : ℝ) (hx : |x| ≤ t) :
    |evalR q x * Real.exp x - evalR p x| ≤
      |x| ^ (2 * m + 1) *
        ((polyEval (absList g) t + polyEval (absList q) t * 2 * t ^ (N - (2 * m + 1)) / (N.factorial : ℚ) : ℚ) : ℝ) := by
  have ht0 : (0 : ℝ) ≤ t := le_trans (abs_nonneg x) hx
  set T := ∑ k ∈ range N, x ^ k / (k.factorial : ℝ) with hT
  have hTe : evalR (expList N) x = T := evalR_expList N x
  have hpoly : evalR q x * T - evalR p x = x ^ (2 * m + 1) * evalR g x := by
    have := congrArg (fun l => evalR l x) hlist
    simp only [evalR_polyAdd, evalR_polyMul, evalR_polyScale, evalR_replicate_append, hTe] at this
    rw [← this]; push_cast; ring
  have htail : |Real.exp x - T| ≤ |x| ^ N / (N.factorial : ℝ) * 2 := by
    apply real_exp_tail
    have hpos : (0 : ℝ) < (N : ℝ) + 1 := by positivity
    rw [div_le_iff₀ hpos]
    linarith
  have hsplit : evalR q x * Real.exp x - evalR p x
      = x ^ (2 * m + 1) * evalR g x + evalR q x * (Real.exp x - T) := by
    rw [← hpoly]; ring
  have hg := abs_evalR_le g x t hx
  have hq := abs_evalR_le q x t hx
  have hpow : |x| ^ N = |x| ^ (2 * m + 1) * |x| ^ (N - (2 * m + 1)) := by
    rw [← pow_add]; congr 1; omega
  have hpow2 : |x| ^ (N - (2 * m + 1)) ≤ (t : ℝ) ^ (N - (2 * m + 1)) :=
    pow_le_pow_left₀ (abs_nonneg x) hx _
  have hfac : (0 : ℝ) < (N.factorial : ℝ) := by positivity
  have hQ0 : (0 : ℝ) ≤ ((polyEval (absList q) t : ℚ) : ℝ) := le_trans (abs_nonneg _) hq
  have hxk : (0 : ℝ) ≤ |x| ^ (2 * m + 1) := by positivity
  rw [hsplit]
  calc |x ^ (2 * m + 1) * evalR g x + evalR q x * (Real.exp x - T)|
      ≤ |x ^ (2 * m + 1) * evalR g x| + |evalR q x * (Real.exp x - T)| := abs_add_le _ _
    _ = |x| ^ (2 * m + 1) * |evalR g x| + |evalR q x| * |Real.exp x - T| := by
        rw [abs_mul, abs_mul, abs_pow]
    _ ≤ |x| ^ (2 * m + 1) * ((polyEval (absList g) t : ℚ) : ℝ)
          + ((polyEval (absList q) t : ℚ) : ℝ) * (|x| ^ N / (N.factorial : ℝ) * 2) := by
        have h1 := mul_le_mul_of_nonneg_left hg hxk
        have h2 := mul_le_mul hq htail (abs_nonneg _) hQ0
        linarith
    _ ≤ |x| ^ (2 * m + 1) * ((polyEval (absList g) t : ℚ) : ℝ)
          + ((polyEval (absList q) t : ℚ) : ℝ)
            * (|x| ^ (2 * m + 1) * (t : ℝ) ^ (N - (2 * m + 1)) / (N.factorial : ℝ) * 2) := by
        have h3 : |x| ^ N / (N.factorial : ℝ) * 2
            ≤ |x| ^ (2 * m + 1) * (t : ℝ) ^ (N - (2 * m + 1)) / (N.factorial : ℝ) * 2 := by
          rw [hpow]
          have := mul_le_mul_of_nonneg_left hpow2 hxk
          have h4 : |x| ^ (2 * m + 1) * |x| ^ (N - (2 * m + 1)) / (N.factorial : ℝ)
              ≤ |x| ^ (2 * m + 1) * (t : ℝ) ^ (N - (2 * m + 1)) / (N.factorial : ℝ) :=
            div_le_div_of_nonneg_right this hfac.le
          linarith
        have := mul_le_mul_of_nonneg_left h3 hQ0
        linarith
    _ = _ := by push_cast; ring

/-! ## sign structure: `q(x) = p(−x)`, `p` has non-negative coefficients -/

/-- `p(−x)`: every other coefficient negated -/
def altSign : List ℚ → List ℚ
  | [] => []
  | c :: l => c :: polyScale (-1) (altSign l)

theorem evalR_altSign (p : List ℚ) (y : ℝ) : evalR (altSign p) (-y) = evalR p y := by
  induction p with
  | nil => rfl
  | cons c l ih =>
    simp only [altSign, evalR_cons, evalR_polyScale, ih]; push_cast; ring

theorem evalR_altSign' (p : List ℚ) (y : ℝ) : evalR (altSign p) y = evalR p (-y) := by
  have := evalR_altSign p (-y)
  rwa [neg_neg] at this

theorem evalR_nonneg (p : List ℚ) (hp : ∀ c ∈ p, (0 : ℚ) ≤ c) (y : ℝ) (hy : 0 ≤ y) : 0 ≤ evalR p y := by
  induction p with
  | nil => simp
  | cons c l ih =>
    rw [evalR_cons]
    have hc : (0 : ℝ) ≤ c := by exact_mod_cast hp c (by simp)
    have := ih (fun d hd => hp d (by simp [hd]))
    positivity

theorem evalR_ge_head (c : ℚ) (l : List ℚ) (hp : ∀ d ∈ c :: l, (0 : ℚ) ≤ d) (y : ℝ) (hy : 0 ≤ y) :
    (c : ℝ) ≤ evalR (c :: l) y := by
  rw [evalR_cons]
  have := evalR_nonneg l (fun d hd => hp d (by simp [hd])) y hy
  nlinarith [mul_nonneg hy this]

/-- **relative truncation error, real scalar case**.  `p = c :: l` with non-negative coefficients,
`q(x) = p(−x)`; if `|q(y) e^y − p(y)| ≤ D0 < c` for all `|y| ≤ t` then for `|x| ≤ t` the
denominator is positive and `|p(x)/q(x) − e^x| ≤ D0/(c − D0) · e^x` -/
theorem pade_rel_error (c : ℚ) (l : List ℚ) (t D0 : ℝ)
    (hp : ∀ d ∈ c :: l, (0 : ℚ) ≤ d) (hD : D0 < c) (hD0 : 0 ≤ D0)
    (hres : ∀ y : ℝ, |y| ≤ t →
      |evalR (altSign (c :: l)) y * Real.exp y - evalR (c :: l) y| ≤ D0)
    (x : ℝ) (hx : |x| ≤ t) :
    0 < evalR (altSign (c :: l)) x ∧
      |evalR (c :: l) x / evalR (altSign (c :: l)) x - Real.exp x| ≤ D0 / ((c : ℝ) - D0) * Real.exp x := by
  set p := c :: l with hpdef
  have hcpos : (0 : ℝ) < (c : ℝ) - D0 := by linarith
  have hc0 : (0 : ℝ) < c := by linarith
  have hex : 0 < Real.exp x := Real.exp_pos x
  rcases le_total 0 x with h0 | h0
  · -- x ≥ 0
    have hpx : (c : ℝ) ≤ evalR p x := evalR_ge_head c l hp x h0
    have hD' := hres x hx
    set q := evalR (altSign p) x with hq
    have hqe : (c : ℝ) - D0 ≤ q * Real.exp x := by
      have := abs_le.mp hD'
      linarith [this.1]
    have hqpos : 0 < q := by
      by_contra hneg
      have hq0 : q ≤ 0 := le_of_not_gt hneg
      have : q * Real.exp x ≤ 0 := mul_nonpos_of_nonpos_of_nonneg hq0 hex.le
      linarith
    refine ⟨hqpos, ?_⟩
    have e1 : evalR p x / q - Real.exp x = -(q * Real.exp x - evalR p x) / q := by
      field_simp
      ring
    rw [e1, abs_div, abs_neg, abs_of_pos hqpos, div_le_iff₀ hqpos]
    calc |q * Real.exp x - evalR p x| ≤ D0 := hD'
      _ = D0 / ((c : ℝ) - D0) * ((c : ℝ) - D0) := by field_simp
      _ ≤ D0 / ((c : ℝ) - D0) * (q * Real.exp x) :=
        mul_le_mul_of_nonneg_left hqe (div_nonneg hD0 hcpos.le)
      _ = D0 / ((c : ℝ) - D0) * Real.exp x * q := by ring
  · -- x ≤ 0
    set y := -x with hy
    have hy0 : 0 ≤ y := by linarith
    have hyt : |y| ≤ t := by rw [hy, abs_neg]; exact hx
    have hqx : evalR (altSign p) x = evalR p y := by rw [evalR_altSign']
    have hpx : evalR p x = evalR (altSign p) y := by
      rw [evalR_altSign', hy, neg_neg]
    have hpy : (c : ℝ) ≤ evalR p y := evalR_ge_head c l hp y hy0
    have hpypos : 0 < evalR p y := lt_of_lt_of_le hc0 hpy
    have hDy := hres y hyt
    have hexy : Real.exp y = (Real.exp x)⁻¹ := by rw [hy, Real.exp_neg]
    refine ⟨by rw [hqx]; exact hpypos, ?_⟩
    rw [hqx, hpx]
    have e1 : evalR (altSign p) y / evalR p y - Real.exp x
        = (evalR (altSign p) y * Real.exp y - evalR p y) * Real.exp x / evalR p y := by
      rw [hexy]; field_simp
    rw [e1, abs_div, abs_mul, abs_of_pos hpypos, abs_of_pos hex, div_le_iff₀ hpypos]
    have h1 : D0 / ((c : ℝ) - D0) * Real.exp x * evalR p y ≥ D0 / ((c : ℝ) - D0) * Real.exp x * c :=
      mul_le_mul_of_nonneg_left hpy (mul_nonneg (div_nonneg hD0 hcpos.le) hex.le)
    have h2 : D0 / ((c : ℝ) - D0) * (c : ℝ) ≥ D0 := by
      rw [ge_iff_le, div_mul_eq_mul_div, le_div_iff₀ hcpos]
      nlinarith
    calc |evalR (altSign p) y * Real.exp y - evalR p y| * Real.exp x ≤ D0 * Real.exp x :=
        mul_le_mul_of_nonneg_right hDy hex.le
      _ ≤ D0 / ((c : ℝ) - D0) * (c : ℝ) * Real.exp x := mul_le_mul_of_nonneg_right h2 hex.le
      _ = D0 / ((c : ℝ) - D0) * Real.exp x * c := by ring
      _ ≤ _ := h1

/-! ## one table: everything `decide` has to check, and what follows from it -/

/-- the explicit residual constant: `|q(x)e^x − p(x)| ≤ κ·|x|^(2m+1)` for `|x| ≤ t` -/
def kappa (q g : List ℚ) (m N : ℕ) (t : ℚ) : ℚ :=
  polyEval (absList g) t + polyEval (absList q) t * 2 * t ^ (N - (2 * m + 1)) / (N.factorial : ℚ)

/-- the part of `q·T_N − p` from `x^(2m+1)` on -/
def restOf (p q : List ℚ) (m N : ℕ) : List ℚ :=
  (polyAdd (polyMul q (expList N)) (polyScale (-1) p)).drop (2 * m + 1)

/-- everything `decide` has to check about one table -/
def tableOK (p q : List ℚ) (m N : ℕ) (t K : ℚ) : Bool :=
  let g := restOf p q m N
  let D0 := kappa q g m N t * t ^ (2 * m + 1)
  let c := p.headD 0
  decide (p = c :: p.tail) && decide (q = altSign p) && p.all (fun d => decide (0 ≤ d)) &&
    decide (0 ≤ t) && decide (t ≤ ((N : ℚ) + 1) / 2) && decide (2 * m + 1 ≤ N) &&
    decide (polyAdd (polyMul q (expList N)) (polyScale (-1) p) = List.replicate (2 * m + 1) 0 ++ g) &&
    decide (0 ≤ D0) && decide (D0 < c) && decide (D0 / (c - D0) ≤ K)

theorem trunc_of_tableOK (p q : List ℚ) (m N : ℕ) (t K : ℚ) (h : tableOK p q m N t K = true)
    (x : ℝ) (hx : |x| ≤ t) :
    0 < evalR q x ∧ |evalR p x / evalR q x - Real.exp x| ≤ (K : ℝ) * Real.exp x := by
  simp only [tableOK, Bool.and_eq_true, decide_eq_true_eq, List.all_eq_true] at h
  obtain ⟨⟨⟨⟨⟨⟨⟨⟨⟨hpc, hq⟩, hnn⟩, _ht⟩, hN⟩, hNm⟩, hlist⟩, hD0⟩, hDc⟩, hK⟩ := h
  set g := restOf p q m N with hg
  set c := p.headD 0 with hc
  set D0 : ℚ := kappa q g m N t * t ^ (2 * m + 1) with hD
  have hNr : (t : ℝ) ≤ ((N : ℝ) + 1) / 2 := by
    have := (Rat.cast_le (K := ℝ)).mpr hN
    push_cast at this
    exact this
  have hres : ∀ y : ℝ, |y| ≤ t → |evalR (altSign (c :: p.tail)) y * Real.exp y - evalR (c :: p.tail) y| ≤ (D0 : ℝ) := by
    intro y hy
    rw [← hpc, ← hq]
    have := residual_bound p q g m N t hNr hNm hlist y hy
    have hk0 : (0 : ℝ) ≤ ((kappa q g m N t : ℚ) : ℝ) := by
      have h1 := polyEval_absList_nonneg g t _ht
      have h2 := polyEval_absList_nonneg q t _ht
      have : (0 : ℚ) ≤ kappa q g m N t := by unfold kappa; positivity
      exact_mod_cast this
    have hpw : |y| ^ (2 * m + 1) ≤ (t : ℝ) ^ (2 * m + 1) := pow_le_pow_left₀ (abs_nonneg y) hy _
    calc _ ≤ |y| ^ (2 * m + 1) * ((kappa q g m N t : ℚ) : ℝ) := this
      _ ≤ (t : ℝ) ^ (2 * m + 1) * ((kappa q g m N t : ℚ) : ℝ) := mul_le_mul_of_nonneg_right hpw hk0
      _ = (D0 : ℝ) := by rw [hD]; push_cast; ring
  have hnn' : ∀ d ∈ c :: p.tail, (0 : ℚ) ≤ d := by rw [← hpc]; exact hnn
  have hDc' : (D0 : ℝ) < (c : ℝ) := by exact_mod_cast hDc
  have hD0' : (0 : ℝ) ≤ (D0 : ℝ) := by exact_mod_cast hD0
  have main := pade_rel_error c p.tail t D0 hnn' hDc' hD0' hres x hx
  rw [← hpc, ← hq] at main
  refine ⟨main.1, le_trans main.2 ?_⟩
  have hKr : (D0 : ℝ) / ((c : ℝ) - D0) ≤ (K : ℝ) := by exact_mod_cast hK
  exact mul_le_mul_of_nonneg_right hKr (Real.exp_pos x).le


end PyYetiVerif.ExpSeries
