import PyYetiVerif.Model.FreqGauss
import Mathlib.Algebra.Field.Basic
import Mathlib.Algebra.BigOperators.Fin
import Mathlib.Data.Matrix.Mul
import Mathlib.LinearAlgebra.Matrix.ToLinearEquiv
import Mathlib.Tactic.FieldSimp
import Mathlib.Tactic.Ring
import Mathlib.Tactic.LinearCombination
/-! Helper lemmas for the correctness of `gaussList` (C02): list-level soundness (`some x` solves
every equation), list-level completeness (`none` exhibits a non-zero kernel vector), and the
bridge from coefficient lists to `Matrix.mulVec`. -/
set_option linter.unusedSimpArgs false
set_option linter.unusedVariables false
set_option linter.unusedSectionVars false
namespace PyYetiVerif.Freq
open Matrix

section lists
variable {α : Type} [Field α]

theorem dot_nil_left (xs : List α) : dot ([] : List α) xs = 0 := by
  cases xs <;> rfl

theorem dot_nil_right (as : List α) : dot as ([] : List α) = 0 := by
  cases as <;> rfl

theorem dot_cons_right (l : List α) (x : α) (xs : List α) :
    dot l (x :: xs) = l.headD 0 * x + dot l.tail xs := by
  cases l with
  | nil => simp [dot, dot_nil_left]
  | cons a as => simp [dot]

theorem subDot_eq (s : α) (as xs : List α) : subDot s as xs = s - dot as xs := by
  induction as generalizing s xs with
  | nil => simp [subDot, dot_nil_left]
  | cons a as ih =>
    cases xs with
    | nil => simp [subDot, dot_nil_right]
    | cons x xs => simp only [subDot, dot, ih]; ring

theorem dot_rowSub (f : α) (as ps xs : List α) :
    dot (rowSub f as ps) xs = dot as xs - f * dot ps xs := by
  induction ps generalizing as xs with
  | nil => simp [rowSub, dot_nil_left]
  | cons p ps ih =>
    cases xs with
    | nil => simp [dot_nil_right]
    | cons x xs =>
      simp only [rowSub, dot, ih, dot_cons_right as]
      ring

theorem dot_replicate_zero (as : List α) (n : Nat) : dot as (List.replicate n (0 : α)) = 0 := by
  induction n generalizing as with
  | zero => simp [dot_nil_right]
  | succ n ih =>
    rw [List.replicate_succ, dot_cons_right, ih]; ring

theorem pickPivot_perm (absLt : α → α → Bool) (p : Eqn α) (rs : List (Eqn α)) :
    ((pickPivot absLt p rs).1 :: (pickPivot absLt p rs).2).Perm (p :: rs) := by
  induction rs generalizing p with
  | nil => simp [pickPivot]
  | cons r rs ih =>
    simp only [pickPivot]
    split
    · exact ((List.Perm.swap _ _ _).trans ((ih r).cons p))
    · exact ((List.Perm.swap _ _ _).trans ((ih p).cons r)).trans (List.Perm.swap _ _ _)

/-- the scan keeps an entry of largest modulus: a zero pivot means a zero column -/
theorem pickPivot_zero (absLt : α → α → Bool)
    (h1 : ∀ a b : α, absLt a b = true → b ≠ 0) (h2 : ∀ b : α, b ≠ 0 → absLt 0 b = true)
    (p : Eqn α) (rs : List (Eqn α)) (h0 : (pickPivot absLt p rs).1.1.headD 0 = 0) :
    ∀ e ∈ p :: rs, e.1.headD 0 = 0 := by
  induction rs generalizing p with
  | nil => simpa [pickPivot] using h0
  | cons r rs ih =>
    simp only [pickPivot] at h0
    split at h0
    · rename_i hlt
      have := ih r h0 r (by simp)
      exact absurd this (h1 _ _ hlt)
    · rename_i hlt
      have hall := ih p h0
      have hp : p.1.headD 0 = 0 := hall p (by simp)
      intro e he
      rcases List.mem_cons.1 he with rfl | he
      · exact hp
      rcases List.mem_cons.1 he with rfl | he
      · by_contra hne
        rw [hp] at hlt
        exact hlt (h2 _ hne)
      · exact hall e (List.mem_cons_of_mem _ he)

theorem eliminate_length (p : Eqn α) (os : List (Eqn α)) : (eliminate p os).length = os.length := by
  simp [eliminate]

/-- soundness: whatever `gaussList` returns solves every equation -/
theorem gaussList_sound (isZero : α → Bool) (hz : ∀ x, isZero x = true ↔ x = 0)
    (absLt : α → α → Bool) :
    ∀ (n : Nat) (rows : List (Eqn α)) (xs : List α), rows.length = n →
      gaussList isZero absLt n rows = some xs → ∀ e ∈ rows, dot e.1 xs = e.2
  | 0, rows, xs, hl, _ => by
    have : rows = [] := List.eq_nil_of_length_eq_zero hl
    subst this; intro e he; cases he
  | n + 1, [], xs, hl, _ => by simp at hl
  | n + 1, r :: rs, xs, hl, h => by
    simp only [gaussList] at h
    split at h
    · cases h
    · rename_i hpz
      split at h
      · cases h
      · rename_i ys hy
        simp only [Option.some.injEq] at h
        subst h
        have hperm := pickPivot_perm absLt r rs
        set pv := pickPivot absLt r rs with hpv
        have hpiv : pv.1.1.headD 0 ≠ 0 := fun h0 => hpz ((hz _).2 h0)
        have hlen : (eliminate pv.1 pv.2).length = n := by
          rw [eliminate_length]
          have := hperm.length_eq
          simp only [List.length_cons] at this hl
          omega
        have ih := gaussList_sound isZero hz absLt n _ ys hlen hy
        intro e he
        have he' : e ∈ pv.1 :: pv.2 := hperm.mem_iff.2 he
        rcases List.mem_cons.1 he' with rfl | he'
        · rw [dot_cons_right, subDot_eq]
          field_simp
          ring
        · have := ih (rowSub (e.1.headD 0 / pv.1.1.headD 0) e.1.tail pv.1.1.tail,
              e.2 - e.1.headD 0 / pv.1.1.headD 0 * pv.1.2) (by
            simp only [eliminate, List.mem_map]
            exact ⟨e, he', rfl⟩)
          simp only [dot_rowSub] at this
          rw [dot_cons_right, subDot_eq]
          field_simp at this ⊢
          linear_combination this

/-- completeness: `none` comes with a non-zero vector annihilated by every row -/
theorem gaussList_none (isZero : α → Bool) (hz : ∀ x, isZero x = true ↔ x = 0)
    (absLt : α → α → Bool)
    (h1 : ∀ a b : α, absLt a b = true → b ≠ 0) (h2 : ∀ b : α, b ≠ 0 → absLt 0 b = true) :
    ∀ (n : Nat) (rows : List (Eqn α)), rows.length = n →
      gaussList isZero absLt n rows = none →
      ∃ y : List α, y.length = n ∧ (∃ v ∈ y, v ≠ 0) ∧ ∀ e ∈ rows, dot e.1 y = 0
  | 0, rows, _, h => by simp [gaussList] at h
  | n + 1, [], hl, _ => by simp at hl
  | n + 1, r :: rs, hl, h => by
    simp only [gaussList] at h
    have hperm := pickPivot_perm absLt r rs
    set pv := pickPivot absLt r rs with hpv
    split at h
    · rename_i hpz
      have h0 : pv.1.1.headD 0 = 0 := (hz _).1 hpz
      have hall := pickPivot_zero absLt h1 h2 r rs h0
      refine ⟨1 :: List.replicate n 0, by simp, ⟨1, by simp, one_ne_zero⟩, ?_⟩
      intro e he
      rw [dot_cons_right, hall e he, dot_replicate_zero]; ring
    · rename_i hpz
      have hpiv : pv.1.1.headD 0 ≠ 0 := fun h0 => hpz ((hz _).2 h0)
      split at h
      · rename_i hy
        have hlen : (eliminate pv.1 pv.2).length = n := by
          rw [eliminate_length]
          have := hperm.length_eq
          simp only [List.length_cons] at this hl
          omega
        obtain ⟨ys, hyl, ⟨v, hv, hvne⟩, hker⟩ :=
          gaussList_none isZero hz absLt h1 h2 n _ hlen hy
        refine ⟨(-(dot pv.1.1.tail ys) / pv.1.1.headD 0) :: ys, by simp [hyl],
          ⟨v, List.mem_cons_of_mem _ hv, hvne⟩, ?_⟩
        intro e he
        have he' : e ∈ pv.1 :: pv.2 := hperm.mem_iff.2 he
        rcases List.mem_cons.1 he' with rfl | he'
        · rw [dot_cons_right]; field_simp; ring
        · have := hker (rowSub (e.1.headD 0 / pv.1.1.headD 0) e.1.tail pv.1.1.tail,
              e.2 - e.1.headD 0 / pv.1.1.headD 0 * pv.1.2) (by
            simp only [eliminate, List.mem_map]
            exact ⟨e, he', rfl⟩)
          simp only [dot_rowSub] at this
          rw [dot_cons_right]
          field_simp at this ⊢
          linear_combination this
      · cases h

end lists

section bridge
variable {α : Type} [Field α]

theorem dot_map_map {ι : Type} (l : List ι) (f x : ι → α) :
    dot (l.map f) (l.map x) = (l.map fun j => f j * x j).sum := by
  induction l with
  | nil => rfl
  | cons a l ih => simp [dot, ih]

theorem list_eq_map_finRange {n : Nat} (xs : List α) (hl : xs.length = n) :
    xs = (List.finRange n).map fun j => xs[j.val]'(by rw [hl]; exact j.isLt) := by
  apply List.ext_getElem
  · simp [hl]
  · intro i h1 h2
    simp

/-- a coefficient row built from `A r` against a solution list is the matrix-vector product -/
theorem dot_finRange {n : Nat} (f : Fin n → α) (xs : List α) (hl : xs.length = n) :
    dot ((List.finRange n).map f) xs = ∑ j : Fin n, f j * xs[j.val]'(by rw [hl]; exact j.isLt) := by
  conv_lhs => rw [list_eq_map_finRange xs hl]
  rw [dot_map_map, Fin.sum_univ_def]

end bridge

end PyYetiVerif.Freq
