import PyYetiVerif.Lemmas.Op4VariantsReadFile
/-! C11: the loops of `listload(namelist)` and `dir` of the binary OUTPUT4 reader model over an encoded file, and
the format detection on its first bytes. -/
namespace PyYetiVerif.Op4VR
open PyYetiVerif.Op4 (Endian Layout chooseLayout checkName isIdent lowerB)
open PyYetiVerif.Op4V (Variant VStr VMat natBytes intBytes keyBytes realBytes wper strPayload strWords colRec
  trailerRec headerRec encVMat encVFile mtypeV)
open PyYetiVerif.Op2 (V2 kb)
open PyYetiVerif.Op2R (M Err natOfBytes intOfBytes chunks rdI4 rdKeyRaw pyRead seekFwd InKey)
open PyYetiVerif.Generated.Op4Consts

/-- what an encoded matrix is read as: lower-cased name, the header integers, the column reader chosen, the
strings of its columns as puts in file order -/
def decOf (v : Variant) (m : VMat) : VDec :=
  ⟨m.name.map lowerB, rowsKey m, (m.ncols : Int), (m.form : Int), ((mtypeV v m.cplx : Nat) : Int), (readLayout m).1,
    (readLayout m).2, putsOfCols m.cols⟩

theorem encVFile_cons (v : Variant) (m : VMat) (ms : List VMat) :
    encVFile v (m :: ms) = headerRec v m ++ (bodyBytes v m ++ encVFile v ms) := by
  simp only [encVFile, List.flatMap_cons, encVMat_eq, List.append_assoc]

theorem length_encVMat_pos (v : Variant) (m : VMat) : 16 ≤ (encVMat v m).length := by
  have : nameLen (v2 v) = 8 ∨ nameLen (v2 v) = 16 := by unfold nameLen; split <;> simp
  have hk := Op2R.kb_pos (v2 v)
  rw [encVMat_eq, headerRec_eq]
  simp only [List.length_append, length_mark, length_key, length_nameField]
  omega

theorem length_le_encVFile (v : Variant) (ms : List VMat) : ms.length ≤ (encVFile v ms).length := by
  induction ms with
  | nil => simp [encVFile]
  | cons m ms ih =>
    have := length_encVMat_pos v m
    simp only [encVFile, List.flatMap_cons, List.length_append, List.length_cons] at ih ⊢
    omega

/-- the loop of `listload(file, namelist)`: exactly the encoded matrices whose (lower-cased) name passes
`patternlist and name not in patternlist`, in file order; a skipped matrix is skipped exactly -/
theorem loadLoop_enc (v : Variant) (cut : Int) (pl : List (List Nat)) :
    ∀ (ms : List VMat) (count fuel : Nat), (∀ m ∈ ms, VMatOk v m) → ms.length < fuel →
      loadLoop (v2 v) cut pl fuel count (encVFile v ms)
        = .ok ((ms.map (decOf v)).filter fun d => !skipped pl d.name) := by
  intro ms
  induction ms with
  | nil =>
    intro count fuel _ hf
    match fuel, hf with
    | f + 1, _ => simp [loadLoop, encVFile, rdHdr]
  | cons m ms ih =>
    intro count fuel hok hf
    have hm := hok m List.mem_cons_self
    match fuel, hf with
    | f + 1, hf =>
      have hrec := ih (count + 1) f (fun x hx => hok x (List.mem_cons_of_mem _ hx))
        (by simp only [List.length_cons] at hf; omega)
      rw [loadLoop, encVFile_cons, rdHdr_enc v m hm]
      simp only
      have hname : checkName count (hdrOf v m).rawName = m.name.map lowerB := checkName_nameField v m hm count
      rw [hname]
      cases hsk : skipped pl (m.name.map lowerB) with
      | true =>
        have hskip := skipBody_enc v m hm (encVFile v ms)
        have hc : (hdrOf v m).cols = (m.ncols : Int) := rfl
        simp only [if_true, hc, hskip, hrec, List.map_cons, decOf]
        rw [List.filter_cons_of_neg (by simp [hsk])]
      | false =>
        simp only [Bool.false_eq_true, if_false, rdBody_enc v cut m hm, hrec, List.map_cons]
        rw [List.filter_cons_of_pos (by simp [decOf, hsk])]
        rfl

/-- the loop of `dir`: one line per encoded matrix -/
theorem dirLoop_enc (v : Variant) :
    ∀ (ms : List VMat) (count fuel : Nat), (∀ m ∈ ms, VMatOk v m) → ms.length < fuel →
      dirLoop (v2 v) fuel count (encVFile v ms) = .ok (ms.map fun m => (decOf v m).listing) := by
  intro ms
  induction ms with
  | nil =>
    intro count fuel _ hf
    match fuel, hf with
    | f + 1, _ => simp [dirLoop, encVFile, rdHdr]
  | cons m ms ih =>
    intro count fuel hok hf
    have hm := hok m List.mem_cons_self
    match fuel, hf with
    | f + 1, hf =>
      have hrec := ih (count + 1) f (fun x hx => hok x (List.mem_cons_of_mem _ hx))
        (by simp only [List.length_cons] at hf; omega)
      have hskip := skipBody_enc v m hm (encVFile v ms)
      have hc : (hdrOf v m).cols = (m.ncols : Int) := rfl
      have hname : checkName count (hdrOf v m).rawName = m.name.map lowerB := checkName_nameField v m hm count
      rw [dirLoop, encVFile_cons, rdHdr_enc v m hm]
      simp only [hc, hskip, hrec, hname, List.map_cons]
      rfl

/-- `_op4open_read` / `_decode_format` recover byte order and key width from the first record marker of any
encoded file with at least one matrix -/
theorem detect_enc (v : Variant) (ms : List VMat) (hne : ms ≠ []) : detect (encVFile v ms) = .ok (some (v2 v)) := by
  cases ms with
  | nil => exact absurd rfl hne
  | cons m ms =>
    have hlen : ¬ ((encVFile v (m :: ms)).length < 16) := by
      have := length_encVMat_pos v m
      simp only [encVFile, List.flatMap_cons, List.length_append]; omega
    have htake : (encVFile v (m :: ms)).take 4 = Op4V.mark v (4 * keyBytes v + nameLen (v2 v)) := by
      rw [encVFile_cons, headerRec_eq, List.append_assoc]
      exact List.take_left' (length_mark v _)
    unfold detect
    rw [if_neg hlen, htake]
    have hm : Op4V.mark v (4 * keyBytes v + nameLen (v2 v)) = natBytes v.e 4 (if v.bit64 then 48 else 24) := by
      unfold Op4V.mark keyBytes nameLen v2
      cases v.bit64 <;> rfl
    rw [hm]
    have hv : v2 v = ⟨v.e, v.bit64⟩ := rfl
    rw [hv]
    cases v.e <;> cases v.bit64
    · rw [show natBytes .little 4 (if false = true then 48 else 24) = [24, 0, 0, 0] from by decide]; rfl
    · rw [show natBytes .little 4 (if true = true then 48 else 24) = [48, 0, 0, 0] from by decide]; rfl
    · rw [show natBytes .big 4 (if false = true then 48 else 24) = [0, 0, 0, 24] from by decide]; rfl
    · rw [show natBytes .big 4 (if true = true then 48 else 24) = [0, 0, 0, 48] from by decide]; rfl

end PyYetiVerif.Op4VR
