import PyYetiVerif.Lemmas.Op4File
/-! The binary file theorem carried down to bytes: every word the writer emits is below `2^32`, so
`wordsOfBytes ∘ bytesOfWords` is the identity on it; the format detection finds the byte order; names
go through `_check_name`.  Result: `decodeBytes (bytes written) = some (what was written)`. -/
namespace PyYetiVerif.Op4
open PyYetiVerif.Generated.Op4Consts

def Lt32 (ws : List Nat) : Prop := ∀ w ∈ ws, w < 4294967296

theorem Lt32.nil : Lt32 [] := fun _ h => by simp at h
theorem Lt32.cons {w : Nat} {ws : List Nat} (h : w < 4294967296) (ht : Lt32 ws) : Lt32 (w :: ws) := by
  intro x hx
  rcases List.mem_cons.1 hx with rfl | hx
  · exact h
  · exact ht x hx
theorem Lt32.append {a b : List Nat} (ha : Lt32 a) (hb : Lt32 b) : Lt32 (a ++ b) := by
  intro x hx
  rcases List.mem_append.1 hx with h | h
  · exact ha x h
  · exact hb x h
theorem Lt32.flatMap {α} (f : α → List Nat) (xs : List α) (h : ∀ x ∈ xs, Lt32 (f x)) : Lt32 (xs.flatMap f) := by
  intro w hw
  obtain ⟨x, hx, hwx⟩ := List.mem_flatMap.1 hw
  exact h x hx w hwx

theorem wordsOfBytes_bytesOfWords (e : Endian) (ws : List Nat) (h : Lt32 ws) :
    wordsOfBytes e (bytesOfWords e ws) = ws := by
  induction ws with
  | nil => rfl
  | cons w t ih =>
    have hw := h w (List.mem_cons_self)
    have ht := ih fun x hx => h x (List.mem_cons_of_mem _ hx)
    unfold bytesOfWords at ht ⊢
    cases e <;>
      simp only [List.flatMap_cons, wordBytes, List.cons_append, List.nil_append, wordsOfBytes, ht,
        bytesWord, List.cons.injEq, and_true] <;> omega

/-- elements are bit patterns of doubles -/
def Entry.Is64 (x : Entry) : Prop := x.1 < 18446744073709551616 ∧ x.2 < 18446744073709551616

theorem dWords_lt (e : Endian) (b : Nat) (h : b < 18446744073709551616) : Lt32 (dWords e b) := by
  intro w hw
  cases e <;> simp only [dWords, W, List.mem_cons, List.not_mem_nil, or_false] at hw <;>
    rcases hw with rfl | rfl <;> omega

theorem valWords_lt (e : Endian) (cplx : Bool) (seg : List Entry) (h : ∀ x ∈ seg, Entry.Is64 x) :
    Lt32 (valWords e cplx seg) := by
  unfold valWords
  apply Lt32.flatMap
  intro b hb
  obtain ⟨x, hx, hbx⟩ := List.mem_flatMap.1 hb
  have hx64 := h x hx
  apply dWords_lt
  unfold entryDs at hbx
  split at hbx
  · simp only [List.mem_cons, List.not_mem_nil, or_false] at hbx
    rcases hbx with rfl | rfl
    · exact hx64.1
    · exact hx64.2
  · simp only [List.mem_cons, List.not_mem_nil, or_false] at hbx
    rw [hbx]; exact hx64.1

theorem bytesWord_lt (e : Endian) (a b c d : Nat) (ha : a < 256) (hb : b < 256) (hc : c < 256) (hd : d < 256) :
    bytesWord e a b c d < 4294967296 := by
  cases e <;> simp only [bytesWord] <;> omega

theorem mem_strings' (cplx : Bool) (col : List Entry) (s : Nat × List Entry) (hs : s ∈ strings cplx col) :
    s.1 + s.2.length ≤ col.length ∧ 1 ≤ s.2.length ∧ ∀ x ∈ s.2, x ∈ col := by
  simp only [strings, List.mem_map] at hs
  obtain ⟨q, hq, rfl⟩ := hs
  have hr := run_in_range cplx col q hq
  have hpos := colStats_pos _ q hq
  refine ⟨by simp <;> omega, by simp <;> omega, ?_⟩
  intro x hx
  exact List.mem_of_mem_drop (List.mem_of_mem_take hx)

/-- the words of one column record are 32-bit words -/
theorem recOf_lt32 (e : Endian) (lay : Layout) (cplx : Bool) (c : Nat) (col : List Entry) (s : Nat) (tl : List Nat)
    (h : nzIdx cplx col = s :: tl) (hc : c + 1 < 2147483648) (hrows : col.length < 134217728)
    (h64 : ∀ x ∈ col, Entry.Is64 x) (hfit : lay = .nonbigmat → stringsFit cplx col = true) :
    Lt32 (recOf e lay cplx c col s tl).words := by
  have hs_mem : s ∈ nzIdx cplx col := by rw [h]; exact List.mem_cons_self
  obtain ⟨xs, hxs, _⟩ := (mem_nzIdx _ _ _).1 hs_mem
  have hs_lt : s < col.length := (List.getElem?_eq_some_iff.1 hxs).1
  have hm := mult_le_two cplx
  have hb := nwords_bound cplx col
  cases lay
  · -- dense
    have hseg : (denseSeg col s tl).length ≤ col.length := by unfold denseSeg; simp <;> omega
    have hmul : (denseSeg col s tl).length * mult cplx ≤ 2 * col.length := by
      have := Nat.mul_le_mul hseg hm.1; omega
    simp only [recOf, Rec.words]
    refine Lt32.cons (by omega) (Lt32.cons (by omega) (Lt32.cons (by omega) (Lt32.cons (by omega)
      (Lt32.append (valWords_lt e cplx _ fun x hx => h64 x (List.mem_of_mem_drop (List.mem_of_mem_take hx)))
        (Lt32.cons (by omega) Lt32.nil)))))
  · -- bigmat
    simp only [recOf, Rec.words]
    refine Lt32.cons (by omega) (Lt32.cons (by omega) (Lt32.cons (by omega) (Lt32.cons (by omega)
      (Lt32.append (Lt32.flatMap _ _ ?_) (Lt32.cons (by omega) Lt32.nil)))))
    intro s' hs'
    obtain ⟨h1, h2, h3⟩ := mem_strings' cplx col s' hs'
    have hlen : s'.2.length * 2 * mult cplx ≤ 4 * col.length := by
      have h4 : s'.2.length ≤ col.length := by omega
      have := Nat.mul_le_mul h4 hm.1
      have e' : s'.2.length * 2 * mult cplx = 2 * (s'.2.length * mult cplx) := by
        rw [Nat.mul_right_comm, Nat.mul_comm]
      omega
    simp only [bigStringWords]
    exact Lt32.append (Lt32.cons (by omega) (Lt32.cons (by omega) Lt32.nil))
      (valWords_lt e cplx _ fun x hx => h64 x (h3 x hx))
  · -- nonbigmat
    simp only [recOf, Rec.words]
    refine Lt32.cons (by omega) (Lt32.cons (by omega) (Lt32.cons (by omega) (Lt32.cons (by omega)
      (Lt32.append (Lt32.flatMap _ _ ?_) (Lt32.cons (by omega) Lt32.nil)))))
    intro s' hs'
    obtain ⟨_, _, h3⟩ := mem_strings' cplx col s' hs'
    have hf := hfit rfl
    unfold stringsFit at hf
    have := (List.all_eq_true.1 hf) s' hs'
    simp only [fitsI32, decide_eq_true_eq] at this
    simp only [nonbigStringWords]
    exact Lt32.cons (by omega) (valWords_lt e cplx _ fun x hx => h64 x (h3 x hx))

theorem recsOf_lt32 (e : Endian) (lay : Layout) (cplx : Bool) (ncols rows : Nat) (hn : ncols + 1 < 2147483648)
    (hrows : rows < 134217728) :
    ∀ (cols : List (List Entry)) (c : Nat), c + cols.length ≤ ncols → (∀ col ∈ cols, col.length = rows) →
      (∀ col ∈ cols, ∀ x ∈ col, Entry.Is64 x) → (lay = .nonbigmat → cols.all (stringsFit cplx) = true) →
      Lt32 ((recsOf e lay cplx c cols).flatMap Rec.words) := by
  intro cols
  induction cols with
  | nil => intro c _ _ _ _; simp [recsOf]; exact Lt32.nil
  | cons col t ih =>
    intro c hc hl h64 hfit
    have iht := ih (c + 1) (by simp at hc ⊢; omega) (fun x hx => hl x (List.mem_cons_of_mem _ hx))
      (fun x hx => h64 x (List.mem_cons_of_mem _ hx))
      (fun hh => by have := hfit hh; simp only [List.all_cons, Bool.and_eq_true] at this; exact this.2)
    unfold recsOf
    split
    · exact iht
    · next s tl h =>
      simp only [List.flatMap_cons]
      apply Lt32.append _ iht
      apply recOf_lt32 e lay cplx c col s tl h (by simp at hc; omega)
        (by rw [hl col List.mem_cons_self]; exact hrows) (h64 col List.mem_cons_self)
      intro hh
      have := hfit hh
      simp only [List.all_cons, Bool.and_eq_true] at this
      exact this.1

/-- what the byte-level theorem asks of a matrix: the sizes of `Mat.Wf` with `rows < 2^27` (so that
record lengths are 32-bit words), a valid name, elements that are 64-bit patterns -/
structure Mat.WfB (m : Mat) : Prop where
  wf : m.Wf
  rows_lt : m.rows < 134217728
  name_ident : isIdent m.name = true
  name_len : m.name.length ≤ 8
  is64 : ∀ col ∈ m.cols, ∀ x ∈ col, Entry.Is64 x

theorem wordsOfBytes_lt (e : Endian) : ∀ (bs : List Nat), (∀ b ∈ bs, b < 256) → Lt32 (wordsOfBytes e bs)
  | a :: b :: c :: d :: t, hb => by
    simp only [wordsOfBytes]
    exact Lt32.cons (bytesWord_lt e a b c d (hb a (by simp)) (hb b (by simp)) (hb c (by simp)) (hb d (by simp)))
      (wordsOfBytes_lt e t fun x hx => hb x (by simp [hx]))
  | [], _ => Lt32.nil
  | [_], _ => Lt32.nil
  | [_, _], _ => Lt32.nil
  | [_, _, _], _ => Lt32.nil

theorem i32_lt (n : Int) : i32 n < 4294967296 := by
  unfold i32; omega

theorem encMatWords_lt32 (e : Endian) (lay : Layout) (m : Mat) (ws : List Nat) (hwf : m.WfB)
    (henc : encMatWords e lay m = some ws) : Lt32 ws := by
  rw [encMatWords_eq e lay m ws henc]
  have hn := hwf.wf.ncols_lt
  have hform := hwf.wf.form_lt
  have hfit : lay = .nonbigmat → m.cols.all (stringsFit m.cplx) = true := by
    intro hh
    subst hh
    simp only [encMatWords] at henc
    split at henc
    · assumption
    · cases henc
  apply Lt32.append
  · simp only [headerWords, hdrReclen]
    have hmt : mtypeOf m.cplx < 4294967296 := by cases m.cplx <;> simp [mtypeOf]
    exact Lt32.append (Lt32.append
      (Lt32.cons (by omega) (Lt32.cons (by omega) (Lt32.cons (i32_lt _) (Lt32.cons (by omega) (Lt32.cons hmt Lt32.nil)))))
      (wordsOfBytes_lt e _ (nameField_lt m.name hwf.wf.name_lt)))
      (Lt32.cons (by omega) Lt32.nil)
  · apply Lt32.append
    · exact recsOf_lt32 e lay m.cplx m.cols.length m.rows hn hwf.rows_lt m.cols 0 (by omega) hwf.wf.cols_len
        hwf.is64 hfit
    · simp only [trailerWords]
      exact Lt32.append (Lt32.append
        (Lt32.cons (by omega) (Lt32.cons (by omega) (Lt32.cons (by omega) (Lt32.cons (by omega) Lt32.nil))))
        (dWords_lt e sqrt2Bits (by decide))) (Lt32.cons (by omega) Lt32.nil)

theorem encFileWords_lt32 (e : Endian) :
    ∀ (ms : List (Layout × Mat)) (ws : List Nat), (∀ p ∈ ms, p.2.WfB) → encFileWords e ms = some ws → Lt32 ws := by
  intro ms
  induction ms with
  | nil => intro ws _ h; simp only [encFileWords, Option.some.injEq] at h; subst h; exact Lt32.nil
  | cons p t ih =>
    intro ws hall h
    obtain ⟨lay, m⟩ := p
    simp only [encFileWords] at h
    cases ha : encMatWords e lay m with
    | none => simp [ha] at h
    | some a =>
      cases hb : encFileWords e t with
      | none => simp [ha, hb] at h
      | some b =>
        simp only [ha, hb, Option.bind_eq_bind, Option.bind_some, Option.some.injEq] at h
        subst h
        exact Lt32.append (encMatWords_lt32 e lay m a (hall (lay, m) List.mem_cons_self) ha)
          (ih b (fun q hq => hall q (List.mem_cons_of_mem _ hq)) hb)

/-- `_decode_format` finds the byte order of a written file (its first word is the record length 24) -/
theorem decodeFormat_enc (e : Endian) (ws : List Nat) : decodeFormat (bytesOfWords e (24 :: ws)) = some e := by
  cases e <;> simp [bytesOfWords, wordBytes, decodeFormat, bytesWord]

/-- the matrices as the dense list read returns them: lower-case name, shape, form, type, the
columns `decCol` (`decCol_spec`) -/
def canonFile (ms : List (Layout × Mat)) : List RMat :=
  ms.map fun p => { name := p.2.name.map lowerB, rows := p.2.rows, cols := p.2.cols.length, form := (p.2.form : Int),
                    mtype := (mtypeOf p.2.cplx : Int), data := p.2.cols.map (decCol p.1 p.2.cplx) }

theorem toRMats_decs : ∀ (ms : List (Layout × Mat)) (ds : List Dec) (i : Nat), DecsOf ms ds →
    (∀ p ∈ ms, isIdent p.2.name = true ∧ p.2.name.length ≤ 8) → toRMats i ds = some (canonFile ms) := by
  intro ms ds i h
  induction h generalizing i with
  | nil => intro _; rfl
  | @cons p d ps ds hd _ ih =>
    intro hn
    obtain ⟨h1, h2, h3, h4, h5, h6⟩ := hd
    obtain ⟨hid, hlen⟩ := hn p List.mem_cons_self
    have hrows : d.rows.natAbs = p.2.rows := by rw [h2]; split <;> simp
    have hcols : d.cols.toNat = p.2.cols.length := by rw [h3]; simp
    simp only [toRMats, hrows, hcols, h6, ih (i + 1) (fun q hq => hn q (List.mem_cons_of_mem _ hq)), h1,
      checkName_nameField i p.2.name hid hlen, h4, h5, canonFile, List.map_cons]

end PyYetiVerif.Op4
