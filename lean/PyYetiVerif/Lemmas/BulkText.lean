import PyYetiVerif.Lemmas.Bulk
/-! Character-level helper lemmas for C13 (core Lean only): the integer field codec
`parse (format n) = n`, white-space stripping, fixed-field slicing of a written line, and the
stepping equations of the `rdcards` model. -/
namespace PyYetiVerif.Bulk

theorem dec_nonneg {n : Int} (h : 0 ≤ n) : dec n = Nat.toDigits 10 n.toNat := by
  simp [dec, Int.repr_eq_if, h]

theorem dec_neg {n : Int} (h : n < 0) : dec n = '-' :: Nat.toDigits 10 (-n).toNat := by
  have : ¬ 0 ≤ n := by omega
  simp [dec, Int.repr_eq_if, this]

theorem digitsVal_toDigits (n : Nat) : digitsVal (Nat.toDigits 10 n) = n := by
  have := @Nat.ofDigitChars_ten_toDigits n
  simpa [Nat.ofDigitChars, digitsVal] using this

theorem isDigit_toDigits (n : Nat) : ∀ c ∈ Nat.toDigits 10 n, c.isDigit = true :=
  fun c hc => Nat.isDigit_of_mem_toDigits (by decide) (by decide) hc

theorem isSp_of_isDigit {c : Char} (h : c.isDigit = true) : isSp c = false := by
  simp only [isSp, Bool.or_eq_false_iff, decide_eq_false_iff_not]
  refine ⟨⟨⟨⟨⟨?_, ?_⟩, ?_⟩, ?_⟩, ?_⟩, ?_⟩ <;> (intro e; subst e; exact absurd h (by decide))

/-- first and last character (if any) are not white space -/
def Edge (t : Txt) : Prop :=
  (∀ c, t.head? = some c → isSp c = false) ∧ (∀ c, t.getLast? = some c → isSp c = false)

theorem dropWhile_blanks_append (k : Nat) (t : Txt) : (blanks k ++ t).dropWhile isSp = t.dropWhile isSp := by
  induction k with
  | zero => simp [blanks]
  | succ k ih =>
      have : blanks (k + 1) = ' ' :: blanks k := by simp [blanks, List.replicate_succ]
      rw [this, List.cons_append, List.dropWhile_cons]
      simpa [isSp] using ih

theorem getLast?_append_ne {α : Type} {l l' : List α} (h : l' ≠ []) : (l ++ l').getLast? = l'.getLast? := by
  rw [List.getLast?_append]
  cases hl : l'.getLast? with
  | none => exact absurd (List.getLast?_eq_none_iff.mp hl) h
  | some x => rfl

theorem lstrip_edge {t : Txt} (h : ∀ c, t.head? = some c → isSp c = false) : lstrip t = t := by
  cases t with
  | nil => rfl
  | cons c r => simp [lstrip, h c rfl]

theorem rstrip_edge {t : Txt} (h : ∀ c, t.getLast? = some c → isSp c = false) : rstrip t = t := by
  unfold rstrip
  have : ∀ c, t.reverse.head? = some c → isSp c = false := by
    intro c hc; apply h; simpa using hc
  have e := lstrip_edge this
  unfold lstrip at e
  rw [e, List.reverse_reverse]

theorem blanks_reverse (k : Nat) : (blanks k).reverse = blanks k := by simp [blanks]

theorem rstrip_append_blanks (t : Txt) (k : Nat) : rstrip (t ++ blanks k) = rstrip t := by
  unfold rstrip
  rw [List.reverse_append, blanks_reverse, dropWhile_blanks_append]

theorem strip_pad (a b : Nat) {t : Txt} (h : Edge t) : strip (blanks a ++ t ++ blanks b) = t := by
  unfold strip
  rw [rstrip_append_blanks]
  by_cases ht : t = []
  · subst ht
    have : rstrip (blanks a ++ []) = [] := by
      have := rstrip_append_blanks [] a
      simpa [rstrip] using this
    rw [this]; rfl
  · have hl : ∀ c, (blanks a ++ t).getLast? = some c → isSp c = false := by
      intro c hc
      rw [getLast?_append_ne ht] at hc
      exact h.2 c hc
    rw [rstrip_edge hl]
    unfold lstrip
    rw [dropWhile_blanks_append]
    exact lstrip_edge h.1


/-! ### integer fields -/

theorem dec_ne_nil (n : Int) : dec n ≠ [] := by
  by_cases h : 0 ≤ n
  · rw [dec_nonneg h]; exact Nat.toDigits_ne_nil
  · rw [dec_neg (by omega)]; simp

theorem dec_nonneg_digits {n : Int} (h : 0 ≤ n) : ∀ c ∈ dec n, c.isDigit = true := by
  rw [dec_nonneg h]; exact isDigit_toDigits _

theorem dec_noSp (n : Int) : ∀ c ∈ dec n, isSp c = false := by
  intro c hc
  by_cases h : 0 ≤ n
  · exact isSp_of_isDigit (dec_nonneg_digits h c hc)
  · rw [dec_neg (by omega)] at hc
    rcases List.mem_cons.mp hc with rfl | hc
    · decide
    · exact isSp_of_isDigit (isDigit_toDigits _ c hc)

theorem edge_of_noSp {t : Txt} (h : ∀ c ∈ t, isSp c = false) : Edge t :=
  ⟨fun c hc => h c (List.mem_of_mem_head? hc), fun c hc => h c (List.mem_of_getLast? hc)⟩

theorem dec_edge (n : Int) : Edge (dec n) := edge_of_noSp (dec_noSp n)

theorem parseInt_dec (n : Int) : parseInt (dec n) = some n := by
  have hs : strip (dec n) = dec n := by simpa [blanks] using strip_pad 0 0 (dec_edge n)
  unfold parseInt
  rw [hs]
  by_cases h : 0 ≤ n
  · rw [dec_nonneg h]
    have hd := isDigit_toDigits n.toNat
    have hne : Nat.toDigits 10 n.toNat ≠ [] := Nat.toDigits_ne_nil
    cases hq : Nat.toDigits 10 n.toNat with
    | nil => exact absurd hq hne
    | cons c r =>
        have hc : c.isDigit = true := hd c (by simp [hq])
        have h1 : c ≠ '-' := by intro e; subst e; exact absurd hc (by decide)
        have h2 : c ≠ '+' := by intro e; subst e; exact absurd hc (by decide)
        have hsp : splitSign (c :: r) = (false, c :: r) := by
          unfold splitSign; split
          · rename_i heq; simp at heq; exact absurd heq.1 h1
          · rename_i heq; simp at heq; exact absurd heq.1 h2
          · rfl
        have hall : (c :: r).all Char.isDigit = true := by
          rw [List.all_eq_true]; intro x hx; exact hd x (by simpa [hq] using hx)
        simp only [hsp, List.isEmpty_cons, hall, Bool.not_true, Bool.or_self, Bool.false_eq_true, if_false]
        rw [← hq, digitsVal_toDigits]
        simp [Int.toNat_of_nonneg h]
  · have hn : n < 0 := by omega
    rw [dec_neg hn]
    have hd := isDigit_toDigits (-n).toNat
    have hne : Nat.toDigits 10 (-n).toNat ≠ [] := Nat.toDigits_ne_nil
    have hall : (Nat.toDigits 10 (-n).toNat).all Char.isDigit = true := by
      rw [List.all_eq_true]; exact hd
    have hemp : (Nat.toDigits 10 (-n).toNat).isEmpty = false := by
      cases hq : Nat.toDigits 10 (-n).toNat with
      | nil => exact absurd hq hne
      | cons => rfl
    simp only [splitSign, hemp, hall, Bool.not_true, Bool.or_self, Bool.false_eq_true, if_false, if_true]
    rw [digitsVal_toDigits]
    simp; omega

theorem parseInt_pad (a b : Nat) (n : Int) : parseInt (blanks a ++ dec n ++ blanks b) = some n := by
  have h1 : strip (blanks a ++ dec n ++ blanks b) = dec n := strip_pad a b (dec_edge n)
  have h2 : strip (dec n) = dec n := by simpa [blanks] using strip_pad 0 0 (dec_edge n)
  have := parseInt_dec n
  unfold parseInt at this ⊢
  rw [h1]; rw [h2] at this; exact this

theorem nasScan_pad (a b : Nat) (n : Int) : nasScan (blanks a ++ dec n ++ blanks b) = .int n := by
  unfold nasScan; rw [parseInt_pad]

theorem nasScan_padL (w : Nat) (n : Int) : nasScan (padL w (dec n)) = .int n := by
  simpa [padL, blanks] using nasScan_pad (w - (dec n).length) 0 n

theorem nasScan_blanks (k : Nat) : nasScan (blanks k) = .blank := by
  have hs : strip (blanks k) = [] := by simpa [blanks] using strip_pad k 0 (t := []) ⟨by simp, by simp⟩
  unfold nasScan parseInt parseFloat
  simp [hs, splitSign]

/-! ### fixed-field lines -/

/-- last character (if any) is not white space -/
def LastSolid (t : Txt) : Prop := ∀ c, t.getLast? = some c → isSp c = false

theorem takeWhile_all {α : Type} (p : α → Bool) (l : List α) (h : ∀ x ∈ l, p x = true) : l.takeWhile p = l := by
  induction l with
  | nil => rfl
  | cons a r ih => simp [h a (by simp), ih (fun x hx => h x (by simp [hx]))]

theorem procLine_clean {s : Txt} (hd : '$' ∉ s) (hl : LastSolid s) : procLine s = s := by
  unfold procLine
  rw [takeWhile_all _ s (by intro c hc; simp; intro e; exact hd (e ▸ hc))]
  exact rstrip_edge hl

/-- a written line: within 72 columns, no `$`, not ending in white space -/
theorem fixedBody_clean (first : Bool) {s : Txt} (h72 : s.length ≤ 72) (hd : '$' ∉ s) (hl : LastSolid s) :
    fixedBody first s = s.drop 8 := by
  unfold fixedBody
  simp only [List.take_of_length_le h72, procLine_clean hd hl, rstrip_edge hl]
  cases first <;> simp [padR, blanks]

/-- the same line followed by blank columns (`{:>8}` of an empty string) -/
theorem fixedBody_blanks (first : Bool) {s : Txt} (k : Nat) (h72 : (s ++ blanks k).length ≤ 72) (hd : '$' ∉ s)
    (hl : LastSolid s) : fixedBody first (s ++ blanks k) = s.drop 8 := by
  unfold fixedBody
  have hd' : '$' ∉ s ++ blanks k := by
    intro h; rcases List.mem_append.mp h with h | h
    · exact hd h
    · simp [blanks] at h
  have hp : procLine (s ++ blanks k) = s := by
    unfold procLine
    rw [takeWhile_all _ _ (by intro c hc; simp; intro e; exact hd' (e ▸ hc)), rstrip_append_blanks]
    exact rstrip_edge hl
  simp only [List.take_of_length_le h72, hp, rstrip_append_blanks, rstrip_edge hl]
  cases first <;> simp [padR, blanks]

theorem chunks_nil {α : Type} (k : Nat) : chunks k ([] : List α) = [] := by
  unfold chunks; simp

theorem chunks_uniform' (w : Nat) (hw : 0 < w) (fs : List Txt) (h : ∀ f ∈ fs, f.length = w) :
    chunks w fs.flatten = fs := by
  rcases List.eq_nil_or_concat fs with rfl | ⟨r, f, rfl⟩
  · simp [chunks_nil]
  · have hf := h f (by simp)
    have := chunks_uniform w hw f ⟨by omega, by omega⟩ r (fun x hx => h x (by simp [hx]))
    simpa using this

/-- an 8-column lead followed by equal-width fields slices back into those fields -/
theorem lineFields_fixed (m : Mode) (hm : m ≠ .comma) (first : Bool) (lead : Txt) (hlead : lead.length = 8)
    (fs : List Txt) (w : Nat) (hw : w = (if m = .f16 then 16 else 8)) (h : ∀ f ∈ fs, f.length = w)
    (h72 : (lead ++ fs.flatten).length ≤ 72) (hd : '$' ∉ lead ++ fs.flatten) (hl : LastSolid (lead ++ fs.flatten)) :
    lineFields m first (lead ++ fs.flatten) = fs.map nasScan := by
  have hb := fixedBody_clean first h72 hd hl
  rw [← hlead, List.drop_left] at hb
  have hw0 : 0 < w := by rw [hw]; split <;> decide
  cases m with
  | comma => exact absurd rfl hm
  | f8 => simp only [lineFields, hb]; simp at hw; rw [← hw, chunks_uniform' w hw0 fs h]
  | f16 => simp only [lineFields, hb]; simp at hw; rw [← hw, chunks_uniform' w hw0 fs h]

/-- the same with a shorter last field (`ENDT`) -/
theorem lineFields_fixed_short (m : Mode) (hm : m ≠ .comma) (first : Bool) (lead : Txt) (hlead : lead.length = 8)
    (fs : List Txt) (last : Txt) (w : Nat) (hw : w = (if m = .f16 then 16 else 8)) (h : ∀ f ∈ fs, f.length = w)
    (hlast : 0 < last.length ∧ last.length ≤ w)
    (h72 : (lead ++ (fs.flatten ++ last)).length ≤ 72) (hd : '$' ∉ lead ++ (fs.flatten ++ last))
    (hl : LastSolid (lead ++ (fs.flatten ++ last))) :
    lineFields m first (lead ++ (fs.flatten ++ last)) = (fs ++ [last]).map nasScan := by
  have hb := fixedBody_clean first h72 hd hl
  rw [← hlead, List.drop_left] at hb
  have hw0 : 0 < w := by rw [hw]; split <;> decide
  cases m with
  | comma => exact absurd rfl hm
  | f8 => simp only [lineFields, hb]; simp at hw; rw [← hw, chunks_uniform w hw0 last hlast fs h]
  | f16 => simp only [lineFields, hb]; simp at hw; rw [← hw, chunks_uniform w hw0 last hlast fs h]

/-- … and followed by `k` blank columns, which the reader strips -/
theorem lineFields_fixed_blanks (m : Mode) (hm : m ≠ .comma) (first : Bool) (lead : Txt) (hlead : lead.length = 8)
    (fs : List Txt) (k : Nat) (w : Nat) (hw : w = (if m = .f16 then 16 else 8)) (h : ∀ f ∈ fs, f.length = w)
    (h72 : (lead ++ fs.flatten ++ blanks k).length ≤ 72) (hd : '$' ∉ lead ++ fs.flatten)
    (hl : LastSolid (lead ++ fs.flatten)) :
    lineFields m first (lead ++ fs.flatten ++ blanks k) = fs.map nasScan := by
  have hb := fixedBody_blanks first k h72 hd hl
  rw [← hlead, List.drop_left] at hb
  have hw0 : 0 < w := by rw [hw]; split <;> decide
  cases m with
  | comma => exact absurd rfl hm
  | f8 => simp only [lineFields, hb]; simp at hw; rw [← hw, chunks_uniform' w hw0 fs h]
  | f16 => simp only [lineFields, hb]; simp at hw; rw [← hw, chunks_uniform' w hw0 fs h]

/-! ### `rdcards` stepping -/

theorem spanCont_append (m : Mode) (cs rest : List Txt) (hc : ∀ l ∈ cs, isCont m l = true)
    (hr : ∀ l, rest.head? = some l → isCont m l = false) : spanCont m (cs ++ rest) = (cs, rest) := by
  induction cs with
  | nil =>
      cases rest with
      | nil => rfl
      | cons l r => simp [spanCont, hr l rfl]
  | cons c cs ih =>
      have := ih (fun l hl => hc l (by simp [hl]))
      simp [spanCont, hc c (by simp), this]

theorem rdcardsAux_skip (nm : Txt) (fuel : Nat) (l : Txt) (rest : List Txt) (h : startsWith nm (lower l) = false) :
    rdcardsAux nm (fuel + 1) (l :: rest) = rdcardsAux nm fuel rest := by
  simp [rdcardsAux, h]

theorem rdcardsAux_card (nm : Txt) (fuel : Nat) (l : Txt) (cs rest : List Txt)
    (hm : startsWith nm (lower l) = true) (hc : ∀ x ∈ cs, isCont (modeOf l) x = true)
    (hr : ∀ x, rest.head? = some x → isCont (modeOf l) x = false) :
    rdcardsAux nm (fuel + 1) (l :: (cs ++ rest)) =
      cardVals Val.blank (modeOf l).inc (lineFields (modeOf l) true l :: cs.map (lineFields (modeOf l) false)) ::
        rdcardsAux nm fuel rest := by
  simp [rdcardsAux, hm, spanCont_append (modeOf l) cs rest hc hr]

theorem rdcardsAux_nil (nm : Txt) (fuel : Nat) : rdcardsAux nm fuel [] = [] := by
  cases fuel <;> rfl

theorem lower_append (a b : Txt) : lower (a ++ b) = lower a ++ lower b := by simp [lower]

theorem startsWith_append (p r : Txt) : startsWith p (p ++ r) = true := by
  simp [startsWith]

theorem startsWith_head_ne {p s : Txt} {a b : Char} (hp : p.head? = some a) (hs : s.head? = some b) (h : a ≠ b) :
    startsWith p s = false := by
  cases p with
  | nil => simp at hp
  | cons x xs =>
      cases s with
      | nil => simp [startsWith]
      | cons y ys =>
          simp at hp hs; subst hp; subst hs
          simp [startsWith, List.take_succ_cons]
          intro e; exact absurd e.symm h

theorem startsWith_nil_false {p : Txt} (hp : p ≠ []) : startsWith p [] = false := by
  cases p with
  | nil => exact absurd rfl hp
  | cons x xs => simp [startsWith]

/-! ### a written fixed-field line as the reader sees it -/

theorem lastSolid_append {a b : Txt} (hb : b ≠ []) (h : LastSolid b) : LastSolid (a ++ b) := by
  intro c hc
  rw [getLast?_append_ne hb] at hc
  exact h c hc

theorem mem_blanks {c : Char} {k : Nat} (h : c ∈ blanks k) : c = ' ' := by
  simp [blanks] at h; exact h.2

theorem mem_padL {c : Char} {w : Nat} {s : Txt} (h : c ∈ padL w s) : c = ' ' ∨ c ∈ s := by
  rcases List.mem_append.mp h with h | h
  · exact Or.inl (mem_blanks h)
  · exact Or.inr h

theorem dec_chars (n : Int) : ∀ c ∈ dec n, c.isDigit = true ∨ c = '-' := by
  intro c hc
  by_cases h : 0 ≤ n
  · exact Or.inl (dec_nonneg_digits h c hc)
  · rw [dec_neg (by omega)] at hc
    rcases List.mem_cons.mp hc with rfl | hc
    · exact Or.inr rfl
    · exact Or.inl (isDigit_toDigits _ c hc)

/-- a character that is no blank, digit or minus sign does not occur in a written integer field -/
theorem notin_padL_dec (c : Char) (h1 : c ≠ ' ') (h2 : c.isDigit = false) (h3 : c ≠ '-') (w : Nat) (n : Int) :
    c ∉ padL w (dec n) := by
  intro h
  rcases mem_padL h with h | h
  · exact h1 h
  · rcases dec_chars n c h with h | h
    · rw [h2] at h; exact absurd h (by decide)
    · exact h3 h

theorem lastSolid_padL_dec (w : Nat) (n : Int) : LastSolid (padL w (dec n)) :=
  lastSolid_append (dec_ne_nil n) (dec_edge n).2

/-- the data of one written physical line: an 8-column lead, fields of width `w` of which the last
does not end in white space, then `k` blank columns; no `$`, no comma, within 72 columns -/
structure FixedLine (w : Nat) (lead : Txt) (S : List Txt) (k : Nat) : Prop where
  lead8 : lead.length = 8
  width : ∀ f ∈ S, f.length = w
  nodollar : '$' ∉ lead ++ S.flatten
  nocomma : ',' ∉ lead ++ S.flatten
  solid : LastSolid (lead ++ S.flatten)
  len72 : 8 + w * S.length + k ≤ 72

theorem flatten_length_uniform (w : Nat) (S : List Txt) (h : ∀ f ∈ S, f.length = w) : S.flatten.length = w * S.length := by
  induction S with
  | nil => simp
  | cons f r ih =>
      have := ih (fun x hx => h x (by simp [hx]))
      have hf := h f (by simp)
      simp only [List.flatten_cons, List.length_append, List.length_cons, this, hf, Nat.mul_add]
      omega

theorem FixedLine.length_le {w : Nat} {lead : Txt} {S : List Txt} {k : Nat} (h : FixedLine w lead S k) :
    (lead ++ S.flatten ++ blanks k).length ≤ 72 := by
  have := flatten_length_uniform w S h.width
  have := h.len72
  have := h.lead8
  simp only [List.length_append, blanks_length]
  omega

theorem FixedLine.modeOf {w : Nat} {lead : Txt} {S : List Txt} {k : Nat} (h : FixedLine w lead S k) :
    modeOf (lead ++ S.flatten ++ blanks k) = if lead.contains '*' then .f16 else .f8 := by
  have hc : (lead ++ S.flatten ++ blanks k).contains ',' = false := by
    rw [List.contains_eq_mem]
    simp only [decide_eq_false_iff_not]
    intro hm
    rcases List.mem_append.mp hm with hm | hm
    · exact h.nocomma hm
    · exact absurd (mem_blanks hm) (by decide)
  unfold PyYetiVerif.Bulk.modeOf
  rw [hc, List.take_of_length_le h.length_le, rstrip_append_blanks, rstrip_edge h.solid]
  have : (lead ++ S.flatten).take 8 = lead := by rw [← h.lead8, List.take_left]
  simp [this]

theorem FixedLine.fields {w : Nat} {lead : Txt} {S : List Txt} {k : Nat} (h : FixedLine w lead S k)
    (m : Mode) (hm : m ≠ .comma) (hw : w = (if m = .f16 then 16 else 8)) (first : Bool) :
    lineFields m first (lead ++ S.flatten ++ blanks k) = S.map nasScan :=
  lineFields_fixed_blanks m hm first lead h.lead8 S k w hw h.width h.length_le h.nodollar h.solid

def FieldOK (w : Nat) (f : Txt) : Prop := f.length = w ∧ '$' ∉ f ∧ ',' ∉ f

/-- what the theorems ask of a formatted coordinate: exactly `w` columns, no `$`, no comma, not
ending in white space (`form.format(x)` with an 8- or 16-wide numeric format) -/
def CleanField (w : Nat) (f : Txt) : Prop := FieldOK w f ∧ LastSolid f

theorem fieldOK_padL_dec (w : Nat) (n : Int) (h : (dec n).length ≤ w) : FieldOK w (padL w (dec n)) :=
  ⟨padL_length h, notin_padL_dec '$' (by decide) (by decide) (by decide) w n,
    notin_padL_dec ',' (by decide) (by decide) (by decide) w n⟩

theorem fieldOK_blanks (w : Nat) : FieldOK w (blanks w) :=
  ⟨blanks_length w, fun h => absurd (mem_blanks h) (by decide), fun h => absurd (mem_blanks h) (by decide)⟩

theorem FixedLine.build (w : Nat) (lead : Txt) (S' : List Txt) (last : Txt) (k : Nat) (h8 : lead.length = 8)
    (hd : '$' ∉ lead) (hc : ',' ∉ lead) (hf : ∀ f ∈ S' ++ [last], FieldOK w f) (hne : last ≠ [])
    (hl : LastSolid last) (h72 : 8 + w * (S'.length + 1) + k ≤ 72) : FixedLine w lead (S' ++ [last]) k where
  lead8 := h8
  width := fun f hf' => (hf f hf').1
  nodollar := by
    intro h
    rcases List.mem_append.mp h with h | h
    · exact hd h
    · obtain ⟨f, hf', hm⟩ := List.mem_flatten.mp h
      exact (hf f hf').2.1 hm
  nocomma := by
    intro h
    rcases List.mem_append.mp h with h | h
    · exact hc h
    · obtain ⟨f, hf', hm⟩ := List.mem_flatten.mp h
      exact (hf f hf').2.2 hm
  solid := by
    have : lead ++ (S' ++ [last]).flatten = (lead ++ S'.flatten) ++ last := by simp
    rw [this]
    exact lastSolid_append hne hl
  len72 := by simpa using h72

theorem cleanField_ne_nil {w : Nat} (hw : 0 < w) {f : Txt} (h : CleanField w f) : f ≠ [] := by
  intro e; have := h.1.1; rw [e] at this; simp at this; omega

theorem chunks_eq {α : Type} (k : Nat) (l : List α) :
    chunks k l = if k = 0 ∨ l.length ≤ k then (if l.isEmpty then [] else [l]) else l.take k :: chunks k (l.drop k) := by
  rw [chunks]
  by_cases h : k = 0 ∨ l.length ≤ k <;> simp [h]

theorem isCont_G (m : Mode) (r : Txt) : isCont m ('G' :: r) = false := by
  cases m <;> simp [isCont, Mode.conchar]

end PyYetiVerif.Bulk
