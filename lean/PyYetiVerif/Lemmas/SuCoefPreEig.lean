import PyYetiVerif.Lemmas.SuCoefStatic
import PyYetiVerif.Lemmas.SuCoefDelconjReal
/-!
Helper lemmas for `pre_eig` (C01): the model's index-order sums as Mathlib matrix products, and the
derivative of a constant matrix times a curve.
-/
set_option linter.unusedSectionVars false
namespace PyYetiVerif.SuCoef
open Matrix

section field
variable {α : Type} [Field α] {n : ℕ}

theorem diagMat_eq (v : Fin n → α) : of (diagMat v) = diagonal v := by
  ext i j
  simp [diagMat, diagonal_apply]

/-- `self.phi.T @ force` -/
theorem peForce_eq (u : Fin n → Fin n → α) (f : Fin n → α) : peForce u f = (of u)ᵀ *ᵥ f := by
  funext i
  simp [peForce, dotFin_eq_sum, Matrix.mulVec, dotProduct]

/-- `self.phi @ x` -/
theorem peRecover_eq (u : Fin n → Fin n → α) (q : Fin n → α) : peRecover u q = of u *ᵥ q :=
  matVec_eq_mulVec u q

/-- the modal damping is the congruence `uᵀ B u`, for both forms of `b` -/
theorem preEigB_eq (u : Fin n → Fin n → α) (b : DiagOrFull α n) :
    of (preEigB u b) = (of u)ᵀ * of (fullOf b) * of u := by
  ext i j
  cases b with
  | vec b =>
    simp only [preEigB, fullOf, of_apply, dotFin_eq_sum, Matrix.mul_apply, transpose_apply, diagMat]
    refine Finset.sum_congr rfl fun k _ => ?_
    congr 1
    rw [Finset.sum_eq_single k]
    · simp
    · intro l _ hl; simp [hl]
    · intro h; exact absurd (Finset.mem_univ k) h
  | mat B =>
    simp only [preEigB, fullOf, of_apply, dotFin_eq_sum, Matrix.mul_apply, transpose_apply]

end field

/-- a constant matrix times a differentiable curve -/
theorem hasDerivAt_const_mulVec {n : ℕ} (A : Matrix (Fin n) (Fin n) ℝ) (x : ℝ → Fin n → ℝ)
    (x' : Fin n → ℝ) (t : ℝ) (h : HasDerivAt x x' t) : HasDerivAt (fun t => A *ᵥ x t) (A *ᵥ x') t := by
  rw [hasDerivAt_pi] at h ⊢
  intro i
  simp only [Matrix.mulVec, dotProduct]
  exact HasDerivAt.fun_sum fun k _ => (h k).const_mul (A i k)

end PyYetiVerif.SuCoef
