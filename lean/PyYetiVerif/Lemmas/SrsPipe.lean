import PyYetiVerif.Lemmas.Srs
import Mathlib.Order.Lattice
import Mathlib.Algebra.Order.Ring.Abs
/-! Helper lemmas for C03, second part: the closed form solves the ODE; `lfilter` is linear and
causal; the peak selectors over `ℝ`; window lengths of the `srs` pipeline model. -/
set_option linter.unusedVariables false
set_option linter.unusedSimpArgs false
namespace PyYetiVerif.Srs

/-! ### the closed form solves the oscillator equation -/

theorem exact_solves_ode' (o : Osc ℝ) (hw : o.wn ≠ 0) (hh : o.dT ≠ 0) (hd : o.wd ≠ 0)
    (hwd : o.wd * o.wd = o.wn * o.wn * (1 - o.zeta * o.zeta)) (u0 v0 x0 x1 t : ℝ) :
    HasDerivAt (fun τ => o.uAt u0 v0 x0 x1 τ) (o.vAt u0 v0 x0 x1 t) t ∧
    (∃ a, HasDerivAt (fun τ => o.vAt u0 v0 x0 x1 τ) a t ∧
      a + 2 * (o.zeta * o.wn) * o.vAt u0 v0 x0 x1 t + o.wn * o.wn * o.uAt u0 v0 x0 x1 t
        = -(x0 + (x1 - x0) * t / o.dT)) ∧
    o.uAt u0 v0 x0 x1 0 = u0 ∧ o.vAt u0 v0 x0 x1 0 = v0 := by
  obtain ⟨z, w, h⟩ := o
  simp only at hw hh
  generalize hwd' : (Osc.mk z w h).wd = wd at *
  have hE : HasDerivAt (fun τ : ℝ => Real.exp (-z * w * τ))
      (Real.exp (-z * w * t) * (-z * w)) t := by
    have := ((hasDerivAt_id t).const_mul (-z * w)).exp
    simpa using this
  have hc : HasDerivAt (fun τ : ℝ => Real.cos (τ * wd)) (-Real.sin (t * wd) * wd) t := by
    have := ((hasDerivAt_id t).mul_const wd).cos
    simpa using this
  have hs : HasDerivAt (fun τ : ℝ => Real.sin (τ * wd)) (Real.cos (t * wd) * wd) t := by
    have := ((hasDerivAt_id t).mul_const wd).sin
    simpa using this
  have hlin : ∀ k : ℝ, HasDerivAt (fun τ : ℝ => k * τ) k t := fun k => by
    simpa using (hasDerivAt_id t).const_mul k
  refine ⟨?_, ?_, ?_, ?_⟩
  · simp only [Osc.uAt, Osc.vAt, exp_real, cos_real, sin_real, hwd']
    have := ((hE.mul ((hc.const_mul ((Osc.mk z w h).k1 u0 x0 x1)).add
        (hs.const_mul ((Osc.mk z w h).k2 u0 v0 x0 x1)))).add_const ((Osc.mk z w h).al x0 x1)).add
        (hlin ((Osc.mk z w h).be x0 x1))
    simp only [Pi.add_def, Pi.mul_def, Pi.sub_def] at this
    exact this.congr_deriv (by ring)
  · refine ⟨Real.exp (-z * w * t) * (-z * w) *
        ((wd * (Osc.mk z w h).k2 u0 v0 x0 x1 - z * w * (Osc.mk z w h).k1 u0 x0 x1) * Real.cos (t * wd)
          - (z * w * (Osc.mk z w h).k2 u0 v0 x0 x1 + wd * (Osc.mk z w h).k1 u0 x0 x1) * Real.sin (t * wd))
        + Real.exp (-z * w * t) *
          ((wd * (Osc.mk z w h).k2 u0 v0 x0 x1 - z * w * (Osc.mk z w h).k1 u0 x0 x1)
              * (-Real.sin (t * wd) * wd)
            - (z * w * (Osc.mk z w h).k2 u0 v0 x0 x1 + wd * (Osc.mk z w h).k1 u0 x0 x1)
              * (Real.cos (t * wd) * wd)), ?_, ?_⟩
    · simp only [Osc.vAt, exp_real, cos_real, sin_real, hwd']
      have := (hE.mul ((hc.const_mul (wd * (Osc.mk z w h).k2 u0 v0 x0 x1
            - z * w * (Osc.mk z w h).k1 u0 x0 x1)).sub
          (hs.const_mul (z * w * (Osc.mk z w h).k2 u0 v0 x0 x1
            + wd * (Osc.mk z w h).k1 u0 x0 x1)))).add_const ((Osc.mk z w h).be x0 x1)
      simp only [Pi.add_def, Pi.mul_def, Pi.sub_def] at this
      exact this.congr_deriv (by ring)
    · simp only [Osc.uAt, Osc.vAt, Osc.k1, Osc.k2, Osc.al, Osc.be, exp_real, cos_real, sin_real, hwd']
      generalize Real.exp (-z * w * t) = E
      generalize Real.cos (t * wd) = c
      generalize Real.sin (t * wd) = s
      linear_combination (norm := (field_simp; ring))
        (-E*(c*h*u0*w^3*wd + c*h*w*wd*x0 + 2*c*wd*x0*z - 2*c*wd*x1*z + h*s*u0*w^4*z + h*s*v0*w^3
          + h*s*w^2*x0*z + 2*s*w*x0*z^2 - s*w*x0 - 2*s*w*x1*z^2 + s*w*x1)/(h*w^3*wd)) * hwd
  · simp only [Osc.uAt, Osc.k1, exp_real, cos_real, sin_real, hwd']
    simp
  · simp only [Osc.vAt, Osc.k1, Osc.k2, exp_real, cos_real, sin_real, hwd']
    simp
    field_simp
    ring

/-! ### lfilter: length, linearity, causality -/

theorem lfilterAux_length (b0 b1 b2 a1 a2 : ℝ) (xs : List ℝ) : ∀ z0 z1,
    (lfilterAux b0 b1 b2 a1 a2 z0 z1 xs).length = xs.length := by
  induction xs with
  | nil => intros; rfl
  | cons x xs ih => intro z0 z1; simp [lfilterAux, ih]

theorem lfilter_length (c : Coef ℝ) (xs : List ℝ) : (lfilter c xs).length = xs.length :=
  lfilterAux_length _ _ _ _ _ xs 0 0

theorem lfilterAux_scale (b0 b1 b2 a1 a2 k : ℝ) (xs : List ℝ) : ∀ z0 z1 z0' z1' : ℝ,
    z0' = k * z0 → z1' = k * z1 →
    lfilterAux b0 b1 b2 a1 a2 z0' z1' (xs.map (k * ·))
      = (lfilterAux b0 b1 b2 a1 a2 z0 z1 xs).map (k * ·) := by
  induction xs with
  | nil => intros; rfl
  | cons x xs ih =>
    intro z0 z1 z0' z1' h0 h1
    simp only [List.map_cons, lfilterAux]
    congr 1
    · subst h0; ring
    · apply ih <;> subst h0 <;> subst h1 <;> ring

theorem lfilter_scale' (c : Coef ℝ) (k : ℝ) (xs : List ℝ) :
    lfilter c (xs.map (k * ·)) = (lfilter c xs).map (k * ·) :=
  lfilterAux_scale _ _ _ _ _ k xs 0 0 0 0 (by ring) (by ring)

theorem lfilterAux_add (b0 b1 b2 a1 a2 : ℝ) (xs : List ℝ) : ∀ (ys : List ℝ) (z0 z1 w0 w1 s0 s1 : ℝ),
    xs.length = ys.length → s0 = z0 + w0 → s1 = z1 + w1 →
    lfilterAux b0 b1 b2 a1 a2 s0 s1 (List.zipWith (· + ·) xs ys)
      = List.zipWith (· + ·) (lfilterAux b0 b1 b2 a1 a2 z0 z1 xs)
          (lfilterAux b0 b1 b2 a1 a2 w0 w1 ys) := by
  induction xs with
  | nil => intro ys; cases ys <;> intros <;> simp_all [lfilterAux]
  | cons x xs ih =>
    intro ys z0 z1 w0 w1 s0 s1 hl h0 h1
    cases ys with
    | nil => simp at hl
    | cons y ys =>
      simp only [List.zipWith_cons_cons, lfilterAux]
      congr 1
      · subst h0; ring
      · apply ih
        · simpa using hl
        · subst h0; subst h1; ring
        · subst h0; ring

theorem lfilter_add' (c : Coef ℝ) (xs ys : List ℝ) (hl : xs.length = ys.length) :
    lfilter c (List.zipWith (· + ·) xs ys) = List.zipWith (· + ·) (lfilter c xs) (lfilter c ys) :=
  lfilterAux_add _ _ _ _ _ xs ys 0 0 0 0 0 0 hl (by ring) (by ring)

theorem lfilterAux_append_take (b0 b1 b2 a1 a2 : ℝ) (xs ys : List ℝ) : ∀ z0 z1,
    (lfilterAux b0 b1 b2 a1 a2 z0 z1 (xs ++ ys)).take xs.length
      = lfilterAux b0 b1 b2 a1 a2 z0 z1 xs := by
  induction xs with
  | nil => intros; simp [lfilterAux]
  | cons x xs ih => intro z0 z1; simp [lfilterAux, ih]

theorem lfilter_append_take' (c : Coef ℝ) (xs ys : List ℝ) :
    (lfilter c (xs ++ ys)).take xs.length = lfilter c xs :=
  lfilterAux_append_take _ _ _ _ _ xs ys 0 0

/-! ### peak selectors over ℝ -/

theorem absv_eq_abs (x : ℝ) : absv x = |x| := by
  unfold absv
  split_ifs with h
  · exact (abs_of_neg h).symm
  · exact (abs_of_nonneg (not_lt.mp h)).symm

theorem ite_max (m v : ℝ) : (if m < v then v else m) = max m v := by
  split_ifs with h
  · exact (max_eq_right h.le).symm
  · exact (max_eq_left (not_lt.mp h)).symm

theorem ite_min (m v : ℝ) : (if v < m then v else m) = min m v := by
  split_ifs with h
  · exact (min_eq_right h.le).symm
  · exact (min_eq_left (not_lt.mp h)).symm

theorem abs_fold (xs : List ℝ) : ∀ a M m : ℝ, m ≤ M → a = max |M| |m| →
    maxOf a (xs.map absv) = max |maxOf M xs| |minOf m xs| := by
  induction xs with
  | nil => intro a M m _ ha; simpa [maxOf, minOf] using ha
  | cons v xs ih =>
    intro a M m hmM ha
    simp only [maxOf, minOf, List.map_cons, List.foldl_cons] at ih ⊢
    apply ih
    · rw [ite_max, ite_min]
      exact le_trans (min_le_left _ _) (le_trans hmM (le_max_left _ _))
    · rw [ite_max, ite_max, ite_min, absv_eq_abs, ha]
      rcases le_total v m with h1 | h1
      · have h2 : v ≤ M := le_trans h1 hmM
        rw [max_eq_left h2, min_eq_right h1]
        have := abs_le_max_abs_abs h1 hmM
        apply le_antisymm
        · refine max_le (max_le (le_max_left _ _) ?_) (le_max_right _ _)
          rwa [max_comm] at this
        · exact max_le (le_trans (le_max_left _ _) (le_max_left _ _)) (le_max_right _ _)
      · rcases le_total v M with h2 | h2
        · rw [max_eq_left h2, min_eq_left h1]
          have := abs_le_max_abs_abs h1 h2
          apply le_antisymm
          · refine max_le le_rfl ?_
            rwa [max_comm] at this
          · exact le_max_left _ _
        · rw [max_eq_right h2, min_eq_left h1]
          have := abs_le_max_abs_abs hmM h2
          apply le_antisymm
          · refine max_le (max_le ?_ (le_max_right _ _)) (le_max_left _ _)
            rwa [max_comm] at this
          · exact max_le (le_max_right _ _) (le_trans (le_max_right _ _) (le_max_left _ _))

theorem abs_sel_eq (x : ℝ) (xs : List ℝ) :
    Peak.abs.sel x xs = max (Peak.pos.sel x xs) (Peak.neg.sel x xs) := by
  simp only [Peak.sel, absv_eq_abs]
  exact abs_fold xs |x| x x le_rfl (max_self _).symm

theorem le_maxOf (xs : List ℝ) : ∀ x : ℝ, x ≤ maxOf x xs := by
  induction xs with
  | nil => intro x; simp [maxOf]
  | cons v xs ih =>
    intro x
    simp only [maxOf, List.foldl_cons] at ih ⊢
    rw [ite_max]
    exact le_trans (le_max_left _ _) (ih _)

theorem mem_le_maxOf (xs : List ℝ) : ∀ x v : ℝ, v ∈ xs → v ≤ maxOf x xs := by
  induction xs with
  | nil => intro x v hv; simp at hv
  | cons y xs ih =>
    intro x v hv
    simp only [maxOf, List.foldl_cons] at ih ⊢
    rw [ite_max]
    rcases List.mem_cons.mp hv with rfl | hv
    · exact le_trans (le_max_right _ _) (le_maxOf xs _)
    · exact ih _ v hv

theorem maxOf_le (xs : List ℝ) : ∀ x B : ℝ, x ≤ B → (∀ v ∈ xs, v ≤ B) → maxOf x xs ≤ B := by
  induction xs with
  | nil => intro x B hx _; simpa [maxOf] using hx
  | cons y xs ih =>
    intro x B hx hB
    simp only [maxOf, List.foldl_cons] at ih ⊢
    rw [ite_max]
    exact ih _ B (max_le hx (hB y List.mem_cons_self)) fun v hv => hB v (List.mem_cons_of_mem _ hv)

theorem absSel_ge (y : ℝ) (ys : List ℝ) (v : ℝ) (hv : v ∈ y :: ys) : |v| ≤ Peak.abs.sel y ys := by
  simp only [Peak.sel, absv_eq_abs]
  rcases List.mem_cons.mp hv with rfl | hv
  · exact le_maxOf _ _
  · apply mem_le_maxOf
    rw [← absv_eq_abs]
    exact List.mem_map_of_mem hv

theorem absSel_le (a : ℝ) (as : List ℝ) (B : ℝ) (h : ∀ v ∈ a :: as, |v| ≤ B) :
    Peak.abs.sel a as ≤ B := by
  simp only [Peak.sel, absv_eq_abs]
  apply maxOf_le
  · exact h a List.mem_cons_self
  · intro v hv
    obtain ⟨u, hu, rfl⟩ := List.mem_map.mp hv
    rw [absv_eq_abs]
    exact h u (List.mem_cons_of_mem _ hu)

theorem peak_total_ge' (l1 l2 : List ℝ) (y : ℝ) (ys : List ℝ) (h : l1 ++ l2 = y :: ys) :
    (∀ a as, l1 = a :: as → Peak.abs.sel a as ≤ Peak.abs.sel y ys) ∧
    (∀ a as, l2 = a :: as → Peak.abs.sel a as ≤ Peak.abs.sel y ys) := by
  constructor
  · intro a as h1
    apply absSel_le
    intro v hv
    apply absSel_ge
    rw [← h]
    exact List.mem_append_left _ (h1 ▸ hv)
  · intro a as h2
    apply absSel_le
    intro v hv
    apply absSel_ge
    rw [← h]
    exact List.mem_append_right _ (h2 ▸ hv)

/-! ### window lengths -/

theorem addBack_length (st : SType) (w : ℝ) (icv : Option ℝ) (resp : List ℝ) :
    (addBack st w icv resp).length = resp.length := by
  cases icv <;> cases st <;> simp [addBack]

theorem window_lengths' (o : Opts) (Q sr f s1 : ℝ) (freqs : List ℝ) (icv : Option ℝ) (sg : List ℝ)
    (r : List ℝ × ℝ) (h : srsTail o Q sr freqs f s1 icv sg = some r) :
    r.1.length = match o.time with
      | .primary => sg.length
      | .total => sg.length + nzeros sr freqs
      | .residual => nzeros sr freqs := by
  simp only [srsTail] at h
  split at h
  · exact absurd h (by simp)
  · rename_i y ys hwin
    have hlen : r.1.length = (y :: ys).length := by
      split at h <;> (cases h; try simp only [List.length_map]) <;> rw [hwin]
    rw [hlen, ← hwin]
    cases ht : o.time <;>
      simp [ht, lfilter_length, addBack_length, addOneCycle]


/-! ### vrs area weights = trapezoid rule + half an end cell at each end -/

theorem vrsInner_eq (rest : List (ℝ × ℝ)) : ∀ p c gc : ℝ,
    vrsInner p c gc rest = (c - p) / 2 * gc + trapz ((c, gc) :: rest) + endHalf p c gc rest := by
  induction rest with
  | nil => intro p c gc; simp only [vrsInner, trapz, endHalf]; ring
  | cons x rest ih =>
    intro p c gc
    obtain ⟨n, gn⟩ := x
    simp only [vrsInner, trapz, endHalf]
    rw [ih c n gn]
    ring

theorem vrsSum_eq (f0 g0 f1 g1 : ℝ) (rest : List (ℝ × ℝ)) :
    vrsSum ((f0, g0) :: (f1, g1) :: rest)
      = some (trapz ((f0, g0) :: (f1, g1) :: rest) + (f1 - f0) / 2 * g0 + endHalf f0 f1 g1 rest) := by
  simp only [vrsSum, trapz]
  rw [vrsInner_eq]
  congr 1
  ring

end PyYetiVerif.Srs
