import PyYetiVerif.Model.OrderStats
import Mathlib.Algebra.Order.Field.Basic
import Mathlib.Algebra.Order.Archimedean.Basic
import Mathlib.Algebra.BigOperators.Intervals
import Mathlib.Data.Nat.Choose.Basic
import Mathlib.Order.Monotone.Basic
import Mathlib.Tactic.Ring
import Mathlib.Tactic.Linarith
/-!
Helper lemmas for C20 (order statistics): the binomial tail of `Model/OrderStats.lean` over any
linearly ordered field, its Pascal recurrence, monotonicity in `r`, `n` and `q`, and the
specifications of the three search loops (`rankGo`, `bracket`, `bisect`).
-/
set_option linter.unusedSectionVars false
namespace PyYetiVerif.OrderStats

theorem choose_eq (n k : ℕ) : choose n k = Nat.choose n k := by
  induction k with
  | zero => simp [choose]
  | succ k ih =>
    rw [choose, ih, ← Nat.choose_succ_right_eq]
    exact Nat.mul_div_cancel _ (Nat.succ_pos k)

section ring
variable {α : Type} [Field α]

theorem pmf_def (n k : ℕ) (q : α) :
    pmf n k q = (n.choose k : α) * q ^ k * (1 - q) ^ (n - k) := by
  simp [pmf, choose_eq]

theorem pmf_eq_zero {n k : ℕ} (h : n < k) (q : α) : pmf n k q = 0 := by
  simp [pmf_def, Nat.choose_eq_zero_of_lt h]

theorem pmf_zero_succ (n : ℕ) (q : α) : pmf (n + 1) 0 q = (1 - q) * pmf n 0 q := by
  simp [pmf_def, pow_succ]; ring

theorem pmf_succ_succ (n k : ℕ) (q : α) :
    pmf (n + 1) (k + 1) q = q * pmf n k q + (1 - q) * pmf n (k + 1) q := by
  simp only [pmf_def, Nat.choose_succ_succ, Nat.cast_add, Nat.add_sub_add_right]
  rcases Nat.lt_or_ge k n with h | h
  · obtain ⟨m, rfl⟩ : ∃ m, n = k + 1 + m := ⟨n - (k + 1), by omega⟩
    have e1 : k + 1 + m - k = m + 1 := by omega
    have e2 : k + 1 + m - (k + 1) = m := by omega
    rw [e1, e2]; ring
  · rw [Nat.choose_eq_zero_of_lt (by omega : n < k + 1)]
    simp only [Nat.cast_zero, add_zero, zero_mul, mul_zero]
    ring

theorem lower_zero (n : ℕ) (q : α) : lower n q 0 = 0 := rfl
theorem lower_succ (n r : ℕ) (q : α) : lower n q (r + 1) = lower n q r + pmf n r q := rfl

theorem lower_succ_succ (n r : ℕ) (q : α) :
    lower (n + 1) q (r + 1) = q * lower n q r + (1 - q) * lower n q (r + 1) := by
  induction r with
  | zero => simp [lower_succ, lower_zero, pmf_zero_succ]
  | succ r ih =>
    rw [lower_succ, ih, pmf_succ_succ, lower_succ n (r + 1), lower_succ n r]; ring

theorem lower_eq_sum (n r : ℕ) (q : α) :
    lower n q r = ∑ k ∈ Finset.range r, pmf n k q := by
  induction r with
  | zero => simp [lower_zero]
  | succ r ih => rw [lower_succ, ih, Finset.sum_range_succ]

/-- the binomial theorem in the form used here: the whole distribution sums to one. -/
theorem lower_full (n : ℕ) (q : α) : lower n q (n + 1) = 1 := by
  induction n with
  | zero => simp [lower_succ, lower_zero, pmf_def]
  | succ n ih =>
    rw [lower_succ_succ, lower_succ n (n + 1), ih, pmf_eq_zero (Nat.lt_succ_self n)]; ring

theorem lower_of_lt {n r : ℕ} (h : n < r) (q : α) : lower n q r = 1 := by
  induction r, (show n + 1 ≤ r from h) using Nat.le_induction with
  | base => exact lower_full n q
  | succ r hr ih => rw [lower_succ, ih (by omega), pmf_eq_zero (by omega)]; ring

theorem tail_zero (n : ℕ) (q : α) : tail n 0 q = 1 := by simp [tail, lower_zero]

theorem tail_of_lt {n r : ℕ} (h : n < r) (q : α) : tail n r q = 0 := by
  simp [tail, lower_of_lt h]

/-- Pascal recurrence of the upper tail. -/
theorem tail_succ_succ (n r : ℕ) (q : α) :
    tail (n + 1) (r + 1) q = q * tail n r q + (1 - q) * tail n (r + 1) q := by
  simp only [tail, lower_succ_succ]; ring

theorem tail_sub_succ (n r : ℕ) (q : α) : tail n r q - tail n (r + 1) q = pmf n r q := by
  simp only [tail, lower_succ]; ring

theorem tail_succ_sub (n r : ℕ) (q : α) :
    tail (n + 1) (r + 1) q - tail n (r + 1) q = q * pmf n r q := by
  rw [tail_succ_succ, ← tail_sub_succ]; ring

/-- the model's `1 - cdf(r-1)` is the textbook upper sum `Σ_{k=r}^{n} C(n,k) q^k (1-q)^{n-k}`. -/
theorem tail_eq_sum (n r : ℕ) (q : α) :
    tail n r q = ∑ k ∈ Finset.Ico r (n + 1), (n.choose k : α) * q ^ k * (1 - q) ^ (n - k) := by
  simp only [← pmf_def]
  rcases Nat.lt_or_ge n r with h | h
  · rw [tail_of_lt h, Finset.Ico_eq_empty (by omega), Finset.sum_empty]
  · have := Finset.sum_range_add_sum_Ico (fun k => pmf n k q) (show r ≤ n + 1 by omega)
    rw [← lower_eq_sum, ← lower_eq_sum, lower_full] at this
    rw [tail, ← this]; ring

end ring

section ordered
variable {α : Type} [Field α] [LinearOrder α] [IsStrictOrderedRing α]

theorem pmf_nonneg {q : α} (h0 : 0 ≤ q) (h1 : q ≤ 1) (n k : ℕ) : 0 ≤ pmf n k q := by
  rw [pmf_def]
  exact mul_nonneg (mul_nonneg (Nat.cast_nonneg _) (pow_nonneg h0 _))
    (pow_nonneg (sub_nonneg.2 h1) _)

theorem tail_succ_le {q : α} (h0 : 0 ≤ q) (h1 : q ≤ 1) (n r : ℕ) :
    tail n (r + 1) q ≤ tail n r q := by
  have := pmf_nonneg h0 h1 n r
  rw [← tail_sub_succ] at this; linarith

theorem tail_antitone {q : α} (h0 : 0 ≤ q) (h1 : q ≤ 1) (n : ℕ) :
    Antitone fun r => tail n r q :=
  antitone_nat_of_succ_le (tail_succ_le h0 h1 n)

theorem tail_le_succ_n {q : α} (h0 : 0 ≤ q) (h1 : q ≤ 1) (n r : ℕ) :
    tail n r q ≤ tail (n + 1) r q := by
  cases r with
  | zero => simp [tail_zero]
  | succ r =>
    have := mul_nonneg h0 (pmf_nonneg h0 h1 n r)
    rw [← tail_succ_sub] at this; linarith

theorem tail_monotone {q : α} (h0 : 0 ≤ q) (h1 : q ≤ 1) (r : ℕ) :
    Monotone fun n => tail n r q :=
  monotone_nat_of_le_succ fun n => tail_le_succ_n h0 h1 n r

theorem tail_le_one {q : α} (h0 : 0 ≤ q) (h1 : q ≤ 1) (n r : ℕ) : tail n r q ≤ 1 := by
  have := tail_antitone h0 h1 n (Nat.zero_le r)
  simpa [tail_zero] using this

theorem tail_nonneg {q : α} (h0 : 0 ≤ q) (h1 : q ≤ 1) (n r : ℕ) : 0 ≤ tail n r q := by
  have := tail_antitone h0 h1 n (Nat.le_add_right r (n + 1))
  simpa [tail_of_lt (show n < r + (n + 1) by omega)] using this

/-- more exceedance probability, more confidence. -/
theorem tail_mono_q {q q' : α} (h0 : 0 ≤ q) (hqq : q ≤ q') (h1 : q' ≤ 1) (n r : ℕ) :
    tail n r q ≤ tail n r q' := by
  induction n generalizing r with
  | zero =>
    cases r with
    | zero => simp [tail_zero]
    | succ r => simp [tail_of_lt (Nat.succ_pos r)]
  | succ n ih =>
    cases r with
    | zero => simp [tail_zero]
    | succ r =>
      rw [tail_succ_succ, tail_succ_succ]
      have hBA := tail_succ_le h0 (hqq.trans h1) n r
      have hA := ih r
      have hB := ih (r + 1)
      have e1 : q * (tail n r q - tail n (r + 1) q) ≤ q' * (tail n r q - tail n (r + 1) q) :=
        mul_le_mul_of_nonneg_right hqq (sub_nonneg.2 hBA)
      have e2 : q' * tail n r q ≤ q' * tail n r q' :=
        mul_le_mul_of_nonneg_left hA (h0.trans hqq)
      have e3 : (1 - q') * tail n (r + 1) q ≤ (1 - q') * tail n (r + 1) q' :=
        mul_le_mul_of_nonneg_left hB (sub_nonneg.2 h1)
      linarith

/-! ### the rank scan -/

theorem rankGo_succ (n : ℕ) (q c : α) (f k : ℕ) :
    rankGo n q c (f + 1) k (lower n q k) =
      if 1 - c ≤ lower n q (k + 1) then k else rankGo n q c f (k + 1) (lower n q (k + 1)) := by
  rw [rankGo]; rfl

theorem rankGo_spec (n : ℕ) (q c : α) (f k : ℕ) :
    k ≤ rankGo n q c f k (lower n q k) ∧ rankGo n q c f k (lower n q k) ≤ k + f ∧
    (∀ j, k ≤ j → j < rankGo n q c f k (lower n q k) → ¬ (1 - c ≤ lower n q (j + 1))) ∧
    (rankGo n q c f k (lower n q k) < k + f →
      1 - c ≤ lower n q (rankGo n q c f k (lower n q k) + 1)) := by
  induction f generalizing k with
  | zero => simp [rankGo]; intro j h1 h2; omega
  | succ f ih =>
    rw [rankGo_succ]
    by_cases h : 1 - c ≤ lower n q (k + 1)
    · rw [if_pos h]
      refine ⟨le_rfl, by omega, fun j h1 h2 => by omega, fun _ => h⟩
    · rw [if_neg h]
      obtain ⟨a, b, c', d⟩ := ih (k + 1)
      refine ⟨by omega, by omega, fun j h1 h2 => ?_, fun h3 => d (by omega)⟩
      rcases Nat.eq_or_lt_of_le h1 with rfl | h1'
      · exact h
      · exact c' j h1' h2

theorem rank_le (n : ℕ) (q c : α) : rank n q c ≤ n := by
  have := (rankGo_spec n q c n 0).2.1
  simpa [rank, lower_zero] using this

theorem rank_below {n : ℕ} {q c : α} {j : ℕ} (h : j < rank n q c) : c < tail n (j + 1) q := by
  have := (rankGo_spec n q c n 0).2.2.1 j (Nat.zero_le j) (by simpa [rank, lower_zero] using h)
  rw [tail]; rw [not_le] at this; linarith

theorem rank_at {n : ℕ} {q c : α} (hc : 0 ≤ c) : tail n (rank n q c + 1) q ≤ c := by
  rcases Nat.lt_or_ge (rank n q c) n with h | h
  · have := (rankGo_spec n q c n 0).2.2.2 (by simpa [rank, lower_zero] using h)
    have e : rankGo n q c n 0 (lower n q 0) = rank n q c := rfl
    rw [e] at this
    rw [tail]; linarith
  · rw [tail_of_lt (by omega)]; exact hc

/-! ### the sample-size search -/

theorem bracket_spec (P : ℕ → Bool) (f a b : ℕ) (ha : 0 < a) (hPa : P a = false)
    (hb : b = 2 * a) :
    0 < (bracket P f a b).1 ∧ P (bracket P f a b).1 = false ∧
      (bracket P f a b).2 = 2 * (bracket P f a b).1 ∧
      (P (bracket P f a b).2 = true ∨ (bracket P f a b).2 = b * 2 ^ f) := by
  induction f generalizing a b with
  | zero => simp [bracket, ha, hPa, hb]
  | succ f ih =>
    rw [bracket]
    split
    · rename_i h; exact ⟨ha, hPa, hb, Or.inl h⟩
    · rename_i h
      have h' : P b = false := by simpa using h
      obtain ⟨h1, h2, h3, h4⟩ := ih b (2 * b) (by omega) h' rfl
      refine ⟨h1, h2, h3, h4.imp id fun e => ?_⟩
      rw [e, pow_succ]; ring

theorem bisect_spec (P : ℕ → Bool) (f lo hi : ℕ) (hlo : P lo = false) (hhi : P hi = true)
    (hlt : lo < hi) (hf : hi - lo ≤ f + 1) :
    lo < bisect P f lo hi ∧ bisect P f lo hi ≤ hi ∧ P (bisect P f lo hi) = true ∧
      P (bisect P f lo hi - 1) = false := by
  induction f generalizing lo hi with
  | zero =>
    have : hi - 1 = lo := by omega
    simp [bisect, hlt, hhi, this, hlo]
  | succ f ih =>
    rw [bisect]
    split
    · have : hi - 1 = lo := by omega
      simp [hlt, hhi, this, hlo]
    · rename_i h
      have hm1 : lo < (lo + hi) / 2 := by omega
      have hm2 : (lo + hi) / 2 < hi := by omega
      simp only
      split
      · rename_i hP
        obtain ⟨a, b, c, d⟩ := ih lo ((lo + hi) / 2) hlo hP hm1 (by omega)
        exact ⟨a, by omega, c, d⟩
      · rename_i hP
        have hP' : P ((lo + hi) / 2) = false := by simpa using hP
        obtain ⟨a, b, c, d⟩ := ih ((lo + hi) / 2) hi hP' hhi hm2 (by omega)
        exact ⟨by omega, b, c, d⟩

/-- a point where a monotone predicate switches on is its least element. -/
theorem least_of_switch {P : ℕ → Bool} (hmono : ∀ m m', m ≤ m' → P m = true → P m' = true)
    {n : ℕ} (hn : P n = true) (hp : 0 < n → P (n - 1) = false) (m : ℕ) : P m = true ↔ n ≤ m := by
  constructor
  · intro hm
    by_contra hlt
    have h1 : m ≤ n - 1 := by omega
    have := hmono m (n - 1) h1 hm
    rw [hp (by omega)] at this; exact absurd this (by simp)
  · intro h; exact hmono n m h hn

theorem meets_iff (r : ℕ) (q c : α) (n : ℕ) : meets r q c n = true ↔ c ≤ tail n r q := by
  simp [meets]

theorem meets_mono {q : α} (h0 : 0 ≤ q) (h1 : q ≤ 1) (r : ℕ) (c : α) (m m' : ℕ) (h : m ≤ m')
    (hm : meets r q c m = true) : meets r q c m' = true := by
  rw [meets_iff] at *
  exact hm.trans (tail_monotone h0 h1 r h)

theorem nSearchL_spec {q c : α} (h0 : 0 ≤ q) (h1 : q ≤ 1) (hc : 0 < c) {L r n : ℕ} (hr : 1 ≤ r)
    (h : nSearchL L r q c = some n) (m : ℕ) : c ≤ tail m r q ↔ n ≤ m := by
  rw [← meets_iff]
  have hmono := meets_mono h0 h1 r c
  unfold nSearchL at h
  simp only at h
  split at h
  · rename_i hP
    obtain rfl : r = n := by simpa using h
    refine least_of_switch hmono hP (fun _ => ?_) m
    have : ¬ (c ≤ tail (r - 1) r q) := by
      rw [tail_of_lt (by omega)]; exact not_le.2 hc
    simpa [meets] using this
  · rename_i hP
    have hP' : meets r q c r = false := by simpa using hP
    obtain ⟨b1, b2, b3, b4⟩ := bracket_spec (meets r q c) L r (2 * r) (by omega) hP' rfl
    split at h
    · rename_i hb
      obtain rfl : bisect (meets r q c) _ _ _ = n := by simpa using h
      obtain ⟨s1, s2, s3, s4⟩ := bisect_spec (meets r q c)
        ((bracket (meets r q c) L r (2 * r)).2 - (bracket (meets r q c) L r (2 * r)).1)
        _ _ b2 hb (by omega) (by omega)
      exact least_of_switch hmono s3 (fun _ => s4) m
    · exact absurd h (by simp)

theorem nSearchL_none {q c : α} {L r : ℕ} (hr : 1 ≤ r) (h : nSearchL L r q c = none) :
    tail (r * 2 ^ (L + 1)) r q < c := by
  unfold nSearchL at h
  simp only at h
  split at h
  · exact absurd h (by simp)
  · rename_i hP
    have hP' : meets r q c r = false := by simpa using hP
    obtain ⟨b1, b2, b3, b4⟩ := bracket_spec (meets r q c) L r (2 * r) (by omega) hP' rfl
    split at h
    · exact absurd h (by simp)
    · rename_i hb
      rcases b4 with b4 | b4
      · exact absurd b4 hb
      · have e : r * 2 ^ (L + 1) = 2 * r * 2 ^ L := by rw [pow_succ]; ring
        rw [e, ← b4]
        have : ¬ (c ≤ tail (bracket (meets r q c) L r (2 * r)).2 r q) := by
          rw [← meets_iff]; exact hb
        exact not_le.1 this

/-! ### enough samples always exist (Archimedean fields: `ℚ`, `ℝ`) -/

theorem lower_le_one {q : α} (h0 : 0 ≤ q) (h1 : q ≤ 1) (n r : ℕ) : lower n q r ≤ 1 := by
  have := tail_nonneg h0 h1 n r
  rw [tail] at this; linarith

theorem lower_eventually_small [Archimedean α] {q : α} (h0 : 0 < q) (h1 : q ≤ 1) (r : ℕ) :
    ∀ ε : α, 0 < ε → ∃ N, ∀ n, N ≤ n → lower n q r ≤ ε := by
  induction r with
  | zero => intro ε hε; exact ⟨0, fun n _ => by rw [lower_zero]; exact hε.le⟩
  | succ r ih =>
    intro ε hε
    obtain ⟨N₁, hN₁⟩ := ih (ε / 2) (by linarith)
    have step : ∀ m, lower (N₁ + m) q (r + 1) ≤ ε / 2 + (1 - q) ^ m := by
      intro m
      induction m with
      | zero => have := lower_le_one h0.le h1 N₁ (r + 1); simp; linarith
      | succ m ihm =>
        rw [← add_assoc, lower_succ_succ, pow_succ]
        have a := hN₁ (N₁ + m) (by omega)
        have e1 : q * lower (N₁ + m) q r ≤ q * (ε / 2) := mul_le_mul_of_nonneg_left a h0.le
        have e2 : (1 - q) * lower (N₁ + m) q (r + 1) ≤ (1 - q) * (ε / 2 + (1 - q) ^ m) :=
          mul_le_mul_of_nonneg_left ihm (sub_nonneg.2 h1)
        nlinarith
    obtain ⟨M, hM⟩ := exists_pow_lt_of_lt_one (show (0 : α) < ε / 2 by linarith)
      (show 1 - q < 1 by linarith)
    refine ⟨N₁ + M, fun n hn => ?_⟩
    obtain ⟨m, rfl, hm⟩ : ∃ m, n = N₁ + m ∧ M ≤ m := ⟨n - N₁, by omega, by omega⟩
    have := step m
    have hp : (1 - q) ^ m ≤ (1 - q) ^ M :=
      pow_le_pow_of_le_one (sub_nonneg.2 h1) (by linarith) hm
    linarith

theorem tail_eventually [Archimedean α] {q c : α} (h0 : 0 < q) (h1 : q ≤ 1) (hc : c < 1) (r : ℕ) :
    ∃ N, ∀ n, N ≤ n → c ≤ tail n r q := by
  obtain ⟨N, hN⟩ := lower_eventually_small h0 h1 r (1 - c) (by linarith)
  exact ⟨N, fun n hn => by have := hN n hn; rw [tail]; linarith⟩
end ordered
end PyYetiVerif.OrderStats
