import PyYetiVerif.Lemmas.NasFloatAcc
/-! C12: which alternative the small-magnitude mixed branch of the positive chain picks — the test
`float(field1) == float(field2)` in terms of the decimals the two fields denote. -/
set_option linter.unusedSimpArgs false
set_option linter.unusedVariables false
namespace PyYetiVerif.NasFloat
open PyYetiVerif.PyFloat PyYetiVerif.Generated.NasFloat

/-- `float(a) == float(b)` on the bit patterns of the two doubles (`0.0 == -0.0`) -/
def dblEq (b1 b2 : Nat) : Bool :=
  match ofBits b1, ofBits b2 with
  | some u, some v => u.eq v
  | _, _ => false

/-- the double a field reads as -/
def Fld.bits (f : Fld) : Nat := toBits f.dec.1 f.dec.2.1 f.dec.2.2

theorem floatEq_of_parse (a b : Str) (b1 b2 : Nat) (ha : parseFloat? a = some b1)
    (hb : parseFloat? b = some b2) : floatEq a b = dblEq b1 b2 := by
  unfold floatEq dblEq
  rw [ha, hb]
  rfl

/-- `float()` of a fixed-notation field is the nearest double of the decimal it denotes -/
theorem parseFloat?_plain (neg : Bool) (ip fp : Str) (hwf : (Fld.mk neg ip fp none).wf = true) (pad : Nat) :
    parseFloat? (List.replicate pad ' ' ++ (Fld.mk neg ip fp none).text) = some (Fld.mk neg ip fp none).bits := by
  obtain ⟨hip, hfp, hne, -⟩ := wf_parts _ hwf
  simp only at hip hfp hne
  have ht : (Fld.mk neg ip fp none).text = (if neg then ['-'] else []) ++ (ip ++ '.' :: (fp ++ [])) := by
    simp [Fld.text, Fld.mant, Fld.exText]
  rw [ht]
  have hD := parseDec?_shape pad neg ip fp [] hip hfp (by simp) (by simp)
  simp only [hne, exTail] at hD
  unfold parseFloat?
  rw [hD]
  simp [Fld.bits, Fld.dec, Fld.expVal]

/-- `float(field.replace("-", "e-"))` of a positive scientific field with a negative exponent is
the nearest double of the decimal the field denotes -/
theorem parseFloat?_field1_pos (W P N3 : Nat) (e : Int) (he : e.natAbs ≤ 5000) :
    parseFloat? (replace ['-'] ['e', '-'] (rjust W (sciFld false false true P N3 e).text)) =
      some (sciFld false false true P N3 e).bits := by
  have hfpd := rstrip0_frac_digits P N3
  have hipd := natDigits_all_digit (N3 / 10 ^ P)
  have hdsd := natDigits_all_digit e.natAbs
  have htext : (sciFld false false true P N3 e).text =
      (natDigits (N3 / 10 ^ P) ++ '.' :: rstripBy is0 (fracDigits P N3)) ++ '-' :: natDigits e.natAbs := by
    simp [sciFld, Fld.text, Fld.mant, Fld.exText, FExp.text]
  rw [rjust, htext]
  generalize hpadn : W - ((natDigits (N3 / 10 ^ P) ++ '.' :: rstripBy is0 (fracDigits P N3)) ++
      '-' :: natDigits e.natAbs).length = pad
  have hu : ∀ x ∈ List.replicate pad ' ' ++ (natDigits (N3 / 10 ^ P) ++ '.' :: rstripBy is0 (fracDigits P N3)),
      x ≠ '-' := by
    intro x hx
    simp only [List.mem_append, List.mem_cons] at hx
    rcases hx with h | h | rfl | h
    · rw [List.eq_of_mem_replicate h]; decide
    · exact isDigit_ne x '-' (hipd x h) (by decide)
    · decide
    · exact isDigit_ne x '-' (hfpd x h) (by decide)
  have hv : ∀ x ∈ natDigits e.natAbs, x ≠ '-' := fun x hx => isDigit_ne x '-' (hdsd x hx) (by decide)
  rw [← List.append_assoc, replace_single_once '-' ['e', '-'] _ _ hu hv]
  have hne : natDigits e.natAbs ≠ [] := by
    intro h; have := natDigits_length_pos e.natAbs; rw [h] at this; simp at this
  have hip0 : (natDigits (N3 / 10 ^ P) == [] && rstripBy is0 (fracDigits P N3) == []) = false := by
    have := natDigits_length_pos (N3 / 10 ^ P)
    cases h : natDigits (N3 / 10 ^ P) with
    | nil => rw [h] at this; simp at this
    | cons a t => simp
  have hD := parseDec?_shape pad false (natDigits (N3 / 10 ^ P)) (rstripBy is0 (fracDigits P N3))
    ('e' :: '-' :: natDigits e.natAbs) hipd hfpd (by simp; decide)
    (by
      intro c hc
      simp only [List.mem_cons] at hc
      rcases hc with rfl | rfl | hc
      · decide
      · decide
      · exact isDigit_not_ws c (hdsd c hc))
  simp only [hip0, Bool.false_eq_true, if_false, List.nil_append] at hD
  have hex := exTail_e true (natDigits e.natAbs) hne hdsd
  simp only [if_true] at hex
  rw [hex] at hD
  have hb : ¬ ((-(digitsVal (natDigits e.natAbs) : Int)) > 5000 ∨ (-(digitsVal (natDigits e.natAbs) : Int)) < -5000) := by
    rw [digitsVal_natDigits]; omega
  simp only [Bool.or_eq_true, decide_eq_true_eq, hb, if_false] at hD
  have e1 : List.replicate pad ' ' ++ (natDigits (N3 / 10 ^ P) ++ '.' :: rstripBy is0 (fracDigits P N3)) ++
      ['e', '-'] ++ natDigits e.natAbs =
      List.replicate pad ' ' ++ (natDigits (N3 / 10 ^ P) ++ '.' :: (rstripBy is0 (fracDigits P N3) ++
        'e' :: '-' :: natDigits e.natAbs)) := by simp
  unfold parseFloat?
  rw [e1, hD]
  simp [Fld.bits, Fld.dec, Fld.expVal, sciFld, FExp.val]

theorem parseFloat?_plain' (f : Fld) (hwf : f.wf = true) (hex : f.ex = none) (pad : Nat) :
    parseFloat? (List.replicate pad ' ' ++ f.text) = some f.bits := by
  obtain ⟨neg, ip, fp, ex⟩ := f
  simp only at hex
  subst hex
  exact parseFloat?_plain neg ip fp hwf pad

theorem fixedFld_text_dot_iff (p N : Nat) : (fixedFld false true p N).text = ['.'] ↔ N = 0 := by
  constructor
  · intro h
    by_contra hN
    have hw : (fixedFld false true p N).wf = true := fixedFld_wf false true p N (by omega)
    obtain ⟨hip, hfp, hne, _⟩ := wf_parts _ hw
    have htl : (fixedFld false true p N).text.length =
        (fixedFld false true p N).ip.length + 1 + (fixedFld false true p N).fp.length := by
      have hn : (fixedFld false true p N).neg = false := rfl
      have hx : (fixedFld false true p N).ex = none := rfl
      simp [Fld.text, Fld.mant, Fld.exText, hn, hx]; omega
    rw [h] at htl
    simp only [List.length_cons, List.length_nil] at htl
    have h1 : (fixedFld false true p N).ip = [] := List.eq_nil_of_length_eq_zero (by omega)
    have h2' : (fixedFld false true p N).fp = [] := List.eq_nil_of_length_eq_zero (by omega)
    simp [h1, h2'] at hne
  · intro hN
    subst hN
    have hz : fracDigits p 0 = List.replicate p '0' := fracDigits_of_dvd p 0 (dvd_zero _)
    have hr : rstripBy isStrip (List.replicate p '0') = [] := by
      have := rstripBy_append_replicate_length isStrip '0' (by decide) p []
      simpa using this
    simp [fixedFld_text, ipKept, hz, hr]

/-- **which alternative the positive mixed branch picks.**  With `fs` the scientific field and
`fx = .000ddd` the fixed-notation field of precision `p` (`N` = `|x|·10^p` rounded half-even), the
branch returns `fx` exactly when `N > 0` (the text is not a bare `.`), `fx` is at most `W` wide and
the two fields read as the same double; otherwise it returns the scientific field. -/
theorem smallPos_choice (W p : Nat) (c : Sci) (hc : SciOK W c 0) (hp : 1 ≤ p) (x : Dbl)
    (hneg : x.neg = false) (hn : 0 < x.num) (hd : 0 < x.den) (hlt1 : x.num < x.den)
    (hlo : x.den ≤ 10 ^ 999 * x.num) (hhi : x.num < 10 ^ 999 * x.den)
    (h8 : W = 8 → x.den ≤ 10 ^ 9 * x.num ∧ x.num * 10 ^ 1 < x.den) :
    ∃ fs : Fld, fs.wf = true ∧ fs.text.length ≤ W ∧ formatScientific W c x = rjust W fs.text ∧
      |decRat fs.dec - dblRat x| ≤ sciBound c x ∧
      smallPos W p c x =
        if 0 < rheDiv (x.num * 10 ^ p) x.den ∧
            (fixedFld false true p (rheDiv (x.num * 10 ^ p) x.den)).text.length ≤ W ∧
            dblEq fs.bits (fixedFld false true p (rheDiv (x.num * 10 ^ p) x.den)).bits = true
        then rjust W (fixedFld false true p (rheDiv (x.num * 10 ^ p) x.den)).text
        else rjust W fs.text := by
  obtain ⟨hq1, hq15, hrows⟩ := id hc
  obtain ⟨hb1, hb2, hs1, hs2⟩ := eParts_exp_bounds c.ePrec 999 x hn hd hlo hhi
  obtain ⟨-, -, hacc, -⟩ := eParts_spec c.ePrec x hn hd
  have habs : x.absLtOne = true := by simp [Dbl.absLtOne, hlt1]
  have hsb : sciBound c x = (1 / 2 * (10 : ℚ) ^ (-(sciPrec c x.neg (natDigits (eParts c.ePrec x).2.natAbs).length : Int)) +
    1 / 2 * (10 : ℚ) ^ (-(c.ePrec : Int))) * (10 : ℚ) ^ ((eParts c.ePrec x).2) := rfl
  generalize he : (eParts c.ePrec x).2 = e at hb1 hb2 hs1 hs2 hacc hsb
  have hLmem := natDigits_len_le3 e.natAbs (by omega)
  obtain ⟨hP1, hP2, hW⟩ := hrows x.neg _ hLmem
  obtain ⟨N3, h1, h2, h3, h4, hshape⟩ := sciCore_shape W c false x hn hd hq1 hq15
    (sciPrec c x.neg (natDigits (eParts c.ePrec x).2.natAbs).length) rfl
    (by rw [he]; exact hP1) (by rw [he]; omega)
  rw [he] at h1 h2 h3 h4 hshape
  generalize hP : sciPrec c x.neg (natDigits e.natAbs).length = P at *
  rw [hneg, habs] at hshape
  simp only [Bool.false_eq_true, if_false] at hshape
  have hz : x.isZero = false := by
    have : x.num ≠ 0 := by omega
    simp [Dbl.isZero, this]
  have hS : formatScientific W c x = rjust W (sciFld false false true P N3 e).text := by
    simp [formatScientific, hz, hshape]
  have hwf : (sciFld false false true P N3 e).wf = true := sciFld_wf _ _ _ _ _ _ (by omega)
  have hlen : (sciFld false false true P N3 e).text.length ≤ W := by
    have := sciFld_length false false true P N3 e hP1 h4
    rw [hneg] at hW
    simp only [Bool.false_eq_true, if_false] at this hW
    omega
  have haccS : |decRat (sciFld false false true P N3 e).dec - dblRat x| ≤ sciBound c x := by
    have := sci_rat_err false false true P N3 c.ePrec (eParts c.ePrec x).1 e
      ((x.num : ℚ) / x.den) (by omega) (fun _ => hs1 habs) (fun h => absurd h (by simp)) hacc h1 h2
    rw [hsb]
    unfold dblRat
    rw [hneg]
    exact this
  refine ⟨sciFld false false true P N3 e, hwf, hlen, hS, haccS, ?_⟩
  have hp0 : p ≠ 0 := by omega
  have hF2 : stripChars ['0', ' '] (rjust W (fmtF p x)) =
      (fixedFld false true p (rheDiv (x.num * 10 ^ p) x.den)).text := by
    rw [stripChars_swap, fmtF_shape p hp0, hneg, rjust, fixedFld_text]
    have := strip_fixed false (rheDiv (x.num * 10 ^ p) x.den / 10 ^ p)
      (fracDigits p (rheDiv (x.num * 10 ^ p) x.den)) (W - ((if false = true then ['-'] else []) ++
        natDigits (rheDiv (x.num * 10 ^ p) x.den / 10 ^ p) ++
          '.' :: fracDigits p (rheDiv (x.num * 10 ^ p) x.den)).length)
    simpa using this
  have hf1 := parseFloat?_field1_pos W P N3 e (by omega)
  generalize hN : rheDiv (x.num * 10 ^ p) x.den = N at hF2
  have hdot := fixedFld_text_dot_iff p N
  have hidem : stripChars [' ', '0'] (fixedFld false true p N).text = (fixedFld false true p N).text := by
    rw [← hF2, stripChars_swap]
    exact stripBy_idem _ _
  have hSlen : (rjust W (sciFld false false true P N3 e).text).length = W := rjust_length_of_le _ _ hlen
  unfold smallPos
  simp only [hS, hF2]
  by_cases hN0 : N = 0
  · have hd1 : ((fixedFld false true p N).text == ['.']) = true := by simp [hdot.2 hN0]
    have : ¬ (0 < N) := by omega
    simp only [hd1, if_true, this, false_and, if_false]
  · have hd1 : ((fixedFld false true p N).text == ['.']) = false := by
      have : (fixedFld false true p N).text ≠ ['.'] := fun h => hN0 (hdot.1 h)
      simpa using this
    have hNpos : 0 < N := by omega
    have hwfx : (fixedFld false true p N).wf = true := fixedFld_wf false true p N hNpos
    have hf2 : parseFloat? (fixedFld false true p N).text = some (fixedFld false true p N).bits := by
      have := parseFloat?_plain' (fixedFld false true p N) hwfx rfl 0
      simpa using this
    have hfe := floatEq_of_parse _ _ _ _ hf1 hf2
    simp only [hd1, Bool.false_eq_true, if_false, hfe]
    by_cases hcond : (fixedFld false true p N).text.length ≤ W ∧
        dblEq (sciFld false false true P N3 e).bits (fixedFld false true p N).bits = true
    · have hc2 : (decide ((fixedFld false true p N).text.length ≤ W) &&
          dblEq (sciFld false false true P N3 e).bits (fixedFld false true p N).bits) = true := by
        simp [hcond.1, hcond.2]
      have hR : (if 0 < N ∧ (fixedFld false true p N).text.length ≤ W ∧
          dblEq (sciFld false false true P N3 e).bits (fixedFld false true p N).bits = true
          then rjust W (fixedFld false true p N).text
          else rjust W (sciFld false false true P N3 e).text) = rjust W (fixedFld false true p N).text :=
        if_pos ⟨hNpos, hcond.1, hcond.2⟩
      rw [hR]
      simp only [hc2, if_true, hidem]
      by_cases hW8 : (W == 8) = true
      · simp only [hW8, if_true]; unfold finish; rw [hidem]
      · simp only [hW8, if_false, Bool.false_eq_true]
    · have hc2 : (decide ((fixedFld false true p N).text.length ≤ W) &&
          dblEq (sciFld false false true P N3 e).bits (fixedFld false true p N).bits) = false := by
        by_contra hcon
        simp only [Bool.not_eq_false, Bool.and_eq_true, decide_eq_true_eq] at hcon
        exact hcond hcon
      have hR : (if 0 < N ∧ (fixedFld false true p N).text.length ≤ W ∧
          dblEq (sciFld false false true P N3 e).bits (fixedFld false true p N).bits = true
          then rjust W (fixedFld false true p N).text
          else rjust W (sciFld false false true P N3 e).text) = rjust W (sciFld false false true P N3 e).text :=
        if_neg (fun h => hcond ⟨h.2.1, h.2.2⟩)
      rw [hR]
      simp only [hc2, Bool.false_eq_true, if_false]
      by_cases hW8 : (W == 8) = true
      · simp only [hW8, if_true]
        have hW8' : W = 8 := by simpa using hW8
        obtain ⟨hr1, hr2⟩ := h8 hW8'
        obtain ⟨he1, he2⟩ := eParts_exp_range c.ePrec 9 1 x hn hd hr1 hr2
        rw [he] at he1 he2
        exact finish_sci W _ _ _ P N3 _ h3 (by omega) (by omega)
      · simp only [hW8, if_false, Bool.false_eq_true]
        exact rjust_of_ge W _ (by rw [hSlen])

end PyYetiVerif.NasFloat
