import PyYetiVerif.Lemmas.Fde
import Mathlib.Algebra.Order.Field.Basic
import Mathlib.Algebra.BigOperators.Group.List.Basic
import Mathlib.Data.List.Range
import Mathlib.Algebra.BigOperators.Ring.List
import Mathlib.Algebra.Order.BigOperators.Group.List
import Mathlib.Tactic.Ring
import Mathlib.Tactic.Linarith
import Mathlib.Tactic.FieldSimp
/-! Helper lemmas for C10 / fdepsd: what `BinCount` and `Df_b` are in terms of the cycle table,
and how the table bookkeeping behaves when every amplitude is multiplied by `c > 0`. -/
set_option linter.unusedSectionVars false
set_option linter.unusedVariables false
namespace PyYetiVerif.Fde

variable {α : Type} [Field α] [LinearOrder α] [IsStrictOrderedRing α]

/-! ### `BinCount` counts the cycles of the half-open amplitude interval -/

/-- total count of the cycles with `lo ≤ amp < hi` -/
def binTotal (cycles : List (α × α)) (lo hi : α) : α :=
  (cycles.map fun c => if lo ≤ c.1 ∧ c.1 < hi then c.2 else 0).sum

/-- the documented meaning of `bincount`: "the number of cycles in the bin, left-side inclusive.
The last bin includes the count of maximum amplitude cycles" -/
def perBin (cycles : List (α × α)) : List α → List α
  | [] => []
  | [l] => [cumCount cycles l]
  | l :: l' :: r => binTotal cycles l l' :: perBin cycles (l' :: r)

theorem cumCount_eq_sum (cycles : List (α × α)) (l : α) :
    cumCount cycles l = (cycles.map fun c => if l ≤ c.1 then c.2 else 0).sum := by
  induction cycles with
  | nil => simp [cumCount_nil]
  | cons c cs ih =>
      rw [cumCount_cons, ih, List.map_cons, List.sum_cons]
      by_cases h : c.1 < l
      · simp [h, not_le.mpr h]
      · simp [h, not_lt.mp h]

theorem cumCount_sub (cycles : List (α × α)) (l l' : α) (h : l ≤ l') :
    cumCount cycles l - cumCount cycles l' = binTotal cycles l l' := by
  rw [cumCount_eq_sum, cumCount_eq_sum, binTotal]
  induction cycles with
  | nil => simp
  | cons c cs ih =>
      simp only [List.map_cons, List.sum_cons]
      have e : (if l ≤ c.1 then c.2 else 0) - (if l' ≤ c.1 then c.2 else 0)
          = if l ≤ c.1 ∧ c.1 < l' then c.2 else 0 := by
        by_cases h1 : l ≤ c.1
        · by_cases h2 : l' ≤ c.1
          · simp [h1, h2, not_lt.mpr h2]
          · simp [h1, h2, not_le.mp h2]
        · have h2 : ¬ l' ≤ c.1 := fun h2 => h1 (le_trans h h2)
          simp [h1, h2]
      rw [← e, ← ih]; ring

theorem binCount_counts (cycles : List (α × α)) (lv : List α) (hs : lv.Pairwise (· ≤ ·)) :
    binCount (counts cycles lv) = perBin cycles lv := by
  induction lv with
  | nil => simp [counts, binCount, perBin]
  | cons l r ih =>
      cases r with
      | nil => simp [counts, binCount, perBin]
      | cons l' r' =>
          have h1 : l ≤ l' := (List.pairwise_cons.mp hs).1 l' (by simp)
          have ih' := ih (List.pairwise_cons.mp hs).2
          simp only [counts, List.map_cons, binCount, perBin] at ih' ⊢
          rw [cumCount_sub cycles l l' h1, ih']

/-! ### `Df_b` is the sum of `amp ^ b * count` over the (binamps, bincount) table -/

theorem npow_eq_pow (x : α) (n : Nat) : npow x n = x ^ n := by
  induction n with
  | zero => simp [npow]
  | succ n ih => simp [npow, ih, pow_succ]

theorem dot_eq_sum (a b : List α) : dot a b = ((a.zip b).map fun p => p.1 * p.2).sum := by
  induction a generalizing b with
  | nil => simp [dot]
  | cons x r ih =>
      cases b with
      | nil => simp [dot]
      | cons y s => simp [dot, ih]

theorem damage_eq_sum (b : Nat) (lv bc : List α) :
    damage b lv bc = ((lv.zip bc).map fun p => p.1 ^ b * p.2).sum := by
  unfold damage
  rw [dot_eq_sum, List.zip_map_left, List.map_map]
  congr 1
  apply List.map_congr_left
  intro p _
  simp [npow_eq_pow]

/-! ### per-cycle form: every cycle contributes `(its bin's left edge) ^ b * count` -/

/-- the left edge of the bin a cycle of amplitude `a` is counted in: the last level `≤ a`
(`cur` is the last level already known to be `≤ a`) -/
def floorLevel (a : α) : α → List α → α
  | cur, [] => cur
  | cur, l :: r => if a < l then cur else floorLevel a l r

theorem damage_perBin_cons (b : Nat) (cycles : List (α × α)) (l l' : α) (r : List α) :
    damage b (l :: l' :: r) (perBin cycles (l :: l' :: r))
      = l ^ b * binTotal cycles l l' + damage b (l' :: r) (perBin cycles (l' :: r)) := by
  simp only [damage, perBin, List.map_cons, dot, npow_eq_pow]

/-- generalised per-cycle form (sum over the cycles at or above the first level) -/
theorem damage_per_cycle_aux (b : Nat) (cycles : List (α × α)) (r : List α) :
    ∀ l0 : α, (l0 :: r).Pairwise (· ≤ ·) →
      damage b (l0 :: r) (perBin cycles (l0 :: r))
        = (cycles.map fun c => if l0 ≤ c.1 then floorLevel c.1 l0 r ^ b * c.2 else 0).sum := by
  induction r with
  | nil =>
      intro l0 _
      simp only [damage, perBin, List.map_cons, List.map_nil, dot, npow_eq_pow, add_zero, floorLevel]
      rw [cumCount_eq_sum, ← List.sum_map_mul_left]
      congr 1
      apply List.map_congr_left
      intro c _
      by_cases h : l0 ≤ c.1 <;> simp [h]
  | cons l' r' ih =>
      intro l0 hs
      have h01 : l0 ≤ l' := (List.pairwise_cons.mp hs).1 l' (by simp)
      rw [damage_perBin_cons, ih l' (List.pairwise_cons.mp hs).2, binTotal, ← List.sum_map_mul_left,
        ← List.sum_map_add]
      congr 1
      apply List.map_congr_left
      intro c _
      simp only [floorLevel]
      by_cases h1 : l0 ≤ c.1
      · by_cases h2 : c.1 < l'
        · simp [h1, h2, not_le.mpr h2]
        · simp [h1, h2, not_lt.mp h2]
      · have h2 : ¬ l' ≤ c.1 := fun h2 => h1 (le_trans h01 h2)
        simp [h1, h2]

/-! ### the amplitude levels -/

theorem binAmps_pairwise (n : Nat) (am : α) (h : 0 ≤ am) : (binAmps n am).Pairwise (· ≤ ·) := by
  unfold binAmps
  rw [List.pairwise_map]
  refine (List.pairwise_lt_range (n := n)).imp ?_
  intro a b hab
  have : (a : α) ≤ (b : α) := by exact_mod_cast le_of_lt hab
  have hn : (0 : α) ≤ (n : α) := Nat.cast_nonneg n
  exact mul_le_mul_of_nonneg_right (div_le_div_of_nonneg_right this hn) h

theorem binAmps_succ (n : Nat) (am : α) :
    binAmps (n + 1) am = 0 :: ((List.range n).map fun (k : Nat) =>
      ((Nat.cast (k + 1) : α) / (Nat.cast (n + 1) : α)) * am) := by
  unfold binAmps
  rw [List.range_succ_eq_map]
  simp

/-! ### `Amax` -/

theorem foldl_max_ge (r : List (α × α)) :
    ∀ m : α, m ≤ r.foldl (fun m d => if m < d.1 then d.1 else m) m ∧
      ∀ d ∈ r, d.1 ≤ r.foldl (fun m d => if m < d.1 then d.1 else m) m := by
  induction r with
  | nil => intro m; simp
  | cons x r ih =>
      intro m
      simp only [List.foldl_cons]
      obtain ⟨h1, h2⟩ := ih (if m < x.1 then x.1 else m)
      have hm : m ≤ (if m < x.1 then x.1 else m) := by split <;> [exact le_of_lt ‹_›; exact le_refl _]
      have hx : x.1 ≤ (if m < x.1 then x.1 else m) := by
        split
        · exact le_refl _
        · exact not_lt.mp ‹_›
      refine ⟨le_trans hm h1, ?_⟩
      intro d hd
      rcases List.mem_cons.mp hd with rfl | hd
      · exact le_trans hx h1
      · exact h2 d hd

theorem foldl_max_mem (r : List (α × α)) :
    ∀ m : α, r.foldl (fun m d => if m < d.1 then d.1 else m) m = m ∨
      ∃ d ∈ r, r.foldl (fun m d => if m < d.1 then d.1 else m) m = d.1 := by
  induction r with
  | nil => intro m; simp
  | cons x r ih =>
      intro m
      simp only [List.foldl_cons]
      rcases ih (if m < x.1 then x.1 else m) with h | ⟨d, hd, h⟩
      · by_cases hx : m < x.1
        · right; exact ⟨x, by simp, by rw [h]; simp [hx]⟩
        · left; rw [h]; simp [hx]
      · right; exact ⟨d, List.mem_cons_of_mem _ hd, h⟩

/-- `Amax` is the amplitude of one of the cycles and bounds all of them -/
theorem amax_spec (cycles : List (α × α)) (am : α) (h : amax cycles = some am) :
    (∃ c ∈ cycles, c.1 = am) ∧ ∀ c ∈ cycles, c.1 ≤ am := by
  cases cycles with
  | nil => simp [amax] at h
  | cons c cs =>
      simp only [amax, Option.some.injEq] at h
      subst h
      obtain ⟨h1, h2⟩ := foldl_max_ge cs c.1
      refine ⟨?_, ?_⟩
      · rcases foldl_max_mem cs c.1 with e | ⟨d, hd, e⟩
        · exact ⟨c, by simp, e.symm⟩
        · exact ⟨d, List.mem_cons_of_mem _ hd, e.symm⟩
      · intro d hd
        rcases List.mem_cons.mp hd with rfl | hd
        · exact h1
        · exact h2 d hd

/-! ### scaling the amplitudes by `c > 0` -/

/-- the cycle table of the signal scaled by `c` -/
def scaleCycles (c : α) (cycles : List (α × α)) : List (α × α) := cycles.map fun d => (c * d.1, d.2)

theorem cumCount_scale (c : α) (hc : 0 < c) (cycles : List (α × α)) (l : α) :
    cumCount (scaleCycles c cycles) (c * l) = cumCount cycles l := by
  induction cycles with
  | nil => simp [scaleCycles, cumCount_nil]
  | cons d ds ih =>
      simp only [scaleCycles, List.map_cons] at ih ⊢
      rw [cumCount_cons, cumCount_cons, ih]
      simp only [mul_lt_mul_iff_right₀ hc]

theorem counts_scale (c : α) (hc : 0 < c) (cycles : List (α × α)) (lv : List α) :
    counts (scaleCycles c cycles) (lv.map (c * ·)) = counts cycles lv := by
  unfold counts
  rw [List.map_map]
  apply List.map_congr_left
  intro l _
  exact cumCount_scale c hc cycles l

theorem amax_scale (c : α) (hc : 0 < c) (cycles : List (α × α)) :
    amax (scaleCycles c cycles) = (amax cycles).map (c * ·) := by
  cases cycles with
  | nil => simp [scaleCycles, amax]
  | cons d ds =>
      simp only [scaleCycles, List.map_cons, amax, Option.map_some, Option.some.injEq]
      generalize d.1 = m
      induction ds generalizing m with
      | nil => simp
      | cons e es ih =>
          simp only [List.map_cons, List.foldl_cons, mul_lt_mul_iff_right₀ hc]
          by_cases h : m < e.1
          · simp only [h, if_true]; exact ih e.1
          · simp only [h, if_false]; exact ih m

theorem binAmps_scale (c : α) (n : Nat) (am : α) :
    binAmps n (c * am) = (binAmps n am).map (c * ·) := by
  unfold binAmps
  rw [List.map_map]
  apply List.map_congr_left
  intro k _
  simp only [Function.comp]
  ring

theorem damage_scale (c : α) (b : Nat) (lv bc : List α) :
    damage b (lv.map (c * ·)) bc = c ^ b * damage b lv bc := by
  rw [damage_eq_sum, damage_eq_sum, ← List.sum_map_mul_left]
  induction lv generalizing bc with
  | nil => simp
  | cons l r ih =>
      cases bc with
      | nil => simp
      | cons x s =>
          simp only [List.map_cons, List.zip_cons_cons, List.sum_cons]
          rw [ih s]; ring

/-! ### non-negativity (so that the roots in `sig2_b` are taken of non-negative numbers) -/

theorem perBin_nonneg (cycles : List (α × α)) (hc : ∀ d ∈ cycles, 0 ≤ d.2) (lv : List α) :
    ∀ x ∈ perBin cycles lv, 0 ≤ x := by
  have hsum : ∀ (p : α × α → Prop) [DecidablePred p],
      0 ≤ (cycles.map fun d => if p d then d.2 else 0).sum := by
    intro p _
    apply List.sum_nonneg
    intro x hx
    obtain ⟨d, hd, rfl⟩ := List.mem_map.mp hx
    split
    · exact hc d hd
    · exact le_refl _
  induction lv with
  | nil => simp [perBin]
  | cons l r ih =>
      cases r with
      | nil =>
          intro x hx
          simp only [perBin, List.mem_singleton] at hx
          subst hx
          rw [cumCount_eq_sum]
          exact hsum _
      | cons l' r' =>
          intro x hx
          simp only [perBin, List.mem_cons] at hx
          rcases hx with rfl | hx
          · exact hsum _
          · exact ih x (by simpa [perBin] using hx)

theorem damage_nonneg (b : Nat) (lv bc : List α) (hl : ∀ l ∈ lv, 0 ≤ l) (hb : ∀ x ∈ bc, 0 ≤ x) :
    0 ≤ damage b lv bc := by
  rw [damage_eq_sum]
  apply List.sum_nonneg
  intro x hx
  obtain ⟨p, hp, rfl⟩ := List.mem_map.mp hx
  have := List.of_mem_zip hp
  exact mul_nonneg (pow_nonneg (hl p.1 this.1) b) (hb p.2 this.2)

theorem binAmps_nonneg (n : Nat) (am : α) (h : 0 ≤ am) : ∀ l ∈ binAmps n am, 0 ≤ l := by
  intro l hl
  unfold binAmps at hl
  obtain ⟨k, _, rfl⟩ := List.mem_map.mp hl
  exact mul_nonneg (div_nonneg (Nat.cast_nonneg k) (Nat.cast_nonneg n)) h

/-! ### the whole table row -/

theorem row_spec (nbins : Nat) (cycles : List (α × α)) (r : Row α) (h : row nbins cycles = some r) :
    amax cycles = some r.amax ∧ r.levels = binAmps nbins r.amax ∧ r.count = counts cycles r.levels ∧
      r.bincount = binCount r.count ∧ r.df4 = damage 4 r.levels r.bincount ∧
      r.df8 = damage 8 r.levels r.bincount ∧ r.df12 = damage 12 r.levels r.bincount := by
  unfold row at h
  cases ha : amax cycles with
  | none => rw [ha] at h; cases h
  | some am =>
      rw [ha] at h
      simp only [Option.some.injEq] at h
      subst h
      exact ⟨rfl, rfl, rfl, rfl, rfl, rfl, rfl⟩

/-- the row of the table scaled by `c` -/
def scaleRow (c : α) (r : Row α) : Row α :=
  { amax := c * r.amax, levels := r.levels.map (c * ·), count := r.count, bincount := r.bincount,
    df4 := c ^ 4 * r.df4, df8 := c ^ 8 * r.df8, df12 := c ^ 12 * r.df12 }

theorem row_scale (c : α) (hc : 0 < c) (nbins : Nat) (cycles : List (α × α)) :
    row nbins (scaleCycles c cycles) = (row nbins cycles).map (scaleRow c) := by
  unfold row
  rw [amax_scale c hc]
  cases amax cycles with
  | none => rfl
  | some am =>
      simp only [Option.map_some, scaleRow, Option.some.injEq]
      rw [binAmps_scale, counts_scale c hc, damage_scale, damage_scale, damage_scale]

theorem row_nonneg (nbins : Nat) (cycles : List (α × α)) (r : Row α) (h : row nbins cycles = some r)
    (ha : ∀ d ∈ cycles, 0 ≤ d.1) (hc : ∀ d ∈ cycles, 0 ≤ d.2) :
    0 ≤ r.amax ∧ r.levels.Pairwise (· ≤ ·) ∧ r.bincount = perBin cycles r.levels ∧
      0 ≤ r.df4 ∧ 0 ≤ r.df8 ∧ 0 ≤ r.df12 := by
  obtain ⟨h1, h2, h3, h4, h5, h6, h7⟩ := row_spec nbins cycles r h
  obtain ⟨⟨d, hd, e⟩, _⟩ := amax_spec cycles r.amax h1
  have ham : 0 ≤ r.amax := by rw [← e]; exact ha d hd
  have hs : r.levels.Pairwise (· ≤ ·) := by rw [h2]; exact binAmps_pairwise nbins r.amax ham
  have hb : r.bincount = perBin cycles r.levels := by rw [h4, h3]; exact binCount_counts cycles r.levels hs
  have hl : ∀ l ∈ r.levels, 0 ≤ l := by rw [h2]; exact binAmps_nonneg nbins r.amax ham
  have hbn : ∀ x ∈ r.bincount, 0 ≤ x := by rw [hb]; exact perBin_nonneg cycles hc r.levels
  exact ⟨ham, hs, hb, by rw [h5]; exact damage_nonneg 4 _ _ hl hbn,
    by rw [h6]; exact damage_nonneg 8 _ _ hl hbn, by rw [h7]; exact damage_nonneg 12 _ _ hl hbn⟩

end PyYetiVerif.Fde
