import PyYetiVerif.Lemmas.PyFloatStr
import Mathlib.Algebra.Order.Field.Power
import Mathlib.Tactic.FieldSimp
import Mathlib.Tactic.Positivity
/-! C12: the decimal exponent `ilog10` (estimate from bit lengths + corrected by total loops) and
`%.pe` (`eParts`): digits `10^p ≤ N < 10^(p+1)` within half a unit of `|x|·10^(p−e)`; over ℕ and,
for composition with the other rounding steps, over ℚ with integer powers of ten. -/
set_option linter.unusedSimpArgs false
set_option linter.unusedVariables false
namespace PyYetiVerif.PyFloat

theorem ilogOk_iff (a b : Nat) (e : Int) : ilogOk a b e = true ↔ b ≤ 10 ^ (-e).toNat * a := by
  simp [ilogOk]

theorem ilogOk_mono (a b : Nat) (e e' : Int) (h : ilogOk a b e = true) (hle : e' ≤ e) :
    ilogOk a b e' = true := by
  rw [ilogOk_iff] at h ⊢
  have : 10 ^ (-e).toNat ≤ 10 ^ (-e').toNat := Nat.pow_le_pow_right (by norm_num) (by omega)
  exact le_trans h (Nat.mul_le_mul_right _ this)

theorem ilogDown_spec (a b : Nat) (fuel : Nat) (e : Int) (h : ilogOk a b (e - fuel) = true) :
    ilogOk a b (ilogDown a b fuel e) = true ∧ ilogDown a b fuel e ≤ e := by
  induction fuel generalizing e with
  | zero => simpa [ilogDown] using h
  | succ fuel ih =>
    unfold ilogDown
    by_cases hok : ilogOk a b e = true
    · simp [hok]
    · simp only [hok, Bool.false_eq_true, if_false]
      have := ih (e - 1) (by
        have e1 : e - 1 - (fuel : Int) = e - ((fuel + 1 : Nat) : Int) := by push_cast; ring
        rw [e1]; exact h)
      exact ⟨this.1, by omega⟩

theorem ilogUp_spec (a b : Nat) (fuel : Nat) (e : Int) (hok : ilogOk a b e = true) (he : e ≤ 0)
    (hf : -e ≤ fuel) :
    ilogOk a b (ilogUp a b fuel e) = true ∧ ilogUp a b fuel e ≤ 0 ∧
      (ilogUp a b fuel e = 0 ∨ ilogOk a b (ilogUp a b fuel e + 1) = false) := by
  induction fuel generalizing e with
  | zero =>
    have : e = 0 := by simp at hf; omega
    subst this
    simp [ilogUp, hok]
  | succ fuel ih =>
    unfold ilogUp
    by_cases hc : (decide (e + 1 ≤ 0) && ilogOk a b (e + 1)) = true
    · simp only [hc, if_true]
      simp only [Bool.and_eq_true, decide_eq_true_eq] at hc
      exact ih (e + 1) hc.2 hc.1 (by push_cast at hf ⊢; omega)
    · simp only [hc, Bool.false_eq_true, if_false]
      refine ⟨hok, he, ?_⟩
      simp only [Bool.and_eq_true, decide_eq_true_eq, not_and, Bool.not_eq_true] at hc
      by_cases h0 : e + 1 ≤ 0
      · right; exact hc h0
      · left; omega

/-- decimal exponent of a fraction below one: `ilog10 a b = -j`, `10^-j ≤ a/b < 10^-(j-1)` -/
theorem ilog10_lt (a b : Nat) (ha : 0 < a) (hab : a < b) :
    ∃ j : Nat, 1 ≤ j ∧ ilog10 a b = -(j : Int) ∧ b ≤ 10 ^ j * a ∧ 10 ^ (j - 1) * a < b := by
  have hnot : ¬ a ≥ b := by omega
  unfold ilog10
  simp only [hnot, if_false]
  generalize he0 : ((a.log2 : Int) - (b.log2 : Int)) * 30103 / 100000 - 2 = e0
  -- the fuel of the downward loop reaches an exponent that certainly fits
  have hbig : ilogOk a b (e0 - ((e0 + (b.log2 : Int) + 2).toNat : Int)) = true := by
    rw [ilogOk_iff]
    have hb2 : b < 2 ^ (b.log2 + 1) := Nat.lt_log2_self
    have hge : b.log2 + 1 ≤ (-(e0 - ((e0 + (b.log2 : Int) + 2).toNat : Int))).toNat := by omega
    calc b ≤ 2 ^ (b.log2 + 1) := le_of_lt hb2
      _ ≤ 10 ^ (b.log2 + 1) := Nat.pow_le_pow_left (by norm_num) _
      _ ≤ 10 ^ (-(e0 - ((e0 + (b.log2 : Int) + 2).toNat : Int))).toNat :=
          Nat.pow_le_pow_right (by norm_num) hge
      _ ≤ 10 ^ (-(e0 - ((e0 + (b.log2 : Int) + 2).toNat : Int))).toNat * a :=
          Nat.le_mul_of_pos_right _ ha
  obtain ⟨hd1, hd2⟩ := ilogDown_spec a b _ e0 hbig
  generalize ilogDown a b (e0 + (b.log2 : Int) + 2).toNat e0 = e1 at hd1 hd2
  -- e1 ≤ 0 : otherwise ok e1 means b ≤ a
  have he1 : e1 ≤ 0 := by
    by_contra hcon
    rw [ilogOk_iff] at hd1
    have : (-e1).toNat = 0 := by omega
    rw [this] at hd1
    simp at hd1; omega
  obtain ⟨hu1, hu2, hu3⟩ := ilogUp_spec a b (-e1).toNat e1 hd1 he1 (by omega)
  generalize ilogUp a b (-e1).toNat e1 = r at hu1 hu2 hu3
  have hr0 : r ≠ 0 := by
    rintro rfl
    rw [ilogOk_iff] at hu1
    simp at hu1; omega
  have hu3' : ilogOk a b (r + 1) = false := by
    rcases hu3 with h | h
    · exact absurd h hr0
    · exact h
  refine ⟨(-r).toNat, by omega, by omega, (ilogOk_iff a b r).1 hu1, ?_⟩
  have : ¬ (b ≤ 10 ^ (-(r + 1)).toNat * a) := by
    rw [← ilogOk_iff]; simp [hu3']
  have e : (-(r + 1)).toNat = (-r).toNat - 1 := by omega
  rw [e] at this
  omega


/-- `str(n)` has exactly `k+1` digits iff `10^k ≤ n < 10^(k+1)` (`n ≥ 1`) -/
theorem natDigits_length_spec (n : Nat) (hn : 1 ≤ n) :
    10 ^ ((natDigits n).length - 1) ≤ n ∧ n < 10 ^ (natDigits n).length := by
  have hpos := natDigits_length_pos n
  constructor
  · by_contra hcon
    push Not at hcon
    rcases Nat.lt_or_ge (natDigits n).length 2 with h2 | h2
    · have : (natDigits n).length - 1 = 0 := by omega
      rw [this] at hcon; simp at hcon; omega
    · have := natDigits_length_le ((natDigits n).length - 2) n (by
        have e : (natDigits n).length - 2 + 1 = (natDigits n).length - 1 := by omega
        rw [e]; exact hcon)
      omega
  · by_contra hcon
    push Not at hcon
    have := natDigits_length_ge (natDigits n).length n hcon
    omega

/-- decimal exponent of a fraction at least one: `ilog10 a b = k`, `10^k ≤ a/b < 10^(k+1)` -/
theorem ilog10_ge (a b : Nat) (hb : 0 < b) (hab : b ≤ a) :
    ∃ k : Nat, ilog10 a b = (k : Int) ∧ 10 ^ k * b ≤ a ∧ a < 10 ^ (k + 1) * b := by
  have h : a ≥ b := hab
  unfold ilog10
  simp only [h, if_true]
  have hq : 1 ≤ a / b := (Nat.le_div_iff_mul_le hb).2 (by simpa using hab)
  obtain ⟨h1, h2⟩ := natDigits_length_spec (a / b) hq
  have hpos := natDigits_length_pos (a / b)
  refine ⟨(natDigits (a / b)).length - 1, by omega, ?_, ?_⟩
  · exact (Nat.le_div_iff_mul_le hb).1 h1
  · have e : (natDigits (a / b)).length - 1 + 1 = (natDigits (a / b)).length := by omega
    rw [e]
    exact (Nat.div_lt_iff_lt_mul hb).1 h2


/-! ### the same over ℚ -/

theorem rheDiv_rat (a b : Nat) (hb : 0 < b) : |((rheDiv a b : ℕ) : ℚ) - (a : ℚ) / b| ≤ 1 / 2 := by
  obtain ⟨e1, e2⟩ := rheDiv_err a b hb
  have hbq : (0 : ℚ) < b := by exact_mod_cast hb
  have e1' : (2 * ((rheDiv a b : ℕ) * b) : ℚ) ≤ 2 * a + b := by exact_mod_cast e1
  have e2' : (2 * a : ℚ) ≤ 2 * ((rheDiv a b : ℕ) * b) + b := by exact_mod_cast e2
  rw [abs_le]
  constructor
  · rw [neg_le_sub_iff_le_add, div_le_iff₀ hbq]
    nlinarith
  · rw [sub_le_iff_le_add, ← sub_le_iff_le_add', le_div_iff₀ hbq]
    nlinarith

theorem ilog10_rat (a b : Nat) (ha : 0 < a) (hb : 0 < b) :
    (10 : ℚ) ^ (ilog10 a b) ≤ (a : ℚ) / b ∧ (a : ℚ) / b < (10 : ℚ) ^ (ilog10 a b + 1) := by
  have hbq : (0 : ℚ) < b := by exact_mod_cast hb
  have haq : (0 : ℚ) < a := by exact_mod_cast ha
  rcases Nat.lt_or_ge a b with hab | hab
  · obtain ⟨j, hj, he, h1, h2⟩ := ilog10_lt a b ha hab
    rw [he]
    have h1' : (b : ℚ) ≤ 10 ^ j * a := by exact_mod_cast h1
    have h2' : (10 : ℚ) ^ (j - 1) * a < b := by exact_mod_cast h2
    have hp : (0 : ℚ) < 10 ^ j := by positivity
    have hp1 : (0 : ℚ) < 10 ^ (j - 1) := by positivity
    constructor
    · rw [zpow_neg, zpow_natCast, le_div_iff₀ hbq, inv_mul_le_iff₀ hp]
      exact h1'
    · have e : (-(j : Int) + 1) = -((j - 1 : Nat) : Int) := by omega
      rw [e, zpow_neg, zpow_natCast, div_lt_iff₀ hbq, lt_inv_mul_iff₀ hp1]
      exact h2'
  · obtain ⟨k, he, h1, h2⟩ := ilog10_ge a b hb hab
    rw [he]
    have h1' : (10 : ℚ) ^ k * b ≤ a := by exact_mod_cast h1
    have h2' : (a : ℚ) < 10 ^ (k + 1) * b := by exact_mod_cast h2
    constructor
    · rw [zpow_natCast, le_div_iff₀ hbq]; exact h1'
    · have e : ((k : Int) + 1) = ((k + 1 : Nat) : Int) := by push_cast; ring
      rw [e, zpow_natCast, div_lt_iff₀ hbq]; exact h2'


/-- an integer within half a unit of a rational in `[10^p, 10^(p+1))` lies in `[10^p, 10^(p+1)]` -/
theorem round_range (N p : Nat) (y : ℚ) (h : |(N : ℚ) - y| ≤ 1 / 2) (h1 : (10 : ℚ) ^ p ≤ y)
    (h2 : y < (10 : ℚ) ^ (p + 1)) : 10 ^ p ≤ N ∧ N ≤ 10 ^ (p + 1) := by
  rw [abs_le] at h
  constructor
  · have : ((10 ^ p : ℕ) : ℚ) < (N : ℚ) + 1 := by push_cast; linarith [h.1]
    have : 10 ^ p < N + 1 := by exact_mod_cast this
    omega
  · have : (N : ℚ) < ((10 ^ (p + 1) : ℕ) : ℚ) + 1 := by push_cast; linarith [h.2]
    have : N < 10 ^ (p + 1) + 1 := by exact_mod_cast this
    omega

/-- **`%.pe`**: the significant digits `N` and the exponent `e` printed for `|x| = num/den > 0`:
`10^p ≤ N < 10^(p+1)`, `|N − |x|·10^(p−e)| ≤ ½`, and `e` is the decimal exponent `e₀` of `|x|`
or `e₀ + 1` (rounding up to the next power of ten). -/
theorem eParts_spec (p : Nat) (x : Dbl) (hn : 0 < x.num) (hd : 0 < x.den) :
    10 ^ p ≤ (eParts p x).1 ∧ (eParts p x).1 < 10 ^ (p + 1) ∧
    |(((eParts p x).1 : ℕ) : ℚ) - (x.num : ℚ) / x.den * (10 : ℚ) ^ ((p : Int) - (eParts p x).2)| ≤ 1 / 2 ∧
    ∃ e0 : Int, (10 : ℚ) ^ e0 ≤ (x.num : ℚ) / x.den ∧ (x.num : ℚ) / x.den < (10 : ℚ) ^ (e0 + 1) ∧
      ((eParts p x).2 = e0 ∨ (eParts p x).2 = e0 + 1) := by
  obtain ⟨hl1, hl2⟩ := ilog10_rat x.num x.den hn hd
  have hdq : (0 : ℚ) < x.den := by exact_mod_cast hd
  have hnq : (0 : ℚ) < x.num := by exact_mod_cast hn
  have h10 : (10 : ℚ) ≠ 0 := by norm_num
  generalize he0 : ilog10 x.num x.den = e0 at hl1 hl2
  generalize hX : (x.num : ℚ) / x.den = X at hl1 hl2
  have hXpos : 0 < X := by rw [← hX]; positivity
  have hnz : (x.num == 0) = false := by
    have : x.num ≠ 0 := by omega
    simp [this]
  -- the first rounding
  obtain ⟨N0, hN0⟩ : ∃ N0, N0 = (if (p : Int) - e0 ≥ 0 then rheDiv (x.num * 10 ^ ((p : Int) - e0).toNat) x.den
      else rheDiv x.num (x.den * 10 ^ (-((p : Int) - e0)).toNat)) := ⟨_, rfl⟩
  have herr : |(N0 : ℚ) - X * (10 : ℚ) ^ ((p : Int) - e0)| ≤ 1 / 2 := by
    rw [hN0]
    by_cases hsh : (p : Int) - e0 ≥ 0
    · simp only [hsh, if_true]
      have := rheDiv_rat (x.num * 10 ^ ((p : Int) - e0).toNat) x.den hd
      have e : ((x.num * 10 ^ ((p : Int) - e0).toNat : ℕ) : ℚ) / x.den =
          X * (10 : ℚ) ^ ((p : Int) - e0) := by
        rw [← hX]
        have : ((p : Int) - e0) = (((p : Int) - e0).toNat : Int) := by omega
        conv_rhs => rw [this, zpow_natCast]
        push_cast; ring
      rw [e] at this; exact this
    · simp only [hsh, if_false]
      have hpos : 0 < x.den * 10 ^ (-((p : Int) - e0)).toNat := by positivity
      have := rheDiv_rat x.num (x.den * 10 ^ (-((p : Int) - e0)).toNat) hpos
      have e : (x.num : ℚ) / ((x.den * 10 ^ (-((p : Int) - e0)).toNat : ℕ) : ℚ) =
          X * (10 : ℚ) ^ ((p : Int) - e0) := by
        rw [← hX]
        have : ((p : Int) - e0) = -((-((p : Int) - e0)).toNat : Int) := by omega
        conv_rhs => rw [this, zpow_neg, zpow_natCast]
        push_cast
        field_simp
      rw [e] at this; exact this
  -- the scaled value lies in [10^p, 10^(p+1))
  have hy1 : (10 : ℚ) ^ p ≤ X * (10 : ℚ) ^ ((p : Int) - e0) := by
    have : (10 : ℚ) ^ (p : Int) = (10 : ℚ) ^ e0 * (10 : ℚ) ^ ((p : Int) - e0) := by
      rw [← zpow_add₀ h10]; congr 1; ring
    rw [← zpow_natCast, this]
    exact mul_le_mul_of_nonneg_right hl1 (by positivity)
  have hy2 : X * (10 : ℚ) ^ ((p : Int) - e0) < (10 : ℚ) ^ (p + 1) := by
    have : (10 : ℚ) ^ ((p + 1 : ℕ) : Int) = (10 : ℚ) ^ (e0 + 1) * (10 : ℚ) ^ ((p : Int) - e0) := by
      rw [← zpow_add₀ h10]; congr 1; push_cast; ring
    rw [← zpow_natCast, this]
    exact mul_lt_mul_of_pos_right hl2 (by positivity)
  obtain ⟨hr1, hr2⟩ := round_range N0 p _ herr hy1 hy2
  have hparts : eParts p x = if N0 ≥ 10 ^ (p + 1) then (N0 / 10, e0 + 1) else (N0, e0) := by
    unfold eParts
    simp only [hnz, Bool.false_eq_true, if_false, he0, ← hN0]
  rw [hparts]
  by_cases hc : N0 ≥ 10 ^ (p + 1)
  · have hN : N0 = 10 ^ (p + 1) := by omega
    simp only [hc, if_true]
    have hdiv : N0 / 10 = 10 ^ p := by rw [hN, pow_succ]; simp
    rw [hdiv]
    refine ⟨le_refl _, ?_, ?_, e0, hl1, hl2, Or.inr rfl⟩
    · exact Nat.pow_lt_pow_right (by norm_num) (by omega)
    · have e : X * (10 : ℚ) ^ ((p : Int) - (e0 + 1)) = X * (10 : ℚ) ^ ((p : Int) - e0) / 10 := by
        have : ((p : Int) - (e0 + 1)) = ((p : Int) - e0) + (-1) := by ring
        rw [this, zpow_add₀ h10]; simp; ring
      rw [e]
      rw [hN] at herr
      push_cast at herr ⊢
      rw [abs_le] at herr ⊢
      have hp : (10 : ℚ) ^ (p + 1) = 10 * 10 ^ p := by rw [pow_succ]; ring
      constructor <;> linarith [herr.1, herr.2]
  · simp only [hc, if_false]
    exact ⟨hr1, by omega, herr, e0, hl1, hl2, Or.inl rfl⟩

end PyYetiVerif.PyFloat
