import PyYetiVerif.Model.Op4Ascii
import PyYetiVerif.Lemmas.Op4
/-! Helper lemmas for the ASCII half of C04 (core Lean only): text primitives, `int()` / `float()`
of what the writer prints, lines, the reader's slices. -/
namespace PyYetiVerif.Op4A
open PyYetiVerif.Op4 PyYetiVerif.Generated.Op4Consts

/-! ### `dropWhile`, `strip` -/

theorem dropWhile_all {α} {p : α → Bool} : ∀ (a b : List α), (∀ x ∈ a, p x = true) →
    (a ++ b).dropWhile p = b.dropWhile p := by
  intro a
  induction a with
  | nil => intro b _; rfl
  | cons x t ih =>
    intro b h
    have hx := h x List.mem_cons_self
    simp only [List.cons_append, List.dropWhile_cons, hx, if_true]
    exact ih b fun y hy => h y (List.mem_cons_of_mem _ hy)

theorem dropWhile_none {α} {p : α → Bool} (l : List α) (h : ∀ x ∈ l, p x = false) : l.dropWhile p = l := by
  cases l with
  | nil => rfl
  | cons x t => simp [h x List.mem_cons_self]

theorem takeWhile_all {α} {p : α → Bool} : ∀ (a b : List α), (∀ x ∈ a, p x = true) →
    (a ++ b).takeWhile p = a ++ b.takeWhile p := by
  intro a
  induction a with
  | nil => intro b _; rfl
  | cons x t ih =>
    intro b h
    have hx := h x List.mem_cons_self
    simp only [List.cons_append, List.takeWhile_cons, hx, if_true]
    rw [ih b fun y hy => h y (List.mem_cons_of_mem _ hy)]

/-- stripping blanks around a body without blanks -/
theorem strip_body (a body b : Str) (ha : ∀ x ∈ a, isWs x = true) (hb : ∀ x ∈ b, isWs x = true)
    (hbody : ∀ x ∈ body, isWs x = false) : strip (a ++ body ++ b) = body := by
  unfold strip lstrip rstrip
  rw [List.append_assoc, dropWhile_all a _ ha]
  cases body with
  | nil =>
    have := dropWhile_all b [] hb
    simp only [List.append_nil, List.dropWhile_nil] at this
    simp [this]
  | cons c cs =>
    have h1 : ((c :: cs) ++ b).dropWhile isWs = (c :: cs) ++ b := by
      simp [hbody c List.mem_cons_self]
    rw [h1, List.reverse_append, dropWhile_all b.reverse _ (fun x hx => hb x (List.mem_reverse.1 hx)),
      dropWhile_none _ (fun x hx => hbody x (List.mem_reverse.1 hx)), List.reverse_reverse]

/-! ### digits -/

/-- the characters of `str(n)` -/
def intChars (n : Int) : Str :=
  if n < 0 then '-' :: Nat.toDigits 10 n.natAbs else Nat.toDigits 10 n.natAbs

theorem toString_int (n : Int) : (toString n).toList = intChars n := by
  cases n with
  | ofNat k => simp [toString, Int.repr, intChars]
  | negSucc k =>
    have : Int.negSucc k < 0 := Int.negSucc_lt_zero k
    simp [toString, Int.repr, intChars, this]

theorem isDigit_not_ws (c : Char) (h : c.isDigit = true) : isWs c = false := by
  simp only [Char.isDigit, Bool.and_eq_true, decide_eq_true_eq] at h
  have h1 : c.val.toNat = c.toNat := rfl
  have : 48 ≤ c.toNat ∧ c.toNat ≤ 57 := by
    have a : '0'.val ≤ c.val := h.1
    have b : c.val ≤ '9'.val := h.2
    rw [UInt32.le_iff_toNat_le] at a b
    exact ⟨a, b⟩
  unfold isWs
  have hne : (c == ' ') = false := by
    rw [beq_eq_false_iff_ne]
    intro hc; rw [hc] at this; simp at this
  simp [hne]
  omega

theorem toDigits_isDigit (k : Nat) : ∀ c ∈ Nat.toDigits 10 k, c.isDigit = true :=
  fun _ hc => Nat.isDigit_of_mem_toDigits (by decide) (by decide) hc

theorem allDigits_toDigits (k : Nat) : allDigits (Nat.toDigits 10 k) = true := by
  unfold allDigits
  have h1 : (Nat.toDigits 10 k).isEmpty = false := by
    cases h : Nat.toDigits 10 k with
    | nil => exact absurd h Nat.toDigits_ne_nil
    | cons _ _ => rfl
  simp only [h1, Bool.not_false, Bool.true_and, List.all_eq_true]
  exact toDigits_isDigit k

theorem splitSign_digit (c : Char) (cs : Str) (h : c.isDigit = true) : splitSign (c :: cs) = (false, c :: cs) := by
  unfold splitSign
  split
  · rename_i r heq
    injection heq with h1 _
    rw [h1] at h; exact absurd h (by decide)
  · rename_i r heq
    injection heq with h1 _
    rw [h1] at h; exact absurd h (by decide)
  · rfl

theorem splitSign_toDigits (k : Nat) : splitSign (Nat.toDigits 10 k) = (false, Nat.toDigits 10 k) := by
  cases h : Nat.toDigits 10 k with
  | nil => exact absurd h Nat.toDigits_ne_nil
  | cons c cs =>
    exact splitSign_digit c cs (toDigits_isDigit k c (by rw [h]; exact List.mem_cons_self))

theorem digitsVal_toDigits (k : Nat) : digitsVal (Nat.toDigits 10 k) = k := Nat.ofDigitChars_ten_toDigits

theorem intChars_not_ws (n : Int) : ∀ x ∈ intChars n, isWs x = false := by
  intro x hx
  unfold intChars at hx
  split at hx
  · rcases List.mem_cons.1 hx with h | h
    · rw [h]; decide
    · exact isDigit_not_ws x (toDigits_isDigit _ x h)
  · exact isDigit_not_ws x (toDigits_isDigit _ x hx)

/-- `int()` of a printed integer between blanks -/
theorem pyInt_intChars (a b : Str) (n : Int) (ha : ∀ x ∈ a, isWs x = true) (hb : ∀ x ∈ b, isWs x = true) :
    pyInt? (a ++ intChars n ++ b) = some n := by
  unfold pyInt?
  rw [strip_body a _ b ha hb (intChars_not_ws n)]
  unfold intChars
  by_cases hn : n < 0
  · simp only [hn, if_true]
    show (if allDigits (Nat.toDigits 10 n.natAbs) = true then
      some (if true = true then -(digitsVal (Nat.toDigits 10 n.natAbs) : Int) else _) else none) = some n
    rw [allDigits_toDigits, digitsVal_toDigits]
    simp only [if_true]
    congr 1; omega
  · simp only [hn, if_false, splitSign_toDigits, allDigits_toDigits, digitsVal_toDigits, if_true]
    simp only [Bool.false_eq_true, if_false]
    congr 1; omega

theorem replicate_ws (k : Nat) : ∀ x ∈ List.replicate k ' ', isWs x = true := by
  intro x hx
  rw [List.eq_of_mem_replicate hx]; decide

theorem fmtInt_eq (w : Nat) (n : Int) :
    fmtInt w n = List.replicate (w - (intChars n).length) ' ' ++ intChars n := by
  unfold fmtInt padLeft
  rw [toString_int]

theorem pyInt_fmtInt (w : Nat) (n : Int) (b : Str) (hb : ∀ x ∈ b, isWs x = true) :
    pyInt? (fmtInt w n ++ b) = some n := by
  rw [fmtInt_eq]
  exact pyInt_intChars _ b n (replicate_ws _) hb

theorem pyInt_fmtInt' (w : Nat) (n : Int) : pyInt? (fmtInt w n) = some n := by
  have := pyInt_fmtInt w n [] (by simp)
  simpa using this

/-- an integer of at most `w` characters is printed in exactly `w` -/
theorem fmtInt_length (w : Nat) (n : Int) (h : (intChars n).length ≤ w) : (fmtInt w n).length = w := by
  rw [fmtInt_eq]; simp; omega

theorem intChars_length_nat (k w : Nat) (hw : 0 < w) (h : k < 10 ^ w) : (intChars (k : Int)).length ≤ w := by
  unfold intChars
  have : ¬ ((k : Int) < 0) := by omega
  simp only [this, if_false, Int.natAbs_natCast]
  exact (Nat.length_toDigits_le_iff (by decide) hw).2 h

theorem intChars_length_neg (k w : Nat) (hw : 0 < w) (h : k < 10 ^ w) : (intChars (-(k : Int))).length ≤ w + 1 := by
  unfold intChars
  split
  · simp only [List.length_cons, Int.natAbs_neg, Int.natAbs_natCast]
    have := (Nat.length_toDigits_le_iff (b := 10) (n := k) (by decide) hw).2 h
    omega
  · simp only [Int.natAbs_neg, Int.natAbs_natCast]
    have := (Nat.length_toDigits_le_iff (b := 10) (n := k) (by decide) hw).2 h
    omega

/-! ### `float()` of a `%E` field -/

theorem digitChar_toNat (n : Nat) : (Op4.digitChar n).toNat = 48 + n % 10 := by
  unfold Op4.digitChar
  have h : (48 + n % 10).isValidChar := by
    left; omega
  simp [Char.ofNat, h, Char.toNat, Char.ofNatAux]
  omega

theorem digitChar_isDigit (n : Nat) : (Op4.digitChar n).isDigit = true := by
  have h := digitChar_toNat n
  simp only [Char.isDigit, Bool.and_eq_true, decide_eq_true_eq]
  have h1 : (Op4.digitChar n).val.toNat = 48 + n % 10 := h
  constructor
  · show '0'.val ≤ _
    rw [UInt32.le_iff_toNat_le, h1]
    show 48 ≤ 48 + n % 10
    omega
  · show _ ≤ '9'.val
    rw [UInt32.le_iff_toNat_le, h1]
    show 48 + n % 10 ≤ 57
    omega

theorem fixedDigits_isDigit : ∀ (k m : Nat), ∀ c ∈ fixedDigits k m, c.isDigit = true := by
  intro k
  induction k with
  | zero => intro m c hc; simp [fixedDigits] at hc
  | succ k ih =>
    intro m c hc
    simp only [fixedDigits, List.mem_append, List.mem_singleton] at hc
    rcases hc with h | h
    · exact ih _ c h
    · rw [h]; exact digitChar_isDigit m

theorem digitsVal_snoc (l : Str) (n : Nat) : digitsVal (l ++ [Op4.digitChar n]) = 10 * digitsVal l + n % 10 := by
  unfold digitsVal
  rw [Nat.ofDigitChars_append]
  simp only [Nat.ofDigitChars, List.foldl_cons, List.foldl_nil, digitChar_toNat]
  show 10 * _ + (48 + n % 10 - 48) = _
  omega

theorem digitsVal_fixedDigits : ∀ (k m : Nat), digitsVal (fixedDigits k m) = m % 10 ^ k := by
  intro k
  induction k with
  | zero => intro m; simp [fixedDigits, digitsVal, Nat.mod_one]
  | succ k ih =>
    intro m
    rw [fixedDigits, digitsVal_snoc, ih, Nat.pow_succ', Nat.mod_mul]
    omega

theorem expDigits_isDigit (n : Nat) (h : n < 1000) : ∀ c ∈ expDigits n, c.isDigit = true := by
  intro c hc
  unfold expDigits at hc
  by_cases h1 : n < 100
  · simp only [h1, if_true, List.mem_cons, List.not_mem_nil, or_false] at hc
    rcases hc with h | h <;> rw [h] <;> exact digitChar_isDigit _
  · simp only [h1, if_false, h, if_true, List.mem_cons, List.not_mem_nil, or_false] at hc
    rcases hc with h | h | h <;> rw [h] <;> exact digitChar_isDigit _

theorem digitsVal_expDigits (n : Nat) (h : n < 1000) : digitsVal (expDigits n) = n := by
  unfold expDigits
  by_cases h0 : n < 100
  · simp only [h0, if_true]
    have := digitsVal_snoc [Op4.digitChar (n / 10)] n
    have h2 := digitsVal_snoc [] (n / 10)
    simp only [List.nil_append, List.cons_append] at this h2
    rw [this, h2]
    simp [digitsVal]; omega
  · simp only [h0, if_false, h, if_true]
    have h3 := digitsVal_snoc [Op4.digitChar (n / 100), Op4.digitChar (n / 10)] n
    have h2 := digitsVal_snoc [Op4.digitChar (n / 100)] (n / 10)
    have h1 := digitsVal_snoc [] (n / 100)
    simp only [List.nil_append, List.cons_append] at h1 h2 h3
    rw [h3, h2, h1]
    simp [digitsVal]; omega

theorem allDigits_of (l : Str) (hne : l ≠ []) (h : ∀ c ∈ l, c.isDigit = true) : allDigits l = true := by
  unfold allDigits
  cases l with
  | nil => exact absurd rfl hne
  | cons c cs => simpa using h

theorem expDigits_ne_nil (n : Nat) (h : n < 1000) : expDigits n ≠ [] := by
  unfold expDigits; split <;> simp [h]

/-- the exact decimal printed by `%E`: sign, the `d + 1` digit mantissa, exponent of the last digit -/
def sciDec (d : Nat) (s : Sci) : Dec10 := { neg := s.neg, man := s.mant, exp := s.e10 - (d : Int) }

theorem not_digit_dot : Char.isDigit '.' = false := by decide
theorem not_digit_E : Char.isDigit 'E' = false := by decide

/-- `float()` of a `%E` field between blanks: exactly the printed decimal -/
theorem pyFloat_sciChars (d : Nat) (s : Sci) (a b : Str) (hd : 1 ≤ d) (hm : s.mant < 10 ^ (d + 1))
    (he : s.e10.natAbs < 1000) (ha : ∀ x ∈ a, isWs x = true) (hb : ∀ x ∈ b, isWs x = true) :
    pyFloat? (a ++ sciChars d s ++ b) = some (sciDec d s) := by
  have hd0 : ¬ d = 0 := by omega
  -- the digits
  obtain ⟨c0, rest, hds, hrl⟩ : ∃ c0 rest, fixedDigits (d + 1) s.mant = c0 :: rest ∧ rest.length = d := by
    have hl := fixedDigits_length (d + 1) s.mant
    cases hfd : fixedDigits (d + 1) s.mant with
    | nil => rw [hfd] at hl; simp at hl
    | cons c0 rest => rw [hfd] at hl; exact ⟨c0, rest, rfl, by simpa using hl⟩
  have hdig : ∀ c ∈ c0 :: rest, c.isDigit = true := by
    rw [← hds]; exact fixedDigits_isDigit _ _
  have hc0 : c0.isDigit = true := hdig c0 List.mem_cons_self
  have hrest : ∀ c ∈ rest, c.isDigit = true := fun c hc => hdig c (List.mem_cons_of_mem _ hc)
  have hval : digitsVal (c0 :: rest) = s.mant := by
    rw [← hds, digitsVal_fixedDigits, Nat.mod_eq_of_lt hm]
  have hexp := expDigits_isDigit _ he
  have hexpv := digitsVal_expDigits _ he
  have hexpa := allDigits_of _ (expDigits_ne_nil _ he) hexp
  -- the body without blanks
  have hbody : ∀ x ∈ sciChars d s, isWs x = false := by
    intro x hx
    unfold sciChars at hx
    simp only [hd0, if_false, hds, List.take_succ_cons, List.take_zero, List.drop_succ_cons, List.drop_zero,
      List.mem_append, List.mem_cons, List.not_mem_nil, or_false] at hx
    rcases hx with ((((h | h) | h) | h) | h)
    · split at h
      · simp only [List.mem_cons, List.not_mem_nil, or_false] at h; rw [h]; decide
      · simp at h
    · rw [h]; exact isDigit_not_ws _ hc0
    · rcases h with h | h
      · rw [h]; decide
      · exact isDigit_not_ws _ (hrest x h)
    · rcases h with h | h
      · rw [h]; decide
      · rw [h]; split <;> decide
    · exact isDigit_not_ws _ (hexp x h)
  unfold pyFloat?
  rw [strip_body a _ b ha hb hbody]
  -- what remains after the sign
  have hsplit : splitSign (sciChars d s) =
      (s.neg, c0 :: '.' :: (rest ++ 'E' :: (if s.e10 < 0 then '-' else '+') :: expDigits s.e10.natAbs)) := by
    unfold sciChars
    simp only [hd0, if_false, hds, List.take_succ_cons, List.take_zero, List.drop_succ_cons, List.drop_zero]
    cases s.neg
    · simp only [Bool.false_eq_true, if_false, List.nil_append, List.cons_append, List.append_assoc]
      exact splitSign_digit _ _ hc0
    · simp only [if_true, List.cons_append, List.nil_append, List.append_assoc]
      rfl
  rw [hsplit]
  have h1 : (c0 :: '.' :: (rest ++ 'E' :: (if s.e10 < 0 then '-' else '+') :: expDigits s.e10.natAbs)).takeWhile Char.isDigit = [c0] := by
    simp [List.takeWhile_cons, hc0, not_digit_dot]
  have h2 : (c0 :: '.' :: (rest ++ 'E' :: (if s.e10 < 0 then '-' else '+') :: expDigits s.e10.natAbs)).dropWhile Char.isDigit
      = '.' :: (rest ++ 'E' :: (if s.e10 < 0 then '-' else '+') :: expDigits s.e10.natAbs) := by
    simp [List.dropWhile_cons, hc0, not_digit_dot]
  have h3 : (rest ++ 'E' :: (if s.e10 < 0 then '-' else '+') :: expDigits s.e10.natAbs).takeWhile Char.isDigit = rest := by
    rw [takeWhile_all rest _ hrest]; simp [List.takeWhile_cons, not_digit_E]
  have h4 : (rest ++ 'E' :: (if s.e10 < 0 then '-' else '+') :: expDigits s.e10.natAbs).dropWhile Char.isDigit
      = 'E' :: (if s.e10 < 0 then '-' else '+') :: expDigits s.e10.natAbs := by
    rw [dropWhile_all rest _ hrest]; simp [List.dropWhile_cons, not_digit_E]
  simp only [h1, h2, h3, h4]
  have h5 : splitSign ((if s.e10 < 0 then '-' else '+') :: expDigits s.e10.natAbs)
      = (decide (s.e10 < 0), expDigits s.e10.natAbs) := by
    by_cases hneg : s.e10 < 0 <;> simp [hneg, splitSign]
  simp only [h5, hexpa, hexpv]
  have hman : digitsVal ([c0] ++ rest) = s.mant := hval
  simp only [hman, hrl]
  unfold sciDec
  by_cases hneg : s.e10 < 0
  · simp [hneg]; omega
  · simp [hneg]; omega

/-! ### lines -/

theorem linesOf_line (l rest : Str) (h : ∀ c ∈ l, c ≠ '\n') :
    linesOf (l ++ '\n' :: rest) = (l ++ ['\n']) :: linesOf rest := by
  induction l with
  | nil => simp [linesOf]
  | cons c t ih =>
    have hc : c ≠ '\n' := h c List.mem_cons_self
    have := ih fun x hx => h x (List.mem_cons_of_mem _ hx)
    simp only [List.cons_append, linesOf, hc, if_false, this]

/-- `txt` is exactly the lines `ls` (each terminated): whatever follows starts on a new line -/
def IsLines (txt : Str) (ls : List Str) : Prop := ∀ rest, linesOf (txt ++ rest) = ls ++ linesOf rest

theorem IsLines.nil : IsLines [] [] := fun _ => rfl

theorem IsLines.append {a b : Str} {la lb : List Str} (ha : IsLines a la) (hb : IsLines b lb) :
    IsLines (a ++ b) (la ++ lb) := by
  intro rest
  rw [List.append_assoc, ha, hb, List.append_assoc]

theorem IsLines.line (l : Str) (h : ∀ c ∈ l, c ≠ '\n') : IsLines (l ++ ['\n']) [l ++ ['\n']] := by
  intro rest
  rw [List.append_assoc]
  exact linesOf_line l rest h

theorem IsLines.flatMap {α} (f : α → Str) (g : α → List Str) :
    ∀ (xs : List α), (∀ x ∈ xs, IsLines (f x) (g x)) → IsLines (xs.flatMap f) (xs.flatMap g) := by
  intro xs
  induction xs with
  | nil => intro _; exact IsLines.nil
  | cons x t ih =>
    intro h
    simp only [List.flatMap_cons]
    exact (h x List.mem_cons_self).append (ih fun y hy => h y (List.mem_cons_of_mem _ hy))

theorem IsLines.eq {txt : Str} {ls : List Str} (h : IsLines txt ls) : linesOf txt = ls := by
  have := h []
  simpa [linesOf] using this

/-! ### the reader's slices -/

/-- cutting a concatenation of fields of width `w` gives the fields back, whatever follows -/
theorem fields_flatten (w : Nat) : ∀ (fs : List Str) (tail : Str) (k : Nat), (∀ f ∈ fs, f.length = w) →
    fields w (fs.length + k) (fs.flatten ++ tail) = fs ++ fields w k tail := by
  intro fs
  induction fs with
  | nil => intro tail k _; simp
  | cons f t ih =>
    intro tail k h
    have hf := h f List.mem_cons_self
    have : (f :: t).length + k = (t.length + k) + 1 := by simp; omega
    rw [this, fields]
    simp only [List.flatten_cons, List.append_assoc]
    rw [List.take_left' hf, List.drop_left' hf, ih tail k fun g hg => h g (List.mem_cons_of_mem _ hg)]
    rfl

theorem fields_zero (w : Nat) (s : Str) : fields w 0 s = [] := rfl

/-- fields, `p` to a line, every line terminated (the shape of `valueLines`) -/
def chunkLines (p : Nat) : Nat → List Str → List Str
  | _, [] => []
  | 0, _ => []
  | fuel + 1, f :: fs =>
    (((f :: fs).take p).flatten ++ ['\n']) ::
      (if (f :: fs).length ≤ p then [] else chunkLines p fuel ((f :: fs).drop p))

theorem flatten_length_of_width (w : Nat) (fs : List Str) (h : ∀ f ∈ fs, f.length = w) :
    fs.flatten.length = fs.length * w := by
  induction fs with
  | nil => simp
  | cons f t ih =>
    rw [List.flatten_cons, List.length_append, h f List.mem_cons_self,
      ih fun g hg => h g (List.mem_cons_of_mem _ hg), List.length_cons]
    rw [Nat.add_mul]; omega

theorem chunkLines_length (p : Nat) (hp : 1 ≤ p) : ∀ (fuel : Nat) (fs : List Str), fs ≠ [] → fs.length ≤ fuel →
    (chunkLines p fuel fs).length = (fs.length - 1) / p + 1 := by
  intro fuel
  induction fuel with
  | zero => intro fs hne hl; cases fs with
    | nil => exact absurd rfl hne
    | cons _ _ => simp at hl
  | succ fuel ih =>
    intro fs hne hl
    cases fs with
    | nil => exact absurd rfl hne
    | cons f t =>
      by_cases h : t.length + 1 ≤ p
      · simp only [chunkLines, List.length_cons, h, if_true, List.length_nil]
        have : (t.length + 1 - 1) / p = 0 := Nat.div_eq_of_lt (by omega)
        omega
      · simp only [chunkLines, List.length_cons, h, if_false]
        have hd : ((f :: t).drop p) ≠ [] := by
          intro hnil
          have := congrArg List.length hnil
          simp at this; omega
        rw [ih _ hd (by simp at hl ⊢; omega)]
        simp only [List.length_drop, List.length_cons]
        have : (t.length + 1 - 1) = (t.length + 1 - p - 1) + p := by omega
        rw [this, Nat.add_div_right _ (by omega)]

/-- the block the reader builds from the value lines, cut into `n` fields, is the written fields
(`ascii_slicing`): any width `w ≥ 1`, any `p ≥ 1` per line, any count, last line partial or not -/
theorem fields_chunkLines (w p : Nat) (hw : 1 ≤ w) (hp : 1 ≤ p) : ∀ (fuel : Nat) (fs : List Str),
    fs.length ≤ fuel → (∀ f ∈ fs, f.length = w) →
    fields w fs.length (((chunkLines p fuel fs).map fun ln => ln.take (p * w)).flatten) = fs := by
  intro fuel
  induction fuel with
  | zero =>
    intro fs hl _
    cases fs with
    | nil => rfl
    | cons _ _ => simp at hl
  | succ fuel ih =>
    intro fs hl hall
    cases fs with
    | nil => rfl
    | cons f t =>
      by_cases h : t.length + 1 ≤ p
      · simp only [chunkLines, List.length_cons, h, if_true, List.map_cons, List.map_nil, List.flatten_cons,
          List.flatten_nil, List.append_nil]
        have ht : (f :: t).take p = f :: t := List.take_of_length_le (by simpa using h)
        rw [ht]
        have hlen := flatten_length_of_width w (f :: t) hall
        have hle : (f :: t).flatten.length ≤ p * w := by
          rw [hlen]; exact Nat.mul_le_mul_right w (by simpa using h)
        rw [List.take_append, List.take_of_length_le hle]
        have := fields_flatten w (f :: t) (List.take (p * w - (f :: t).flatten.length) ['\n']) 0 hall
        simpa [fields_zero] using this
      · simp only [chunkLines, List.length_cons, h, if_false, List.map_cons, List.flatten_cons]
        have hall1 : ∀ g ∈ (f :: t).take p, g.length = w := fun g hg => hall g (List.mem_of_mem_take hg)
        have hl1 : ((f :: t).take p).length = p := by simp; omega
        have hlen := flatten_length_of_width w _ hall1
        rw [hl1] at hlen
        rw [List.take_append, List.take_of_length_le (by omega), hlen, Nat.sub_self, List.take_zero,
          List.append_nil]
        have hsplit : t.length + 1 = ((f :: t).take p).length + ((f :: t).drop p).length := by
          simp; omega
        rw [hsplit, fields_flatten w _ _ _ hall1,
          ih _ (by simp at hl ⊢; omega) fun g hg => hall g (List.mem_of_mem_drop hg)]
        exact List.take_append_drop p (f :: t)

/-- `_get_ascii_block` on the written value lines: the lines are consumed, nothing else -/
theorem getBlock_chunkLines (g : Cfg) (hp : 1 ≤ g.perline) (fuel : Nat) (fs : List Str) (rest : List Str)
    (hl : fs.length ≤ fuel) :
    getBlock { g with dformat := false } fs.length (chunkLines g.perline fuel fs ++ rest)
      = (((chunkLines g.perline fuel fs).map fun ln => ln.take (g.perline * g.numlen)).flatten, rest) := by
  unfold getBlock
  cases fs with
  | nil => cases fuel <;> simp [chunkLines]
  | cons f t =>
    have hn := chunkLines_length g.perline hp fuel (f :: t) (by simp) hl
    have h0 : ¬ (f :: t).length = 0 := by simp
    simp only [h0, if_false, ← hn, List.take_left', List.drop_left', Bool.false_eq_true]

/-! ### the characters of what the writer prints -/

/-- blank, sign, point, `E`, digit -/
def FieldChar (c : Char) : Prop := c = ' ' ∨ c = '-' ∨ c = '+' ∨ c = '.' ∨ c = 'E' ∨ c.isDigit = true

theorem FieldChar.ne_nl {c : Char} (h : FieldChar c) : c ≠ '\n' := by
  rcases h with h | h | h | h | h | h
  all_goals (intro hc; rw [hc] at h; revert h; decide)

theorem FieldChar.ne_D {c : Char} (h : FieldChar c) : c ≠ 'D' := by
  rcases h with h | h | h | h | h | h
  all_goals (intro hc; rw [hc] at h; revert h; decide)

theorem FieldChar.ne_bar {c : Char} (h : FieldChar c) : c ≠ '|' := by
  rcases h with h | h | h | h | h | h
  all_goals (intro hc; rw [hc] at h; revert h; decide)

theorem intChars_fieldChar (n : Int) : ∀ c ∈ intChars n, FieldChar c := by
  intro c hc
  unfold intChars at hc
  split at hc
  · rcases List.mem_cons.1 hc with h | h
    · exact Or.inr (Or.inl h)
    · exact Or.inr (Or.inr (Or.inr (Or.inr (Or.inr (toDigits_isDigit _ c h)))))
  · exact Or.inr (Or.inr (Or.inr (Or.inr (Or.inr (toDigits_isDigit _ c hc)))))

theorem fmtInt_fieldChar (w : Nat) (n : Int) : ∀ c ∈ fmtInt w n, FieldChar c := by
  intro c hc
  rw [fmtInt_eq, List.mem_append] at hc
  rcases hc with h | h
  · exact Or.inl (List.eq_of_mem_replicate h)
  · exact intChars_fieldChar n c h

theorem sciChars_fieldChar (d : Nat) (s : Sci) (he : s.e10.natAbs < 1000) : ∀ c ∈ sciChars d s, FieldChar c := by
  intro c hc
  have dig : ∀ x, x.isDigit = true → FieldChar x := fun x hx => Or.inr (Or.inr (Or.inr (Or.inr (Or.inr hx))))
  unfold sciChars at hc
  simp only [List.mem_append, List.mem_cons, List.not_mem_nil, or_false] at hc
  rcases hc with ((((h | h) | h) | h) | h)
  · split at h
    · simp only [List.mem_cons, List.not_mem_nil, or_false] at h; exact Or.inr (Or.inl h)
    · simp at h
  · exact dig c (fixedDigits_isDigit _ _ c (List.mem_of_mem_take h))
  · split at h
    · simp at h
    · rcases List.mem_cons.1 h with h | h
      · exact Or.inr (Or.inr (Or.inr (Or.inl h)))
      · exact dig c (fixedDigits_isDigit _ _ c (List.mem_of_mem_drop h))
  · rcases h with h | h
    · exact Or.inr (Or.inr (Or.inr (Or.inr (Or.inl h))))
    · rw [h]; split
      · exact Or.inr (Or.inl rfl)
      · exact Or.inr (Or.inr (Or.inl rfl))
  · exact dig c (expDigits_isDigit _ he c h)

theorem fmtE_fieldChar (d b : Nat) : ∀ c ∈ fmtE d b, FieldChar c := by
  intro c hc
  unfold fmtE at hc
  split at hc
  · unfold padLeft at hc
    rcases List.mem_append.1 hc with h | h
    · exact Or.inl (List.eq_of_mem_replicate h)
    · exact sciChars_fieldChar (d - 1) _ (sci_e10_bound (d - 1) b) c h
  · unfold fmtE0 padLeft at hc
    rcases List.mem_append.1 hc with h | h
    · exact Or.inl (List.eq_of_mem_replicate h)
    · exact sciChars_fieldChar d _ (sci_e10_bound d b) c h

/-! ### value lines -/

theorem valueLines_succ (d fuel : Nat) (x : Nat) (xs : List Nat) :
    valueLines d (fuel + 1) (x :: xs) =
      (((x :: xs).take (perline d)).flatMap (fmtE d)) ++ ['\n'] ++
        (if (x :: xs).length ≤ perline d then [] else valueLines d fuel ((x :: xs).drop (perline d))) := by
  simp [valueLines]

theorem valueLines_isLines (d : Nat) (hp : 1 ≤ perline d) : ∀ (fuel : Nat) (ds : List Nat), ds.length ≤ fuel →
    IsLines (valueLines d fuel ds) (chunkLines (perline d) fuel (ds.map (fmtE d))) := by
  intro fuel
  induction fuel with
  | zero =>
    intro ds hl
    cases ds with
    | nil => simpa [valueLines, chunkLines] using IsLines.nil
    | cons _ _ => simp at hl
  | succ fuel ih =>
    intro ds hl
    cases ds with
    | nil => simpa [valueLines, chunkLines] using IsLines.nil
    | cons x xs =>
      rw [valueLines_succ]
      simp only [List.map_cons, chunkLines, List.length_cons, List.length_map]
      have hline : IsLines ((((x :: xs).take (perline d)).flatMap (fmtE d)) ++ ['\n'])
          [(((fmtE d x :: xs.map (fmtE d)).take (perline d)).flatten ++ ['\n'])] := by
        have : ((fmtE d x :: xs.map (fmtE d)).take (perline d)).flatten
            = ((x :: xs).take (perline d)).flatMap (fmtE d) := by
          rw [← List.map_cons, ← List.map_take, List.flatMap_def]
        rw [this]
        apply IsLines.line
        intro c hc
        obtain ⟨b, _, hb⟩ := List.mem_flatMap.1 hc
        exact (fmtE_fieldChar d b c hb).ne_nl
      by_cases h : xs.length + 1 ≤ perline d
      · simp only [h, if_true, List.append_nil]
        exact hline
      · simp only [h, if_false]
        have := ih ((x :: xs).drop (perline d)) (by simp at hl ⊢; omega)
        rw [List.map_drop, List.map_cons] at this
        exact hline.append this

theorem mem_chunkLines (p : Nat) : ∀ (fuel : Nat) (fs : List Str) (ln : Str), ln ∈ chunkLines p fuel fs →
    ∀ c ∈ ln, c = '\n' ∨ ∃ f ∈ fs, c ∈ f := by
  intro fuel
  induction fuel with
  | zero => intro fs ln h; cases fs <;> simp [chunkLines] at h
  | succ fuel ih =>
    intro fs ln h c hc
    cases fs with
    | nil => simp [chunkLines] at h
    | cons f t =>
      simp only [chunkLines, List.mem_cons] at h
      rcases h with h | h
      · rw [h] at hc
        rcases List.mem_append.1 hc with h1 | h1
        · obtain ⟨g, hg, hcg⟩ := List.mem_flatten.1 h1
          exact Or.inr ⟨g, List.mem_of_mem_take hg, hcg⟩
        · exact Or.inl (by simpa using h1)
      · split at h
        · simp at h
        · rcases ih _ ln h c hc with h2 | ⟨g, hg, hcg⟩
          · exact Or.inl h2
          · exact Or.inr ⟨g, List.mem_of_mem_drop hg, hcg⟩

theorem map_DE_id (s : Str) (h : ∀ c ∈ s, c ≠ 'D') : s.map (fun c => if c = 'D' then 'E' else c) = s := by
  induction s with
  | nil => rfl
  | cons c t ih =>
    simp only [List.map_cons, h c List.mem_cons_self, if_false]
    rw [ih fun x hx => h x (List.mem_cons_of_mem _ hx)]

/-- `_get_ascii_block` on written value lines, D format or not (there is no `D` to replace) -/
theorem getBlock_chunkLines' (g : Cfg) (hp : 1 ≤ g.perline) (fuel : Nat) (fs : List Str) (rest : List Str)
    (hl : fs.length ≤ fuel) (hD : ∀ f ∈ fs, ∀ c ∈ f, c ≠ 'D') :
    getBlock g fs.length (chunkLines g.perline fuel fs ++ rest)
      = (((chunkLines g.perline fuel fs).map fun ln => ln.take (g.perline * g.numlen)).flatten, rest) := by
  have h0 := getBlock_chunkLines g hp fuel fs rest hl
  cases hdf : g.dformat with
  | false =>
    have : g = { g with dformat := false } := by cases g; simp_all
    rw [this]; exact h0
  | true =>
    unfold getBlock at h0 ⊢
    simp only [Bool.false_eq_true, if_false] at h0
    simp only [hdf, if_true]
    have hid := map_DE_id (((chunkLines g.perline fuel fs).map fun ln => ln.take (g.perline * g.numlen)).flatten) (by
      intro c hc
      obtain ⟨ln', hln', hc'⟩ := List.mem_flatten.1 hc
      obtain ⟨ln, hln, rfl⟩ := List.mem_map.1 hln'
      rcases mem_chunkLines _ _ _ ln hln c (List.mem_of_mem_take hc') with h | ⟨f, hf, hcf⟩
      · rw [h]; decide
      · exact hD f hf c hcf)
    have h1 := congrArg Prod.fst h0
    have h2 := congrArg Prod.snd h0
    simp only at h1 h2
    rw [Prod.mk.injEq]
    exact ⟨by rw [h1, hid], h2⟩

end PyYetiVerif.Op4A
