import PyYetiVerif.Lemmas.SuCoefDelconj
import PyYetiVerif.Props.C01Coupled
/-!
Helper lemmas for the real recovery of the coupled path of C01: one step and the whole loop in
terms of the kept modal state.
-/
namespace PyYetiVerif.SuCoef
open Matrix PyYetiVerif.C01 ComplexConjugate

set_option linter.unusedSectionVars false

variable {n N : ℕ}

/-- the specification of the kept eigen-data: the rebuilt full decomposition diagonalises `A` -/
structure DelconjSpec (e : Eig ℂ n N) (cpx : Fin N → Bool) (isSmall : ℂ → Bool)
    (A : Matrix (Fin n ⊕ Fin n) (Fin n ⊕ Fin n) ℂ) : Prop where
  hUV : fullU e cpx * fullV e cpx = 1
  hVU : fullV e cpx * fullU e cpx = 1
  hAU : A * fullU e cpx = fullU e cpx * diagonal (fullLam e cpx)
  real : RealModes e cpx
  small : ∀ k, (isSmall (e.lam k) = true → e.lam k = 0) ∧ (isSmall (e.lam k) = false → e.lam k ≠ 0)

/-- the embedding of a real force-over-mass sample into the state space: `[imf; 0]` -/
noncomputable def gOf (imf : Fin n → ℝ) : Fin n ⊕ Fin n → ℂ := Sum.elim (fun j => (imf j : ℂ)) 0

/-- the embedding of a real state: `[v; d]` -/
noncomputable def zOf (d v : Fin n → ℝ) : Fin n ⊕ Fin n → ℂ :=
  Sum.elim (fun j => (v j : ℂ)) (fun j => (d j : ℂ))

theorem gOf_real (imf : Fin n → ℝ) (i : Fin n ⊕ Fin n) : conj (gOf imf i) = gOf imf i := by
  cases i <;> simp [gOf]

theorem zOf_real (d v : Fin n → ℝ) (i : Fin n ⊕ Fin n) : conj (zOf d v i) = zOf d v i := by
  cases i <;> simp [zOf]

theorem modalForce_gOf (e : Eig ℂ n N) (imf : Fin n → ℝ) :
    modalForce e (fun j => (imf j : ℂ)) = e.V *ᵥ gOf imf := by
  rw [modalForce_eq]; rfl

/-- one step of the kept recurrence, seen through the rebuilt full decomposition -/
theorem delconj_step {e : Eig ℂ n N} {cpx : Fin N → Bool} {isSmall : ℂ → Bool}
    {A : Matrix (Fin n ⊕ Fin n) (Fin n ⊕ Fin n) ℂ} (sp : DelconjSpec e cpx isSmall A)
    (h : ℝ) (hh : h ≠ 0) (order1 : Bool) (y : Fin N → ℂ) (imf0 imf1 : Fin n → ℝ)
    (z : ℝ → Fin n ⊕ Fin n → ℂ)
    (hz : IsStateSol A (gOf imf0) (if order1 then ((h : ℂ)⁻¹) • (gOf imf1 - gOf imf0) else 0)
      (fullU e cpx *ᵥ extend cpx y) z) :
    z h = fullU e cpx *ᵥ extend cpx (stepModal order1 (fun k => coefSel isSmall (e.lam k) h) y
      (modalForce e fun j => (imf0 j : ℂ)) (modalForce e fun j => (imf1 j : ℂ))) := by
  have hsm : ∀ k, (Sum.elim (fun k => isSmall (e.lam k)) (fun k : {k : Fin N // cpx k = true} =>
      isSmall (e.lam k.1)) k = true → fullLam e cpx k = 0) ∧
      (Sum.elim (fun k => isSmall (e.lam k)) (fun k : {k : Fin N // cpx k = true} =>
      isSmall (e.lam k.1)) k = false → fullLam e cpx k ≠ 0) := by
    intro k
    cases k with
    | inl k => exact sp.small k
    | inr k =>
      simp only [Sum.elim_inr, fullLam]
      exact ⟨fun hs => by rw [(sp.small k.1).1 hs]; simp,
        fun hs hc => (sp.small k.1).2 hs ((map_eq_zero _).1 hc)⟩
  have key := (decoupled_recovers A (fullU e cpx) (fullV e cpx) (fullLam e cpx) _ sp.hUV sp.hAU hsm h hh
    order1 (fullU e cpx *ᵥ extend cpx y) (gOf imf0) (gOf imf1)).2 z hz
  rw [key, Matrix.mulVec_mulVec, sp.hVU, Matrix.one_mulVec, fullV_mulVec_real e cpx _ (gOf_real imf0),
    fullV_mulVec_real e cpx _ (gOf_real imf1), ← modalForce_gOf, ← modalForce_gOf, step_extend]

/-- the loop: every `y_{j+1}` of the kept recurrence, mapped back, is the state at `t = h` of the
solution started at the mapped-back `y_j`; and all `y_j` are real at the real modes -/
theorem delconj_run {e : Eig ℂ n N} {cpx : Fin N → Bool} {isSmall : ℂ → Bool}
    {A : Matrix (Fin n ⊕ Fin n) (Fin n ⊕ Fin n) ℂ} (sp : DelconjSpec e cpx isSmall A)
    (h : ℝ) (hh : h ≠ 0) (order1 : Bool) :
    ∀ (imfs : List (Fin n → ℝ)) (y : Fin N → ℂ), RealAt cpx y →
      ∀ (j : ℕ) (yj : Fin N → ℂ),
      (runModal order1 (fun k => coefSel isSmall (e.lam k) h) y
        (imfs.map fun f => modalForce e fun i => (f i : ℂ)))[j]? = some yj →
      RealAt cpx yj ∧
      ∀ (yj1 : Fin N → ℂ) (g0 g1 : Fin n → ℝ),
      (runModal order1 (fun k => coefSel isSmall (e.lam k) h) y
        (imfs.map fun f => modalForce e fun i => (f i : ℂ)))[j + 1]? = some yj1 →
      imfs[j]? = some g0 → imfs[j + 1]? = some g1 →
      ∀ z, IsStateSol A (gOf g0) (if order1 then ((h : ℂ)⁻¹) • (gOf g1 - gOf g0) else 0)
          (fullU e cpx *ᵥ extend cpx yj) z →
        z h = fullU e cpx *ᵥ extend cpx yj1 := by
  intro imfs
  induction imfs with
  | nil => intro y _ j yj h1; simp [runModal] at h1
  | cons a tl ih =>
    intro y hy j yj h1
    cases tl with
    | nil =>
      simp only [List.map_cons, List.map_nil, runModal] at h1
      cases j with
      | zero =>
        simp only [List.getElem?_cons_zero, Option.some.injEq] at h1
        subst h1
        refine ⟨hy, fun yj1 g0 g1 h2 => ?_⟩
        simp [runModal] at h2
      | succ j => simp at h1
    | cons b rest =>
      simp only [List.map_cons] at h1 ih ⊢
      rw [runModal_cons_cons] at h1 ⊢
      have hd : ∀ (y' : Fin N → ℂ) (ws : List (Fin N → ℂ)) (w : Fin N → ℂ),
          (runModal order1 (fun k => coefSel isSmall (e.lam k) h) y' (w :: ws))[0]? = some y' := by
        intro y' ws w
        cases ws <;> simp [runModal]
      have hstep : RealAt cpx (stepModal order1 (fun k => coefSel isSmall (e.lam k) h) y
          (modalForce e fun i => (a i : ℂ)) (modalForce e fun i => (b i : ℂ))) := by
        refine step_realAt e cpx sp.real isSmall h order1 _ _ _ hy ?_ ?_
        · rw [modalForce_gOf]; exact V_mulVec_realAt e cpx sp.real _ (gOf_real a)
        · rw [modalForce_gOf]; exact V_mulVec_realAt e cpx sp.real _ (gOf_real b)
      cases j with
      | zero =>
        simp only [List.getElem?_cons_zero, Option.some.injEq] at h1
        subst h1
        refine ⟨hy, fun yj1 g0 g1 h2 h3 h4 z hz => ?_⟩
        simp only [zero_add, List.getElem?_cons_succ, List.getElem?_cons_zero,
          Option.some.injEq] at h2 h3 h4
        rw [hd] at h2
        simp only [Option.some.injEq] at h2
        subst h2 h3 h4
        exact delconj_step sp h hh order1 y a b z hz
      | succ j =>
        simp only [List.getElem?_cons_succ] at h1 ⊢
        exact ih _ hstep j yj h1

end PyYetiVerif.SuCoef
