import PyYetiVerif.Model.FdePsd
import PyYetiVerif.Lemmas.FdeDamage
import Mathlib.Analysis.SpecialFunctions.Pow.Real
import Mathlib.Analysis.SpecialFunctions.Sqrt
import Mathlib.Analysis.SpecialFunctions.Log.Basic
import Mathlib.Tactic.Ring
import Mathlib.Tactic.Linarith
import Mathlib.Tactic.FieldSimp
import Mathlib.Tactic.Positivity
/-! Helper lemmas for C10 / fdepsd: the real-number instance of the transcendental operations,
roots, positivity of the test damage indicators `Dt_b`, and the `G2max` loop under scaling. -/
set_option linter.unusedSectionVars false
set_option linter.unusedVariables false
set_option linter.unusedTactic false
set_option linter.unreachableTactic false
namespace PyYetiVerif.Fde

/-- `np.log`, `np.sqrt`, `**`, `np.pi` read as the real functions -/
noncomputable instance instTransReal : TransOps ℝ where
  log := Real.log
  sqrt := Real.sqrt
  pow := fun x y => x ^ y
  pi := Real.pi

theorem log_def (x : ℝ) : (TransOps.log x : ℝ) = Real.log x := rfl
theorem sqrt_def (x : ℝ) : (TransOps.sqrt x : ℝ) = Real.sqrt x := rfl
theorem pow_def (x y : ℝ) : (TransOps.pow x y : ℝ) = x ^ y := rfl
theorem pi_def : (TransOps.pi : ℝ) = Real.pi := rfl

/-! ### roots -/

theorem root4_pow (z : ℝ) (hz : 0 ≤ z) : (z ^ ((1 : ℝ) / 4)) ^ 4 = z := by
  rw [← Real.rpow_natCast, ← Real.rpow_mul hz]
  norm_num

theorem root6_pow (z : ℝ) (hz : 0 ≤ z) : (z ^ ((1 : ℝ) / 6)) ^ 6 = z := by
  rw [← Real.rpow_natCast, ← Real.rpow_mul hz]
  norm_num

theorem sqrt_scale4 (c z : ℝ) (hc : 0 ≤ c) : Real.sqrt (c ^ 4 * z) = c ^ 2 * Real.sqrt z := by
  rw [Real.sqrt_mul (by positivity), show c ^ 4 = (c ^ 2) ^ 2 by ring, Real.sqrt_sq (by positivity)]

theorem sqrt_scale2 (c z : ℝ) (hc : 0 ≤ c) : Real.sqrt (c ^ 2 * z) = c * Real.sqrt z := by
  rw [Real.sqrt_mul (by positivity), Real.sqrt_sq hc]

theorem root4_scale (c z : ℝ) (hc : 0 ≤ c) (hz : 0 ≤ z) :
    (c ^ 8 * z) ^ ((1 : ℝ) / 4) = c ^ 2 * z ^ ((1 : ℝ) / 4) := by
  rw [Real.mul_rpow (by positivity) hz]
  congr 1
  rw [show c ^ 8 = (c ^ 2) ^ (4 : ℕ) by ring, ← Real.rpow_natCast, ← Real.rpow_mul (by positivity)]
  norm_num

theorem root6_scale (c z : ℝ) (hc : 0 ≤ c) (hz : 0 ≤ z) :
    (c ^ 12 * z) ^ ((1 : ℝ) / 6) = c ^ 2 * z ^ ((1 : ℝ) / 6) := by
  rw [Real.mul_rpow (by positivity) hz]
  congr 1
  rw [show c ^ 12 = (c ^ 2) ^ (6 : ℕ) by ring, ← Real.rpow_natCast, ← Real.rpow_mul (by positivity)]
  norm_num

/-! ### the test damage indicators of `resp='absacce'` are Taylor remainders of `exp`

With `u = ln N0`: `Dt4 = 8 (e^u − Σ_{k≤2} u^k/k!)`, `Dt8 = 384 (e^u − Σ_{k≤4} u^k/k!)`,
`Dt12 = 46080 (e^u − Σ_{k≤6} u^k/k!)`; positive exactly when `N0 = f·T0 > 1`. -/

theorem exp_gt_taylor (u : ℝ) (hu : 0 < u) (n : ℕ) :
    (∑ i ∈ Finset.range n, u ^ i / (i.factorial : ℝ)) < Real.exp u := by
  have h := Real.sum_le_exp_of_nonneg (le_of_lt hu) (n + 1)
  rw [Finset.sum_range_succ] at h
  have : 0 < u ^ n / (n.factorial : ℝ) := by positivity
  linarith

theorem dt4_pos (N0 : ℝ) (h : 1 < N0) :
    0 < N0 * 8 - ((2 * Real.log N0) * (2 * Real.log N0) + 4 * (2 * Real.log N0) + 8) := by
  have hu : 0 < Real.log N0 := Real.log_pos h
  have he : Real.exp (Real.log N0) = N0 := Real.exp_log (by linarith)
  have := exp_gt_taylor (Real.log N0) hu 3
  simp only [Finset.sum_range_succ, Finset.sum_range_zero, Nat.factorial] at this
  rw [he] at this
  norm_num at this
  nlinarith

theorem dt8_pos (N0 : ℝ) (h : 1 < N0) :
    let A := 2 * Real.log N0
    let A2 := A * A
    0 < N0 * 384 - (A2 * A2 + 8 * (A2 * A) + 48 * A2 + 192 * A + 384) := by
  intro A A2
  have hu : 0 < Real.log N0 := Real.log_pos h
  have he : Real.exp (Real.log N0) = N0 := Real.exp_log (by linarith)
  have := exp_gt_taylor (Real.log N0) hu 5
  simp only [Finset.sum_range_succ, Finset.sum_range_zero, Nat.factorial] at this
  rw [he] at this
  norm_num at this
  simp only [A, A2]
  nlinarith

theorem dt12_pos (N0 : ℝ) (h : 1 < N0) :
    let A := 2 * Real.log N0
    let A2 := A * A
    let A4 := A2 * A2
    0 < N0 * 46080 - (A4 * A2 + 12 * (A4 * A) + 120 * A4 + 960 * (A2 * A) + 5760 * A2 + 23040 * A
      + 46080) := by
  intro A A2 A4
  have hu : 0 < Real.log N0 := Real.log_pos h
  have he : Real.exp (Real.log N0) = N0 := Real.exp_log (by linarith)
  have := exp_gt_taylor (Real.log N0) hu 7
  simp only [Finset.sum_range_succ, Finset.sum_range_zero, Nat.factorial] at this
  rw [he] at this
  norm_num at this
  simp only [A, A2, A4]
  nlinarith

/-! ### the `G2max` loop when every amplitude is multiplied by `c > 0` -/

/-- a candidate `(x, y, tantheta)` of the scaled problem -/
noncomputable def scaleCand (c : ℝ) (t : ℝ × ℝ × ℝ) : ℝ × ℝ × ℝ := (c ^ 2 * t.1, t.2.1, t.2.2 / c ^ 2)

theorem argmaxT_scale (c : ℝ) (hc : 0 < c) (r : List (ℝ × ℝ × ℝ)) :
    ∀ best, argmaxT (scaleCand c best) (r.map (scaleCand c)) = scaleCand c (argmaxT best r) := by
  induction r with
  | nil => intro best; rfl
  | cons t r ih =>
      intro best
      have hc2 : (0 : ℝ) < c ^ 2 := by positivity
      have e : ((scaleCand c best).2.2 < (scaleCand c t).2.2) ↔ (best.2.2 < t.2.2) := by
        simp only [scaleCand]
        exact div_lt_div_iff_of_pos_right hc2
      simp only [List.map_cons, argmaxT]
      by_cases h : best.2.2 < t.2.2
      · rw [if_pos h, if_pos (e.mpr h)]; exact ih t
      · rw [if_neg h, if_neg (fun h' => h (e.mp h'))]; exact ih best

theorem g1y_scale (c x x2 y1 : ℝ) (hc : 0 < c) :
    g1y (c ^ 2 * x) (c ^ 2 * x2) y1 = g1y x x2 y1 := by
  unfold g1y
  have hc2 : (c ^ 2 : ℝ) ≠ 0 := by positivity
  simp only [sub_zero, zero_sub]
  rw [div_mul_eq_mul_div, div_mul_eq_mul_div]
  congr 1
  rw [show -y1 * (c ^ 2 * x) = c ^ 2 * (-y1 * x) by ring, mul_div_mul_left _ _ hc2]

theorem tanth_scale (c a m y y1 : ℝ) (hc : 0 < c) :
    tanth ((c * a) * (c * a)) ((c * m) * (c * m)) y y1 = tanth (a * a) (m * m) y y1 / c ^ 2 := by
  unfold tanth
  rw [show (c * a) * (c * a) = c ^ 2 * (a * a) by ring, show (c * m) * (c * m) = c ^ 2 * (m * m) by ring,
    g1y_scale c _ _ _ hc, div_div, mul_comm (a * a) (c ^ 2)]

theorem g2cands_scale (c am y1 : ℝ) (hc : 0 < c) (lv counts : List ℝ) :
    g2cands (c * am) y1 (lv.map (c * ·)) counts = (g2cands am y1 lv counts).map (scaleCand c) := by
  unfold g2cands
  rw [List.zip_map_left, List.filter_map, List.map_map, List.map_map]
  have hthr : ∀ p : ℝ × ℝ, (c * p.1 < c * am / (Nat.cast 3 : ℝ)) ↔ (p.1 < am / (Nat.cast 3 : ℝ)) := by
    intro p
    rw [mul_div_assoc]
    exact mul_lt_mul_iff_right₀ hc
  have hf : ((fun p : ℝ × ℝ => !decide (p.1 < c * am / (Nat.cast 3 : ℝ))) ∘ Prod.map (fun x => c * x) id)
      = fun p : ℝ × ℝ => !decide (p.1 < am / (Nat.cast 3 : ℝ)) := by
    funext p
    simp only [Function.comp, Prod.map_fst, hthr p]
  rw [hf]
  apply List.map_congr_left
  intro p _
  simp only [Function.comp, Prod.map_fst, Prod.map_snd, id, scaleCand]
  refine Prod.ext ?_ (Prod.ext rfl ?_)
  · simp only []; ring
  · simp only []; exact tanth_scale c p.1 am _ y1 hc

theorem g2max_scale (c am : ℝ) (hc : 0 < c) (lv counts : List ℝ) :
    g2max (c * am) (lv.map (c * ·)) counts = c ^ 2 * g2max am lv counts := by
  unfold g2max
  cases counts with
  | nil => simp only []; ring
  | cons c0 cs =>
      simp only []
      rw [g2cands_scale c am _ hc]
      cases hcand : g2cands am (TransOps.log c0) lv (c0 :: cs) with
      | nil => simp only [List.map_nil]; ring
      | cons t ts =>
          simp only [List.map_cons]
          rw [argmaxT_scale c hc ts t]
          have hc2 : (0 : ℝ) < c ^ 2 := by positivity
          have e : (0 < (scaleCand c (argmaxT t ts)).2.2) ↔ (0 < (argmaxT t ts).2.2) := by
            simp only [scaleCand]
            constructor
            · intro h
              by_contra hn
              exact absurd h (not_lt.mpr (div_nonpos_of_nonpos_of_nonneg (not_lt.mp hn) hc2.le))
            · intro h; exact div_pos h hc2
          by_cases h : 0 < (argmaxT t ts).2.2
          · rw [if_pos h, if_pos (e.mpr h)]
            simp only [scaleCand]
            ring
          · rw [if_neg h, if_neg (fun h' => h (e.mp h'))]
            ring

/-! ### the PSD formulas when the amplitudes are multiplied by `c > 0` -/

/-- the per-frequency PSD outputs of the scaled problem: PSDs and `var_test` by `c²`, peak
amplitudes by `c`, test damage indicators unchanged -/
noncomputable def scalePsd (c : ℝ) (p : PsdRow ℝ) : PsdRow ℝ :=
  { g1 := c ^ 2 * p.g1, g2 := c ^ 2 * p.g2, g4 := c ^ 2 * p.g4, g8 := c ^ 2 * p.g8,
    g12 := c ^ 2 * p.g12,
    pk2 := c * p.pk2, pk4 := c * p.pk4, pk8 := c * p.pk8, pk12 := c * p.pk12,
    v4 := c ^ 2 * p.v4, v8 := c ^ 2 * p.v8, v12 := c ^ 2 * p.v12,
    dt4 := p.dt4, dt8 := p.dt8, dt12 := p.dt12, dto4 := p.dto4, dto8 := p.dto8, dto12 := p.dto12 }

theorem psdRow_scale (resp : Resp) (c Q f T0 am g2m df4 df8 df12 : ℝ) (hc : 0 < c)
    (h8 : 0 ≤ df8 / (psdRow resp Q f T0 am g2m df4 df8 df12).dt8)
    (h12 : 0 ≤ df12 / (psdRow resp Q f T0 am g2m df4 df8 df12).dt12) :
    psdRow resp Q f T0 (c * am) (c ^ 2 * g2m) (c ^ 4 * df4) (c ^ 8 * df8) (c ^ 12 * df12)
      = scalePsd c (psdRow resp Q f T0 am g2m df4 df8 df12) := by
  have hc0 : 0 ≤ c := le_of_lt hc
  have q4 : ((Nat.cast 1 : ℝ) / (Nat.cast 4 : ℝ)) = (1 : ℝ) / 4 := by norm_num
  have q6 : ((Nat.cast 1 : ℝ) / (Nat.cast 6 : ℝ)) = (1 : ℝ) / 6 := by norm_num
  cases resp
  · simp only [psdRow] at h8 h12
    simp only [psdRow, scalePsd, PsdRow.mk.injEq, sqrt_def, pow_def, q4, q6, mul_div_assoc]
    rw [sqrt_scale4 c _ hc0, root4_scale c _ hc0 (by simpa [q4, q6] using h8),
      root6_scale c _ hc0 (by simpa [q4, q6] using h12), sqrt_scale2 c _ hc0]
    refine ⟨?_, ?_, ?_, ?_, ?_, ?_, ?_, ?_, ?_, ?_, ?_, ?_, ?_, ?_, ?_, ?_, ?_, ?_⟩
    all_goals first
      | trivial
      | rfl
      | ring1
      | (rw [← sqrt_scale2 c _ hc0]; congr 1; ring1)
  · simp only [psdRow] at h8 h12
    simp only [psdRow, scalePsd, PsdRow.mk.injEq, sqrt_def, pow_def, q4, q6, mul_div_assoc]
    rw [sqrt_scale4 c _ hc0, root4_scale c _ hc0 (by simpa [q4, q6] using h8),
      root6_scale c _ hc0 (by simpa [q4, q6] using h12), sqrt_scale2 c _ hc0]
    refine ⟨?_, ?_, ?_, ?_, ?_, ?_, ?_, ?_, ?_, ?_, ?_, ?_, ?_, ?_, ?_, ?_, ?_, ?_⟩
    all_goals first
      | trivial
      | rfl
      | ring1
      | (rw [← sqrt_scale2 c _ hc0]; congr 1; ring1)

/-! ### the domain of the formulas: `f·T0 > 1` (`absacce`: `ln N0 > 0`, `Dt_b > 0`), `f·T0 > 0` (`pvelo`) -/

/-- the inputs for which the code's `Dt_b` are positive (no `nan` from the roots) and `ln N0 ≠ 0`
(no division by zero in `G1`, `G2`, `Gmax`) -/
def InDomain (resp : Resp) (f T0 : ℝ) : Prop :=
  match resp with
  | .absacce => 1 < f * T0
  | .pvelo => 0 < f * T0 ∧ f * T0 ≠ 1

theorem psdRow_dt_pos (resp : Resp) (Q f T0 am g2m df4 df8 df12 : ℝ) (h : InDomain resp f T0) :
    0 < (psdRow resp Q f T0 am g2m df4 df8 df12).dt4 ∧
      0 < (psdRow resp Q f T0 am g2m df4 df8 df12).dt8 ∧
      0 < (psdRow resp Q f T0 am g2m df4 df8 df12).dt12 := by
  cases resp
  · simp only [InDomain] at h
    have h4 := dt4_pos (f * T0) h
    have h8 := dt8_pos (f * T0) h
    have h12 := dt12_pos (f * T0) h
    simp only [psdRow, log_def]
    push_cast
    exact ⟨h4, h8, h12⟩
  · simp only [InDomain] at h
    have h0 := h.1
    simp only [psdRow]
    push_cast
    exact ⟨by positivity, by positivity, by positivity⟩

/-- the `Dt_b` depend on `resp`, `f`, `T0` only -/
theorem psdRow_dt_indep (resp : Resp) (Q f T0 am g2m df4 df8 df12 am' g2m' df4' df8' df12' : ℝ) :
    (psdRow resp Q f T0 am g2m df4 df8 df12).dt4 = (psdRow resp Q f T0 am' g2m' df4' df8' df12').dt4 ∧
    (psdRow resp Q f T0 am g2m df4 df8 df12).dt8 = (psdRow resp Q f T0 am' g2m' df4' df8' df12').dt8 ∧
    (psdRow resp Q f T0 am g2m df4 df8 df12).dt12 = (psdRow resp Q f T0 am' g2m' df4' df8' df12').dt12 := by
  cases resp <;> simp only [psdRow] <;> (try (refine ⟨?_, ?_, ?_⟩ <;> first | trivial | rfl | ring1))

/-- `var_test_b = (Df_b / Dt_b) ^ (2/b)` -/
theorem psdRow_v (resp : Resp) (Q f T0 am g2m df4 df8 df12 : ℝ) :
    let p := psdRow resp Q f T0 am g2m df4 df8 df12
    p.v4 = Real.sqrt (df4 / p.dt4) ∧ p.v8 = (df8 / p.dt8) ^ ((1 : ℝ) / 4) ∧
      p.v12 = (df12 / p.dt12) ^ ((1 : ℝ) / 6) := by
  have q4 : ((Nat.cast 1 : ℝ) / (Nat.cast 4 : ℝ)) = (1 : ℝ) / 4 := by norm_num
  have q6 : ((Nat.cast 1 : ℝ) / (Nat.cast 6 : ℝ)) = (1 : ℝ) / 6 := by norm_num
  cases resp <;> simp only [psdRow, sqrt_def, pow_def, q4, q6] <;> (try (refine ⟨?_, ?_, ?_⟩ <;> first | trivial | rfl | ring1))

/-- `di_test` as returned: `Dt_b` for `absacce`; `2^(b/2) · Dt_b` for `pvelo` -/
theorem psdRow_dto (resp : Resp) (Q f T0 am g2m df4 df8 df12 : ℝ) :
    let p := psdRow resp Q f T0 am g2m df4 df8 df12
    p.dto4 = (match resp with | .absacce => 1 | .pvelo => 4) * p.dt4 ∧
    p.dto8 = (match resp with | .absacce => 1 | .pvelo => 16) * p.dt8 ∧
    p.dto12 = (match resp with | .absacce => 1 | .pvelo => 64) * p.dt12 := by
  cases resp
  · simp only [psdRow]; (try (refine ⟨?_, ?_, ?_⟩ <;> first | trivial | rfl | ring1))
  · simp only [psdRow]; push_cast; (try (refine ⟨?_, ?_, ?_⟩ <;> first | trivial | rfl | ring1))

/-- `G_b = var_test_b · k` with a factor `k` that depends on `resp`, `Q`, `f` only -/
noncomputable def gFactor (resp : Resp) (Q f : ℝ) : ℝ :=
  match resp with
  | .absacce => 1 / ((Q * Real.pi / 2) * f)
  | .pvelo => (4 * Real.pi / Q) * f

theorem psdRow_g (resp : Resp) (Q f T0 am g2m df4 df8 df12 : ℝ) :
    let p := psdRow resp Q f T0 am g2m df4 df8 df12
    p.g4 = p.v4 * gFactor resp Q f ∧ p.g8 = p.v8 * gFactor resp Q f ∧
      p.g12 = p.v12 * gFactor resp Q f := by
  cases resp
  · simp only [psdRow, gFactor, pi_def]; push_cast
    (try (refine ⟨?_, ?_, ?_⟩ <;> first | trivial | rfl | ring1))
  · simp only [psdRow, gFactor, pi_def]; push_cast
    (try (refine ⟨?_, ?_, ?_⟩ <;> first | trivial | rfl | ring1))

theorem gFactor_pos (resp : Resp) (Q f : ℝ) (hQ : 0 < Q) (hf : 0 < f) : 0 < gFactor resp Q f := by
  have := Real.pi_pos
  cases resp <;> simp only [gFactor] <;> positivity

/-! ### the candidate picked by the `G2max` loop -/

theorem argmaxT_mem (r : List (ℝ × ℝ × ℝ)) : ∀ best, argmaxT best r ∈ best :: r := by
  induction r with
  | nil => intro best; simp [argmaxT]
  | cons t r ih =>
      intro best
      simp only [argmaxT]
      split
      · exact List.mem_cons_of_mem _ (ih t)
      · rcases List.mem_cons.mp (ih best) with h | h
        · rw [h]; simp
        · exact List.mem_cons_of_mem _ (List.mem_cons_of_mem _ h)

/-- the interpolation form used by the code equals the closed form of `Model/Fde.tantheta` -/
theorem tanth_eq (x x2 y y1 : ℝ) : tanth x x2 y y1 = tantheta x x2 y y1 := by
  unfold tanth tantheta g1y
  simp only [sub_zero, zero_sub]
  congr 1
  ring

theorem g2cands_mem (am y1 : ℝ) (lv counts : List ℝ) (k : ℝ × ℝ × ℝ)
    (hk : k ∈ g2cands am y1 lv counts) :
    ∃ p ∈ lv.zip counts, am / 3 ≤ p.1 ∧ k.1 = p.1 * p.1 ∧ k.2.1 = Real.log p.2 ∧
      k.2.2 = tantheta (p.1 * p.1) (am * am) (Real.log p.2) y1 := by
  unfold g2cands at hk
  obtain ⟨p, hp, rfl⟩ := List.mem_map.mp hk
  obtain ⟨hp1, hp2⟩ := List.mem_filter.mp hp
  refine ⟨p, hp1, ?_, rfl, rfl, ?_⟩
  · have : ¬ p.1 < am / (Nat.cast 3 : ℝ) := by simpa using hp2
    have h3 : ((Nat.cast 3 : ℝ)) = 3 := by norm_num
    rw [h3] at this
    exact not_lt.mp this
  · simp only [log_def]; exact tanth_eq _ _ _ _

end PyYetiVerif.Fde
