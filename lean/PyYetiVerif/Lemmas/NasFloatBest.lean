import PyYetiVerif.Lemmas.NasFloatPick
/-! C12: "best precision".  The emitted field is the point of a decimal grid nearest to `x` (up to
the slack of the two-stage rounding); every competitor string of the grammar that fits the width
denotes either a point of that grid or a value below a decade boundary that is itself on the grid
(`grid_best`).  Instances: fixed-notation fields against all strings of the grammar
(`fixed_best`), scientific fields against the strings whose exponent part is at least as long
(`sci_best`). -/
set_option linter.unusedSimpArgs false
set_option linter.unusedVariables false
namespace PyYetiVerif.NasFloat
open PyYetiVerif.PyFloat PyYetiVerif.Generated.NasFloat

/-- a grid point within half a step of `y` is a nearest grid point -/
theorem grid_nearest (N K : ℕ) (u y : ℚ) (hu : 0 < u) (h : |(N : ℚ) * u - y| ≤ 1 / 2 * u) :
    |(N : ℚ) * u - y| ≤ |(K : ℚ) * u - y| := by
  by_cases hk : K = N
  · subst hk; exact le_refl _
  · have h1 : u ≤ |(K : ℚ) * u - (N : ℚ) * u| := by
      have hne : (K : ℤ) - (N : ℤ) ≠ 0 := by
        intro hh; apply hk; have : (K : ℤ) = N := by omega
        exact_mod_cast this
      have h1z : (1 : ℤ) ≤ |(K : ℤ) - (N : ℤ)| := Int.one_le_abs hne
      have h1q : (1 : ℚ) ≤ |(K : ℚ) - (N : ℚ)| := by
        have : ((1 : ℤ) : ℚ) ≤ ((|(K : ℤ) - (N : ℤ)| : ℤ) : ℚ) := by exact_mod_cast h1z
        simpa [Int.cast_abs] using this
      have e : (K : ℚ) * u - (N : ℚ) * u = ((K : ℚ) - (N : ℚ)) * u := by ring
      rw [e, abs_mul, abs_of_pos hu]
      calc u = 1 * u := by ring
        _ ≤ |(K : ℚ) - (N : ℚ)| * u := mul_le_mul_of_nonneg_right h1q (le_of_lt hu)
    have h2 : |(K : ℚ) * u - (N : ℚ) * u| ≤ |(K : ℚ) * u - y| + |(N : ℚ) * u - y| := by
      have := abs_sub_le ((K : ℚ) * u) y ((N : ℚ) * u)
      rwa [abs_sub_comm y ((N : ℚ) * u)] at this
    linarith

theorem zpow10_pos (a : ℤ) : (0 : ℚ) < (10 : ℚ) ^ a := by positivity

theorem zpow10_le {a b : ℤ} (h : a ≤ b) : (10 : ℚ) ^ a ≤ (10 : ℚ) ^ b :=
  zpow_le_zpow_right₀ (by norm_num) h

/-- a power of ten above the grid exponent is a grid point -/
theorem zpow10_grid (a b : ℤ) (h : a ≤ b) : (10 : ℚ) ^ b = ((10 ^ (b - a).toNat : ℕ) : ℚ) * (10 : ℚ) ^ a := by
  have h10 : (10 : ℚ) ≠ 0 := by norm_num
  have e : b = ((b - a).toNat : ℤ) + a := by omega
  conv_lhs => rw [e, zpow_add₀ h10, zpow_natCast]
  push_cast; ring

/-- **the core of "best precision"**: `f = N·10^a` is within half a grid step of `y`, `y` within
`δ` of `X`, and `10^b ≤ y` is a grid point (`a ≤ b`).  A competitor value `V = M·10^s` with at most
`n` digits (`M < 10^n`) that is on the grid (`a ≤ s`) or below `10^b` (`n + s ≤ b`) is not closer to
`X` than `f` by more than `2δ`. -/
theorem grid_best (a b s : ℤ) (n N M : ℕ) (X y δ : ℚ) (hab : a ≤ b)
    (hN : |(N : ℚ) * (10 : ℚ) ^ a - y| ≤ 1 / 2 * (10 : ℚ) ^ a) (hy : |y - X| ≤ δ)
    (hB : (10 : ℚ) ^ b ≤ y) (hM : M < 10 ^ n) (hcase : a ≤ s ∨ (n : ℤ) + s ≤ b) :
    |(N : ℚ) * (10 : ℚ) ^ a - X| ≤ |(M : ℚ) * (10 : ℚ) ^ s - X| + 2 * δ := by
  have hu := zpow10_pos a
  have key : |(N : ℚ) * (10 : ℚ) ^ a - y| ≤ |(M : ℚ) * (10 : ℚ) ^ s - y| := by
    rcases hcase with h | h
    · -- on the grid
      have e : (M : ℚ) * (10 : ℚ) ^ s = ((M * 10 ^ (s - a).toNat : ℕ) : ℚ) * (10 : ℚ) ^ a := by
        rw [zpow10_grid a s h]; push_cast; ring
      rw [e]
      exact grid_nearest N _ _ y hu hN
    · -- below the decade boundary `10^b`, which is on the grid
      have hV : (M : ℚ) * (10 : ℚ) ^ s < (10 : ℚ) ^ b := by
        have h1 : (M : ℚ) < (10 : ℚ) ^ (n : ℤ) := by
          rw [zpow_natCast]; exact_mod_cast hM
        have h10 : (10 : ℚ) ≠ 0 := by norm_num
        calc (M : ℚ) * (10 : ℚ) ^ s < (10 : ℚ) ^ (n : ℤ) * (10 : ℚ) ^ s :=
              mul_lt_mul_of_pos_right h1 (zpow10_pos s)
          _ = (10 : ℚ) ^ ((n : ℤ) + s) := by rw [zpow_add₀ h10]
          _ ≤ (10 : ℚ) ^ b := zpow10_le h
      have hBgrid := grid_nearest N (10 ^ (b - a).toNat) _ y hu hN
      rw [← zpow10_grid a b hab] at hBgrid
      have h1 : |(10 : ℚ) ^ b - y| = y - (10 : ℚ) ^ b := by
        rw [abs_sub_comm, abs_of_nonneg (by linarith)]
      have h2 : y - (M : ℚ) * (10 : ℚ) ^ s ≤ |(M : ℚ) * (10 : ℚ) ^ s - y| := by
        rw [abs_sub_comm]; exact le_abs_self _
      linarith
  have t1 : |(N : ℚ) * (10 : ℚ) ^ a - X| ≤ |(N : ℚ) * (10 : ℚ) ^ a - y| + |y - X| := abs_sub_le _ _ _
  have t2 : |(M : ℚ) * (10 : ℚ) ^ s - y| ≤ |(M : ℚ) * (10 : ℚ) ^ s - X| + |X - y| := abs_sub_le _ _ _
  rw [abs_sub_comm X y] at t2
  linarith

/-! ### the competitor: value, digit capacity and width of a field of the grammar -/

/-- length of the exponent part `[D]±ddd` (0 when absent) -/
def Fld.exLen (f : Fld) : Nat := f.exText.length

/-- number of mantissa digits -/
def Fld.nDigits (f : Fld) : Nat := f.ip.length + f.fp.length

/-- decimal exponent of the last mantissa digit -/
def Fld.sExp (f : Fld) : ℤ := f.expVal - (f.fp.length : ℤ)

theorem fld_dec_rat (f : Fld) :
    decRat f.dec = (if f.neg then -1 else 1) * ((digitsVal (f.ip ++ f.fp) : ℚ) * (10 : ℚ) ^ f.sExp) := by
  unfold Fld.dec Fld.sExp
  exact decRat_decOf _ _ _

theorem fld_digits_lt (f : Fld) (hwf : f.wf = true) : digitsVal (f.ip ++ f.fp) < 10 ^ f.nDigits := by
  obtain ⟨hip, hfp, _, _⟩ := wf_parts f hwf
  have := digitsVal_lt (f.ip ++ f.fp) (by
    intro c hc
    rcases List.mem_append.1 hc with h | h
    · exact hip c h
    · exact hfp c h)
  simpa [Fld.nDigits] using this

theorem fld_text_length (f : Fld) :
    f.text.length = (if f.neg then 1 else 0) + f.nDigits + 1 + f.exLen := by
  unfold Fld.text Fld.mant Fld.nDigits Fld.exLen
  cases f.neg <;> simp <;> omega

theorem fld_exLen (f : Fld) (hwf : f.wf = true) : (f.ex = none ∧ f.exLen = 0) ∨ (f.ex ≠ none ∧ 2 ≤ f.exLen) := by
  obtain ⟨_, _, _, hex⟩ := wf_parts f hwf
  cases he : f.ex with
  | none => left; simp [Fld.exLen, Fld.exText, he]
  | some e =>
    right
    refine ⟨by simp, ?_⟩
    rw [he] at hex
    have hne : e.ds ≠ [] := (hex e rfl).1
    have : 1 ≤ e.ds.length := by
      cases h : e.ds with
      | nil => exact absurd h hne
      | cons a t => simp
    simp only [Fld.exLen, Fld.exText, he, FExp.text, List.length_append, List.length_cons]
    omega

/-- opposite signs: the competitor is at least `|x|` away -/
theorem opposite_far (b1 b2 : Bool) (V X : ℚ) (hb : b1 ≠ b2) (hV : 0 ≤ V) (hX : 0 ≤ X) :
    X ≤ |(if b1 then (-1 : ℚ) else 1) * V - (if b2 then (-1 : ℚ) else 1) * X| := by
  cases b1 <;> cases b2 <;> simp at hb ⊢
  · have : X ≤ V + X := by linarith
    calc X ≤ V + X := this
      _ ≤ |V + X| := le_abs_self _
  · have : -V - X = -(V + X) := by ring
    rw [this, abs_neg]
    calc X ≤ V + X := by linarith
      _ ≤ |V + X| := le_abs_self _

/-! ### fixed-notation fields are best among all strings of the grammar -/

/-- **a fixed-notation field is the best `W`-character field.**  `σ + k + 1 + p = W` (the row's
field is full), `|x| ≥ 10^(k-1)` (or `≥ 10^-3` for the row below one, `p ≥ 3`), `N` = `|x|·10^p`
rounded to the nearest integer: no well-formed field of the grammar of at most `W` characters, of
either sign, in fixed or scientific notation, normalised or not, is closer to `x` than `± N·10^-p`. -/
theorem fixed_best_val (W p k : Nat) (neg : Bool) (hW : (if neg then 1 else 0) + k + 1 + p = W)
    (hk0 : k = 0 → 3 ≤ p) (x : Dbl) (hd : 0 < x.den) (hneg : x.neg = neg)
    (hlo : (10 : ℚ) ^ (if k = 0 then (-3 : ℤ) else (k : ℤ) - 1) ≤ (x.num : ℚ) / x.den)
    (g : Fld) (hwf : g.wf = true) (hlen : g.text.length ≤ W) :
    |(if neg then (-1 : ℚ) else 1) * (((rheDiv (x.num * 10 ^ p) x.den : ℕ) : ℚ) * (10 : ℚ) ^ ((0 : ℤ) - (p : ℤ))) -
        dblRat x| ≤ |decRat g.dec - dblRat x| := by
  rw [fld_dec_rat g]
  unfold dblRat
  rw [hneg]
  generalize hN : rheDiv (x.num * 10 ^ p) x.den = N
  generalize hX : (x.num : ℚ) / x.den = X at hlo
  have hr := rheDiv_rat (x.num * 10 ^ p) x.den hd
  rw [hN] at hr
  have e1 : ((x.num * 10 ^ p : ℕ) : ℚ) / x.den = X * (10 : ℚ) ^ p := by rw [← hX]; push_cast; ring
  rw [e1] at hr
  set a : ℤ := 0 - (p : ℤ) with ha
  set b : ℤ := (if k = 0 then (-3 : ℤ) else (k : ℤ) - 1) with hb
  have hab : a ≤ b := by
    rw [ha, hb]
    split_ifs with h0
    · have := hk0 h0; omega
    · omega
  have hu := zpow10_pos a
  have hNa : |(N : ℚ) * (10 : ℚ) ^ a - X| ≤ 1 / 2 * (10 : ℚ) ^ a := by
    have hpp : (10 : ℚ) ^ a = ((10 : ℚ) ^ p)⁻¹ := by rw [ha, zero_sub, zpow_neg, zpow_natCast]
    have hpos : (0 : ℚ) < (10 : ℚ) ^ p := by positivity
    have e2 : (N : ℚ) * (10 : ℚ) ^ a - X = ((N : ℚ) - X * 10 ^ p) * ((10 : ℚ) ^ p)⁻¹ := by
      rw [hpp]; field_simp
    rw [e2, abs_mul, abs_of_pos (inv_pos.2 hpos), hpp]
    exact mul_le_mul_of_nonneg_right hr (le_of_lt (inv_pos.2 hpos))
  have hXpos : 0 < X := lt_of_lt_of_le (zpow10_pos b) hlo
  by_cases hsg : g.neg = neg
  · -- same sign: compare magnitudes
    rw [hsg, sgn_abs, sgn_abs]
    have hM := fld_digits_lt g hwf
    have hcase : a ≤ g.sExp ∨ (g.nDigits : ℤ) + g.sExp ≤ b := by
      by_cases hs : a ≤ g.sExp
      · exact Or.inl hs
      · right
        have hs' : g.sExp ≤ -(p : ℤ) - 1 := by rw [ha] at hs; omega
        have hL := fld_text_length g
        rw [hsg] at hL
        have hnd : g.nDigits + g.exLen ≤ k + p := by omega
        rcases fld_exLen g hwf with ⟨hnone, hel⟩ | ⟨_, hel⟩
        · -- fixed notation with more than `p` decimals: more integer digits are impossible
          have hfp : (p : ℤ) + 1 ≤ (g.fp.length : ℤ) := by
            have : g.expVal = 0 := by simp [Fld.expVal, hnone]
            unfold Fld.sExp at hs'
            rw [this] at hs'
            omega
          have hfpn : p + 1 ≤ g.fp.length := by exact_mod_cast hfp
          have hnd2 : g.nDigits ≤ k + p := by omega
          rw [hb]
          split_ifs with h0
          · unfold Fld.nDigits at hnd2; omega
          · have : (g.nDigits : ℤ) ≤ (k : ℤ) + p := by exact_mod_cast hnd2
            omega
        · have : (g.nDigits : ℤ) + 2 ≤ (k : ℤ) + p := by
            have : g.nDigits + 2 ≤ k + p := by omega
            exact_mod_cast this
          rw [hb]
          split_ifs with h0
          · subst h0; simp only [Nat.cast_zero] at this; omega
          · omega
    have := grid_best a b g.sExp g.nDigits N _ X X 0 hab hNa (by simp) hlo hM hcase
    simpa using this
  · -- opposite sign: the competitor is at least `|x|` away, the emitted field at most half a step
    rw [sgn_abs]
    have hfar := opposite_far g.neg neg ((digitsVal (g.ip ++ g.fp) : ℚ) * (10 : ℚ) ^ g.sExp) X hsg
      (by positivity) (le_of_lt hXpos)
    have hsmall : 1 / 2 * (10 : ℚ) ^ a ≤ X := by
      have h1 : (10 : ℚ) ^ a ≤ (10 : ℚ) ^ b := zpow10_le hab
      have : 1 / 2 * (10 : ℚ) ^ a ≤ (10 : ℚ) ^ a := by linarith
      linarith
    linarith

/-- **a fixed-notation field is the best `W`-character field.**  `σ + k + 1 + p = W` (the row's
field is full), `|x| ≥ 10^(k-1)` (or `≥ 10^-3` for the row below one, `p ≥ 3`), `N` = `|x|·10^p`
rounded to the nearest integer: no well-formed field of the grammar of at most `W` characters, of
either sign, in fixed or scientific notation, normalised or not, is closer to `x` than `± N·10^-p`. -/
theorem fixed_best (W p k : Nat) (neg drop : Bool) (hW : (if neg then 1 else 0) + k + 1 + p = W)
    (hk0 : k = 0 → 3 ≤ p) (x : Dbl) (hd : 0 < x.den) (hneg : x.neg = neg)
    (hlo : (10 : ℚ) ^ (if k = 0 then (-3 : ℤ) else (k : ℤ) - 1) ≤ (x.num : ℚ) / x.den)
    (g : Fld) (hwf : g.wf = true) (hlen : g.text.length ≤ W) :
    |decRat (fixedFld neg drop p (rheDiv (x.num * 10 ^ p) x.den)).dec - dblRat x| ≤
      |decRat g.dec - dblRat x| := by
  obtain ⟨hflen, hfval⟩ := fixedFld_val neg drop p (rheDiv (x.num * 10 ^ p) x.den)
  rw [fld_rat _ p _ hflen hfval]
  have hex0 : (fixedFld neg drop p (rheDiv (x.num * 10 ^ p) x.den)).expVal = 0 := rfl
  have hfn : (fixedFld neg drop p (rheDiv (x.num * 10 ^ p) x.den)).neg = neg := rfl
  rw [hex0, hfn]
  exact fixed_best_val W p k neg hW hk0 x hd hneg hlo g hwf hlen

/-- the integer fields `dddddddd.` / `-ddddddd.` of the final branches likewise (`p = 0`) -/
theorem int_best (W k : Nat) (neg : Bool) (hW : (if neg then 1 else 0) + k + 1 = W) (hk : 1 ≤ k)
    (x : Dbl) (hd : 0 < x.den) (hneg : x.neg = neg)
    (hlo : (10 : ℚ) ^ ((k : ℤ) - 1) ≤ (x.num : ℚ) / x.den) (fp : Str) (hfp : fp = [] ∨ fp = ['0'])
    (g : Fld) (hwf : g.wf = true) (hlen : g.text.length ≤ W) :
    |decRat (intFld neg (rheDiv x.num x.den) fp).dec - dblRat x| ≤ |decRat g.dec - dblRat x| := by
  rw [intFld_rat neg _ fp hfp]
  have hk0 : k ≠ 0 := by omega
  have := fixed_best_val W 0 k neg (by omega) (by intro h; exact absurd h hk0) x hd hneg
    (by simp only [hk0, if_false]; exact hlo) g hwf hlen
  simpa using this

/-! ### scientific fields: best up to the slack of the two-stage rounding -/

/-- the competitors a scientific field is compared with: of the other sign, in fixed notation, or
with an exponent part `[D]±ddd` of at least `exLen` characters -/
def SciComp (neg : Bool) (exLen : Nat) (g : Fld) : Prop :=
  g.neg ≠ neg ∨ g.ex = none ∨ exLen ≤ g.exLen

/-- **a scientific field is the best `W`-character field up to the slack `10^(E-q)`** of its
two-stage rounding, among the fields of the other sign, the fixed-notation fields (when the
exponent is outside the fixed-notation range: `E ≤ -(2+m+L)` or `E ≥ W-σ-1`) and the scientific
fields whose exponent part is at least as long as the emitted one (`m + 1 + L` characters). -/
theorem sci_best (W : Nat) (c : Sci) (dm : Bool) (hc : SciOK W c (if dm then 1 else 0))
    (x : Dbl) (hn : 0 < x.num) (hd : 0 < x.den)
    (hlo : x.den ≤ 10 ^ 999 * x.num) (hhi : x.num < 10 ^ 999 * x.den)
    (hE : sciExp c x ≤ -(2 + (if dm then 1 else 0) + (natDigits (sciExp c x).natAbs).length : ℤ) ∨
      ((W : ℤ) - (if x.neg then 1 else 0) - 1 ≤ sciExp c x)) :
    ∃ f : Fld, f.wf = true ∧ sciCore W c (if dm then ['D'] else []) x = rjust W f.text ∧
      f.text.length ≤ W ∧ f.expVal = sciExp c x ∧
      ∀ g : Fld, g.wf = true → g.text.length ≤ W →
        SciComp x.neg ((if dm then 1 else 0) + 1 + (natDigits (sciExp c x).natAbs).length) g →
        |decRat f.dec - dblRat x| ≤ |decRat g.dec - dblRat x| +
          (10 : ℚ) ^ (sciExp c x - (c.ePrec : ℤ)) := by
  obtain ⟨hq1, hq15, hrows⟩ := hc
  obtain ⟨hb1, hb2, hs1, hs2⟩ := eParts_exp_bounds c.ePrec 999 x hn hd hlo hhi
  obtain ⟨hNlo, -, hacc, -⟩ := eParts_spec c.ePrec x hn hd
  unfold sciExp at hE ⊢
  generalize he : (eParts c.ePrec x).2 = e at hb1 hb2 hs1 hs2 hacc hE
  have hLmem := natDigits_len_le3 e.natAbs (by omega)
  obtain ⟨hP1, hP2, hW⟩ := hrows x.neg _ hLmem
  obtain ⟨N3, h1, h2, h3, h4, hshape⟩ := sciCore_shape W c dm x hn hd hq1 hq15
    (sciPrec c x.neg (natDigits (eParts c.ePrec x).2.natAbs).length) rfl
    (by rw [he]; exact hP1) (by rw [he]; omega)
  rw [he] at h1 h2 h3 h4 hshape
  generalize hP : sciPrec c x.neg (natDigits e.natAbs).length = P at *
  generalize hL : (natDigits e.natAbs).length = L at *
  generalize hm : (if dm then 1 else 0) = m at *
  have hmZ : (if dm = true then (1 : ℤ) else 0) = (m : ℤ) := by rw [← hm]; cases dm <;> simp
  rw [hmZ] at hE
  generalize hNN : (eParts c.ePrec x).1 = N at *
  have hen1 : x.absLtOne = true → e ≤ 0 := hs1
  have hen2 : x.absLtOne = false → 0 ≤ e := hs2
  have hexp := sciFld_expVal x.neg dm x.absLtOne P N3 e hen1 hen2
  have hflen := sciFld_length x.neg dm x.absLtOne P N3 e hP1 h4
  refine ⟨sciFld x.neg dm x.absLtOne P N3 e, sciFld_wf _ _ _ _ _ _ (by omega), hshape, ?_, hexp, ?_⟩
  · rw [hL] at hflen; rw [← hm] at hW; omega
  intro g hgwf hglen hcomp
  obtain ⟨hvlen, hval⟩ := sciFld_val x.neg dm x.absLtOne P N3 e
  rw [fld_rat _ P _ hvlen hval, hexp, fld_dec_rat g]
  have hfn : (sciFld x.neg dm x.absLtOne P N3 e).neg = x.neg := rfl
  rw [hfn]
  unfold dblRat
  generalize hX : (x.num : ℚ) / x.den = X at hacc
  generalize hq : c.ePrec = q at *
  have h10 : (10 : ℚ) ≠ 0 := by norm_num
  -- the first-stage value `y = N·10^(e-q)`
  obtain ⟨y, hy⟩ : ∃ y : ℚ, y = (N : ℚ) * (10 : ℚ) ^ (e - (q : ℤ)) := ⟨_, rfl⟩
  have hF := zpow10_pos (e - (q : ℤ))
  have hyX : |y - X| ≤ 1 / 2 * (10 : ℚ) ^ (e - (q : ℤ)) := by
    have e1 : y - X = ((N : ℚ) - X * (10 : ℚ) ^ ((q : ℤ) - e)) * (10 : ℚ) ^ (e - (q : ℤ)) := by
      have a2 : (10 : ℚ) ^ ((q : ℤ) - e) * (10 : ℚ) ^ (e - (q : ℤ)) = 1 := by
        rw [← zpow_add₀ h10]; simp
      rw [hy]; linear_combination X * a2
    rw [e1, abs_mul, abs_of_pos hF]
    exact mul_le_mul_of_nonneg_right hacc (le_of_lt hF)
  have hyB : (10 : ℚ) ^ e ≤ y := by
    have hNq : ((10 : ℚ) ^ (q : ℤ)) ≤ (N : ℚ) := by
      rw [zpow_natCast]; exact_mod_cast hNlo
    have e1 : (10 : ℚ) ^ e = (10 : ℚ) ^ (q : ℤ) * (10 : ℚ) ^ (e - (q : ℤ)) := by
      rw [← zpow_add₀ h10, add_sub_cancel]
    rw [e1, hy]
    exact mul_le_mul_of_nonneg_right hNq (le_of_lt hF)
  have hN3 : |(N3 : ℚ) * (10 : ℚ) ^ (e - (P : ℤ)) - y| ≤ 1 / 2 * (10 : ℚ) ^ (e - (P : ℤ)) := by
    have hM : ((10 : ℚ) ^ (q - P)) = (10 : ℚ) ^ ((q : ℤ) - (P : ℤ)) := by
      have hc : ((q - P : ℕ) : ℤ) = (q : ℤ) - (P : ℤ) := by omega
      rw [← zpow_natCast, hc]
    have h1' : (2 * ((N3 : ℚ) * 10 ^ (q - P))) ≤ 2 * N + 10 ^ (q - P) := by exact_mod_cast h1
    have h2' : (2 * (N : ℚ)) ≤ 2 * ((N3 : ℚ) * 10 ^ (q - P)) + 10 ^ (q - P) := by exact_mod_cast h2
    rw [hM] at h1' h2'
    have a1 : (10 : ℚ) ^ (e - (P : ℤ)) = (10 : ℚ) ^ ((q : ℤ) - (P : ℤ)) * (10 : ℚ) ^ (e - (q : ℤ)) := by
      rw [← zpow_add₀ h10]
      have : (q : ℤ) - (P : ℤ) + (e - (q : ℤ)) = e - (P : ℤ) := by ring
      rw [this]
    have e1 : (N3 : ℚ) * (10 : ℚ) ^ (e - (P : ℤ)) - y =
        ((N3 : ℚ) * (10 : ℚ) ^ ((q : ℤ) - (P : ℤ)) - N) * (10 : ℚ) ^ (e - (q : ℤ)) := by
      rw [hy, a1]; ring
    rw [e1, abs_mul, abs_of_pos hF, a1]
    have hA : |(N3 : ℚ) * (10 : ℚ) ^ ((q : ℤ) - (P : ℤ)) - N| ≤ 1 / 2 * (10 : ℚ) ^ ((q : ℤ) - (P : ℤ)) := by
      rw [abs_le]; constructor <;> linarith
    calc |(N3 : ℚ) * (10 : ℚ) ^ ((q : ℤ) - (P : ℤ)) - N| * (10 : ℚ) ^ (e - (q : ℤ))
        ≤ (1 / 2 * (10 : ℚ) ^ ((q : ℤ) - (P : ℤ))) * (10 : ℚ) ^ (e - (q : ℤ)) :=
          mul_le_mul_of_nonneg_right hA (le_of_lt hF)
      _ = 1 / 2 * ((10 : ℚ) ^ ((q : ℤ) - (P : ℤ)) * (10 : ℚ) ^ (e - (q : ℤ))) := by ring
  have hslack : 2 * (1 / 2 * (10 : ℚ) ^ (e - (q : ℤ))) = (10 : ℚ) ^ (e - (q : ℤ)) := by ring
  have hXpos : 0 < X := by rw [← hX]; positivity
  by_cases hsg : g.neg = x.neg
  · rw [hsg, sgn_abs, sgn_abs]
    have hM := fld_digits_lt g hgwf
    have hLg := fld_text_length g
    rw [hsg] at hLg
    have hcase : e - (P : ℤ) ≤ g.sExp ∨ (g.nDigits : ℤ) + g.sExp ≤ e := by
      by_cases hs : e - (P : ℤ) ≤ g.sExp
      · exact Or.inl hs
      · right
        have hnd : g.nDigits + g.exLen ≤ P + 2 + m + L := by omega
        rcases hcomp with h | h | h
        · exact absurd hsg h
        · -- fixed notation
          have hel : g.exLen = 0 := by simp [Fld.exLen, Fld.exText, h]
          have hev : g.expVal = 0 := by simp [Fld.expVal, h]
          have hsv : g.sExp = -(g.fp.length : ℤ) := by unfold Fld.sExp; rw [hev]; ring
          rcases hE with hE1 | hE2
          · -- small numbers: every fixed-notation competitor is on the grid
            exfalso
            apply hs
            have : (g.fp.length : ℤ) ≤ (g.nDigits : ℤ) := by
              unfold Fld.nDigits; push_cast; omega
            have : (g.nDigits : ℤ) ≤ (P : ℤ) + 2 + m + L := by
              have : g.nDigits ≤ P + 2 + m + L := by omega
              exact_mod_cast this
            rw [hsv]; omega
          · -- large numbers: a fixed-notation competitor is below `10^e`
            have hip : (g.nDigits : ℤ) + g.sExp = (g.ip.length : ℤ) := by
              rw [hsv]; unfold Fld.nDigits; push_cast; ring
            rw [hip]
            have hipn : g.ip.length ≤ g.nDigits := by unfold Fld.nDigits; omega
            have hipz : (g.ip.length : ℤ) ≤ (g.nDigits : ℤ) := by exact_mod_cast hipn
            by_cases hxn : x.neg = true
            · simp only [hxn, if_true] at hLg hE2
              have : 1 + g.nDigits + 1 ≤ W := by omega
              have : (1 : ℤ) + (g.nDigits : ℤ) + 1 ≤ (W : ℤ) := by exact_mod_cast this
              omega
            · simp only [hxn, if_false, Bool.false_eq_true] at hLg hE2
              have : 0 + g.nDigits + 1 ≤ W := by omega
              have : (0 : ℤ) + (g.nDigits : ℤ) + 1 ≤ (W : ℤ) := by exact_mod_cast this
              omega
        · -- an exponent part at least as long: at most `P + 1` mantissa digits
          have : g.nDigits ≤ P + 1 := by omega
          have : (g.nDigits : ℤ) ≤ (P : ℤ) + 1 := by exact_mod_cast this
          omega
    have := grid_best (e - (P : ℤ)) e g.sExp g.nDigits N3 _ X y _ (by omega) hN3 hyX hyB hM hcase
    rw [hslack] at this
    exact this
  · rw [sgn_abs]
    have hfar := opposite_far g.neg x.neg ((digitsVal (g.ip ++ g.fp) : ℚ) * (10 : ℚ) ^ g.sExp) X hsg
      (by positivity) (le_of_lt hXpos)
    have hu : (10 : ℚ) ^ (e - (P : ℤ)) ≤ (10 : ℚ) ^ e := zpow10_le (by omega)
    have hpu := zpow10_pos (e - (P : ℤ))
    have t1 : |(N3 : ℚ) * (10 : ℚ) ^ (e - (P : ℤ)) - X| ≤
        |(N3 : ℚ) * (10 : ℚ) ^ (e - (P : ℤ)) - y| + |y - X| := abs_sub_le _ _ _
    have t2 : y - X ≤ |y - X| := le_abs_self _
    linarith

end PyYetiVerif.NasFloat
