import PyYetiVerif.Lemmas.Op4VariantsReadLoop
/-! C11: from the puts of the binary OUTPUT4 reader model to the dense matrix (`applyPuts`): whatever partition
of the columns into strings was encoded, the matrix rebuilt is the matrix that was partitioned. -/
namespace PyYetiVerif.Op4VR
open PyYetiVerif.Op4V (VStr VMat)

/-- entry `(column j, stored real i)` of a matrix kept as a list of columns; 0 outside -/
def get2 (X : List (List Nat)) (j i : Nat) : Nat := (X.getD j []).getD i 0

/-- `ncols` columns of `n` stored reals each -/
def Shape (X : List (List Nat)) (ncols n : Nat) : Prop := X.length = ncols ∧ ∀ col ∈ X, col.length = n

theorem list_ext_getD (a b : List Nat) (h : a.length = b.length) (hv : ∀ i < a.length, a.getD i 0 = b.getD i 0) : a = b := by
  apply List.ext_getElem h
  intro i h1 h2
  have := hv i h1
  simp only [List.getD_eq_getElem?_getD, List.getElem?_eq_getElem h1, List.getElem?_eq_getElem h2, Option.getD_some] at this
  exact this

theorem ext2 (X Y : List (List Nat)) (c n : Nat) (hX : Shape X c n) (hY : Shape Y c n)
    (h : ∀ j < c, ∀ i < n, get2 X j i = get2 Y j i) : X = Y := by
  apply List.ext_getElem (by rw [hX.1, hY.1])
  intro j h1 h2
  have hxl := hX.2 _ (List.getElem_mem h1)
  have hyl := hY.2 _ (List.getElem_mem h2)
  apply list_ext_getD _ _ (by rw [hxl, hyl])
  intro i hi
  have := h j (by rw [← hX.1]; exact h1) i (by rw [← hxl]; exact hi)
  simp only [get2, List.getD_eq_getElem?_getD, List.getElem?_eq_getElem h1, List.getElem?_eq_getElem h2,
    Option.getD_some] at this
  simpa [List.getD_eq_getElem?_getD] using this

/-- a put covers the entry `(j, i)` -/
def covers (m : Nat) (p : Put) (j i : Nat) : Prop := p.2.1 = j ∧ m * p.1 ≤ i ∧ i < m * p.1 + p.2.2.length

/-- a put is a slice of column `p.2.1` of `target` -/
structure PutOk (m rows ncols : Nat) (target : List (List Nat)) (p : Put) : Prop where
  col : p.2.1 < ncols
  whole : p.2.2.length % m = 0
  fits : m * p.1 + p.2.2.length ≤ m * rows
  vals : ∀ k, k < p.2.2.length → p.2.2.getD k 0 = get2 target p.2.1 (m * p.1 + k)

theorem get2_set_splice (X : List (List Nat)) (c a : Nat) (col ys : List Nat) (hc : X[c]? = some col)
    (hfit : a + ys.length ≤ col.length) (j i : Nat) :
    get2 (X.set c (col.take a ++ ys ++ col.drop (a + ys.length))) j i
      = if j = c ∧ a ≤ i ∧ i < a + ys.length then ys.getD (i - a) 0 else get2 X j i := by
  have hcl : c < X.length := (List.getElem?_eq_some_iff.1 hc).1
  unfold get2
  by_cases hj : j = c
  · subst hj
    simp only [List.getD_eq_getElem?_getD, List.getElem?_set_self hcl, Option.getD_some, hc, true_and]
    rw [Op4V.getElem?_spliceN col ys a hfit i]
    by_cases h1 : i < a
    · have : ¬ (a ≤ i ∧ i < a + ys.length) := by omega
      simp only [h1, if_true, this, if_false]
    · by_cases h2 : i < a + ys.length
      · have : a ≤ i ∧ i < a + ys.length := by omega
        simp only [h1, if_false, h2, if_true, this, and_self]
      · have : ¬ (a ≤ i ∧ i < a + ys.length) := by omega
        rw [if_neg this]
        simp only [h1, if_false, h2]
  · have : ¬ (j = c ∧ a ≤ i ∧ i < a + ys.length) := fun h => hj h.1
    simp only [this, if_false, List.getD_eq_getElem?_getD]
    rw [List.getElem?_set_ne (Ne.symm hj)]

theorem applyPuts_step (m : Nat) (X : List (List Nat)) (p : Put) (col : List Nat) (hc : X[p.2.1]? = some col)
    (hw : p.2.2.length % m = 0) (hfit : m * p.1 + p.2.2.length ≤ col.length) :
    (match X[p.2.1]? with
      | none => (Except.error Op2R.Err.index : Op2R.M (List (List Nat)))
      | some col =>
        match assignCol col m p.1 p.2.2 with
        | .error e => .error e
        | .ok col' => .ok (X.set p.2.1 col'))
      = .ok (X.set p.2.1 (col.take (m * p.1) ++ p.2.2 ++ col.drop (m * p.1 + p.2.2.length))) := by
  rw [hc]
  simp only [assignCol, hw, ne_eq, not_true_eq_false, if_false, hfit, if_true]

theorem foldlM_applyPuts (m rows ncols : Nat) (target : List (List Nat)) (ht : Shape target ncols (m * rows)) :
    ∀ (puts : List Put) (X : List (List Nat)), Shape X ncols (m * rows) →
      (∀ p ∈ puts, PutOk m rows ncols target p) →
      (∀ j < ncols, ∀ i < m * rows, (∀ p ∈ puts, ¬ covers m p j i) → get2 X j i = get2 target j i) →
      puts.foldlM (fun X p =>
        match X[p.2.1]? with
        | none => (Except.error Op2R.Err.index : Op2R.M (List (List Nat)))
        | some col =>
          match assignCol col m p.1 p.2.2 with
          | .error e => .error e
          | .ok col' => .ok (X.set p.2.1 col')) X = .ok target := by
  intro puts
  induction puts with
  | nil =>
    intro X hX _ hag
    simp only [List.foldlM_nil, pure, Except.pure]
    congr 1
    exact ext2 X target ncols (m * rows) hX ht (fun j hj i hi => hag j hj i hi (by simp))
  | cons p t ih =>
    intro X hX hok hag
    have hp := hok p List.mem_cons_self
    have hcl : p.2.1 < X.length := by rw [hX.1]; exact hp.col
    have hc : X[p.2.1]? = some X[p.2.1] := List.getElem?_eq_getElem hcl
    have hlen : X[p.2.1].length = m * rows := hX.2 _ (List.getElem_mem hcl)
    have hfit : m * p.1 + p.2.2.length ≤ X[p.2.1].length := by rw [hlen]; exact hp.fits
    rw [List.foldlM_cons, applyPuts_step m X p X[p.2.1] hc hp.whole hfit]
    simp only [bind, Except.bind]
    apply ih
    · refine ⟨by rw [List.length_set]; exact hX.1, ?_⟩
      intro col hcol
      rcases List.mem_or_eq_of_mem_set hcol with h | h
      · exact hX.2 col h
      · rw [h]
        simp only [List.length_append, List.length_take, List.length_drop]
        omega
    · intro q hq; exact hok q (List.mem_cons_of_mem _ hq)
    · intro j hj i hi hnc
      rw [get2_set_splice X p.2.1 (m * p.1) X[p.2.1] p.2.2 hc hfit j i]
      by_cases hcov : j = p.2.1 ∧ m * p.1 ≤ i ∧ i < m * p.1 + p.2.2.length
      · rw [if_pos hcov]
        obtain ⟨hj1, h1, h2⟩ := hcov
        have := hp.vals (i - m * p.1) (by omega)
        rw [this, hj1]
        congr 1; omega
      · rw [if_neg hcov]
        apply hag j hj i hi
        intro q hq
        rcases List.mem_cons.1 hq with rfl | hq
        · intro hcv
          exact hcov ⟨hcv.1.symm, hcv.2.1, hcv.2.2⟩
        · exact hnc q hq

theorem get2_zero (ncols n j i : Nat) : get2 (List.replicate ncols (List.replicate n 0)) j i = 0 := by
  unfold get2
  simp only [List.getD_eq_getElem?_getD, List.getElem?_replicate]
  split
  · simp only [Option.getD_some, List.getElem?_replicate]
    split <;> rfl
  · rfl

/-- the dense read: the puts applied to a zero matrix rebuild `target` whenever every put is a slice of its
column of `target` and every non-zero entry of `target` is covered by some put (strings may touch, overlap,
hold zeros, come in any order) -/
theorem applyPuts_partition (m rows ncols : Nat) (target : List (List Nat)) (puts : List Put)
    (ht : Shape target ncols (m * rows)) (hok : ∀ p ∈ puts, PutOk m rows ncols target p)
    (hcov : ∀ j < ncols, ∀ i < m * rows, get2 target j i ≠ 0 → ∃ p ∈ puts, covers m p j i) :
    applyPuts m rows ncols puts = .ok target := by
  unfold applyPuts
  apply foldlM_applyPuts m rows ncols target ht puts _ ?_ hok
  · intro j hj i hi hnc
    rw [get2_zero]
    by_cases hz : get2 target j i = 0
    · exact hz.symm
    · obtain ⟨p, hp, hc⟩ := hcov j hj i hi hz
      exact absurd hc (hnc p hp)
  · refine ⟨by simp, ?_⟩
    intro col hcol
    rw [List.eq_of_mem_replicate hcol]; simp

theorem mem_putsOfCols (cs : List (Nat × List VStr)) (p : Put) :
    p ∈ putsOfCols cs ↔ ∃ q ∈ cs, ∃ s ∈ q.2, p = (s.1, q.1, s.2) := by
  unfold putsOfCols putsOfCol
  simp only [List.mem_flatMap, List.mem_map]
  constructor
  · rintro ⟨q, hq, s, hs, rfl⟩; exact ⟨q, hq, s, hs, rfl⟩
  · rintro ⟨q, hq, s, hs, rfl⟩; exact ⟨q, hq, s, hs, rfl⟩

/-! ### `into='dct'`: the last occurrence of a repeated name wins -/

/-- `dct[name]` -/
def lookupD {α} (k : List Nat) (d : List (List Nat × α)) : Option α := (d.find? (·.1 == k)).map (·.2)

/-- the value of the last entry of `l` with key `k` -/
def lastOcc {α} (k : List Nat) : List (List Nat × α) → Option α
  | [] => none
  | p :: t => match lastOcc k t with
    | some x => some x
    | none => if p.1 == k then some p.2 else none

theorem lookup_map_upd {α} (k' : List Nat) (x : α) (k : List Nat) : ∀ (d : List (List Nat × α)),
    lookupD k (d.map (fun p => if p.1 == k' then (k', x) else p))
      = if ((k' == k) && d.any (·.1 == k')) = true then some x else lookupD k d := by
  intro d
  induction d with
  | nil => simp [lookupD]
  | cons a t ih =>
    unfold lookupD at ih ⊢
    simp only [List.map_cons, List.find?_cons, List.any_cons]
    by_cases ha : (a.1 == k') = true
    · have e1 : a.1 = k' := by simpa using ha
      simp only [ha, if_true, Bool.true_or, Bool.and_true]
      by_cases hk : (k' == k) = true
      · simp [hk]
      · have hk' : (k' == k) = false := by simpa using hk
        have hak : (a.1 == k) = false := by rw [e1]; exact hk'
        simp only [hk', hak, Bool.false_eq_true, if_false]
        rw [ih, hk']
        simp
    · have ha' : (a.1 == k') = false := by simpa using ha
      simp only [ha', Bool.false_eq_true, if_false, Bool.false_or]
      by_cases hak : (a.1 == k) = true
      · have e1 : a.1 = k := by simpa using hak
        have : (k' == k) = false := by
          cases h : (k' == k) with
          | false => rfl
          | true =>
            have : k' = k := by simpa using h
            rw [e1, this] at ha'; simp at ha'
        simp [hak, this]
      · have hak' : (a.1 == k) = false := by simpa using hak
        simp only [hak']
        exact ih

theorem lookup_insert {α} (d : List (List Nat × α)) (k' : List Nat) (x : α) (k : List Nat) :
    lookupD k (dctInsert d k' x) = if k' == k then some x else lookupD k d := by
  unfold dctInsert
  by_cases hany : d.any (·.1 == k') = true
  · rw [if_pos hany, lookup_map_upd, hany, Bool.and_true]
  · rw [if_neg hany]
    have hno : ∀ p ∈ d, (p.1 == k') = false := by
      intro p hp
      cases h : (p.1 == k') with
      | false => rfl
      | true => exact absurd (List.any_eq_true.2 ⟨p, hp, h⟩) hany
    unfold lookupD
    rw [List.find?_append]
    cases hk : (k' == k) with
    | true =>
      have e1 : k' = k := by simpa using hk
      have : d.find? (·.1 == k) = none := by
        apply List.find?_eq_none.2
        intro p hp
        rw [← e1]; simp [hno p hp]
      simp [this, hk]
    | false =>
      cases hf : d.find? (·.1 == k) with
      | none => simp [hk]
      | some q => simp

/-- **dict mode keeps the last occurrence**: `dct[name]` after `dctload` is the LAST matrix of that name in
the file (`listload` keeps all of them) -/
theorem lookup_dctOf {α} (k : List Nat) : ∀ (l d : List (List Nat × α)),
    lookupD k (l.foldl (fun d p => dctInsert d p.1 p.2) d) = (match lastOcc k l with | some x => some x | none => lookupD k d) := by
  intro l
  induction l with
  | nil => intro d; rfl
  | cons p t ih =>
    intro d
    rw [List.foldl_cons, ih, lastOcc]
    cases lastOcc k t with
    | some x => rfl
    | none =>
      simp only
      rw [lookup_insert]
      cases (p.1 == k) <;> rfl

/-- filtering by a test on the KEY keeps the last occurrence of every key that passes the test -/
theorem lastOcc_filter {α} (P : List Nat → Bool) (k : List Nat) (hk : P k = true) : ∀ (l : List (List Nat × α)),
    lastOcc k (l.filter fun p => P p.1) = lastOcc k l := by
  intro l
  induction l with
  | nil => rfl
  | cons p t ih =>
    by_cases hp : P p.1 = true
    · rw [List.filter_cons_of_pos (by simpa using hp), lastOcc, lastOcc, ih]
    · rw [List.filter_cons_of_neg (by simpa using hp), lastOcc, ih]
      have hne : (p.1 == k) = false := by
        cases h : (p.1 == k) with
        | false => rfl
        | true =>
          have : p.1 = k := by simpa using h
          rw [this, hk] at hp; exact absurd rfl hp
      cases lastOcc k t <;> simp [hne]

end PyYetiVerif.Op4VR
