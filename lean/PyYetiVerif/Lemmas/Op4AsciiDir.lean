import PyYetiVerif.Lemmas.Op4AsciiPuts
/-! C04: `op4.dir` on an ASCII file the writer produced (`_skipop4_ascii`, modelled by `skipCols` / `skipStrs` /
`dirA`): the skipper counts exactly the lines the writer printed, so the listing is the listing of the read. -/
namespace PyYetiVerif.Op4A
open PyYetiVerif.Op4 PyYetiVerif.Generated.Op4Consts List

/-! ### how many value lines -/

theorem valLines_length (d : Nat) (hp : 1 ≤ perline d) (ds : List Nat) :
    (valLines d ds).length = (ds.length + perline d - 1) / perline d := by
  unfold valLines
  cases ds with
  | nil =>
    have h0 : (0 + perline d - 1) / perline d = 0 := Nat.div_eq_of_lt (by omega)
    simp only [List.map_nil, List.length_nil, chunkLines, h0]
  | cons a t =>
    rw [chunkLines_length (perline d) hp _ _ (by simp) (by simp)]
    simp only [List.length_map, List.length_cons]
    have e : t.length + 1 + perline d - 1 = t.length + 1 - 1 + perline d := by omega
    rw [e, Nat.add_div_right _ (by omega)]

/-- `(n + p - 1) // p` in Python's integers -/
theorem ceil_int (n p : Nat) (hp : 1 ≤ p) : (((n : Int) + (p : Int) - 1) / (p : Int)).toNat = (n + p - 1) / p := by
  have : ((n : Int) + (p : Int) - 1) = ((n + p - 1 : Nat) : Int) := by omega
  rw [this]
  have h2 : ((n + p - 1 : Nat) : Int) / (p : Int) = (((n + p - 1) / p : Nat) : Int) := by
    exact (Int.natCast_ediv _ _).symm
  rw [h2]
  exact Int.toNat_natCast _

/-! ### the string loops -/

theorem skipStrs_succ (big : Bool) (wper perline : Nat) (fuel : Nat) (elems : Int) (ls : List Str) :
    skipStrs big wper perline (fuel + 1) elems ls =
      if elems ≤ 0 then some ls else
      match ls with
      | [] => none
      | line :: ls1 =>
        match (if big then pyInt? (slice line 0 8) else pyInt? line) with
        | none => none
        | some v =>
          skipStrs big wper perline fuel
            (elems - (if big then (if big then v - 1 else v / ((2 ^ isShiftR : Nat) : Int) - 1) + 2
                      else (if big then v - 1 else v / ((2 ^ isShiftR : Nat) : Int) - 1) + 1))
            (ls1.drop (((if big then v - 1 else v / ((2 ^ isShiftR : Nat) : Int) - 1) / (wper : Int) + (perline : Int) - 1) /
              (perline : Int)).toNat) := by
  conv => lhs; unfold skipStrs
  rfl

theorem segDs_half (cplx : Bool) (seg : List Entry) :
    ((seg.length * 2 * mult cplx : Nat) : Int) / ((2 : Nat) : Int) = ((segDs cplx seg).length : Int) := by
  rw [segDs_length]
  have : seg.length * 2 * mult cplx = 2 * (seg.length * mult cplx) := by ring
  rw [this]
  have h2 : ((2 * (seg.length * mult cplx) : Nat) : Int) / ((2 : Nat) : Int) = (((2 * (seg.length * mult cplx)) / 2 : Nat) : Int) :=
    (Int.natCast_ediv _ _).symm
  rw [h2]
  congr 1
  omega

/-- `while elems > 0` of the bigmat branch of `_skipop4_ascii` on the strings the writer printed -/
theorem skipStrs_big_enc (d : Nat) (cplx : Bool) (hp : 1 ≤ perline d) (rest : List Str) :
    ∀ (ss : List (Nat × List Entry)) (fuel : Nat), ss.length + 1 ≤ fuel →
      (∀ s ∈ ss, s.2.length * 2 * mult cplx + 1 < 10 ^ 8 ∧ s.1 + 1 < 10 ^ 8) →
      skipStrs true 2 (perline d) fuel ((nwordsBig cplx ss : Nat) : Int) (ss.flatMap (bigStrLines d cplx) ++ rest)
        = some rest := by
  intro ss
  induction ss with
  | nil =>
    intro fuel hf _
    obtain ⟨f, rfl⟩ : ∃ f, fuel = f + 1 := ⟨fuel - 1, by simp at hf; omega⟩
    rw [skipStrs_succ]
    simp [nwordsBig, sumLens]
  | cons s t ih =>
    intro fuel hf hw
    obtain ⟨f, rfl⟩ : ∃ f, fuel = f + 1 := ⟨fuel - 1, by simp at hf; omega⟩
    obtain ⟨hw1, hw2⟩ := hw s List.mem_cons_self
    rw [skipStrs_succ]
    have hpos : ¬ (((nwordsBig cplx (s :: t) : Nat) : Int) ≤ 0) := by rw [nwordsBig_cons]; omega
    rw [if_neg hpos]
    simp only [List.flatMap_cons, bigStrLines, List.cons_append, if_true]
    have la := fmtInt_length 8 _ (intFits_nat 8 (s.2.length * 2 * mult cplx + 1) (by omega) hw1)
    rw [List.append_assoc, slice_0 _ _ 8 la, pyInt_fmtInt']
    simp only
    have hL : ((s.2.length * 2 * mult cplx + 1 : Nat) : Int) - 1 = ((s.2.length * 2 * mult cplx : Nat) : Int) := by omega
    rw [hL, segDs_half, ceil_int _ _ hp, ← valLines_length d hp]
    have hdrop : (valLines d (segDs cplx s.2) ++ (t.flatMap (bigStrLines d cplx) ++ rest)).drop (valLines d (segDs cplx s.2)).length
        = t.flatMap (bigStrLines d cplx) ++ rest := List.drop_left' rfl
    rw [List.append_assoc, hdrop]
    have hrest : ((nwordsBig cplx (s :: t) : Nat) : Int) - (((s.2.length * 2 * mult cplx : Nat) : Int) + 2)
        = ((nwordsBig cplx t : Nat) : Int) := by rw [nwordsBig_cons]; omega
    rw [hrest]
    exact ih f (by simp at hf ⊢; omega) (fun x hx => hw x (List.mem_cons_of_mem _ hx))

/-- the same for the nonbigmat branch: `L = (IS >> 16) - 1` -/
theorem skipStrs_nonbig_enc (d : Nat) (cplx : Bool) (hp : 1 ≤ perline d) (rest : List Str) :
    ∀ (ss : List (Nat × List Entry)) (fuel : Nat), ss.length + 1 ≤ fuel →
      (∀ s ∈ ss, s.1 + 1 < 65536) →
      skipStrs false 2 (perline d) fuel ((nwordsNonbig cplx ss : Nat) : Int) (ss.flatMap (nonbigStrLines d cplx) ++ rest)
        = some rest := by
  intro ss
  induction ss with
  | nil =>
    intro fuel hf _
    obtain ⟨f, rfl⟩ : ∃ f, fuel = f + 1 := ⟨fuel - 1, by simp at hf; omega⟩
    rw [skipStrs_succ]
    simp [nwordsNonbig, sumLens]
  | cons s t ih =>
    intro fuel hf hw
    obtain ⟨f, rfl⟩ : ∃ f, fuel = f + 1 := ⟨fuel - 1, by simp at hf; omega⟩
    have hw1 := hw s List.mem_cons_self
    rw [skipStrs_succ]
    have hpos : ¬ (((nwordsNonbig cplx (s :: t) : Nat) : Int) ≤ 0) := by rw [nwordsNonbig_cons]; omega
    rw [if_neg hpos]
    simp only [List.flatMap_cons, nonbigStrLines, List.cons_append, Bool.false_eq_true, if_false]
    rw [pyInt_fmtInt 11 _ ['\n'] (by intro x hx; simp at hx; rw [hx]; decide)]
    simp only
    have hshift : ((packIS (s.1 + 1) (s.2.length * 2 * mult cplx) : Nat) : Int) / ((2 ^ isShiftR : Nat) : Int)
        = ((s.2.length * 2 * mult cplx + 1 : Nat) : Int) := by
      have h1 := pack_shift (s.1 + 1) (s.2.length * 2 * mult cplx) hw1
      rw [Nat.shiftRight_eq_div_pow] at h1
      rw [← h1]
      exact (Int.natCast_ediv _ _).symm
    rw [hshift]
    have hL : ((s.2.length * 2 * mult cplx + 1 : Nat) : Int) - 1 = ((s.2.length * 2 * mult cplx : Nat) : Int) := by omega
    rw [hL, segDs_half, ceil_int _ _ hp, ← valLines_length d hp]
    have hdrop : (valLines d (segDs cplx s.2) ++ (t.flatMap (nonbigStrLines d cplx) ++ rest)).drop (valLines d (segDs cplx s.2)).length
        = t.flatMap (nonbigStrLines d cplx) ++ rest := List.drop_left' rfl
    rw [List.append_assoc, hdrop]
    have hrest : ((nwordsNonbig cplx (s :: t) : Nat) : Int) - (((s.2.length * 2 * mult cplx : Nat) : Int) + 1)
        = ((nwordsNonbig cplx t : Nat) : Int) := by rw [nwordsNonbig_cons]; omega
    rw [hrest]
    exact ih f (by simp at hf ⊢; omega) (fun x hx => hw x (List.mem_cons_of_mem _ hx))

/-! ### the column loops -/

theorem second_intLine3 (a b c : Int) (ha : IntFits 8 a) (hb : IntFits 8 b) :
    pyInt? (slice (intLine3 a b c) 8 16) = some b := by
  unfold intLine3
  rw [List.append_assoc, slice_1 _ _ _ 8 8 (fmtInt_length 8 a ha) (fmtInt_length 8 b hb), pyInt_fmtInt']

def kindOf (lay : Layout) : Nat :=
  match lay with
  | .dense => 0
  | .bigmat => 1
  | .nonbigmat => 2

/-- what `_skipop4_ascii` does under a column header line -/
def skipBody (kind wper perline : Nat) (elems : Int) (ls : List Str) : Option (List Str) :=
  if kind = 0 then some (ls.drop ((elems + (perline : Int) - 1) / (perline : Int)).toNat)
  else skipStrs (kind = 1) wper perline (ls.length + 1) elems ls

theorem skipBody_dense (w p : Nat) (e : Int) (ls : List Str) :
    skipBody 0 w p e ls = some (ls.drop ((e + (p : Int) - 1) / (p : Int)).toNat) := rfl
theorem skipBody_big (w p : Nat) (e : Int) (ls : List Str) :
    skipBody 1 w p e ls = skipStrs true w p (ls.length + 1) e ls := rfl
theorem skipBody_nonbig (w p : Nat) (e : Int) (ls : List Str) :
    skipBody 2 w p e ls = skipStrs false w p (ls.length + 1) e ls := rfl

theorem skipCols_succ (kind wper perline : Nat) (cols : Int) (fuel : Nat) (c : Int) (line : Str) (ls : List Str) :
    skipCols kind wper perline cols (fuel + 1) c line ls =
      if c < cols then
        match pyInt? (slice line 16 24) with
        | some elems =>
          match skipBody kind wper perline elems ls with
          | some (line' :: ls2) =>
            match pyInt? (slice line' 0 8) with
            | some c' => skipCols kind wper perline cols fuel (c' - 1) line' ls2
            | none => none
          | _ => none
        | none => none
      else some ls := by
  conv => lhs; unfold skipCols
  rfl

/-- the skipper passes the lines of the record -/
structure ARec.Skip (lay : Layout) (perline : Nat) (ncols : Nat) (rc : ARec) : Prop where
  hc : rc.c < ncols
  fc : IntFits 8 ((rc.c + 1 : Nat) : Int)
  fr : IntFits 8 (rc.r : Int)
  fnw : IntFits 8 (rc.nw : Int)
  skip : ∀ tail, skipBody (kindOf lay) 2 perline (rc.nw : Int) (rc.body ++ tail) = some tail

theorem skipCols_chain (lay : Layout) (p : Nat) (ncols : Nat) (hn : IntFits 8 ((ncols + 1 : Nat) : Int)) (rest : List Str) :
    ∀ (recs : List ARec) (hd : ARec) (fuel : Nat), recs.length + 2 ≤ fuel →
      hd.Skip lay p ncols → (∀ rc ∈ recs, rc.Skip lay p ncols) →
      skipCols (kindOf lay) 2 p ncols fuel hd.c hd.head (hd.body ++ (recs.flatMap ARec.lines ++ trailerHead ncols :: rest))
        = some rest := by
  intro recs
  induction recs with
  | nil =>
    intro hd fuel hf hg _
    obtain ⟨f, rfl⟩ : ∃ f, fuel = f + 2 := ⟨fuel - 2, by simp at hf; omega⟩
    rw [skipCols_succ]
    have h1 : ((hd.c : Nat) : Int) < (ncols : Int) := by have := hg.hc; omega
    simp only [h1, if_true, ARec.head, elems_intLine3 _ _ _ hg.fc hg.fr hg.fnw, List.flatMap_nil, List.nil_append,
      hg.skip]
    simp only [trailerHead, first_intLine3 _ _ _ hn]
    rw [skipCols_succ]
    have h3 : ¬ (((ncols + 1 : Nat) : Int) - 1 < (ncols : Int)) := by omega
    simp only [h3, if_false]
  | cons rc t ih =>
    intro hd fuel hf hg hall
    obtain ⟨f, rfl⟩ : ∃ f, fuel = f + 1 := ⟨fuel - 1, by simp at hf; omega⟩
    have hgr := hall rc List.mem_cons_self
    rw [skipCols_succ]
    have h1 : ((hd.c : Nat) : Int) < (ncols : Int) := by have := hg.hc; omega
    simp only [h1, if_true, ARec.head, elems_intLine3 _ _ _ hg.fc hg.fr hg.fnw, hg.skip]
    simp only [List.flatMap_cons, ARec.lines, List.cons_append, ARec.head, first_intLine3 _ _ _ hgr.fc]
    have h4 : ((rc.c + 1 : Nat) : Int) - 1 = (rc.c : Int) := by omega
    rw [h4]
    have := ih rc f (by simp at hf ⊢; omega) hgr (fun x hx => hall x (List.mem_cons_of_mem _ hx))
    simp only [ARec.head, List.append_assoc] at this ⊢
    exact this

theorem arecOf_skip (d : Nat) (cplx : Bool) (hp : 1 ≤ perline d)
    (lay : Layout) (ncols c : Nat) (col : List Entry) (s : Nat) (tl : List Nat) (h : nzIdx cplx col = s :: tl)
    (hc : c < ncols) (hn : ncols + 1 < 10 ^ 8) (hrows : 6 * col.length < 10 ^ 8)
    (hnb : lay = .nonbigmat → col.length < 65536) :
    (arecOf d lay cplx c col s tl).Skip lay (perline d) ncols := by
  have hs_mem : s ∈ nzIdx cplx col := by rw [h]; exact List.mem_cons_self
  obtain ⟨xs, hxs, _⟩ := (mem_nzIdx _ _ _).1 hs_mem
  have hs_lt : s < col.length := (List.getElem?_eq_some_iff.1 hxs).1
  have hm := mult_le_two cplx
  have hb := nwords_bound cplx col
  have fitN : ∀ k : Nat, k < 10 ^ 8 → IntFits 8 (k : Int) := fun k hk => intFits_nat 8 k (by omega) hk
  cases lay
  · -- dense
    have hseg : (denseSeg col s tl).length ≤ col.length := by unfold denseSeg; simp <;> omega
    have hmul : (segDs cplx (denseSeg col s tl)).length ≤ 2 * col.length := by
      rw [segDs_length]
      have := Nat.mul_le_mul hseg hm.1; omega
    refine ⟨hc, fitN _ (by simp only [arecOf]; omega), fitN _ (by simp only [arecOf]; omega),
      fitN _ (by simp only [arecOf]; omega), ?_⟩
    intro tail
    simp only [arecOf]
    rw [show kindOf .dense = 0 from rfl, skipBody_dense, ceil_int _ _ hp, ← valLines_length d hp, List.drop_left' rfl]
  · -- bigmat
    refine ⟨hc, fitN _ (by simp only [arecOf]; omega), fitN _ (by simp only [arecOf]; omega),
      fitN _ (by simp only [arecOf]; omega), ?_⟩
    intro tail
    simp only [arecOf]
    rw [show kindOf .bigmat = 1 from rfl, skipBody_big]
    apply skipStrs_big_enc d cplx hp tail
    · rw [List.length_append]
      have := flatMap_length_ge (bigStrLines d cplx) (strings cplx col) (fun x _ => by simp [bigStrLines])
      omega
    · intro s' hs'
      obtain ⟨h1, h2, _⟩ := mem_strings cplx col s' hs'
      have : s'.2.length * 2 * mult cplx ≤ 4 * col.length := by
        have h3 : s'.2.length ≤ col.length := by omega
        have := Nat.mul_le_mul h3 hm.1
        have e : s'.2.length * 2 * mult cplx = 2 * (s'.2.length * mult cplx) := by ring
        omega
      constructor <;> omega
  · -- nonbigmat
    refine ⟨hc, fitN _ (by simp only [arecOf]; omega), fitN _ (by simp only [arecOf]; omega),
      fitN _ (by simp only [arecOf]; omega), ?_⟩
    intro tail
    simp only [arecOf]
    rw [show kindOf .nonbigmat = 2 from rfl, skipBody_nonbig]
    apply skipStrs_nonbig_enc d cplx hp tail
    · rw [List.length_append]
      have := flatMap_length_ge (nonbigStrLines d cplx) (strings cplx col) (fun x _ => by simp [nonbigStrLines])
      omega
    · exact strings_rows cplx col (hnb rfl)

theorem arecsOf_skip (d : Nat) (cplx : Bool) (hp : 1 ≤ perline d)
    (lay : Layout) (ncols rows : Nat) (hn : ncols + 1 < 10 ^ 8) (hrows : 6 * rows < 10 ^ 8)
    (hnb : lay = .nonbigmat → rows < 65536) :
    ∀ (cols : List (List Entry)) (c : Nat), c + cols.length ≤ ncols → (∀ col ∈ cols, col.length = rows) →
      ∀ rc ∈ arecsOf d lay cplx c cols, rc.Skip lay (perline d) ncols := by
  intro cols
  induction cols with
  | nil => intro c _ _ rc hrc; simp [arecsOf] at hrc
  | cons col t ih =>
    intro c hc hl rc hrc
    have hcl := hl col List.mem_cons_self
    have iht := ih (c + 1) (by simp at hc ⊢; omega) (fun x hx => hl x (List.mem_cons_of_mem _ hx))
    unfold arecsOf at hrc
    split at hrc
    · exact iht rc hrc
    · next s tl h =>
      rcases List.mem_cons.1 hrc with rfl | hrc
      · exact arecOf_skip d cplx hp lay ncols c col s tl h (by simp at hc; omega) hn (by omega)
          (fun hh => by have := hnb hh; omega)
      · exact iht rc hrc

/-! ### a whole matrix, a whole file -/

/-- what `dir` lists for a written matrix: the name field, `|rows|`, columns, form, type -/
def listingOf (p : Layout × Mat) : Str × Int × Int × Int × Int :=
  (nameStr p.2.name, (p.2.rows : Int), (p.2.cols.length : Int), (p.2.form : Int), (mtypeOf p.2.cplx : Int))

/-- the listing of a decoded matrix -/
def ADec.listing (a : ADec) : Str × Int × Int × Int × Int :=
  (a.rawName, (if a.rows < 0 then -a.rows else a.rows), a.cols, a.form, a.mtype)

theorem dirA_succ (fuel : Nat) (l0 : Str) (ls1 : List Str) :
    dirA (fuel + 1) (l0 :: ls1) =
      match rdHeader l0 with
      | none => none
      | some none => some []
      | some (some h) =>
        match ls1 with
        | [] => none
        | line :: ls2 =>
          match pyInt? (slice line 0 8), pyInt? (slice line 8 16) with
          | some c1, some r =>
            match skipCols (if r > 0 then 0 else if h.rows < 0 ∨ h.rows ≥ rows4bigmat then 1 else 2)
                (if h.mtype % 2 = 1 then 1 else 2) h.perline h.cols (ls2.length + 1) (c1 - 1) line ls2 with
            | some rest =>
              (dirA fuel (rest.drop 1)).map
                ((h.name, (if h.rows < 0 then -h.rows else h.rows), h.cols, h.form, h.mtype) :: ·)
            | none => none
          | _, _ => none := by
  conv => lhs; unfold dirA
  rfl

theorem mtype_wper (cplx : Bool) : (if ((mtypeOf cplx : Nat) : Int) % 2 = 1 then 1 else 2) = 2 := by
  cases cplx <;> simp [mtypeOf]

/-- `dir` over the lines of one written matrix -/
theorem dirA_matrix (d : Nat) (hp : 1 ≤ perline d) (lay : Layout) (m : Mat) (hwf : WfA m)
    (hnb : lay = .nonbigmat → m.rows < 65536) (rest : List Str) (fuel : Nat) :
    dirA (fuel + 1) (matLines d lay m ++ rest) = (dirA fuel rest).map (listingOf (lay, m) :: ·) := by
  have hrowsb : 6 * m.rows < 10 ^ 8 := hwf.rows_lt
  have hskip := arecsOf_skip d m.cplx hp lay m.cols.length m.rows hwf.ncols_lt hrowsb hnb m.cols 0
    (by omega) hwf.cols_len
  have hnfit : IntFits 8 ((m.cols.length + 1 : Nat) : Int) := intFits_nat 8 _ (by omega) hwf.ncols_lt
  have hrows_abs : (if (hdrOf d m (lay == .bigmat)).rows < 0 then -(hdrOf d m (lay == .bigmat)).rows
      else (hdrOf d m (lay == .bigmat)).rows) = (m.rows : Int) := by
    cases lay <;> simp [hdrOf] <;> omega
  have hcols : (hdrOf d m (lay == .bigmat)).cols = (m.cols.length : Int) := rfl
  have hmt : (hdrOf d m (lay == .bigmat)).mtype = (mtypeOf m.cplx : Int) := rfl
  have hpl : (hdrOf d m (lay == .bigmat)).perline = perline d := rfl
  have hname : (hdrOf d m (lay == .bigmat)).name = nameStr m.name := rfl
  have hform : (hdrOf d m (lay == .bigmat)).form = (m.form : Int) := rfl
  unfold matLines
  simp only [List.cons_append]
  rw [dirA_succ, rdHeader_asciiHeader d m _ hwf hp]
  generalize hrecs : arecsOf d lay m.cplx 0 m.cols = recs at hskip
  cases recs with
  | nil =>
    simp only [List.flatMap_nil, List.nil_append, List.cons_append, trailerHead,
      first_intLine3 _ _ _ hnfit, second_intLine3 _ _ _ hnfit intFits_one]
    have h1 : ((1 : Int) > 0) := by omega
    simp only [h1, if_true, hcols]
    rw [skipCols_succ]
    have h3 : ¬ (((m.cols.length + 1 : Nat) : Int) - 1 < (m.cols.length : Int)) := by omega
    simp only [h3, if_false, List.drop_one, List.tail_cons, hrows_abs, hname, hform, hmt, listingOf]
  | cons hd' t =>
    have hg := hskip hd' List.mem_cons_self
    have hgt : ∀ rc ∈ t, rc.Skip lay (perline d) m.cols.length := fun x hx => hskip x (List.mem_cons_of_mem _ hx)
    simp only [List.flatMap_cons, ARec.lines, List.cons_append, ARec.head, first_intLine3 _ _ _ hg.fc,
      second_intLine3 _ _ _ hg.fc hg.fr]
    have hc0 : ((hd'.c + 1 : Nat) : Int) - 1 = (hd'.c : Int) := by omega
    rw [hc0]
    have hr := arecsOf_r d lay m.cplx m.cols 0 hd' (by rw [hrecs]; exact List.mem_cons_self)
    obtain ⟨col, hcol, hlen⟩ := arecsOf_ne_nil d lay m.cplx m.cols 0 (by rw [hrecs]; simp)
    have hrows_pos : 0 < m.rows := by rw [← hwf.cols_len col hcol]; exact hlen
    have hkind : (if (hd'.r : Int) > 0 then 0 else if (hdrOf d m (lay == .bigmat)).rows < 0 ∨
        (hdrOf d m (lay == .bigmat)).rows ≥ rows4bigmat then 1 else 2) = kindOf lay := by
      cases lay
      · have := hr.1 rfl
        rw [if_pos (by omega)]; rfl
      · have := hr.2 (by simp)
        have h'' : (hdrOf d m (Layout.bigmat == .bigmat)).rows < 0 := by simp [hdrOf]; omega
        rw [if_neg (by omega), if_pos (Or.inl h'')]; rfl
      · have := hr.2 (by simp)
        have hlt := hnb rfl
        have h'' : ¬ ((hdrOf d m (Layout.nonbigmat == .bigmat)).rows < 0 ∨
            (hdrOf d m (Layout.nonbigmat == .bigmat)).rows ≥ rows4bigmat) := by
          simp [hdrOf, rows4bigmat]; omega
        rw [if_neg (by omega), if_neg h'']; rfl
    rw [hkind, hmt, mtype_wper, hpl, hcols]
    have hfuel : t.length + 2 ≤ (hd'.body ++ (t.flatMap ARec.lines ++
        (trailerHead m.cols.length :: (fmtE d sqrt2Bits ++ ['\n']) :: rest))).length + 1 := by
      have := lines_length_ge t
      simp only [List.length_append, List.length_cons]; omega
    have hch := skipCols_chain lay (perline d) m.cols.length hnfit ((fmtE d sqrt2Bits ++ ['\n']) :: rest) t hd' _ hfuel hg hgt
    simp only [ARec.head, List.append_assoc, List.cons_append, List.nil_append] at hch ⊢
    rw [hch]
    simp only [List.drop_one, List.tail_cons, hrows_abs, hname, hform, listingOf]

theorem dirA_file (d : Nat) (hp : 1 ≤ perline d) :
    ∀ (ms : List (Layout × Mat)) (fuel : Nat), ms.length + 1 ≤ fuel →
      (∀ p ∈ ms, WfA p.2 ∧ (p.1 = .nonbigmat → p.2.rows < 65536)) →
      dirA fuel (ms.flatMap fun p => matLines d p.1 p.2) = some (ms.map listingOf) := by
  intro ms
  induction ms with
  | nil =>
    intro fuel hf _
    obtain ⟨f, rfl⟩ : ∃ f, fuel = f + 1 := ⟨fuel - 1, by simp at hf; omega⟩
    simp [dirA]
  | cons p t ih =>
    intro fuel hf hok
    obtain ⟨f, rfl⟩ : ∃ f, fuel = f + 1 := ⟨fuel - 1, by simp at hf; omega⟩
    obtain ⟨hwf, hnb⟩ := hok p List.mem_cons_self
    simp only [List.flatMap_cons, List.map_cons]
    rw [dirA_matrix d hp p.1 p.2 hwf hnb _ f, ih f (by simp at hf ⊢; omega) (fun q hq => hok q (List.mem_cons_of_mem _ hq))]
    rfl

/-- `op4.dir` on a written ASCII file -/
theorem dirAscii_enc (d : Nat) (hp : 1 ≤ perline d) (ms : List (Layout × Mat)) (hne : ms ≠ [])
    (hok : ∀ p ∈ ms, WfA p.2 ∧ (p.1 = .nonbigmat → p.2.rows < 65536)) :
    dirAscii (encFileAscii d ms) = some (ms.map listingOf) := by
  have hlines := (encFileAscii_isLines d hp ms fun p hp' => (hok p hp').1).eq
  cases ms with
  | nil => exact absurd rfl hne
  | cons p t =>
    unfold dirAscii
    rw [isAsciiFile_enc d p t (hok p List.mem_cons_self).1, if_pos rfl, hlines]
    apply dirA_file d hp (p :: t) _ _ hok
    have := flatMap_length_ge (fun p : Layout × Mat => matLines d p.1 p.2) (p :: t)
      (fun q _ => matLines_ne_nil d q.1 q.2)
    omega

theorem listing_of_decs (d : Nat) : ∀ (ms : List (Layout × Mat)) (ds : List ADec), Forall₂ (ADecOf d) ms ds →
    ds.map ADec.listing = ms.map listingOf := by
  intro ms ds h
  induction h with
  | nil => rfl
  | @cons p a ps as hd _ ih =>
    obtain ⟨h1, h2, h3, h4, h5, _⟩ := hd
    have habs : (if a.rows < 0 then -a.rows else a.rows) = (p.2.rows : Int) := by
      rw [h2]
      by_cases hb : p.1 = .bigmat
      · simp only [hb, if_true]; split <;> omega
      · simp only [hb, if_false]; split <;> omega
    simp only [List.map_cons, ih, ADec.listing, listingOf, h1, habs, h3, h4, h5]

end PyYetiVerif.Op4A
