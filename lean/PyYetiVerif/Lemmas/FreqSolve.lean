import PyYetiVerif.Model.FreqSolve
import Mathlib.Data.List.Sort
import Mathlib.Data.List.Perm.Basic
import Mathlib.Data.List.Nodup
import Mathlib.Data.List.Range
import Mathlib.Tactic.Ring
import Mathlib.Algebra.BigOperators.Group.List.Basic
import Mathlib.Algebra.Field.Basic
/-! Helper lemmas for the index-vector operations of `Model/FreqSolve.lean` (C02): `scatter`
writes exactly the addressed rows, `gather ∘ positionsFrom` is `filter`, `sortAsc` sorts, and
`modifyRows` touches exactly the addressed rows. -/
set_option linter.unusedSimpArgs false
set_option linter.unusedSectionVars false
set_option linter.unusedVariables false
namespace PyYetiVerif.Freq

/-! ### scatter -/

theorem scatter_length {β : Type} (base : List β) (idx : List Nat) (vals : List β) :
    (scatter base idx vals).length = base.length := by
  induction idx generalizing base vals with
  | nil => cases vals <;> rfl
  | cons r idx ih =>
    cases vals with
    | nil => rfl
    | cons v vals => simp [scatter, ih]

theorem scatter_getElem?_of_not_mem {β : Type} (base : List β) (idx : List Nat) (vals : List β)
    (r : Nat) (hr : r ∉ idx) : (scatter base idx vals)[r]? = base[r]? := by
  induction idx generalizing base vals with
  | nil => cases vals <;> rfl
  | cons a idx ih =>
    cases vals with
    | nil => rfl
    | cons v vals =>
      simp only [scatter]
      rw [ih _ _ (fun h => hr (List.mem_cons_of_mem _ h))]
      have : a ≠ r := fun h => hr (h ▸ List.mem_cons_self)
      simp [List.getElem?_set, this]

theorem scatter_getElem? {β : Type} (base : List β) (idx : List Nat) (vals : List β)
    (hnd : idx.Nodup) (hlen : idx.length = vals.length) (hb : ∀ r ∈ idx, r < base.length)
    (q : Nat) (hq : q < idx.length) :
    (scatter base idx vals)[idx[q]]? = some (vals[q]'(hlen ▸ hq)) := by
  induction idx generalizing base vals q with
  | nil => simp at hq
  | cons a idx ih =>
    cases vals with
    | nil => simp at hlen
    | cons v vals =>
      simp only [scatter]
      have hnd' := List.nodup_cons.1 hnd
      cases q with
      | zero =>
        simp only [List.getElem_cons_zero]
        rw [scatter_getElem?_of_not_mem _ _ _ _ hnd'.1]
        simp [List.getElem?_set, hb a (by simp)]
      | succ q =>
        simp only [List.getElem_cons_succ]
        exact ih (base.set a v) vals hnd'.2 (by simpa using hlen)
          (fun r hr => by simpa using hb r (List.mem_cons_of_mem _ hr)) q (by simpa using hq)

theorem set_eq_self_of_getElem? {β : Type} (s : List β) (r : Nat) (x : β) (h : s[r]? = some x) :
    s.set r x = s := by
  apply List.ext_getElem?
  intro k
  by_cases hk : r = k
  · subst hk
    have hlt : r < s.length := by
      by_contra hge
      rw [List.getElem?_eq_none (by omega)] at h
      cases h
    simp [List.getElem?_set, hlt]
    rw [List.getElem?_eq_getElem hlt] at h
    exact (Option.some.inj h).symm
  · simp [List.getElem?_set, hk]

/-- writing what is already there changes nothing -/
theorem scatter_same {β : Type} (s : List β) (idx : List Nat) (vals : List β)
    (h : ∀ q (hq : q < idx.length) (hv : q < vals.length), s[idx[q]]? = some vals[q]) :
    scatter s idx vals = s := by
  induction idx generalizing vals with
  | nil => cases vals <;> rfl
  | cons r idx ih =>
    cases vals with
    | nil => rfl
    | cons v vals =>
      simp only [scatter]
      have h0 := h 0 (by simp) (by simp)
      simp only [List.getElem_cons_zero] at h0
      rw [set_eq_self_of_getElem? s r v h0]
      exact ih vals fun q hq hv => by
        have := h (q + 1) (by simpa using hq) (by simpa using hv)
        simpa using this

/-! ### gather / positionsFrom -/

theorem gather_nil {β : Type} (x : List β) : gather x [] = some [] := rfl

theorem gather_cons {β : Type} (x : List β) (p : Nat) (ps : List Nat) :
    gather x (p :: ps) = (x[p]?).bind fun a => (gather x ps).map fun as => a :: as := by
  simp only [gather, List.mapM_cons]
  cases x[p]? with
  | none => rfl
  | some a =>
    cases List.mapM (fun p => x[p]?) ps <;> rfl

theorem gather_length {β : Type} (x : List β) (idx : List Nat) (g : List β)
    (h : gather x idx = some g) : g.length = idx.length := by
  induction idx generalizing g with
  | nil => simp [gather_nil] at h; subst h; rfl
  | cons p ps ih =>
    rw [gather_cons] at h
    cases hx : x[p]? with
    | none => simp [hx] at h
    | some a =>
      cases hg : gather x ps with
      | none => simp [hx, hg] at h
      | some as =>
        simp [hx, hg] at h
        subst h
        simp [ih as hg]

theorem gather_positionsFrom {P : Nat → Bool} (pre xs : List Nat) :
    gather (pre ++ xs) (positionsFrom P pre.length xs) = some (xs.filter P) := by
  induction xs generalizing pre with
  | nil => rfl
  | cons x xs ih =>
    have h := ih (pre ++ [x])
    simp only [List.length_append, List.length_cons, List.length_nil, List.append_assoc,
      List.cons_append, List.nil_append] at h
    simp only [positionsFrom]
    by_cases hp : P x = true
    · simp only [hp, if_true, List.filter_cons_of_pos]
      rw [gather_cons, h]
      simp
    · simp only [hp, List.filter_cons_of_neg, Bool.false_eq_true, if_false, not_false_eq_true]
      exact h

/-- `x[np.nonzero(mask[x])[0]]` is the sub-list of `x` selected by the mask -/
theorem gather_positions (P : Nat → Bool) (l : List Nat) :
    gather l (positionsFrom P 0 l) = some (l.filter P) := by
  simpa using gather_positionsFrom (P := P) [] l

theorem positionsFrom_ge (P : Nat → Bool) (s : Nat) (l : List Nat) :
    ∀ p ∈ positionsFrom P s l, s ≤ p := by
  induction l generalizing s with
  | nil => intro p hp; cases hp
  | cons x xs ih =>
    intro p hp
    simp only [positionsFrom] at hp
    split at hp
    · rcases List.mem_cons.1 hp with rfl | hp
      · exact Nat.le_refl _
      · exact Nat.le_of_succ_le (ih (s + 1) p hp)
    · exact Nat.le_of_succ_le (ih (s + 1) p hp)

/-- `_el`: the positions not in `_rb` are the positions of the complementary mask -/
theorem range'_filter_not_positions (P : Nat → Bool) (s : Nat) (l : List Nat) :
    (List.range' s l.length).filter (fun p => !(positionsFrom P s l).contains p) =
      positionsFrom (fun x => !P x) s l := by
  induction l generalizing s with
  | nil => rfl
  | cons x xs ih =>
    simp only [List.length_cons, List.range'_succ, positionsFrom]
    have hs : ∀ l' : List Nat, (∀ p ∈ l', s + 1 ≤ p) → l'.contains s = false := by
      intro l' hl'
      cases h : l'.contains s
      · rfl
      · have := hl' s (by simpa using h); omega
    have htail : ∀ extra : List Nat → List Nat, (∀ (l' : List Nat) (p : Nat), p ≠ s → (extra l').contains p = l'.contains p) →
        (List.range' (s + 1) xs.length).filter
          (fun p => !(extra (positionsFrom P (s + 1) xs)).contains p) =
        positionsFrom (fun x => !P x) (s + 1) xs := by
      intro extra hextra
      rw [← ih (s + 1)]
      apply List.filter_congr
      intro p hp
      have : p ≠ s := by have := (List.mem_range'_1.1 hp).1; omega
      rw [hextra _ p this]
    by_cases hp : P x = true
    · simp only [hp, if_true, Bool.not_true, Bool.false_eq_true, if_false]
      rw [List.filter_cons_of_neg (by simp)]
      exact htail (fun l' => s :: l') (fun l' p hps => by
        simp [List.contains_cons, hps])
    · have hp' : P x = false := by simpa using hp
      simp only [hp', Bool.false_eq_true, if_false, Bool.not_false, if_true]
      rw [List.filter_cons_of_pos (by
        simp only [Bool.not_eq_eq_eq_not, Bool.not_true]
        exact hs _ (positionsFrom_ge P (s + 1) xs))]
      congr 1
      exact htail id (fun _ _ _ => rfl)

theorem range_filter_not_positions (P : Nat → Bool) (l : List Nat) :
    (List.range l.length).filter (fun p => !(positionsFrom P 0 l).contains p) =
      positionsFrom (fun x => !P x) 0 l := by
  rw [List.range_eq_range']
  exact range'_filter_not_positions P 0 l

theorem gather_congr {β : Type} (x y : List β) (idx : List Nat)
    (h : ∀ p ∈ idx, x[p]? = y[p]?) : gather x idx = gather y idx := by
  induction idx with
  | nil => rfl
  | cons p ps ih =>
    rw [gather_cons, gather_cons, h p (by simp), ih fun q hq => h q (List.mem_cons_of_mem _ hq)]

theorem gather_append {β : Type} (x : List β) (i1 i2 : List Nat) :
    gather x (i1 ++ i2) = (gather x i1).bind fun a => (gather x i2).map fun b => a ++ b := by
  induction i1 with
  | nil => rw [List.nil_append, gather_nil]; cases gather x i2 <;> simp
  | cons p ps ih =>
    rw [List.cons_append, gather_cons, gather_cons, ih]
    cases x[p]? with
    | none => rfl
    | some a =>
      cases gather x ps with
      | none => rfl
      | some as => cases gather x i2 <;> rfl

theorem gather_range {β : Type} (x : List β) : gather x (List.range x.length) = some x := by
  induction x using List.reverseRecOn with
  | nil => rfl
  | append_singleton xs a ih =>
    simp only [List.length_append, List.length_cons, List.length_nil, List.range_succ]
    rw [gather_append]
    have : gather (xs ++ [a]) (List.range xs.length) = some xs := by
      rw [← ih]
      apply gather_congr
      intro p hp
      rw [List.getElem?_append_left (List.mem_range.1 hp)]
    rw [this, gather_cons]
    simp [gather_nil]

/-! ### sortAsc -/

theorem insertAsc_eq (x : Nat) (l : List Nat) : insertAsc x l = List.orderedInsert (· ≤ ·) x l := by
  induction l with
  | nil => rfl
  | cons y ys ih => simp only [insertAsc, List.orderedInsert, ih]

theorem sortAsc_eq (l : List Nat) : sortAsc l = List.insertionSort (· ≤ ·) l := by
  induction l with
  | nil => rfl
  | cons x xs ih => rw [sortAsc, ih, insertAsc_eq]; rfl

theorem sortAsc_perm (l : List Nat) : (sortAsc l).Perm l := by
  rw [sortAsc_eq]; exact List.perm_insertionSort _ l

theorem sortAsc_pairwise (l : List Nat) : (sortAsc l).Pairwise (· ≤ ·) := by
  rw [sortAsc_eq]; exact List.pairwise_insertionSort _ l

theorem sortAsc_strict (l : List Nat) (hnd : l.Nodup) : (sortAsc l).Pairwise (· < ·) := by
  have h1 := sortAsc_pairwise l
  have h2 : (sortAsc l).Nodup := (sortAsc_perm l).nodup_iff.2 hnd
  exact (List.pairwise_and_iff.2 ⟨h1, h2⟩).imp fun ⟨hle, hne⟩ => Nat.lt_of_le_of_ne hle hne

/-- two strictly ascending lists with the same members are equal -/
theorem eq_of_strict_of_mem_iff {l1 l2 : List Nat} (h1 : l1.Pairwise (· < ·))
    (h2 : l2.Pairwise (· < ·)) (h : ∀ a, a ∈ l1 ↔ a ∈ l2) : l1 = l2 :=
  List.Pairwise.eq_of_mem_iff (r := (· < ·)) h1 h2 h

/-! ### modifyRows -/

theorem modifyRows_length {β : Type} (f : β → β) (s : List β) (rows : List Nat) :
    (modifyRows f s rows).length = s.length := by
  induction rows generalizing s with
  | nil => rfl
  | cons r rs ih =>
    simp only [modifyRows]
    rw [ih]
    cases s[r]? <;> simp

theorem modifyRows_getElem?_of_not_mem {β : Type} (f : β → β) (s : List β) (rows : List Nat)
    (r : Nat) (hr : r ∉ rows) : (modifyRows f s rows)[r]? = s[r]? := by
  induction rows generalizing s with
  | nil => rfl
  | cons a rs ih =>
    simp only [modifyRows]
    rw [ih _ (fun h => hr (List.mem_cons_of_mem _ h))]
    have : a ≠ r := fun h => hr (h ▸ List.mem_cons_self)
    cases s[a]? <;> simp [List.getElem?_set, this]

theorem modifyRows_getElem?_of_mem {β : Type} (f : β → β) (s : List β) (rows : List Nat)
    (hnd : rows.Nodup) (r : Nat) (hr : r ∈ rows) : (modifyRows f s rows)[r]? = (s[r]?).map f := by
  induction rows generalizing s with
  | nil => cases hr
  | cons a rs ih =>
    simp only [modifyRows]
    have hnd' := List.nodup_cons.1 hnd
    rcases List.mem_cons.1 hr with rfl | hr'
    · rw [modifyRows_getElem?_of_not_mem _ _ _ _ hnd'.1]
      cases h : s[r]? with
      | none => simp [h]
      | some x =>
        have hlt : r < s.length := by
          by_contra hge
          rw [List.getElem?_eq_none (by omega)] at h
          cases h
        simp [List.getElem?_set, hlt]
    · rw [ih _ hnd'.2 hr']
      have : a ≠ r := fun h => hnd'.1 (h ▸ hr')
      cases s[a]? <;> simp [List.getElem?_set, this]


/-! ### the partition of `_make_rb_el` -/

theorem nonrf_strict (n : Nat) (rf : List Nat) : (nonrfOf n rf).Pairwise (· < ·) :=
  List.pairwise_lt_range.filter _

theorem mem_nonrfOf (n : Nat) (rf : List Nat) (a : Nat) : a ∈ nonrfOf n rf ↔ a < n ∧ a ∉ rf := by
  simp [nonrfOf]

/-- a strictly ascending index vector below `n` survives the mask round trip -/
theorem maskNonzero_of_strict (n : Nat) (l : List Nat) (hs : l.Pairwise (· < ·))
    (hn : ∀ a ∈ l, a < n) : maskNonzero n l = l := by
  apply eq_of_strict_of_mem_iff (List.pairwise_lt_range.filter _) hs
  intro a
  simp only [maskNonzero, List.mem_filter, List.mem_range, List.contains_eq_mem, decide_eq_true_eq]
  exact ⟨fun h => h.2, fun h => ⟨hn a h, h⟩⟩

theorem filter_mem_rf_perm (n : Nat) (rf : List Nat) (hnd : rf.Nodup) (hlt : ∀ r ∈ rf, r < n) :
    ((List.range n).filter fun j => rf.contains j).Perm rf := by
  apply (List.perm_ext_iff_of_nodup (List.nodup_range.filter _) hnd).2
  intro a
  simp only [List.mem_filter, List.mem_range, List.contains_eq_mem, decide_eq_true_eq]
  exact ⟨fun h => h.2, fun h => ⟨hlt a h, h⟩⟩

/-- everything `_make_rb_el` derives from the rigid-body predicate `P` on the non-rf equations -/
theorem layout_core (n : Nat) (rf : List Nat) (P : Nat → Bool) (hnd : rf.Nodup)
    (hlt : ∀ r ∈ rf, r < n) :
    gather (nonrfOf n rf) (positionsFrom P 0 (nonrfOf n rf)) = some ((nonrfOf n rf).filter P) ∧
    gather (nonrfOf n rf) ((List.range (nonrfOf n rf).length).filter fun p =>
        !(positionsFrom P 0 (nonrfOf n rf)).contains p) =
      some ((nonrfOf n rf).filter fun x => !P x) ∧
    maskNonzero n ((nonrfOf n rf).filter P) = (nonrfOf n rf).filter P ∧
    maskNonzero n ((nonrfOf n rf).filter fun x => !P x) = (nonrfOf n rf).filter (fun x => !P x) ∧
    ((nonrfOf n rf).filter P ++ (nonrfOf n rf).filter (fun x => !P x) ++ rf).Perm (List.range n) := by
  refine ⟨gather_positions P _, ?_, ?_, ?_, ?_⟩
  · rw [range_filter_not_positions]; exact gather_positions _ _
  · exact maskNonzero_of_strict n _ ((nonrf_strict n rf).filter _)
      fun a ha => ((mem_nonrfOf n rf a).1 (List.mem_filter.1 ha).1).1
  · exact maskNonzero_of_strict n _ ((nonrf_strict n rf).filter _)
      fun a ha => ((mem_nonrfOf n rf a).1 (List.mem_filter.1 ha).1).1
  · have h1 : ((nonrfOf n rf).filter P ++ (nonrfOf n rf).filter (fun x => !P x)).Perm (nonrfOf n rf) :=
      List.filter_append_perm P _
    have h2 : (nonrfOf n rf ++ (List.range n).filter fun j => !(!rf.contains j)).Perm (List.range n) :=
      List.filter_append_perm (fun j => !rf.contains j) _
    have h3 : ((List.range n).filter fun j => !(!rf.contains j)) = (List.range n).filter fun j => rf.contains j := by
      congr 1; funext j; simp
    rw [h3] at h2
    exact ((h1.append (List.Perm.refl rf)).trans
      ((List.Perm.refl _).append (filter_mem_rf_perm n rf hnd hlt).symm)).trans h2

/-! ### sums over a partition -/

section sums
variable {α : Type} [Field α]

theorem sum_map_perm {l1 l2 : List Nat} (h : l1.Perm l2) (g : Nat → α) :
    (l1.map g).sum = (l2.map g).sum := (h.map g).sum_eq

theorem sum_map_zero (l : List Nat) (g : Nat → α) (h : ∀ c ∈ l, g c = 0) : (l.map g).sum = 0 := by
  induction l with
  | nil => rfl
  | cons a l ih =>
    simp only [List.map_cons, List.sum_cons]
    rw [h a (by simp), ih fun c hc => h c (List.mem_cons_of_mem _ hc)]; ring

/-- the addressed rows of an assembled column, paired with the block values -/
theorem map_rows_eq_zip {β γ : Type} (sol : List β) (idx : List Nat) (vals : List β)
    (hlen : idx.length = vals.length)
    (hget : ∀ q (hq : q < idx.length), sol[idx[q]]? = some (vals[q]'(hlen ▸ hq)))
    (h : Nat → Option β → γ) :
    idx.map (fun c => h c sol[c]?) = (idx.zip vals).map fun cx => h cx.1 (some cx.2) := by
  apply List.ext_getElem
  · simp [hlen]
  · intro q h1 h2
    simp only [List.length_map] at h1
    simp [hget q h1]

theorem dot_map_eq_zip_sum (idx : List Nat) (f : Nat → α) (xs : List α) :
    dot (idx.map f) xs = ((idx.zip xs).map fun cx => f cx.1 * cx.2).sum := by
  induction idx generalizing xs with
  | nil => simp [dot]
  | cons a idx ih =>
    cases xs with
    | nil => simp [dot]
    | cons x xs => simp [dot, ih]

end sums

end PyYetiVerif.Freq
