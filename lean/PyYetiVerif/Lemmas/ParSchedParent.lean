import PyYetiVerif.Model.ParSchedParent
import PyYetiVerif.Lemmas.ParSched
/-! Lemmas for the parent side of C09 (core Lean only). -/
namespace PyYetiVerif.ParSched

/-! ### the decision on the table of the code as it stands -/

theorem capChain_std (i : DecIn) :
    capChain i (some i.cpu) stdDecision.cap = some (poolSize i.maxcpu i.cpu) := by
  rcases i with ⟨LF, size, maxcpu, getresp, cpu, win⟩
  cases maxcpu with
  | none =>
      by_cases h4 : 4 < cpu <;>
        simp [capChain, stdDecision, evalConj, Cond.eval, DecIn.truthy, DecIn.num, Cmp.holds,
          CapVal.eval, poolSize, h4]
  | some m =>
      by_cases hm : m = 0
      · subst hm
        by_cases h4 : 4 < cpu <;>
          simp [capChain, stdDecision, evalConj, Cond.eval, DecIn.truthy, DecIn.num, Cmp.holds,
            CapVal.eval, poolSize, h4]
      · have hm' : (m != 0) = true := by simpa using hm
        by_cases hc : m < cpu
        · simp [capChain, stdDecision, evalConj, Cond.eval, DecIn.truthy, DecIn.num, Cmp.holds,
            CapVal.eval, poolSize, hm, hm', hc]
        · by_cases h4 : 4 < cpu <;>
            simp [capChain, stdDecision, evalConj, Cond.eval, DecIn.truthy, DecIn.num, Cmp.holds,
              CapVal.eval, poolSize, hm, hm', hc, h4]

theorem evalConj_std_auto (i : DecIn) :
    evalConj i (some i.cpu) stdDecision.autoConds =
      some (decide (1 < i.LF) && decide (50000 < i.size) && !i.getresp && decide (1 < i.cpu) && !i.win) := by
  rcases i with ⟨LF, size, maxcpu, getresp, cpu, win⟩
  by_cases h1 : 1 < LF <;> by_cases h2 : 50000 < size <;> cases getresp <;>
    by_cases h3 : 1 < cpu <;> cases win <;>
    simp [stdDecision, evalConj, Cond.eval, DecIn.truthy, DecIn.num, Cmp.holds, h1, h2, h3]

/-! ### index tuples -/

theorem mem_cellsOf (sh : List Nat) (is : List Nat) : is ∈ cellsOf sh ↔ inBounds sh is = true := by
  induction sh generalizing is with
  | nil => cases is <;> simp [cellsOf, inBounds]
  | cons n ns ih =>
      cases is with
      | nil => simp [cellsOf, inBounds]
      | cons i is =>
          simp only [cellsOf, inBounds, List.mem_flatMap, List.mem_range, List.mem_map,
            Bool.and_eq_true, decide_eq_true_eq]
          constructor
          · rintro ⟨a, ha, b, hb, heq⟩
            injection heq with h1 h2
            subst h1; subst h2
            exact ⟨ha, (ih b).mp hb⟩
          · rintro ⟨hi, hr⟩
            exact ⟨i, hi, is, (ih is).mpr hr, rfl⟩

theorem inBounds_get (sh is : List Nat) (h : inBounds sh is = true) (p n : Nat)
    (hp : sh[p]? = some n) : ∃ i, is[p]? = some i ∧ i < n := by
  induction sh generalizing is p with
  | nil => simp at hp
  | cons m ms ih =>
      cases is with
      | nil => simp [inBounds] at h
      | cons i is =>
          simp only [inBounds, Bool.and_eq_true, decide_eq_true_eq] at h
          cases p with
          | zero =>
              simp only [List.getElem?_cons_zero, Option.some.injEq] at hp
              subst hp
              exact ⟨i, by simp, h.1⟩
          | succ p =>
              simp only [List.getElem?_cons_succ] at hp ⊢
              exact ih is h.2 p hp

theorem inBounds_length (sh is : List Nat) (h : inBounds sh is = true) : sh.length = is.length := by
  induction sh generalizing is with
  | nil => cases is <;> simp_all [inBounds]
  | cons m ms ih =>
      cases is with
      | nil => simp [inBounds] at h
      | cons i is =>
          simp only [inBounds, Bool.and_eq_true] at h
          simp [ih is h.2]

/-! ### coverage of a task's slab -/

/-- abstraction of a concrete index tuple: values are kept on literal dimensions only -/
def absOf : List Dim → List Nat → List AbsIx
  | .lit _ :: ds, i :: is => some i :: absOf ds is
  | .tasks :: ds, _ :: is => none :: absOf ds is
  | .sym _ :: ds, _ :: is => none :: absOf ds is
  | _, _ => []

theorem absOf_mem (LF : Nat) (env : String → Nat) (dims : List Dim) (is : List Nat)
    (h : inBounds (dims.map (Dim.eval LF env)) is = true) : absOf dims is ∈ absCells dims := by
  induction dims generalizing is with
  | nil => cases is <;> simp_all [inBounds, absOf, absCells]
  | cons d ds ih =>
      cases is with
      | nil => simp [inBounds] at h
      | cons i is =>
          simp only [List.map_cons, inBounds, Bool.and_eq_true, decide_eq_true_eq] at h
          cases d with
          | lit n =>
              simp only [absOf, absCells, List.mem_flatMap, List.mem_range, List.mem_map]
              exact ⟨i, by simpa [Dim.eval] using h.1, absOf ds is, ih is h.2, rfl⟩
          | tasks =>
              simp only [absOf, absCells, List.mem_map]
              exact ⟨absOf ds is, ih is h.2, rfl⟩
          | sym s =>
              simp only [absOf, absCells, List.mem_map]
              exact ⟨absOf ds is, ih is h.2, rfl⟩

theorem absOf_cons_some (d : Dim) (ds : List Dim) (i : Nat) (is : List Nat) (a : AbsIx)
    (as : List AbsIx) (k : Nat) (h : absOf (d :: ds) (i :: is) = a :: as) (ha : a = some k) :
    i = k := by
  cases d <;> simp [absOf] at h <;> simp_all

theorem absOf_cons_tail (d : Dim) (ds : List Dim) (i : Nat) (is : List Nat) (a : AbsIx)
    (as : List AbsIx) (h : absOf (d :: ds) (i :: is) = a :: as) : as = absOf ds is := by
  cases d <;> simp [absOf] at h <;> simp_all

theorem patCoversAbs_sound (p j : Nat) (pat : List Ix) :
    ∀ (pos : Nat) (dims : List Dim) (is : List Nat), dims.length = is.length →
      patCoversAbs p pos pat (absOf dims is) = true →
      (pos ≤ p → is[p - pos]? = some j) → ixCovers j pat is = true := by
  induction pat with
  | nil => intros; simp [ixCovers]
  | cons x xs ih =>
      intro pos dims is hlen hc hj
      cases dims with
      | nil =>
          cases is with
          | nil => cases x <;> simp [absOf, patCoversAbs] at hc
          | cons i is => simp at hlen
      | cons d ds =>
          cases is with
          | nil => simp at hlen
          | cons i is =>
              have hlen' : ds.length = is.length := by simpa using hlen
              -- name the abstraction of the head
              cases hab : absOf (d :: ds) (i :: is) with
              | nil => cases d <;> simp [absOf] at hab
              | cons a as =>
                  have has := absOf_cons_tail d ds i is a as hab
                  rw [hab] at hc
                  have hjtail : ∀ (hne : pos ≠ p), pos + 1 ≤ p → is[p - (pos + 1)]? = some j := by
                    intro _ hle
                    have h1 := hj (by omega)
                    have : p - pos = (p - (pos + 1)) + 1 := by omega
                    rw [this, List.getElem?_cons_succ] at h1
                    exact h1
                  cases x with
                  | task =>
                      simp only [patCoversAbs, Bool.and_eq_true, beq_iff_eq] at hc
                      have hp : pos = p := hc.1
                      have h0 := hj (by omega)
                      rw [hp, Nat.sub_self, List.getElem?_cons_zero, Option.some.injEq] at h0
                      simp only [ixCovers, Bool.and_eq_true, beq_iff_eq]
                      refine ⟨h0, ih (pos + 1) ds is hlen' (by rw [← has]; exact hc.2) ?_⟩
                      intro hle; omega
                  | all =>
                      simp only [patCoversAbs, Bool.and_eq_true, bne_iff_ne, ne_eq] at hc
                      simp only [ixCovers]
                      exact ih (pos + 1) ds is hlen' (by rw [← has]; exact hc.2) (hjtail hc.1)
                  | loop =>
                      simp only [patCoversAbs, Bool.and_eq_true, bne_iff_ne, ne_eq] at hc
                      simp only [ixCovers]
                      exact ih (pos + 1) ds is hlen' (by rw [← has]; exact hc.2) (hjtail hc.1)
                  | const k =>
                      simp only [patCoversAbs, Bool.and_eq_true, bne_iff_ne, ne_eq, beq_iff_eq] at hc
                      have hik := absOf_cons_some d ds i is a as k hab hc.1.2
                      simp only [ixCovers, Bool.and_eq_true, beq_iff_eq]
                      exact ⟨hik, ih (pos + 1) ds is hlen' (by rw [← has]; exact hc.2) (hjtail hc.1.1)⟩
                  | whole => simp [patCoversAbs] at hc
                  | other => simp [patCoversAbs] at hc

/-- A covered slab: every in-bounds cell of the array has an owner among the tasks, and one of the
owner's write patterns touches it. -/
theorem slabCovered_sound (fp : Footprint) (arr : String) (dims : List Dim)
    (hs : slabCovered fp arr dims = true) (LF : Nat) (env : String → Nat) (is : List Nat)
    (hb : inBounds (dims.map (Dim.eval LF env)) is = true) :
    ∃ j, j < LF ∧ ownerOf fp (arr, is) = some j ∧
      ∃ a ∈ fp.writes, covers a j (arr, is) = true := by
  unfold slabCovered at hs
  cases hp : taskPos fp arr with
  | none => simp [hp] at hs
  | some p =>
      simp only [hp, Bool.and_eq_true, beq_iff_eq, List.all_eq_true, List.any_eq_true] at hs
      obtain ⟨hdim, hall⟩ := hs
      have hget : (dims.map (Dim.eval LF env))[p]? = some LF := by
        simp [List.getElem?_map, hdim, Dim.eval]
      obtain ⟨j, hj, hjlt⟩ := inBounds_get _ is hb p LF hget
      obtain ⟨w, hw, hwc⟩ := hall (absOf dims is) (absOf_mem LF env dims is hb)
      refine ⟨j, hjlt, ?_, w, hw, ?_⟩
      · simp [ownerOf, hp, hj]
      · have hlen : dims.length = is.length := by
          simpa using inBounds_length _ is hb
        simp only [covers, Bool.and_eq_true, beq_iff_eq]
        exact ⟨hwc.1, patCoversAbs_sound p j w.idx 0 dims is hlen hwc.2 (fun _ => by simpa using hj)⟩

/-! ### memories that differ on uninitialised arrays -/

variable {L V : Type}

theorem applyWrites_mem_congr (ws : List (Cell × V)) (m m' : Mem V) (c : Cell)
    (h : c ∈ ws.map (·.1)) : applyWrites ws m c = applyWrites ws m' c := by
  induction ws generalizing m m' with
  | nil => simp at h
  | cons w ws ih =>
      by_cases hin : c ∈ ws.map (·.1)
      · simp only [applyWrites, List.foldl_cons]
        exact ih _ _ hin
      · have hc : c = w.1 := by
          simp only [List.map_cons, List.mem_cons] at h
          rcases h with h | h
          · exact h
          · exact absurd h hin
        have hun : ∀ x ∈ ws, x.1 ≠ c := by
          intro x hx hxc
          exact hin (List.mem_map.mpr ⟨x, hx, hxc⟩)
        simp only [applyWrites, List.foldl_cons]
        have e1 := applyWrites_untouched ws (fun c' => if c' = w.1 then w.2 else m c') c hun
        have e2 := applyWrites_untouched ws (fun c' => if c' = w.1 then w.2 else m' c') c hun
        simp only [applyWrites] at e1 e2
        rw [e1, e2]
        simp [hc]

/-- Running alone from two memories that differ only on arrays `G` which no step looks at: same
local states, same writes, same memory outside `G` and on every cell written so far. -/
theorem solo_garbage (S : System L V) (G : List String)
    (hG : ∀ j l m m', (∀ c : Cell, c.1 ∉ G → m c = m' c) → S.step j l m = S.step j l m')
    (m0 mS : Mem V) (hm : ∀ c : Cell, c.1 ∉ G → mS c = m0 c) (j k : Nat) :
    (S.solo m0 j k).1 = (S.solo mS j k).1 ∧
    (∀ c : Cell, c.1 ∉ G → (S.solo m0 j k).2 c = (S.solo mS j k).2 c) ∧
    S.written m0 j k = S.written mS j k ∧
    (∀ c ∈ S.written m0 j k, (S.solo m0 j k).2 c = (S.solo mS j k).2 c) := by
  induction k with
  | zero =>
      refine ⟨rfl, fun c hc => (hm c hc).symm, rfl, ?_⟩
      intro c hc
      simp [System.written] at hc
  | succ k ih =>
      obtain ⟨h1, h2, h3, h4⟩ := ih
      have hstep : S.step j (S.solo m0 j k).1 (S.solo m0 j k).2
          = S.step j (S.solo mS j k).1 (S.solo mS j k).2 := by
        rw [h1]
        exact hG j _ _ _ h2
      refine ⟨?_, ?_, ?_, ?_⟩
      · simp only [System.solo]; rw [hstep]
      · intro c hc
        simp only [System.solo]
        rw [hstep]
        exact applyWrites_congr _ _ _ c (h2 c hc)
      · simp only [System.written]; rw [h3, hstep]
      · intro c hc
        simp only [System.written, List.mem_append] at hc
        simp only [System.solo]
        rw [hstep]
        by_cases hin : c ∈ (S.step j (S.solo mS j k).1 (S.solo mS j k).2).2.map (·.1)
        · exact applyWrites_mem_congr _ _ _ c hin
        · rcases hc with hc | hc
          · exact applyWrites_congr _ _ _ c (h4 c hc)
          · rw [hstep] at hc; exact absurd hc hin

/-- cell by cell: a complete run from `m0` and a complete run from `mS` agree outside `G`, and on
every cell of `G` that has an active owner which writes it before it halts -/
theorem run_garbage_cell (S : System L V) (owner : Cell → Option Nat) (H : Hyp S owner)
    (G : List String)
    (hG : ∀ j l m m', (∀ c : Cell, c.1 ∉ G → m c = m' c) → S.step j l m = S.step j l m')
    (m0 mS : Mem V) (hm : ∀ c : Cell, c.1 ∉ G → mS c = m0 c)
    (σ τ : List Nat) (hσ : S.allHalted (S.run m0 σ)) (hτ : S.allHalted (S.run mS τ))
    (c : Cell)
    (hc : c.1 ∈ G → ∃ j, j < S.n ∧ owner c = some j ∧
            ∀ k, S.halted j (S.solo m0 j k).1 = true → c ∈ S.written m0 j k) :
    (S.run m0 σ).mem c = (S.run mS τ).mem c := by
  obtain ⟨k, hk⟩ := inv_run S owner m0 H σ _ _ (inv_init S owner m0)
  obtain ⟨k', hk'⟩ := inv_run S owner mS H τ _ _ (inv_init S owner mS)
  show (S.run m0 σ).mem c = (S.run mS τ).mem c
  unfold System.run
  by_cases hact : ∃ j, owner c = some j ∧ j < S.n
  · obtain ⟨j, hj, hjn⟩ := hact
    rw [hk.mem j c (Or.inr hj), hk'.mem j c (Or.inr hj)]
    have g := solo_garbage S G hG m0 mS hm j (k' j)
    have h1 : S.halted j (S.solo m0 j (k j)).1 = true := by
      rw [← hk.loc j]; exact hσ j hjn
    have h2 : S.halted j (S.solo m0 j (k' j)).1 = true := by
      rw [g.1, ← hk'.loc j]; exact hτ j hjn
    rw [solo_halted_eq S owner m0 H j (k j) (k' j) h1 h2]
    by_cases hcG : c.1 ∈ G
    · obtain ⟨j', _, hj', hw⟩ := hc hcG
      have : j' = j := by rw [hj] at hj'; exact (Option.some.inj hj').symm
      subst this
      exact g.2.2.2 c (hw (k' j') h2)
    · exact g.2.1 c hcG
  · have hidle : ∀ j, owner c = some j → ¬ j < S.n := fun j hj hjn => hact ⟨j, hj, hjn⟩
    rw [hk.idle c hidle, hk'.idle c hidle]
    by_cases hcG : c.1 ∈ G
    · obtain ⟨j, hjn, hj, _⟩ := hc hcG
      exact absurd hjn (hidle j hj)
    · exact (hm c hcG).symm

/-! ### the srs worker system -/

theorem srs_solo_succ (LF T H : Nat) (hist : Bool) (R : Nat → Mem V → Nat → Nat → V)
    (P : (Nat → V) → V) (m0 : Mem V) (j k : Nat) :
    (srsSystem LF T H hist R P).solo m0 j (k + 1) = (srsSystem LF T H hist R P).solo m0 j 1 := by
  induction k with
  | zero => rfl
  | succ k ih =>
      have h1 : ((srsSystem LF T H hist R P).solo m0 j 1).1 = true := by
        simp [System.solo, srsSystem]
      have hs : ∀ m, (srsSystem LF T H hist R P).step j true m = (true, []) := by
        intro m; simp [srsSystem]
      have e : (srsSystem LF T H hist R P).solo m0 j (k + 1 + 1) =
          (((srsSystem LF T H hist R P).step j ((srsSystem LF T H hist R P).solo m0 j (k + 1)).1
              ((srsSystem LF T H hist R P).solo m0 j (k + 1)).2).1,
            applyWrites ((srsSystem LF T H hist R P).step j
              ((srsSystem LF T H hist R P).solo m0 j (k + 1)).1
              ((srsSystem LF T H hist R P).solo m0 j (k + 1)).2).2
              ((srsSystem LF T H hist R P).solo m0 j (k + 1)).2) := rfl
      rw [e, ih]
      generalize (srsSystem LF T H hist R P).solo m0 j 1 = p at h1 ⊢
      rcases p with ⟨l, m⟩
      simp only at h1
      subst h1
      rw [hs]
      rfl

theorem srs_solo_halted (LF T H : Nat) (hist : Bool) (R : Nat → Mem V → Nat → Nat → V)
    (P : (Nat → V) → V) (m0 : Mem V) (j k : Nat)
    (h : (srsSystem LF T H hist R P).halted j ((srsSystem LF T H hist R P).solo m0 j k).1 = true) :
    (srsSystem LF T H hist R P).solo m0 j k = (srsSystem LF T H hist R P).solo m0 j 1 := by
  cases k with
  | zero => simp [System.solo, srsSystem] at h
  | succ k => exact srs_solo_succ LF T H hist R P m0 j k

end PyYetiVerif.ParSched
