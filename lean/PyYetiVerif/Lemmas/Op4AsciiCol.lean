import PyYetiVerif.Lemmas.Op4Ascii
import PyYetiVerif.Lemmas.Op4AsciiNum
import PyYetiVerif.Lemmas.Op4File
/-! The ASCII reader on what the ASCII writer prints: values, strings, column records. -/
namespace PyYetiVerif.Op4A
open PyYetiVerif.Op4 PyYetiVerif.Generated.Op4Consts

/-! ### slices of a line of integer fields -/

theorem slice_mid (pre x post : Str) : slice (pre ++ x ++ post) pre.length (pre.length + x.length) = x := by
  unfold slice
  rw [List.append_assoc, List.take_append, List.take_of_length_le (by omega)]
  have : pre.length + x.length - pre.length = x.length := by omega
  rw [this, List.take_append, List.take_of_length_le (Nat.le_refl _), Nat.sub_self, List.take_zero, List.append_nil,
    List.drop_left]

theorem slice_0 (x post : Str) (n : Nat) (h : x.length = n) : slice (x ++ post) 0 n = x := by
  have := slice_mid [] x post
  simpa [h] using this

theorem slice_1 (x y post : Str) (n m : Nat) (hx : x.length = n) (hy : y.length = m) :
    slice (x ++ y ++ post) n (n + m) = y := by
  have := slice_mid x y post
  rwa [hx, hy] at this

theorem slice_2 (x y z post : Str) (n m k : Nat) (hx : x.length = n) (hy : y.length = m) (hz : z.length = k) :
    slice (x ++ y ++ z ++ post) (n + m) (n + m + k) = z := by
  have := slice_mid (x ++ y) z post
  rwa [List.length_append, hx, hy, hz] at this

/-- the integer is printed in exactly `w` characters -/
def IntFits (w : Nat) (n : Int) : Prop := (intChars n).length ≤ w

theorem intFits_nat (w k : Nat) (hw : 0 < w) (h : k < 10 ^ w) : IntFits w (k : Int) := intChars_length_nat k w hw h

/-- a line of three integer fields of width 8 -/
def intLine3 (a b c : Int) : Str := fmtInt 8 a ++ fmtInt 8 b ++ fmtInt 8 c ++ ['\n']

theorem colHead_intLine3 (a b c : Int) (ha : IntFits 8 a) (hb : IntFits 8 b) :
    colHead (intLine3 a b c) = some (a - 1, b) := by
  unfold colHead intLine3
  have la := fmtInt_length 8 a ha
  have lb := fmtInt_length 8 b hb
  have h0 : slice (fmtInt 8 a ++ fmtInt 8 b ++ fmtInt 8 c ++ ['\n']) 0 8 = fmtInt 8 a := by
    rw [List.append_assoc, List.append_assoc]; exact slice_0 _ _ 8 la
  have h1 : slice (fmtInt 8 a ++ fmtInt 8 b ++ fmtInt 8 c ++ ['\n']) 8 16 = fmtInt 8 b := by
    rw [List.append_assoc]; exact slice_1 _ _ _ 8 8 la lb
  rw [h0, h1, pyInt_fmtInt', pyInt_fmtInt']

theorem elems_intLine3 (a b c : Int) (ha : IntFits 8 a) (hb : IntFits 8 b) (hc : IntFits 8 c) :
    pyInt? (slice (intLine3 a b c) 16 24) = some c := by
  unfold intLine3
  rw [slice_2 _ _ _ _ 8 8 8 (fmtInt_length 8 a ha) (fmtInt_length 8 b hb) (fmtInt_length 8 c hc), pyInt_fmtInt']

theorem first_intLine3 (a b c : Int) (ha : IntFits 8 a) : pyInt? (slice (intLine3 a b c) 0 8) = some a := by
  unfold intLine3
  rw [List.append_assoc, List.append_assoc, slice_0 _ _ 8 (fmtInt_length 8 a ha), pyInt_fmtInt']

/-! ### values -/

/-- length of `'%.{d}E' % x` for every `d` (also `d = 0`, where no point is printed) -/
theorem sciChars_length' (d : Nat) (s : Sci) (he : s.e10.natAbs < 1000) :
    (sciChars d s).length
      = (if s.neg then 1 else 0) + (d + 1) + (if d = 0 then 0 else 1) + 2 + (if s.e10.natAbs < 100 then 2 else 3) := by
  unfold sciChars
  by_cases hd0 : d = 0
  · subst hd0
    simp only [if_true, List.length_append, List.length_cons, List.length_nil, List.length_take,
      fixedDigits_length, expDigits_length _ he]
    cases s.neg <;> simp
  · simp only [hd0, if_false, List.length_append, List.length_cons, List.length_nil, List.length_take,
      List.length_drop, fixedDigits_length, expDigits_length _ he]
    cases s.neg <;> simp <;> omega

/-- `float()` of a `'%.0E'` field (one digit, no point) between blanks: exactly the printed decimal -/
theorem pyFloat_sciChars0 (s : Sci) (a b : Str) (hm : s.mant < 10)
    (he : s.e10.natAbs < 1000) (ha : ∀ x ∈ a, isWs x = true) (hb : ∀ x ∈ b, isWs x = true) :
    pyFloat? (a ++ sciChars 0 s ++ b) = some (sciDec 0 s) := by
  obtain ⟨c0, hds⟩ : ∃ c0, fixedDigits (0 + 1) s.mant = [c0] := by
    have hl := fixedDigits_length (0 + 1) s.mant
    cases hfd : fixedDigits (0 + 1) s.mant with
    | nil => rw [hfd] at hl; simp at hl
    | cons c0 rest =>
      rw [hfd] at hl
      cases rest with
      | nil => exact ⟨c0, rfl⟩
      | cons _ _ => simp at hl
  have hdig : ∀ c ∈ [c0], c.isDigit = true := by
    rw [← hds]; exact fixedDigits_isDigit _ _
  have hc0 : c0.isDigit = true := hdig c0 List.mem_cons_self
  have hval : digitsVal [c0] = s.mant := by
    rw [← hds, digitsVal_fixedDigits, Nat.mod_eq_of_lt (by simpa using hm)]
  have hexp := expDigits_isDigit _ he
  have hexpv := digitsVal_expDigits _ he
  have hexpa := allDigits_of _ (expDigits_ne_nil _ he) hexp
  have hbody : ∀ x ∈ sciChars 0 s, isWs x = false := by
    intro x hx
    unfold sciChars at hx
    simp only [if_true, hds, List.take_succ_cons, List.take_zero, List.append_nil,
      List.mem_append, List.mem_cons, List.not_mem_nil, or_false] at hx
    rcases hx with (((h | h) | h) | h)
    · split at h
      · simp only [List.mem_cons, List.not_mem_nil, or_false] at h; rw [h]; decide
      · simp at h
    · rw [h]; exact isDigit_not_ws _ hc0
    · rcases h with h | h
      · rw [h]; decide
      · rw [h]; split <;> decide
    · exact isDigit_not_ws _ (hexp x h)
  unfold pyFloat?
  rw [strip_body a _ b ha hb hbody]
  have hsplit : splitSign (sciChars 0 s) =
      (s.neg, c0 :: 'E' :: (if s.e10 < 0 then '-' else '+') :: expDigits s.e10.natAbs) := by
    unfold sciChars
    simp only [if_true, hds, List.take_succ_cons, List.take_zero, List.append_nil]
    cases s.neg
    · simp only [Bool.false_eq_true, if_false, List.nil_append, List.cons_append, List.append_assoc]
      exact splitSign_digit _ _ hc0
    · simp only [if_true, List.cons_append, List.nil_append, List.append_assoc]
      rfl
  rw [hsplit]
  have h1 : (c0 :: 'E' :: (if s.e10 < 0 then '-' else '+') :: expDigits s.e10.natAbs).takeWhile Char.isDigit = [c0] := by
    simp [List.takeWhile_cons, hc0, not_digit_E]
  have h2 : (c0 :: 'E' :: (if s.e10 < 0 then '-' else '+') :: expDigits s.e10.natAbs).dropWhile Char.isDigit
      = 'E' :: (if s.e10 < 0 then '-' else '+') :: expDigits s.e10.natAbs := by
    simp [List.dropWhile_cons, hc0, not_digit_E]
  simp only [h1, h2]
  have h5 : splitSign ((if s.e10 < 0 then '-' else '+') :: expDigits s.e10.natAbs)
      = (decide (s.e10 < 0), expDigits s.e10.natAbs) := by
    by_cases hneg : s.e10 < 0 <;> simp [hneg, splitSign]
  have hman : digitsVal ([c0] ++ []) = s.mant := by simpa using hval
  split
  · next t heq =>
    exfalso
    have := (List.cons.inj heq).1
    exact absurd this (by decide)
  · simp only [List.isEmpty_cons, Bool.false_and, Bool.false_eq_true, if_false, beq_self_eq_true, Bool.or_true, if_true,
      h5, hexpa, hexpv, hman, List.length_nil]
    unfold sciDec
    by_cases hneg : s.e10 < 0
    · simp [hneg, abs_of_neg hneg]
    · simp [hneg]; omega

/-- negative with a three-digit exponent: `'%{numlen}.{d}E' % x` is one character wider than the field -/
def Wide (d b : Nat) : Bool := (sci d b).neg && decide (100 ≤ (sci d b).e10.natAbs)

/-- the test `len(s) > numlen` of `numform` is the test "negative with a three-digit exponent" -/
theorem fmtE0_too_long_iff (d b : Nat) (hd : 1 ≤ d) : (fmtE0 d b).length > numlen d ↔ Wide d b = true := by
  have he := sci_e10_bound d b
  unfold fmtE0 Wide
  rw [length_padLeft, sciChars_length d _ hd he]
  unfold numlen numlenBase expdigits
  cases (sci d b).neg <;> by_cases h : (sci d b).e10.natAbs < 100 <;> simp [h] <;> omega

theorem fmtE_eq (d b : Nat) (hd : 1 ≤ d) :
    fmtE d b = if Wide d b then padLeft (numlen d) (sciChars (d - 1) (sci (d - 1) b)) else fmtE0 d b := by
  unfold fmtE
  by_cases h : Wide d b = true
  · rw [if_pos ((fmtE0_too_long_iff d b hd).2 h), if_pos h]
  · rw [if_neg (fun h' => h ((fmtE0_too_long_iff d b hd).1 h')), if_neg h]

theorem fmtE0_length_narrow (d b : Nat) (hd : 1 ≤ d) (h : Wide d b = false) : (fmtE0 d b).length = numlen d := by
  have he := sci_e10_bound d b
  unfold fmtE0
  rw [length_padLeft, sciChars_length d _ hd he]
  unfold numlen numlenBase expdigits
  unfold Wide at h
  cases hn : (sci d b).neg <;> by_cases h1 : (sci d b).e10.natAbs < 100 <;> simp [h1] <;> simp [hn] at h <;> omega

/-- every value is printed in exactly the announced width (finding F3 repaired) -/
theorem fmtE_length (d b : Nat) (hd : 1 ≤ d) : (fmtE d b).length = numlen d := by
  rw [fmtE_eq d b hd]
  split
  · obtain ⟨k, rfl⟩ : ∃ k, d = k + 1 := ⟨d - 1, by omega⟩
    simp only [Nat.add_sub_cancel]
    have he := sci_e10_bound k b
    rw [length_padLeft, sciChars_length' k _ he]
    unfold numlen numlenBase expdigits
    rcases Nat.eq_zero_or_pos k with rfl | hk
    · cases (sci 0 b).neg <;> by_cases h : (sci 0 b).e10.natAbs < 100 <;> simp [h]
    · have h0 : ¬ k = 0 := by omega
      cases (sci k b).neg <;> by_cases h : (sci k b).e10.natAbs < 100 <;> simp [h, h0] <;> omega
  · next hw => exact fmtE0_length_narrow d b hd (by simpa using hw)

/-- the value is printed in the announced width.  Since the repair of F3 this holds for every value (`fits_all`); the
lemmas below keep it as a hypothesis because that is all they need. -/
def Fits (d b : Nat) : Prop := (fmtE d b).length = numlen d

theorem fits_all (d b : Nat) (hd : 1 ≤ d) : Fits d b := fmtE_length d b hd

theorem fmtE_length_fits (d b : Nat) (_hd : 1 ≤ d) (h : Fits d b) : (fmtE d b).length = numlen d := h

/-- the exact decimal `'%.{d}E' % x` prints for the double `b` -/
def decOf0 (d b : Nat) : Dec10 := sciDec d (sci d b)

/-- the exact decimal the writer prints for the double `b`: `d` digits after the point, `d - 1` for a `Wide` value -/
def decOf (d b : Nat) : Dec10 := if Wide d b then decOf0 (d - 1) b else decOf0 d b

theorem pyFloat_fmtE0 (d b : Nat) (hd : 1 ≤ d) : pyFloat? (fmtE0 d b) = some (decOf0 d b) := by
  unfold fmtE0 padLeft decOf0
  have := pyFloat_sciChars d (sci d b) (List.replicate (numlen d - (sciChars d (sci d b)).length) ' ') [] hd
    (sci_mant d b).1 (sci_e10_bound d b) (replicate_ws _) (by simp)
  simpa using this

theorem pyFloat_fmtE (d b : Nat) (hd : 1 ≤ d) : pyFloat? (fmtE d b) = some (decOf d b) := by
  rw [fmtE_eq d b hd]
  unfold decOf
  split
  · unfold padLeft decOf0
    obtain ⟨k, rfl⟩ : ∃ k, d = k + 1 := ⟨d - 1, by omega⟩
    simp only [Nat.add_sub_cancel]
    rcases Nat.eq_zero_or_pos k with rfl | hk
    · have := pyFloat_sciChars0 (sci 0 b)
        (List.replicate (numlen (0 + 1) - (sciChars 0 (sci 0 b)).length) ' ') []
        (by have := (sci_mant 0 b).1; simpa using this) (sci_e10_bound 0 b) (replicate_ws _) (by simp)
      simpa using this
    · have := pyFloat_sciChars k (sci k b)
        (List.replicate (numlen (k + 1) - (sciChars k (sci k b)).length) ' ') [] hk
        (sci_mant k b).1 (sci_e10_bound k b) (replicate_ws _) (by simp)
      simpa using this
  · exact pyFloat_fmtE0 d b hd

/-- an element as read from its one or two fields -/
def aEntry (d : Nat) (cplx : Bool) (x : Entry) : AEntry :=
  (decOf d x.1, if cplx then decOf d x.2 else Dec10.zero)

theorem aEntry_normE (d : Nat) (cplx : Bool) (x : Entry) : aEntry d cplx (normE cplx x) = aEntry d cplx x := by
  cases cplx <;> rfl

theorem mapM_pyFloat (d : Nat) (hd : 1 ≤ d) (ds : List Nat) :
    (ds.map (fmtE d)).mapM pyFloat? = some (ds.map (decOf d)) := by
  induction ds with
  | nil => rfl
  | cons b t ih => simp [List.mapM_cons, pyFloat_fmtE d b hd, ih]

theorem pairUp_segDs (d : Nat) (seg : List Entry) :
    pairUp ((segDs true seg).map (decOf d)) = seg.map (aEntry d true) := by
  induction seg with
  | nil => rfl
  | cons x t ih =>
    simp only [segDs, List.flatMap_cons, entryDs, if_true, List.cons_append, List.nil_append, List.map_cons, pairUp]
    simp only [segDs] at ih
    rw [ih]; rfl

theorem real_segDs (d : Nat) (seg : List Entry) :
    ((segDs false seg).map (decOf d)).map (fun x => (x, Dec10.zero)) = seg.map (aEntry d false) := by
  induction seg with
  | nil => rfl
  | cons x t ih =>
    simp only [segDs, List.flatMap_cons, entryDs, Bool.false_eq_true, if_false, List.cons_append, List.nil_append,
      List.map_cons]
    simp only [segDs] at ih
    rw [ih]; rfl

/-- the value lines of a list of doubles, as lines -/
def valLines (d : Nat) (ds : List Nat) : List Str := chunkLines (perline d) ds.length (ds.map (fmtE d))

/-- the reader configured as the header of a file written with `d` digits announces -/
def GoodCfg (g : Cfg) (d : Nat) (cplx : Bool) : Prop :=
  g.cplx = cplx ∧ g.wper = 2 ∧ g.perline = perline d ∧ g.numlen = numlen d

theorem numlen_pos (d : Nat) : 1 ≤ numlen d := by unfold numlen numlenBase expdigits; omega

/-- the values of a string or of a dense record: block and slices (`ascii_slicing`), then `float()` -/
theorem readVals_valLines (g : Cfg) (d : Nat) (cplx : Bool) (hg : GoodCfg g d cplx) (hd : 1 ≤ d)
    (hp : 1 ≤ perline d) (seg : List Entry) (hfit : ∀ b ∈ segDs cplx seg, Fits d b) (rest : List Str) :
    ∃ blk, getBlock g (segDs cplx seg).length (valLines d (segDs cplx seg) ++ rest) = (blk, rest) ∧
      readVals g blk (segDs cplx seg).length = some (seg.map (aEntry d cplx)) := by
  obtain ⟨hc, _, hpl, hnl⟩ := hg
  have hlenmap : ((segDs cplx seg).map (fmtE d)).length = (segDs cplx seg).length := List.length_map _
  have hwidth : ∀ f ∈ (segDs cplx seg).map (fmtE d), f.length = g.numlen := by
    intro f hf
    obtain ⟨b, hb, rfl⟩ := List.mem_map.1 hf
    rw [hnl]; exact fmtE_length_fits d b hd (hfit b hb)
  have hD : ∀ f ∈ (segDs cplx seg).map (fmtE d), ∀ c ∈ f, c ≠ 'D' := by
    intro f hf c hcf
    obtain ⟨b, _, rfl⟩ := List.mem_map.1 hf
    exact (fmtE_fieldChar d b c hcf).ne_D
  have hblk := getBlock_chunkLines' g (by rw [hpl]; exact hp) (segDs cplx seg).length
    ((segDs cplx seg).map (fmtE d)) rest (Nat.le_of_eq hlenmap) hD
  rw [hlenmap] at hblk
  have hfields := fields_chunkLines g.numlen g.perline (by rw [hnl]; exact numlen_pos d) (by rw [hpl]; exact hp)
    (segDs cplx seg).length ((segDs cplx seg).map (fmtE d)) (Nat.le_of_eq hlenmap) hwidth
  rw [hlenmap] at hfields
  refine ⟨((chunkLines g.perline (segDs cplx seg).length ((segDs cplx seg).map (fmtE d))).map
      fun ln => ln.take (g.perline * g.numlen)).flatten, ?_, ?_⟩
  · unfold valLines; rw [← hpl]; exact hblk
  unfold readVals
  cases cplx with
  | false =>
    simp only [hc, Bool.false_eq_true, if_false]
    rw [hfields, mapM_pyFloat d hd, Option.map_some, real_segDs]
  | true =>
    simp only [hc, if_true]
    have heven : 2 * ((segDs true seg).length / 2) = (segDs true seg).length := by
      have := length_segDs true seg
      simp only [segDs, mult, if_true] at this ⊢
      omega
    rw [heven, hfields, mapM_pyFloat d hd, Option.map_some, pairUp_segDs]

/-! ### the strings of a sparse column -/

/-- the lines of one bigmat string: `L+1  irow`, then the values -/
def bigStrLines (d : Nat) (cplx : Bool) (s : Nat × List Entry) : List Str :=
  (fmtInt 8 ((s.2.length * 2 * mult cplx + 1 : Nat) : Int) ++ fmtInt 8 ((s.1 + 1 : Nat) : Int) ++ ['\n'])
    :: valLines d (segDs cplx s.2)

/-- the lines of one nonbigmat string: `IS`, then the values -/
def nonbigStrLines (d : Nat) (cplx : Bool) (s : Nat × List Entry) : List Str :=
  (fmtInt 11 ((packIS (s.1 + 1) (s.2.length * 2 * mult cplx) : Nat) : Int) ++ ['\n'])
    :: valLines d (segDs cplx s.2)

theorem rdStrBig_succ (g : Cfg) (fuel elems : Nat) (line : Str) (ls1 : List Str) :
    rdStrBig g (fuel + 1) (elems + 1) (line :: ls1) =
      match pyInt? (slice line 0 8), pyInt? (slice line 8 16) with
      | some L1, some irow =>
        if L1 < 1 ∨ irow < 1 then none else
        match readVals g (getBlock g ((L1 - 1).toNat / g.wper) ls1).1 ((L1 - 1).toNat / g.wper),
              rdStrBig g fuel (elems + 1 - ((L1 - 1).toNat + 2)) (getBlock g ((L1 - 1).toNat / g.wper) ls1).2 with
        | some es, some (rest, ls3) => some (((irow - 1).toNat, es) :: rest, ls3)
        | _, _ => none
      | _, _ => none := by
  conv => lhs; unfold rdStrBig
  rfl

theorem rdStrNonbig_succ (g : Cfg) (fuel elems : Nat) (line : Str) (ls1 : List Str) :
    rdStrNonbig g (fuel + 1) (elems + 1) (line :: ls1) =
      match pyInt? line with
      | some ISi =>
        if ISi < 0 then none else
        if ISi.toNat >>> isShiftR = 0 ∨ (unpackIS ISi.toNat).1 = 0 then none else
        match readVals g (getBlock g ((unpackIS ISi.toNat).2 / g.wper) ls1).1 ((unpackIS ISi.toNat).2 / g.wper),
              rdStrNonbig g fuel (elems + 1 - ((unpackIS ISi.toNat).2 + 1))
                (getBlock g ((unpackIS ISi.toNat).2 / g.wper) ls1).2 with
        | some es, some (rest, ls3) => some (((unpackIS ISi.toNat).1 - 1, es) :: rest, ls3)
        | _, _ => none
      | none => none := by
  conv => lhs; unfold rdStrNonbig
  rfl

theorem rdStrBig_zero (g : Cfg) (fuel : Nat) (ls : List Str) : rdStrBig g fuel 0 ls = some ([], ls) := by
  cases fuel <;> simp [rdStrBig]

theorem rdStrNonbig_zero (g : Cfg) (fuel : Nat) (ls : List Str) : rdStrNonbig g fuel 0 ls = some ([], ls) := by
  cases fuel <;> simp [rdStrNonbig]

theorem segDs_length (cplx : Bool) (seg : List Entry) : (segDs cplx seg).length = seg.length * mult cplx :=
  length_segDs cplx seg

/-- `while elems > 0` of `_rd_bigmat_ascii` on the strings the writer printed -/
theorem rdStrBig_enc (g : Cfg) (d : Nat) (cplx : Bool) (hg : GoodCfg g d cplx) (hd : 1 ≤ d) (hp : 1 ≤ perline d)
    (rest : List Str) :
    ∀ (ss : List (Nat × List Entry)) (fuel : Nat), ss.length ≤ fuel →
      (∀ s ∈ ss, ∀ b ∈ segDs cplx s.2, Fits d b) →
      (∀ s ∈ ss, s.2.length * 2 * mult cplx + 1 < 10 ^ 8 ∧ s.1 + 1 < 10 ^ 8) →
      rdStrBig g fuel (nwordsBig cplx ss) (ss.flatMap (bigStrLines d cplx) ++ rest)
        = some (ss.map (fun s => (s.1, s.2.map (aEntry d cplx))), rest) := by
  intro ss
  induction ss with
  | nil => intro fuel _ _ _; simpa [nwordsBig, sumLens] using rdStrBig_zero g fuel rest
  | cons s t ih =>
    intro fuel hf hfit hw
    obtain ⟨f, rfl⟩ : ∃ f, fuel = f + 1 := ⟨fuel - 1, by simp at hf; omega⟩
    obtain ⟨hw1, hw2⟩ := hw s List.mem_cons_self
    have hnw : nwordsBig cplx (s :: t) = (s.2.length * 2 * mult cplx + 1 + nwordsBig cplx t) + 1 := by
      rw [nwordsBig_cons]; omega
    rw [hnw]
    simp only [List.flatMap_cons, bigStrLines, List.cons_append]
    rw [rdStrBig_succ]
    have la := fmtInt_length 8 _ (intFits_nat 8 (s.2.length * 2 * mult cplx + 1) (by omega) hw1)
    have lb := fmtInt_length 8 _ (intFits_nat 8 (s.1 + 1) (by omega) hw2)
    rw [List.append_assoc, slice_0 _ _ 8 la, ← List.append_assoc, slice_1 _ _ _ 8 8 la lb, pyInt_fmtInt', pyInt_fmtInt']
    simp only
    have hL : (((s.2.length * 2 * mult cplx + 1 : Nat) : Int) - 1).toNat = s.2.length * 2 * mult cplx := by omega
    have hr : (((s.1 + 1 : Nat) : Int) - 1).toNat = s.1 := by omega
    have hchk : ¬ ((((s.2.length * 2 * mult cplx + 1 : Nat) : Int) < 1) ∨ (((s.1 + 1 : Nat) : Int) < 1)) := by omega
    rw [if_neg hchk, hL, hr, hg.2.1]
    have hdiv : s.2.length * 2 * mult cplx / 2 = (segDs cplx s.2).length := by
      rw [segDs_length]
      have : s.2.length * 2 * mult cplx = 2 * (s.2.length * mult cplx) := by ring
      omega
    rw [hdiv]
    obtain ⟨blk, hblk, hvals⟩ := readVals_valLines g d cplx hg hd hp s.2
      (fun b hb => hfit s List.mem_cons_self b hb) (t.flatMap (bigStrLines d cplx) ++ rest)
    rw [List.append_assoc, hblk]
    simp only [hvals]
    have hrest : s.2.length * 2 * mult cplx + 1 + nwordsBig cplx t + 1 - (s.2.length * 2 * mult cplx + 2)
        = nwordsBig cplx t := by omega
    rw [hrest, ih f (by simp at hf; omega) (fun x hx => hfit x (List.mem_cons_of_mem _ hx))
      (fun x hx => hw x (List.mem_cons_of_mem _ hx))]
    simp

/-- `while elems > 0` of `_rd_nonbigmat_ascii` on the strings the writer printed -/
theorem rdStrNonbig_enc (g : Cfg) (d : Nat) (cplx : Bool) (hg : GoodCfg g d cplx) (hd : 1 ≤ d) (hp : 1 ≤ perline d)
    (rest : List Str) :
    ∀ (ss : List (Nat × List Entry)) (fuel : Nat), ss.length ≤ fuel →
      (∀ s ∈ ss, ∀ b ∈ segDs cplx s.2, Fits d b) →
      (∀ s ∈ ss, s.1 + 1 < 65536) →
      rdStrNonbig g fuel (nwordsNonbig cplx ss) (ss.flatMap (nonbigStrLines d cplx) ++ rest)
        = some (ss.map (fun s => (s.1, s.2.map (aEntry d cplx))), rest) := by
  intro ss
  induction ss with
  | nil => intro fuel _ _ _; simpa [nwordsNonbig, sumLens] using rdStrNonbig_zero g fuel rest
  | cons s t ih =>
    intro fuel hf hfit hw
    obtain ⟨f, rfl⟩ : ∃ f, fuel = f + 1 := ⟨fuel - 1, by simp at hf; omega⟩
    have hw1 := hw s List.mem_cons_self
    have hnw : nwordsNonbig cplx (s :: t) = (s.2.length * 2 * mult cplx + nwordsNonbig cplx t) + 1 := by
      rw [nwordsNonbig_cons]; omega
    rw [hnw]
    simp only [List.flatMap_cons, nonbigStrLines, List.cons_append]
    rw [rdStrNonbig_succ, pyInt_fmtInt 11 _ ['\n'] (by intro x hx; simp at hx; rw [hx]; decide)]
    simp only
    have hneg : ¬ (((packIS (s.1 + 1) (s.2.length * 2 * mult cplx) : Nat) : Int) < 0) := by omega
    rw [if_neg hneg, Int.toNat_natCast, pack_shift _ _ hw1, unpack_pack' _ _ hw1]
    have hchk : ¬ (s.2.length * 2 * mult cplx + 1 = 0 ∨ s.1 + 1 = 0) := by omega
    simp only
    rw [if_neg hchk, hg.2.1]
    have hdiv : s.2.length * 2 * mult cplx / 2 = (segDs cplx s.2).length := by
      rw [segDs_length]
      have : s.2.length * 2 * mult cplx = 2 * (s.2.length * mult cplx) := by ring
      omega
    rw [hdiv]
    obtain ⟨blk, hblk, hvals⟩ := readVals_valLines g d cplx hg hd hp s.2
      (fun b hb => hfit s List.mem_cons_self b hb) (t.flatMap (nonbigStrLines d cplx) ++ rest)
    rw [List.append_assoc, hblk]
    simp only [hvals]
    have hrest : s.2.length * 2 * mult cplx + nwordsNonbig cplx t + 1 - (s.2.length * 2 * mult cplx + 1)
        = nwordsNonbig cplx t := by omega
    rw [hrest, ih f (by simp at hf; omega) (fun x hx => hfit x (List.mem_cons_of_mem _ hx))
      (fun x hx => hw x (List.mem_cons_of_mem _ hx))]
    simp

/-! ### column records -/

/-- one column of the file: the header line `c+1  r  nw`, the lines under it, what the reader puts -/
structure ARec where
  c : Nat
  r : Nat
  nw : Nat
  body : List Str
  puts : List (Nat × List AEntry)

def ARec.head (rc : ARec) : Str := intLine3 ((rc.c + 1 : Nat) : Int) (rc.r : Int) (rc.nw : Int)
def ARec.lines (rc : ARec) : List Str := rc.head :: rc.body
def ARec.outPuts (rc : ARec) : List APut := rc.puts.map fun s => (s.1, rc.c, s.2)

/-- what one iteration of a column loop does under the header line -/
def bodyA (g : Cfg) (lay : Layout) (r : Nat) (nw : Nat) (ls : List Str) : Option (List (Nat × List AEntry) × List Str) :=
  match lay with
  | .dense => (readVals g (getBlock g nw ls).1 nw).map fun es => ([(r - 1, es)], (getBlock g nw ls).2)
  | .bigmat => rdStrBig g ls.length nw ls
  | .nonbigmat => rdStrNonbig g ls.length nw ls

structure ARec.Good (g : Cfg) (lay : Layout) (ncols : Nat) (rc : ARec) : Prop where
  hc : rc.c < ncols
  fc : IntFits 8 ((rc.c + 1 : Nat) : Int)
  fr : IntFits 8 (rc.r : Int)
  fnw : IntFits 8 (rc.nw : Int)
  hr : lay = .dense → 1 ≤ rc.r
  body : ∀ tail, bodyA g lay rc.r rc.nw (rc.body ++ tail) = some (rc.puts, tail)

theorem rdDense_succ (g : Cfg) (cols : Int) (fuel : Nat) (c r : Int) (line : Str) (ls : List Str) (acc : List APut) :
    rdDense g cols (fuel + 1) c r line ls acc =
      if c < cols then
        if c < 0 ∨ r ≤ 0 then none else
        match pyInt? (slice line 16 24) with
        | some elems =>
          if elems < 0 then none else
          match readVals g (getBlock g elems.toNat ls).1 elems.toNat, (getBlock g elems.toNat ls).2 with
          | some es, line' :: ls2 =>
            match colHead line' with
            | some (c', r') => rdDense g cols fuel c' r' line' ls2 (acc ++ [((r - 1).toNat, c.toNat, es)])
            | none => none
          | _, _ => none
        | none => none
      else some (acc, ls) := by
  conv => lhs; unfold rdDense
  rfl

theorem rdSparse_succ (g : Cfg) (big : Bool) (cols : Int) (fuel : Nat) (c : Int) (line : Str) (ls : List Str)
    (acc : List APut) :
    rdSparse g big cols (fuel + 1) c line ls acc =
      if c < cols then
        if c < 0 then none else
        match pyInt? (slice line 16 24) with
        | some elems =>
          match (if big then rdStrBig g ls.length elems.toNat ls else rdStrNonbig g ls.length elems.toNat ls) with
          | some (ss, line' :: ls2) =>
            match pyInt? (slice line' 0 8) with
            | some c1 => rdSparse g big cols fuel (c1 - 1) line' ls2 (acc ++ ss.map fun s => (s.1, c.toNat, s.2))
            | none => none
          | _ => none
        | none => none
      else some (acc, ls) := by
  conv => lhs; unfold rdSparse
  rfl

/-- the line that ends a column loop: `ncols+1  1  1` -/
def trailerHead (ncols : Nat) : Str := intLine3 ((ncols + 1 : Nat) : Int) 1 1

theorem intFits_one : IntFits 8 (1 : Int) := by
  have := intFits_nat 8 1 (by omega) (by norm_num)
  simpa using this

/-- the dense column loop over the records of a matrix, up to and including the trailer's header line -/
theorem rdDense_chain (g : Cfg) (ncols : Nat) (hn : IntFits 8 ((ncols + 1 : Nat) : Int)) (rest : List Str) :
    ∀ (recs : List ARec) (hd : ARec) (fuel : Nat) (acc : List APut), recs.length + 2 ≤ fuel →
      hd.Good g .dense ncols → (∀ rc ∈ recs, rc.Good g .dense ncols) →
      rdDense g ncols fuel hd.c hd.r hd.head (hd.body ++ (recs.flatMap ARec.lines ++ trailerHead ncols :: rest)) acc
        = some (acc ++ hd.outPuts ++ recs.flatMap ARec.outPuts, rest) := by
  intro recs
  induction recs with
  | nil =>
    intro hd fuel acc hf hg _
    obtain ⟨f, rfl⟩ : ∃ f, fuel = f + 2 := ⟨fuel - 2, by simp at hf; omega⟩
    rw [rdDense_succ]
    have h1 : ((hd.c : Nat) : Int) < (ncols : Int) := by have := hg.hc; omega
    have h2 : ¬ (((hd.c : Nat) : Int) < 0 ∨ ((hd.r : Nat) : Int) ≤ 0) := by have := hg.hr rfl; omega
    have hb := hg.body (trailerHead ncols :: rest)
    simp only [bodyA] at hb
    cases hrv : readVals g (getBlock g hd.nw (hd.body ++ trailerHead ncols :: rest)).1 hd.nw with
    | none => rw [hrv] at hb; simp at hb
    | some es =>
      rw [hrv] at hb
      simp only [Option.map_some, Option.some.injEq, Prod.mk.injEq] at hb
      obtain ⟨hputs, hrest⟩ := hb
      simp only [h1, if_true, h2, if_false, ARec.head, elems_intLine3 _ _ _ hg.fc hg.fr hg.fnw, List.flatMap_nil,
        List.nil_append, Int.toNat_natCast]
      have hneg : ¬ (((hd.nw : Nat) : Int) < 0) := by omega
      rw [if_neg hneg, hrv, hrest]
      simp only [trailerHead, colHead_intLine3 _ _ _ hn intFits_one]
      rw [rdDense_succ]
      have h3 : ¬ (((ncols + 1 : Nat) : Int) - 1 < (ncols : Int)) := by omega
      simp only [h3, if_false, ARec.outPuts, ← hputs, List.map_cons, List.map_nil, List.append_nil]
      have : (((hd.r : Nat) : Int) - 1).toNat = hd.r - 1 := by omega
      rw [this]
  | cons rc t ih =>
    intro hd fuel acc hf hg hall
    obtain ⟨f, rfl⟩ : ∃ f, fuel = f + 1 := ⟨fuel - 1, by simp at hf; omega⟩
    have hgr := hall rc List.mem_cons_self
    rw [rdDense_succ]
    have h1 : ((hd.c : Nat) : Int) < (ncols : Int) := by have := hg.hc; omega
    have h2 : ¬ (((hd.c : Nat) : Int) < 0 ∨ ((hd.r : Nat) : Int) ≤ 0) := by have := hg.hr rfl; omega
    have hb := hg.body ((rc :: t).flatMap ARec.lines ++ trailerHead ncols :: rest)
    simp only [bodyA] at hb
    cases hrv : readVals g (getBlock g hd.nw (hd.body ++ ((rc :: t).flatMap ARec.lines ++ trailerHead ncols :: rest))).1 hd.nw with
    | none => rw [hrv] at hb; simp at hb
    | some es =>
      rw [hrv] at hb
      simp only [Option.map_some, Option.some.injEq, Prod.mk.injEq] at hb
      obtain ⟨hputs, hrest⟩ := hb
      simp only [h1, if_true, h2, if_false, ARec.head, elems_intLine3 _ _ _ hg.fc hg.fr hg.fnw, Int.toNat_natCast]
      have hneg : ¬ (((hd.nw : Nat) : Int) < 0) := by omega
      rw [if_neg hneg, hrv, hrest]
      simp only [List.flatMap_cons, ARec.lines, List.cons_append, ARec.head,
        colHead_intLine3 _ _ _ hgr.fc hgr.fr]
      have h4 : ((rc.c + 1 : Nat) : Int) - 1 = (rc.c : Int) := by omega
      rw [h4]
      have := ih rc f (acc ++ [((((hd.r : Nat) : Int) - 1).toNat, ((hd.c : Nat) : Int).toNat, es)])
        (by simp at hf ⊢; omega) hgr (fun x hx => hall x (List.mem_cons_of_mem _ hx))
      simp only [ARec.head, List.append_assoc, Int.toNat_natCast] at this ⊢
      rw [this]
      simp only [ARec.outPuts, ← hputs, List.map_cons, List.map_nil]
      have : (((hd.r : Nat) : Int) - 1).toNat = hd.r - 1 := by omega
      rw [this]

def sparseLay (big : Bool) : Layout := if big then .bigmat else .nonbigmat

theorem bodyA_sparse (g : Cfg) (big : Bool) (r nw : Nat) (ls : List Str) :
    bodyA g (sparseLay big) r nw ls = if big then rdStrBig g ls.length nw ls else rdStrNonbig g ls.length nw ls := by
  cases big <;> rfl

/-- the bigmat / nonbigmat column loop over the records of a matrix -/
theorem rdSparse_chain (g : Cfg) (big : Bool) (ncols : Nat) (hn : IntFits 8 ((ncols + 1 : Nat) : Int)) (rest : List Str) :
    ∀ (recs : List ARec) (hd : ARec) (fuel : Nat) (acc : List APut), recs.length + 2 ≤ fuel →
      hd.Good g (sparseLay big) ncols → (∀ rc ∈ recs, rc.Good g (sparseLay big) ncols) →
      rdSparse g big ncols fuel hd.c hd.head (hd.body ++ (recs.flatMap ARec.lines ++ trailerHead ncols :: rest)) acc
        = some (acc ++ hd.outPuts ++ recs.flatMap ARec.outPuts, rest) := by
  intro recs
  induction recs with
  | nil =>
    intro hd fuel acc hf hg _
    obtain ⟨f, rfl⟩ : ∃ f, fuel = f + 2 := ⟨fuel - 2, by simp at hf; omega⟩
    rw [rdSparse_succ]
    have h1 : ((hd.c : Nat) : Int) < (ncols : Int) := by have := hg.hc; omega
    have h2 : ¬ (((hd.c : Nat) : Int) < 0) := by omega
    have hb := hg.body (trailerHead ncols :: rest)
    rw [bodyA_sparse] at hb
    simp only [h1, if_true, h2, if_false, ARec.head, elems_intLine3 _ _ _ hg.fc hg.fr hg.fnw, List.flatMap_nil,
      List.nil_append, Int.toNat_natCast, hb]
    simp only [trailerHead, first_intLine3 _ _ _ hn]
    rw [rdSparse_succ]
    have h3 : ¬ (((ncols + 1 : Nat) : Int) - 1 < (ncols : Int)) := by omega
    simp only [h3, if_false, ARec.outPuts, List.append_nil]
  | cons rc t ih =>
    intro hd fuel acc hf hg hall
    obtain ⟨f, rfl⟩ : ∃ f, fuel = f + 1 := ⟨fuel - 1, by simp at hf; omega⟩
    have hgr := hall rc List.mem_cons_self
    rw [rdSparse_succ]
    have h1 : ((hd.c : Nat) : Int) < (ncols : Int) := by have := hg.hc; omega
    have h2 : ¬ (((hd.c : Nat) : Int) < 0) := by omega
    have hb := hg.body ((rc :: t).flatMap ARec.lines ++ trailerHead ncols :: rest)
    rw [bodyA_sparse] at hb
    simp only [h1, if_true, h2, if_false, ARec.head, elems_intLine3 _ _ _ hg.fc hg.fr hg.fnw, Int.toNat_natCast, hb]
    simp only [List.flatMap_cons, ARec.lines, List.cons_append, ARec.head, first_intLine3 _ _ _ hgr.fc]
    have h4 : ((rc.c + 1 : Nat) : Int) - 1 = (rc.c : Int) := by omega
    rw [h4]
    have := ih rc f (acc ++ hd.puts.map fun s => (s.1, hd.c, s.2))
      (by simp at hf ⊢; omega) hgr (fun x hx => hall x (List.mem_cons_of_mem _ hx))
    simp only [ARec.head, List.append_assoc] at this ⊢
    rw [this]
    simp only [ARec.outPuts]

end PyYetiVerif.Op4A
