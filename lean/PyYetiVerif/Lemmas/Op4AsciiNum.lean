import PyYetiVerif.Lemmas.Op4
import Mathlib.Tactic.Ring
import Mathlib.Tactic.Linarith
import Mathlib.Tactic.NormNum
/-! The `%E` model of Model/Op4.lean is what it claims to be: the bisection finds the decimal
exponent, so the mantissa has exactly `d + 1` digits (`sci_mant`). -/
namespace PyYetiVerif.Op4

/-- bisection keeps `p lo ∧ ¬ p hi` and stops at adjacent points -/
theorem bsearch_spec (p : Nat → Bool) : ∀ (f lo hi : Nat), lo < hi → hi - lo ≤ 2 ^ f → p lo = true → p hi = false →
    p (bsearch p f lo hi) = true ∧ p (bsearch p f lo hi + 1) = false := by
  intro f
  induction f with
  | zero =>
    intro lo hi h1 h2 h3 h4
    have : hi = lo + 1 := by simp at h2; omega
    subst this
    simp [bsearch, h3, h4]
  | succ f ih =>
    intro lo hi h1 h2 h3 h4
    unfold bsearch
    by_cases hadj : hi ≤ lo + 1
    · have : hi = lo + 1 := by omega
      subst this
      simp [h3, h4]
    · simp only [hadj, if_false]
      have hpow : 2 ^ (f + 1) = 2 * 2 ^ f := by ring
      by_cases hm : p ((lo + hi) / 2) = true
      · simp only [hm, if_true]
        exact ih _ _ (by omega) (by omega) hm h4
      · simp only [hm]
        simp only [Bool.false_eq_true, if_false]
        exact ih _ _ (by omega) (by omega) h3 (by simpa using hm)

theorem roundHalfEven_cases (n d : Nat) : roundHalfEven n d = n / d ∨ roundHalfEven n d = n / d + 1 := by
  unfold roundHalfEven
  simp only
  split
  · exact Or.inl rfl
  · split
    · exact Or.inr rfl
    · split
      · exact Or.inl rfl
      · exact Or.inr rfl

/-- the scaled fraction of `sciPos` lies in `[10^d, 10^(d+1))` -/
theorem sciPos_scaled (d num den : Nat) (hden : 0 < den) (hlo : den ≤ num * 10 ^ 400) (hhi : num < 10 ^ 400 * den) :
    let k := expIndex num den
    let n' := if d + 400 ≥ k then num * 10 ^ (d + 400 - k) else num
    let d' := if d + 400 ≥ k then den else den * 10 ^ (k - 400 - d)
    0 < d' ∧ 10 ^ d * d' ≤ n' ∧ n' < 10 ^ (d + 1) * d' := by
  intro k n' d'
  have hk800 : k < 800 := expIndex_lt num den
  have hspec := bsearch_spec (fun k => if k ≥ 400 then decide (10 ^ (k - 400) * den ≤ num)
      else decide (den ≤ num * 10 ^ (400 - k))) 12 0 800 (by omega) (by norm_num)
    (by simpa using hlo) (by simpa using hhi)
  have hk : k = bsearch (fun k => if k ≥ 400 then decide (10 ^ (k - 400) * den ≤ num)
      else decide (den ≤ num * 10 ^ (400 - k))) 12 0 800 := rfl
  rw [← hk] at hspec
  obtain ⟨hp, hq⟩ := hspec
  by_cases hk4 : k ≥ 400
  · obtain ⟨u, hu⟩ : ∃ u, k = 400 + u := ⟨k - 400, by omega⟩
    have hp' : 10 ^ u * den ≤ num := by
      rw [if_pos hk4] at hp
      have : k - 400 = u := by omega
      rw [this] at hp; simpa using hp
    have hq' : num < 10 ^ (u + 1) * den := by
      rw [if_pos (by omega)] at hq
      have : k + 1 - 400 = u + 1 := by omega
      rw [this] at hq; simpa using hq
    by_cases hA : d + 400 ≥ k
    · obtain ⟨v, hv⟩ : ∃ v, d = u + v := ⟨d - u, by omega⟩
      have e1 : d + 400 - k = v := by omega
      simp only [n', d', if_pos hA, e1]
      refine ⟨hden, ?_, ?_⟩
      · calc 10 ^ d * den = (10 ^ u * den) * 10 ^ v := by rw [hv]; ring
          _ ≤ num * 10 ^ v := Nat.mul_le_mul_right _ hp'
      · calc num * 10 ^ v < (10 ^ (u + 1) * den) * 10 ^ v := Nat.mul_lt_mul_of_pos_right hq' (by positivity)
          _ = 10 ^ (d + 1) * den := by rw [hv]; ring
    · obtain ⟨v, hv⟩ : ∃ v, u = d + v := ⟨u - d, by omega⟩
      have e1 : k - 400 - d = v := by omega
      simp only [n', d', if_neg hA, e1]
      refine ⟨by positivity, ?_, ?_⟩
      · calc 10 ^ d * (den * 10 ^ v) = 10 ^ u * den := by rw [hv]; ring
          _ ≤ num := hp'
      · calc num < 10 ^ (u + 1) * den := hq'
          _ = 10 ^ (d + 1) * (den * 10 ^ v) := by rw [hv]; ring
  · have hA : d + 400 ≥ k := by omega
    obtain ⟨u, hu⟩ : ∃ u, 400 = k + u := ⟨400 - k, by omega⟩
    have hp' : den ≤ num * 10 ^ u := by
      rw [if_neg hk4] at hp
      have : 400 - k = u := by omega
      rw [this] at hp; simpa using hp
    have e1 : d + 400 - k = d + u := by omega
    simp only [n', d', if_pos hA, e1]
    refine ⟨hden, ?_, ?_⟩
    · calc 10 ^ d * den ≤ 10 ^ d * (num * 10 ^ u) := Nat.mul_le_mul_left _ hp'
        _ = num * 10 ^ (d + u) := by ring
    · by_cases hk9 : k + 1 ≥ 400
      · have hu1 : u = 1 := by omega
        have hq' : num < den := by
          rw [if_pos hk9] at hq
          have : k + 1 - 400 = 0 := by omega
          rw [this] at hq; simpa using hq
        calc num * 10 ^ (d + u) < den * 10 ^ (d + u) := Nat.mul_lt_mul_of_pos_right hq' (by positivity)
          _ = 10 ^ (d + 1) * den := by rw [hu1]; ring
      · obtain ⟨u', hu'⟩ : ∃ u', u = u' + 1 := ⟨u - 1, by omega⟩
        have hq' : num * 10 ^ u' < den := by
          rw [if_neg hk9] at hq
          have : 400 - (k + 1) = u' := by omega
          rw [this] at hq; simpa using hq
        calc num * 10 ^ (d + u) = (num * 10 ^ u') * 10 ^ (d + 1) := by rw [hu']; ring
          _ < den * 10 ^ (d + 1) := Nat.mul_lt_mul_of_pos_right hq' (by positivity)
          _ = 10 ^ (d + 1) * den := by ring

/-- the mantissa `sciPos` returns has exactly `d + 1` digits -/
theorem sciPos_mant (d num den : Nat) (hden : 0 < den) (hlo : den ≤ num * 10 ^ 400) (hhi : num < 10 ^ 400 * den) :
    10 ^ d ≤ (sciPos d num den).1 ∧ (sciPos d num den).1 < 10 ^ (d + 1) := by
  obtain ⟨hd', h1, h2⟩ := sciPos_scaled d num den hden hlo hhi
  unfold sciPos
  simp only
  generalize (if d + 400 ≥ expIndex num den then num * 10 ^ (d + 400 - expIndex num den) else num) = n' at *
  generalize (if d + 400 ≥ expIndex num den then den else den * 10 ^ (expIndex num den - 400 - d)) = d' at *
  have hq1 : 10 ^ d ≤ n' / d' := (Nat.le_div_iff_mul_le hd').2 h1
  have hq2 : n' / d' < 10 ^ (d + 1) := (Nat.div_lt_iff_lt_mul hd').2 h2
  have hpow : 10 ^ d < 10 ^ (d + 1) := Nat.pow_lt_pow_right (by norm_num) (by omega)
  by_cases hM : roundHalfEven n' d' = 10 ^ (d + 1)
  · rw [if_pos hM]; exact ⟨le_refl _, hpow⟩
  · rw [if_neg hM]
    rcases roundHalfEven_cases n' d' with h | h
    · rw [h]; exact ⟨hq1, hq2⟩
    · rw [h] at hM ⊢; exact ⟨by omega, by omega⟩

set_option exponentiation.threshold 2000 in
theorem sciOf_mant (d : Nat) (neg : Bool) (m : Nat) (e2 : Int) (hm : m < 2 ^ 53) (h1 : -1074 ≤ e2) (h2 : e2 ≤ 972) :
    (sciOf d neg m e2).mant < 10 ^ (d + 1) ∧ ((sciOf d neg m e2).mant = 0 ∨ 10 ^ d ≤ (sciOf d neg m e2).mant) := by
  unfold sciOf
  by_cases h0 : m = 0
  · simp [h0]
  · simp only [h0, if_false]
    have hmpos : 1 ≤ m := by omega
    have key : 10 ^ d ≤ (sciPos d (if e2 ≥ 0 then m * 2 ^ e2.toNat else m) (if e2 ≥ 0 then 1 else 2 ^ (-e2).toNat)).1 ∧
        (sciPos d (if e2 ≥ 0 then m * 2 ^ e2.toNat else m) (if e2 ≥ 0 then 1 else 2 ^ (-e2).toNat)).1 < 10 ^ (d + 1) := by
      by_cases he : e2 ≥ 0
      · simp only [he, if_true]
        have hpw : 2 ^ e2.toNat ≤ 2 ^ 972 := Nat.pow_le_pow_right (by norm_num) (by omega)
        apply sciPos_mant d _ 1 (by norm_num)
        · have : 1 ≤ m * 2 ^ e2.toNat := Nat.mul_pos hmpos (by positivity)
          calc 1 ≤ m * 2 ^ e2.toNat := this
            _ ≤ m * 2 ^ e2.toNat * 10 ^ 400 := Nat.le_mul_of_pos_right _ (by positivity)
        · calc m * 2 ^ e2.toNat < 2 ^ 53 * 2 ^ 972 := by
                apply Nat.mul_lt_mul_of_lt_of_le hm hpw (by positivity)
            _ ≤ 10 ^ 400 * 1 := by norm_num
      · simp only [he, if_false]
        have hpw : 2 ^ (-e2).toNat ≤ 2 ^ 1074 := Nat.pow_le_pow_right (by norm_num) (by omega)
        apply sciPos_mant d _ _ (by positivity)
        · calc 2 ^ (-e2).toNat ≤ 2 ^ 1074 := hpw
            _ ≤ 1 * 10 ^ 400 := by norm_num
            _ ≤ m * 10 ^ 400 := Nat.mul_le_mul_right _ hmpos
        · calc m < 2 ^ 53 := hm
            _ ≤ 10 ^ 400 * 1 := by norm_num
            _ ≤ 10 ^ 400 * 2 ^ (-e2).toNat := Nat.mul_le_mul_left _ (Nat.one_le_pow _ _ (by norm_num))
    exact ⟨key.2, Or.inr key.1⟩

/-- the printed mantissa of a double has exactly `d + 1` digits (or is zero) -/
theorem sci_mant (d b : Nat) :
    (sci d b).mant < 10 ^ (d + 1) ∧ ((sci d b).mant = 0 ∨ 10 ^ d ≤ (sci d b).mant) := by
  unfold sci
  simp only
  apply sciOf_mant
  · split <;> omega
  · split <;> omega
  · split <;> omega

end PyYetiVerif.Op4
