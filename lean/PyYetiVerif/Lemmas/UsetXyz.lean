import PyYetiVerif.Model.UsetXyz
import Mathlib.LinearAlgebra.Matrix.NonsingularInverse
import Mathlib.LinearAlgebra.Matrix.Adjugate
import Mathlib.Tactic.FinCases
import Mathlib.Tactic.Linarith
import Mathlib.Tactic.Ring
/-!
Algebra of one exact x, y, z triple for `Model/UsetXyz.lean`: a block `A` with `Aᵀ A = s² 1`
(an orthogonal matrix times a scale) passes the tests of `find_xyz_triples` with every tolerance,
its rotation columns give back the node location, and the three-valued comparisons are decided
(not `near`) there.
-/
namespace PyYetiVerif.Xyz
open Matrix

/-- the unit matrix and the rigid-body rotation columns of a node at `p`:
`[[0, z, -y], [-z, 0, x], [y, -x, 0]]` -/
def one3 : M3 := fun i j => if i = j then 1 else 0
def skew (p : Rat × Rat × Rat) : M3 := fun i j =>
  match i, j with
  | 0, 0 => 0 | 0, 1 => p.2.2 | 0, 2 => -p.2.1
  | 1, 0 => -p.2.2 | 1, 1 => 0 | 1, 2 => p.1
  | 2, 0 => p.2.1 | 2, 1 => -p.1 | 2, 2 => 0

/-- a block as a Mathlib matrix -/
def toM (A : M3) : Matrix (Fin 3) (Fin 3) ℚ := Matrix.of A

@[simp] theorem toM_apply (A : M3) (i j : Fin 3) : toM A i j = A i j := rfl

theorem mul_eq (A B : M3) : toM (mul A B) = toM A * toM B := by
  ext i j
  simp [mul, sum3, Matrix.mul_apply, Fin.sum_univ_three]

theorem tr_eq (A : M3) : toM (tr A) = (toM A)ᵀ := by
  ext i j; simp [tr]

theorem smul_eq (c : ℚ) (A : M3) : toM (smul c A) = c • toM A := by
  ext i j; simp [smul]

theorem one3_eq : toM one3 = 1 := by
  ext i j; simp [one3, Matrix.one_apply]

theorem det3_eq (A : M3) : det3 A = Matrix.det (toM A) := by
  rw [Matrix.det_fin_three]; simp only [toM_apply]; unfold det3; ring

theorem adj3_eq (A : M3) (i j : Fin 3) : adj3 A i j = Matrix.adjugate (toM A) i j := by
  rw [Matrix.adjugate_fin_three]
  fin_cases i <;> fin_cases j <;> simp [adj3]

section exact
variable {A : M3} {s2 : ℚ}

/-- `Aᵀ A = s² 1` -/
def OrthScaled (A : M3) (s2 : ℚ) : Prop := mul (tr A) A = smul s2 one3

theorem orth_matrix (h : OrthScaled A s2) : (toM A)ᵀ * toM A = s2 • (1 : Matrix (Fin 3) (Fin 3) ℚ) := by
  unfold OrthScaled at h
  have := congrArg toM h
  rw [mul_eq, tr_eq, smul_eq, one3_eq] at this
  exact this

theorem det_sq (h : OrthScaled A s2) : det3 A * det3 A = s2 * s2 * s2 := by
  have := congrArg Matrix.det (orth_matrix h)
  rw [Matrix.det_mul, Matrix.det_transpose, Matrix.det_smul, Matrix.det_one] at this
  rw [det3_eq]
  simpa [Fintype.card_fin, pow_succ] using this

theorem det_ne_zero (h : OrthScaled A s2) (hs : 0 < s2) : det3 A ≠ 0 := by
  intro h0
  have := det_sq h
  rw [h0] at this
  have h3 : 0 < s2 * s2 * s2 := by positivity
  linarith

/-- `s² adj(A) = det(A) Aᵀ` -/
theorem adj_entry (h : OrthScaled A s2) (i j : Fin 3) : s2 * adj3 A i j = det3 A * A j i := by
  have h1 : (toM A)ᵀ * (toM A * Matrix.adjugate (toM A)) = s2 • Matrix.adjugate (toM A) := by
    rw [← Matrix.mul_assoc, orth_matrix h, Matrix.smul_mul, Matrix.one_mul]
  rw [Matrix.mul_adjugate, Matrix.mul_smul, Matrix.mul_one] at h1
  have := congrFun (congrFun h1 i) j
  simp only [Matrix.smul_apply, Matrix.transpose_apply, smul_eq_mul, toM_apply] at this
  rw [adj3_eq, det3_eq]
  exact this.symm

theorem colsq_eq (h : OrthScaled A s2) (j : Fin 3) : colsq A j = s2 := by
  have := congrFun (congrFun (orth_matrix h) j) j
  simp only [Matrix.mul_apply, Matrix.transpose_apply, Fin.sum_univ_three, Matrix.smul_apply,
    Matrix.one_apply_eq, smul_eq_mul, mul_one, toM_apply] at this
  unfold colsq sum3
  exact this

theorem scale2_eq (h : OrthScaled A s2) : scale2 A = s2 := by
  have h0 := colsq_eq h 0
  have h1 := colsq_eq h 1
  have h2 := colsq_eq h 2
  unfold colsq sum3 at h0 h1 h2
  unfold scale2 sumsq sum3
  have : (A 0 0 * A 0 0 + A 0 1 * A 0 1 + A 0 2 * A 0 2 + (A 1 0 * A 1 0 + A 1 1 * A 1 1 + A 1 2 * A 1 2) +
      (A 2 0 * A 2 0 + A 2 1 * A 2 1 + A 2 2 * A 2 2)) = 3 * s2 := by linarith
  rw [this]; ring

/-- the rotation columns of a node, seen through `T2 = Aᵀ / s²`, are the node's skew matrix -/
theorem rbrot_eq (h : OrthScaled A s2) (hs : 0 < s2) (S : M3) : mul (T2of A) (mul A S) = S := by
  have : toM (mul (T2of A) (mul A S)) = toM S := by
    unfold T2of
    rw [scale2_eq h, mul_eq, mul_eq, smul_eq, tr_eq, ← Matrix.mul_assoc, Matrix.smul_mul, orth_matrix h,
      smul_smul, one_div, inv_mul_cancel₀ (ne_of_gt hs), one_smul, Matrix.one_mul]
  funext i j
  exact congrFun (congrFun this i) j

end exact

/-! ### decided comparisons -/

theorem absR_nonneg (x : ℚ) : 0 ≤ absR x := by
  unfold absR; split <;> linarith

theorem absR_zero : absR 0 = 0 := by simp [absR]

theorem absR_of_nonneg {x : ℚ} (h : 0 ≤ x) : absR x = x := by
  unfold absR; rw [if_neg (not_lt.mpr h)]

theorem maxR_of_le {x y : ℚ} (h : x ≤ y) : maxR x y = y := by
  unfold maxR
  split
  · rfl
  · linarith

theorem leT_yes {l r : ℚ} (h : l + margin * maxR (absR l) (absR r) < r) : leT l r = .yes := by
  unfold leT
  split
  · rfl
  · simp only [h, if_true]

theorem leT_zero {r : ℚ} (hr : 0 ≤ r) : leT 0 r = .yes := by
  rcases eq_or_lt_of_le hr with h | h
  · unfold leT; rw [if_pos ⟨rfl, h.symm⟩]
  · apply leT_yes
    rw [absR_zero, absR_of_nonneg hr, maxR_of_le hr]
    unfold margin
    linarith

theorem all3_yes {f : Fin 3 → Tri} (h : ∀ i, f i = .yes) : all3 f = .yes := by
  unfold all3; rw [h 0, h 1, h 2]; rfl

theorem all9_yes {f : Fin 3 → Fin 3 → Tri} (h : ∀ i j, f i j = .yes) : all9 f = .yes :=
  all3_yes fun i => all3_yes fun j => h i j

/-- an exactly antisymmetric block passes the pattern test with every non-negative tolerance -/
theorem patternOK_skew (a : ℚ) (ha : 0 ≤ a) (p : Rat × Rat × Rat) : patternOK a (skew p) = .yes := by
  unfold patternOK
  apply all9_yes
  intro i j
  have h0 : skew p i j + skew p j i = 0 := by
    fin_cases i <;> fin_cases j <;> simp [skew]
  rw [h0, absR_zero]
  apply leT_zero
  have := absR_nonneg (skew p j i)
  unfold rtol
  nlinarith

theorem rssOK_exact {A : M3} {s2 tol : ℚ} (h : OrthScaled A s2) (hs : 0 < s2) (ht : 0 ≤ tol) :
    rssOK tol A = .yes := by
  unfold rssOK
  simp only
  apply all3_yes
  intro j
  rw [colsq_eq h j, scale2_eq h]
  have hd : (1 : ℚ) / 100000 ≤ tol + rtol := by unfold rtol; linarith
  set d := tol + rtol with hdef
  have h1 : leT (if d < 1 then (1 - d) * (1 - d) * s2 else 0) s2 = .yes := by
    split
    · rename_i hlt
      apply leT_yes
      have hc : (1 - d) * (1 - d) ≤ 1 - d := by nlinarith
      have hc0 : 0 ≤ (1 - d) * (1 - d) := mul_self_nonneg _
      have hnn : 0 ≤ (1 - d) * (1 - d) * s2 := mul_nonneg hc0 (le_of_lt hs)
      have hgap : 0 < (1 - (1 - d) * (1 - d) - 1 / 1000000000) * s2 := mul_pos (by linarith) hs
      have hle : (1 - d) * (1 - d) * s2 ≤ s2 := by nlinarith
      rw [absR_of_nonneg hnn, absR_of_nonneg (le_of_lt hs), maxR_of_le hle]
      unfold margin
      nlinarith
    · exact leT_zero (le_of_lt hs)
  have h2 : leT s2 ((1 + d) * (1 + d) * s2) = .yes := by
    apply leT_yes
    have he : 1 + 2 * d ≤ (1 + d) * (1 + d) := by nlinarith [mul_self_nonneg d]
    have hgap : 0 < ((1 + d) * (1 + d) - 1 - 1 / 1000000000 * ((1 + d) * (1 + d))) * s2 :=
      mul_pos (by nlinarith) hs
    have hle : s2 ≤ (1 + d) * (1 + d) * s2 := by nlinarith
    have hnn : 0 ≤ (1 + d) * (1 + d) * s2 := le_trans (le_of_lt hs) hle
    rw [absR_of_nonneg (le_of_lt hs), absR_of_nonneg hnn, maxR_of_le hle]
    unfold margin
    nlinarith
  rw [h1, h2]; rfl

theorem invOK_exact {A : M3} {s2 tol : ℚ} (h : OrthScaled A s2) (hs : 0 < s2) : invOK tol A = .yes := by
  unfold invOK
  simp only
  apply all9_yes
  intro i j
  have hd := det_ne_zero h hs
  have : scale2 A * (adj3 A i j / det3 A) - A j i = 0 := by
    rw [scale2_eq h, mul_div_assoc', adj_entry h i j, mul_div_cancel_left₀ _ hd, sub_self]
  rw [this, absR_zero, if_pos]
  have := absR_nonneg (A j i)
  unfold rtol
  nlinarith

theorem stage1_exact {A : M3} {s2 tol : ℚ} (h : OrthScaled A s2) (hs : 0 < s2) (ht : 0 ≤ tol) :
    stage1 tol A = .yes := by
  unfold stage1
  rw [if_neg (det_ne_zero h hs), rssOK_exact h hs ht]
  exact invOK_exact h hs

end PyYetiVerif.Xyz

namespace PyYetiVerif.Xyz

/-! ### a matrix made of exact triples: every node is found -/

/-- a node: its block `A` (orthogonal times a scale), `s²`, and its location -/
structure Node where
  A : M3
  s2 : ℚ
  p : ℚ × ℚ × ℚ

def Node.Exact (n : Node) : Prop := OrthScaled n.A n.s2 ∧ 0 < n.s2

/-- the three rows of the rigid-body matrix that belong to a node -/
def nodeRows (n : Node) : List Row :=
  [(n.A 0, mul n.A (skew n.p) 0), (n.A 1, mul n.A (skew n.p) 1), (n.A 2, mul n.A (skew n.p) 2)]

def rowsOf (nodes : List Node) : List Row := nodes.flatMap nodeRows

theorem rowsOf_length (nodes : List Node) : (rowsOf nodes).length = 3 * nodes.length := by
  induction nodes with
  | nil => rfl
  | cons n t ih => simp [rowsOf, List.flatMap_cons, nodeRows] at ih ⊢; omega

theorem rowsOf_append (a b : List Node) : rowsOf (a ++ b) = rowsOf a ++ rowsOf b := by
  simp [rowsOf]

theorem get_mid {β : Type} (a b c : β) : ∀ (pre post : List β),
    (pre ++ a :: b :: c :: post)[pre.length]? = some a ∧
    (pre ++ a :: b :: c :: post)[pre.length + 1]? = some b ∧
    (pre ++ a :: b :: c :: post)[pre.length + 2]? = some c
  | [], post => by simp
  | x :: pre, post => by
      have := get_mid a b c pre post
      simpa [Nat.add_right_comm] using this

theorem window_node (done todo : List Node) (n : Node) :
    window (rowsOf (done ++ n :: todo)).toArray (3 * done.length) = some (n.A, mul n.A (skew n.p)) := by
  have hsplit : rowsOf (done ++ n :: todo) = rowsOf done ++
      (n.A 0, mul n.A (skew n.p) 0) :: (n.A 1, mul n.A (skew n.p) 1) :: (n.A 2, mul n.A (skew n.p) 2) :: rowsOf todo := by
    rw [rowsOf_append]
    simp [rowsOf, List.flatMap_cons, nodeRows]
  obtain ⟨h0, h1, h2⟩ := get_mid (n.A 0, mul n.A (skew n.p) 0) (n.A 1, mul n.A (skew n.p) 1)
    (n.A 2, mul n.A (skew n.p) 2) (rowsOf done) (rowsOf todo)
  rw [rowsOf_length] at h0 h1 h2
  unfold window
  rw [hsplit]
  simp only [List.getElem?_toArray, h0, h1, h2]
  congr 1
  refine Prod.ext ?_ ?_ <;> (funext i; fin_cases i <;> rfl)

theorem window_end (nodes : List Node) : window (rowsOf nodes).toArray (3 * nodes.length) = none := by
  unfold window
  have : (rowsOf nodes).toArray[3 * nodes.length]? = none := by
    rw [List.getElem?_toArray, List.getElem?_eq_none]
    rw [rowsOf_length]
  rw [this]

theorem absR_nonneg' (x : ℚ) : 0 ≤ absR x := absR_nonneg x

theorem le_maxR_left (x y : ℚ) : x ≤ maxR x y := by
  unfold maxR; split <;> linarith

theorem le_maxR_right (x y : ℚ) : y ≤ maxR x y := by
  unfold maxR; split <;> linarith

theorem absMax_nonneg (A : M3) : 0 ≤ absMax A := by
  unfold absMax
  exact le_trans (absR_nonneg (A 2 2)) (le_trans (le_maxR_right _ _) (le_maxR_right _ _))

def potsFrom : Nat → List Node → List Pot
  | _, [] => []
  | k, n :: t => { j := 3 * k, T2 := T2of n.A, s2 := scale2 n.A } :: potsFrom (k + 1) t

def msFrom : ℚ → List Node → ℚ
  | ms, [] => ms
  | ms, n :: t => msFrom (maxR ms (absMax (skew n.p))) t

theorem msFrom_cases : ∀ (t : List Node) (ms : ℚ), (t = [] ∧ msFrom ms t = ms) ∨ (0 ≤ msFrom ms t ∧ ms ≤ msFrom ms t)
  | [], ms => Or.inl ⟨rfl, rfl⟩
  | n :: t, ms => by
      right
      rcases msFrom_cases t (maxR ms (absMax (skew n.p))) with ⟨_, h⟩ | ⟨h0, h1⟩
      · simp only [msFrom]; rw [h]
        exact ⟨le_trans (absMax_nonneg _) (le_maxR_right _ _), le_maxR_left _ _⟩
      · exact ⟨h0, le_trans (le_maxR_left _ _) h1⟩

/-- the first loop on a matrix of exact triples: one potential triple per node, aligned -/
theorem scan_exact (tol : ℚ) (ht : 0 ≤ tol) : ∀ (todo done : List Node) (fuel : Nat) (pots : List Pot) (ms : ℚ),
    (∀ n ∈ todo, n.Exact) → todo.length ≤ fuel →
    scan tol (rowsOf (done ++ todo)).toArray fuel (3 * done.length) pots ms =
      some (pots.reverse ++ potsFrom done.length todo, msFrom ms todo)
  | [], done, fuel, pots, ms, _, _ => by
      cases fuel with
      | zero => simp [scan, potsFrom, msFrom]
      | succ f =>
          rw [scan]
          have := window_end done
          simp only [List.append_nil] at this ⊢
          rw [this]
          simp [potsFrom, msFrom]
  | n :: t, done, fuel, pots, ms, hex, hf => by
      cases fuel with
      | zero => simp at hf
      | succ f =>
          obtain ⟨ho, hs⟩ := hex n List.mem_cons_self
          rw [scan, window_node]
          simp only
          rw [stage1_exact ho hs ht]
          simp only
          rw [rbrot_eq ho hs, patternOK_skew _ (mul_nonneg ht (absMax_nonneg _))]
          simp only
          have ih := scan_exact tol ht t (done ++ [n]) f
            ({ j := 3 * done.length, T2 := T2of n.A, s2 := scale2 n.A } :: pots)
            (maxR ms (absMax (skew n.p))) (fun m hm => hex m (List.mem_cons_of_mem _ hm))
            (by simp at hf; omega)
          rw [List.append_assoc, List.singleton_append, List.length_append, List.length_singleton,
            Nat.mul_add, Nat.mul_one] at ih
          rw [ih]
          simp [potsFrom, msFrom]

theorem setRows_mid {β : Type} (v : β) : ∀ (pre post : List (Option β)),
    setRows (pre ++ none :: none :: none :: post) pre.length v = pre ++ some v :: some v :: some v :: post
  | [], post => by simp [setRows]
  | x :: pre, post => by
      have := setRows_mid v pre post
      unfold setRows at this ⊢
      simpa [Nat.add_right_comm] using this

def trip {β : Type} (v : β) : List (Option β) := [some v, some v, some v]

/-- the final loop: every potential triple of an exact matrix is accepted -/
theorem fill_exact (tol : ℚ) (ht : 0 ≤ tol) (ms : ℚ) (hms : 0 ≤ ms) :
    ∀ (todo done : List Node) (c : List (Option (ℚ × ℚ × ℚ))) (s : List (Option ℚ)),
    (∀ n ∈ todo, n.Exact) →
    fill tol (rowsOf (done ++ todo)).toArray ms (potsFrom done.length todo)
      { coords := c ++ List.replicate (3 * todo.length) none,
        scale2 := s ++ List.replicate (3 * todo.length) none, modelScale := ms } =
    (if c.length = 3 * done.length ∧ s.length = 3 * done.length then
      some { coords := c ++ todo.flatMap (fun n => trip n.p), scale2 := s ++ todo.flatMap (fun n => trip n.s2),
             modelScale := ms }
     else fill tol (rowsOf (done ++ todo)).toArray ms (potsFrom done.length todo)
      { coords := c ++ List.replicate (3 * todo.length) none,
        scale2 := s ++ List.replicate (3 * todo.length) none, modelScale := ms })
  | [], done, c, s, _ => by
      split
      · simp [potsFrom, fill]
      · rfl
  | n :: t, done, c, s, hex => by
      split
      · rename_i hlen
        obtain ⟨ho, hs⟩ := hex n List.mem_cons_self
        rw [potsFrom, fill, window_node]
        simp only
        rw [rbrot_eq ho hs, patternOK_skew _ (mul_nonneg ht hms)]
        simp only
        have hrep : ∀ {β : Type}, List.replicate (3 * (n :: t).length) (none : Option β) =
            none :: none :: none :: List.replicate (3 * t.length) none := by
          intro β
          rw [List.length_cons, Nat.mul_add, Nat.mul_one]
          rfl
        rw [hrep, hrep, ← hlen.1, setRows_mid, hlen.1, ← hlen.2, setRows_mid]
        have hx : (skew n.p 1 2 - skew n.p 2 1) / 2 = n.p.1 := by simp [skew]
        have hy : (skew n.p 2 0 - skew n.p 0 2) / 2 = n.p.2.1 := by simp [skew]
        have hz : (skew n.p 0 1 - skew n.p 1 0) / 2 = n.p.2.2 := by simp [skew]
        rw [hx, hy, hz, scale2_eq ho]
        have ih := fill_exact tol ht ms hms t (done ++ [n]) (c ++ trip n.p) (s ++ trip n.s2)
          (fun m hm => hex m (List.mem_cons_of_mem _ hm))
        rw [List.append_assoc, List.singleton_append, List.length_append, List.length_singleton] at ih
        rw [if_pos (by simp [trip, hlen.1, hlen.2]; omega)] at ih
        simp only [trip, List.append_assoc, List.cons_append, List.nil_append] at ih
        simp only [List.flatMap_cons, trip, List.cons_append, List.nil_append]
        exact ih
      · rfl

end PyYetiVerif.Xyz
