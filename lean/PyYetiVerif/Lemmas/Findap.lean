import PyYetiVerif.Model.Findap
import Mathlib.Algebra.Order.Ring.Abs
import Mathlib.Algebra.Order.Field.Basic
import Mathlib.Tactic.Ring
import Mathlib.Tactic.Linarith
/-! Helper lemmas for C10 / findap. -/
set_option linter.unusedSectionVars false
set_option linter.unusedVariables false
set_option linter.unreachableTactic false
set_option linter.unusedTactic false
namespace PyYetiVerif.Findap

variable {α : Type} [Field α] [LinearOrder α] [IsStrictOrderedRing α]

theorem absd_eq_abs (a b : α) : absd a b = |a - b| := by
  unfold absd
  split
  · rw [abs_sub_comm, abs_of_pos]; linarith
  · rw [abs_of_nonneg]; linarith

theorem stol_nonneg (tol : α) (y : List α) : 0 ≤ stol tol y := by
  unfold stol
  split
  · rw [absd_eq_abs]; exact abs_nonneg _
  · exact le_refl _

/-! ### sequential variant: alternation -/

theorem loop_alt (st : α) (h0 : 0 ≤ st) (rest : List α) :
    ∀ (m : Bool) (cur : α) (j : Nat) (p2 nxt : α) (i : Nat) (L : α),
      (m = true → L + st < cur) → (m = false → cur + st < L) → |nxt - cur| ≤ st →
      AltFrom m (L :: (loopSeq st m cur j p2 nxt rest i).map (·.2)) := by
  induction rest with
  | nil =>
      intro m cur j p2 nxt i L hm hv hn
      have hn' := abs_le.mp hn
      unfold loopSeq
      cases m
      · have := hv rfl
        split <;> simp [AltFrom] <;> linarith
      · have := hm rfl
        split <;> simp [AltFrom] <;> linarith
  | cons x r ih =>
      intro m cur j p2 nxt i L hm hv hn
      unfold loopSeq
      by_cases hx : st < absd x cur
      · rw [if_pos hx]
        rw [absd_eq_abs] at hx
        cases m
        · have hL := hv rfl
          simp only [Bool.false_eq_true, if_false]
          by_cases hc : cur < x
          · rw [if_pos hc]
            simp only [List.map_cons, AltFrom, Bool.false_eq_true, if_false, Bool.not_false]
            refine ⟨by linarith, ?_⟩
            apply ih true x i nxt x (i + 1) cur
            · intro _; rw [abs_of_pos (by linarith)] at hx; linarith
            · intro h; cases h
            · simp [h0]
          · rw [if_neg hc]
            apply ih false x i nxt x (i + 1) L
            · intro h; cases h
            · intro _; linarith [not_lt.mp hc]
            · simp [h0]
        · have hL := hm rfl
          simp only [if_true]
          by_cases hc : x < cur
          · rw [if_pos hc]
            simp only [List.map_cons, AltFrom, if_true, Bool.not_true]
            refine ⟨by linarith, ?_⟩
            apply ih false x i nxt x (i + 1) cur
            · intro h; cases h
            · intro _; rw [abs_of_neg (by linarith)] at hx; linarith
            · simp [h0]
          · rw [if_neg hc]
            apply ih true x i nxt x (i + 1) L
            · intro _; linarith [not_lt.mp hc]
            · intro h; cases h
            · simp [h0]
      · rw [if_neg hx]
        rw [absd_eq_abs] at hx
        exact ih m cur j nxt x (i + 1) L hm hv (not_lt.mp hx)

/-! ### sequential variant: extremes within `2·stol` -/

theorem loop_upper (st : α) (h0 : 0 ≤ st) (rest : List α) :
    ∀ (m : Bool) (cur : α) (j : Nat) (p2 nxt : α) (i : Nat) (L : α),
      (m = true → L + st < cur) → (m = false → cur + st < L) → |nxt - cur| ≤ st →
      (∃ s ∈ L :: (loopSeq st m cur j p2 nxt rest i).map (·.2), cur ≤ s + st) ∧
      (∀ v ∈ rest, ∃ s ∈ L :: (loopSeq st m cur j p2 nxt rest i).map (·.2), v ≤ s + 2 * st) := by
  induction rest with
  | nil =>
      intro m cur j p2 nxt i L hm hv hn
      have hn' := abs_le.mp hn
      refine ⟨?_, by intro v hv; cases hv⟩
      unfold loopSeq
      cases m
      · have := hv rfl
        split
        · first
          | exact ⟨L, by simp, by linarith⟩
          | exact ⟨nxt, by simp, by linarith⟩
        · first
          | exact ⟨L, by simp, by linarith⟩
          | exact ⟨cur, by simp, by linarith⟩
      · have := hm rfl
        split
        · first
          | exact ⟨L, by simp, by linarith⟩
          | exact ⟨nxt, by simp, by linarith⟩
        · first
          | exact ⟨L, by simp, by linarith⟩
          | exact ⟨cur, by simp, by linarith⟩
  | cons x r ih =>
      intro m cur j p2 nxt i L hm hv hn
      unfold loopSeq
      by_cases hx : st < absd x cur
      · rw [if_pos hx]
        rw [absd_eq_abs] at hx
        cases m
        · have hL := hv rfl
          simp only [Bool.false_eq_true, if_false]
          by_cases hc : cur < x
          · rw [if_pos hc]
            obtain ⟨⟨s, hs, hb⟩, ha⟩ := ih true x i nxt x (i + 1) cur
              (by intro _; rw [abs_of_pos (by linarith)] at hx; linarith) (by intro h; cases h) (by simp [h0])
            refine ⟨?_, ?_⟩
            · first
                | exact ⟨cur, by simp, by linarith⟩
                | exact ⟨L, by simp, by linarith⟩
            · intro v hv'
              rcases List.mem_cons.mp hv' with rfl | hv'
              · exact ⟨s, by simp only [List.map_cons]; exact List.mem_cons_of_mem _ hs, by linarith⟩
              · obtain ⟨s', hs', hb'⟩ := ha v hv'
                exact ⟨s', by simp only [List.map_cons]; exact List.mem_cons_of_mem _ hs', hb'⟩
          · rw [if_neg hc]
            have hc' := not_lt.mp hc
            obtain ⟨⟨s, hs, hb⟩, ha⟩ := ih false x i nxt x (i + 1) L
              (by intro h; cases h) (by intro _; linarith) (by simp [h0])
            refine ⟨?_, ?_⟩
            · first
                | exact ⟨L, by simp, by linarith⟩
                | exact ⟨s, hs, by linarith⟩
            · intro v hv'
              rcases List.mem_cons.mp hv' with rfl | hv'
              · exact ⟨s, hs, by linarith⟩
              · exact ha v hv'
        · have hL := hm rfl
          simp only [if_true]
          by_cases hc : x < cur
          · rw [if_pos hc]
            obtain ⟨⟨s, hs, hb⟩, ha⟩ := ih false x i nxt x (i + 1) cur
              (by intro h; cases h) (by intro _; rw [abs_of_neg (by linarith)] at hx; linarith) (by simp [h0])
            refine ⟨?_, ?_⟩
            · first
                | exact ⟨cur, by simp, by linarith⟩
                | exact ⟨L, by simp, by linarith⟩
            · intro v hv'
              rcases List.mem_cons.mp hv' with rfl | hv'
              · exact ⟨s, by simp only [List.map_cons]; exact List.mem_cons_of_mem _ hs, by linarith⟩
              · obtain ⟨s', hs', hb'⟩ := ha v hv'
                exact ⟨s', by simp only [List.map_cons]; exact List.mem_cons_of_mem _ hs', hb'⟩
          · rw [if_neg hc]
            have hc' := not_lt.mp hc
            obtain ⟨⟨s, hs, hb⟩, ha⟩ := ih true x i nxt x (i + 1) L
              (by intro _; linarith) (by intro h; cases h) (by simp [h0])
            refine ⟨?_, ?_⟩
            · first
                | exact ⟨L, by simp, by linarith⟩
                | exact ⟨s, hs, by linarith⟩
            · intro v hv'
              rcases List.mem_cons.mp hv' with rfl | hv'
              · exact ⟨s, hs, by linarith⟩
              · exact ha v hv'
      · rw [if_neg hx]
        rw [absd_eq_abs] at hx
        have hx' := abs_le.mp (not_lt.mp hx)
        obtain ⟨⟨s, hs, hb⟩, ha⟩ := ih m cur j nxt x (i + 1) L hm hv (not_lt.mp hx)
        refine ⟨⟨s, hs, hb⟩, ?_⟩
        intro v hv'
        rcases List.mem_cons.mp hv' with rfl | hv'
        · exact ⟨s, hs, by linarith⟩
        · exact ha v hv'

theorem loop_lower (st : α) (h0 : 0 ≤ st) (rest : List α) :
    ∀ (m : Bool) (cur : α) (j : Nat) (p2 nxt : α) (i : Nat) (L : α),
      (m = true → L + st < cur) → (m = false → cur + st < L) → |nxt - cur| ≤ st →
      (∃ s ∈ L :: (loopSeq st m cur j p2 nxt rest i).map (·.2), s ≤ cur + st) ∧
      (∀ v ∈ rest, ∃ s ∈ L :: (loopSeq st m cur j p2 nxt rest i).map (·.2), s ≤ v + 2 * st) := by
  induction rest with
  | nil =>
      intro m cur j p2 nxt i L hm hv hn
      have hn' := abs_le.mp hn
      refine ⟨?_, by intro v hv; cases hv⟩
      unfold loopSeq
      cases m
      · have := hv rfl
        split
        · first
          | exact ⟨L, by simp, by linarith⟩
          | exact ⟨nxt, by simp, by linarith⟩
        · first
          | exact ⟨L, by simp, by linarith⟩
          | exact ⟨cur, by simp, by linarith⟩
      · have := hm rfl
        split
        · first
          | exact ⟨L, by simp, by linarith⟩
          | exact ⟨nxt, by simp, by linarith⟩
        · first
          | exact ⟨L, by simp, by linarith⟩
          | exact ⟨cur, by simp, by linarith⟩
  | cons x r ih =>
      intro m cur j p2 nxt i L hm hv hn
      unfold loopSeq
      by_cases hx : st < absd x cur
      · rw [if_pos hx]
        rw [absd_eq_abs] at hx
        cases m
        · have hL := hv rfl
          simp only [Bool.false_eq_true, if_false]
          by_cases hc : cur < x
          · rw [if_pos hc]
            obtain ⟨⟨s, hs, hb⟩, ha⟩ := ih true x i nxt x (i + 1) cur
              (by intro _; rw [abs_of_pos (by linarith)] at hx; linarith) (by intro h; cases h) (by simp [h0])
            refine ⟨?_, ?_⟩
            · first
                | exact ⟨cur, by simp, by linarith⟩
                | exact ⟨L, by simp, by linarith⟩
            · intro v hv'
              rcases List.mem_cons.mp hv' with rfl | hv'
              · exact ⟨s, by simp only [List.map_cons]; exact List.mem_cons_of_mem _ hs, by linarith⟩
              · obtain ⟨s', hs', hb'⟩ := ha v hv'
                exact ⟨s', by simp only [List.map_cons]; exact List.mem_cons_of_mem _ hs', hb'⟩
          · rw [if_neg hc]
            have hc' := not_lt.mp hc
            obtain ⟨⟨s, hs, hb⟩, ha⟩ := ih false x i nxt x (i + 1) L
              (by intro h; cases h) (by intro _; linarith) (by simp [h0])
            refine ⟨?_, ?_⟩
            · first
                | exact ⟨L, by simp, by linarith⟩
                | exact ⟨s, hs, by linarith⟩
            · intro v hv'
              rcases List.mem_cons.mp hv' with rfl | hv'
              · exact ⟨s, hs, by linarith⟩
              · exact ha v hv'
        · have hL := hm rfl
          simp only [if_true]
          by_cases hc : x < cur
          · rw [if_pos hc]
            obtain ⟨⟨s, hs, hb⟩, ha⟩ := ih false x i nxt x (i + 1) cur
              (by intro h; cases h) (by intro _; rw [abs_of_neg (by linarith)] at hx; linarith) (by simp [h0])
            refine ⟨?_, ?_⟩
            · first
                | exact ⟨cur, by simp, by linarith⟩
                | exact ⟨L, by simp, by linarith⟩
            · intro v hv'
              rcases List.mem_cons.mp hv' with rfl | hv'
              · exact ⟨s, by simp only [List.map_cons]; exact List.mem_cons_of_mem _ hs, by linarith⟩
              · obtain ⟨s', hs', hb'⟩ := ha v hv'
                exact ⟨s', by simp only [List.map_cons]; exact List.mem_cons_of_mem _ hs', hb'⟩
          · rw [if_neg hc]
            have hc' := not_lt.mp hc
            obtain ⟨⟨s, hs, hb⟩, ha⟩ := ih true x i nxt x (i + 1) L
              (by intro _; linarith) (by intro h; cases h) (by simp [h0])
            refine ⟨?_, ?_⟩
            · first
                | exact ⟨L, by simp, by linarith⟩
                | exact ⟨s, hs, by linarith⟩
            · intro v hv'
              rcases List.mem_cons.mp hv' with rfl | hv'
              · exact ⟨s, hs, by linarith⟩
              · exact ha v hv'
      · rw [if_neg hx]
        rw [absd_eq_abs] at hx
        have hx' := abs_le.mp (not_lt.mp hx)
        obtain ⟨⟨s, hs, hb⟩, ha⟩ := ih m cur j nxt x (i + 1) L hm hv (not_lt.mp hx)
        refine ⟨⟨s, hs, hb⟩, ?_⟩
        intro v hv'
        rcases List.mem_cons.mp hv' with rfl | hv'
        · exact ⟨s, hs, by linarith⟩
        · exact ha v hv'

theorem skipInit_some (st a : α) (r : List α) :
    ∀ (i : Nat) (cur : α) (j : Nat) (rest : List α), skipInit st a r i = some (cur, j, rest) →
      ∃ pre, r = pre ++ cur :: rest ∧ (∀ v ∈ pre, |v - a| ≤ st) ∧ st < |cur - a| := by
  induction r with
  | nil => intro i cur j rest h; simp [skipInit] at h
  | cons x r ih =>
      intro i cur j rest h
      unfold skipInit at h
      by_cases hx : st < absd x a
      · rw [if_pos hx] at h
        simp only [Option.some.injEq, Prod.mk.injEq] at h
        obtain ⟨rfl, _, rfl⟩ := h
        exact ⟨[], by simp, by simp, by rwa [absd_eq_abs] at hx⟩
      · rw [if_neg hx] at h
        obtain ⟨pre, h1, h2, h3⟩ := ih _ _ _ _ h
        refine ⟨x :: pre, by simp [h1], ?_, h3⟩
        intro v hv
        rcases List.mem_cons.mp hv with rfl | hv
        · rw [absd_eq_abs] at hx; exact not_lt.mp hx
        · exact h2 v hv

theorem skipInit_none (st a : α) (r : List α) :
    ∀ (i : Nat), skipInit st a r i = none → ∀ v ∈ r, |v - a| ≤ st := by
  induction r with
  | nil => intro i _ v hv; cases hv
  | cons x r ih =>
      intro i h v hv
      unfold skipInit at h
      by_cases hx : st < absd x a
      · rw [if_pos hx] at h; cases h
      · rw [if_neg hx] at h
        rcases List.mem_cons.mp hv with rfl | hv
        · rw [absd_eq_abs] at hx; exact not_lt.mp hx
        · exact ih _ h v hv

/-! ### default variant -/

/-- adjacent elements differ -/
def Distinct2 : List α → Prop
  | a :: b :: r => a ≠ b ∧ Distinct2 (b :: r)
  | _ => True

theorem pvInner_length (a b : α) (rest : List α) : (pvInner a b rest).length = rest.length + 1 := by
  induction rest generalizing a b with
  | nil => simp [pvInner]
  | cons c r ih => simp [pvInner, ih]

theorem pvOf_length (l : List α) : (pvOf l).length = l.length := by
  match l with
  | [] => rfl
  | [_] => rfl
  | [_, _] => rfl
  | a :: b :: c :: r => simp [pvOf, pvInner_length]

theorem uniqMask_length (st p : α) (r : List α) : (uniqMask st p r).length = r.length := by
  induction r generalizing p with
  | nil => rfl
  | cons x r ih => simp [uniqMask, ih]

theorem select_length_le (u : List Bool) (y : List α) : (select u y).length ≤ y.length := by
  induction u generalizing y with
  | nil => cases y <;> simp [select]
  | cons b u ih =>
      cases y with
      | nil => cases b <;> simp [select]
      | cons x r => cases b <;> simp [select] <;> have := ih r <;> omega

theorem selOf_expand (u : List Bool) :
    ∀ (pv : List Bool) (y : List α) (i : Nat), u.length = y.length →
      pv.length = (select u y).length →
      (selOf (expand u pv) y i).map (·.2) = select pv (select u y) := by
  induction u with
  | nil =>
      intro pv y i hu hp
      cases y with
      | nil => cases pv <;> simp [expand, selOf, select]
      | cons x r => simp at hu
  | cons b u ih =>
      intro pv y i hu hp
      cases y with
      | nil => simp at hu
      | cons x r =>
          have hu' : u.length = r.length := by simpa using hu
          cases b
          · simp only [expand, selOf, select] at hp ⊢
            exact ih pv r (i + 1) hu' hp
          · cases pv with
            | nil => simp [select] at hp
            | cons p pv' =>
                have hp' : pv'.length = (select u r).length := by simpa [select] using hp
                cases p
                · simp only [expand, selOf, select]
                  exact ih pv' r (i + 1) hu' hp'
                · simp only [expand, selOf, select, List.map_cons]
                  rw [ih pv' r (i + 1) hu' hp']

/-- the unique samples after a run head `h` (previous sample `p`) -/
theorem heads_spec (st : α) (r : List α) :
    ∀ (h p : α), |p - h| ≤ st → NoDriftFrom st h p r →
      Distinct2 (h :: select (uniqMask st p r) r) ∧
      (∀ v ∈ r, ∃ w ∈ h :: select (uniqMask st p r) r, |v - w| ≤ st) := by
  induction r with
  | nil => intro h p hp hn; simp [uniqMask, select, Distinct2]
  | cons x r ih =>
      intro h p hp hn
      unfold NoDriftFrom at hn
      by_cases hx : st < absd x p
      · rw [if_pos hx] at hn
        have h0 : 0 ≤ st := le_trans (abs_nonneg _) hp
        obtain ⟨hd, hc⟩ := ih x x (by simpa using h0) hn
        simp only [uniqMask, hx, decide_true, select]
        refine ⟨⟨?_, hd⟩, ?_⟩
        · rintro rfl
          rw [absd_eq_abs] at hx
          exact absurd hp (not_le.mpr (by rwa [abs_sub_comm] at hx))
        · intro v hv
          rcases List.mem_cons.mp hv with rfl | hv
          · exact ⟨v, by simp, by simpa using h0⟩
          · obtain ⟨w, hw, hvw⟩ := hc v hv
            exact ⟨w, List.mem_cons_of_mem _ hw, hvw⟩
      · rw [if_neg hx] at hn
        obtain ⟨hxh, hn⟩ := hn
        rw [absd_eq_abs] at hxh
        obtain ⟨hd, hc⟩ := ih h x (not_lt.mp hxh) hn
        simp only [uniqMask, hx, decide_false, select]
        refine ⟨hd, ?_⟩
        intro v hv
        rcases List.mem_cons.mp hv with rfl | hv
        · exact ⟨h, by simp, not_lt.mp hxh⟩
        · exact hc v hv

theorem flag_iff (a b c : α) (hab : a ≠ b) (hbc : b ≠ c) :
    (sgn b c - sgn a b).natAbs = 2 ↔ ((a < b ∧ c < b) ∨ (b < a ∧ b < c)) := by
  unfold sgn
  rcases lt_or_gt_of_ne hab with h1 | h1 <;> rcases lt_or_gt_of_ne hbc with h2 | h2 <;>
    simp [h1, h2, not_lt_of_gt h1, not_lt_of_gt h2]

theorem pvInner_spec (rest : List α) :
    ∀ (a b L : α), a ≠ b → Distinct2 (b :: rest) → (if a < b then L < b else b < L) →
      AltFrom (decide (a < b)) (L :: select (pvInner a b rest) (b :: rest)) ∧
      (∀ w ∈ b :: rest, ∃ s ∈ L :: select (pvInner a b rest) (b :: rest), w ≤ s) ∧
      (∀ w ∈ b :: rest, ∃ s ∈ L :: select (pvInner a b rest) (b :: rest), s ≤ w) := by
  induction rest with
  | nil =>
      intro a b L hab _ hL
      have : (decide (a < b) || decide (b < a)) = true := by
        rcases lt_or_gt_of_ne hab with h | h <;> simp [h]
      simp only [pvInner, this, select, AltFrom]
      refine ⟨⟨by simpa using hL, trivial⟩, ?_, ?_⟩ <;>
        (intro w hw; simp at hw; subst hw; exact ⟨w, by simp, le_refl _⟩)
  | cons c r ih =>
      intro a b L hab hd hL
      obtain ⟨hbc, hd'⟩ := hd
      by_cases hf : (sgn b c - sgn a b).natAbs = 2
      · have hrev := (flag_iff a b c hab hbc).mp hf
        obtain ⟨h1, h2, h3⟩ := ih b c b hbc hd' (by split <;> [assumption; exact lt_of_le_of_ne (not_lt.mp ‹_›) (Ne.symm hbc)])
        simp only [pvInner, hf, decide_true, select]
        have hdir : decide (b < c) = !decide (a < b) := by
          rcases hrev with ⟨h, h'⟩ | ⟨h, h'⟩
          · simp [h, not_lt_of_gt h']
          · simp [h', not_lt_of_gt h]
        refine ⟨?_, ?_, ?_⟩
        · simp only [AltFrom]
          refine ⟨by simpa using hL, ?_⟩
          rw [← hdir]; exact h1
        · intro w hw
          rcases List.mem_cons.mp hw with rfl | hw
          · exact ⟨w, by simp, le_refl _⟩
          · obtain ⟨s, hs, hws⟩ := h2 w hw
            exact ⟨s, List.mem_cons_of_mem _ hs, hws⟩
        · intro w hw
          rcases List.mem_cons.mp hw with rfl | hw
          · exact ⟨w, by simp, le_refl _⟩
          · obtain ⟨s, hs, hws⟩ := h3 w hw
            exact ⟨s, List.mem_cons_of_mem _ hs, hws⟩
      · have hnr := (not_congr (flag_iff a b c hab hbc)).mp hf
        simp only [pvInner, hf, decide_false, select]
        rcases lt_or_gt_of_ne hab with hab' | hab'
        · -- going up: b < c as well
          have hbc' : b < c := by
            rcases lt_or_gt_of_ne hbc with h | h
            · exact h
            · exact absurd (Or.inl ⟨hab', h⟩) hnr
          have hLb : L < b := by simpa [hab'] using hL
          obtain ⟨h1, h2, h3⟩ := ih b c L hbc hd' (by simp [hbc']; linarith)
          simp only [hab', hbc', decide_true] at h1 ⊢
          refine ⟨h1, ?_, ?_⟩
          · intro w hw
            rcases List.mem_cons.mp hw with rfl | hw
            · obtain ⟨s, hs, hcs⟩ := h2 c (by simp)
              exact ⟨s, hs, by linarith⟩
            · exact h2 w hw
          · intro w hw
            rcases List.mem_cons.mp hw with rfl | hw
            · exact ⟨L, by simp, le_of_lt hLb⟩
            · exact h3 w hw
        · have hbc' : c < b := by
            rcases lt_or_gt_of_ne hbc with h | h
            · exact absurd (Or.inr ⟨hab', h⟩) hnr
            · exact h
          have hLb : b < L := by simpa [not_lt_of_gt hab'] using hL
          obtain ⟨h1, h2, h3⟩ := ih b c L hbc hd' (by simp [not_lt_of_gt hbc']; linarith)
          simp only [not_lt_of_gt hab', not_lt_of_gt hbc', decide_false] at h1 ⊢
          refine ⟨h1, ?_, ?_⟩
          · intro w hw
            rcases List.mem_cons.mp hw with rfl | hw
            · exact ⟨L, by simp, le_of_lt hLb⟩
            · exact h2 w hw
          · intro w hw
            rcases List.mem_cons.mp hw with rfl | hw
            · obtain ⟨s, hs, hcs⟩ := h3 c (by simp)
              exact ⟨s, hs, by linarith⟩
            · exact h3 w hw

theorem pvOf_spec (l : List α) (hd : Distinct2 l) :
    Alt (select (pvOf l) l) ∧ (∀ w ∈ l, ∃ s ∈ select (pvOf l) l, w ≤ s) ∧
      (∀ w ∈ l, ∃ s ∈ select (pvOf l) l, s ≤ w) := by
  match l, hd with
  | [], _ => simp [pvOf, select, Alt, AltFrom]
  | [a], _ => simp [pvOf, select, Alt, AltFrom]
  | [a, b], hd =>
      simp only [pvOf, select]
      refine ⟨?_, ?_, ?_⟩
      · rcases lt_or_gt_of_ne hd.1 with h | h
        · left; simp [AltFrom, h]
        · right; simp [AltFrom, h]
      · intro w hw; exact ⟨w, hw, le_refl _⟩
      · intro w hw; exact ⟨w, hw, le_refl _⟩
  | a :: b :: c :: r, hd =>
      obtain ⟨hab, hd'⟩ := hd
      obtain ⟨h1, h2, h3⟩ := pvInner_spec (c :: r) a b a hab hd'
        (by split <;> [assumption; exact lt_of_le_of_ne (not_lt.mp ‹_›) (Ne.symm hab)])
      simp only [pvOf, select]
      refine ⟨?_, ?_, ?_⟩
      · by_cases h : a < b
        · left; simpa [h] using h1
        · right; simpa [h] using h1
      · intro w hw
        rcases List.mem_cons.mp hw with rfl | hw
        · exact ⟨w, by simp, le_refl _⟩
        · exact h2 w hw
      · intro w hw
        rcases List.mem_cons.mp hw with rfl | hw
        · exact ⟨w, by simp, le_refl _⟩
        · exact h3 w hw

end PyYetiVerif.Findap
