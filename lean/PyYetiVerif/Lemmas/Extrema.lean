import PyYetiVerif.Spec.Extrema
import Mathlib.Order.Basic
import Mathlib.Order.Defs.LinearOrder
import Mathlib.Order.OrderDual
import Mathlib.Algebra.Order.Ring.Abs
import Mathlib.Tactic.Order
import Mathlib.Data.List.Basic
import Mathlib.Data.List.Induction
import Mathlib.Data.List.Perm.Basic
/-! Helper lemmas for C16 (extrema bookkeeping). -/
namespace PyYetiVerif.Extrema

section generic
variable {α X L β : Type} [LinearOrder β] (key : α → β) (better : α → α → Bool)

/-- `better` is the strict preference induced by `key` -/
def KeyOrder : Prop := ∀ a b, better a b = decide (key a < key b)

variable {key better}

theorem runTr_snoc (t0 : Tr α X L) (ts : List (Tr α X L)) (d : Tr α X L) :
    runTr better t0 (ts ++ [d]) = (runTr better t0 ts).upd better d := by
  simp [runTr, List.foldl_append]

theorem firstBest_step (hb : KeyOrder key better) (all : List (Tr α X L)) (r d : Tr α X L)
    (h : FirstBest key all r) : FirstBest key (all ++ [d]) (r.upd better d) := by
  obtain ⟨pre, post, hall, hpre, hpost, hnone⟩ := h
  unfold Tr.upd
  by_cases hrep : nanRepl better r.v d.v = true
  · rw [if_pos hrep]
    -- `d` replaces: it is strictly better than everything so far
    refine ⟨all, [], rfl, ?_, by simp, ?_⟩
    · intro t ht w hw
      rcases hd : d.v with _ | u'
      · cases hr : r.v <;> simp [hd, hr, nanRepl] at hrep
      · refine ⟨u', rfl, ?_⟩
        have key_r : ∀ u, r.v = some u → key u < key u' := by
          intro u hu
          have := hrep
          simp [hu, hd, nanRepl, hb u u'] at this
          exact this
        rw [hall] at ht
        rcases List.mem_append.1 ht with ht | ht
        · obtain ⟨u, hu, hlt⟩ := hpre t ht w hw
          exact lt_trans hlt (key_r u hu)
        · rcases List.mem_cons.1 ht with ht | ht
          · subst ht
            exact key_r w hw
          · obtain ⟨u, hu, hle⟩ := hpost t ht w hw
            exact lt_of_le_of_lt hle (key_r u hu)
    · intro hd
      cases hr : r.v <;> simp [hd, hr, nanRepl] at hrep
  · rw [if_neg hrep]
    refine ⟨pre, post ++ [d], by simp [hall], hpre, ?_, hnone⟩
    intro t ht w hw
    rcases List.mem_append.1 ht with ht | ht
    · exact hpost t ht w hw
    · have : t = d := by simpa using ht
      subst this
      rcases hr : r.v with _ | u
      · simp [hr, hw, nanRepl] at hrep
      · refine ⟨u, rfl, ?_⟩
        simp [hr, hw, nanRepl, hb u w] at hrep
        exact hrep

theorem runTr_firstBest (hb : KeyOrder key better) (t0 : Tr α X L) (ts : List (Tr α X L)) :
    FirstBest key (t0 :: ts) (runTr better t0 ts) := by
  induction ts using List.reverseRecOn with
  | nil => exact ⟨[], [], rfl, by simp, by simp, fun _ => rfl⟩
  | append_singleton ts d ih =>
    rw [runTr_snoc]
    have := firstBest_step hb (t0 :: ts) _ d ih
    simpa using this

/-- the compare-and-replace step is associative: this is what makes envelopes of envelopes
equal to the envelope of everything, tie-breaks included -/
theorem upd_assoc (hb : KeyOrder key better) (a b c : Tr α X L) :
    (a.upd better b).upd better c = a.upd better (b.upd better c) := by
  have hk : ∀ a b, better a b = decide (key a < key b) := hb
  unfold Tr.upd
  rcases ha : a.v with _ | x <;> rcases hb' : b.v with _ | y <;> rcases hc : c.v with _ | z <;>
    simp only [nanRepl, hk] <;>
    split_ifs <;> simp_all <;> order

theorem foldl_upd_shift (hb : KeyOrder key better) (s b : Tr α X L) (l : List (Tr α X L)) :
    l.foldl (Tr.upd better) (s.upd better b) = s.upd better (l.foldl (Tr.upd better) b) := by
  induction l generalizing b with
  | nil => rfl
  | cons c l ih =>
    simp only [List.foldl_cons]
    rw [upd_assoc hb, ih]

/-- folding group results is folding everything (exact equality: value, abscissa, label) -/
theorem foldl_groups (hb : KeyOrder key better) (s : Tr α X L)
    (gs : List (Tr α X L × List (Tr α X L))) :
    (gs.map fun g => runTr better g.1 g.2).foldl (Tr.upd better) s
      = (gs.flatMap fun g => g.1 :: g.2).foldl (Tr.upd better) s := by
  induction gs generalizing s with
  | nil => rfl
  | cons g gs ih =>
    simp only [List.map_cons, List.foldl_cons, List.flatMap_cons, List.cons_append,
      List.foldl_append]
    rw [ih, foldl_upd_shift hb s g.1 g.2]
    rfl

theorem firstBest_mem {all : List (Tr α X L)} {r : Tr α X L} (h : FirstBest key all r) :
    r ∈ all := by
  obtain ⟨pre, post, hall, -⟩ := h
  simp [hall]

theorem firstBest_ge {all : List (Tr α X L)} {r : Tr α X L} (h : FirstBest key all r)
    (t : Tr α X L) (ht : t ∈ all) (w : α) (hw : t.v = some w) :
    ∃ u, r.v = some u ∧ key w ≤ key u := by
  obtain ⟨pre, post, hall, hpre, hpost, -⟩ := h
  rw [hall] at ht
  rcases List.mem_append.1 ht with ht | ht
  · obtain ⟨u, hu, hlt⟩ := hpre t ht w hw
    exact ⟨u, hu, le_of_lt hlt⟩
  · rcases List.mem_cons.1 ht with ht | ht
    · subst ht
      exact ⟨w, hw, le_refl _⟩
    · exact hpost t ht w hw

/-- the preferred KEY (for `key = id`: the value) does not depend on the order of the cases -/
theorem firstBest_perm_key {all all' : List (Tr α X L)} {r r' : Tr α X L} (hp : all.Perm all')
    (h : FirstBest key all r) (h' : FirstBest key all' r') :
    r.v.map key = r'.v.map key := by
  have hr : r ∈ all' := hp.subset (firstBest_mem h)
  have hr' : r' ∈ all := hp.symm.subset (firstBest_mem h')
  rcases hv : r.v with _ | u <;> rcases hv' : r'.v with _ | u'
  · rfl
  · obtain ⟨u, hu, -⟩ := firstBest_ge h r' hr' u' hv'
    simp [hv] at hu
  · obtain ⟨u, hu, -⟩ := firstBest_ge h' r hr u hv
    simp [hv'] at hu
  · obtain ⟨a, ha, h1⟩ := firstBest_ge h r' hr' u' hv'
    obtain ⟨b, hb', h2⟩ := firstBest_ge h' r hr u hv
    rw [hv] at ha
    rw [hv'] at hb'
    cases ha
    cases hb'
    simp [le_antisymm h2 h1]

/-- the specification determines the result completely (value, abscissa and label) -/
theorem firstBest_unique {all : List (Tr α X L)} {r r' : Tr α X L}
    (h : FirstBest key all r) (h' : FirstBest key all r') : r = r' := by
  obtain ⟨pre, post, hall, hpre, hpost, hnone⟩ := h
  obtain ⟨pre', post', hall', hpre', hpost', hnone'⟩ := h'
  rw [hall] at hall'
  rcases List.append_eq_append_iff.1 hall' with ⟨m, hm1, hm2⟩ | ⟨m, hm1, hm2⟩
  · -- pre' = pre ++ m, r :: post = m ++ r' :: post'
    rcases m with _ | ⟨x, m⟩
    · simp at hm2
      exact hm2.1
    · simp at hm2
      obtain ⟨hx, hpost_eq⟩ := hm2
      subst hx
      -- r ∈ pre', r' ∈ post
      have hr_in : r ∈ pre' := by simp [hm1]
      have hr'_in : r' ∈ post := by simp [hpost_eq]
      exfalso
      rcases hv : r.v with _ | u
      · have := hnone hv
        rcases hv' : r'.v with _ | u'
        · have := hnone' hv'
          simp [this] at hr_in
        · obtain ⟨u, hu, -⟩ := hpost r' hr'_in u' hv'
          simp [hv] at hu
      · obtain ⟨u', hu', hlt⟩ := hpre' r hr_in u hv
        obtain ⟨u2, hu2, hle⟩ := hpost r' hr'_in u' hu'
        rw [hv] at hu2
        cases hu2
        exact absurd hlt (not_lt.2 hle)
  · rcases m with _ | ⟨x, m⟩
    · simp at hm2
      exact hm2.1.symm
    · simp at hm2
      obtain ⟨hx, hpost_eq⟩ := hm2
      subst hx
      have hr'_in : r' ∈ pre := by simp [hm1]
      have hr_in : r ∈ post' := by simp [hpost_eq]
      exfalso
      rcases hv' : r'.v with _ | u'
      · have := hnone' hv'
        rcases hv : r.v with _ | u
        · have := hnone hv
          simp [this] at hr'_in
        · obtain ⟨u, hu, -⟩ := hpost' r hr_in u hv
          simp [hv'] at hu
      · obtain ⟨u, hu, hlt⟩ := hpre r' hr'_in u' hv'
        obtain ⟨u2, hu2, hle⟩ := hpost' r hr_in u hu
        rw [hv'] at hu2
        cases hu2
        exact absurd hlt (not_lt.2 hle)

end generic

section instances
variable {α : Type} [LinearOrder α]

theorem keyOrder_gt : KeyOrder (id : α → α) gtB := fun _ _ => rfl

theorem keyOrder_lt : KeyOrder (OrderDual.toDual : α → αᵒᵈ) ltB := fun _ _ => rfl

end instances

section absinst
variable {α : Type} [Ring α] [LinearOrder α] [IsStrictOrderedRing α]

theorem absv_eq_abs (a : α) : absv a = |a| := by
  unfold absv
  split_ifs with h
  · exact (abs_of_neg h).symm
  · exact (abs_of_nonneg (not_lt.1 h)).symm

theorem keyOrder_absGt : KeyOrder (fun a : α => |a|) absGtB := by
  intro a b
  simp [absGtB, absv_eq_abs]

theorem keyOrder_absLt : KeyOrder (fun a : α => OrderDual.toDual |a|) absLtB := by
  intro a b
  simp [absLtB, absv_eq_abs]

end absinst

section runs
variable {α X L : Type} [LT α] [DecidableLT α]

theorem run2_foldl (h l : Tr α X L) (ms : List (Tr α X L × Tr α X L)) :
    ms.foldl (fun s m => some (upd2 s m)) (some ⟨h, l⟩)
      = some ⟨runTr gtB h (ms.map (·.1)), runTr ltB l (ms.map (·.2))⟩ := by
  induction ms generalizing h l with
  | nil => rfl
  | cons m ms ih =>
    rw [List.foldl_cons]
    show List.foldl _ (some (Cur.mk (h.upd gtB m.1) (l.upd ltB m.2))) ms = _
    rw [ih]
    rfl

theorem run2_cons (m : Tr α X L × Tr α X L) (ms : List (Tr α X L × Tr α X L)) :
    run2 (m :: ms) = some ⟨runTr gtB m.1 (ms.map (·.1)), runTr ltB m.2 (ms.map (·.2))⟩ := by
  rw [run2, List.foldl_cons]
  exact run2_foldl _ _ _

variable [Neg α] [OfNat α 0]

theorem run1_foldl (h l : Tr α X L) (ms : List (Tr α X L)) :
    ms.foldl (fun s m => some (upd1 s m)) (some ⟨h, l⟩)
      = some ⟨runTr absGtB h ms, runTr absLtB l ms⟩ := by
  induction ms generalizing h l with
  | nil => rfl
  | cons m ms ih =>
    rw [List.foldl_cons]
    show List.foldl _ (some (Cur.mk (h.upd absGtB m) (l.upd absLtB m))) ms = _
    rw [ih]
    rfl

theorem run1_cons (m : Tr α X L) (ms : List (Tr α X L)) :
    run1 (m :: ms) = some ⟨runTr absGtB m ms, runTr absLtB m ms⟩ := by
  rw [run1, List.foldl_cons]
  exact run1_foldl _ _ _

end runs

section env
variable {α : Type} [LinearOrder α]

theorem fmaxO_self (a : Option α) : fmaxO a a = a := by
  cases a <;> simp [fmaxO]

theorem isNanMax_step (vs : List (Option α)) (m d : Option α) (h : IsNanMax vs m) :
    IsNanMax (vs ++ [d]) (fmaxO m d) := by
  obtain ⟨hm, hall⟩ := h
  rcases m with _ | a <;> rcases d with _ | b
  · exact ⟨by simp [fmaxO, hm], fun w hw => by
      rcases List.mem_append.1 hw with hw | hw
      · exact hall w hw
      · simp at hw⟩
  · refine ⟨by simp [fmaxO], fun w hw => ?_⟩
    rcases List.mem_append.1 hw with hw | hw
    · obtain ⟨u, hu, -⟩ := hall w hw
      simp at hu
    · have : w = b := by simpa using hw
      exact ⟨b, by simp [fmaxO], le_of_eq this⟩
  · refine ⟨by simp [fmaxO, hm], fun w hw => ?_⟩
    rcases List.mem_append.1 hw with hw | hw
    · simpa [fmaxO] using hall w hw
    · simp at hw
  · by_cases hab : a < b
    · refine ⟨by simp [fmaxO, hab], fun w hw => ?_⟩
      rcases List.mem_append.1 hw with hw | hw
      · obtain ⟨u, hu, hle⟩ := hall w hw
        cases hu
        exact ⟨b, by simp [fmaxO, hab], le_trans hle (le_of_lt hab)⟩
      · have : w = b := by simpa using hw
        exact ⟨b, by simp [fmaxO, hab], le_of_eq this⟩
    · refine ⟨by simp [fmaxO, hab, hm], fun w hw => ?_⟩
      rcases List.mem_append.1 hw with hw | hw
      · obtain ⟨u, hu, hle⟩ := hall w hw
        cases hu
        exact ⟨a, by simp [fmaxO, hab], hle⟩
      · have : w = b := by simpa using hw
        exact ⟨a, by simp [fmaxO, hab], by rw [this]; exact not_lt.1 hab⟩

theorem srsEnv_isNanMax (f : Option α) (r : List (Option α)) : IsNanMax (f :: r) (srsEnv f r) := by
  induction r using List.reverseRecOn with
  | nil =>
    refine ⟨by simp [srsEnv], fun w hw => ?_⟩
    have : f = some w := by simpa [eq_comm] using hw
    exact ⟨w, by simp [srsEnv, this], le_refl _⟩
  | append_singleton r d ih =>
    have := isNanMax_step (f :: r) _ d ih
    simpa [srsEnv, List.foldl_append] using this

theorem isNanMax_unique {vs : List (Option α)} {m m' : Option α} (h : IsNanMax vs m)
    (h' : IsNanMax vs m') : m = m' := by
  obtain ⟨hm, hall⟩ := h
  obtain ⟨hm', hall'⟩ := h'
  rcases m with _ | a <;> rcases m' with _ | b
  · rfl
  · obtain ⟨u, hu, -⟩ := hall b hm'
    simp at hu
  · obtain ⟨u, hu, -⟩ := hall' a hm
    simp at hu
  · obtain ⟨u, hu, h1⟩ := hall b hm'
    obtain ⟨u', hu', h2⟩ := hall' a hm
    cases hu
    cases hu'
    rw [le_antisymm h1 h2]

end env

section rec
variable {β : Type}

theorem foldl_set_length (arr : List β) (ws : List (Nat × β)) :
    (ws.foldl (fun arr w => arr.set w.1 w.2) arr).length = arr.length := by
  induction ws generalizing arr with
  | nil => rfl
  | cons w ws ih => simp [ih]

theorem foldl_set_get_of_notMem (arr : List β) (ws : List (Nat × β)) (j : Nat)
    (hj : j ∉ ws.map (·.1)) :
    (ws.foldl (fun arr w => arr.set w.1 w.2) arr)[j]? = arr[j]? := by
  induction ws generalizing arr with
  | nil => rfl
  | cons w ws ih =>
    simp only [List.map_cons, List.mem_cons, not_or] at hj
    simp only [List.foldl_cons]
    rw [ih _ hj.2, List.getElem?_set_ne (Ne.symm hj.1)]

theorem foldl_set_get (arr : List β) (ws : List (Nat × β)) (hnd : (ws.map (·.1)).Nodup)
    (j : Nat) (v : β) (hmem : (j, v) ∈ ws) (hj : j < arr.length) :
    (ws.foldl (fun arr w => arr.set w.1 w.2) arr)[j]? = some v := by
  induction ws generalizing arr with
  | nil => simp at hmem
  | cons w ws ih =>
    simp only [List.map_cons, List.nodup_cons] at hnd
    simp only [List.foldl_cons]
    rcases List.mem_cons.1 hmem with h | h
    · subst h
      rw [foldl_set_get_of_notMem _ _ _ hnd.1]
      simp [hj]
    · exact ih _ hnd.2 h (by simpa using hj)

end rec

section pipe
variable {α X L : Type}

/-- the per-case `mm` relabelled with the case name (what `extrema(res, mm, case)` receives) -/
def relab (l : L) (t : Tr α X Nat) : Tr α X L := ⟨t.v, t.x, l⟩

theorem relab_upd (better : α → α → Bool) (l : L) (a c : Tr α X Nat) :
    relab l (a.upd better c) = (relab l a).upd better (relab l c) := by
  unfold Tr.upd relab
  split_ifs <;> rfl

theorem relab_runTr (better : α → α → Bool) (l : L) (t : Tr α X Nat) (ts : List (Tr α X Nat)) :
    relab l (runTr better t ts) = runTr better (relab l t) (ts.map (relab l)) := by
  induction ts generalizing t with
  | nil => rfl
  | cons c ts ih =>
    simp only [runTr, List.foldl_cons, List.map_cons] at ih ⊢
    rw [ih, relab_upd]

theorem zipIdx_map_fst {β γ : Type} (g : β → γ) (l : List β) (n : Nat) :
    (l.zipIdx n).map (fun p => g p.1) = l.map g := by
  induction l generalizing n with
  | nil => rfl
  | cons a l ih => simp [List.zipIdx_cons, ih]

variable [LT α] [DecidableLT α]

theorem maxminRow_samples (l : L) (resp : List (Option α)) (x : List X)
    (mm : Tr α X Nat × Tr α X Nat) (h : maxminRow resp x = some mm) :
    ∃ t ts, samples (l, resp, x) = t :: ts ∧ relab l mm.1 = runTr gtB t ts ∧
      relab l mm.2 = runTr ltB t ts := by
  unfold maxminRow at h
  split_ifs at h with hlen
  have hs : samples (l, resp, x)
      = ((resp.zip x).zipIdx.map (fun p => (⟨p.1.1, p.1.2, p.2⟩ : Tr α X Nat))).map (relab l) := by
    simp only [samples, List.map_map, Function.comp_def, relab]
    exact (zipIdx_map_fst (fun p : Option α × X => (⟨p.1, p.2, l⟩ : Tr α X L)) _ 0).symm
  revert h
  generalize ((resp.zip x).zipIdx.map (fun p => (⟨p.1.1, p.1.2, p.2⟩ : Tr α X Nat))) = trs at hs
  intro h
  rcases trs with _ | ⟨t, ts⟩
  · simp at h
  · simp only at h
    split_ifs at h
    cases h
    exact ⟨relab l t, ts.map (relab l), by simpa using hs, relab_runTr _ _ _ _, relab_runTr _ _ _ _⟩

end pipe
section pipe2
variable {α X L : Type} [LinearOrder α]

/-- state of the time pipeline after the cases seen so far, in terms of ALL their samples -/
def PipeInv (cases : List (L × List (Option α) × List X)) (cur : Option (Cur α X L)) : Prop :=
  (cases = [] ∧ cur = none) ∨
  ∃ r t ts, cur = some r ∧ cases.flatMap samples = t :: ts ∧
    r.hi = runTr gtB t ts ∧ r.lo = runTr ltB t ts

theorem timeRow_snoc (cases : List (L × List (Option α) × List X)) (c : L × List (Option α) × List X)
    (cur' : Option (Cur α X L)) (per' : List (Tr α X Nat × Tr α X Nat))
    (h : timeRow (cases ++ [c]) = some (cur', per')) :
    ∃ cur per mm, timeRow cases = some (cur, per) ∧ maxminRow c.2.1 c.2.2 = some mm ∧
      cur' = some (upd2 cur (relab c.1 mm.1, relab c.1 mm.2)) := by
  unfold timeRow at h ⊢
  rw [List.foldl_append] at h
  simp only [List.foldl_cons, List.foldl_nil] at h
  rcases hst : List.foldl _ (some ((none : Option (Cur α X L)), ([] : List (Tr α X Nat × Tr α X Nat)))) cases
    with _ | ⟨cur, per⟩
  · rw [hst] at h
    simp at h
  · rw [hst] at h
    simp only [Option.bind_some] at h
    rcases hmm : maxminRow c.2.1 c.2.2 with _ | mm
    · rw [hmm] at h
      simp at h
    · rw [hmm] at h
      simp only [Option.map_some, Option.some.injEq, Prod.mk.injEq] at h
      exact ⟨cur, per, mm, rfl, rfl, h.1.symm⟩

theorem timeRow_inv (cases : List (L × List (Option α) × List X)) :
    ∀ cur per, timeRow cases = some (cur, per) → PipeInv cases cur := by
  induction cases using List.reverseRecOn with
  | nil =>
    intro cur per h
    left
    simp [timeRow] at h
    exact ⟨rfl, h.1.symm⟩
  | append_singleton cases c ih =>
    intro cur' per' h
    obtain ⟨cur, per, mm, hprev, hmm, hcur⟩ := timeRow_snoc cases c cur' per' h
    obtain ⟨t', ts', hs, hhi, hlo⟩ := maxminRow_samples c.1 c.2.1 c.2.2 mm hmm
    right
    rcases ih cur per hprev with ⟨hnil, hnone⟩ | ⟨r, t, ts, hsome, hflat, rhi, rlo⟩
    · subst hnil
      subst hnone
      refine ⟨_, t', ts', hcur, by simpa using hs, ?_, ?_⟩
      · simpa [upd2] using hhi
      · simpa [upd2] using hlo
    · subst hsome
      refine ⟨_, t, ts ++ t' :: ts', hcur, by simp [hflat, hs], ?_, ?_⟩
      · simp only [upd2, runTr, List.foldl_append, List.foldl_cons]
        rw [foldl_upd_shift keyOrder_gt, rhi, hhi]
        rfl
      · simp only [upd2, runTr, List.foldl_append, List.foldl_cons]
        rw [foldl_upd_shift keyOrder_lt, rlo, hlo]
        rfl

end pipe2

end PyYetiVerif.Extrema
