import PyYetiVerif.Lemmas.NasCardsMultiPlace
import PyYetiVerif.Lemmas.NasCardsForeign
/-! C12: files made of comment lines and written cards, as segments for `place`. -/
set_option linter.unusedSimpArgs false
set_option linter.unusedVariables false
namespace PyYetiVerif.NasCards
open PyYetiVerif.PyFloat PyYetiVerif.NasFloat

/-- a part of an assembled file: the comment line `"$" ++ body ++ "\n"`, or the text of a card
written under the name `nm` -/
inductive FilePart where
  | comment (body : Str)
  | card (nm text : Str)

def FilePart.text : FilePart → Str
  | .comment body => ('$' :: body) ++ ['\n']
  | .card _ text => text

def FilePart.OK : FilePart → Prop
  | .comment body => ∀ c ∈ body, c ≠ '\n'
  | .card nm text => WrittenCard nm text

/-- the part as `_next_line(keep_comments=True)` hands it on -/
def FilePart.seg (m : Str → Bool) : FilePart → Seg
  | .comment body => .cmt (('$' :: body) ++ ['\n'])
  | .card _ text => .blk (prepLines false m (fileLines text))

def fileOf (parts : List FilePart) : Str := (parts.map FilePart.text).flatten

theorem fileLines_comment (body : Str) (h : ∀ c ∈ body, c ≠ '\n') :
    fileLines (('$' :: body) ++ ['\n']) = [('$' :: body) ++ ['\n']] := by
  have := fileLines_lines ('$' :: body) [] (by
    intro c hc
    rcases List.mem_cons.1 hc with rfl | h'
    · decide
    · exact h c h') (by simp)
  simpa using this

/-- no line of a written card is a comment line -/
theorem written_no_comment (nm text : Str) (hw : WrittenCard nm text) :
    ∀ l ∈ fileLines text, isCommentLine l = false := by
  obtain ⟨rest, htext, hgood⟩ := written_core nm text hw
  intro l hl
  obtain ⟨hne, _⟩ := fileLines_mem text l hl
  rw [htext] at hl
  rcases written_lines _ l hgood hl with ⟨b, hb⟩ | ⟨c, r, rfl, hc⟩
  · obtain ⟨⟨c0, t, hn, hlet⟩, _, _⟩ := hw.1
    obtain ⟨x, xs, rfl⟩ := List.exists_cons_of_ne_nil hne
    rw [hn] at hb
    simp only [ljust, List.cons_append, List.cons.injEq] at hb
    have hx : x = c0 := hb.1.symm
    subst hx
    simp only [isCommentLine, List.head?_cons]
    have : x ≠ '$' := by rintro rfl; exact absurd hlet (by decide)
    simpa using this
  · rcases hc with rfl | rfl <;> simp [isCommentLine]

theorem prepLines_written (m : Str → Bool) (nm text : Str) (hw : WrittenCard nm text) :
    prepLines true m (fileLines text) = prepLines false m (fileLines text) := by
  unfold prepLines
  apply List.map_congr_left
  intro l hl
  simp [prepLine, written_no_comment nm text hw l hl]

theorem part_endsNl (p : FilePart) (h : p.OK) : EndsNl p.text := by
  cases p with
  | comment body => exact Or.inr ⟨_, rfl⟩
  | card nm text => exact Or.inr (written_block nm text h).1.1

/-- the lines of an assembled file, classified with `keep_comments=True`, are the segments -/
theorem prepLines_parts (m : Str → Bool) (parts : List FilePart) (h : ∀ p ∈ parts, p.OK) :
    prepLines true m (fileLines (fileOf parts)) = segLines (parts.map (FilePart.seg m)) := by
  unfold fileOf
  rw [fileLines_texts _ (by
    intro t ht
    obtain ⟨p, hp, rfl⟩ := List.mem_map.1 ht
    exact part_endsNl p (h p hp))]
  simp only [prepLines, segLines, List.map_flatten, List.map_map]
  congr 1
  apply List.map_congr_left
  intro p hp
  cases p with
  | comment body =>
    simp only [Function.comp, FilePart.text, FilePart.seg, Seg.lines, fileLines_comment body (h _ hp)]
    simp [prepLine, isCommentLine]
  | card nm text =>
    simp only [Function.comp, FilePart.text, FilePart.seg, Seg.lines]
    exact prepLines_written m nm text (h _ hp)

theorem segsOK_parts (m : Str → Bool) (parts : List FilePart) (h : ∀ p ∈ parts, p.OK) :
    SegsOK (parts.map (FilePart.seg m)) := by
  intro s hs A hA
  obtain ⟨p, hp, rfl⟩ := List.mem_map.1 hs
  cases p with
  | comment body => simp [FilePart.seg] at hA
  | card nm text =>
    simp only [FilePart.seg, Seg.blk.injEq] at hA
    subst hA
    exact ⟨prepLines_noCmt m _, prepLines_block_head m text (written_block nm text (h _ hp)).1⟩

/-- a block without comment lines gives cards only -/
theorem noComments_rdItemsGo (cv : Str → NasVal) (bl : NasVal) (keep : Bool) :
    ∀ (f : Nat) (ls : List TLine), NoCmt ls →
      noComments (rdItemsGo cv bl keep f [] ls) = rdItemsGo cv bl keep f [] ls
  | 0, ls, _ => by simp [rdItemsGo, noComments]
  | f + 1, [], _ => by simp [rdItemsGo, noComments]
  | f + 1, t :: rest, h => by
    have htc : t.cmt = false := h t List.mem_cons_self
    have hrest : NoCmt rest := fun t' ht' => h t' (List.mem_cons_of_mem _ ht')
    rw [rdItemsGo]
    simp only [htc, Bool.false_eq_true, if_false, List.map_nil, List.nil_append]
    cases hm : t.mat with
    | true =>
      simp only [if_true]
      rw [dropVisible_noCmt _ rest hrest]
      have ih := noComments_rdItemsGo cv bl keep f (rest.drop (rdOneG cv bl keep t.txt (visible rest)).2)
        (fun t' ht' => hrest t' (List.mem_of_mem_drop ht'))
      simp only [noComments, List.filter_cons] at ih ⊢
      rw [ih]
      simp
    | false =>
      simp only [Bool.false_eq_true, if_false]
      exact noComments_rdItemsGo cv bl keep f rest hrest

/-- lines that are neither comments nor matched give nothing -/
theorem rdItemsGo_noMatch (cv : Str → NasVal) (bl : NasVal) (keep : Bool) :
    ∀ (f : Nat) (ls : List TLine) (pend : List Str), (∀ t ∈ ls, t.cmt = false ∧ t.mat = false) →
      rdItemsGo cv bl keep f pend ls = pend.map .comment
  | 0, ls, pend, _ => by simp [rdItemsGo]
  | f + 1, [], pend, _ => by simp [rdItemsGo]
  | f + 1, t :: rest, pend, h => by
    obtain ⟨h1, h2⟩ := h t List.mem_cons_self
    rw [rdItemsGo]
    simp only [h1, h2, Bool.false_eq_true, if_false]
    exact rdItemsGo_noMatch cv bl keep f rest pend (fun t' ht' => h t' (List.mem_cons_of_mem _ ht'))

end PyYetiVerif.NasCards
