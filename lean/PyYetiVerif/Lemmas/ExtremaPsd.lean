import PyYetiVerif.Spec.ExtremaPsd
import PyYetiVerif.Lemmas.ExtremaPipe
import Mathlib.Algebra.Field.Basic
import Mathlib.Algebra.BigOperators.Group.List.Basic
import Mathlib.Tactic.Ring
import Mathlib.Tactic.FieldSimp
/-! Helper lemmas for C16 (PSD recovery). -/
namespace PyYetiVerif.ExtremaPsd
open PyYetiVerif.Extrema

section acc
variable {α : Type} [CommRing α]

/-- the contribution of one force at one (row, frequency) -/
def term (p : α × α × α) : α := p.1 * mag2 p.2.1 p.2.2

theorem psdAcc_foldl (fs : List (α × α × α)) (a : α) :
    fs.foldl (fun acc p => acc + p.1 * mag2 p.2.1 p.2.2) a = a + (fs.map term).sum := by
  induction fs generalizing a with
  | nil => simp
  | cons p fs ih =>
    simp only [List.foldl_cons, List.map_cons, List.sum_cons]
    rw [ih, term]
    ring

theorem psdAcc_eq_sum (fs : List (α × α × α)) : psdAcc fs = (fs.map term).sum := by
  rw [psdAcc, psdAcc_foldl, zero_add]

theorem psdRowAcc_foldl {nf : Nat} (forces : List ((Fin nf → α) × (Fin nf → α × α)))
    (g : Fin nf → α) :
    (forces.map fun p => (List.ofFn p.1, List.ofFn p.2)).foldl (fun acc p =>
      List.zipWith (· + ·) acc (List.zipWith (fun F h => F * mag2 h.1 h.2) p.1 p.2)) (List.ofFn g)
      = List.ofFn fun k => g k + ((forces.map fun p => (p.1 k, (p.2 k).1, (p.2 k).2)).map term).sum := by
  induction forces generalizing g with
  | nil => simp
  | cons p forces ih =>
    simp only [List.map_cons, List.foldl_cons, List.sum_cons]
    have : List.zipWith (· + ·) (List.ofFn g)
        (List.zipWith (fun F h => F * mag2 h.1 h.2) (List.ofFn p.1) (List.ofFn p.2))
        = List.ofFn fun k => g k + p.1 k * mag2 (p.2 k).1 (p.2 k).2 := by
      apply List.ext_getElem <;> simp
    rw [this, ih]
    congr 1
    funext k
    simp only [term]
    ring

end acc

section rms
variable {α : Type} [Field α]

theorem area2_cons2 (f0 f1 : α) (fs : List α) (p0 p1 : α) (ps : List α) :
    area2 (f0 :: f1 :: fs) (p0 :: p1 :: ps)
      = (f1 - f0) * (p0 + p1) + area2 (f1 :: fs) (p1 :: ps) := by
  simp [area2, diffs, List.dropLast]

theorem area2_half (f p : List α) : area2 f p / 2 = trapz f p := by
  induction f generalizing p with
  | nil => simp [area2, diffs, trapz]
  | cons f0 fs ih =>
    rcases fs with _ | ⟨f1, fs⟩
    · simp [area2, diffs, trapz]
    · rcases p with _ | ⟨p0, ps⟩
      · simp [area2, trapz]
      · rcases ps with _ | ⟨p1, ps⟩
        · simp [area2, trapz]
        · rw [area2_cons2, trapz, add_div, ih]

theorem trapz_add (f : List α) (p q : List α) (h : p.length = q.length) :
    trapz f (List.zipWith (· + ·) p q) = trapz f p + trapz f q := by
  induction f generalizing p q with
  | nil => simp [trapz]
  | cons f0 fs ih =>
    rcases fs with _ | ⟨f1, fs⟩
    · simp [trapz]
    · rcases p with _ | ⟨p0, ps⟩ <;> rcases q with _ | ⟨q0, qs⟩
      · simp [trapz]
      · simp at h
      · simp at h
      · rcases ps with _ | ⟨p1, ps⟩ <;> rcases qs with _ | ⟨q1, qs⟩
        · simp [trapz]
        · simp at h
        · simp at h
        · simp only [List.zipWith_cons_cons, trapz]
          have := ih (p1 :: ps) (q1 :: qs) (by simpa using h)
          simp only [List.zipWith_cons_cons] at this
          rw [this]
          ring

theorem trapz_smul (c : α) (f p : List α) :
    trapz f (p.map (c * ·)) = c * trapz f p := by
  induction f generalizing p with
  | nil => simp [trapz]
  | cons f0 fs ih =>
    rcases fs with _ | ⟨f1, fs⟩
    · simp [trapz]
    · rcases p with _ | ⟨p0, ps⟩
      · simp [trapz]
      · rcases ps with _ | ⟨p1, ps⟩
        · simp [trapz]
        · simp only [List.map_cons, trapz]
          have := ih (p1 :: ps)
          simp only [List.map_cons] at this
          rw [this]
          ring

end rms

section pipe
variable {α X L : Type} [AddCommGroup α] [LinearOrder α] [IsOrderedAddMonoid α]

omit [IsOrderedAddMonoid α] in
theorem psdRow_foldl (cases : List (L × Option α × X)) (cur : Option (Cur α X L))
    (per : List (Tr α X L × Tr α X L)) :
    cases.foldl (fun st c =>
      let hi : Tr α X L := ⟨c.2.1, c.2.2, c.1⟩
      ((some (upd2 st.1 (hi, negTr hi)) : Option (Cur α X L)), st.2 ++ [(hi, negTr hi)])) (cur, per)
      = ((cases.map fun c => ((⟨c.2.1, c.2.2, c.1⟩ : Tr α X L), negTr (⟨c.2.1, c.2.2, c.1⟩ : Tr α X L))).foldl
          (fun s m => some (upd2 s m)) cur,
        per ++ cases.map fun c => ((⟨c.2.1, c.2.2, c.1⟩ : Tr α X L), negTr (⟨c.2.1, c.2.2, c.1⟩ : Tr α X L))) := by
  induction cases generalizing cur per with
  | nil => simp
  | cons c cs ih =>
    simp only [List.foldl_cons, List.map_cons]
    rw [ih]
    simp

theorem runTr_negTr (t : Tr α X L) (ts : List (Tr α X L)) :
    runTr ltB (negTr t) (ts.map negTr) = negTr (runTr gtB t ts) := by
  induction ts generalizing t with
  | nil => rfl
  | cons c ts ih =>
    simp only [runTr, List.map_cons, List.foldl_cons] at ih ⊢
    rw [negTr_upd, ih]

end pipe

end PyYetiVerif.ExtremaPsd
