import PyYetiVerif.Model.FindapFix
import PyYetiVerif.Lemmas.Findap
/-! Helper lemmas for the repair candidates of `findap` (Model/FindapFix.lean). -/
set_option linter.unusedSectionVars false
set_option linter.unusedVariables false
set_option linter.unreachableTactic false
set_option linter.unusedTactic false
namespace PyYetiVerif.Findap

variable {α : Type} [Field α] [LinearOrder α] [IsStrictOrderedRing α]

theorem hystMask_length (st : α) (r : List α) : ∀ h : α, (hystMask st h r).length = r.length := by
  induction r with
  | nil => intro h; rfl
  | cons x r ih => intro h; unfold hystMask; split <;> simp [ih]

/-- the kept samples: adjacent kept samples differ, every sample is within `st` of a kept one -/
theorem hyst_spec (st : α) (h0 : 0 ≤ st) (r : List α) :
    ∀ h : α, Distinct2 (h :: select (hystMask st h r) r) ∧
      (∀ v ∈ r, ∃ w ∈ h :: select (hystMask st h r) r, |v - w| ≤ st) := by
  induction r with
  | nil => intro h; simp [hystMask, select, Distinct2]
  | cons x r ih =>
      intro h
      unfold hystMask
      by_cases hx : st < absd x h
      · rw [if_pos hx]
        obtain ⟨hd, hc⟩ := ih x
        simp only [select]
        refine ⟨⟨?_, hd⟩, ?_⟩
        · rintro rfl
          rw [absd_eq_abs] at hx
          simp at hx
          linarith
        · intro v hv
          rcases List.mem_cons.mp hv with rfl | hv
          · exact ⟨v, by simp, by simpa using h0⟩
          · obtain ⟨w, hw, hvw⟩ := hc v hv
            exact ⟨w, List.mem_cons_of_mem _ hw, hvw⟩
      · rw [if_neg hx]
        obtain ⟨hd, hc⟩ := ih h
        simp only [select]
        refine ⟨hd, ?_⟩
        intro v hv
        rcases List.mem_cons.mp hv with rfl | hv
        · rw [absd_eq_abs] at hx
          exact ⟨h, by simp, not_lt.mp hx⟩
        · exact hc v hv

/-- on the fast path of the patch the `find_unique` mask IS the hysteresis mask -/
theorem fast_eq_hyst (st : α) (r : List α) :
    ∀ h p : α, noDriftB st h p r = true → noReturnB st h p r = true →
      uniqMask st p r = hystMask st h r := by
  induction r with
  | nil => intro h p _ _; rfl
  | cons x r ih =>
      intro h p hd hr
      unfold noDriftB at hd
      unfold noReturnB at hr
      unfold uniqMask hystMask
      by_cases hx : st < absd x p
      · rw [if_pos hx] at hd hr
        simp only [Bool.and_eq_true, decide_eq_true_eq] at hr
        rw [if_pos hr.1]
        simp only [hx, decide_true]
        rw [ih x x hd hr.2]
      · rw [if_neg hx] at hd hr
        simp only [Bool.and_eq_true, Bool.not_eq_true', decide_eq_false_iff_not] at hd
        rw [if_neg hd.1]
        simp only [hx, decide_false]
        rw [ih h x hd.2 hr]

theorem fixMask_eq (st a : α) (r : List α) : fixMask st a r = hystMask st a r := by
  unfold fixMask
  split
  · rename_i hf
    unfold fastOK at hf
    simp only [Bool.and_eq_true] at hf
    exact fast_eq_hyst st r a a hf.1 hf.2
  · rfl

/-! ### selections as `(index, value)` pairs -/

/-- `l[mask]` for any element type -/
def pick {β : Type} : List Bool → List β → List β
  | true :: m, x :: r => x :: pick m r
  | false :: m, _ :: r => pick m r
  | _, _ => []

theorem selOf_snd (u : List Bool) : ∀ (y : List α) (i : Nat), (selOf u y i).map (·.2) = select u y := by
  induction u with
  | nil => intro y i; cases y <;> simp [selOf, select]
  | cons b u ih =>
      intro y i
      cases y with
      | nil => cases b <;> simp [selOf, select]
      | cons x r => cases b <;> simp [selOf, select, ih]

theorem selOf_expand_idx (u : List Bool) :
    ∀ (pv : List Bool) (y : List α) (i : Nat), u.length = y.length →
      pv.length = (select u y).length →
      selOf (expand u pv) y i = pick pv (selOf u y i) := by
  induction u with
  | nil =>
      intro pv y i hu hp
      cases y with
      | nil => cases pv <;> simp [expand, selOf, pick]
      | cons x r => simp at hu
  | cons b u ih =>
      intro pv y i hu hp
      cases y with
      | nil => simp at hu
      | cons x r =>
          have hu' : u.length = r.length := by simpa using hu
          cases b
          · simp only [expand, selOf, select] at hp ⊢
            exact ih pv r (i + 1) hu' hp
          · cases pv with
            | nil => simp [select] at hp
            | cons p pv' =>
                have hp' : pv'.length = (select u r).length := by simpa [select] using hp
                cases p
                · simp only [expand, selOf, pick]
                  exact ih pv' r (i + 1) hu' hp'
                · simp only [expand, selOf, pick]
                  rw [ih pv' r (i + 1) hu' hp']

/-- direction-change marking of a chain of kept samples, the last one always marked: what the
patched sequential scan does with the samples it accepts -/
def marks : Bool → (Nat × α) → List (Nat × α) → List (Nat × α)
  | _, c, [] => [c]
  | m, c, x :: r =>
      if m then (if x.2 < c.2 then c :: marks false x r else marks true x r)
      else (if c.2 < x.2 then c :: marks true x r else marks false x r)

/-- the patched sequential loop = hysteresis filter fused with `marks` -/
theorem loopSeqFix_eq (st : α) (rest : List α) :
    ∀ (m : Bool) (cur : α) (j i : Nat),
      loopSeqFix st m cur j rest i = marks m (j, cur) (selOf (hystMask st cur rest) rest i) := by
  induction rest with
  | nil => intro m cur j i; simp [loopSeqFix, hystMask, selOf, marks]
  | cons x r ih =>
      intro m cur j i
      unfold loopSeqFix hystMask
      by_cases hx : st < absd x cur
      · rw [if_pos hx, if_pos hx]
        simp only [selOf]
        conv_rhs => unfold marks
        simp only [ih]
      · rw [if_neg hx, if_neg hx]
        simp only [selOf]
        exact ih m cur j (i + 1)

/-- the flags `abs(diff(sign(diff(yu)))) == 2` / `yu[-1] != yu[-2]` select exactly the marked
samples of the chain -/
theorem pick_pvInner (prest : List (Nat × α)) :
    ∀ (a : α) (pb : Nat × α), a ≠ pb.2 → Distinct2 (pb.2 :: prest.map (·.2)) →
      pick (pvInner a pb.2 (prest.map (·.2))) (pb :: prest) = marks (decide (a < pb.2)) pb prest := by
  induction prest with
  | nil =>
      intro a pb hab _
      have : (decide (a < pb.2) || decide (pb.2 < a)) = true := by
        rcases lt_or_gt_of_ne hab with h | h <;> simp [h]
      simp [pvInner, this, pick, marks]
  | cons pc pr ih =>
      intro a pb hab hd
      simp only [List.map_cons] at hd ⊢
      obtain ⟨hbc, hd'⟩ := hd
      have ih' := ih pb.2 pc hbc hd'
      by_cases hf : (sgn pb.2 pc.2 - sgn a pb.2).natAbs = 2
      · have hrev := (flag_iff a pb.2 pc.2 hab hbc).mp hf
        simp only [pvInner, hf, decide_true, pick, ih']
        conv_rhs => unfold marks
        rcases hrev with ⟨h, h'⟩ | ⟨h, h'⟩
        · simp [h, h', not_lt_of_gt h']
        · simp [h', not_lt_of_gt h]
      · have hnr := (not_congr (flag_iff a pb.2 pc.2 hab hbc)).mp hf
        simp only [pvInner, hf, decide_false, pick, ih']
        conv_rhs => unfold marks
        rcases lt_or_gt_of_ne hab with hab' | hab'
        · have hbc' : pb.2 < pc.2 := by
            rcases lt_or_gt_of_ne hbc with h | h
            · exact h
            · exact absurd (Or.inl ⟨hab', h⟩) hnr
          simp [hab', hbc', not_lt_of_gt hbc']
        · have hbc' : pc.2 < pb.2 := by
            rcases lt_or_gt_of_ne hbc with h | h
            · exact absurd (Or.inr ⟨hab', h⟩) hnr
            · exact h
          simp [not_lt_of_gt hab', hbc', not_lt_of_gt hbc']

/-- `pv` of the kept chain `a :: K` selects `a` and the marked samples of `K` -/
theorem pick_pvOf (a : α) (K : List (Nat × α)) (hd : Distinct2 (a :: K.map (·.2))) :
    pick (pvOf (a :: K.map (·.2))) ((0, a) :: K)
      = (0, a) :: (match K with
                   | [] => []
                   | pb :: prest => marks (decide (a < pb.2)) pb prest) := by
  match K, hd with
  | [], _ => simp [pvOf, pick]
  | [pb], _ => simp [pvOf, pick, marks]
  | pb :: pc :: pr, hd =>
      simp only [List.map_cons] at hd ⊢
      obtain ⟨hab, hd'⟩ := hd
      have := pick_pvInner (pc :: pr) a pb hab (by simpa using hd')
      simp only [List.map_cons] at this
      simp only [pvOf, pick, this]

/-- the initial `while` loop finds the first kept sample -/
theorem hystSel_skipInit (st a : α) (r : List α) :
    ∀ i : Nat, selOf (hystMask st a r) r i
      = (match skipInit st a r i with
         | none => []
         | some (cur, j, rest) => (j, cur) :: selOf (hystMask st cur rest) rest (j + 1)) := by
  induction r with
  | nil => intro i; simp [hystMask, selOf, skipInit]
  | cons x r ih =>
      intro i
      by_cases hx : st < absd x a
      · simp only [hystMask, skipInit, hx, ↓reduceIte, selOf]
      · simp only [hystMask, skipInit, hx, ↓reduceIte, selOf]
        exact ih (i + 1)

/-- both patched variants select the same samples -/
theorem fixSt_agree (st : α) (h0 : 0 ≤ st) (y : List α) :
    findapSeqFixSt st y = (findapDefFixSt st y).map (fun m => selOf m y 0) := by
  match y with
  | [] => rfl
  | [a] => simp [findapSeqFixSt, findapDefFixSt, selOf]
  | a :: b :: r' =>
      simp only [findapSeqFixSt, findapDefFixSt, Option.map_some, fixMask_eq]
      have hlen : (true :: hystMask st a (b :: r')).length = (a :: b :: r').length := by
        simp [hystMask_length]
      rw [selOf_expand_idx _ _ _ 0 hlen (pvOf_length _)]
      have hsel : select (true :: hystMask st a (b :: r')) (a :: b :: r')
          = a :: (selOf (hystMask st a (b :: r')) (b :: r') 1).map (·.2) := by
        rw [selOf_snd]; rfl
      have hK : selOf (true :: hystMask st a (b :: r')) (a :: b :: r') 0
          = (0, a) :: selOf (hystMask st a (b :: r')) (b :: r') 1 := rfl
      have hd := (hyst_spec st h0 (b :: r') a).1
      rw [← selOf_snd _ _ 1] at hd
      rw [hsel, hK, pick_pvOf a _ hd, hystSel_skipInit st a (b :: r') 1]
      cases hs : skipInit st a (b :: r') 1 with
      | none => rfl
      | some t =>
          obtain ⟨cur, j, rest⟩ := t
          simp only [loopSeqFix_eq]

/-- what the patched default variant guarantees, for every input and every tolerance -/
theorem defFixSt_spec (st : α) (h0 : 0 ≤ st) (y : List α) (m : List Bool)
    (h : findapDefFixSt st y = some m) :
    m.head? = some true ∧ Alt ((selOf m y 0).map (·.2)) ∧
      ∀ v ∈ y, (∃ s ∈ (selOf m y 0).map (·.2), v ≤ s + st) ∧
        (∃ s ∈ (selOf m y 0).map (·.2), s ≤ v + st) := by
  match y, h with
  | [], h => simp [findapDefFixSt] at h
  | [a], h =>
      simp only [findapDefFixSt, Option.some.injEq] at h; subst h
      refine ⟨rfl, by simp [selOf, Alt, AltFrom], ?_⟩
      intro v hv; simp at hv; subst hv
      exact ⟨⟨v, by simp [selOf], by linarith⟩, ⟨v, by simp [selOf], by linarith⟩⟩
  | a :: b :: r, h =>
      simp only [findapDefFixSt, Option.some.injEq, fixMask_eq] at h; subst h
      have hlen : (true :: hystMask st a (b :: r)).length = (a :: b :: r).length := by
        simp [hystMask_length]
      have hsel : select (true :: hystMask st a (b :: r)) (a :: b :: r)
          = a :: select (hystMask st a (b :: r)) (b :: r) := rfl
      refine ⟨?_, ?_⟩
      · have : ∀ l : List α, l ≠ [] → (pvOf l).head? = some true := by
          intro l hl
          match l, hl with
          | [_], _ => rfl
          | [_, _], _ => rfl
          | _ :: _ :: _ :: _, _ => rfl
        have h1 := this (select (true :: hystMask st a (b :: r)) (a :: b :: r)) (by rw [hsel]; simp)
        generalize pvOf (select (true :: hystMask st a (b :: r)) (a :: b :: r)) = pv at h1
        cases pv with
        | nil => simp at h1
        | cons p pv' =>
            simp only [List.head?_cons, Option.some.injEq] at h1; subst h1; simp [expand]
      · rw [selOf_expand _ _ _ 0 hlen (pvOf_length _)]
        obtain ⟨hdist, hclose⟩ := hyst_spec st h0 (b :: r) a
        rw [hsel]
        obtain ⟨h1, h2, h3⟩ := pvOf_spec _ hdist
        refine ⟨h1, ?_⟩
        intro v hv
        have : ∃ w ∈ a :: select (hystMask st a (b :: r)) (b :: r), |v - w| ≤ st := by
          rcases List.mem_cons.mp hv with rfl | hv
          · exact ⟨v, by simp, by simpa using h0⟩
          · exact hclose v hv
        obtain ⟨w, hw, hvw⟩ := this
        have := abs_le.mp hvw
        obtain ⟨s, hs, hws⟩ := h2 w hw
        obtain ⟨s', hs', hws'⟩ := h3 w hw
        exact ⟨⟨s, hs, by linarith⟩, ⟨s', hs', by linarith⟩⟩

/-- the patch does not change the result wherever the vectorised test passes -/
theorem defFixSt_fast (st : α) (a : α) (r : List α) (hf : fastOK st a r = true) :
    findapDefFixSt st (a :: r) = findapDefSt st (a :: r) := by
  cases r with
  | nil => rfl
  | cons b r' => simp [findapDefFixSt, findapDefSt, fixMask, hf]

end PyYetiVerif.Findap
