import PyYetiVerif.Lemmas.PyFloatStr
import PyYetiVerif.Spec.NasFloatField
/-! C12: `nas_sscanf` on the grammar of emitted real fields (`Spec/NasFloatField`): integer parse
fails on the decimal point, `float()` accepts the exponent-free form, the `d → e` and the
sign-as-exponent rewritings turn `[-]ip.fp[D]±ddd` into `[-]ip.fpe±ddd`, which `float()` reads as
the decimal the field denotes. -/
set_option linter.unusedSimpArgs false
set_option linter.unusedVariables false
namespace PyYetiVerif.NasFloat
open PyYetiVerif.PyFloat

/-- exponent read by `float()` from the tail of the text after the mantissa -/
def exTail (tail : Str) : Option Int :=
  match tail with
  | [] => some 0
  | c :: t =>
    if c == 'e' || c == 'E' then
      let (eneg, d) := splitSign t
      match parseNat? d with
      | some n => some (if eneg then -(n : Int) else n)
      | none => none
    else none

theorem exTail_eq (tail : Str) : exTail tail = (match tail with
        | [] => some 0
        | c :: t =>
          if (c == 'e' || c == 'E') = true then
            match parseNat? (splitSign t).2 with
            | some n => some (if (splitSign t).1 = true then -(n : Int) else (n : Int))
            | none => none
          else none) := by
  cases tail <;> rfl

theorem splitSign_mant (neg : Bool) (r : Str) (h : ∀ c ∈ r.head?, c ≠ '-' ∧ c ≠ '+') :
    splitSign ((if neg then ['-'] else []) ++ r) = (neg, r) := by
  cases neg with
  | true => rfl
  | false =>
    simp only [Bool.false_eq_true, if_false, List.nil_append]
    cases r with
    | nil => rfl
    | cons a t =>
      obtain ⟨h1, h2⟩ := h a (by simp)
      unfold splitSign
      split
      · rename_i r heq; injection heq with hc _; exact absurd hc h1
      · rename_i r heq; injection heq with hc _; exact absurd hc h2
      · rfl

theorem parseDec?_shape (pad : Nat) (neg : Bool) (ip fp tail : Str)
    (hip : ∀ c ∈ ip, isDigit c = true) (hfp : ∀ c ∈ fp, isDigit c = true)
    (htail : ∀ c ∈ tail.head?, isDigit c = false) (hws : ∀ c ∈ tail, isWs c = false) :
    parseDec? (List.replicate pad ' ' ++ ((if neg then ['-'] else []) ++ (ip ++ '.' :: (fp ++ tail)))) =
      if ip == [] && fp == [] then none
      else match exTail tail with
        | none => none
        | some ex => if ex > 5000 || ex < -5000 then none
                     else some (decOf neg (digitsVal (ip ++ fp)) (ex - (fp.length : Int))) := by
  have hcore : ∀ c ∈ ((if neg then ['-'] else []) ++ (ip ++ '.' :: (fp ++ tail))), isWs c = false := by
    intro c hc
    simp only [List.mem_append, List.mem_cons] at hc
    rcases hc with hc | hc | rfl | hc | hc
    · cases neg <;> simp at hc; subst hc; decide
    · exact isDigit_not_ws c (hip c hc)
    · decide
    · exact isDigit_not_ws c (hfp c hc)
    · exact hws c hc
  unfold parseDec?
  rw [stripWs_pad_of_all _ _ hcore]
  have hr : ∀ c ∈ (ip ++ '.' :: (fp ++ tail)).head?, c ≠ '-' ∧ c ≠ '+' := by
    intro c hc
    cases ip with
    | nil => simp at hc; subst hc; decide
    | cons a t =>
      simp at hc; subst hc
      have := hip a List.mem_cons_self
      constructor <;> (rintro rfl; revert this; decide)
  rw [splitSign_mant neg _ hr]
  obtain ⟨h1, h2⟩ := takeWhile_append_stop isDigit ip ('.' :: (fp ++ tail)) hip (by simp; decide)
  obtain ⟨h3, h4⟩ := takeWhile_append_stop isDigit fp tail hfp htail
  simp only [h1, h2, h3, h4]
  by_cases h0 : (ip == [] && fp == []) = true
  · simp only [h0, if_true]
  · simp only [h0]
    cases tail with
    | nil => simp [exTail, decOf]; split_ifs <;> rfl
    | cons c t =>
      simp only [exTail]
      by_cases hc : (c == 'e' || c == 'E') = true
      · simp only [hc, if_true]
        cases hp : parseNat? (splitSign t).2 with
        | none => simp
        | some n =>
          simp only [decOf]
          split_ifs <;> simp_all
      · simp [hc]

theorem all_iff (s : Str) : s.all isDigit = true ↔ ∀ c ∈ s, isDigit c = true := by
  simp [List.all_eq_true]

theorem parseInt?_dot (pad : Nat) (neg : Bool) (ip rest : Str)
    (hip : ∀ c ∈ ip, isDigit c = true) (hws : ∀ c ∈ rest, isWs c = false) :
    parseInt? (List.replicate pad ' ' ++ ((if neg then ['-'] else []) ++ (ip ++ '.' :: rest))) = none := by
  have hcore : ∀ c ∈ ((if neg then ['-'] else []) ++ (ip ++ '.' :: rest)), isWs c = false := by
    intro c hc
    simp only [List.mem_append, List.mem_cons] at hc
    rcases hc with hc | hc | rfl | hc
    · cases neg <;> simp at hc; subst hc; decide
    · exact isDigit_not_ws c (hip c hc)
    · decide
    · exact hws c hc
  have hr : ∀ c ∈ (ip ++ '.' :: rest).head?, c ≠ '-' ∧ c ≠ '+' := by
    intro c hc
    cases ip with
    | nil => simp at hc; subst hc; decide
    | cons a t =>
      simp at hc; subst hc
      have := hip a List.mem_cons_self
      constructor <;> (rintro rfl; revert this; decide)
  unfold parseInt?
  rw [stripWs_pad_of_all _ _ hcore, splitSign_mant neg _ hr]
  have : parseNat? (ip ++ '.' :: rest) = none := by
    unfold parseNat?
    have : (ip ++ '.' :: rest).all isDigit = false := by
      rw [List.all_eq_false]
      exact ⟨'.', by simp, by decide⟩
    simp [this]
  simp only [this]

/-- the exponent `e±ddd` as `float()` reads it -/
theorem exTail_e (eneg : Bool) (ds : Str) (hne : ds ≠ []) (hds : ∀ c ∈ ds, isDigit c = true) :
    exTail ('e' :: (if eneg then '-' else '+') :: ds) =
      some (if eneg then -(digitsVal ds : Int) else (digitsVal ds : Int)) := by
  have hp : parseNat? ds = some (digitsVal ds) := by
    unfold parseNat?
    have : ds.all isDigit = true := (all_iff ds).2 hds
    simp [hne, this]
  cases eneg <;> simp [exTail, splitSign, hp]

theorem exTail_sign (eneg : Bool) (ds : Str) : exTail ((if eneg then '-' else '+') :: ds) = none := by
  cases eneg <;> simp [exTail]

theorem exTail_D (t : Str) : exTail ('D' :: t) = none := by simp [exTail]


theorem wf_parts (f : Fld) (h : f.wf = true) :
    (∀ c ∈ f.ip, isDigit c = true) ∧ (∀ c ∈ f.fp, isDigit c = true) ∧
    ((f.ip == [] && f.fp == []) = false) ∧
    (∀ e, f.ex = some e → e.ds ≠ [] ∧ (∀ c ∈ e.ds, isDigit c = true) ∧ digitsVal e.ds ≤ 5000) := by
  unfold Fld.wf at h
  simp only [Bool.and_eq_true, Bool.not_eq_true'] at h
  obtain ⟨⟨⟨h1, h2⟩, h3⟩, h4⟩ := h
  refine ⟨(all_iff _).1 h1, (all_iff _).1 h2, h3, ?_⟩
  intro e he
  rw [he] at h4
  simp only [FExp.wf, Bool.and_eq_true, bne_iff_ne, ne_eq, decide_eq_true_eq] at h4
  exact ⟨h4.1.1, (all_iff _).1 h4.1.2, h4.2⟩

def sgnStr (neg : Bool) : Str := if neg then ['-'] else []
def sgCh (eneg : Bool) : Char := if eneg then '-' else '+'

theorem sgCh_not_digit (eneg : Bool) : isDigit (sgCh eneg) = false := by cases eneg <;> decide
theorem sgCh_not_ws (eneg : Bool) : isWs (sgCh eneg) = false := by cases eneg <;> decide

/-- the sign-as-exponent rewriting of `nas_sscanf`: `s[1:].replace("+", "e+").replace("-", "e-")`
on `u ±ddd` where `u` has no sign character -/
theorem rewrite_exp (u ds : Str) (eneg : Bool) (hu : ∀ c ∈ u, c ≠ '+' ∧ c ≠ '-')
    (hds : ∀ c ∈ ds, isDigit c = true) :
    replace ['-'] ['e', '-'] (replace ['+'] ['e', '+'] (u ++ sgCh eneg :: ds)) =
      u ++ 'e' :: sgCh eneg :: ds := by
  have hdp : ∀ c ∈ ds, c ≠ '+' := fun c hc => isDigit_ne c '+' (hds c hc) (by decide)
  have hdm : ∀ c ∈ ds, c ≠ '-' := fun c hc => isDigit_ne c '-' (hds c hc) (by decide)
  cases eneg with
  | false =>
    simp only [sgCh, Bool.false_eq_true, if_false]
    rw [replace_single_once '+' _ u ds (fun c hc => (hu c hc).1) hdp]
    rw [replace_single_not_mem]
    · simp
    · intro c hc
      simp only [List.mem_append, List.mem_cons, List.not_mem_nil, or_false] at hc
      rcases hc with (hc | rfl | rfl) | hc
      · exact (hu c hc).2
      · decide
      · decide
      · exact hdm c hc
  | true =>
    simp only [sgCh, if_true]
    rw [replace_single_not_mem '+']
    · rw [replace_single_once '-' _ u ds (fun c hc => (hu c hc).2) hdm]
      simp
    · intro c hc
      simp only [List.mem_append, List.mem_cons] at hc
      rcases hc with hc | rfl | hc
      · exact (hu c hc).1
      · decide
      · exact hdp c hc


theorem nasSscanf_field_none (neg : Bool) (ip fp : Str) (hwf : (Fld.mk neg ip fp none).wf = true)
    (pad : Nat) (k : Bool) :
    nasSscanf (List.replicate pad ' ' ++ (Fld.mk neg ip fp none).text) k =
      .flt (toBits (Fld.mk neg ip fp none).dec.1 (Fld.mk neg ip fp none).dec.2.1
        (Fld.mk neg ip fp none).dec.2.2) := by
  obtain ⟨hip, hfp, hne, -⟩ := wf_parts _ hwf
  simp only at hip hfp hne
  have ht : (Fld.mk neg ip fp none).text = (if neg then ['-'] else []) ++ (ip ++ '.' :: (fp ++ [])) := by
    simp [Fld.text, Fld.mant, Fld.exText]
  rw [ht]
  have hI := parseInt?_dot pad neg ip (fp ++ []) hip
    (by intro c hc; simp at hc; exact isDigit_not_ws c (hfp c hc))
  have hD := parseDec?_shape pad neg ip fp [] hip hfp (by simp) (by simp)
  simp only [hne, exTail] at hD
  unfold nasSscanf parseFloat?
  rw [hI, hD]
  simp [Fld.dec, Fld.expVal]


theorem mant_no_upper (neg : Bool) (ip fp : Str) (hip : ∀ c ∈ ip, isDigit c = true)
    (hfp : ∀ c ∈ fp, isDigit c = true) :
    ∀ c ∈ ((if neg then ['-'] else []) ++ (ip ++ '.' :: fp)),
      ¬ ('A' ≤ c ∧ c ≤ 'Z') ∧ c ≠ 'd' ∧ isWs c = false := by
  intro c hc
  simp only [List.mem_append, List.mem_cons] at hc
  rcases hc with hc | hc | rfl | hc
  · cases neg <;> simp at hc; subst hc; decide
  · exact ⟨isDigit_not_upper c (hip c hc), isDigit_ne c 'd' (hip c hc) (by decide),
      isDigit_not_ws c (hip c hc)⟩
  · decide
  · exact ⟨isDigit_not_upper c (hfp c hc), isDigit_ne c 'd' (hfp c hc) (by decide),
      isDigit_not_ws c (hfp c hc)⟩

theorem digits_props (ds : Str) (hds : ∀ c ∈ ds, isDigit c = true) :
    ∀ c ∈ ds, ¬ ('A' ≤ c ∧ c ≤ 'Z') ∧ c ≠ 'd' ∧ isWs c = false ∧ c ≠ '+' ∧ c ≠ '-' :=
  fun c hc => ⟨isDigit_not_upper c (hds c hc), isDigit_ne c 'd' (hds c hc) (by decide),
    isDigit_not_ws c (hds c hc), isDigit_ne c '+' (hds c hc) (by decide),
    isDigit_ne c '-' (hds c hc) (by decide)⟩

/-- final parse of the rewritten text `[-]ip.fp e±ddd` -/
theorem parse_rewritten (neg : Bool) (ip fp ds : Str) (eneg : Bool)
    (hip : ∀ c ∈ ip, isDigit c = true) (hfp : ∀ c ∈ fp, isDigit c = true)
    (hne : (ip == [] && fp == []) = false) (hdn : ds ≠ [])
    (hds : ∀ c ∈ ds, isDigit c = true) (h5 : digitsVal ds ≤ 5000) :
    parseDec? ((if neg then ['-'] else []) ++ (ip ++ '.' :: (fp ++ 'e' :: sgCh eneg :: ds))) =
      some (decOf neg (digitsVal (ip ++ fp))
        ((if eneg then -(digitsVal ds : Int) else (digitsVal ds : Int)) - (fp.length : Int))) := by
  have hD := parseDec?_shape 0 neg ip fp ('e' :: sgCh eneg :: ds) hip hfp (by simp; decide)
    (by
      intro c hc
      simp only [List.mem_cons] at hc
      rcases hc with rfl | rfl | hc
      · decide
      · exact sgCh_not_ws eneg
      · exact isDigit_not_ws c (hds c hc))
  simp only [List.replicate_zero, List.nil_append, hne] at hD
  rw [hD]
  have := exTail_e eneg ds hdn hds
  simp only [sgCh] at this ⊢
  rw [this]
  have hb : ¬ ((if eneg then -(digitsVal ds : Int) else (digitsVal ds : Int)) > 5000 ∨
      (if eneg then -(digitsVal ds : Int) else (digitsVal ds : Int)) < -5000) := by
    cases eneg <;> simp <;> omega
  simp only [Bool.false_eq_true, if_false]
  simp only [Bool.or_eq_true, decide_eq_true_eq, hb, if_false]


theorem nasSscanf_field_exp (neg : Bool) (ip fp : Str) (eneg : Bool) (ds : Str)
    (hwf : (Fld.mk neg ip fp (some ⟨false, eneg, ds⟩)).wf = true) (pad : Nat) (k : Bool) :
    nasSscanf (List.replicate pad ' ' ++ (Fld.mk neg ip fp (some ⟨false, eneg, ds⟩)).text) k =
      .flt (toBits (Fld.mk neg ip fp (some ⟨false, eneg, ds⟩)).dec.1
        (Fld.mk neg ip fp (some ⟨false, eneg, ds⟩)).dec.2.1
        (Fld.mk neg ip fp (some ⟨false, eneg, ds⟩)).dec.2.2) := by
  obtain ⟨hip, hfp, hne, hex⟩ := wf_parts _ hwf
  obtain ⟨hdn, hds, h5⟩ := hex _ rfl
  simp only at hip hfp hne hdn hds h5
  have ht : (Fld.mk neg ip fp (some ⟨false, eneg, ds⟩)).text =
      (if neg then ['-'] else []) ++ (ip ++ '.' :: (fp ++ sgCh eneg :: ds)) := by
    simp [Fld.text, Fld.mant, Fld.exText, FExp.text, sgCh]
  rw [ht]
  have htailws : ∀ c ∈ (sgCh eneg :: ds), isWs c = false := by
    intro c hc
    rcases List.mem_cons.1 hc with rfl | hc
    · exact sgCh_not_ws eneg
    · exact isDigit_not_ws c (hds c hc)
  have hrestws : ∀ c ∈ fp ++ sgCh eneg :: ds, isWs c = false := by
    intro c hc
    rcases List.mem_append.1 hc with hc | hc
    · exact isDigit_not_ws c (hfp c hc)
    · exact htailws c hc
  have hI := parseInt?_dot pad neg ip (fp ++ sgCh eneg :: ds) hip hrestws
  have hD := parseDec?_shape pad neg ip fp (sgCh eneg :: ds) hip hfp
    (by simp; exact sgCh_not_digit eneg) htailws
  have hD0 := parseDec?_shape 0 neg ip fp (sgCh eneg :: ds) hip hfp
    (by simp; exact sgCh_not_digit eneg) htailws
  have hes : exTail (sgCh eneg :: ds) = none := exTail_sign eneg ds
  simp only [hne, hes, List.replicate_zero, List.nil_append, Bool.false_eq_true, if_false] at hD hD0
  -- the stripped text
  have hcore : ∀ c ∈ ((if neg then ['-'] else []) ++ (ip ++ '.' :: (fp ++ sgCh eneg :: ds))),
      isWs c = false ∧ ¬ ('A' ≤ c ∧ c ≤ 'Z') ∧ c ≠ 'd' := by
    intro c hc
    have e : (if neg then ['-'] else []) ++ (ip ++ '.' :: (fp ++ sgCh eneg :: ds)) =
        ((if neg then ['-'] else []) ++ (ip ++ '.' :: fp)) ++ sgCh eneg :: ds := by simp
    rw [e] at hc
    rcases List.mem_append.1 hc with hc | hc
    · have := mant_no_upper neg ip fp hip hfp c hc
      exact ⟨this.2.2, this.1, this.2.1⟩
    · rcases List.mem_cons.1 hc with rfl | hc
      · cases eneg <;> decide
      · have := digits_props ds hds c hc
        exact ⟨this.2.2.1, this.1, this.2.1⟩
  have hS := stripWs_pad_of_all pad _ (fun c hc => (hcore c hc).1)
  have hlow := lower_of_no_upper _ (fun c hc => (hcore c hc).2.1)
  have hrep := replace_single_not_mem 'd' ['e'] _ (fun c hc => (hcore c hc).2.2)
  have hemp : ((if neg then ['-'] else []) ++ (ip ++ '.' :: (fp ++ sgCh eneg :: ds))).isEmpty = false := by
    cases neg <;> cases ip <;> simp
  -- the rewriting
  have hs2 : ((if neg then ['-'] else []) ++ (ip ++ '.' :: (fp ++ sgCh eneg :: ds))).take 1 ++
      replace ['-'] ['e', '-'] (replace ['+'] ['e', '+']
        (((if neg then ['-'] else []) ++ (ip ++ '.' :: (fp ++ sgCh eneg :: ds))).drop 1)) =
      (if neg then ['-'] else []) ++ (ip ++ '.' :: (fp ++ 'e' :: sgCh eneg :: ds)) := by
    have hipn : ∀ c ∈ ip, c ≠ '+' ∧ c ≠ '-' := fun c hc =>
      ⟨isDigit_ne c '+' (hip c hc) (by decide), isDigit_ne c '-' (hip c hc) (by decide)⟩
    have hfpn : ∀ c ∈ fp, c ≠ '+' ∧ c ≠ '-' := fun c hc =>
      ⟨isDigit_ne c '+' (hfp c hc) (by decide), isDigit_ne c '-' (hfp c hc) (by decide)⟩
    have hmid : ∀ (w : Str), (∀ c ∈ w, c ≠ '+' ∧ c ≠ '-') → ∀ c ∈ w ++ '.' :: fp, c ≠ '+' ∧ c ≠ '-' := by
      intro w hw c hc
      simp only [List.mem_append, List.mem_cons] at hc
      rcases hc with hc | rfl | hc
      · exact hw c hc
      · decide
      · exact hfpn c hc
    cases neg with
    | true =>
      simp only [if_true, List.singleton_append, List.take_succ_cons, List.take_zero,
        List.drop_succ_cons, List.drop_zero]
      have e : ip ++ '.' :: (fp ++ sgCh eneg :: ds) = (ip ++ '.' :: fp) ++ sgCh eneg :: ds := by simp
      rw [e, rewrite_exp _ ds eneg (hmid ip hipn) hds]
      simp
    | false =>
      simp only [Bool.false_eq_true, if_false, List.nil_append]
      cases ip with
      | nil =>
        simp only [List.nil_append, List.take_succ_cons, List.take_zero, List.drop_succ_cons,
          List.drop_zero]
        rw [rewrite_exp fp ds eneg hfpn hds]
        simp
      | cons a ip' =>
        simp only [List.cons_append, List.take_succ_cons, List.take_zero, List.drop_succ_cons,
          List.drop_zero]
        have e : ip' ++ '.' :: (fp ++ sgCh eneg :: ds) = (ip' ++ '.' :: fp) ++ sgCh eneg :: ds := by simp
        rw [e, rewrite_exp _ ds eneg
          (hmid ip' (fun c hc => hipn c (List.mem_cons_of_mem _ hc))) hds]
        simp
  have hfin := parse_rewritten neg ip fp ds eneg hip hfp hne hdn hds h5
  unfold nasSscanf parseFloat?
  simp only [hI, hD, hS, hemp, hlow, hrep, hD0, hs2, hfin, Bool.false_eq_true, if_false]
  simp [Fld.dec, Fld.expVal, FExp.val]


theorem nasSscanf_field_dexp (neg : Bool) (ip fp : Str) (eneg : Bool) (ds : Str)
    (hwf : (Fld.mk neg ip fp (some ⟨true, eneg, ds⟩)).wf = true) (pad : Nat) (k : Bool) :
    nasSscanf (List.replicate pad ' ' ++ (Fld.mk neg ip fp (some ⟨true, eneg, ds⟩)).text) k =
      .flt (toBits (Fld.mk neg ip fp (some ⟨true, eneg, ds⟩)).dec.1
        (Fld.mk neg ip fp (some ⟨true, eneg, ds⟩)).dec.2.1
        (Fld.mk neg ip fp (some ⟨true, eneg, ds⟩)).dec.2.2) := by
  obtain ⟨hip, hfp, hne, hex⟩ := wf_parts _ hwf
  obtain ⟨hdn, hds, h5⟩ := hex _ rfl
  simp only at hip hfp hne hdn hds h5
  have ht : (Fld.mk neg ip fp (some ⟨true, eneg, ds⟩)).text =
      (if neg then ['-'] else []) ++ (ip ++ '.' :: (fp ++ 'D' :: sgCh eneg :: ds)) := by
    simp [Fld.text, Fld.mant, Fld.exText, FExp.text, sgCh]
  rw [ht]
  have htailws : ∀ c ∈ ('D' :: sgCh eneg :: ds), isWs c = false := by
    intro c hc
    simp only [List.mem_cons] at hc
    rcases hc with rfl | rfl | hc
    · decide
    · exact sgCh_not_ws eneg
    · exact isDigit_not_ws c (hds c hc)
  have hrestws : ∀ c ∈ fp ++ 'D' :: sgCh eneg :: ds, isWs c = false := by
    intro c hc
    rcases List.mem_append.1 hc with hc | hc
    · exact isDigit_not_ws c (hfp c hc)
    · exact htailws c hc
  have hI := parseInt?_dot pad neg ip (fp ++ 'D' :: sgCh eneg :: ds) hip hrestws
  have hD := parseDec?_shape pad neg ip fp ('D' :: sgCh eneg :: ds) hip hfp
    (by simp; decide) htailws
  simp only [hne, exTail_D, Bool.false_eq_true, if_false] at hD
  have hcorews : ∀ c ∈ ((if neg then ['-'] else []) ++ (ip ++ '.' :: (fp ++ 'D' :: sgCh eneg :: ds))),
      isWs c = false := by
    intro c hc
    have e : (if neg then ['-'] else []) ++ (ip ++ '.' :: (fp ++ 'D' :: sgCh eneg :: ds)) =
        ((if neg then ['-'] else []) ++ (ip ++ '.' :: fp)) ++ 'D' :: sgCh eneg :: ds := by simp
    rw [e] at hc
    rcases List.mem_append.1 hc with hc | hc
    · exact (mant_no_upper neg ip fp hip hfp c hc).2.2
    · exact htailws c hc
  have hS := stripWs_pad_of_all pad _ hcorews
  have hemp : ((if neg then ['-'] else []) ++ (ip ++ '.' :: (fp ++ 'D' :: sgCh eneg :: ds))).isEmpty = false := by
    cases neg <;> cases ip <;> simp
  have hlr : replace ['d'] ['e'] (lower ((if neg then ['-'] else []) ++
      (ip ++ '.' :: (fp ++ 'D' :: sgCh eneg :: ds)))) =
      (if neg then ['-'] else []) ++ (ip ++ '.' :: (fp ++ 'e' :: sgCh eneg :: ds)) := by
    have e : (if neg then ['-'] else []) ++ (ip ++ '.' :: (fp ++ 'D' :: sgCh eneg :: ds)) =
        ((if neg then ['-'] else []) ++ (ip ++ '.' :: fp)) ++ ('D' :: (sgCh eneg :: ds)) := by simp
    rw [e, lower_append, lower_of_no_upper _ (fun c hc => (mant_no_upper neg ip fp hip hfp c hc).1)]
    have h2 : lower ('D' :: (sgCh eneg :: ds)) = 'd' :: (sgCh eneg :: ds) := by
      have : lower (sgCh eneg :: ds) = sgCh eneg :: ds := by
        apply lower_of_no_upper
        intro c hc
        rcases List.mem_cons.1 hc with rfl | hc
        · cases eneg <;> decide
        · exact (digits_props ds hds c hc).1
      have e2 : ('D' :: (sgCh eneg :: ds)) = ['D'] ++ (sgCh eneg :: ds) := rfl
      rw [e2, lower_append, this]; rfl
    rw [h2, replace_single_once 'd' ['e'] _ _
      (fun c hc => (mant_no_upper neg ip fp hip hfp c hc).2.1)
      (by
        intro c hc
        rcases List.mem_cons.1 hc with rfl | hc
        · cases eneg <;> decide
        · exact (digits_props ds hds c hc).2.1)]
    simp
  have hfin := parse_rewritten neg ip fp ds eneg hip hfp hne hdn hds h5
  unfold nasSscanf parseFloat?
  simp only [hI, hD, hS, hemp, hlr, hfin, Bool.false_eq_true, if_false]
  simp [Fld.dec, Fld.expVal, FExp.val]

/-- `nas_sscanf` on the grammar of emitted real fields: every well-formed field, with any left
padding, is read as a real — the double nearest to the decimal the field denotes. -/
theorem nasSscanf_field (f : Fld) (hwf : f.wf = true) (pad : Nat) (k : Bool) :
    nasSscanf (List.replicate pad ' ' ++ f.text) k = .flt (toBits f.dec.1 f.dec.2.1 f.dec.2.2) := by
  rcases f with ⟨neg, ip, fp, ex⟩
  cases ex with
  | none => exact nasSscanf_field_none neg ip fp hwf pad k
  | some e =>
    rcases e with ⟨dm, eneg, ds⟩
    cases dm with
    | false => exact nasSscanf_field_exp neg ip fp eneg ds hwf pad k
    | true => exact nasSscanf_field_dexp neg ip fp eneg ds hwf pad k

/-! ### the recogniser -/

theorem takeWhile_eq_replicate (c : Char) (s : Str) :
    s.takeWhile (· == c) = List.replicate (s.takeWhile (· == c)).length c := by
  induction s with
  | nil => rfl
  | cons a t ih =>
    by_cases h : a = c
    · subst h
      simp only [List.takeWhile, beq_self_eq_true, List.length_cons, List.replicate_succ]
      rw [← ih]
    · have : (a == c) = false := by simp [h]
      simp [List.takeWhile, this]

theorem mk_sound (f g : Fld) (h : (if f.wf = true then some f else none) = some g) :
    g = f ∧ f.wf = true := by
  split_ifs at h with hw
  injection h with h
  exact ⟨h.symm, hw⟩

theorem fieldTail?_sound (neg : Bool) (ip fp r2 : Str) (f : Fld) (h : fieldTail? neg ip fp r2 = some f) :
    f.wf = true ∧ f.text = (if neg then ['-'] else []) ++ (ip ++ '.' :: (fp ++ r2)) := by
  unfold fieldTail? at h
  simp only at h
  split at h
  all_goals first
    | (obtain ⟨rfl, hw⟩ := mk_sound _ _ h
       exact ⟨hw, by simp [Fld.text, Fld.mant, Fld.exText, FExp.text]⟩)
    | exact absurd h (by simp)

theorem fieldBody?_sound (neg : Bool) (r : Str) (f : Fld) (h : fieldBody? neg r = some f) :
    f.wf = true ∧ f.text = (if neg then ['-'] else []) ++ r := by
  unfold fieldBody? at h
  split at h
  · rename_i r1 heq
    obtain ⟨h1, h2⟩ := fieldTail?_sound _ _ _ _ _ h
    refine ⟨h1, ?_⟩
    rw [h2, List.takeWhile_append_dropWhile, ← heq, List.takeWhile_append_dropWhile]
  · exact absurd h (by simp)

theorem fieldOf?_sound (s : Str) (f : Fld) (h : fieldOf? s = some f) :
    f.wf = true ∧ ∃ pad, s = List.replicate pad ' ' ++ f.text := by
  unfold fieldOf? at h
  have hs : s = List.replicate (s.takeWhile (· == ' ')).length ' ' ++ s.dropWhile (· == ' ') := by
    rw [← takeWhile_eq_replicate, List.takeWhile_append_dropWhile]
  split at h
  · rename_i r heq
    obtain ⟨h1, h2⟩ := fieldBody?_sound _ _ _ h
    refine ⟨h1, (s.takeWhile (· == ' ')).length, ?_⟩
    rw [h2]; rw [heq] at hs; exact hs
  · obtain ⟨h1, h2⟩ := fieldBody?_sound _ _ _ h
    refine ⟨h1, (s.takeWhile (· == ' ')).length, ?_⟩
    rw [h2]; simpa using hs

/-- the decidable form: a string the recogniser accepts is read by `nas_sscanf` as the real
nearest to the decimal the recognised field denotes. -/
theorem nasSscanf_of_fieldOf? (s : Str) (f : Fld) (h : fieldOf? s = some f) (k : Bool) :
    nasSscanf s k = .flt (toBits f.dec.1 f.dec.2.1 f.dec.2.2) := by
  obtain ⟨hwf, pad, rfl⟩ := fieldOf?_sound s f h
  exact nasSscanf_field f hwf pad k
end PyYetiVerif.NasFloat
