import PyYetiVerif.Lemmas.FdePsd
/-! Helper lemmas for C10: the returned row `psdOut` (= `psdRow` followed by the halving of
`sig2_b` for `pvelo`, repair 4ed3a4d) in terms of `psdRow`. -/
set_option linter.unusedVariables false
namespace PyYetiVerif.Fde

/-- `psdOut` differs from `psdRow` in `var_test` for `pvelo` only -/
theorem psdOut_fields (resp : Resp) (Q f T0 am g2m df4 df8 df12 : ℝ) :
    (psdOut resp Q f T0 am g2m df4 df8 df12).g1 = (psdRow resp Q f T0 am g2m df4 df8 df12).g1 ∧
    (psdOut resp Q f T0 am g2m df4 df8 df12).g2 = (psdRow resp Q f T0 am g2m df4 df8 df12).g2 ∧
    (psdOut resp Q f T0 am g2m df4 df8 df12).g4 = (psdRow resp Q f T0 am g2m df4 df8 df12).g4 ∧
    (psdOut resp Q f T0 am g2m df4 df8 df12).g8 = (psdRow resp Q f T0 am g2m df4 df8 df12).g8 ∧
    (psdOut resp Q f T0 am g2m df4 df8 df12).g12 = (psdRow resp Q f T0 am g2m df4 df8 df12).g12 ∧
    (psdOut resp Q f T0 am g2m df4 df8 df12).dt4 = (psdRow resp Q f T0 am g2m df4 df8 df12).dt4 ∧
    (psdOut resp Q f T0 am g2m df4 df8 df12).dt8 = (psdRow resp Q f T0 am g2m df4 df8 df12).dt8 ∧
    (psdOut resp Q f T0 am g2m df4 df8 df12).dt12 = (psdRow resp Q f T0 am g2m df4 df8 df12).dt12 ∧
    (psdOut resp Q f T0 am g2m df4 df8 df12).dto4 = (psdRow resp Q f T0 am g2m df4 df8 df12).dto4 ∧
    (psdOut resp Q f T0 am g2m df4 df8 df12).dto8 = (psdRow resp Q f T0 am g2m df4 df8 df12).dto8 ∧
    (psdOut resp Q f T0 am g2m df4 df8 df12).dto12 = (psdRow resp Q f T0 am g2m df4 df8 df12).dto12 := by
  cases resp <;> simp [psdOut]

theorem psdOut_v (resp : Resp) (Q f T0 am g2m df4 df8 df12 : ℝ) :
    (psdOut resp Q f T0 am g2m df4 df8 df12).v4
        = (psdRow resp Q f T0 am g2m df4 df8 df12).v4 / (match resp with | .absacce => 1 | .pvelo => 2) ∧
    (psdOut resp Q f T0 am g2m df4 df8 df12).v8
        = (psdRow resp Q f T0 am g2m df4 df8 df12).v8 / (match resp with | .absacce => 1 | .pvelo => 2) ∧
    (psdOut resp Q f T0 am g2m df4 df8 df12).v12
        = (psdRow resp Q f T0 am g2m df4 df8 df12).v12 / (match resp with | .absacce => 1 | .pvelo => 2) := by
  cases resp <;> simp [psdOut]

theorem psdOut_scale (resp : Resp) (c Q f T0 am g2m df4 df8 df12 : ℝ) (hc : 0 < c)
    (h8 : 0 ≤ df8 / (psdRow resp Q f T0 am g2m df4 df8 df12).dt8)
    (h12 : 0 ≤ df12 / (psdRow resp Q f T0 am g2m df4 df8 df12).dt12) :
    psdOut resp Q f T0 (c * am) (c ^ 2 * g2m) (c ^ 4 * df4) (c ^ 8 * df8) (c ^ 12 * df12)
      = scalePsd c (psdOut resp Q f T0 am g2m df4 df8 df12) := by
  have := psdRow_scale resp c Q f T0 am g2m df4 df8 df12 hc h8 h12
  cases resp
  · simpa [psdOut] using this
  · simp only [psdOut, this, scalePsd, PsdRow.mk.injEq]
    push_cast
    refine ⟨?_, ?_, ?_, ?_, ?_, ?_, ?_, ?_, ?_, ?_, ?_, ?_, ?_, ?_, ?_, ?_, ?_, ?_⟩ <;>
      first | trivial | rfl | ring1

end PyYetiVerif.Fde
