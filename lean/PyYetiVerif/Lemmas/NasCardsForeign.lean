import PyYetiVerif.Lemmas.NasCardsMultiWr
/-! C12: the lines of a written card — the first starts with the 8-column name field, every other
one with the continuation character `+` (`wtcard8`) or `*` (`wtcard16/16d`) — and the reader's
name test `line.lower().find(name.lower()) == 0` on them. -/
set_option linter.unusedSimpArgs false
set_option linter.unusedVariables false
namespace PyYetiVerif.NasCards
open PyYetiVerif.PyFloat PyYetiVerif.NasFloat

/-! ### where the lines of a text begin -/

/-- a line of a text is non-empty and begins either at the start of the text or right behind a
newline -/
theorem fileLines_go_mem : ∀ (t acc l : Str), l ∈ fileLines.go t acc →
    l ≠ [] ∧ ((∃ b, acc.reverse ++ t = l ++ b) ∨ ∃ a b, t = a ++ '\n' :: (l ++ b))
  | [], acc, l, h => by
    simp only [fileLines.go] at h
    split_ifs at h with he
    · simp at h
    · simp only [List.mem_singleton] at h
      subst h
      refine ⟨?_, Or.inl ⟨[], by simp⟩⟩
      intro h0
      apply he
      simpa using h0
  | c :: t, acc, l, h => by
    simp only [fileLines.go] at h
    split_ifs at h with hc
    · simp only [beq_iff_eq] at hc
      subst hc
      rcases List.mem_cons.1 h with h | h
      · subst h
        exact ⟨by simp, Or.inl ⟨t, by simp⟩⟩
      · obtain ⟨hne, h' | ⟨a, b, h'⟩⟩ := fileLines_go_mem t [] l h
        · obtain ⟨b, hb⟩ := h'
          exact ⟨hne, Or.inr ⟨[], b, by simpa using hb⟩⟩
        · exact ⟨hne, Or.inr ⟨'\n' :: a, b, by rw [h']; rfl⟩⟩
    · obtain ⟨hne, h' | ⟨a, b, h'⟩⟩ := fileLines_go_mem t (c :: acc) l h
      · obtain ⟨b, hb⟩ := h'
        exact ⟨hne, Or.inl ⟨b, by simpa using hb⟩⟩
      · exact ⟨hne, Or.inr ⟨c :: a, b, by rw [h']; rfl⟩⟩

theorem fileLines_mem (t l : Str) (h : l ∈ fileLines t) :
    l ≠ [] ∧ ((∃ b, t = l ++ b) ∨ ∃ a b, t = a ++ '\n' :: (l ++ b)) := by
  have := fileLines_go_mem t [] l h
  simpa using this

/-- the first line has what has been accumulated as a prefix -/
theorem fileLines_go_head : ∀ (t acc : Str), (t ≠ [] ∨ acc ≠ []) →
    ∃ l ls, fileLines.go t acc = l :: ls ∧ acc.reverse <+: l
  | [], acc, h => by
    have hacc : acc ≠ [] := by rcases h with h | h; exact absurd rfl h; exact h
    refine ⟨acc.reverse, [], ?_, List.prefix_refl _⟩
    simp [fileLines.go, hacc]
  | c :: t, acc, _ => by
    simp only [fileLines.go]
    split_ifs with hc
    · exact ⟨_, _, rfl, by simp⟩
    · obtain ⟨l, ls, hl, hp⟩ := fileLines_go_head t (c :: acc) (Or.inr (by simp))
      refine ⟨l, ls, hl, ?_⟩
      simp only [List.reverse_cons] at hp
      exact (List.prefix_append _ _).trans hp

theorem fileLines_go_noNl : ∀ (p t acc : Str), (∀ c ∈ p, c ≠ '\n') →
    fileLines.go (p ++ t) acc = fileLines.go t (p.reverse ++ acc)
  | [], t, acc, _ => rfl
  | c :: p, t, acc, h => by
    have hc : (c == '\n') = false := by simp [h c List.mem_cons_self]
    simp only [List.cons_append, fileLines.go, hc, Bool.false_eq_true, if_false]
    rw [fileLines_go_noNl p t (c :: acc) (fun d hd => h d (List.mem_cons_of_mem _ hd))]
    simp

/-- a text that begins with `p` (no newline in it) has a first line that begins with `p` -/
theorem fileLines_prefix_head (p t : Str) (hp : ∀ c ∈ p, c ≠ '\n') (ht : t ≠ []) :
    ∃ l ls, fileLines (p ++ t) = l :: ls ∧ p <+: l := by
  unfold fileLines
  rw [fileLines_go_noNl p t [] hp]
  obtain ⟨l, ls, hl, hpre⟩ := fileLines_go_head t (p.reverse ++ []) (Or.inl ht)
  exact ⟨l, ls, hl, by simpa using hpre⟩

/-! ### every newline inside a written card is followed by `+` or `*` -/

/-- every newline of the text is followed by a continuation character `+` or `*` -/
def nlGood : Str → Bool
  | [] => true
  | c :: t => (c != '\n' || (match t with
      | d :: _ => d == '+' || d == '*'
      | [] => false)) && nlGood t

theorem nlGood_noNl : ∀ (s : Str), (∀ c ∈ s, c ≠ '\n') → nlGood s = true
  | [], _ => rfl
  | c :: t, h => by
    have hc : (c != '\n') = true := by simp [h c List.mem_cons_self]
    simp only [nlGood, hc, Bool.true_or, Bool.true_and]
    exact nlGood_noNl t (fun d hd => h d (List.mem_cons_of_mem _ hd))

theorem nlGood_append : ∀ (s u : Str), nlGood s = true → nlGood u = true → nlGood (s ++ u) = true
  | [], u, _, hu => hu
  | [c], u, hs, hu => by
    simp only [nlGood, Bool.or_false, Bool.and_true] at hs
    simp only [List.cons_append, List.nil_append, nlGood, hs, Bool.true_or, Bool.true_and, hu]
  | c :: d :: t, u, hs, hu => by
    simp only [nlGood, Bool.and_eq_true] at hs
    have ih := nlGood_append (d :: t) u (by simp only [nlGood, Bool.and_eq_true]; exact hs.2) hu
    simp only [List.cons_append, nlGood, Bool.and_eq_true] at ih ⊢
    exact ⟨hs.1, ih⟩

theorem nlGood_split : ∀ (a r : Str), nlGood (a ++ '\n' :: r) = true →
    ∃ c r', r = c :: r' ∧ (c = '+' ∨ c = '*')
  | [], r, h => by
    cases r with
    | nil => simp [nlGood] at h
    | cons d r' =>
      simp only [List.nil_append, nlGood, Bool.and_eq_true] at h
      have h1 := h.1
      simp only [bne_self_eq_false, Bool.false_or, Bool.or_eq_true, beq_iff_eq] at h1
      exact ⟨d, r', rfl, h1⟩
  | x :: a, r, h => by
    simp only [List.cons_append, nlGood, Bool.and_eq_true] at h
    exact nlGood_split a r h.2

theorem nlGood_body8 (fmt : Dbl → Str) : ∀ (toks : List Tok) (i : Nat),
    (∀ t ∈ toks, ∀ c ∈ enc 8 fmt t, c ≠ '\n') → nlGood (body8 fmt i toks) = true
  | [], i, _ => rfl
  | t :: ts, i, h => by
    simp only [body8]
    apply nlGood_append
    · apply nlGood_append
      · split_ifs
        · decide
        · rfl
      · exact nlGood_noNl _ (h t List.mem_cons_self)
    · exact nlGood_body8 fmt ts (i + 1) (fun t' ht' => h t' (List.mem_cons_of_mem _ ht'))

theorem nlGood_body16 (fmt : Dbl → Str) : ∀ (toks : List Tok) (i : Nat),
    (∀ t ∈ toks, ∀ c ∈ enc 16 fmt t, c ≠ '\n') → nlGood (body16 fmt i toks) = true
  | [], i, _ => rfl
  | t :: ts, i, h => by
    simp only [body16]
    apply nlGood_append
    · apply nlGood_append
      · split_ifs
        · decide
        · decide
        · rfl
      · exact nlGood_noNl _ (h t List.mem_cons_self)
    · exact nlGood_body16 fmt ts (i + 1) (fun t' ht' => h t' (List.mem_cons_of_mem _ ht'))

/-- the lines of `core ++ "\n"`: the first is a prefix of the text, every other one starts with
`+` or `*` -/
theorem written_lines (core l : Str) (hg : nlGood core = true) (hl : l ∈ fileLines (core ++ ['\n'])) :
    (∃ b, core ++ ['\n'] = l ++ b) ∨ ∃ c r, l = c :: r ∧ (c = '+' ∨ c = '*') := by
  obtain ⟨hne, h | ⟨a, b, h⟩⟩ := fileLines_mem _ l hl
  · exact Or.inl h
  · right
    obtain ⟨c0, l', rfl⟩ := List.exists_cons_of_ne_nil hne
    -- the newline at `a` lies inside `core`
    rcases List.append_eq_append_iff.1 h with ⟨a', ha, hb⟩ | ⟨c', hcore, hb⟩
    · have := congrArg List.length hb
      simp at this
      omega
    · cases c' with
      | nil => simp at hb
      | cons x c'' =>
        simp only [List.cons_append, List.cons.injEq] at hb
        obtain ⟨hx, hb⟩ := hb
        subst hx
        rw [hcore] at hg
        obtain ⟨c, r', hr, hc⟩ := nlGood_split _ _ hg
        rw [hr] at hb
        simp only [List.cons_append, List.cons.injEq] at hb
        exact ⟨c0, l', rfl, by rw [hb.1]; exact hc⟩

/-! ### the name test -/

theorem lower_length (a : Str) : (lower a).length = a.length := by simp [lower]

/-- a name that begins with a letter does not match a line that begins with `+` or `*` -/
theorem prefixMatch_cont (name : Str) (c : Char) (r : Str)
    (hname : ∃ c0 t, name = c0 :: t ∧ isLetter c0 = true) (hc : c = '+' ∨ c = '*') :
    prefixMatch name (c :: r) = false := by
  obtain ⟨c0, t, rfl, hlet⟩ := hname
  have key : ∀ d : Char, isLetter d = true →
      (if 'A' ≤ d && d ≤ 'Z' then Char.ofNat (d.toNat + 32) else d) ≠ '+' ∧
      (if 'A' ≤ d && d ≤ 'Z' then Char.ofNat (d.toNat + 32) else d) ≠ '*' := by
    intro d hd
    split_ifs with hu
    · simp only [Bool.and_eq_true, decide_eq_true_eq] at hu
      have h1 : 65 ≤ d.toNat := hu.1
      have h2 : d.toNat ≤ 90 := hu.2
      have fin : ∀ n, n < 26 → Char.ofNat (n + 65 + 32) ≠ '+' ∧ Char.ofNat (n + 65 + 32) ≠ '*' := by
        decide
      have := fin (d.toNat - 65) (by omega)
      rwa [show d.toNat - 65 + 65 = d.toNat by omega] at this
    · constructor <;> (rintro rfl; exact absurd hd (by decide))
  obtain ⟨k1, k2⟩ := key c0 hlet
  have hlc : (if 'A' ≤ c && c ≤ 'Z' then Char.ofNat (c.toNat + 32) else c) = c := by
    rcases hc with rfl | rfl <;> decide
  simp only [prefixMatch, lower, List.map_cons, hlc, List.isPrefixOf_cons₂, Bool.and_eq_false_imp,
    beq_iff_eq]
  intro h
  rcases hc with rfl | rfl
  · exact absurd h k1
  · exact absurd h k2

/-- the test on a line that is a prefix of `field ++ rest` with `|name| ≤ |field|` -/
theorem prefixMatch_first (name field l b rest : Str) (hlen : name.length ≤ field.length)
    (hnp : (lower name).isPrefixOf (lower field) = false) (h : field ++ rest = l ++ b) :
    prefixMatch name l = false := by
  unfold prefixMatch
  by_contra hcon
  have hp : lower name <+: lower l := List.isPrefixOf_iff_prefix.1 (by simpa using hcon)
  have hp2 : lower name <+: lower field ++ lower rest := by
    rw [← lower_append, h, lower_append]
    exact hp.trans (List.prefix_append _ _)
  have hp3 : lower name <+: lower field :=
    List.prefix_of_prefix_length_le hp2 (List.prefix_append _ _)
      (by rw [lower_length, lower_length]; exact hlen)
  rw [List.isPrefixOf_iff_prefix.2 hp3] at hnp
  exact absurd hnp (by simp)

/-! ### written cards -/

/-- `text` is what one of the three writers writes for a card named `nm` (fields that format to
proper card fields) -/
def WrittenCard (nm text : Str) : Prop :=
  NameOK nm ∧
  ((∃ toks, (∀ t ∈ toks, CardField 8 (enc 8 formatFloat8 t)) ∧ wtcard8 nm toks = some text) ∨
   (∃ toks, (∀ t ∈ toks, CardField 16 (enc 16 formatFloat16 t)) ∧ wtcard16 nm toks = some text) ∨
   (∃ toks, (∀ t ∈ toks, CardField 16 (enc 16 formatDouble16 t)) ∧ wtcard16d nm toks = some text))

theorem ljust8_length (nm : Str) (h : nm.length ≤ 8) : (ljust 8 nm).length = 8 := by
  simp [ljust]; omega

/-- a written card is `name field ++ core' ++ "\n"` with every inner newline followed by `+`/`*` -/
theorem written_core (nm text : Str) (h : WrittenCard nm text) :
    ∃ rest, text = (ljust 8 nm ++ rest) ++ ['\n'] ∧ nlGood (ljust 8 nm ++ rest) = true := by
  obtain ⟨hname, h8 | h16 | h16d⟩ := h
  · obtain ⟨toks, hf, hw⟩ := h8
    unfold wtcard8 at hw
    split_ifs at hw
    simp only [Option.some.injEq] at hw
    refine ⟨body8 formatFloat8 0 toks, hw.symm, nlGood_append _ _ ?_ ?_⟩
    · exact nlGood_noNl _ (fun c hc => (ljust_name_chars nm hname c hc).1)
    · exact nlGood_body8 _ _ _ (fun t ht => field_no_newline 8 _ (hf t ht).1)
  · obtain ⟨toks, hf, hw⟩ := h16
    unfold wtcard16 wtcard16With at hw
    split_ifs at hw with h1 h2 h3
    · simp only [Option.some.injEq] at hw
      refine ⟨body16 formatFloat16 0 toks ++ ['\n', '*'], by rw [← hw]; simp, ?_⟩
      refine nlGood_append _ _ (nlGood_noNl _ (fun c hc => (ljust_name_chars nm hname c hc).1))
        (nlGood_append _ _ (nlGood_body16 _ _ _ (fun t ht => field_no_newline 16 _ (hf t ht).1))
          (by decide))
    · simp only [Option.some.injEq] at hw
      refine ⟨body16 formatFloat16 0 toks, by rw [← hw]; simp, ?_⟩
      exact nlGood_append _ _ (nlGood_noNl _ (fun c hc => (ljust_name_chars nm hname c hc).1))
        (nlGood_body16 _ _ _ (fun t ht => field_no_newline 16 _ (hf t ht).1))
  · obtain ⟨toks, hf, hw⟩ := h16d
    unfold wtcard16d wtcard16With at hw
    split_ifs at hw with h1 h2 h3
    · simp only [Option.some.injEq] at hw
      refine ⟨body16 formatDouble16 0 toks ++ ['\n', '*'], by rw [← hw]; simp, ?_⟩
      refine nlGood_append _ _ (nlGood_noNl _ (fun c hc => (ljust_name_chars nm hname c hc).1))
        (nlGood_append _ _ (nlGood_body16 _ _ _ (fun t ht => field_no_newline 16 _ (hf t ht).1))
          (by decide))
    · simp only [Option.some.injEq] at hw
      refine ⟨body16 formatDouble16 0 toks, by rw [← hw]; simp, ?_⟩
      exact nlGood_append _ _ (nlGood_noNl _ (fun c hc => (ljust_name_chars nm hname c hc).1))
        (nlGood_body16 _ _ _ (fun t ht => field_no_newline 16 _ (hf t ht).1))

theorem written_block (nm text : Str) (h : WrittenCard nm text) :
    BlockText text ∧ ∀ c ∈ text, c ≠ '\t' := by
  obtain ⟨hname, h8 | h16 | h16d⟩ := h
  · obtain ⟨toks, hf, hw⟩ := h8
    exact wtcard8_block nm toks text hname hf hw
  · obtain ⟨toks, hf, hw⟩ := h16
    exact wtcard16_block formatFloat16 nm toks text hname hf hw
  · obtain ⟨toks, hf, hw⟩ := h16d
    exact wtcard16_block formatDouble16 nm toks text hname hf hw

end PyYetiVerif.NasCards
