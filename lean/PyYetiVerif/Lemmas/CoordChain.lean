import PyYetiVerif.Model.CoordChain
import Mathlib.Data.List.Sort
/-!
Helper lemmas for the chaining bookkeeping of C14 (`build_coords`, `mkusetcoordinfo`): the id sort makes
the result independent of the card order; ids in a reference-closed set that does not contain 0 are
never selected; every entry of the resulting dictionary is the A-B-C construction of its card relative
to the dictionary's entry for the card's reference.
-/
set_option linter.unusedSectionVars false
namespace PyYetiVerif.Coord

variable {β : Type}

/-- cards with the same id are equal (what `build_coords` accepts: "equal duplicates are quietly ignored") -/
def NoConflict (l : List (Card β)) : Prop := ∀ a ∈ l, ∀ b ∈ l, a.cid = b.cid → a = b

theorem sortCards_pairwise (l : List (Card β)) :
    (sortCards l).Pairwise fun a b => a.cid ≤ b.cid := by
  have := List.pairwise_mergeSort (le := fun a b : Card β => decide (a.cid ≤ b.cid))
    (by intro a b c; simp only [decide_eq_true_eq]; exact Nat.le_trans)
    (by intro a b; simp only [Bool.or_eq_true, decide_eq_true_eq]; exact Nat.le_total _ _) l
  simpa [sortCards] using this

theorem sortCards_perm (l : List (Card β)) : (sortCards l).Perm l := List.mergeSort_perm _ _

/-- the id-sorted list does not depend on the order of the cards -/
theorem sortCards_eq_of_perm {l₁ l₂ : List (Card β)} (hp : l₁.Perm l₂) (hc : NoConflict l₁) :
    sortCards l₁ = sortCards l₂ := by
  have p1 := sortCards_perm l₁
  have p2 := sortCards_perm l₂
  refine List.Perm.eq_of_pairwise ?_ (sortCards_pairwise l₁) (sortCards_pairwise l₂)
    (p1.trans (hp.trans p2.symm))
  intro a b ha hb hab hba
  exact hc a (p1.mem_iff.mp ha) b (hp.mem_iff.mpr (p2.mem_iff.mp hb)) (Nat.le_antisymm hab hba)

theorem buildLevels_eq_of_perm [BEq β] {l₁ l₂ : List (Card β)} (hp : l₁.Perm l₂) (hc : NoConflict l₁) :
    buildLevels l₁ = buildLevels l₂ := by
  simp only [buildLevels, sortCards_eq_of_perm hp hc]

section
variable {α : Type} [Add α] [Sub α] [Mul α] [Div α] [Neg α] [OfNat α 0] [OfNat α 1]
  [OfNat α 180] [TransOps α] [BEq α]

theorem buildCoords_eq_of_perm {l₁ l₂ : List (Card (CsBody α))} (hp : l₁.Perm l₂) (hc : NoConflict l₁) :
    buildCoords l₁ = buildCoords l₂ := by
  have he : l₁.isEmpty = l₂.isEmpty := by
    cases l₁ with
    | nil => rw [hp.symm.eq_nil]
    | cons a t =>
      cases l₂ with
      | nil => exact absurd hp.eq_nil (by simp)
      | cons b u => rfl
  simp only [buildCoords, buildOrder, buildLevels_eq_of_perm hp hc, he]
end


theorem sweep_fst (front : List Nat) (loop : Nat) (sel : List (Card β × Nat)) :
    (sweep front loop sel).map (·.1) = sel.map (·.1) := by
  simp only [sweep, List.map_map]
  apply List.map_congr_left
  intro p _
  simp only [Function.comp]
  split <;> rfl

/-- a finished loop keeps the cards, has selected every one, and its levels are bounded -/
theorem levelLoop_ok :
    ∀ (fuel : Nat) (front : List Nat) (loop : Nat) (sel r : List (Card β × Nat)),
      (∀ p ∈ sel, p.2 < loop) → levelLoop fuel front loop sel = .ok r →
      r.map (·.1) = sel.map (·.1) ∧ ∀ p ∈ r, p.2 ≠ 0 ∧ p.2 < loop + fuel := by
  intro fuel
  induction fuel with
  | zero => intro front loop sel r _ h; simp [levelLoop] at h
  | succ fuel ih =>
    intro front loop sel r hlt h
    simp only [levelLoop] at h
    split at h
    · rename_i hall
      simp only [Except.ok.injEq] at h
      subst h
      refine ⟨rfl, fun p hp => ⟨?_, by have := hlt p hp; omega⟩⟩
      have := List.all_eq_true.mp hall p hp
      simpa using this
    · split at h
      · cases h
      · have hlt' : ∀ p ∈ sweep front loop sel, p.2 < loop + 1 := by
          intro p hp
          simp only [sweep, List.mem_map] at hp
          obtain ⟨q, hq, rfl⟩ := hp
          split
          · exact Nat.lt_succ_self _
          · exact Nat.lt_succ_of_lt (hlt q hq)
        obtain ⟨h1, h2⟩ := ih _ _ _ _ hlt' h
        refine ⟨by rw [h1, sweep_fst], fun p hp => ⟨(h2 p hp).1, by have := (h2 p hp).2; omega⟩⟩

theorem mem_levelOrder_imp {sel : List (Card β × Nat)} {c : Card β} (h : c ∈ levelOrder sel) :
    c ∈ sel.map (·.1) := by
  simp only [levelOrder, List.mem_flatMap, List.mem_map, List.mem_filter] at h
  obtain ⟨k, _, p, ⟨hp, _⟩, rfl⟩ := h
  exact List.mem_map.mpr ⟨p, hp, rfl⟩

theorem mem_levelOrder_of {sel : List (Card β × Nat)} {p : Card β × Nat} (hp : p ∈ sel)
    (h1 : p.2 ≠ 0) (h2 : p.2 < sel.length + 2) : p.1 ∈ levelOrder sel := by
  simp only [levelOrder, List.mem_flatMap, List.mem_map, List.mem_filter, List.mem_range]
  refine ⟨p.2 - 1, by omega, p, ⟨hp, ?_⟩, rfl⟩
  have : p.2 - 1 + 1 = p.2 := by omega
  simp [this]


/-- cards whose ids lie in a set `S` that is closed under reference and does not contain 0 are never
selected, so the loop cannot finish -/
theorem levelLoop_not_ok (S : Nat → Prop) :
    ∀ (fuel : Nat) (front : List Nat) (loop : Nat) (sel : List (Card β × Nat)),
      (∀ x ∈ front, ¬ S x) →
      (∀ p ∈ sel, S p.1.cid → S p.1.ref ∧ p.2 = 0) →
      (∃ p ∈ sel, S p.1.cid) →
      ∀ r, levelLoop fuel front loop sel ≠ .ok r := by
  intro fuel
  induction fuel with
  | zero => intro front loop sel _ _ _ r h; simp [levelLoop] at h
  | succ fuel ih =>
    intro front loop sel hf hs hex r
    obtain ⟨p0, hp0, hS0⟩ := hex
    have hnall : (sel.all fun p => p.2 != 0) = false := by
      rw [List.all_eq_false]
      exact ⟨p0, hp0, by simp [(hs p0 hp0 hS0).2]⟩
    simp only [levelLoop, hnall, Bool.false_eq_true, if_false]
    split
    · intro h; cases h
    · apply ih
      · intro x hx
        simp only [hits, List.mem_map, List.mem_filter] at hx
        obtain ⟨p, ⟨hp, hc⟩, rfl⟩ := hx
        intro hSx
        have := (hs p hp hSx).1
        exact hf _ (by simpa using hc) this
      · intro p hp hSp
        simp only [sweep, List.mem_map] at hp
        obtain ⟨q, hq, rfl⟩ := hp
        by_cases hc : front.contains q.1.ref = true
        · simp only [hc, if_true] at hSp ⊢
          have := (hs q hq hSp).1
          exact absurd this (hf _ (by simpa using hc))
        · simp only [hc] at hSp ⊢
          exact hs q hq hSp
      · refine ⟨if front.contains p0.1.ref then (p0.1, loop) else p0, ?_, ?_⟩
        · simp only [sweep, List.mem_map]; exact ⟨p0, hp0, rfl⟩
        · split <;> exact hS0


/-- `==` only holds between equal values -/
def BEqSound (β : Type) [BEq β] : Prop := ∀ a b : β, (a == b) = true → a = b

theorem card_eq_of_beq [BEq β] (hβ : BEqSound β) {a b : Card β} (h : (a == b) = true) : a = b := by
  cases a; cases b
  simp only [BEq.beq, Bool.and_eq_true] at h
  obtain ⟨⟨h1, h2⟩, h3⟩ := h
  have h1' := of_decide_eq_true h1
  have h2' := of_decide_eq_true h2
  have h3' := hβ _ _ h3
  subst h1' h2' h3'
  rfl

theorem dedupe_mem [BEq β] (hβ : BEqSound β) :
    ∀ (s d : List (Card β)), dedupe s = .ok d → ∀ c, c ∈ s ↔ c ∈ d := by
  intro s
  induction s using dedupe.induct with
  | case1 => intro d h; simp [dedupe] at h; subst h; simp
  | case2 a => intro d h; simp [dedupe] at h; subst h; simp
  | case3 a b rest hcid heq ih =>
    intro d h c
    simp only [dedupe, hcid, if_true, heq] at h
    rw [← ih d h c, card_eq_of_beq hβ heq]
    simp
  | case4 a b rest hcid hne =>
    intro d h
    simp [dedupe, hcid, hne] at h
  | case5 a b rest hcid ih =>
    intro d h c
    simp only [dedupe, hcid, if_false] at h
    cases hd : dedupe (b :: rest) with
    | error e => simp [hd, Except.map] at h
    | ok d' =>
      simp only [hd, Except.map, Except.ok.injEq] at h
      subst h
      rw [List.mem_cons, List.mem_cons (a := c) (b := a) (l := d'), ← ih d' hd c]


section
variable {α : Type} [Add α] [Sub α] [Mul α] [Div α] [Neg α] [OfNat α 0] [OfNat α 1]
  [OfNat α 180] [TransOps α]

/-- the system a card defines once its reference is resolved to `r` -/
def cardInfo (r : CoordInfo α) (c : Card (CsBody α)) : CoordInfo α :=
  mkCoord r c.body.typ c.body.A c.body.B c.body.C

theorem addCard_spec {d d' : CoordRef α} {c : Card (CsBody α)} (h : addCard d c = .ok d') :
    ((∃ v, d.lookup c.cid = some v) ∧ d' = d) ∨
    (d.lookup c.cid = none ∧ ∃ r, d.lookup c.ref = some r ∧ d' = d ++ [(c.cid, cardInfo r c)]) := by
  unfold addCard at h
  split at h
  · rename_i v hv
    simp only [Except.ok.injEq] at h
    exact Or.inl ⟨⟨v, hv⟩, h.symm⟩
  · rename_i hnone
    split at h
    · cases h
    · rename_i r hr
      simp only [Except.ok.injEq] at h
      exact Or.inr ⟨hnone, r, hr, h.symm⟩

theorem addCard_mono {d d' : CoordRef α} {c : Card (CsBody α)} (h : addCard d c = .ok d')
    {x : Nat} {v : CoordInfo α} (hx : d.lookup x = some v) : d'.lookup x = some v := by
  rcases addCard_spec h with ⟨_, rfl⟩ | ⟨_, r, _, rfl⟩
  · exact hx
  · rw [List.lookup_append, hx]; rfl

theorem addCards_inv : ∀ (cs : List (Card (CsBody α))) (d0 d : CoordRef α), addCards d0 cs = .ok d →
    (∀ x v, d0.lookup x = some v → d.lookup x = some v) ∧
    (∀ x v, d.lookup x = some v → d0.lookup x = some v ∨
      ∃ c ∈ cs, c.cid = x ∧ ∃ r, d.lookup c.ref = some r ∧ v = cardInfo r c) ∧
    (∀ c ∈ cs, ∃ v, d.lookup c.cid = some v) := by
  intro cs
  induction cs with
  | nil =>
    intro d0 d h
    simp only [addCards, List.foldlM_nil, pure, Except.pure, Except.ok.injEq] at h
    subst h
    exact ⟨fun _ _ h => h, fun _ _ h => Or.inl h, by simp⟩
  | cons c t ih =>
    intro d0 d h
    simp only [addCards, List.foldlM_cons, bind, Except.bind] at h
    split at h
    · cases h
    · rename_i d1 h1
      obtain ⟨m1, s1, c1⟩ := ih d1 d h
      have m0 : ∀ x v, d0.lookup x = some v → d.lookup x = some v :=
        fun x v hx => m1 x v (addCard_mono h1 hx)
      refine ⟨m0, ?_, ?_⟩
      · intro x v hx
        rcases s1 x v hx with h2 | ⟨c', hc', hcid, r, hr, hv⟩
        · rcases addCard_spec h1 with ⟨_, rfl⟩ | ⟨hnone, r, hr, rfl⟩
          · exact Or.inl h2
          · rw [List.lookup_append] at h2
            cases hd0 : d0.lookup x with
            | some w => rw [hd0] at h2; exact Or.inl h2
            | none =>
              rw [hd0] at h2
              simp only [Option.none_or, List.lookup_cons, List.lookup_nil] at h2
              split at h2
              · rename_i heq
                simp only [Option.some.injEq] at h2
                have hxc : x = c.cid := by simpa using heq
                exact Or.inr ⟨c, List.mem_cons_self, hxc.symm, r, m0 _ _ hr, h2.symm⟩
              · cases h2
        · exact Or.inr ⟨c', List.mem_cons_of_mem _ hc', hcid, r, hr, hv⟩
      · intro c' hc'
        rcases List.mem_cons.mp hc' with rfl | hc'
        · rcases addCard_spec h1 with ⟨⟨v, hv⟩, rfl⟩ | ⟨hnone, r, hr, rfl⟩
          · exact ⟨v, m1 _ _ hv⟩
          · refine ⟨cardInfo r c', m1 _ _ ?_⟩
            rw [List.lookup_append, hnone]
            simp
        · exact c1 c' hc'
end


/-- a finished `buildLevels` holds exactly the given cards, every one with a level in `1 … n+1` -/
theorem buildLevels_ok [BEq β] (hβ : BEqSound β) {cards : List (Card β)} {r : List (Card β × Nat)}
    (h : buildLevels cards = .ok r) :
    (∀ c, c ∈ r.map (·.1) ↔ c ∈ cards) ∧ ∀ p ∈ r, p.2 ≠ 0 ∧ p.2 < r.length + 2 := by
  simp only [buildLevels, bind, Except.bind] at h
  split at h
  · cases h
  · rename_i cs hcs
    have hl := levelLoop_ok (cs.length + 1) [0] 1 (cs.map fun c => (c, 0)) r
      (by intro p hp; simp only [List.mem_map] at hp; obtain ⟨c, _, rfl⟩ := hp; exact Nat.one_pos) h
    have hfst : r.map (·.1) = cs := by
      rw [hl.1, List.map_map]; simp [Function.comp_def]
    have hlen : r.length = cs.length := by rw [← hfst, List.length_map]
    refine ⟨fun c => ?_, fun p hp => ⟨(hl.2 p hp).1, by have := (hl.2 p hp).2; omega⟩⟩
    rw [hfst, ← dedupe_mem hβ _ _ hcs c]
    exact (sortCards_perm cards).mem_iff

theorem buildOrder_mem [BEq β] (hβ : BEqSound β) {cards order : List (Card β)}
    (h : buildOrder cards = .ok order) : ∀ c, c ∈ order ↔ c ∈ cards := by
  simp only [buildOrder, Except.map] at h
  split at h
  · cases h
  · rename_i r hr
    simp only [Except.ok.injEq] at h
    subst h
    obtain ⟨h1, h2⟩ := buildLevels_ok hβ hr
    intro c
    constructor
    · intro hc; exact (h1 c).mp (mem_levelOrder_imp hc)
    · intro hc
      obtain ⟨p, hp, rfl⟩ := List.mem_map.mp ((h1 c).mpr hc)
      exact mem_levelOrder_of hp (h2 p hp).1 (h2 p hp).2

/-- ids in a set closed under reference and not containing 0 (a reference cycle, or a chain that ends
at an id nobody defines) make `build_coords` fail -/
theorem buildLevels_refuses_closed [BEq β] (hβ : BEqSound β) (S : Nat → Prop) (cards : List (Card β))
    (hcl : ∀ c ∈ cards, S c.cid → S c.ref) (h0 : ¬ S 0) (hex : ∃ c ∈ cards, S c.cid) :
    ∀ r, buildLevels cards ≠ .ok r := by
  intro r h
  simp only [buildLevels, bind, Except.bind] at h
  split at h
  · cases h
  · rename_i cs hcs
    have hmem : ∀ c, c ∈ cs ↔ c ∈ cards := fun c => by
      rw [← dedupe_mem hβ _ _ hcs c]; exact (sortCards_perm cards).mem_iff
    refine levelLoop_not_ok S _ [0] 1 _ ?_ ?_ ?_ r h
    · intro x hx; simp only [List.mem_singleton] at hx; subst hx; exact h0
    · intro p hp hS
      simp only [List.mem_map] at hp
      obtain ⟨c, hc, rfl⟩ := hp
      exact ⟨hcl c ((hmem c).mp hc) hS, rfl⟩
    · obtain ⟨c, hc, hS⟩ := hex
      exact ⟨(c, 0), List.mem_map.mpr ⟨c, (hmem c).mpr hc, rfl⟩, hS⟩

section
variable {α : Type} [Add α] [Sub α] [Mul α] [Div α] [Neg α] [OfNat α 0] [OfNat α 1]
  [OfNat α 180] [TransOps α] [BEq α]

theorem csBody_beqSound (hα : BEqSound α) : BEqSound (CsBody α) := by
  intro a b h
  cases a; cases b
  rename_i t1 A1 B1 C1 t2 A2 B2 C2
  simp only [BEq.beq, Bool.and_eq_true, decide_eq_true_eq] at h
  obtain ⟨⟨⟨ht, hA⟩, hB⟩, hC⟩ := h
  have v3 : ∀ u v : V3 α, ((u.x == v.x) = true ∧ (u.y == v.y) = true) ∧ (u.z == v.z) = true → u = v := by
    intro u v h
    obtain ⟨⟨hx, hy⟩, hz⟩ := h
    ext
    · exact hα _ _ hx
    · exact hα _ _ hy
    · exact hα _ _ hz
  rw [ht, v3 _ _ hA, v3 _ _ hB, v3 _ _ hC]

theorem buildCoords_refuses_closed (hα : BEqSound α) (S : Nat → Prop) (cards : List (Card (CsBody α)))
    (hcl : ∀ c ∈ cards, S c.cid → S c.ref) (h0 : ¬ S 0) (hex : ∃ c ∈ cards, S c.cid) :
    ∀ d, buildCoords cards ≠ .ok d := by
  intro d h
  obtain ⟨c, hc, _⟩ := hex
  have hne : cards.isEmpty = false := by cases cards with
    | nil => cases hc
    | cons => rfl
  simp only [buildCoords, hne, Bool.false_eq_true, if_false, bind, Except.bind, buildOrder, Except.map] at h
  split at h
  · cases h
  · rename_i o ho
    split at ho
    · cases ho
    · rename_i r hr
      exact buildLevels_refuses_closed (csBody_beqSound hα) S cards hcl h0 ⟨c, hc, ‹_›⟩ r hr

/-- the dictionary returned by `build_coords`: basic under 0, every card's id is a key, and every entry
is the A-B-C construction of a card relative to the entry of that card's reference -/
theorem buildCoords_resolved (hα : BEqSound α) {cards : List (Card (CsBody α))} {d : CoordRef α}
    (hne : cards ≠ []) (h : buildCoords cards = .ok d) :
    d.lookup 0 = some basic ∧
    (∀ c ∈ cards, ∃ v, d.lookup c.cid = some v) ∧
    (∀ x v, d.lookup x = some v → (x = 0 ∧ v = basic) ∨
      ∃ c ∈ cards, c.cid = x ∧ ∃ r, d.lookup c.ref = some r ∧ v = cardInfo r c) := by
  have hne' : cards.isEmpty = false := by cases cards with
    | nil => exact absurd rfl hne
    | cons => rfl
  simp only [buildCoords, hne', Bool.false_eq_true, if_false, bind, Except.bind] at h
  split at h
  · cases h
  · rename_i order ho
    have hmem := buildOrder_mem (csBody_beqSound hα) ho
    obtain ⟨m, s, c⟩ := addCards_inv order coordRef0 d h
    refine ⟨m 0 basic (by simp [coordRef0]), fun c' hc' => c c' ((hmem c').mpr hc'), ?_⟩
    intro x v hx
    rcases s x v hx with h0 | ⟨c', hc', hcid, r, hr, hv⟩
    · left
      simp only [coordRef0, List.lookup_cons, List.lookup_nil] at h0
      split at h0
      · rename_i heq
        simp only [Option.some.injEq] at h0
        exact ⟨by simpa using heq, h0.symm⟩
      · cases h0
    · exact Or.inr ⟨c', (hmem c').mp hc', hcid, r, hr, hv⟩
end

/-- a successful `dedupe` of an id-sorted list means that cards with the same id were equal -/
theorem dedupe_ok_noConflict [BEq β] (hβ : BEqSound β) :
    ∀ (s d : List (Card β)), s.Pairwise (fun a b => a.cid ≤ b.cid) → dedupe s = .ok d → NoConflict s := by
  intro s
  induction s using dedupe.induct with
  | case1 => intro d _ _ a ha; cases ha
  | case2 a =>
    intro d _ _ x hx y hy _
    simp only [List.mem_singleton] at hx hy
    rw [hx, hy]
  | case3 a b rest hcid heq ih =>
    intro d hs h
    simp only [dedupe, hcid, if_true, heq] at h
    have hab := card_eq_of_beq hβ heq
    have ihh := ih d (List.Pairwise.of_cons hs) h
    intro x hx y hy hxy
    have mem : ∀ z, z ∈ a :: b :: rest → z ∈ b :: rest := by
      intro z hz
      rcases List.mem_cons.mp hz with rfl | hz
      · rw [hab]; exact List.mem_cons_self
      · exact hz
    exact ihh x (mem x hx) y (mem y hy) hxy
  | case4 a b rest hcid hne =>
    intro d _ h
    simp [dedupe, hcid, hne] at h
  | case5 a b rest hcid ih =>
    intro d hs h
    simp only [dedupe, hcid, if_false] at h
    cases hd : dedupe (b :: rest) with
    | error e => simp [hd, Except.map] at h
    | ok d' =>
      have ihh := ih d' (List.Pairwise.of_cons hs) hd
      have hlt : ∀ z ∈ b :: rest, a.cid < z.cid := by
        intro z hz
        have hab : a.cid ≤ b.cid := (List.pairwise_cons.mp hs).1 b List.mem_cons_self
        have hbz : b.cid ≤ z.cid := by
          rcases List.mem_cons.mp hz with rfl | hz
          · exact Nat.le_refl _
          · exact (List.pairwise_cons.mp (List.Pairwise.of_cons hs)).1 z hz
        omega
      intro x hx y hy hxy
      rcases List.mem_cons.mp hx with hxa | hx <;> rcases List.mem_cons.mp hy with hya | hy
      · rw [hxa, hya]
      · have := hlt y hy; rw [hxa] at hxy; omega
      · have := hlt x hx; rw [hya] at hxy; omega
      · exact ihh x hx y hy hxy

theorem dedupe_error [BEq β] : ∀ (s : List (Card β)) (e : BuildErr), dedupe s = .error e →
    ∃ c, e = .dupUnequal c := by
  intro s
  induction s using dedupe.induct with
  | case1 => intro e h; simp [dedupe] at h
  | case2 a => intro e h; simp [dedupe] at h
  | case3 a b rest hcid heq ih =>
    intro e h
    simp only [dedupe, hcid, if_true, heq] at h
    exact ih e h
  | case4 a b rest hcid hne =>
    intro e h
    simp only [dedupe, hcid, if_true, hne] at h
    cases h
    exact ⟨_, rfl⟩
  | case5 a b rest hcid ih =>
    intro e h
    simp only [dedupe, hcid, if_false] at h
    cases hd : dedupe (b :: rest) with
    | error e' =>
      simp only [hd, Except.map, Except.error.injEq] at h
      subst h
      exact ih e' hd
    | ok d' => simp [hd, Except.map] at h

/-- cards with the same id but different content are refused -/
theorem buildLevels_refuses_conflict [BEq β] (hβ : BEqSound β) (cards : List (Card β))
    (h : ¬ NoConflict cards) : ∃ c, buildLevels cards = .error (.dupUnequal c) := by
  cases hd : dedupe (sortCards cards) with
  | error e =>
    obtain ⟨c, rfl⟩ := dedupe_error _ e hd
    exact ⟨c, by simp [buildLevels, hd, bind, Except.bind]⟩
  | ok d =>
    exfalso
    apply h
    have := dedupe_ok_noConflict hβ _ d (sortCards_pairwise cards) hd
    intro a ha b hb hab
    exact this a ((sortCards_perm cards).mem_iff.mpr ha) b ((sortCards_perm cards).mem_iff.mpr hb) hab

section
variable {α : Type} [Add α] [Sub α] [Mul α] [Div α] [Neg α] [OfNat α 0] [OfNat α 1]
  [OfNat α 180] [TransOps α] [BEq α]

theorem buildCoords_refuses_conflict (hα : BEqSound α) (cards : List (Card (CsBody α)))
    (h : ¬ NoConflict cards) : ∃ c, buildCoords cards = .error (.dupUnequal c) := by
  obtain ⟨c, hc⟩ := buildLevels_refuses_conflict (csBody_beqSound hα) cards h
  have hne : cards.isEmpty = false := by
    cases cards with
    | nil => exact absurd (fun a ha => by cases ha) h
    | cons => rfl
  exact ⟨c, by simp [buildCoords, hne, buildOrder, hc, bind, Except.bind, Except.map]⟩
end

end PyYetiVerif.Coord
