import PyYetiVerif.Lemmas.CoordChain
/-!
`build_coords` as a whole (property C14): the level loop resolves a card set exactly when every reference
chain ends in 0, the levels it assigns are the depths of the reference chains, the order in which the cards are
handed to `mkusetcoordinfo` is topological (for any ids, any depth), and the result depends only on the
*set* of cards (order and equal duplicates are irrelevant).
-/
set_option linter.unusedSectionVars false
set_option linter.unusedVariables false
namespace PyYetiVerif.Coord

variable {β : Type}

/-- `RootedAt cards k x`: the reference chain that starts at id `x` reaches 0 (the basic system, the only
system `build_coords` knows beforehand) after exactly `k` cards -/
inductive RootedAt (cards : List (Card β)) : Nat → Nat → Prop
  | zero : RootedAt cards 0 0
  | step {k x : Nat} (c : Card β) : c ∈ cards → c.cid = x → RootedAt cards k c.ref → RootedAt cards (k + 1) x

/-- the reference chain of `x` ends in 0 -/
def Rooted (cards : List (Card β)) (x : Nat) : Prop := ∃ k, RootedAt cards k x

theorem RootedAt.congr {l₁ l₂ : List (Card β)} (h : ∀ c, c ∈ l₁ ↔ c ∈ l₂) {k x : Nat}
    (r : RootedAt l₁ k x) : RootedAt l₂ k x := by
  induction r with
  | zero => exact .zero
  | step c hc hx _ ih => exact .step c ((h c).mp hc) hx ih

theorem rootedAt_congr {l₁ l₂ : List (Card β)} (h : ∀ c, c ∈ l₁ ↔ c ∈ l₂) (k x : Nat) :
    RootedAt l₁ k x ↔ RootedAt l₂ k x :=
  ⟨fun r => r.congr h, fun r => r.congr fun c => (h c).symm⟩

theorem rootedAt_zero_iff {cs : List (Card β)} {x : Nat} : RootedAt cs 0 x ↔ x = 0 := by
  constructor
  · intro r; cases r; rfl
  · rintro rfl; exact .zero

theorem rootedAt_succ_iff {cs : List (Card β)} {k x : Nat} :
    RootedAt cs (k + 1) x ↔ ∃ c ∈ cs, c.cid = x ∧ RootedAt cs k c.ref := by
  constructor
  · intro r; cases r with
    | step c hc hx hr => exact ⟨c, hc, hx, hr⟩
  · rintro ⟨c, hc, hx, hr⟩; exact .step c hc hx hr

/-- with positive ids and no conflicting cards the depth of an id is unique -/
theorem RootedAt.unique {cs : List (Card β)} (hpos : ∀ c ∈ cs, c.cid ≠ 0) (hnc : NoConflict cs)
    {k x : Nat} (r : RootedAt cs k x) : ∀ {k' : Nat}, RootedAt cs k' x → k = k' := by
  induction r with
  | zero =>
    intro k' r'
    cases r' with
    | zero => rfl
    | step c hc hx _ => exact absurd hx (hpos c hc)
  | step c hc hx _ ih =>
    intro k' r'
    cases r' with
    | zero => exact absurd hx (hpos c hc)
    | step c' hc' hx' hr' =>
      have : c = c' := hnc c hc c' hc' (hx.trans hx'.symm)
      subst this
      rw [ih hr']

/-- a chain of length `j > k` passes through an id of depth `k + 1` -/
theorem RootedAt.exists_level {cs : List (Card β)} {j x : Nat} (r : RootedAt cs j x) :
    ∀ {k : Nat}, k < j → ∃ y, RootedAt cs (k + 1) y := by
  induction r with
  | zero => intro k hk; exact absurd hk (Nat.not_lt_zero _)
  | step c hc hx hr ih =>
    rename_i m x'
    intro k hk
    by_cases hm : k = m
    · subst hm; exact ⟨_, .step c hc hx hr⟩
    · exact ih (by omega)

/-! ### the level loop -/

/-- state of the `while` loop before the pass with `loop = k + 1`: `front` (= `ref_ids`) holds exactly the ids
of depth `k`, the selected cards are those of depth `1 … k` and `selected` is their depth -/
structure LoopInv (cs : List (Card β)) (k : Nat) (front : List Nat) (sel : List (Card β × Nat)) : Prop where
  fst : sel.map (·.1) = cs
  sound : ∀ p ∈ sel, p.2 ≠ 0 → RootedAt cs p.2 p.1.cid ∧ p.2 ≤ k
  compl : ∀ p ∈ sel, ∀ j, 1 ≤ j → j ≤ k → RootedAt cs j p.1.cid → p.2 = j
  front : ∀ x, x ∈ front ↔ RootedAt cs k x

theorem mem_of_mem_sel {cs : List (Card β)} {sel : List (Card β × Nat)} (hf : sel.map (·.1) = cs)
    {p : Card β × Nat} (hp : p ∈ sel) : p.1 ∈ cs := by
  rw [← hf]; exact List.mem_map.mpr ⟨p, hp, rfl⟩

theorem exists_sel_of_mem {cs : List (Card β)} {sel : List (Card β × Nat)} (hf : sel.map (·.1) = cs)
    {c : Card β} (hc : c ∈ cs) : ∃ p ∈ sel, p.1 = c := by
  rw [← hf] at hc
  obtain ⟨p, hp, rfl⟩ := List.mem_map.mp hc
  exact ⟨p, hp, rfl⟩

theorem mem_hits {front : List Nat} {sel : List (Card β × Nat)} {x : Nat} :
    x ∈ hits front sel ↔ ∃ p ∈ sel, p.1.ref ∈ front ∧ p.1.cid = x := by
  simp only [hits, List.mem_map, List.mem_filter, List.contains_iff_mem]
  constructor
  · rintro ⟨p, ⟨hp, hr⟩, rfl⟩; exact ⟨p, hp, hr, rfl⟩
  · rintro ⟨p, hp, hr, rfl⟩; exact ⟨p, ⟨hp, hr⟩, rfl⟩

/-- one pass keeps the invariant -/
theorem LoopInv.step {cs : List (Card β)} (hpos : ∀ c ∈ cs, c.cid ≠ 0) (hnc : NoConflict cs)
    {k : Nat} {front : List Nat} {sel : List (Card β × Nat)} (inv : LoopInv cs k front sel) :
    LoopInv cs (k + 1) (hits front sel) (sweep front (k + 1) sel) := by
  have hitR : ∀ p ∈ sel, p.1.ref ∈ front → RootedAt cs (k + 1) p.1.cid := fun p hp hr =>
    .step p.1 (mem_of_mem_sel inv.fst hp) rfl ((inv.front _).mp hr)
  refine ⟨by rw [sweep_fst, inv.fst], ?_, ?_, ?_⟩
  · intro p' hp' hne
    simp only [sweep, List.mem_map] at hp'
    obtain ⟨p, hp, rfl⟩ := hp'
    by_cases hr : front.contains p.1.ref = true
    · simp only [hr, if_true]
      exact ⟨hitR p hp (List.contains_iff_mem.mp hr), Nat.le_refl _⟩
    · simp only [hr] at hne ⊢
      obtain ⟨h1, h2⟩ := inv.sound p hp hne
      exact ⟨h1, Nat.le_succ_of_le h2⟩
  · intro p' hp' j hj1 hjk hrj
    simp only [sweep, List.mem_map] at hp'
    obtain ⟨p, hp, rfl⟩ := hp'
    by_cases hr : front.contains p.1.ref = true
    · simp only [hr, if_true] at hrj ⊢
      exact (hitR p hp (List.contains_iff_mem.mp hr)).unique hpos hnc hrj
    · simp only [hr] at hrj ⊢
      by_cases hjk' : j ≤ k
      · exact inv.compl p hp j hj1 hjk' hrj
      · have hj : j = k + 1 := by omega
        subst hj
        obtain ⟨c, hc, hcid, hrc⟩ := rootedAt_succ_iff.mp hrj
        have : c = p.1 := hnc c hc p.1 (mem_of_mem_sel inv.fst hp) hcid
        subst this
        exact absurd (List.contains_iff_mem.mpr ((inv.front _).mpr hrc)) hr
  · intro x
    rw [mem_hits, rootedAt_succ_iff]
    constructor
    · rintro ⟨p, hp, hr, rfl⟩
      exact ⟨p.1, mem_of_mem_sel inv.fst hp, rfl, (inv.front _).mp hr⟩
    · rintro ⟨c, hc, rfl, hr⟩
      obtain ⟨p, hp, rfl⟩ := exists_sel_of_mem inv.fst hc
      exact ⟨p, hp, (inv.front _).mpr hr, rfl⟩

/-- number of cards not yet selected -/
def unsel (sel : List (Card β × Nat)) : Nat := sel.countP fun p => p.2 == 0

theorem countP_map_lt {γ : Type} (q : γ → Bool) (f : γ → γ) :
    ∀ (l : List γ), (∀ p ∈ l, q (f p) = true → q p = true) →
      (∃ p ∈ l, q p = true ∧ q (f p) = false) → (l.map f).countP q < l.countP q := by
  intro l hmono hex
  rw [List.countP_map]
  induction l with
  | nil => obtain ⟨p, hp, _⟩ := hex; cases hp
  | cons a t ih =>
    rw [List.countP_cons, List.countP_cons]
    have hle : t.countP (q ∘ f) ≤ t.countP q :=
      List.countP_mono_left fun p hp h => hmono p (List.mem_cons_of_mem _ hp) h
    obtain ⟨p, hp, hq, hqf⟩ := hex
    rcases List.mem_cons.mp hp with rfl | hp
    · have h1 : (q ∘ f) p = false := hqf
      rw [h1, hq]; simp; omega
    · have := ih (fun p hp => hmono p (List.mem_cons_of_mem _ hp)) ⟨p, hp, hq, hqf⟩
      have ha := hmono a List.mem_cons_self
      by_cases hfa : q (f a) = true
      · have h1 : (q ∘ f) a = true := hfa
        rw [h1, ha hfa]; simp; exact this
      · have h1 : (q ∘ f) a = false := by simpa using hfa
        rw [h1]; simp; split <;> omega

/-- a pass that hits a card selects a card that was not selected before -/
theorem unsel_sweep_lt {cs : List (Card β)} (hpos : ∀ c ∈ cs, c.cid ≠ 0) (hnc : NoConflict cs)
    {k : Nat} {front : List Nat} {sel : List (Card β × Nat)} (inv : LoopInv cs k front sel)
    (hne : (hits front sel).isEmpty = false) : unsel (sweep front (k + 1) sel) < unsel sel := by
  unfold unsel sweep
  apply countP_map_lt
  · intro p hp h
    by_cases hr : p.1.ref ∈ front
    · simp [hr] at h
    · simpa [hr] using h
  · obtain ⟨x, hx⟩ : ∃ x, x ∈ hits front sel := by
      cases hh : hits front sel with
      | nil => simp [hh] at hne
      | cons a t => exact ⟨a, List.mem_cons_self⟩
    obtain ⟨p, hp, hr, _⟩ := mem_hits.mp hx
    refine ⟨p, hp, ?_, by simp [hr]⟩
    by_contra h0
    have hne0 : p.2 ≠ 0 := by simpa using h0
    obtain ⟨h1, h2⟩ := inv.sound p hp hne0
    have h3 : RootedAt cs (k + 1) p.1.cid :=
      .step p.1 (mem_of_mem_sel inv.fst hp) rfl ((inv.front _).mp hr)
    have := h1.unique hpos hnc h3
    omega

/-- what the loop returns from a state satisfying the invariant, with enough fuel: either every card is
selected with its depth as level, or `RuntimeError("Could not resolve …")` carrying the ids of the last level
that did resolve — and then some card's reference chain does not end in 0 -/
theorem levelLoop_spec {cs : List (Card β)} (hpos : ∀ c ∈ cs, c.cid ≠ 0) (hnc : NoConflict cs) :
    ∀ (fuel k : Nat) (front : List Nat) (sel : List (Card β × Nat)), LoopInv cs k front sel →
      unsel sel < fuel →
      (∃ r, levelLoop fuel front (k + 1) sel = .ok r ∧ r.map (·.1) = cs ∧
          (∀ p ∈ r, p.2 ≠ 0 ∧ RootedAt cs p.2 p.1.cid)) ∨
      (∃ k' f', levelLoop fuel front (k + 1) sel = .error (.unresolved f') ∧
          (∃ c ∈ cs, ¬ Rooted cs c.cid) ∧ (∀ x, x ∈ f' ↔ RootedAt cs k' x) ∧
          ∀ y, ¬ RootedAt cs (k' + 1) y) := by
  intro fuel
  induction fuel with
  | zero => intro k front sel _ h; exact absurd h (Nat.not_lt_zero _)
  | succ fuel ih =>
    intro k front sel inv hfuel
    simp only [levelLoop]
    by_cases hall : (sel.all fun p => p.2 != 0) = true
    · left
      simp only [hall, if_true]
      refine ⟨sel, rfl, inv.fst, fun p hp => ?_⟩
      have hne : p.2 ≠ 0 := by simpa using List.all_eq_true.mp hall p hp
      exact ⟨hne, (inv.sound p hp hne).1⟩
    · simp only [hall, Bool.false_eq_true, if_false]
      by_cases hemp : (hits front sel).isEmpty = true
      · right
        simp only [hemp, if_true]
        refine ⟨k, front, rfl, ?_, inv.front, ?_⟩
        · -- an unselected card cannot be rooted: its chain would pass through depth k+1
          have hnall : ¬ ∀ p ∈ sel, (p.2 != 0) = true := fun h => hall (List.all_eq_true.mpr h)
          obtain ⟨p, hp, hp0⟩ : ∃ p ∈ sel, p.2 = 0 := by
            by_contra hcon
            apply hnall
            intro p hp
            have : p.2 ≠ 0 := fun h0 => hcon ⟨p, hp, h0⟩
            simpa using this
          refine ⟨p.1, mem_of_mem_sel inv.fst hp, ?_⟩
          rintro ⟨j, hj⟩
          have hjk : k < j := by
            by_contra hle
            have hj1 : 1 ≤ j := by
              rcases Nat.eq_zero_or_pos j with rfl | h
              · exact absurd (rootedAt_zero_iff.mp hj) (hpos _ (mem_of_mem_sel inv.fst hp))
              · exact h
            have := inv.compl p hp j hj1 (by omega) hj
            omega
          obtain ⟨y, hy⟩ := hj.exists_level hjk
          have : y ∈ hits front sel := (inv.step hpos hnc).front y |>.mpr hy
          rw [List.isEmpty_iff.mp hemp] at this
          cases this
        · intro y hy
          have : y ∈ hits front sel := (inv.step hpos hnc).front y |>.mpr hy
          rw [List.isEmpty_iff.mp hemp] at this
          cases this
      · have hemp' : (hits front sel).isEmpty = false := by simpa using hemp
        simp only [hemp', Bool.false_eq_true, if_false]
        have hlt := unsel_sweep_lt hpos hnc inv hemp'
        exact ih (k + 1) _ _ (inv.step hpos hnc) (by omega)

theorem loopInv_init (cs : List (Card β)) : LoopInv cs 0 [0] (cs.map fun c => (c, 0)) := by
  refine ⟨by simp [List.map_map, Function.comp_def], ?_, ?_, ?_⟩
  · intro p hp hne
    simp only [List.mem_map] at hp
    obtain ⟨c, _, rfl⟩ := hp
    exact absurd rfl hne
  · intro p _ j h1 h0; omega
  · intro x; rw [List.mem_singleton, rootedAt_zero_iff]

theorem unsel_init (cs : List (Card β)) : unsel (cs.map fun c => (c, 0)) = cs.length := by
  unfold unsel
  induction cs with
  | nil => rfl
  | cons a t ih => simp [List.countP_cons, ih]

/-! ### `dedupe` on a conflict-free list -/

/-- `==` holds between a value and itself -/
def BEqRefl (β : Type) [BEq β] : Prop := ∀ a : β, (a == a) = true

theorem card_beq_self [BEq β] (hr : BEqRefl β) (a : Card β) : (a == a) = true := by
  simp only [BEq.beq, Bool.and_eq_true, decide_eq_true_eq, true_and]
  exact hr a.body

theorem dedupe_ok_of_noConflict [BEq β] (hr : BEqRefl β) :
    ∀ (s : List (Card β)), NoConflict s → ∃ d, dedupe s = .ok d := by
  intro s
  induction s using dedupe.induct with
  | case1 => intro _; exact ⟨[], rfl⟩
  | case2 a => intro _; exact ⟨[a], rfl⟩
  | case3 a b rest hcid heq ih =>
    intro hnc
    simp only [dedupe, hcid, if_true, heq]
    exact ih fun x hx y hy => hnc x (List.mem_cons_of_mem _ hx) y (List.mem_cons_of_mem _ hy)
  | case4 a b rest hcid hne =>
    intro hnc
    have : a = b := hnc a List.mem_cons_self b (List.mem_cons_of_mem _ List.mem_cons_self) hcid
    subst this
    exact absurd (card_beq_self hr a) hne
  | case5 a b rest hcid ih =>
    intro hnc
    obtain ⟨d, hd⟩ := ih fun x hx y hy => hnc x (List.mem_cons_of_mem _ hx) y (List.mem_cons_of_mem _ hy)
    exact ⟨a :: d, by simp [dedupe, hcid, hd, Except.map]⟩

/-- a successful `dedupe` of an id-sorted list is strictly sorted by id -/
theorem dedupe_strict [BEq β] :
    ∀ (s d : List (Card β)), s.Pairwise (fun a b => a.cid ≤ b.cid) → dedupe s = .ok d →
      d.Pairwise (fun a b => a.cid < b.cid) ∧ ∀ x ∈ d, x ∈ s := by
  intro s
  induction s using dedupe.induct with
  | case1 => intro d _ h; simp [dedupe] at h; subst h; exact ⟨List.Pairwise.nil, fun _ h => h⟩
  | case2 a => intro d _ h; simp [dedupe] at h; subst h; exact ⟨List.pairwise_singleton _ _, fun _ h => h⟩
  | case3 a b rest hcid heq ih =>
    intro d hs h
    simp only [dedupe, hcid, if_true, heq] at h
    obtain ⟨h1, h2⟩ := ih d (List.Pairwise.of_cons hs) h
    exact ⟨h1, fun x hx => List.mem_cons_of_mem _ (h2 x hx)⟩
  | case4 a b rest hcid hne => intro d _ h; simp [dedupe, hcid, hne] at h
  | case5 a b rest hcid ih =>
    intro d hs h
    simp only [dedupe, hcid, if_false] at h
    cases hd : dedupe (b :: rest) with
    | error e => simp [hd, Except.map] at h
    | ok d' =>
      simp only [hd, Except.map, Except.ok.injEq] at h
      subst h
      obtain ⟨h1, h2⟩ := ih d' (List.Pairwise.of_cons hs) hd
      refine ⟨List.pairwise_cons.mpr ⟨fun x hx => ?_, h1⟩, fun x hx => ?_⟩
      · have hxs := h2 x hx
        have hab : a.cid ≤ b.cid := (List.pairwise_cons.mp hs).1 b List.mem_cons_self
        have hbx : b.cid ≤ x.cid := by
          rcases List.mem_cons.mp hxs with rfl | hx'
          · exact Nat.le_refl _
          · exact (List.pairwise_cons.mp (List.Pairwise.of_cons hs)).1 x hx'
        omega
      · rcases List.mem_cons.mp hx with rfl | hx
        · exact List.mem_cons_self
        · exact List.mem_cons_of_mem _ (h2 x hx)

/-- two strictly id-sorted lists with the same members are the same list -/
theorem eq_of_strict_of_mem_iff {l₁ l₂ : List (Card β)}
    (h₁ : l₁.Pairwise fun a b => a.cid < b.cid) (h₂ : l₂.Pairwise fun a b => a.cid < b.cid)
    (hm : ∀ c, c ∈ l₁ ↔ c ∈ l₂) : l₁ = l₂ := by
  induction l₁ generalizing l₂ with
  | nil =>
    cases l₂ with
    | nil => rfl
    | cons b u => exact absurd ((hm b).mpr List.mem_cons_self) (by simp)
  | cons a t ih =>
    cases l₂ with
    | nil => exact absurd ((hm a).mp List.mem_cons_self) (by simp)
    | cons b u =>
      have ha := List.pairwise_cons.mp h₁
      have hb := List.pairwise_cons.mp h₂
      have hab : a = b := by
        rcases List.mem_cons.mp ((hm a).mp List.mem_cons_self) with h | h
        · exact h
        · rcases List.mem_cons.mp ((hm b).mpr List.mem_cons_self) with h' | h'
          · exact h'.symm
          · have := ha.1 b h'; have := hb.1 a h; omega
      subst hab
      congr 1
      apply ih ha.2 hb.2
      intro c
      constructor
      · intro hc
        rcases List.mem_cons.mp ((hm c).mp (List.mem_cons_of_mem _ hc)) with rfl | h
        · exact absurd (ha.1 c hc) (Nat.lt_irrefl _)
        · exact h
      · intro hc
        rcases List.mem_cons.mp ((hm c).mpr (List.mem_cons_of_mem _ hc)) with rfl | h
        · exact absurd (hb.1 c hc) (Nat.lt_irrefl _)
        · exact h

/-- the deduplicated id-sorted list depends only on the set of cards -/
theorem dedupe_sort_eq_of_mem_iff [BEq β] (hβ : BEqSound β) {l₁ l₂ : List (Card β)}
    (hm : ∀ c, c ∈ l₁ ↔ c ∈ l₂) {d₁ d₂ : List (Card β)}
    (h₁ : dedupe (sortCards l₁) = .ok d₁) (h₂ : dedupe (sortCards l₂) = .ok d₂) : d₁ = d₂ := by
  obtain ⟨s₁, _⟩ := dedupe_strict _ _ (sortCards_pairwise l₁) h₁
  obtain ⟨s₂, _⟩ := dedupe_strict _ _ (sortCards_pairwise l₂) h₂
  apply eq_of_strict_of_mem_iff s₁ s₂
  intro c
  rw [← dedupe_mem hβ _ _ h₁ c, ← dedupe_mem hβ _ _ h₂ c, (sortCards_perm l₁).mem_iff,
    (sortCards_perm l₂).mem_iff]
  exact hm c

theorem noConflict_of_mem_iff {l₁ l₂ : List (Card β)} (hm : ∀ c, c ∈ l₁ ↔ c ∈ l₂) (h : NoConflict l₁) :
    NoConflict l₂ :=
  fun a ha b hb => h a ((hm a).mpr ha) b ((hm b).mpr hb)

/-! ### `buildLevels` / `buildOrder` -/

/-- the outcome of the sorting, duplicate handling and level loop together -/
theorem buildLevels_spec [BEq β] (hβ : BEqSound β) (hr : BEqRefl β) (cards : List (Card β))
    (hpos : ∀ c ∈ cards, c.cid ≠ 0) (hnc : NoConflict cards) :
    (∃ r, buildLevels cards = .ok r ∧ (∀ c, c ∈ r.map (·.1) ↔ c ∈ cards) ∧
        (r.map (·.1)).Pairwise (fun a b => a.cid < b.cid) ∧
        (∀ p ∈ r, p.2 ≠ 0 ∧ RootedAt cards p.2 p.1.cid)) ∨
    (∃ k' f', buildLevels cards = .error (.unresolved f') ∧ (∃ c ∈ cards, ¬ Rooted cards c.cid) ∧
        (∀ x, x ∈ f' ↔ RootedAt cards k' x) ∧ ∀ y, ¬ RootedAt cards (k' + 1) y) := by
  have hncs : NoConflict (sortCards cards) :=
    noConflict_of_mem_iff (fun c => ((sortCards_perm cards).mem_iff (a := c)).symm) hnc
  obtain ⟨cs, hcs⟩ := dedupe_ok_of_noConflict hr _ hncs
  have hmem : ∀ c, c ∈ cs ↔ c ∈ cards := fun c => by
    rw [← dedupe_mem hβ _ _ hcs c]; exact (sortCards_perm cards).mem_iff
  have hpos' : ∀ c ∈ cs, c.cid ≠ 0 := fun c hc => hpos c ((hmem c).mp hc)
  have hnc' : NoConflict cs := noConflict_of_mem_iff (fun c => (hmem c).symm) hnc
  have hbl : buildLevels cards = levelLoop (cs.length + 1) [0] 1 (cs.map fun c => (c, 0)) := by
    simp [buildLevels, hcs, bind, Except.bind]
  have hR : ∀ k x, RootedAt cs k x ↔ RootedAt cards k x := rootedAt_congr hmem
  rcases levelLoop_spec hpos' hnc' (cs.length + 1) 0 [0] _ (loopInv_init cs)
      (by rw [unsel_init]; exact Nat.lt_succ_self _) with ⟨r, h1, h2, h3⟩ | ⟨k', f', h1, ⟨c, hc, hnr⟩, h3, h4⟩
  · left
    refine ⟨r, by rw [hbl]; exact h1, fun c => by rw [h2]; exact hmem c, ?_,
      fun p hp => ⟨(h3 p hp).1, (hR _ _).mp (h3 p hp).2⟩⟩
    rw [h2]
    exact (dedupe_strict _ _ (sortCards_pairwise cards) hcs).1
  · right
    refine ⟨k', f', by rw [hbl]; exact h1, ⟨c, (hmem c).mp hc, ?_⟩, fun x => by rw [h3, hR], fun y hy => ?_⟩
    · rintro ⟨j, hj⟩; exact hnr ⟨j, (hR _ _).mpr hj⟩
    · exact h4 y ((hR _ _).mpr hy)

/-- `np.argsort(selected)`: no card comes before the card its reference names -/
theorem levelOrder_topological {cards : List (Card β)} (hpos : ∀ c ∈ cards, c.cid ≠ 0)
    (hnc : NoConflict cards) {r : List (Card β × Nat)} (hmem : ∀ c, c ∈ r.map (·.1) → c ∈ cards)
    (hlev : ∀ p ∈ r, p.2 ≠ 0 ∧ RootedAt cards p.2 p.1.cid) :
    (levelOrder r).Pairwise fun a b => b.cid ≠ a.ref := by
  have key : ∀ p ∈ r, ∀ q ∈ r, p.2 ≤ q.2 → q.1.cid ≠ p.1.ref := by
    intro p hp q hq hle heq
    obtain ⟨hp0, hpr⟩ := hlev p hp
    obtain ⟨_, hqr⟩ := hlev q hq
    obtain ⟨m, hm⟩ : ∃ m, p.2 = m + 1 := ⟨p.2 - 1, by omega⟩
    rw [hm] at hpr
    obtain ⟨c, hc, hcid, hrc⟩ := rootedAt_succ_iff.mp hpr
    have : c = p.1 := hnc c hc p.1 (hmem _ (List.mem_map.mpr ⟨p, hp, rfl⟩)) hcid
    subst this
    rw [← heq] at hrc
    have := hqr.unique hpos hnc hrc
    omega
  unfold levelOrder
  rw [List.pairwise_flatMap]
  constructor
  · intro k _
    rw [List.pairwise_map]
    apply List.Pairwise.imp_of_mem (R := fun _ _ => True)
    · intro p q hp hq _
      simp only [List.mem_filter, beq_iff_eq] at hp hq
      exact key p hp.1 q hq.1 (by omega)
    · exact List.pairwise_of_forall fun _ _ => trivial
  · apply List.Pairwise.imp (R := fun a b => a < b)
    · intro k1 k2 hk x hx y hy
      simp only [List.mem_map, List.mem_filter, beq_iff_eq] at hx hy
      obtain ⟨p, ⟨hp, hpl⟩, rfl⟩ := hx
      obtain ⟨q, ⟨hq, hql⟩, rfl⟩ := hy
      exact key p hp q hq (by omega)
    · exact List.pairwise_lt_range

/-- the order in which `build_coords` hands the cards to `mkusetcoordinfo`: every card comes after the card
that defines its reference system (or refers to 0) -/
theorem buildOrder_topological [BEq β] (hβ : BEqSound β) (hr : BEqRefl β) {cards order : List (Card β)}
    (hpos : ∀ c ∈ cards, c.cid ≠ 0) (h : buildOrder cards = .ok order) :
    ∀ pre c suf, order = pre ++ c :: suf → c.ref = 0 ∨ ∃ c' ∈ pre, c'.cid = c.ref := by
  have hnc : NoConflict cards := by
    by_contra hcon
    obtain ⟨x, hx⟩ := buildLevels_refuses_conflict hβ cards hcon
    simp [buildOrder, hx, Except.map] at h
  have hom := buildOrder_mem hβ h
  rcases buildLevels_spec hβ hr cards hpos hnc with ⟨r, h1, h2, _, h3⟩ | ⟨k', f', h1, _⟩
  · simp only [buildOrder, h1, Except.map, Except.ok.injEq] at h
    subst h
    have hpw := levelOrder_topological hpos hnc (fun c hc => (h2 c).mp hc) h3
    intro pre c suf hsplit
    have hc : c ∈ levelOrder r := by rw [hsplit]; simp
    obtain ⟨p, hp, rfl⟩ := List.mem_map.mp (mem_levelOrder_imp hc)
    obtain ⟨hp0, hpr⟩ := h3 p hp
    obtain ⟨m, hm⟩ : ∃ m, p.2 = m + 1 := ⟨p.2 - 1, by omega⟩
    rw [hm] at hpr
    obtain ⟨c0, hc0, hcid0, hrc0⟩ := rootedAt_succ_iff.mp hpr
    have : c0 = p.1 := hnc c0 hc0 p.1 ((h2 _).mp (List.mem_map.mpr ⟨p, hp, rfl⟩)) hcid0
    subst this
    cases m with
    | zero => exact Or.inl (rootedAt_zero_iff.mp hrc0)
    | succ m =>
      right
      obtain ⟨c', hc', hcid', hrc'⟩ := rootedAt_succ_iff.mp hrc0
      have hc'o : c' ∈ levelOrder r := (hom c').mpr hc'
      rw [hsplit] at hc'o hpw
      rcases List.mem_append.mp hc'o with hin | hin
      · exact ⟨c', hin, hcid'⟩
      · exfalso
        rcases List.mem_cons.mp hin with heq | hin
        · -- c' = c0: the card would be its own reference
          have hself : p.1.cid = p.1.ref := by
            have h0 : c'.cid = p.1.cid := by rw [heq]
            rw [← h0]; exact hcid'
          have h6 : RootedAt cards (m + 1) p.1.cid := by rw [hself]; exact hrc0
          have := h6.unique hpos hnc hpr
          omega
        · have := (List.pairwise_cons.mp (List.pairwise_append.mp hpw).2.1).1 c' hin
          exact this hcid'
  · simp [buildOrder, h1, Except.map] at h

/-! ### `addCards` along a topological order -/

section
variable {α : Type} [Add α] [Sub α] [Mul α] [Div α] [Neg α] [OfNat α 0] [OfNat α 1]
  [OfNat α 180] [TransOps α]

theorem addCard_key {d d' : CoordRef α} {c : Card (CsBody α)} (h : addCard d c = .ok d') :
    ∃ v, d'.lookup c.cid = some v := by
  rcases addCard_spec h with ⟨⟨v, hv⟩, rfl⟩ | ⟨hnone, r, _, rfl⟩
  · exact ⟨v, hv⟩
  · exact ⟨cardInfo r c, by rw [List.lookup_append, hnone]; simp⟩

/-- cards given in a topological order (every reference is already in the dictionary or defined by an earlier
card) are all accepted: `mkusetcoordinfo` never raises "reference coordinate id … not found" -/
theorem addCards_ok_of_topological : ∀ (order : List (Card (CsBody α))) (d0 : CoordRef α),
    (∀ pre c suf, order = pre ++ c :: suf →
      (∃ v, d0.lookup c.ref = some v) ∨ ∃ c' ∈ pre, c'.cid = c.ref) →
    ∃ d, addCards d0 order = .ok d := by
  intro order
  induction order with
  | nil => intro d0 _; exact ⟨d0, rfl⟩
  | cons c t ih =>
    intro d0 htop
    have h0 : ∃ v, d0.lookup c.ref = some v := by
      rcases htop [] c t rfl with h | ⟨c', hc', _⟩
      · exact h
      · cases hc'
    obtain ⟨d1, hd1⟩ : ∃ d1, addCard d0 c = .ok d1 := by
      unfold addCard
      cases hk : d0.lookup c.cid with
      | some v => exact ⟨d0, rfl⟩
      | none =>
        obtain ⟨v, hv⟩ := h0
        simp only [hv]
        exact ⟨_, rfl⟩
    have := ih d1 (by
      intro pre c2 suf hsplit
      rcases htop (c :: pre) c2 suf (by rw [hsplit]; rfl) with ⟨v, hv⟩ | ⟨c', hc', hcid⟩
      · exact Or.inl ⟨v, addCard_mono hd1 hv⟩
      · rcases List.mem_cons.mp hc' with rfl | hc'
        · left; rw [← hcid]; exact addCard_key hd1
        · exact Or.inr ⟨c', hc', hcid⟩)
    obtain ⟨d, hd⟩ := this
    exact ⟨d, by simp only [addCards, List.foldlM_cons, bind, Except.bind, hd1]; exact hd⟩

variable [BEq α]

theorem csBody_beqRefl (hα : BEqRefl α) : BEqRefl (CsBody α) := by
  intro a
  have h : ∀ x : α, (x == x) = true := hα
  simp only [BEq.beq, Bool.and_eq_true, decide_eq_true_eq, true_and]
  simp [h]

/-- **`build_coords` succeeds exactly on well-founded card sets**: (ids positive) a dictionary is returned iff
cards with the same id are equal and every card's reference chain ends in 0 -/
theorem buildCoords_ok_iff (hα : BEqSound α) (hr : BEqRefl α) (cards : List (Card (CsBody α)))
    (hpos : ∀ c ∈ cards, c.cid ≠ 0) :
    (∃ d, buildCoords cards = .ok d) ↔ NoConflict cards ∧ ∀ c ∈ cards, Rooted cards c.cid := by
  have hβ := csBody_beqSound hα
  have hrβ := csBody_beqRefl hr
  constructor
  · rintro ⟨d, hd⟩
    have hnc : NoConflict cards := by
      by_contra hcon
      obtain ⟨x, hx⟩ := buildCoords_refuses_conflict hα cards hcon
      rw [hx] at hd; cases hd
    refine ⟨hnc, ?_⟩
    by_contra hcon
    have hex : ∃ c ∈ cards, ¬ Rooted cards c.cid := by
      by_contra h2
      apply hcon
      intro c hc
      by_contra h3
      exact h2 ⟨c, hc, h3⟩
    refine buildCoords_refuses_closed hα (fun x => ¬ Rooted cards x) cards ?_ ?_ hex d hd
    · intro c hc hS hR
      obtain ⟨k, hk⟩ := hR
      exact hS ⟨k + 1, .step c hc rfl hk⟩
    · intro h; exact h ⟨0, .zero⟩
  · rintro ⟨hnc, hroot⟩
    cases hl : cards with
    | nil => exact ⟨[], by simp [buildCoords]⟩
    | cons a t =>
      rw [← hl]
      have hne : cards.isEmpty = false := by rw [hl]; rfl
      rcases buildLevels_spec hβ hrβ cards hpos hnc with ⟨r, h1, _⟩ | ⟨k', f', _, ⟨c, hc, hnr⟩, _⟩
      · have ho : buildOrder cards = .ok (levelOrder r) := by simp [buildOrder, h1, Except.map]
        have htop := buildOrder_topological hβ hrβ hpos ho
        obtain ⟨d, hd⟩ := addCards_ok_of_topological (levelOrder r) (coordRef0 : CoordRef α) (by
          intro pre c suf hs
          rcases htop pre c suf hs with h0 | h
          · left; rw [h0]; exact ⟨basic, by simp [coordRef0]⟩
          · exact Or.inr h)
        exact ⟨d, by simp [buildCoords, hne, ho, bind, Except.bind, hd]⟩
      · exact absurd (hroot c hc) hnr

/-- what is raised when the cards cannot be resolved: `RuntimeError("Could not resolve coordinate systems.
Need these coordinate cards: …")`, and the ids it prints are those of the *last level that did resolve*
(`ref_ids`; `[0]` if not even a first level exists), not the ids that are missing -/
theorem buildCoords_unresolved (hα : BEqSound α) (hr : BEqRefl α) (cards : List (Card (CsBody α)))
    (hpos : ∀ c ∈ cards, c.cid ≠ 0) (hnc : NoConflict cards) (hex : ∃ c ∈ cards, ¬ Rooted cards c.cid) :
    ∃ k f, buildCoords cards = .error (.unresolved f) ∧ (∀ x, x ∈ f ↔ RootedAt cards k x) ∧
      ∀ y, ¬ RootedAt cards (k + 1) y := by
  have hβ := csBody_beqSound hα
  have hrβ := csBody_beqRefl hr
  obtain ⟨c, hc, hnr⟩ := hex
  have hne : cards.isEmpty = false := by
    cases cards with
    | nil => cases hc
    | cons => rfl
  rcases buildLevels_spec hβ hrβ cards hpos hnc with ⟨r, h1, h2, _, h3⟩ | ⟨k', f', h1, _, h3, h4⟩
  · obtain ⟨p, hp, rfl⟩ := List.mem_map.mp ((h2 c).mpr hc)
    exact absurd ⟨p.2, (h3 p hp).2⟩ hnr
  · exact ⟨k', f', by simp [buildCoords, hne, buildOrder, h1, Except.map, bind, Except.bind], h3, h4⟩

/-- the result depends only on the *set* of cards: order and equal duplicates are irrelevant -/
theorem buildCoords_eq_of_mem_iff (hα : BEqSound α) (hr : BEqRefl α) {l₁ l₂ : List (Card (CsBody α))}
    (hm : ∀ c, c ∈ l₁ ↔ c ∈ l₂) (hnc : NoConflict l₁) : buildCoords l₁ = buildCoords l₂ := by
  have hβ := csBody_beqSound hα
  have hrβ := csBody_beqRefl hr
  have he : l₁.isEmpty = l₂.isEmpty := by
    cases l₁ with
    | nil =>
      cases l₂ with
      | nil => rfl
      | cons b u => exact absurd ((hm b).mpr List.mem_cons_self) (by simp)
    | cons a t =>
      cases l₂ with
      | nil => exact absurd ((hm a).mp List.mem_cons_self) (by simp)
      | cons b u => rfl
  have hnc2 := noConflict_of_mem_iff hm hnc
  obtain ⟨d₁, h₁⟩ := dedupe_ok_of_noConflict hrβ _
    (noConflict_of_mem_iff (fun c => ((sortCards_perm l₁).mem_iff (a := c)).symm) hnc)
  obtain ⟨d₂, h₂⟩ := dedupe_ok_of_noConflict hrβ _
    (noConflict_of_mem_iff (fun c => ((sortCards_perm l₂).mem_iff (a := c)).symm) hnc2)
  have hd := dedupe_sort_eq_of_mem_iff hβ hm h₁ h₂
  have hbl : buildLevels l₁ = buildLevels l₂ := by
    simp only [buildLevels, h₁, h₂, hd, bind, Except.bind]
  simp only [buildCoords, buildOrder, hbl, he]

end

/-! ### which id an unequal duplicate is reported with -/

/-- `dedupe` on an id-sorted list stops at the *smallest* id that has two different cards -/
theorem dedupe_error_spec [BEq β] (hβ : BEqSound β) (hr : BEqRefl β) :
    ∀ (s : List (Card β)) (c : Nat), s.Pairwise (fun a b => a.cid ≤ b.cid) →
      dedupe s = .error (.dupUnequal c) →
      (∃ a ∈ s, ∃ b ∈ s, a.cid = c ∧ b.cid = c ∧ a ≠ b) ∧
      (∀ a ∈ s, ∀ b ∈ s, a.cid = b.cid → a.cid < c → a = b) := by
  intro s
  induction s using dedupe.induct with
  | case1 => intro c _ h; simp [dedupe] at h
  | case2 a => intro c _ h; simp [dedupe] at h
  | case3 a b rest hcid heq ih =>
    intro c hs h
    simp only [dedupe, hcid, if_true, heq] at h
    have hab := card_eq_of_beq hβ heq
    obtain ⟨⟨x, hx, y, hy, h1, h2, h3⟩, h4⟩ := ih c (List.Pairwise.of_cons hs) h
    have mem : ∀ z, z ∈ a :: b :: rest → z ∈ b :: rest := by
      intro z hz
      rcases List.mem_cons.mp hz with rfl | hz
      · rw [hab]; exact List.mem_cons_self
      · exact hz
    exact ⟨⟨x, List.mem_cons_of_mem _ hx, y, List.mem_cons_of_mem _ hy, h1, h2, h3⟩,
      fun u hu v hv huv hlt => h4 u (mem u hu) v (mem v hv) huv hlt⟩
  | case4 a b rest hcid hne =>
    intro c hs h
    simp only [dedupe, hcid, if_true, hne] at h
    have h : a.cid = c := by injection h with h; injection h with h; rw [hcid]; exact h
    subst h
    refine ⟨⟨a, List.mem_cons_self, b, List.mem_cons_of_mem _ List.mem_cons_self, rfl, hcid.symm, ?_⟩, ?_⟩
    · intro hab
      apply hne
      rw [hab]
      exact card_beq_self hr b
    · intro u hu v hv huv hlt
      exfalso
      have hau : a.cid ≤ u.cid := by
        rcases List.mem_cons.mp hu with rfl | hu
        · exact Nat.le_refl _
        · exact (List.pairwise_cons.mp hs).1 u hu
      omega
  | case5 a b rest hcid ih =>
    intro c hs h
    simp only [dedupe, hcid, if_false] at h
    cases hd : dedupe (b :: rest) with
    | ok d' => simp [hd, Except.map] at h
    | error e =>
      simp only [hd, Except.map, Except.error.injEq] at h
      subst h
      obtain ⟨⟨x, hx, y, hy, h1, h2, h3⟩, h4⟩ := ih c (List.Pairwise.of_cons hs) hd
      refine ⟨⟨x, List.mem_cons_of_mem _ hx, y, List.mem_cons_of_mem _ hy, h1, h2, h3⟩, ?_⟩
      have hlt : ∀ z ∈ b :: rest, a.cid < z.cid := by
        intro z hz
        have hab : a.cid ≤ b.cid := (List.pairwise_cons.mp hs).1 b List.mem_cons_self
        have hbz : b.cid ≤ z.cid := by
          rcases List.mem_cons.mp hz with rfl | hz
          · exact Nat.le_refl _
          · exact (List.pairwise_cons.mp (List.Pairwise.of_cons hs)).1 z hz
        omega
      intro u hu v hv huv hltc
      rcases List.mem_cons.mp hu with hua | hu <;> rcases List.mem_cons.mp hv with hva | hv
      · rw [hua, hva]
      · have := hlt v hv; rw [hua] at huv; omega
      · have := hlt u hu; rw [hva] at huv; omega
      · exact h4 u hu v hv huv hltc

/-- the id in "duplicate but unequal coordinate systems detected. cid = …" is the smallest id that two
different cards share — whatever the order of the cards -/
theorem buildLevels_conflict_cid [BEq β] (hβ : BEqSound β) (hr : BEqRefl β) {cards : List (Card β)} {c : Nat}
    (h : buildLevels cards = .error (.dupUnequal c)) :
    (∃ a ∈ cards, ∃ b ∈ cards, a.cid = c ∧ b.cid = c ∧ a ≠ b) ∧
    (∀ a ∈ cards, ∀ b ∈ cards, a.cid = b.cid → a.cid < c → a = b) := by
  have hm : ∀ z, z ∈ sortCards cards ↔ z ∈ cards := fun z => (sortCards_perm cards).mem_iff
  cases hd : dedupe (sortCards cards) with
  | ok d =>
    exfalso
    simp only [buildLevels, hd, bind, Except.bind] at h
    -- the level loop never reports a duplicate
    have : ∀ (fuel : Nat) (front : List Nat) (loop : Nat) (sel : List (Card β × Nat)),
        levelLoop fuel front loop sel ≠ .error (.dupUnequal c) := by
      intro fuel
      induction fuel with
      | zero => intro front loop sel h; simp [levelLoop] at h
      | succ fuel ih =>
        intro front loop sel h
        simp only [levelLoop] at h
        split at h
        · cases h
        · split at h
          · cases h
          · exact ih _ _ _ h
    exact this _ _ _ _ h
  | error e =>
    simp only [buildLevels, hd, bind, Except.bind, Except.error.injEq] at h
    subst h
    obtain ⟨⟨x, hx, y, hy, h1, h2, h3⟩, h4⟩ := dedupe_error_spec hβ hr _ c (sortCards_pairwise cards) hd
    exact ⟨⟨x, (hm x).mp hx, y, (hm y).mp hy, h1, h2, h3⟩,
      fun u hu v hv => h4 u ((hm u).mpr hu) v ((hm v).mpr hv)⟩

section
variable {α : Type} [Add α] [Sub α] [Mul α] [Div α] [Neg α] [OfNat α 0] [OfNat α 1]
  [OfNat α 180] [TransOps α] [BEq α]

/-- **`build_coords` does not depend on the order of the cards — for every input**: the same dictionary, or the
same error with the same payload -/
theorem buildCoords_eq_of_perm_all (hα : BEqSound α) (hr : BEqRefl α) {l₁ l₂ : List (Card (CsBody α))}
    (hp : l₁.Perm l₂) : buildCoords l₁ = buildCoords l₂ := by
  by_cases hnc : NoConflict l₁
  · exact buildCoords_eq_of_mem_iff hα hr (fun _ => hp.mem_iff) hnc
  · have hβ := csBody_beqSound hα
    have hrβ := csBody_beqRefl hr
    have hnc2 : ¬ NoConflict l₂ := fun h => hnc (noConflict_of_mem_iff (fun c => (hp.mem_iff (a := c)).symm) h)
    obtain ⟨c₁, h₁⟩ := buildLevels_refuses_conflict hβ l₁ hnc
    obtain ⟨c₂, h₂⟩ := buildLevels_refuses_conflict hβ l₂ hnc2
    obtain ⟨⟨x₁, hx₁, y₁, hy₁, e1, e2, e3⟩, m₁⟩ := buildLevels_conflict_cid hβ hrβ h₁
    obtain ⟨⟨x₂, hx₂, y₂, hy₂, f1, f2, f3⟩, m₂⟩ := buildLevels_conflict_cid hβ hrβ h₂
    have hc : c₁ = c₂ := by
      rcases Nat.lt_trichotomy c₁ c₂ with hlt | heq | hgt
      · exact absurd (m₂ x₁ (hp.mem_iff.mp hx₁) y₁ (hp.mem_iff.mp hy₁) (e1.trans e2.symm) (by omega)) e3
      · exact heq
      · exact absurd (m₁ x₂ (hp.mem_iff.mpr hx₂) y₂ (hp.mem_iff.mpr hy₂) (f1.trans f2.symm) (by omega)) f3
    have hne₁ : l₁.isEmpty = false := by
      cases l₁ with
      | nil => cases hx₁
      | cons => rfl
    have hne₂ : l₂.isEmpty = false := by
      cases l₂ with
      | nil => cases hx₂
      | cons => rfl
    simp [buildCoords, hne₁, hne₂, buildOrder, h₁, h₂, hc, bind, Except.bind, Except.map]

end

end PyYetiVerif.Coord
