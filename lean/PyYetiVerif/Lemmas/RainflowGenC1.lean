import PyYetiVerif.Generated.CRain
import PyYetiVerif.Lemmas.RainflowGen1
/-! The generated C `rainflow1` with USE_FASTER_RAINFLOW_ROUTINE defined (Generated/CRain.lean,
`rainflow1_fast`) never fails and computes the table of the model `Rainflow.rainflow1` (core Lean only). -/
set_option linter.unusedSectionVars false
set_option linter.unusedVariables false
set_option linter.unusedSimpArgs false
namespace PyYetiVerif.RainflowGen
open PyYetiVerif.RainflowImp PyYetiVerif.Generated.CRain PyYetiVerif.Rainflow PyYetiVerif.RainflowEntry

variable {α : Type} [Ops α]

structure RelC1 (L m : Nat) (s : Rainflow1FastSt α) (st : List α) (rows : List (α × α × Bool)) : Prop where
  psize : s.pts.size = L
  hj : s.j = (st.length : Int) - 1
  hpts : ArrStack s.pts st
  hrfc : s.rf = ((rows.length * 3 : Nat) : Int)
  hrf : TabOK (L - 1) 3 s.rf_array (rows.map rfRow)
  hfull : s.fullcyclesp1 = 1 + ((rows.filter (·.2.2)).length : Int)
  hbound : st.length + rows.length + (rows.filter (·.2.2)).length = m
  hm : m ≤ L

theorem bodyC1_brk (habs : ∀ a b : α, Ops.abs (a - b) = absd a b) (peaks : Arr α) (L m : Nat)
    (s : Rainflow1FastSt α) (c b a : α) (rest : List α) (rows : List (α × α × Bool))
    (hR : RelC1 L m s (c :: b :: a :: rest) rows) (hlt : absd b c < absd a b) :
    ∃ s', rainflow1_fast_while1_body peaks (L : Int) s = some (Ctl.brk s') ∧
      RelC1 L m s' (c :: b :: a :: rest) rows := by
  obtain ⟨psize, hj, hpts, hrfc, hrf, hfull, hbound, hm⟩ := hR
  simp only [List.length_cons] at hj hbound
  have e2 : s.j - 2 = ((rest.length : Nat) : Int) := by omega
  have e1 : s.j - 1 = ((rest.length + 1 : Nat) : Int) := by omega
  have e0 : s.j = ((rest.length + 2 : Nat) : Int) := by omega
  obtain ⟨p0, p1, p2⟩ := hpts.top3
  unfold rainflow1_fast_while1_body
  simp only [e2, e1, Arr.get_natCast, p2, p1, Option.bind_eq_bind, Option.bind_some, habs]
  rw [e0]
  simp only [Arr.get_natCast, p0, Option.bind_some, hlt, if_true]
  refine ⟨_, rfl, ⟨psize, ?_, hpts, hrfc, hrf, hfull, by simpa using hbound, hm⟩⟩
  simp only [List.length_cons]; omega

theorem bodyC1_full (habs : ∀ a b : α, Ops.abs (a - b) = absd a b) (peaks : Arr α) (L m : Nat)
    (s : Rainflow1FastSt α) (c b a r : α) (rest : List α) (rows : List (α × α × Bool))
    (hR : RelC1 L m s (c :: b :: a :: r :: rest) rows) (hlt : ¬ absd b c < absd a b) :
    ∃ s', rainflow1_fast_while1_body peaks (L : Int) s = some (Ctl.next s') ∧
      RelC1 L m s' (c :: r :: rest) (rows ++ [(absd a b, a + b, true)]) := by
  obtain ⟨psize, hj, hpts, hrfc, hrf, hfull, hbound, hm⟩ := hR
  simp only [List.length_cons] at hj hbound
  have e2 : s.j - 2 = ((rest.length + 1 : Nat) : Int) := by omega
  have e1 : s.j - 1 = ((rest.length + 1 + 1 : Nat) : Int) := by omega
  have e0 : s.j = ((rest.length + 1 + 2 : Nat) : Int) := by omega
  obtain ⟨p0, p1, p2⟩ := hpts.top3
  simp only [List.length_cons] at p0 p1 p2
  have hrl : (rows.map rfRow).length = rows.length := by simp
  have hrow : rows.length < L - 1 := by omega
  have hps : rest.length + 1 < s.pts.size := by omega
  unfold rainflow1_fast_while1_body
  simp only [e2, e1, Arr.get_natCast, p2, p1, Option.bind_eq_bind, Option.bind_some, habs]
  rw [e0]
  have hne : ¬ (((rest.length + 1 + 2 : Nat) : Int) = 2) := by omega
  simp only [Arr.get_natCast, p0, Option.bind_some, hlt, if_false, hne, hrfc]
  rw [Arr2.setAt_of _ _ rows.length 0 _ (by rw [hrf.hc]; rfl) (by rw [hrf.hr]; exact hrow) (by rw [hrf.hc]; omega)]
  simp only [Option.bind_some]
  rw [Arr2.setAt_of _ _ rows.length 1 _ (by simp [hrf.hc]) (by simp [hrf.hr]; exact hrow) (by simp [hrf.hc])]
  simp only [Option.bind_some]
  rw [Arr2.setAt_of _ _ rows.length 2 _ (by simp [hrf.hc]; omega) (by simp [hrf.hr]; exact hrow) (by simp [hrf.hc])]
  simp only [Option.bind_some]
  rw [Arr.set_natCast _ _ _ hps]
  simp only [Option.bind_some, Option.pure_def]
  refine ⟨_, rfl, ⟨by simpa using psize, ?_, hpts.step4, ?_, ?_, ?_, ?_, hm⟩⟩
  · simp only [List.length_cons]; omega
  · simp only [List.length_append, List.length_cons, List.length_nil]; omega
  · have := hrf.push3 (by rw [hrl]; exact hrow) (Ops.half (absd a b)) (Ops.half (a + b)) Ops.c1
    rw [hrl] at this
    simpa [rfRow] using this
  · simp only [List.filter_append, List.length_append]
    simp; omega
  · simp only [List.length_cons, List.length_append, List.length_nil, List.filter_append]
    simp; omega

theorem bodyC1_half (habs : ∀ a b : α, Ops.abs (a - b) = absd a b) (peaks : Arr α) (L m : Nat)
    (s : Rainflow1FastSt α) (c b a : α) (rows : List (α × α × Bool))
    (hR : RelC1 L m s [c, b, a] rows) (hlt : ¬ absd b c < absd a b) :
    ∃ s', rainflow1_fast_while1_body peaks (L : Int) s = some (Ctl.next s') ∧
      RelC1 L m s' [c, b] (rows ++ [(absd a b, a + b, false)]) := by
  obtain ⟨psize, hj, hpts, hrfc, hrf, hfull, hbound, hm⟩ := hR
  simp only [List.length_cons, List.length_nil] at hj hbound
  have e0 : s.j = 2 := by omega
  obtain ⟨p0, p1, p2⟩ := hpts.top3
  simp only [List.length_nil] at p0 p1 p2
  have hrl : (rows.map rfRow).length = rows.length := by simp
  have hrow : rows.length < L - 1 := by omega
  have hps : 3 ≤ s.pts.size := by omega
  unfold rainflow1_fast_while1_body
  simp only [e0, Int.sub_self, Arr.get_zero, Arr.get_one, Arr.get_two, p2, p1, p0,
    Option.bind_eq_bind, Option.bind_some, habs, hlt, if_false, if_true, hrfc,
    show (2 : Int) - 1 = 1 from rfl]
  rw [Arr2.setAt_of _ _ rows.length 0 _ (by rw [hrf.hc]; rfl) (by rw [hrf.hr]; exact hrow) (by rw [hrf.hc]; omega)]
  simp only [Option.bind_some]
  rw [Arr2.setAt_of _ _ rows.length 1 _ (by simp [hrf.hc]) (by simp [hrf.hr]; exact hrow) (by simp [hrf.hc])]
  simp only [Option.bind_some]
  rw [Arr2.setAt_of _ _ rows.length 2 _ (by simp [hrf.hc]; omega) (by simp [hrf.hr]; exact hrow) (by simp [hrf.hc])]
  simp only [Option.bind_some]
  rw [Arr.set_zero _ _ (by omega)]
  simp only [Option.bind_some]
  rw [Arr.val_upd_ne _ _ _ _ (by omega) (by omega), p0]
  simp only [Option.bind_some]
  rw [Arr.set_one _ _ (by simp; omega)]
  simp only [Option.bind_some, Option.pure_def]
  refine ⟨_, rfl, ⟨by simpa using psize, ?_, hpts.step5, ?_, ?_, ?_, ?_, hm⟩⟩
  · simp
  · simp only [List.length_append, List.length_cons, List.length_nil]; omega
  · have := hrf.push3 (by rw [hrl]; exact hrow) (Ops.half (absd a b)) (Ops.half (a + b)) Ops.c05
    rw [hrl] at this
    simpa [rfRow] using this
  · simp only [List.filter_append, List.length_append]
    simp; omega
  · simp only [List.length_cons, List.length_append, List.length_nil, List.filter_append]
    simp; omega

/-- the `while j > 1` loop of the generated `_rainflow1` is the model's `reduce1` -/
theorem whileC1_sim (habs : ∀ a b : α, Ops.abs (a - b) = absd a b) (peaks : Arr α) (L m : Nat)
    (st : List α) : ∀ (s : Rainflow1FastSt α) (rows : List (α × α × Bool)) (fuel : Nat),
    RelC1 L m s st rows → st.length ≤ fuel → 0 < fuel →
    ∃ s', whileLoop (rainflow1_fast_while1_cond peaks (L : Int)) (rainflow1_fast_while1_body peaks (L : Int)) fuel s
        = some s' ∧ RelC1 L m s' (reduce1 st).1 (rows ++ (reduce1 st).2) := by
  fun_induction reduce1 st with
  | case1 c b a h =>
      intro s rows fuel hR hf h0
      obtain ⟨fuel, rfl⟩ : ∃ f, fuel = f + 1 := ⟨fuel - 1, by omega⟩
      obtain ⟨s', hb, hR'⟩ := bodyC1_brk habs peaks L m s c b a [] rows hR h
      have hc : rainflow1_fast_while1_cond peaks (L : Int) s = true := by
        simp [rainflow1_fast_while1_cond, hR.hj]
      refine ⟨s', ?_, by simpa using hR'⟩
      simp [whileLoop, hc, hb]
  | case2 c b a h =>
      intro s rows fuel hR hf h0
      obtain ⟨fuel, rfl⟩ : ∃ f, fuel = f + 1 := ⟨fuel - 1, by omega⟩
      obtain ⟨s', hb, hR'⟩ := bodyC1_half habs peaks L m s c b a rows hR h
      have hc : rainflow1_fast_while1_cond peaks (L : Int) s = true := by
        simp [rainflow1_fast_while1_cond, hR.hj]
      have hc' : rainflow1_fast_while1_cond peaks (L : Int) s' = false := by
        simp [rainflow1_fast_while1_cond, hR'.hj]
      obtain ⟨fuel, rfl⟩ : ∃ f, fuel = f + 1 := ⟨fuel - 1, by simp at hf; omega⟩
      refine ⟨s', ?_, hR'⟩
      simp [whileLoop, hc, hb, hc']
  | case3 c b a r rest h =>
      intro s rows fuel hR hf h0
      obtain ⟨fuel, rfl⟩ : ∃ f, fuel = f + 1 := ⟨fuel - 1, by omega⟩
      obtain ⟨s', hb, hR'⟩ := bodyC1_brk habs peaks L m s c b a (r :: rest) rows hR h
      have hc : rainflow1_fast_while1_cond peaks (L : Int) s = true := by
        simp [rainflow1_fast_while1_cond, hR.hj]; omega
      refine ⟨s', ?_, by simpa using hR'⟩
      simp [whileLoop, hc, hb]
  | case4 c b a r rest h res ih =>
      intro s rows fuel hR hf h0
      obtain ⟨fuel, rfl⟩ : ∃ f, fuel = f + 1 := ⟨fuel - 1, by omega⟩
      obtain ⟨s', hb, hR'⟩ := bodyC1_full habs peaks L m s c b a r rest rows hR h
      have hc : rainflow1_fast_while1_cond peaks (L : Int) s = true := by
        simp [rainflow1_fast_while1_cond, hR.hj]; omega
      obtain ⟨s'', hw, hR''⟩ := ih s' _ fuel hR' (by simp at hf ⊢; omega) (by simp at hf; omega)
      refine ⟨s'', ?_, ?_⟩
      · simp [whileLoop, hc, hb, hw]
      · simpa [res] using hR''
  | case5 st h1 h2 =>
      intro s rows fuel hR hf h0
      obtain ⟨fuel, rfl⟩ : ∃ f, fuel = f + 1 := ⟨fuel - 1, by omega⟩
      have hlen : st.length < 3 := by
        match st, h1, h2 with
        | [], _, _ => simp
        | [a], _, _ => simp
        | [a, b], _, _ => simp
        | [c, b, a], h1, _ => exact absurd rfl (h1 c b a)
        | c :: b :: a :: r :: rest, _, h2 => exact absurd rfl (h2 c b a r rest)
      have hc : rainflow1_fast_while1_cond peaks (L : Int) s = false := by
        simp [rainflow1_fast_while1_cond, hR.hj]; omega
      refine ⟨s, ?_, by simpa using hR⟩
      simp [whileLoop, hc]

/-- one pass of `for k in range(L)`: push `peaks[k]`, then the while loop -/
theorem forC1_1_sim (habs : ∀ a b : α, Ops.abs (a - b) = absd a b) (pts : List α) (k : Nat)
    (hk : k < pts.length) (fuel : Nat) (hf : pts.length ≤ fuel)
    (s : Rainflow1FastSt α) (st : List α) (rows : List (α × α × Bool))
    (hR : RelC1 pts.length k s st rows) :
    ∃ s', rainflow1_fast_for1_body fuel (Arr.ofList pts) (pts.length : Int) (k : Int) s = some s' ∧
      RelC1 pts.length (k + 1) s' (step1 (st, rows) pts[k]).1 (step1 (st, rows) pts[k]).2 := by
  have hR0 := hR
  obtain ⟨psize, hj, hpts, hrfc, hrf, hfull, hbound, hm⟩ := hR
  have ej : s.j + 1 = ((st.length : Nat) : Int) := by omega
  have hs : st.length < s.pts.size := by omega
  unfold rainflow1_fast_for1_body
  simp only [Arr.get_natCast, Arr.val_ofList, List.getElem?_eq_getElem hk, Option.bind_eq_bind,
    Option.bind_some, ej]
  rw [Arr.set_natCast _ _ _ hs]
  simp only [Option.bind_some]
  have hR1 : RelC1 pts.length (k + 1)
      ({ s with k := (k : Int), j := (st.length : Int), pts := s.pts.upd st.length pts[k] } : Rainflow1FastSt α)
      (pts[k] :: st) rows :=
    ⟨by simpa using psize, by simp, hpts.push hs _, hrfc, hrf, hfull, by simp; omega, by omega⟩
  obtain ⟨s', hw, hR'⟩ := whileC1_sim habs (Arr.ofList pts) pts.length (k + 1) (pts[k] :: st) _ rows fuel hR1
    (by simp; omega) (by omega)
  refine ⟨s', ?_, by simpa [step1] using hR'⟩
  simp [hw]

/-- step 6 of the generated `_rainflow1`: after `k` passes of `for k in range(j)` -/
structure FinC1 (L : Nat) (s0 : Rainflow1FastSt α) (l : List α) (rows0 : List (α × α × Bool)) (k : Nat)
    (s : Rainflow1FastSt α) : Prop where
  hp : s.pts = s0.pts
  hf : s.fullcyclesp1 = s0.fullcyclesp1
  hA : s.A = l[k]?
  hrfc : s.rf = (((rows0.length + k) * 3 : Nat) : Int)
  hrows : ∃ rowsk : List (α × α × Bool), rowsk.length = rows0.length + k ∧
      rowsk ++ finish1 (l.drop k) = rows0 ++ finish1 l ∧ TabOK (L - 1) 3 s.rf_array (rowsk.map rfRow)

theorem forC1_2_sim (habs : ∀ a b : α, Ops.abs (a - b) = absd a b) (peaks : Arr α) (L fuel : Nat)
    (s0 : Rainflow1FastSt α) (l : List α) (rows0 : List (α × α × Bool)) (k : Nat)
    (hk : k < l.length - 1) (hL : rows0.length + l.length ≤ L)
    (hl : ∀ i (h : i < l.length), s0.pts.val i = some l[i])
    (s : Rainflow1FastSt α) (hQ : FinC1 L s0 l rows0 k s) :
    ∃ s', rainflow1_fast_for2_body fuel peaks (L : Int) (k : Int) s = some s' ∧ FinC1 L s0 l rows0 (k + 1) s' := by
  obtain ⟨hp, hf, hA, hrfc, rowsk, hlen, happ, htab⟩ := hQ
  have hk0 : k < l.length := by omega
  have hk1 : k + 1 < l.length := by omega
  have e1 : (k : Int) + 1 = ((k + 1 : Nat) : Int) := by omega
  have er : s.rf = ((rowsk.length * 3 : Nat) : Int) := by rw [hrfc, hlen]
  have hrl : (rowsk.map rfRow).length = rowsk.length := by simp
  have hrow : rowsk.length < L - 1 := by omega
  rw [List.getElem?_eq_getElem hk0] at hA
  unfold rainflow1_fast_for2_body
  simp only [e1, Arr.get_natCast, hp, hl (k + 1) hk1, Option.bind_eq_bind, Option.bind_some, hA, er, habs]
  rw [Arr2.setAt_of _ _ rowsk.length 0 _ (by rw [htab.hc]; rfl) (by rw [htab.hr]; exact hrow) (by rw [htab.hc]; omega)]
  simp only [Option.bind_some]
  rw [Arr2.setAt_of _ _ rowsk.length 1 _ (by simp [htab.hc]) (by simp [htab.hr]; exact hrow) (by simp [htab.hc])]
  simp only [Option.bind_some]
  rw [Arr2.setAt_of _ _ rowsk.length 2 _ (by simp [htab.hc]; omega) (by simp [htab.hr]; exact hrow) (by simp [htab.hc])]
  simp only [Option.bind_some, Option.pure_def]
  refine ⟨_, rfl, ⟨rfl, hf, by simp [List.getElem?_eq_getElem hk1], ?_,
    rowsk ++ [(absd l[k] l[k + 1], l[k] + l[k + 1], false)], by simp; omega, ?_, ?_⟩⟩
  · simp only []; omega
  · have hd : l.drop k = l[k] :: l[k + 1] :: l.drop (k + 2) := by
      rw [List.drop_eq_getElem_cons hk0, List.drop_eq_getElem_cons hk1]
    have hd1 : l.drop (k + 1) = l[k + 1] :: l.drop (k + 2) := List.drop_eq_getElem_cons hk1
    rw [← happ, hd, finish1, ← hd1]
    simp
  · have := htab.push3 (by rw [hrl]; exact hrow) (Ops.half (absd l[k] l[k + 1])) (Ops.half (l[k] + l[k + 1])) Ops.c05
    rw [hrl] at this
    simpa [rfRow] using this


/-- everything after the allocations -/
theorem tailC1 (habs : ∀ a b : α, Ops.abs (a - b) = absd a b)
    (pts : List α) (h1 : 1 ≤ pts.length) (fuel : Nat) (hf : pts.length ≤ fuel)
    (s0 : Rainflow1FastSt α) (hR0 : RelC1 pts.length 0 s0 [] []) :
    ((forRange (pts.length : Int) (rainflow1_fast_for1_body fuel (Arr.ofList pts) (pts.length : Int)) s0).bind
      fun s => (s.pts.get 0).bind fun t29 =>
        (forRange s.j (rainflow1_fast_for2_body fuel (Arr.ofList pts) (pts.length : Int))
          { s with A := some t29 }).bind
            fun s => if s.fullcyclesp1 > 1 then s.rf_array.take ((pts.length : Int) - s.fullcyclesp1)
              else some s.rf_array).bind Arr2.toRows
      = some ((PyYetiVerif.Rainflow.rainflow1 pts).map rfRow) := by
  obtain ⟨s1, hloop1, hR1, hne1⟩ := forRange_inv
    (fun k s => RelC1 pts.length k s (fold1 pts k).1 (fold1 pts k).2 ∧ (0 < k → (fold1 pts k).1 ≠ []))
    pts.length (rainflow1_fast_for1_body fuel (Arr.ofList pts) (pts.length : Int)) s0
    ⟨by simpa [fold1] using hR0, by omega⟩
    (by
      intro k s hk ⟨hR, _⟩
      obtain ⟨s', hb, hR'⟩ := forC1_1_sim habs pts k hk fuel hf s _ _ hR
      refine ⟨s', hb, ?_, fun _ => fold1_nonempty pts k hk⟩
      rw [fold1_succ pts k hk]; exact hR')
  have hne := hne1 (by omega)
  rw [hloop1]
  simp only [Option.bind_some]
  generalize hst : (fold1 pts pts.length).1 = st at hR1 hne
  generalize hrows : (fold1 pts pts.length).2 = rows at hR1
  have hmodel : PyYetiVerif.Rainflow.rainflow1 pts = rows ++ finish1 st.reverse := by
    simp only [fold1, List.take_length] at hst hrows
    show (List.foldl step1 ([], []) pts).2 ++ finish1 (List.foldl step1 ([], []) pts).1.reverse = _
    rw [hst, hrows]
  obtain ⟨psize, hj, hpts, hrfc, hrf, hfull, hbound, hm⟩ := hR1
  have hlen : 0 < st.length := List.length_pos_iff.mpr hne
  have hb0 := hpts.bottom 0 hlen
  simp only [Arr.get_zero, hb0, Option.bind_some]
  have ej : s1.j = ((st.reverse.length - 1 : Nat) : Int) := by simp; omega
  rw [ej]
  obtain ⟨s2, hloop2, hQ⟩ := forRange_inv (FinC1 pts.length s1 st.reverse rows)
    (st.reverse.length - 1) (rainflow1_fast_for2_body fuel (Arr.ofList pts) (pts.length : Int))
    ({ s1 with A := some (st.reverse[0]'(by simpa using hlen)),
               j := ((st.reverse.length - 1 : Nat) : Int) })
    ⟨rfl, rfl, (List.getElem?_eq_getElem _).symm, by simpa using hrfc, rows, by simp, by simp, hrf⟩
    (by
      intro k s hk hQ
      exact forC1_2_sim habs _ _ fuel s1 st.reverse rows k hk (by simp; omega)
        (fun i hi => hpts.bottom i (by simpa using hi)) s hQ)
  rw [hloop2]
  simp only [Option.bind_some]
  obtain ⟨hp2, hf2, hA2, hrfc2, rowsk, hlenk, happ, htab⟩ := hQ
  have hd : finish1 (st.reverse.drop (st.reverse.length - 1)) = [] := by
    have : (st.reverse.drop (st.reverse.length - 1)).length = 1 := by simp; omega
    match hx : st.reverse.drop (st.reverse.length - 1), this with
    | [x], _ => simp [finish1]
  rw [hd, List.append_nil] at happ
  have hlr : ∀ r ∈ rowsk.map rfRow, r.length = 3 := by
    intro r hr; obtain ⟨x, _, rfl⟩ := List.mem_map.mp hr; simp [rfRow]
  by_cases hfc : s2.fullcyclesp1 > 1
  · simp only [hfc, if_true]
    have hstop : (pts.length : Int) - s2.fullcyclesp1 = (((rowsk.map rfRow).length : Nat) : Int) := by
      rw [hf2, hfull]; simp [hlenk]; omega
    rw [hstop, htab.take_toRows (by simp [hlenk]; omega) hlr]
    rw [happ, hmodel]
  · simp only [hfc, if_false, Option.bind_some]
    have hnf : (rows.filter (·.2.2)).length = 0 := by rw [hf2, hfull] at hfc; omega
    rw [htab.full_toRows (by simp [hlenk]; omega) hlr]
    rw [happ, hmodel]

/-- **the C `rainflow1` as translated (macro defined) computes the model's table** -/
theorem generated_c_rainflow1_fast_eq_model (habs : ∀ a b : α, Ops.abs (a - b) = absd a b)
    (pts : List α) (h1 : 1 ≤ pts.length) (fuel : Nat) (hf : pts.length ≤ fuel) :
    (rainflow1_fast fuel (Arr.ofList pts) (pts.length : Int)).bind Arr2.toRows
      = some ((PyYetiVerif.Rainflow.rainflow1 pts).map rfRow) := by
  unfold rainflow1_fast
  have e3 : ((pts.length : Nat) : Int) - 1 = ((pts.length - 1 : Nat) : Int) := by omega
  simp only [Option.bind_eq_bind, Arr.empty_natCast, Option.bind_some, e3, Option.pure_def,
    show (3 : Int) = ((3 : Nat) : Int) from rfl, Arr2.empty_natCast]
  exact tailC1 habs pts h1 fuel hf _
    ⟨by simp, by simp, by intro i hi; simp at hi, by simp,
      ⟨Arr2.wf_replicate _ _, rfl, rfl, by intro i hi; simp at hi⟩, by simp, by simp, by omega⟩

end PyYetiVerif.RainflowGen
