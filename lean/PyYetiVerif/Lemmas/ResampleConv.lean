import PyYetiVerif.Lemmas.Resample
import Mathlib.Algebra.BigOperators.Group.List.Basic
import Mathlib.Algebra.BigOperators.Group.Finset.Basic
import Mathlib.Data.List.GetD
/-! Helper lemmas for C19: the convolution step of `dsp.resample` (zero stuffing, padding, FIR
filter, lag removal, decimation) at the positions of the original samples, and constants. -/
namespace PyYetiVerif.Resample
section conv
variable {α : Type} [Ring α]

theorem sumL_eq_sum (l : List α) : sumL l = l.sum := by
  unfold sumL; rw [List.sum_eq_foldl]

omit [Ring α] in
theorem stuff_nil (z : α) (p : Nat) : stuff z p ([] : List α) = [] := by simp [stuff]

omit [Ring α] in
theorem stuff_cons (z : α) (p : Nat) (x : α) (xs : List α) :
    stuff z p (x :: xs) = x :: (List.replicate (p - 1) z ++ stuff z p xs) := by
  simp [stuff]

/-- zero stuffing keeps sample `k` at position `k·p` … -/
theorem stuff_getD_mul (p : Nat) (hp : 1 ≤ p) : ∀ (d : List α) (k : Nat),
    (stuff 0 p d).getD (k * p) 0 = d.getD k 0
  | [], k => by simp [stuff_nil]
  | x :: xs, 0 => by simp [stuff_cons]
  | x :: xs, k + 1 => by
      have h : (k + 1) * p = (k * p + (p - 1)) + 1 := by
        rw [Nat.add_mul]; omega
      rw [stuff_cons, h, List.getD_cons_succ, List.getD_append_right _ _ _ _ (by simp),
        List.length_replicate]
      have : k * p + (p - 1) - (p - 1) = k * p := by omega
      rw [this, stuff_getD_mul p hp xs k, List.getD_cons_succ]

/-- … and puts zeros everywhere else -/
theorem stuff_getD_off (p : Nat) (hp : 1 ≤ p) : ∀ (d : List α) (k t : Nat), 0 < t → t < p →
    (stuff 0 p d).getD (k * p + t) 0 = 0
  | [], k, t, _, _ => by simp [stuff_nil]
  | x :: xs, 0, t, h0, hlt => by
      obtain ⟨t', rfl⟩ : ∃ t', t = t' + 1 := ⟨t - 1, by omega⟩
      rw [stuff_cons, Nat.zero_mul, Nat.zero_add, List.getD_cons_succ,
        List.getD_append _ _ _ _ (by simp; omega)]
      exact List.getD_replicate _ (by omega)
  | x :: xs, k + 1, t, h0, hlt => by
      have h : (k + 1) * p + t = (k * p + t + (p - 1)) + 1 := by
        rw [Nat.add_mul]; omega
      rw [stuff_cons, h, List.getD_cons_succ, List.getD_append_right _ _ _ _ (by simp),
        List.length_replicate]
      have : k * p + t + (p - 1) - (p - 1) = k * p + t := by omega
      rw [this, stuff_getD_off p hp xs k t h0 hlt]

theorem sum_range_zero (f : Nat → α) : ∀ n, (∀ j, j < n → f j = 0) → ((List.range n).map f).sum = 0
  | 0, _ => by simp
  | n + 1, h => by
      rw [List.sum_range_succ, sum_range_zero f n (fun j hj => h j (by omega)), h n (by omega)]
      simp

theorem sum_range_single (f : Nat → α) (c : Nat) : ∀ n, c < n → (∀ j, j < n → j ≠ c → f j = 0) →
    ((List.range n).map f).sum = f c
  | 0, hc, _ => by omega
  | n + 1, hc, h => by
      rw [List.sum_range_succ]
      by_cases hcn : c = n
      · subst hcn
        rw [sum_range_zero f c (fun j hj => h j (by omega) (by omega))]
        simp
      · rw [sum_range_single f c n (by omega) (fun j hj hne => h j (by omega) hne),
          h n (by omega) (fun e => hcn e.symm)]
        simp

theorem firTerm_eq (fir x : List α) (i k : Nat) :
    (match fir[k]?, x[i - k]? with
      | some f, some v => f * v
      | _, _ => 0) = fir.getD k 0 * x.getD (i - k) 0 := by
  simp only [List.getD_eq_getElem?_getD]
  cases fir[k]? <;> cases x[i - k]? <;> simp

theorem firFilter_getD (fir x : List α) (i : Nat) (hi : i < x.length) :
    (firFilter fir x).getD i 0 =
      ((List.range (min (i + 1) fir.length)).map fun k => fir.getD k 0 * x.getD (i - k) 0).sum := by
  unfold firFilter
  rw [List.getD_eq_getElem?_getD, List.getElem?_map, List.getElem?_range hi]
  simp only [Option.map_some, Option.getD_some]
  rw [sumL_eq_sum]
  congr 1
  apply List.map_congr_left
  intro k _
  exact firTerm_eq fir x i k

theorem padded_getD (nz : Nat) (up : List α) (i : Nat) :
    (List.replicate nz (0 : α) ++ up ++ List.replicate nz 0).getD i 0 =
      if nz ≤ i then up.getD (i - nz) 0 else 0 := by
  simp only [List.getD_eq_getElem?_getD, List.getElem?_append, List.getElem?_replicate,
    List.length_append, List.length_replicate]
  by_cases h1 : nz ≤ i
  · rw [if_pos h1]
    by_cases h2 : i < nz + up.length
    · rw [if_pos h2, if_neg (by omega)]
    · have h : up[i - nz]? = none := List.getElem?_eq_none (by omega)
      rw [if_neg h2, h]
      split_ifs <;> rfl
  · rw [if_neg h1, if_pos (by omega), if_pos (by omega), if_pos (by omega)]
    rfl


/-- the convolution step of `resample` when upsampling by `p`: with a filter of order `2·pts·p`
whose taps vanish at every multiple of `p` except the centre `pts·p`, the filtered, lag-corrected
signal at position `k·p` is the centre tap times input sample `k` -/
theorem conv_at_multiple (p pts : Nat) (hp : 1 ≤ p) (fir d : List α)
    (hlen : fir.length = 2 * pts * p + 1)
    (hz : ∀ j, j ≤ 2 * pts → j ≠ pts → fir.getD (j * p) 0 = 0)
    (k : Nat) (hk : k < d.length) :
    (firFilter fir (List.replicate (pts * p) 0 ++ stuff 0 p d ++ List.replicate (pts * p) 0)).getD
        (2 * pts * p + k * p) 0 = fir.getD (pts * p) 0 * d.getD k 0 := by
  have hM : 2 * pts * p = pts * p + pts * p := by rw [Nat.mul_assoc]; omega
  have hkp : k * p + p ≤ d.length * p := by
    have : (k + 1) * p ≤ d.length * p := Nat.mul_le_mul_right p hk
    rwa [Nat.add_mul, Nat.one_mul] at this
  rw [firFilter_getD _ _ _ (by
    simp only [List.length_append, List.length_replicate, length_stuff _ _ hp]; omega)]
  rw [hlen, Nat.min_eq_right (by omega)]
  rw [sum_range_single _ (pts * p) _ (by omega)]
  · rw [padded_getD, if_pos (by omega)]
    have : 2 * pts * p + k * p - pts * p - pts * p = k * p := by omega
    rw [this, stuff_getD_mul p hp]
  · intro j hj hne
    rw [padded_getD]
    split_ifs with h1
    · -- r = i - j - pts p
      obtain ⟨a, t, ht, hr⟩ : ∃ a t, t < p ∧ 2 * pts * p + k * p - j - pts * p = a * p + t :=
        ⟨(2 * pts * p + k * p - j - pts * p) / p, (2 * pts * p + k * p - j - pts * p) % p,
          Nat.mod_lt _ (by omega), (Nat.div_add_mod' _ _).symm⟩
      rw [hr]
      rcases Nat.eq_zero_or_pos t with h0 | h0
      · subst h0
        rw [Nat.add_zero] at hr ⊢
        -- j = (pts + k - a) p
        have hja : j + a * p = pts * p + k * p := by omega
        have hale : a ≤ pts + k := by
          have : a * p ≤ (pts + k) * p := by rw [Nat.add_mul]; omega
          exact Nat.le_of_mul_le_mul_right this (by omega)
        have hj' : j = (pts + k - a) * p := by
          rw [Nat.sub_mul, Nat.add_mul]; omega
        have hle : pts + k - a ≤ 2 * pts := by
          have : (pts + k - a) * p ≤ (2 * pts) * p := by rw [← hj']; omega
          exact Nat.le_of_mul_le_mul_right this (by omega)
        have hne' : pts + k - a ≠ pts := by
          intro e; rw [e] at hj'; exact hne hj'
        rw [hj', hz _ hle hne']
        simp
      · rw [stuff_getD_off p hp d a t h0 ht]
        simp
    · simp

end conv

/-- `x[::q][j] = x[j·q]` -/
theorem everyQ_getElem? {β : Type} (q : Nat) (hq : 1 ≤ q) : ∀ (j : Nat) (l : List β),
    (everyQ q l)[j]? = l[j * q]?
  | _, [] => by rw [everyQ_nil]; simp
  | 0, x :: r => by rw [everyQ_cons]; simp
  | j + 1, x :: r => by
      rw [everyQ_cons, List.getElem?_cons_succ, everyQ_getElem? q hq j (r.drop (q - 1)),
        List.getElem?_drop]
      have : (j + 1) * q = (q - 1 + j * q) + 1 := by rw [Nat.add_mul]; omega
      rw [this, List.getElem?_cons_succ]

theorem stuff_one {β : Type} (z : β) (xs : List β) : stuff z 1 xs = xs := by
  induction xs with
  | nil => simp [stuff]
  | cons x r ih =>
      have : stuff z 1 (x :: r) = x :: stuff z 1 r := by simp [stuff]
      rw [this, ih]

section real
open Real

theorem firTaps_getD (p q M : Nat) (w : List ℝ) (hw : w.length = M + 1) (n : Nat) (hn : n ≤ M) :
    (firTaps p q M w).getD n 0 = tap p q M (w.getD n 0) n := by
  unfold firTaps
  rw [List.getD_eq_getElem?_getD, List.getD_eq_getElem?_getD, List.getElem?_zipWith,
    List.getElem?_range (by omega), List.getElem?_eq_getElem (by omega)]
  simp

/-- the pipeline of `resample` up to (not including) the decimation, with `p`, `q` already reduced -/
theorem filt_at_multiple (d : List ℝ) (p q pts : Nat) (w : List ℝ) (hq : 1 ≤ q) (hqp : q ≤ p)
    (hw : w.length = 2 * pts * p + 1) (k : Nat) (hk : k < d.length) :
    ((firFilter (firTaps p q (2 * pts * p) w)
        (List.replicate (pts * p) 0 ++ stuff 0 p d ++ List.replicate (pts * p) 0)).drop
          (2 * pts * p))[k * p]? = some (w.getD (pts * p) 0 * d.getD k 0) := by
  have hp : 1 ≤ p := by omega
  have t1 := fun wn => (taps_upsample p q pts hq hqp wn).1
  have t2 := fun wn => (taps_upsample p q pts hq hqp wn).2.1
  have t3 := fun wn => (taps_upsample p q pts hq hqp wn).2.2
  have hM : 2 * pts * p = pts * p + pts * p := by rw [Nat.mul_assoc]; omega
  have hkp : k * p + p ≤ d.length * p := by
    have : (k + 1) * p ≤ d.length * p := Nat.mul_le_mul_right p hk
    rwa [Nat.add_mul, Nat.one_mul] at this
  have hlenfir : (firTaps p q (2 * pts * p) w).length = 2 * pts * p + 1 := by
    simp [firTaps, hw]
  have key := conv_at_multiple p pts hp (firTaps p q (2 * pts * p) w) d hlenfir (by
    intro j hj hne
    have hjM : j * p ≤ 2 * pts * p := Nat.mul_le_mul_right p hj
    rw [firTaps_getD p q _ w hw _ hjM]
    rcases Nat.lt_or_gt_of_ne hne with h | h
    · have := t2 (w.getD (j * p) 0) (pts - j) (by omega) (by omega)
      have e : pts * p - (pts - j) * p = j * p := by
        rw [Nat.sub_mul]
        have : j * p ≤ pts * p := Nat.mul_le_mul_right p h.le
        omega
      rwa [e] at this
    · have := t1 (w.getD (j * p) 0) (j - pts) (by omega)
      have e : pts * p + (j - pts) * p = j * p := by
        rw [Nat.sub_mul]
        have : pts * p ≤ j * p := Nat.mul_le_mul_right p h.le
        omega
      rwa [e] at this) k hk
  rw [firTaps_getD p q _ w hw _ (by omega), t3] at key
  rw [List.getElem?_drop, ← key, List.getD_eq_getElem?_getD]
  have hlt : 2 * pts * p + k * p < (firFilter (firTaps p q (2 * pts * p) w)
      (List.replicate (pts * p) 0 ++ stuff 0 p d ++ List.replicate (pts * p) 0)).length := by
    rw [length_firFilter]
    simp only [List.length_append, List.length_replicate, length_stuff _ _ hp]; omega
  rw [List.getElem?_eq_getElem hlt]
  simp


/-- **upsampling keeps the samples**: when `q ≤ p` (after the gcd reduction `p'`, `q'`) and the
window's centre value is `1` (Kaiser), output sample `i·p'` of the whole pipeline is input sample
`i·q'` -/
theorem resample_keeps (data : List ℝ) (p q pts : Nat) (w : List ℝ) (hq : 1 ≤ q) (hqp : q ≤ p)
    (hw : w.length = 2 * pts * (p / Nat.gcd p q) + 1)
    (hc : w.getD (pts * (p / Nat.gcd p q)) 0 = 1)
    (i : Nat) (hi : i * (q / Nat.gcd p q) < data.length) :
    (resample data p q pts w)[i * (p / Nat.gcd p q)]? = data[i * (q / Nat.gcd p q)]? := by
  have hg : 0 < Nat.gcd p q := Nat.gcd_pos_of_pos_right p (by omega)
  have hq' : 1 ≤ q / Nat.gcd p q :=
    Nat.div_pos (Nat.le_of_dvd (by omega) (Nat.gcd_dvd_right p q)) hg
  have hqp' : q / Nat.gcd p q ≤ p / Nat.gcd p q := Nat.div_le_div_right hqp
  unfold resample
  dsimp only
  generalize p / Nat.gcd p q = p' at hq' hqp' hw hc hi ⊢
  generalize q / Nat.gcd p q = q' at hq' hqp' hi ⊢
  have hp' : 1 ≤ p' := by omega
  rw [Nat.max_eq_left hqp']
  have hM : 2 * pts * p' / 2 = pts * p' := by
    rw [Nat.mul_assoc]; exact Nat.mul_div_cancel_left _ (by omega)
  rw [hM]
  generalize hm : sumL data / (data.length : ℝ) = m
  have hup : (if 1 < p' then stuff (0 : ℝ) p' (data.map (· - m)) else data.map (· - m))
      = stuff 0 p' (data.map (· - m)) := by
    split
    · rfl
    · have : p' = 1 := by omega
      rw [this, stuff_one]
  rw [hup]
  generalize hfilt : (firFilter (firTaps p' q' (2 * pts * p') w)
      (List.replicate (pts * p') 0 ++ stuff 0 p' (data.map (· - m)) ++
        List.replicate (pts * p') 0)).drop (2 * pts * p') = filt
  have hdn : (if 1 < q' then everyQ q' filt else filt)[i * p']? = filt[i * q' * p']? := by
    have e : i * p' * q' = i * q' * p' := by ring
    split
    · rw [everyQ_getElem? q' hq', e]
    · have : q' = 1 := by omega
      subst this
      simp
  rw [List.getElem?_map, hdn, ← hfilt,
    filt_at_multiple (data.map (· - m)) p' q' pts w hq' hqp' hw (i * q') (by simpa using hi), hc]
  rw [List.getD_eq_getElem?_getD, List.getElem?_map, List.getElem?_eq_getElem hi]
  simp

/-- a list all of whose entries are zero -/
theorem sumL_zero (l : List ℝ) (h : ∀ x ∈ l, x = 0) : sumL l = 0 := by
  rw [sumL_eq_sum]
  exact List.sum_eq_zero h

theorem everyQ_mem {β : Type} (q : Nat) : ∀ (n : Nat) (l : List β), l.length = n →
    ∀ x ∈ everyQ q l, x ∈ l := by
  intro n
  induction n using Nat.strong_induction_on with
  | _ n ih =>
    intro l hl x hx
    cases l with
    | nil => rw [everyQ_nil] at hx; exact hx
    | cons y r =>
        rw [everyQ_cons] at hx
        rcases List.mem_cons.mp hx with h | h
        · rw [h]; exact List.mem_cons_self
        · have := ih (r.drop (q - 1)).length (by simp at hl ⊢; omega) _ rfl x h
          exact List.mem_cons_of_mem _ (List.mem_of_mem_drop this)

theorem firFilter_zero (fir x : List ℝ) (hx : ∀ v ∈ x, v = 0) : ∀ y ∈ firFilter fir x, y = 0 := by
  intro y hy
  unfold firFilter at hy
  obtain ⟨i, _, rfl⟩ := List.mem_map.mp hy
  apply sumL_zero
  intro t ht
  obtain ⟨k, _, rfl⟩ := List.mem_map.mp ht
  refine (firTerm_eq fir x i k).trans ?_
  have : x.getD (i - k) 0 = 0 := by
    rw [List.getD_eq_getElem?_getD]
    cases h : x[i - k]? with
    | none => rfl
    | some v => exact hx v (List.mem_of_getElem? h)
  rw [this]; simp

theorem stuff_zero (p : Nat) (d : List ℝ) (hd : ∀ v ∈ d, v = 0) : ∀ v ∈ stuff (0 : ℝ) p d, v = 0 := by
  intro v hv
  unfold stuff at hv
  obtain ⟨x, hx, hvx⟩ := List.mem_flatMap.mp hv
  rcases List.mem_cons.mp hvx with h | h
  · rw [h]; exact hd x hx
  · exact (List.mem_replicate.mp h).2

/-- **constants are reproduced**: the routine filters `data - mean(data)`, which is identically
zero for a constant signal, and adds the mean back — whatever the filter taps are -/
theorem resample_const (c : ℝ) (n p q pts : Nat) (w : List ℝ) (hn : 1 ≤ n) (hp : 1 ≤ p)
    (hq : 1 ≤ q) :
    resample (List.replicate n c) p q pts w = List.replicate (resampleLen n p q) c := by
  rw [List.eq_replicate_iff]
  refine ⟨by rw [length_resample _ p q pts w hp hq, List.length_replicate], ?_⟩
  intro y hy
  unfold resample at hy
  dsimp only at hy
  have hm : sumL (List.replicate n c) / ((List.replicate n c).length : ℝ) = c := by
    rw [sumL_eq_sum, List.sum_replicate, List.length_replicate, nsmul_eq_mul]
    have : (n : ℝ) ≠ 0 := by exact_mod_cast (by omega : n ≠ 0)
    field_simp
  rw [hm] at hy
  obtain ⟨z, hz, rfl⟩ := List.mem_map.mp hy
  have hd : ∀ v ∈ (List.replicate n c).map (· - c), v = 0 := by
    intro v hv
    obtain ⟨u, hu, rfl⟩ := List.mem_map.mp hv
    rw [(List.mem_replicate.mp hu).2]; ring
  have hup : ∀ v ∈ (if 1 < p / Nat.gcd p q then stuff (0 : ℝ) (p / Nat.gcd p q)
      ((List.replicate n c).map (· - c)) else (List.replicate n c).map (· - c)), v = 0 := by
    split
    · exact stuff_zero _ _ hd
    · exact hd
  have hpad : ∀ (nz : Nat) (u : List ℝ), (∀ v ∈ u, v = 0) →
      ∀ v ∈ List.replicate nz (0 : ℝ) ++ u ++ List.replicate nz 0, v = 0 := by
    intro nz u hu v hv
    rcases List.mem_append.mp hv with h | h
    · rcases List.mem_append.mp h with h | h
      · exact (List.mem_replicate.mp h).2
      · exact hu v h
    · exact (List.mem_replicate.mp h).2
  have hz0 : z = 0 := by
    split at hz
    · exact firFilter_zero _ _ (hpad _ _ hup) z
        (List.mem_of_mem_drop (everyQ_mem _ _ _ rfl z hz))
    · exact firFilter_zero _ _ (hpad _ _ hup) z (List.mem_of_mem_drop hz)
  rw [hz0]; ring

end real
end PyYetiVerif.Resample
