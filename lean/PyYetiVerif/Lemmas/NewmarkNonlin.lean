import PyYetiVerif.Lemmas.Newmark
/-!
Nonlinear terms of SolveNewmark (C17): `A⁻¹` pulled out of the pre-multiplied transforms (`A_applyT`,
`A_getNonlin`), and the specification of call sequences on one solver object (`SpecWorld`, `specCalls`,
`runCalls_eq_specCalls`).
-/
namespace PyYetiVerif.Newmark

section premult
variable {α V : Type} [Field α] [AddCommGroup V] [Module α V]
attribute [local instance] moduleVecOps

/-- the dictionary as the caller wrote it: raw transforms, nothing pre-multiplied -/
def rawTerms (dct : List ((Nat → List V → List α) × List V)) : List (NlTerm α V) :=
  dct.map fun ft => { func := ft.1, Tp := ft.2 }

theorem A_foldl_zip (A : V →ₗ[α] V) (S : Sys V α) (hsolve : ∀ x, A (S.solve x) = x) :
    ∀ (cols : List V) (z : List α) (acc : V),
      A ((List.zipWith (fun c zk => VecOps.smul zk c) (cols.map S.solve) z).foldl (· + ·) acc)
        = (List.zipWith (fun c zk => VecOps.smul zk c) cols z).foldl (· + ·) (A acc)
  | [], _, acc => by simp
  | _ :: _, [], acc => by simp
  | c :: cols, zk :: z, acc => by
    simp only [List.map_cons, List.zipWith_cons_cons, List.foldl_cons]
    rw [A_foldl_zip A S hsolve cols z]
    simp only [VecOps.smul, map_add, map_smul, hsolve]

/-- `A (T' @ z) = T @ z` for `T' = A⁻¹ T` column by column -/
theorem A_applyT (A : V →ₗ[α] V) (S : Sys V α) (hsolve : ∀ x, A (S.solve x) = x) (cols : List V)
    (z : List α) : A (applyT 0 (cols.map S.solve) z) = applyT 0 cols z := by
  unfold applyT
  rw [A_foldl_zip A S hsolve cols z 0, map_zero]

theorem A_foldl_terms (A : V →ₗ[α] V) (S : Sys V α) (hsolve : ∀ x, A (S.solve x) = x) (j : Nat)
    (hs : List V) :
    ∀ (dct : List ((Nat → List V → List α) × List V)) (acc : V),
      A ((defNonlin S dct).foldl (fun N t => N + applyT 0 t.Tp (t.func j hs)) acc)
        = (rawTerms dct).foldl (fun N t => N + applyT 0 t.Tp (t.func j hs)) (A acc)
  | [], acc => rfl
  | ft :: dct, acc => by
    simp only [defNonlin, rawTerms, List.map_cons, List.foldl_cons]
    have := A_foldl_terms A S hsolve j hs dct (acc + applyT 0 (ft.2.map S.solve) (ft.1 j hs))
    simp only [defNonlin, rawTerms] at this
    rw [this, map_add, A_applyT A S hsolve]

/-- `A N_j = Σ_i T_i func_i(d, j, h)`: the loop's pre-multiplied nonlinear term is `A⁻¹` of the documented one -/
theorem A_getNonlin (A : V →ₗ[α] V) (S : Sys V α) (hsolve : ∀ x, A (S.solve x) = x)
    (dct : List ((Nat → List V → List α) × List V)) (j : Nat) (hs : List V) :
    A (getNonlin 0 (defNonlin S dct) j hs) = getNonlin 0 (rawTerms dct) j hs := by
  unfold getNonlin
  rw [A_foldl_terms A S hsolve j hs dct 0, map_zero]

/-- all callbacks return zeros ⇒ the nonlinear term vanishes -/
theorem getNonlin_zero (S : Sys V α)
    (dct : List ((Nat → List V → List α) × List V))
    (hz : ∀ ft ∈ dct, ∀ j hs, ∀ z ∈ ft.1 j hs, z = 0) (j : Nat) (hs : List V) :
    getNonlin 0 (defNonlin S dct) j hs = 0 := by
  have happ : ∀ (cols : List V) (z : List α), (∀ x ∈ z, x = 0) → applyT (0 : V) cols z = 0 := by
    intro cols z hz0
    unfold applyT
    have : ∀ (cols : List V) (z : List α), (∀ x ∈ z, x = 0) → ∀ acc : V,
        (List.zipWith (fun c zk => VecOps.smul zk c) cols z).foldl (· + ·) acc = acc := by
      intro cols
      induction cols with
      | nil => intro z _ acc; simp
      | cons c cols ih =>
        intro z hz1 acc
        cases z with
        | nil => simp
        | cons zk z =>
          simp only [List.zipWith_cons_cons, List.foldl_cons]
          rw [ih z (fun x hx => hz1 x (List.mem_cons_of_mem _ hx))]
          have : zk = 0 := hz1 zk (List.mem_cons_self)
          simp [VecOps.smul, this]
    exact this cols z hz0 0
  unfold getNonlin
  have : ∀ (dct : List ((Nat → List V → List α) × List V)),
      (∀ ft ∈ dct, ∀ j hs, ∀ z ∈ ft.1 j hs, z = 0) → ∀ acc : V,
      (defNonlin S dct).foldl (fun N t => N + applyT 0 t.Tp (t.func j hs)) acc = acc := by
    intro dct
    induction dct with
    | nil => intro _ acc; rfl
    | cons ft dct ih =>
      intro h1 acc
      simp only [defNonlin, List.map_cons, List.foldl_cons]
      rw [happ _ _ (h1 ft List.mem_cons_self j hs), add_zero]
      exact ih (fun ft' hft => h1 ft' (List.mem_cons_of_mem _ hft)) acc
  exact this dct hz 0

end premult

/-! ### call sequences: specification by VALUES -/
section calls
variable {α V : Type} [Add V] [Sub V] [VecOps α V] [Mul α] [OfNat α 2] [OfNat α 3]

/-- specification state: the caller's arrays and the definition IN FORCE as the values the arrays held when
`def_nonlin` was last called -/
structure SpecWorld (α V : Type) where
  store : Nat → List V
  cur : List ((Nat → List V → List α) × List V)

/-- specification of one call: `tsolve` answers like a FRESH solver given `def_nonlin(cur)` -/
def SpecWorld.exec (S : Sys V α) (zero : V) (w : SpecWorld α V) :
    NlCall α V → SpecWorld α V × Option (Option (Hist V))
  | .setArr id cols => ({ w with store := fun i => if i = id then cols else w.store i }, none)
  | .defNonlin dct => ({ w with cur := dct.map fun fi => (fi.1, w.store fi.2) }, none)
  | .tsolve F d0 v0 => (w, some (run S (getNonlin zero (defNonlin S w.cur)) F d0 v0))

def specCalls (S : Sys V α) (zero : V) (w : SpecWorld α V) : List (NlCall α V) → List (Option (Hist V))
  | [] => []
  | c :: cs =>
    match w.exec S zero c with
    | (w', some out) => out :: specCalls S zero w' cs
    | (w', none) => specCalls S zero w' cs

/-- the object (which keeps only the pre-multiplied copies) behaves as the specification -/
theorem runCalls_eq_specCalls (S : Sys V α) (zero : V) :
    ∀ (cs : List (NlCall α V)) (w : NlWorld α V) (sw : SpecWorld α V),
      w.store = sw.store → w.obj = defNonlin S sw.cur →
      runCalls S zero w cs = specCalls S zero sw cs
  | [], _, _, _, _ => rfl
  | c :: cs, w, sw, hst, hobj => by
    cases c with
    | setArr id cols =>
      simp only [runCalls, specCalls, NlWorld.exec, SpecWorld.exec]
      exact runCalls_eq_specCalls S zero cs _ _ (by simp [hst]) hobj
    | defNonlin dct =>
      simp only [runCalls, specCalls, NlWorld.exec, SpecWorld.exec]
      exact runCalls_eq_specCalls S zero cs _ _ hst (by simp [hst])
    | tsolve F d0 v0 =>
      simp only [runCalls, specCalls, NlWorld.exec, SpecWorld.exec]
      rw [hobj, runCalls_eq_specCalls S zero cs w sw hst hobj]

end calls

end PyYetiVerif.Newmark
