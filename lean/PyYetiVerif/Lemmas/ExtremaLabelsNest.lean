import PyYetiVerif.Lemmas.ExtremaLabelsInv
/-!
Values of the by-label fold: `pickO` is what one compare-and-replace does to the VALUE; it is
associative with NaN as its unit, so the fold over envelopes of groups is the fold over everything.
-/
set_option linter.unusedSectionVars false
namespace PyYetiVerif.ExtremaLabels
open PyYetiVerif.Extrema

section pick
variable {α : Type}

/-- the value after one compare-and-replace -/
def pickO (better : α → α → Bool) (a b : Option α) : Option α := if nanRepl better a b then b else a

theorem upd_v {X L : Type} (better : α → α → Bool) (c n : Tr α X L) :
    (c.upd better n).v = pickO better c.v n.v := by
  unfold Tr.upd pickO
  split <;> rfl

theorem pickO_none_left (better : α → α → Bool) (b : Option α) : pickO better none b = b := by
  cases b <;> simp [pickO, nanRepl]

theorem pickO_none_right (better : α → α → Bool) (a : Option α) : pickO better a none = a := by
  cases a <;> simp [pickO, nanRepl]

theorem runTr_v {X L : Type} (better : α → α → Bool) (t : Tr α X L) (ts : List (Tr α X L)) :
    (runTr better t ts).v = (ts.map (·.v)).foldl (pickO better) t.v := by
  induction ts generalizing t with
  | nil => rfl
  | cons u ts ih =>
    simp only [runTr, List.foldl_cons, List.map_cons] at ih ⊢
    rw [ih, upd_v]

variable {β : Type} [LinearOrder β] {key : α → β} {better : α → α → Bool}

theorem pickO_assoc (hb : KeyOrder key better) (a b c : Option α) :
    pickO better (pickO better a b) c = pickO better a (pickO better b c) := by
  have := congrArg (·.v) (upd_assoc hb (⟨a, (), ()⟩ : Tr α Unit Unit) ⟨b, (), ()⟩ ⟨c, (), ()⟩)
  simpa [upd_v] using this

theorem foldl_pickO_shift (hb : KeyOrder key better) (a b : Option α) (vs : List (Option α)) :
    vs.foldl (pickO better) (pickO better a b) = pickO better a (vs.foldl (pickO better) b) := by
  induction vs generalizing b with
  | nil => rfl
  | cons c vs ih => simp only [List.foldl_cons]; rw [pickO_assoc hb, ih]

theorem foldl_pickO_start (hb : KeyOrder key better) (a : Option α) (vs : List (Option α)) :
    vs.foldl (pickO better) a = pickO better a (vs.foldl (pickO better) none) := by
  have := foldl_pickO_shift hb a none vs
  rwa [pickO_none_right] at this

/-- what the next level sees of a group: nothing when the group holds no value for the row, else the
group's own fold -/
def upperVals (better : α → α → Bool) : List (List (Option α)) → List (Option α)
  | [] => []
  | g :: gs => (if g = [] then [] else [g.foldl (pickO better) none]) ++ upperVals better gs

/-- folding the folds of the groups is folding everything -/
theorem foldl_upperVals (hb : KeyOrder key better) (gs : List (List (Option α))) (a : Option α) :
    (upperVals better gs).foldl (pickO better) a = gs.flatten.foldl (pickO better) a := by
  induction gs generalizing a with
  | nil => rfl
  | cons g gs ih =>
    simp only [upperVals, List.flatten_cons, List.foldl_append]
    by_cases hg : g = []
    · simp [hg, ih]
    · simp only [hg, if_false, List.foldl_cons, List.foldl_nil]
      rw [ih, ← foldl_pickO_start hb]

end pick

section rowvals
variable {α X Lb : Type} [LT α] [DecidableLT α] [DecidableEq Lb]

theorem rowFold_hi_v (d : Nat) (l : Lb) (es : List (Ev α X Lb)) :
    (rowFold d l es).hi.v = ((es.filterMap (evRow d l)).map (·.hi.v)).foldl (pickO gtB) none := by
  cases es with
  | nil => rfl
  | cons e0 rest =>
    simp only [rowFold]
    rw [foldl_upd2_eq]
    simp only [runTr_v, List.map_map]
    cases h : evRow d l e0 with
    | none => simp [h, fillCur, Function.comp_def]
    | some r0 => simp [h, pickO_none_left, Function.comp_def]

theorem rowFold_lo_v (d : Nat) (l : Lb) (es : List (Ev α X Lb)) :
    (rowFold d l es).lo.v = ((es.filterMap (evRow d l)).map (·.lo.v)).foldl (pickO ltB) none := by
  cases es with
  | nil => rfl
  | cons e0 rest =>
    simp only [rowFold]
    rw [foldl_upd2_eq]
    simp only [runTr_v, List.map_map]
    cases h : evRow d l e0 with
    | none => simp [h, fillCur, Function.comp_def]
    | some r0 => simp [h, pickO_none_left, Function.comp_def]

/-- an event holds a row for `l` exactly when it lists `l` (as many rows as labels) -/
theorem evRow_isSome_iff (d : Nat) (l : Lb) (e : Ev α X Lb) (hlen : e.cat.rows.length = e.cat.labels.length) :
    (evRow d l e).isSome ↔ l ∈ e.cat.labels := by
  constructor
  · intro h
    by_contra hn
    rw [evRow_eq_none hn] at h
    cases h
  · intro h
    obtain ⟨r, hr⟩ := rowAt_isSome (rows := e.cat.rows) h hlen
    simp [evRow, hr]

end rowvals

end PyYetiVerif.ExtremaLabels
