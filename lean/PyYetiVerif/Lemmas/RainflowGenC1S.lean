import PyYetiVerif.Generated.CRain
import PyYetiVerif.Lemmas.RainflowGen1
/-! The generated C `rainflow1` WITHOUT USE_FASTER_RAINFLOW_ROUTINE (Generated/CRain.lean, `rainflow1_slow`:
pass one only counts the full cycles, the table is then allocated with exactly `L - fullcyclesp1` rows and
pass two fills it) never fails and computes the table of the model `Rainflow.rainflow1` (core Lean only).
The additional invariant: the rows written so far are a prefix of the final table, whose length pass one
has counted (`fold1_rows_le`, `RelP2.hrf` with capacity `N`). -/
set_option linter.unusedSectionVars false
set_option linter.unusedVariables false
set_option linter.unusedSimpArgs false
namespace PyYetiVerif.RainflowGen
open PyYetiVerif.RainflowImp PyYetiVerif.Generated.CRain PyYetiVerif.Rainflow PyYetiVerif.RainflowEntry

variable {α : Type} [Ops α]

/-! ### the number of rows only grows along the input -/

theorem step1_rows_le (acc : List α × List (α × α × Bool)) (p : α) :
    acc.2.length ≤ (step1 acc p).2.length := by
  simp [step1]

theorem fold1_rows_le (pts : List α) (k : Nat) (hk : k ≤ pts.length) :
    (fold1 pts k).2.length ≤ (fold1 pts pts.length).2.length := by
  obtain ⟨d, hd⟩ : ∃ d, k + d = pts.length := ⟨pts.length - k, by omega⟩
  induction d generalizing k with
  | zero => simp at hd; subst hd; exact Nat.le_refl _
  | succ d ih =>
      have hk' : k < pts.length := by omega
      have := ih (k + 1) (by omega) (by omega)
      rw [fold1_succ pts k hk'] at this
      exact Nat.le_trans (step1_rows_le _ _) this

/-! ### pass one: the stack and the counter, no table -/

structure RelP1 (L m : Nat) (s : Rainflow1SlowSt α) (st : List α) (rows : List (α × α × Bool)) : Prop where
  psize : s.pts.size = L
  hj : s.j = (st.length : Int) - 1
  hpts : ArrStack s.pts st
  hfull : s.fullcyclesp1 = 1 + ((rows.filter (·.2.2)).length : Int)
  hbound : st.length + rows.length + (rows.filter (·.2.2)).length = m
  hm : m ≤ L

theorem bodyP1_brk (habs : ∀ a b : α, Ops.abs (a - b) = absd a b) (peaks : Arr α) (L m : Nat)
    (s : Rainflow1SlowSt α) (c b a : α) (rest : List α) (rows : List (α × α × Bool))
    (hR : RelP1 L m s (c :: b :: a :: rest) rows) (hlt : absd b c < absd a b) :
    ∃ s', rainflow1_slow_while1_body peaks (L : Int) s = some (Ctl.brk s') ∧
      RelP1 L m s' (c :: b :: a :: rest) rows := by
  obtain ⟨psize, hj, hpts, hfull, hbound, hm⟩ := hR
  simp only [List.length_cons] at hj hbound
  have e2 : s.j - 2 = ((rest.length : Nat) : Int) := by omega
  have e1 : s.j - 1 = ((rest.length + 1 : Nat) : Int) := by omega
  have e0 : s.j = ((rest.length + 2 : Nat) : Int) := by omega
  obtain ⟨p0, p1, p2⟩ := hpts.top3
  unfold rainflow1_slow_while1_body
  simp only [e2, e1, Arr.get_natCast, p2, p1, Option.bind_eq_bind, Option.bind_some, habs]
  rw [e0]
  simp only [Arr.get_natCast, p0, Option.bind_some, hlt, if_true]
  refine ⟨_, rfl, ⟨psize, ?_, hpts, hfull, by simpa using hbound, hm⟩⟩
  simp only [List.length_cons]; omega

theorem bodyP1_full (habs : ∀ a b : α, Ops.abs (a - b) = absd a b) (peaks : Arr α) (L m : Nat)
    (s : Rainflow1SlowSt α) (c b a r : α) (rest : List α) (rows : List (α × α × Bool))
    (hR : RelP1 L m s (c :: b :: a :: r :: rest) rows) (hlt : ¬ absd b c < absd a b) :
    ∃ s', rainflow1_slow_while1_body peaks (L : Int) s = some (Ctl.next s') ∧
      RelP1 L m s' (c :: r :: rest) (rows ++ [(absd a b, a + b, true)]) := by
  obtain ⟨psize, hj, hpts, hfull, hbound, hm⟩ := hR
  simp only [List.length_cons] at hj hbound
  have e2 : s.j - 2 = ((rest.length + 1 : Nat) : Int) := by omega
  have e1 : s.j - 1 = ((rest.length + 1 + 1 : Nat) : Int) := by omega
  have e0 : s.j = ((rest.length + 1 + 2 : Nat) : Int) := by omega
  obtain ⟨p0, p1, p2⟩ := hpts.top3
  simp only [List.length_cons] at p0 p1 p2
  have hps : rest.length + 1 < s.pts.size := by omega
  unfold rainflow1_slow_while1_body
  simp only [e2, e1, Arr.get_natCast, p2, p1, Option.bind_eq_bind, Option.bind_some, habs]
  rw [e0]
  have hne : ¬ (((rest.length + 1 + 2 : Nat) : Int) = 2) := by omega
  simp only [Arr.get_natCast, p0, Option.bind_some, hlt, if_false, hne]
  rw [Arr.set_natCast _ _ _ hps]
  simp only [Option.bind_some, Option.pure_def]
  refine ⟨_, rfl, ⟨by simpa using psize, ?_, hpts.step4, ?_, ?_, hm⟩⟩
  · simp only [List.length_cons]; omega
  · simp only [List.filter_append, List.length_append]
    simp; omega
  · simp only [List.length_cons, List.length_append, List.length_nil, List.filter_append]
    simp; omega

theorem bodyP1_half (habs : ∀ a b : α, Ops.abs (a - b) = absd a b) (peaks : Arr α) (L m : Nat)
    (s : Rainflow1SlowSt α) (c b a : α) (rows : List (α × α × Bool))
    (hR : RelP1 L m s [c, b, a] rows) (hlt : ¬ absd b c < absd a b) :
    ∃ s', rainflow1_slow_while1_body peaks (L : Int) s = some (Ctl.next s') ∧
      RelP1 L m s' [c, b] (rows ++ [(absd a b, a + b, false)]) := by
  obtain ⟨psize, hj, hpts, hfull, hbound, hm⟩ := hR
  simp only [List.length_cons, List.length_nil] at hj hbound
  have e0 : s.j = 2 := by omega
  obtain ⟨p0, p1, p2⟩ := hpts.top3
  simp only [List.length_nil] at p0 p1 p2
  have hps : 3 ≤ s.pts.size := by omega
  unfold rainflow1_slow_while1_body
  simp only [e0, Int.sub_self, Arr.get_zero, Arr.get_one, Arr.get_two, p2, p1, p0,
    Option.bind_eq_bind, Option.bind_some, habs, hlt, if_false, if_true,
    show (2 : Int) - 1 = 1 from rfl]
  rw [Arr.set_zero _ _ (by omega)]
  simp only [Option.bind_some]
  rw [Arr.val_upd_ne _ _ _ _ (by omega) (by omega), p0]
  simp only [Option.bind_some]
  rw [Arr.set_one _ _ (by simp; omega)]
  simp only [Option.bind_some, Option.pure_def]
  refine ⟨_, rfl, ⟨by simpa using psize, ?_, hpts.step5, ?_, ?_, hm⟩⟩
  · simp
  · simp only [List.filter_append, List.length_append]
    simp; omega
  · simp only [List.length_cons, List.length_append, List.length_nil, List.filter_append]
    simp; omega

theorem whileP1_sim (habs : ∀ a b : α, Ops.abs (a - b) = absd a b) (peaks : Arr α) (L m : Nat)
    (st : List α) : ∀ (s : Rainflow1SlowSt α) (rows : List (α × α × Bool)) (fuel : Nat),
    RelP1 L m s st rows → st.length ≤ fuel → 0 < fuel →
    ∃ s', whileLoop (rainflow1_slow_while1_cond peaks (L : Int)) (rainflow1_slow_while1_body peaks (L : Int)) fuel s
        = some s' ∧ RelP1 L m s' (reduce1 st).1 (rows ++ (reduce1 st).2) := by
  fun_induction reduce1 st with
  | case1 c b a h =>
      intro s rows fuel hR hf h0
      obtain ⟨fuel, rfl⟩ : ∃ f, fuel = f + 1 := ⟨fuel - 1, by omega⟩
      obtain ⟨s', hb, hR'⟩ := bodyP1_brk habs peaks L m s c b a [] rows hR h
      have hc : rainflow1_slow_while1_cond peaks (L : Int) s = true := by
        simp [rainflow1_slow_while1_cond, hR.hj]
      refine ⟨s', ?_, by simpa using hR'⟩
      simp [whileLoop, hc, hb]
  | case2 c b a h =>
      intro s rows fuel hR hf h0
      obtain ⟨fuel, rfl⟩ : ∃ f, fuel = f + 1 := ⟨fuel - 1, by omega⟩
      obtain ⟨s', hb, hR'⟩ := bodyP1_half habs peaks L m s c b a rows hR h
      have hc : rainflow1_slow_while1_cond peaks (L : Int) s = true := by
        simp [rainflow1_slow_while1_cond, hR.hj]
      have hc' : rainflow1_slow_while1_cond peaks (L : Int) s' = false := by
        simp [rainflow1_slow_while1_cond, hR'.hj]
      obtain ⟨fuel, rfl⟩ : ∃ f, fuel = f + 1 := ⟨fuel - 1, by simp at hf; omega⟩
      refine ⟨s', ?_, hR'⟩
      simp [whileLoop, hc, hb, hc']
  | case3 c b a r rest h =>
      intro s rows fuel hR hf h0
      obtain ⟨fuel, rfl⟩ : ∃ f, fuel = f + 1 := ⟨fuel - 1, by omega⟩
      obtain ⟨s', hb, hR'⟩ := bodyP1_brk habs peaks L m s c b a (r :: rest) rows hR h
      have hc : rainflow1_slow_while1_cond peaks (L : Int) s = true := by
        simp [rainflow1_slow_while1_cond, hR.hj]; omega
      refine ⟨s', ?_, by simpa using hR'⟩
      simp [whileLoop, hc, hb]
  | case4 c b a r rest h res ih =>
      intro s rows fuel hR hf h0
      obtain ⟨fuel, rfl⟩ : ∃ f, fuel = f + 1 := ⟨fuel - 1, by omega⟩
      obtain ⟨s', hb, hR'⟩ := bodyP1_full habs peaks L m s c b a r rest rows hR h
      have hc : rainflow1_slow_while1_cond peaks (L : Int) s = true := by
        simp [rainflow1_slow_while1_cond, hR.hj]; omega
      obtain ⟨s'', hw, hR''⟩ := ih s' _ fuel hR' (by simp at hf ⊢; omega) (by simp at hf; omega)
      refine ⟨s'', ?_, ?_⟩
      · simp [whileLoop, hc, hb, hw]
      · simpa [res] using hR''
  | case5 st h1 h2 =>
      intro s rows fuel hR hf h0
      obtain ⟨fuel, rfl⟩ : ∃ f, fuel = f + 1 := ⟨fuel - 1, by omega⟩
      have hlen : st.length < 3 := by
        match st, h1, h2 with
        | [], _, _ => simp
        | [a], _, _ => simp
        | [a, b], _, _ => simp
        | [c, b, a], h1, _ => exact absurd rfl (h1 c b a)
        | c :: b :: a :: r :: rest, _, h2 => exact absurd rfl (h2 c b a r rest)
      have hc : rainflow1_slow_while1_cond peaks (L : Int) s = false := by
        simp [rainflow1_slow_while1_cond, hR.hj]; omega
      refine ⟨s, ?_, by simpa using hR⟩
      simp [whileLoop, hc]

theorem forP1_sim (habs : ∀ a b : α, Ops.abs (a - b) = absd a b) (pts : List α) (k : Nat)
    (hk : k < pts.length) (fuel : Nat) (hf : pts.length ≤ fuel)
    (s : Rainflow1SlowSt α) (st : List α) (rows : List (α × α × Bool))
    (hR : RelP1 pts.length k s st rows) :
    ∃ s', rainflow1_slow_for1_body fuel (Arr.ofList pts) (pts.length : Int) (k : Int) s = some s' ∧
      RelP1 pts.length (k + 1) s' (step1 (st, rows) pts[k]).1 (step1 (st, rows) pts[k]).2 := by
  have hR0 := hR
  obtain ⟨psize, hj, hpts, hfull, hbound, hm⟩ := hR
  have ej : s.j + 1 = ((st.length : Nat) : Int) := by omega
  have hs : st.length < s.pts.size := by omega
  unfold rainflow1_slow_for1_body
  simp only [Arr.get_natCast, Arr.val_ofList, List.getElem?_eq_getElem hk, Option.bind_eq_bind,
    Option.bind_some, ej]
  rw [Arr.set_natCast _ _ _ hs]
  simp only [Option.bind_some]
  have hR1 : RelP1 pts.length (k + 1)
      ({ s with k := (k : Int), j := (st.length : Int), pts := s.pts.upd st.length pts[k] } : Rainflow1SlowSt α)
      (pts[k] :: st) rows :=
    ⟨by simpa using psize, by simp, hpts.push hs _, hfull, by simp; omega, by omega⟩
  obtain ⟨s', hw, hR'⟩ := whileP1_sim habs (Arr.ofList pts) pts.length (k + 1) (pts[k] :: st) _ rows fuel hR1
    (by simp; omega) (by omega)
  refine ⟨s', ?_, by simpa [step1] using hR'⟩
  simp [hw]

/-- **pass one counts exactly the full cycles of the model**, leaves `pts` with `L` cells, never fails;
so `L - fullcyclesp1` is the number of rows of the model's table -/
theorem passone_sim (habs : ∀ a b : α, Ops.abs (a - b) = absd a b)
    (pts : List α) (fuel : Nat) (hf : pts.length ≤ fuel)
    (s0 : Rainflow1SlowSt α) (hR0 : RelP1 pts.length 0 s0 [] []) :
    ∃ s1, forRange (pts.length : Int) (rainflow1_slow_for1_body fuel (Arr.ofList pts) (pts.length : Int)) s0 = some s1 ∧
      RelP1 pts.length pts.length s1 (fold1 pts pts.length).1 (fold1 pts pts.length).2 := by
  exact forRange_inv
    (fun k s => RelP1 pts.length k s (fold1 pts k).1 (fold1 pts k).2)
    pts.length (rainflow1_slow_for1_body fuel (Arr.ofList pts) (pts.length : Int)) s0
    (by simpa [fold1] using hR0)
    (by
      intro k s hk hR
      obtain ⟨s', hb, hR'⟩ := forP1_sim habs pts k hk fuel hf s _ _ hR
      refine ⟨s', hb, ?_⟩
      rw [fold1_succ pts k hk]; exact hR')

/-! ### pass two: the table has exactly `N` rows -/

structure RelP2 (L N m : Nat) (s : Rainflow1SlowSt α) (st : List α) (rows : List (α × α × Bool)) : Prop where
  psize : s.pts.size = L
  hj : s.j = (st.length : Int) - 1
  hpts : ArrStack s.pts st
  hrfc : s.rf = ((rows.length * 3 : Nat) : Int)
  hrf : TabOK N 3 s.rf_array (rows.map rfRow)
  hbound : st.length + rows.length + (rows.filter (·.2.2)).length = m
  hm : m ≤ L

theorem bodyP2_brk (habs : ∀ a b : α, Ops.abs (a - b) = absd a b) (peaks : Arr α) (L N m : Nat)
    (s : Rainflow1SlowSt α) (c b a : α) (rest : List α) (rows : List (α × α × Bool))
    (hR : RelP2 L N m s (c :: b :: a :: rest) rows) (hlt : absd b c < absd a b) :
    ∃ s', rainflow1_slow_while2_body peaks (L : Int) s = some (Ctl.brk s') ∧
      RelP2 L N m s' (c :: b :: a :: rest) rows := by
  obtain ⟨psize, hj, hpts, hrfc, hrf, hbound, hm⟩ := hR
  simp only [List.length_cons] at hj hbound
  have e2 : s.j - 2 = ((rest.length : Nat) : Int) := by omega
  have e1 : s.j - 1 = ((rest.length + 1 : Nat) : Int) := by omega
  have e0 : s.j = ((rest.length + 2 : Nat) : Int) := by omega
  obtain ⟨p0, p1, p2⟩ := hpts.top3
  unfold rainflow1_slow_while2_body
  simp only [e2, e1, Arr.get_natCast, p2, p1, Option.bind_eq_bind, Option.bind_some, habs]
  rw [e0]
  simp only [Arr.get_natCast, p0, Option.bind_some, hlt, if_true]
  refine ⟨_, rfl, ⟨psize, ?_, hpts, hrfc, hrf, by simpa using hbound, hm⟩⟩
  simp only [List.length_cons]; omega

theorem bodyP2_full (habs : ∀ a b : α, Ops.abs (a - b) = absd a b) (peaks : Arr α) (L N m : Nat)
    (s : Rainflow1SlowSt α) (c b a r : α) (rest : List α) (rows : List (α × α × Bool))
    (hR : RelP2 L N m s (c :: b :: a :: r :: rest) rows) (hrow : rows.length < N)
    (hlt : ¬ absd b c < absd a b) :
    ∃ s', rainflow1_slow_while2_body peaks (L : Int) s = some (Ctl.next s') ∧
      RelP2 L N m s' (c :: r :: rest) (rows ++ [(absd a b, a + b, true)]) := by
  obtain ⟨psize, hj, hpts, hrfc, hrf, hbound, hm⟩ := hR
  simp only [List.length_cons] at hj hbound
  have e2 : s.j - 2 = ((rest.length + 1 : Nat) : Int) := by omega
  have e1 : s.j - 1 = ((rest.length + 1 + 1 : Nat) : Int) := by omega
  have e0 : s.j = ((rest.length + 1 + 2 : Nat) : Int) := by omega
  obtain ⟨p0, p1, p2⟩ := hpts.top3
  simp only [List.length_cons] at p0 p1 p2
  have hrl : (rows.map rfRow).length = rows.length := by simp
  have hps : rest.length + 1 < s.pts.size := by omega
  unfold rainflow1_slow_while2_body
  simp only [e2, e1, Arr.get_natCast, p2, p1, Option.bind_eq_bind, Option.bind_some, habs]
  rw [e0]
  have hne : ¬ (((rest.length + 1 + 2 : Nat) : Int) = 2) := by omega
  simp only [Arr.get_natCast, p0, Option.bind_some, hlt, if_false, hne, hrfc]
  rw [Arr2.setAt_of _ _ rows.length 0 _ (by rw [hrf.hc]; rfl) (by rw [hrf.hr]; exact hrow) (by rw [hrf.hc]; omega)]
  simp only [Option.bind_some]
  rw [Arr2.setAt_of _ _ rows.length 1 _ (by simp [hrf.hc]) (by simp [hrf.hr]; exact hrow) (by simp [hrf.hc])]
  simp only [Option.bind_some]
  rw [Arr2.setAt_of _ _ rows.length 2 _ (by simp [hrf.hc]; omega) (by simp [hrf.hr]; exact hrow) (by simp [hrf.hc])]
  simp only [Option.bind_some]
  rw [Arr.set_natCast _ _ _ hps]
  simp only [Option.bind_some, Option.pure_def]
  refine ⟨_, rfl, ⟨by simpa using psize, ?_, hpts.step4, ?_, ?_, ?_, hm⟩⟩
  · simp only [List.length_cons]; omega
  · simp only [List.length_append, List.length_cons, List.length_nil]; omega
  · have := hrf.push3 (by rw [hrl]; exact hrow) (Ops.half (absd a b)) (Ops.half (a + b)) Ops.c1
    rw [hrl] at this
    simpa [rfRow] using this
  · simp only [List.length_cons, List.length_append, List.length_nil, List.filter_append]
    simp; omega

theorem bodyP2_half (habs : ∀ a b : α, Ops.abs (a - b) = absd a b) (peaks : Arr α) (L N m : Nat)
    (s : Rainflow1SlowSt α) (c b a : α) (rows : List (α × α × Bool))
    (hR : RelP2 L N m s [c, b, a] rows) (hrow : rows.length < N) (hlt : ¬ absd b c < absd a b) :
    ∃ s', rainflow1_slow_while2_body peaks (L : Int) s = some (Ctl.next s') ∧
      RelP2 L N m s' [c, b] (rows ++ [(absd a b, a + b, false)]) := by
  obtain ⟨psize, hj, hpts, hrfc, hrf, hbound, hm⟩ := hR
  simp only [List.length_cons, List.length_nil] at hj hbound
  have e0 : s.j = 2 := by omega
  obtain ⟨p0, p1, p2⟩ := hpts.top3
  simp only [List.length_nil] at p0 p1 p2
  have hrl : (rows.map rfRow).length = rows.length := by simp
  have hps : 3 ≤ s.pts.size := by omega
  unfold rainflow1_slow_while2_body
  simp only [e0, Int.sub_self, Arr.get_zero, Arr.get_one, Arr.get_two, p2, p1, p0,
    Option.bind_eq_bind, Option.bind_some, habs, hlt, if_false, if_true, hrfc,
    show (2 : Int) - 1 = 1 from rfl]
  rw [Arr2.setAt_of _ _ rows.length 0 _ (by rw [hrf.hc]; rfl) (by rw [hrf.hr]; exact hrow) (by rw [hrf.hc]; omega)]
  simp only [Option.bind_some]
  rw [Arr2.setAt_of _ _ rows.length 1 _ (by simp [hrf.hc]) (by simp [hrf.hr]; exact hrow) (by simp [hrf.hc])]
  simp only [Option.bind_some]
  rw [Arr2.setAt_of _ _ rows.length 2 _ (by simp [hrf.hc]; omega) (by simp [hrf.hr]; exact hrow) (by simp [hrf.hc])]
  simp only [Option.bind_some]
  rw [Arr.set_zero _ _ (by omega)]
  simp only [Option.bind_some]
  rw [Arr.val_upd_ne _ _ _ _ (by omega) (by omega), p0]
  simp only [Option.bind_some]
  rw [Arr.set_one _ _ (by simp; omega)]
  simp only [Option.bind_some, Option.pure_def]
  refine ⟨_, rfl, ⟨by simpa using psize, ?_, hpts.step5, ?_, ?_, ?_, hm⟩⟩
  · simp
  · simp only [List.length_append, List.length_cons, List.length_nil]; omega
  · have := hrf.push3 (by rw [hrl]; exact hrow) (Ops.half (absd a b)) (Ops.half (a + b)) Ops.c05
    rw [hrl] at this
    simpa [rfRow] using this
  · simp only [List.length_cons, List.length_append, List.length_nil, List.filter_append]
    simp; omega

/-- the second `while (j > 1)` is the model's `reduce1`, provided the rows it will append fit the table -/
theorem whileP2_sim (habs : ∀ a b : α, Ops.abs (a - b) = absd a b) (peaks : Arr α) (L N m : Nat)
    (st : List α) : ∀ (s : Rainflow1SlowSt α) (rows : List (α × α × Bool)) (fuel : Nat),
    RelP2 L N m s st rows → rows.length + (reduce1 st).2.length ≤ N → st.length ≤ fuel → 0 < fuel →
    ∃ s', whileLoop (rainflow1_slow_while2_cond peaks (L : Int)) (rainflow1_slow_while2_body peaks (L : Int)) fuel s
        = some s' ∧ RelP2 L N m s' (reduce1 st).1 (rows ++ (reduce1 st).2) := by
  fun_induction reduce1 st with
  | case1 c b a h =>
      intro s rows fuel hR hcap hf h0
      obtain ⟨fuel, rfl⟩ : ∃ f, fuel = f + 1 := ⟨fuel - 1, by omega⟩
      obtain ⟨s', hb, hR'⟩ := bodyP2_brk habs peaks L N m s c b a [] rows hR h
      have hc : rainflow1_slow_while2_cond peaks (L : Int) s = true := by
        simp [rainflow1_slow_while2_cond, hR.hj]
      refine ⟨s', ?_, by simpa using hR'⟩
      simp [whileLoop, hc, hb]
  | case2 c b a h =>
      intro s rows fuel hR hcap hf h0
      obtain ⟨fuel, rfl⟩ : ∃ f, fuel = f + 1 := ⟨fuel - 1, by omega⟩
      obtain ⟨s', hb, hR'⟩ := bodyP2_half habs peaks L N m s c b a rows hR (by simp at hcap; omega) h
      have hc : rainflow1_slow_while2_cond peaks (L : Int) s = true := by
        simp [rainflow1_slow_while2_cond, hR.hj]
      have hc' : rainflow1_slow_while2_cond peaks (L : Int) s' = false := by
        simp [rainflow1_slow_while2_cond, hR'.hj]
      obtain ⟨fuel, rfl⟩ : ∃ f, fuel = f + 1 := ⟨fuel - 1, by simp at hf; omega⟩
      refine ⟨s', ?_, hR'⟩
      simp [whileLoop, hc, hb, hc']
  | case3 c b a r rest h =>
      intro s rows fuel hR hcap hf h0
      obtain ⟨fuel, rfl⟩ : ∃ f, fuel = f + 1 := ⟨fuel - 1, by omega⟩
      obtain ⟨s', hb, hR'⟩ := bodyP2_brk habs peaks L N m s c b a (r :: rest) rows hR h
      have hc : rainflow1_slow_while2_cond peaks (L : Int) s = true := by
        simp [rainflow1_slow_while2_cond, hR.hj]; omega
      refine ⟨s', ?_, by simpa using hR'⟩
      simp [whileLoop, hc, hb]
  | case4 c b a r rest h res ih =>
      intro s rows fuel hR hcap hf h0
      obtain ⟨fuel, rfl⟩ : ∃ f, fuel = f + 1 := ⟨fuel - 1, by omega⟩
      have hcap' : rows.length + (res.2.length + 1) ≤ N := by simpa using hcap
      obtain ⟨s', hb, hR'⟩ := bodyP2_full habs peaks L N m s c b a r rest rows hR (by omega) h
      have hc : rainflow1_slow_while2_cond peaks (L : Int) s = true := by
        simp [rainflow1_slow_while2_cond, hR.hj]; omega
      obtain ⟨s'', hw, hR''⟩ := ih s' _ fuel hR' (by simp [res] at hcap' ⊢; omega)
        (by simp at hf ⊢; omega) (by simp at hf; omega)
      refine ⟨s'', ?_, ?_⟩
      · simp [whileLoop, hc, hb, hw]
      · simpa [res] using hR''
  | case5 st h1 h2 =>
      intro s rows fuel hR hcap hf h0
      obtain ⟨fuel, rfl⟩ : ∃ f, fuel = f + 1 := ⟨fuel - 1, by omega⟩
      have hlen : st.length < 3 := by
        match st, h1, h2 with
        | [], _, _ => simp
        | [a], _, _ => simp
        | [a, b], _, _ => simp
        | [c, b, a], h1, _ => exact absurd rfl (h1 c b a)
        | c :: b :: a :: r :: rest, _, h2 => exact absurd rfl (h2 c b a r rest)
      have hc : rainflow1_slow_while2_cond peaks (L : Int) s = false := by
        simp [rainflow1_slow_while2_cond, hR.hj]; omega
      refine ⟨s, ?_, by simpa using hR⟩
      simp [whileLoop, hc]

theorem forP2_sim (habs : ∀ a b : α, Ops.abs (a - b) = absd a b) (pts : List α) (N k : Nat)
    (hk : k < pts.length) (fuel : Nat) (hf : pts.length ≤ fuel)
    (s : Rainflow1SlowSt α) (st : List α) (rows : List (α × α × Bool))
    (hcap : (step1 (st, rows) pts[k]).2.length ≤ N)
    (hR : RelP2 pts.length N k s st rows) :
    ∃ s', rainflow1_slow_for2_body fuel (Arr.ofList pts) (pts.length : Int) (k : Int) s = some s' ∧
      RelP2 pts.length N (k + 1) s' (step1 (st, rows) pts[k]).1 (step1 (st, rows) pts[k]).2 := by
  have hR0 := hR
  obtain ⟨psize, hj, hpts, hrfc, hrf, hbound, hm⟩ := hR
  have ej : s.j + 1 = ((st.length : Nat) : Int) := by omega
  have hs : st.length < s.pts.size := by omega
  unfold rainflow1_slow_for2_body
  simp only [Arr.get_natCast, Arr.val_ofList, List.getElem?_eq_getElem hk, Option.bind_eq_bind,
    Option.bind_some, ej]
  rw [Arr.set_natCast _ _ _ hs]
  simp only [Option.bind_some]
  have hR1 : RelP2 pts.length N (k + 1)
      ({ s with k := (k : Int), j := (st.length : Int), pts := s.pts.upd st.length pts[k] } : Rainflow1SlowSt α)
      (pts[k] :: st) rows :=
    ⟨by simpa using psize, by simp, hpts.push hs _, hrfc, hrf, by simp; omega, by omega⟩
  obtain ⟨s', hw, hR'⟩ := whileP2_sim habs (Arr.ofList pts) pts.length N (k + 1) (pts[k] :: st) _ rows fuel hR1
    (by simpa [step1] using hcap) (by simp; omega) (by omega)
  refine ⟨s', ?_, by simpa [step1] using hR'⟩
  simp [hw]

/-- the last loop: after `k` passes of `for (k = 0; k < j; ++k)` -/
structure FinP (N : Nat) (s0 : Rainflow1SlowSt α) (l : List α) (rows0 : List (α × α × Bool)) (k : Nat)
    (s : Rainflow1SlowSt α) : Prop where
  hp : s.pts = s0.pts
  hA : s.A = l[k]?
  hrfc : s.rf = (((rows0.length + k) * 3 : Nat) : Int)
  hrows : ∃ rowsk : List (α × α × Bool), rowsk.length = rows0.length + k ∧
      rowsk ++ finish1 (l.drop k) = rows0 ++ finish1 l ∧ TabOK N 3 s.rf_array (rowsk.map rfRow)

theorem forP3_sim (habs : ∀ a b : α, Ops.abs (a - b) = absd a b) (peaks : Arr α) (L N fuel : Nat)
    (s0 : Rainflow1SlowSt α) (l : List α) (rows0 : List (α × α × Bool)) (k : Nat)
    (hk : k < l.length - 1) (hL : rows0.length + l.length ≤ N + 1)
    (hl : ∀ i (h : i < l.length), s0.pts.val i = some l[i])
    (s : Rainflow1SlowSt α) (hQ : FinP N s0 l rows0 k s) :
    ∃ s', rainflow1_slow_for3_body fuel peaks (L : Int) (k : Int) s = some s' ∧ FinP N s0 l rows0 (k + 1) s' := by
  obtain ⟨hp, hA, hrfc, rowsk, hlen, happ, htab⟩ := hQ
  have hk0 : k < l.length := by omega
  have hk1 : k + 1 < l.length := by omega
  have e1 : (k : Int) + 1 = ((k + 1 : Nat) : Int) := by omega
  have er : s.rf = ((rowsk.length * 3 : Nat) : Int) := by rw [hrfc, hlen]
  have hrl : (rowsk.map rfRow).length = rowsk.length := by simp
  have hrow : rowsk.length < N := by omega
  rw [List.getElem?_eq_getElem hk0] at hA
  unfold rainflow1_slow_for3_body
  simp only [e1, Arr.get_natCast, hp, hl (k + 1) hk1, Option.bind_eq_bind, Option.bind_some, hA, er, habs]
  rw [Arr2.setAt_of _ _ rowsk.length 0 _ (by rw [htab.hc]; rfl) (by rw [htab.hr]; exact hrow) (by rw [htab.hc]; omega)]
  simp only [Option.bind_some]
  rw [Arr2.setAt_of _ _ rowsk.length 1 _ (by simp [htab.hc]) (by simp [htab.hr]; exact hrow) (by simp [htab.hc])]
  simp only [Option.bind_some]
  rw [Arr2.setAt_of _ _ rowsk.length 2 _ (by simp [htab.hc]; omega) (by simp [htab.hr]; exact hrow) (by simp [htab.hc])]
  simp only [Option.bind_some, Option.pure_def]
  refine ⟨_, rfl, ⟨rfl, by simp [List.getElem?_eq_getElem hk1], ?_,
    rowsk ++ [(absd l[k] l[k + 1], l[k] + l[k + 1], false)], by simp; omega, ?_, ?_⟩⟩
  · simp only []; omega
  · have hd : l.drop k = l[k] :: l[k + 1] :: l.drop (k + 2) := by
      rw [List.drop_eq_getElem_cons hk0, List.drop_eq_getElem_cons hk1]
    have hd1 : l.drop (k + 1) = l[k + 1] :: l.drop (k + 2) := List.drop_eq_getElem_cons hk1
    rw [← happ, hd, finish1, ← hd1]
    simp
  · have := htab.push3 (by rw [hrl]; exact hrow) (Ops.half (absd l[k] l[k + 1])) (Ops.half (l[k] + l[k + 1])) Ops.c05
    rw [hrl] at this
    simpa [rfRow] using this

/-- pass two and the last loop, for a table of exactly `N = rows + stack - 1` rows -/
theorem tailP2 (habs : ∀ a b : α, Ops.abs (a - b) = absd a b)
    (pts : List α) (h1 : 1 ≤ pts.length) (fuel : Nat) (hf : pts.length ≤ fuel)
    (st : List α) (rows : List (α × α × Bool))
    (hst : (fold1 pts pts.length).1 = st) (hrows : (fold1 pts pts.length).2 = rows) (hne : st ≠ [])
    (sx : Rainflow1SlowSt α) (hRx : RelP2 pts.length (rows.length + st.length - 1) 0 sx [] []) :
    ((forRange (pts.length : Int) (rainflow1_slow_for2_body fuel (Arr.ofList pts) (pts.length : Int)) sx).bind
      fun s => (s.pts.get 0).bind fun t43 =>
        (forRange s.j (rainflow1_slow_for3_body fuel (Arr.ofList pts) (pts.length : Int))
          { s with A := some t43 }).bind fun s => some s.rf_array).bind Arr2.toRows
      = some ((PyYetiVerif.Rainflow.rainflow1 pts).map rfRow) := by
  have hlen : 0 < st.length := List.length_pos_iff.mpr hne
  have hle : ∀ k, k ≤ pts.length → (fold1 pts k).2.length ≤ rows.length := by
    intro k hk; rw [← hrows]; exact fold1_rows_le pts k hk
  obtain ⟨s2, hloop2, hR2⟩ := forRange_inv
    (fun k s => RelP2 pts.length (rows.length + st.length - 1) k s (fold1 pts k).1 (fold1 pts k).2)
    pts.length (rainflow1_slow_for2_body fuel (Arr.ofList pts) (pts.length : Int)) sx
    (by simpa [fold1] using hRx)
    (by
      intro k s hk hR
      have hcap := hle (k + 1) (by omega)
      rw [fold1_succ pts k hk] at hcap
      obtain ⟨s', hb, hR'⟩ := forP2_sim habs pts (rows.length + st.length - 1) k hk fuel hf s _ _
        (Nat.le_trans hcap (by omega)) hR
      refine ⟨s', hb, ?_⟩
      rw [fold1_succ pts k hk]; exact hR')
  rw [hloop2]
  simp only [Option.bind_some]
  rw [hst, hrows] at hR2
  have hmodel : PyYetiVerif.Rainflow.rainflow1 pts = rows ++ finish1 st.reverse := by
    simp only [fold1, List.take_length] at hst hrows
    show (List.foldl step1 ([], []) pts).2 ++ finish1 (List.foldl step1 ([], []) pts).1.reverse = _
    rw [hst, hrows]
  obtain ⟨psize, hj, hpts, hrfc, hrf, hbound, hm⟩ := hR2
  have hb0 := hpts.bottom 0 hlen
  simp only [Arr.get_zero, hb0, Option.bind_some]
  have ej : s2.j = ((st.reverse.length - 1 : Nat) : Int) := by simp; omega
  rw [ej]
  obtain ⟨s3, hloop3, hQ⟩ := forRange_inv (FinP (rows.length + st.length - 1) s2 st.reverse rows)
    (st.reverse.length - 1) (rainflow1_slow_for3_body fuel (Arr.ofList pts) (pts.length : Int))
    ({ s2 with A := some (st.reverse[0]'(by simpa using hlen)),
               j := ((st.reverse.length - 1 : Nat) : Int) })
    ⟨rfl, (List.getElem?_eq_getElem _).symm, by simpa using hrfc, rows, by simp, by simp, hrf⟩
    (by
      intro k s hk hQ
      exact forP3_sim habs _ _ _ fuel s2 st.reverse rows k hk (by simp; omega)
        (fun i hi => hpts.bottom i (by simpa using hi)) s hQ)
  rw [hloop3]
  simp only [Option.bind_some]
  obtain ⟨hp3, hA3, hrfc3, rowsk, hlenk, happ, htab⟩ := hQ
  have hd : finish1 (st.reverse.drop (st.reverse.length - 1)) = [] := by
    have : (st.reverse.drop (st.reverse.length - 1)).length = 1 := by simp; omega
    match hx : st.reverse.drop (st.reverse.length - 1), this with
    | [x], _ => simp [finish1]
  rw [hd, List.append_nil] at happ
  have hlr : ∀ r ∈ rowsk.map rfRow, r.length = 3 := by
    intro r hr; obtain ⟨x, _, rfl⟩ := List.mem_map.mp hr; simp [rfRow]
  rw [htab.full_toRows (by simp [hlenk]; omega) hlr]
  rw [happ, hmodel]

/-- everything after the allocation of `pts` -/
theorem tailP1 (habs : ∀ a b : α, Ops.abs (a - b) = absd a b)
    (pts : List α) (h1 : 1 ≤ pts.length) (fuel : Nat) (hf : pts.length ≤ fuel)
    (s0 : Rainflow1SlowSt α) (hR0 : RelP1 pts.length 0 s0 [] []) :
    ((forRange (pts.length : Int) (rainflow1_slow_for1_body fuel (Arr.ofList pts) (pts.length : Int)) s0).bind
      fun s => (Arr2.empty ((pts.length : Int) - s.fullcyclesp1) 3).bind fun t16 =>
        (forRange (pts.length : Int) (rainflow1_slow_for2_body fuel (Arr.ofList pts) (pts.length : Int))
          { s with j := -1, dims_0 := (pts.length : Int) - s.fullcyclesp1, dims_1 := 3, rf_array := t16, rf := 0 }).bind
          fun s => (s.pts.get 0).bind fun t43 =>
            (forRange s.j (rainflow1_slow_for3_body fuel (Arr.ofList pts) (pts.length : Int))
              { s with A := some t43 }).bind fun s => some s.rf_array).bind Arr2.toRows
      = some ((PyYetiVerif.Rainflow.rainflow1 pts).map rfRow) := by
  obtain ⟨s1, hloop1, hR1⟩ := passone_sim habs pts fuel hf s0 hR0
  rw [hloop1]
  simp only [Option.bind_some]
  have hne : (fold1 pts pts.length).1 ≠ [] := by
    have := fold1_nonempty pts (pts.length - 1) (by omega)
    rwa [show pts.length - 1 + 1 = pts.length by omega] at this
  generalize hst : (fold1 pts pts.length).1 = st at hR1 hne
  generalize hrows : (fold1 pts pts.length).2 = rows at hR1
  obtain ⟨psize1, hj1, hpts1, hfull1, hbound1, hm1⟩ := hR1
  have hlen : 0 < st.length := List.length_pos_iff.mpr hne
  have hN : (pts.length : Int) - s1.fullcyclesp1 = ((rows.length + st.length - 1 : Nat) : Int) := by
    rw [hfull1]; omega
  rw [hN, show (3 : Int) = ((3 : Nat) : Int) from rfl, Arr2.empty_natCast]
  simp only [Option.bind_some]
  exact tailP2 habs pts h1 fuel hf st rows hst hrows hne _
    ⟨psize1, by simp, by intro i hi; simp at hi, by simp,
      ⟨Arr2.wf_replicate _ _, rfl, rfl, by intro i hi; simp at hi⟩, by simp, by omega⟩

/-- **the C `rainflow1` as translated WITHOUT the macro (two passes) computes the model's table** -/
theorem generated_c_rainflow1_slow_eq_model (habs : ∀ a b : α, Ops.abs (a - b) = absd a b)
    (pts : List α) (h1 : 1 ≤ pts.length) (fuel : Nat) (hf : pts.length ≤ fuel) :
    (rainflow1_slow fuel (Arr.ofList pts) (pts.length : Int)).bind Arr2.toRows
      = some ((PyYetiVerif.Rainflow.rainflow1 pts).map rfRow) := by
  unfold rainflow1_slow
  simp only [Option.bind_eq_bind, Arr.empty_natCast, Option.bind_some, Option.pure_def]
  exact tailP1 habs pts h1 fuel hf _
    ⟨by simp, by simp, by intro i hi; simp at hi, by simp, by simp, by omega⟩

/-- pass one alone: the row count it hands to the allocation is the length of the model's table -/
theorem twopass_count_eq_length (habs : ∀ a b : α, Ops.abs (a - b) = absd a b)
    (pts : List α) (h1 : 1 ≤ pts.length) (fuel : Nat) (hf : pts.length ≤ fuel)
    (s0 : Rainflow1SlowSt α) (hR0 : RelP1 pts.length 0 s0 [] []) :
    ∃ s1, forRange (pts.length : Int) (rainflow1_slow_for1_body fuel (Arr.ofList pts) (pts.length : Int)) s0 = some s1 ∧
      (pts.length : Int) - s1.fullcyclesp1 = ((PyYetiVerif.Rainflow.rainflow1 pts).length : Int) := by
  obtain ⟨s1, hloop1, hR1⟩ := passone_sim habs pts fuel hf s0 hR0
  refine ⟨s1, hloop1, ?_⟩
  have hne : (fold1 pts pts.length).1 ≠ [] := by
    have := fold1_nonempty pts (pts.length - 1) (by omega)
    rwa [show pts.length - 1 + 1 = pts.length by omega] at this
  have hlen : 0 < (fold1 pts pts.length).1.length := List.length_pos_iff.mpr hne
  obtain ⟨_, _, _, hfull1, hbound1, _⟩ := hR1
  have hmodel : (PyYetiVerif.Rainflow.rainflow1 pts).length
      = (fold1 pts pts.length).2.length + ((fold1 pts pts.length).1.length - 1) := by
    simp only [fold1, List.take_length]
    show ((List.foldl step1 ([], []) pts).2 ++ finish1 (List.foldl step1 ([], []) pts).1.reverse).length = _
    rw [List.length_append, finish1_length, List.length_reverse]
  rw [hmodel, hfull1]; omega

end PyYetiVerif.RainflowGen
