import PyYetiVerif.Model.Psd
import PyYetiVerif.Lemmas.Fixtime
import Mathlib.Algebra.Order.Field.Basic
import Mathlib.Algebra.Order.Ring.Abs
import Mathlib.Algebra.BigOperators.Group.List.Basic
import Mathlib.Tactic.Linarith
import Mathlib.Tactic.Ring
import Mathlib.Tactic.FieldSimp
/-! Helper lemmas for C19 (`psd.rescale` bookkeeping and linear interpolation), over any linearly
ordered field.  `areaUpTo` / `bandArea` are the specification: the integral of the
piecewise-constant PSD (level `P[i]` on `[E[i], E[i+1])`, zero elsewhere) over `(-∞, x]` and over
`[a, b]`, written as a sum of `level × overlap length`. -/
namespace PyYetiVerif.Psd
open PyYetiVerif.Fixtime

section field
variable {α : Type} [Field α] [LinearOrder α] [IsStrictOrderedRing α]

/-- `∫_{-∞}^{x}` of the piecewise-constant PSD with band edges `E` and levels `P` -/
def areaUpTo : List α → List α → α → α
  | e0 :: e1 :: es, p :: ps, x => p * max 0 (min x e1 - e0) + areaUpTo (e1 :: es) ps x
  | _, _, _ => 0

/-- `∫_a^b` of the piecewise-constant PSD: `Σ P[i] * |[a, b] ∩ [E[i], E[i+1]]|` -/
def bandArea : List α → List α → α → α → α
  | e0 :: e1 :: es, p :: ps, a, b =>
      p * max 0 (min b e1 - max a e0) + bandArea (e1 :: es) ps a b
  | _, _, _, _ => 0

/-- total mean-square of the input: `Σ P[i] * (E[i+1] - E[i])` -/
def totalArea : List α → List α → α
  | e0 :: e1 :: es, p :: ps => p * (e1 - e0) + totalArea (e1 :: es) ps
  | _, _ => 0

theorem areaUpTo_of_le : ∀ (E P : List α) (x : α), (∀ e ∈ E, x ≤ e) → areaUpTo E P x = 0
  | [], _, _, _ => by simp [areaUpTo]
  | [_], _, _, _ => by simp [areaUpTo]
  | _ :: _ :: _, [], _, _ => by simp [areaUpTo]
  | e0 :: e1 :: es, p :: ps, x, h => by
      rw [areaUpTo, areaUpTo_of_le (e1 :: es) ps x (fun e he => h e (List.mem_cons_of_mem _ he))]
      have h0 : x ≤ e0 := h e0 (by simp)
      have h1 : x ≤ e1 := h e1 (by simp)
      rw [min_eq_left h1, max_eq_left (by linarith)]
      ring

theorem areaUpTo_of_ge : ∀ (E P : List α) (x : α), (∀ e ∈ E, e ≤ x) → E.Pairwise (· ≤ ·) →
    areaUpTo E P x = totalArea E P
  | [], _, _, _, _ => by simp [areaUpTo, totalArea]
  | [_], _, _, _, _ => by simp [areaUpTo, totalArea]
  | _ :: _ :: _, [], _, _, _ => by simp [areaUpTo, totalArea]
  | e0 :: e1 :: es, p :: ps, x, h, hs => by
      rw [areaUpTo, totalArea,
        areaUpTo_of_ge (e1 :: es) ps x (fun e he => h e (List.mem_cons_of_mem _ he))
          (List.pairwise_cons.mp hs).2]
      have h1 : e1 ≤ x := h e1 (by simp)
      have h01 : e0 ≤ e1 := (List.pairwise_cons.mp hs).1 e1 (by simp)
      rw [min_eq_right h1, max_eq_right (by linarith)]

theorem overlap_sub {a b e0 e1 : α} (hab : a ≤ b) (he : e0 ≤ e1) :
    max 0 (min b e1 - e0) - max 0 (min a e1 - e0) = max 0 (min b e1 - max a e0) := by
  simp only [max_def, min_def]
  split_ifs <;> linarith

/-- the band integral is the difference of the cumulative integrals -/
theorem bandArea_eq : ∀ (E P : List α) (a b : α), a ≤ b → E.Pairwise (· ≤ ·) →
    areaUpTo E P b - areaUpTo E P a = bandArea E P a b
  | [], _, _, _, _, _ => by simp [areaUpTo, bandArea]
  | [_], _, _, _, _, _ => by simp [areaUpTo, bandArea]
  | _ :: _ :: _, [], _, _, _, _ => by simp [areaUpTo, bandArea]
  | e0 :: e1 :: es, p :: ps, a, b, hab, hs => by
      have h01 : e0 ≤ e1 := (List.pairwise_cons.mp hs).1 e1 (by simp)
      rw [areaUpTo, areaUpTo, bandArea,
        ← bandArea_eq (e1 :: es) ps a b hab (List.pairwise_cons.mp hs).2,
        ← overlap_sub hab h01]
      ring

theorem cumFrom_cons (c a : α) (r : List α) : cumFrom c (a :: r) = (c + a) :: cumFrom (c + a) r := rfl

/-- `np.interp` of the cumulative sums on the band edges, from the first edge on -/
theorem interpGo_cum : ∀ (rest : List α) (e0 : α) (P : List α) (c x : α),
    (e0 :: rest).Pairwise (· < ·) → P.length = rest.length → e0 ≤ x →
    interpGo (e0 :: rest)
      (c :: cumFrom c (List.zipWith (· * ·) (List.zipWith (· - ·) rest (e0 :: rest).dropLast) P)) x
      = c + areaUpTo (e0 :: rest) P x
  | [], e0, P, c, x, _, hP, _ => by
      have : P = [] := List.length_eq_zero_iff.mp hP
      subst this
      simp [interpGo, areaUpTo, cumFrom]
  | e1 :: es, e0, [], c, x, _, hP, _ => by simp at hP
  | e1 :: es, e0, p :: ps, c, x, hs, hP, hx => by
      have h01 : e0 < e1 := (List.pairwise_cons.mp hs).1 e1 (by simp)
      have hs' := (List.pairwise_cons.mp hs).2
      have hd : (e0 :: e1 :: es).dropLast = e0 :: (e1 :: es).dropLast := rfl
      rw [hd]
      simp only [List.zipWith_cons_cons, cumFrom_cons]
      rw [interpGo, areaUpTo]
      split
      · rename_i hlt
        rw [areaUpTo_of_le (e1 :: es) ps x]
        · rw [min_eq_left hlt.le, max_eq_right (by linarith)]
          have : e1 - e0 ≠ 0 := by linarith
          field_simp
          ring
        · intro e he
          rcases List.mem_cons.mp he with h | h
          · rw [h]; exact hlt.le
          · exact le_trans hlt.le ((List.pairwise_cons.mp hs').1 e h).le
      · rename_i hge
        have hge : e1 ≤ x := not_lt.mp hge
        rw [interpGo_cum es e1 ps _ x hs' (by simpa using hP) hge,
          min_eq_right hge, max_eq_right (by linarith)]
        ring

/-- **cumulative area**: with contiguous input bands (edges `E`, strictly increasing),
`np.interp(x, Fa, ca)` is the integral of the piecewise-constant PSD up to `x`, for every `x`
(zero before the first edge, the total after the last). -/
theorem npInterp_cum (E P : List α) (x : α) (hs : E.Pairwise (· < ·)) (hE : 2 ≤ E.length)
    (hP : P.length + 1 = E.length) :
    npInterp (cumGrid E.dropLast E.tail) (cumVals E.dropLast E.tail P) x = areaUpTo E P x := by
  match E, hE with
  | e0 :: e1 :: es, _ =>
    have hg : cumGrid (e0 :: e1 :: es).dropLast (e0 :: e1 :: es).tail = e0 :: e1 :: es := rfl
    rw [hg]
    unfold cumVals npInterp
    simp only [List.tail_cons]
    split
    · rename_i hlt
      rw [areaUpTo_of_le]
      intro e he
      rcases List.mem_cons.mp he with h | h
      · rw [h]; exact hlt.le
      · exact le_trans hlt.le ((List.pairwise_cons.mp hs).1 e h).le
    · rename_i hge
      rw [interpGo_cum (e1 :: es) e0 P 0 x hs (by simpa using hP) (not_lt.mp hge)]
      ring

theorem sumL_eq_sum (l : List α) : sumL l = l.sum := by
  unfold sumL; rw [List.sum_eq_foldl]

theorem zipWith_band (E P : List α) (hs : E.Pairwise (· ≤ ·)) :
    ∀ (FL FU : List α), List.Forall₂ (· ≤ ·) FL FU →
      List.zipWith (· - ·) (FU.map (areaUpTo E P)) (FL.map (areaUpTo E P))
        = List.zipWith (bandArea E P) FL FU := by
  intro FL FU h
  induction h with
  | nil => simp
  | cons hab _ ih =>
      simp only [List.map_cons, List.zipWith_cons_cons, ih]
      rw [bandArea_eq E P _ _ hab hs]

/-- `ms` of `rescale(extendends=False)`: every band's mean-square is the integral of the
piecewise-constant input PSD over the band -/
theorem rescale_ms (E P FL FU : List α) (hs : E.Pairwise (· < ·)) (hE : 2 ≤ E.length)
    (hP : P.length + 1 = E.length) (hb : List.Forall₂ (· ≤ ·) FL FU) :
    (rescaleCore E.dropLast E.tail P FL FU false).ms = List.zipWith (bandArea E P) FL FU := by
  have hf : npInterp (cumGrid E.dropLast E.tail) (cumVals E.dropLast E.tail P) = areaUpTo E P :=
    funext fun x => npInterp_cum E P x hs hE hP
  show List.zipWith (· - ·) (FU.map (npInterp _ _)) (FL.map (npInterp _ _)) = _
  rw [hf]
  exact zipWith_band E P (hs.imp le_of_lt) FL FU hb

/-- sums of successive differences telescope -/
theorem sum_diff_telescope (F : α → α) : ∀ (rest : List α) (g0 : α),
    (List.zipWith (· - ·) (rest.map F) ((g0 :: rest).dropLast.map F)).sum
      = F ((g0 :: rest).getLast (by simp)) - F g0
  | [], g0 => by simp
  | g1 :: r, g0 => by
      have hd : (g0 :: g1 :: r).dropLast = g0 :: (g1 :: r).dropLast := rfl
      rw [hd]
      simp only [List.map_cons, List.zipWith_cons_cons, List.sum_cons]
      have := sum_diff_telescope F r g1
      rw [this, List.getLast_cons_cons]
      ring

theorem psd_times_width (ms w : List α) (hw : ∀ d ∈ w, d ≠ 0) (hl : ms.length = w.length) :
    List.zipWith (· * ·) (List.zipWith (fun m d => m * (1 / d)) ms w) w = ms := by
  induction ms generalizing w with
  | nil => simp
  | cons m r ih =>
      cases w with
      | nil => simp at hl
      | cons d w =>
          simp only [List.zipWith_cons_cons]
          rw [ih w (fun d' hd' => hw d' (List.mem_cons_of_mem _ hd')) (by simpa using hl)]
          have : d ≠ 0 := hw d (by simp)
          congr 1
          field_simp

/-- when the first output band does not start below the input and the last does not end above
it, `extendends` clips nothing -/
theorem clipEnds_inside (FLin FUin FL FU : List α)
    (h1 : ∀ a b, FL.head? = some a → FLin.head? = some b → b ≤ a)
    (h2 : ∀ a b, FU.getLast? = some a → FUin.getLast? = some b → a ≤ b) :
    clipEnds FLin FUin FL FU = (FL, FU) := by
  unfold clipEnds
  refine Prod.ext ?_ ?_
  · dsimp only
    split
    · rename_i a b ha hb
      rw [if_neg (not_lt.mpr (h1 a b ha hb))]
    · rfl
  · dsimp only
    split
    · rename_i a b ha hb
      rw [if_neg (not_lt.mpr (h2 a b ha hb))]
    · rfl

/-! ### linear interpolation at the break points -/

/-- `interp1d(xs, ys)(xs[k]) = ys[k]` for strictly increasing `xs` -/
theorem interp1dLin_at (xs ys : List α) (hs : xs.Pairwise (· < ·)) (hn : 2 ≤ xs.length)
    (hl : ys.length = xs.length) (k : Nat) (hk : k < xs.length) :
    interp1dLin xs ys xs[k] = ys[k]'(by omega) := by
  have hs' : xs.Pairwise (· ≤ ·) := hs.imp le_of_lt
  have hh : xs.head? = some xs[0] := by
    rw [List.head?_eq_getElem?, List.getElem?_eq_getElem]
  have hlast : xs.getLast? = some xs[xs.length - 1] := by
    rw [List.getLast?_eq_getElem?, List.getElem?_eq_getElem]
  unfold interp1dLin
  rw [hh, hlast]
  simp only
  rw [if_neg (not_lt.mpr (sorted_getElem_le hs' (Nat.zero_le k) hk)),
    if_neg (not_lt.mpr (sorted_getElem_le hs' (show k ≤ xs.length - 1 by omega) (by omega))),
    ssLeft_getElem_of_strict hs k hk]
  by_cases hk0 : k < 1
  · have : k = 0 := by omega
    subst this
    rw [if_pos hk0]
    rw [List.getElem?_eq_getElem (show 1 - 1 < xs.length by omega),
      List.getElem?_eq_getElem (show 1 < xs.length by omega),
      List.getElem?_eq_getElem (show 1 - 1 < ys.length by omega),
      List.getElem?_eq_getElem (show 1 < ys.length by omega)]
    simp
  · rw [if_neg hk0, if_neg (by omega)]
    rw [List.getElem?_eq_getElem (show k - 1 < xs.length by omega),
      List.getElem?_eq_getElem hk,
      List.getElem?_eq_getElem (show k - 1 < ys.length by omega),
      List.getElem?_eq_getElem (show k < ys.length by omega)]
    simp only
    have hlt : xs[k - 1] < xs[k] :=
      List.pairwise_iff_getElem.mp hs (k - 1) k (by omega) hk (by omega)
    have : xs[k] - xs[k - 1] ≠ 0 := by linarith
    field_simp
    ring

end field
end PyYetiVerif.Psd
