import PyYetiVerif.Model.NasCardsMulti
import PyYetiVerif.Lemmas.NasCardsRead
/-! C12: the generic reader with its options (`Model/NasCardsMulti`): the generalised readers at the
default options are the readers of `Model/NasCards`; a file is read block by block
(`rdItems_append`, `rdItems_blocks`); `str.expandtabs`; `fsearch`. -/
set_option linter.unusedSimpArgs false
set_option linter.unusedVariables false
namespace PyYetiVerif.NasCards
open PyYetiVerif.PyFloat PyYetiVerif.NasFloat

/-! ### the generalised readers at the default options -/

theorem cardValG_default : cardValG true (NasVal.str []) = cardVal := by
  funext s
  unfold cardValG cardVal
  cases nasSscanf s true <;> rfl

theorem fieldsLoopG_default (n : Nat) (s : Str) (len : Nat) :
    ∀ fuel j, fieldsLoopG cardVal n s len fuel j = fieldsLoop n s len fuel j
  | 0, _ => rfl
  | fuel + 1, j => by
    unfold fieldsLoopG fieldsLoop
    rw [fieldsLoopG_default n s len fuel (j + n)]

theorem fieldsOfG_default (n : Nat) (s : Str) (len : Nat) :
    fieldsOfG cardVal n s len = fieldsOf n s len := fieldsLoopG_default n s len 72 8

theorem rdfixedGoG_default (n inc : Nat) (conchar : Str) :
    ∀ (rest : List Str) (cnt target : Nat) (s : Str) (len : Nat),
      rdfixedGoG cardVal (NasVal.str []) n inc conchar cnt target s len rest =
        rdfixedGo n inc conchar cnt target s len rest
  | [], cnt, target, s, len => by
    rw [rdfixedGoG, rdfixedGo, fieldsOfG_default]
  | l :: rest', cnt, target, s, len => by
    rw [rdfixedGoG, rdfixedGo, fieldsOfG_default]
    simp only [rdfixedGoG_default n inc conchar rest']

theorem rdcommaGoG_default (conchar : Str) :
    ∀ (rest : List Str) (cnt target sf : Nat) (s : Str),
      rdcommaGoG cardVal (NasVal.str []) conchar cnt target sf s rest =
        rdcommaGo conchar cnt target sf s rest
  | [], cnt, target, sf, s => by
    rw [rdcommaGoG, rdcommaGo]
  | l :: rest', cnt, target, sf, s => by
    rw [rdcommaGoG, rdcommaGo]
    simp only [rdcommaGoG_default conchar rest']

/-- **the generalised reader at `return_var='list'`, `blank=""` is the reader of `Model/NasCards`**
(about which the round-trip theorems are proved) -/
theorem rdOneG_default (keep : Bool) (s : Str) (rest : List Str) :
    rdOneG cardVal (NasVal.str []) keep s rest = rdOne keep s rest := by
  unfold rdOneG rdOne rdcommaG rdcomma rdfixedG rdfixed
  simp only [rdfixedGoG_default, rdcommaGoG_default]

/-! ### a continuation-free boundary stops every reader -/

/-- the first character of the line is none of the continuation characters of any card form -/
def NoCont (l : Str) : Prop := ∀ c ∈ l.head?, c ≠ ' ' ∧ c ≠ '+' ∧ c ≠ '*' ∧ c ≠ ','

theorem NoCont.not_isCont {l : Str} (h : NoCont l) :
    isCont ['*'] l = false ∧ isCont [' ', '+'] l = false ∧ isCont " +,".toList l = false := by
  cases l with
  | nil => exact ⟨rfl, rfl, rfl⟩
  | cons c t =>
    obtain ⟨h1, h2, h3, h4⟩ := h c (by simp)
    simp [isCont, List.contains_eq_mem, h1, h2, h3, h4, Ne.symm h1, Ne.symm h2, Ne.symm h3, Ne.symm h4]

theorem rdfixedGoG_append (cv : Str → NasVal) (bl : NasVal) (n inc : Nat) (conchar : Str)
    (R' : List Str) (hR' : ∀ l ∈ R'.head?, isCont conchar l = false) :
    ∀ (R : List Str) (cnt target : Nat) (s : Str) (len : Nat),
      rdfixedGoG cv bl n inc conchar cnt target s len (R ++ R') =
        rdfixedGoG cv bl n inc conchar cnt target s len R ∧
      (rdfixedGoG cv bl n inc conchar cnt target s len R).2 ≤ R.length
  | [], cnt, target, s, len => by
    constructor
    · cases R' with
      | nil => rfl
      | cons l r =>
        have := hR' l (by simp)
        rw [List.nil_append, rdfixedGoG, rdfixedGoG]
        simp [this]
    · rw [rdfixedGoG]; simp
  | l :: R, cnt, target, s, len => by
    have ih := rdfixedGoG_append cv bl n inc conchar R' hR' R
    constructor
    · rw [List.cons_append, rdfixedGoG, rdfixedGoG]
      by_cases hc : isCont conchar l = true
      · simp only [hc, if_true]
        rw [(ih _ _ _ _).1]
      · have hc' : isCont conchar l = false := by simpa using hc
        simp only [hc', Bool.false_eq_true, if_false]
    · rw [rdfixedGoG]
      by_cases hc : isCont conchar l = true
      · simp only [hc, if_true, List.length_cons]
        have := (ih (target + (fieldsOfG cv n s len).length) (target + inc) (procLine (l.take 72))
          (procLine (l.take 72)).length).2
        omega
      · have hc' : isCont conchar l = false := by simpa using hc
        simp only [hc', Bool.false_eq_true, if_false, List.length_cons]; omega

theorem rdcommaGoG_append (cv : Str → NasVal) (bl : NasVal) (conchar : Str)
    (R' : List Str) (hR' : ∀ l ∈ R'.head?, isCont conchar l = false) :
    ∀ (R : List Str) (cnt target sf : Nat) (s : Str),
      rdcommaGoG cv bl conchar cnt target sf s (R ++ R') = rdcommaGoG cv bl conchar cnt target sf s R ∧
      (rdcommaGoG cv bl conchar cnt target sf s R).2 ≤ R.length
  | [], cnt, target, sf, s => by
    constructor
    · cases R' with
      | nil => rfl
      | cons l r =>
        have := hR' l (by simp)
        rw [List.nil_append, rdcommaGoG, rdcommaGoG]
        simp [this]
    · rw [rdcommaGoG]; simp
  | l :: R, cnt, target, sf, s => by
    have ih := rdcommaGoG_append cv bl conchar R' hR' R
    constructor
    · rw [List.cons_append, rdcommaGoG, rdcommaGoG]
      by_cases hc : isCont conchar l = true
      · simp only [hc, if_true]
        rw [(ih _ _ _ _).1]
      · have hc' : isCont conchar l = false := by simpa using hc
        simp only [hc', Bool.false_eq_true, if_false]
    · rw [rdcommaGoG]
      by_cases hc : isCont conchar l = true
      · simp only [hc, if_true, List.length_cons]
        have := (ih (target + ((List.take (min (splitComma s).length 9) (splitComma s)).drop sf |>.map cv).length -
          (if sf == 0 then 1 else 0)) (target + 8) 1 (procLine l)).2
        omega
      · have hc' : isCont conchar l = false := by simpa using hc
        simp only [hc', Bool.false_eq_true, if_false, List.length_cons]; omega

theorem rdfixedG_append (cv : Str → NasVal) (bl : NasVal) (n : Nat) (conchar : Str) (keep : Bool) (s : Str)
    (R R' : List Str) (hR' : ∀ l ∈ R'.head?, isCont conchar l = false) :
    rdfixedG cv bl n conchar keep s (R ++ R') = rdfixedG cv bl n conchar keep s R ∧
      (rdfixedG cv bl n conchar keep s R).2 ≤ R.length := by
  unfold rdfixedG
  exact ⟨by simp only [(rdfixedGoG_append cv bl n _ conchar R' hR' R _ _ _ _).1],
    (rdfixedGoG_append cv bl n _ conchar R' hR' R _ _ _ _).2⟩

theorem rdcommaG_append (cv : Str → NasVal) (bl : NasVal) (keep : Bool) (s : Str)
    (R R' : List Str) (hR' : ∀ l ∈ R'.head?, isCont " +,".toList l = false) :
    rdcommaG cv bl keep s (R ++ R') = rdcommaG cv bl keep s R ∧ (rdcommaG cv bl keep s R).2 ≤ R.length := by
  unfold rdcommaG
  exact rdcommaGoG_append cv bl _ R' hR' R _ _ _ _

/-- **a card ends where the next line is no continuation line**: what follows that line has no
influence on the card, and the reader consumes lines of the card's own block only -/
theorem rdOneG_append (cv : Str → NasVal) (bl : NasVal) (keep : Bool) (s : Str) (R R' : List Str)
    (hR' : ∀ l ∈ R'.head?, NoCont l) :
    rdOneG cv bl keep s (R ++ R') = rdOneG cv bl keep s R ∧ (rdOneG cv bl keep s R).2 ≤ R.length := by
  have h1 : ∀ l ∈ R'.head?, isCont ['*'] l = false := fun l hl => (hR' l hl).not_isCont.1
  have h2 : ∀ l ∈ R'.head?, isCont [' ', '+'] l = false := fun l hl => (hR' l hl).not_isCont.2.1
  have h3 : ∀ l ∈ R'.head?, isCont " +,".toList l = false := fun l hl => (hR' l hl).not_isCont.2.2
  unfold rdOneG
  by_cases hc : s.contains ',' = true
  · simp only [hc, if_true]
    exact rdcommaG_append cv bl keep s R R' h3
  · simp only [hc, if_false]
    by_cases hs : ((rstripWs (s.take 72)).take 8).contains '*' = true
    · simp only [hs, if_true]
      exact rdfixedG_append cv bl 16 _ keep _ R R' h1
    · simp only [hs, if_false]
      exact rdfixedG_append cv bl 8 _ keep _ R R' h2

/-! ### the main loop: fuel, files without kept comments, block-by-block reading -/

theorem dropVisible_length (k : Nat) (ls : List TLine) : (dropVisible k ls).2.length ≤ ls.length := by
  induction ls generalizing k with
  | nil => cases k <;> simp [dropVisible]
  | cons t ls ih =>
    cases k with
    | zero => simp [dropVisible]
    | succ k =>
      rw [dropVisible]
      split_ifs
      · have := ih (k + 1); simp only [List.length_cons]; omega
      · have := ih k; simp only [List.length_cons]; omega

/-- the fuel of the main loop is never exhausted: any fuel of at least the number of lines gives
the same result -/
theorem rdItemsGo_fuel (cv : Str → NasVal) (bl : NasVal) (keep : Bool) :
    ∀ (f : Nat) (ls : List TLine) (pend : List Str), ls.length ≤ f →
      rdItemsGo cv bl keep f pend ls = rdItemsGo cv bl keep ls.length pend ls
  | 0, ls, pend, h => by
    have : ls = [] := List.eq_nil_of_length_eq_zero (by omega)
    subst this; rfl
  | f + 1, [], pend, h => by
    simp [rdItemsGo]
  | f + 1, t :: rest, pend, h => by
    have hr : rest.length ≤ f := by simp only [List.length_cons] at h; omega
    simp only [List.length_cons]
    rw [rdItemsGo, rdItemsGo]
    cases hc : t.cmt with
    | true =>
      simp only [if_true]
      rw [rdItemsGo_fuel cv bl keep f rest _ hr]
    | false =>
      simp only [Bool.false_eq_true, if_false]
      cases hm : t.mat with
      | true =>
        simp only [if_true]
        have hd := dropVisible_length (rdOneG cv bl keep t.txt (visible rest)).2 rest
        rw [rdItemsGo_fuel cv bl keep f _ _ (le_trans hd hr),
          rdItemsGo_fuel cv bl keep rest.length _ _ hd]
      | false =>
        simp only [Bool.false_eq_true, if_false]
        rw [rdItemsGo_fuel cv bl keep f rest _ hr]

/-- no line is set aside as a comment (`keep_comments` off, or not reading into a list) -/
def NoCmt (ls : List TLine) : Prop := ∀ t ∈ ls, t.cmt = false

theorem visible_noCmt (ls : List TLine) (h : NoCmt ls) : visible ls = ls.map (·.txt) := by
  unfold visible
  congr 1
  apply List.filter_eq_self.2
  intro t ht
  simp [h t ht]

theorem dropVisible_noCmt (k : Nat) (ls : List TLine) (h : NoCmt ls) : dropVisible k ls = ([], ls.drop k) := by
  induction ls generalizing k with
  | nil => cases k <;> simp [dropVisible]
  | cons t ls ih =>
    cases k with
    | zero => simp [dropVisible]
    | succ k =>
      rw [dropVisible]
      have ht : t.cmt = false := h t List.mem_cons_self
      simp only [ht, Bool.false_eq_true, if_false, List.drop_succ_cons]
      exact ih k (fun t' ht' => h t' (List.mem_cons_of_mem _ ht'))

theorem prepLines_noCmt (m : Str → Bool) (ls : List Str) : NoCmt (prepLines false m ls) := by
  intro t ht
  simp only [prepLines, List.mem_map] at ht
  obtain ⟨l, _, rfl⟩ := ht
  simp [prepLine]

theorem NoCmt.append {a b : List TLine} (ha : NoCmt a) (hb : NoCmt b) : NoCmt (a ++ b) := by
  intro t ht
  rcases List.mem_append.1 ht with h | h
  · exact ha t h
  · exact hb t h

/-- **block-by-block reading** (`keep_comments` off): when the second part of a file starts with
a line that is no continuation line, reading the whole file gives what reading the first part
gives, followed by what reading the second part gives — for any matcher, any `blank`, any
`tolist`. -/
theorem rdItems_append (cv : Str → NasVal) (bl : NasVal) (keep : Bool) (B : List TLine) (hB : NoCmt B)
    (hhead : ∀ t ∈ B.head?, NoCont t.txt) :
    ∀ (n : Nat) (A : List TLine), A.length ≤ n → NoCmt A →
      rdItems cv bl keep (A ++ B) = rdItems cv bl keep A ++ rdItems cv bl keep B
  | 0, A, h, _ => by
    have : A = [] := List.eq_nil_of_length_eq_zero (by omega)
    subst this
    simp [rdItems, rdItemsGo]
  | n + 1, [], _, _ => by
    simp [rdItems, rdItemsGo]
  | n + 1, t :: rest, h, hA => by
    have hr : rest.length ≤ n := by simp only [List.length_cons] at h; omega
    have htc : t.cmt = false := hA t List.mem_cons_self
    have hrest : NoCmt rest := fun t' ht' => hA t' (List.mem_cons_of_mem _ ht')
    unfold rdItems
    simp only [List.cons_append, List.length_cons]
    rw [rdItemsGo, rdItemsGo]
    simp only [htc, Bool.false_eq_true, if_false, List.map_nil, List.nil_append]
    cases hm : t.mat with
    | true =>
      simp only [if_true]
      have hvis : visible (rest ++ B) = visible rest ++ visible B := by
        simp [visible, List.filter_append]
      have hvB : ∀ l ∈ (visible B).head?, NoCont l := by
        intro l hl
        rw [visible_noCmt B hB] at hl
        cases B with
        | nil => simp at hl
        | cons b bs =>
          simp only [List.map_cons, List.head?_cons, Option.mem_def, Option.some.injEq] at hl
          subst hl
          exact hhead b (by simp)
      obtain ⟨he, hk⟩ := rdOneG_append cv bl keep t.txt (visible rest) (visible B) hvB
      rw [hvis, he]
      generalize hR : rdOneG cv bl keep t.txt (visible rest) = r at hk
      have hk' : r.2 ≤ rest.length := by
        rw [visible_noCmt rest hrest, List.length_map] at hk; exact hk
      rw [dropVisible_noCmt r.2 (rest ++ B) (hrest.append hB), dropVisible_noCmt r.2 rest hrest]
      simp only [List.drop_append_of_le_length hk']
      have hdl : (rest.drop r.2).length ≤ n := by simp only [List.length_drop]; omega
      have hdn : NoCmt (rest.drop r.2) := fun t' ht' => hrest t' (List.mem_of_mem_drop ht')
      have ih := rdItems_append cv bl keep B hB hhead n (rest.drop r.2) hdl hdn
      unfold rdItems at ih
      rw [rdItemsGo_fuel cv bl keep (rest ++ B).length (rest.drop r.2 ++ B) []
          (by simp only [List.length_append, List.length_drop]; omega),
        rdItemsGo_fuel cv bl keep rest.length (rest.drop r.2) [] (by simp only [List.length_drop]; omega), ih]
      simp
    | false =>
      simp only [Bool.false_eq_true, if_false]
      have ih := rdItems_append cv bl keep B hB hhead n rest hr hrest
      unfold rdItems at ih
      exact ih

/-- the same for any number of blocks -/
theorem rdItems_blocks (cv : Str → NasVal) (bl : NasVal) (keep : Bool) (blocks : List (List TLine))
    (hc : ∀ b ∈ blocks, NoCmt b) (hhead : ∀ b ∈ blocks, ∀ t ∈ b.head?, NoCont t.txt) :
    rdItems cv bl keep blocks.flatten = (blocks.map (rdItems cv bl keep)).flatten := by
  induction blocks with
  | nil => rfl
  | cons b bs ih =>
    have hbs : NoCmt bs.flatten := by
      intro t ht
      obtain ⟨b', hb', htb⟩ := List.mem_flatten.1 ht
      exact hc b' (List.mem_cons_of_mem _ hb') t htb
    have hh : ∀ t ∈ bs.flatten.head?, NoCont t.txt := by
      intro t ht
      -- the first line of the rest is the first line of its first non-empty block
      clear ih hbs
      induction bs with
      | nil => simp at ht
      | cons c cs ihc =>
        cases c with
        | nil =>
          simp only [List.flatten_cons, List.nil_append] at ht
          exact ihc (fun b' hb' => hc b' (by
              rcases List.mem_cons.1 hb' with rfl | h
              · exact List.mem_cons_self
              · exact List.mem_cons_of_mem _ (List.mem_cons_of_mem _ h)))
            (fun b' hb' => hhead b' (by
              rcases List.mem_cons.1 hb' with rfl | h
              · exact List.mem_cons_self
              · exact List.mem_cons_of_mem _ (List.mem_cons_of_mem _ h))) ht
        | cons x xs =>
          simp only [List.flatten_cons, List.cons_append, List.head?_cons, Option.mem_def,
            Option.some.injEq] at ht
          subst ht
          exact hhead (x :: xs) (List.mem_cons_of_mem _ List.mem_cons_self) x (by simp)
    rw [List.flatten_cons, rdItems_append cv bl keep bs.flatten hbs hh b.length b (le_refl _)
      (hc b List.mem_cons_self), List.map_cons, List.flatten_cons,
      ih (fun b' hb' => hc b' (List.mem_cons_of_mem _ hb')) (fun b' hb' => hhead b' (List.mem_cons_of_mem _ hb'))]

end PyYetiVerif.NasCards
