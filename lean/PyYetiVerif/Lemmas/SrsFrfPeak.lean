import PyYetiVerif.Lemmas.SrsFrf
import Mathlib.Tactic.Positivity
/-! Helper lemmas for C03: `p_peak = Q sqrt(sqrt(1 + 2/Q²) - 1)` maximises the transmissibility
`|H(p)|² = (1 + (p/Q)²) / ((1 - p²)² + (p/Q)²)` (srs.py, docstring of `srs_frf`: "At what frequency is
the amplitude of the transfer function maximized?").  With `s = p²`, `c = 1/Q²`:
`N(t) D(s) - N(s) D(t) = N(t) (s - t)² + (c t² + 2 t - 2)(s - t)` for `N(s) = 1 + c s`,
`D(s) = (1 - s)² + c s`, and `t = p_peak²` is the positive root of `c t² + 2 t - 2`. -/
set_option linter.unusedVariables false
set_option linter.unusedSimpArgs false
namespace PyYetiVerif.Srs

theorem pPeak_real (Q : ℝ) : pPeak Q = Q * Real.sqrt (Real.sqrt (1 + 2 / (Q * Q)) - 1) := rfl

/-- `p_peak² = Q² (sqrt(1 + 2/Q²) - 1)` -/
theorem pPeak_sq (Q : ℝ) (hQ : 0 < Q) :
    pPeak Q * pPeak Q = Q * Q * (Real.sqrt (1 + 2 / (Q * Q)) - 1) := by
  have h1 : (1 : ℝ) ≤ Real.sqrt (1 + 2 / (Q * Q)) := by
    have h0 : 0 < 2 / (Q * Q) := by positivity
    have := Real.sqrt_le_sqrt (show (1 : ℝ) ≤ 1 + 2 / (Q * Q) by linarith)
    rwa [Real.sqrt_one] at this
  rw [pPeak_real]
  have := Real.mul_self_sqrt (sub_nonneg.mpr h1)
  calc Q * Real.sqrt (Real.sqrt (1 + 2 / (Q * Q)) - 1) * (Q * Real.sqrt (Real.sqrt (1 + 2 / (Q * Q)) - 1))
      = Q * Q * (Real.sqrt (Real.sqrt (1 + 2 / (Q * Q)) - 1) * Real.sqrt (Real.sqrt (1 + 2 / (Q * Q)) - 1)) := by ring
    _ = Q * Q * (Real.sqrt (1 + 2 / (Q * Q)) - 1) := by rw [this]

theorem pPeak_pos (Q : ℝ) (hQ : 0 < Q) : 0 < pPeak Q := by
  rw [pPeak_real]
  apply mul_pos hQ
  apply Real.sqrt_pos.mpr
  have : (1 : ℝ) < Real.sqrt (1 + 2 / (Q * Q)) := by
    have h0 : 0 < 2 / (Q * Q) := by positivity
    have := Real.sqrt_lt_sqrt (by norm_num) (show (1 : ℝ) < 1 + 2 / (Q * Q) by linarith)
    rwa [Real.sqrt_one] at this
  linarith

/-- `t = p_peak²` is a root of `c t² + 2 t - 2`, `c = 1/Q²` -/
theorem pPeak_root (Q : ℝ) (hQ : 0 < Q) :
    1 / (Q * Q) * (pPeak Q * pPeak Q) * (pPeak Q * pPeak Q) + 2 * (pPeak Q * pPeak Q) - 2 = 0 := by
  have hr : Real.sqrt (1 + 2 / (Q * Q)) * Real.sqrt (1 + 2 / (Q * Q)) = 1 + 2 / (Q * Q) :=
    Real.mul_self_sqrt (by positivity)
  rw [pPeak_sq Q hQ]
  generalize Real.sqrt (1 + 2 / (Q * Q)) = r at hr
  have hQ0 : Q ≠ 0 := hQ.ne'
  have h2 : Q * Q * (r * r) = Q * Q + 2 := by
    rw [hr]; field_simp
  have e : 1 / (Q * Q) * (Q * Q * (r - 1)) * (Q * Q * (r - 1)) = Q * Q * (r - 1) * (r - 1) := by
    field_simp
  rw [e]
  linear_combination h2

/-- `|H|²` in terms of `s = p²` and `c = 1/Q²` -/
theorem vrsGain_eq_g (Q fn f : ℝ) (hQ : Q ≠ 0) :
    vrsGain (1 / 2 / Q) fn f
      = (1 + 1 / (Q * Q) * (f / fn * (f / fn)))
        / ((1 - f / fn * (f / fn)) * (1 - f / fn * (f / fn)) + 1 / (Q * Q) * (f / fn * (f / fn))) := by
  unfold vrsGain
  simp only
  have e : 2 * (1 / 2 / Q) * (f / fn) * (2 * (1 / 2 / Q) * (f / fn))
      = 1 / (Q * Q) * (f / fn * (f / fn)) := by
    field_simp
  rw [e]

theorem g_den_pos (c s : ℝ) (hc : 0 < c) (hs : 0 ≤ s) : 0 < (1 - s) * (1 - s) + c * s := by
  by_cases h : s = 1
  · subst h; simpa using hc
  · have : 0 < (1 - s) * (1 - s) := mul_self_pos.mpr (sub_ne_zero.mpr (Ne.symm h))
    have : 0 ≤ c * s := mul_nonneg hc.le hs
    linarith

/-- the maximum of `(1 + c s)/((1 - s)² + c s)` over `s ≥ 0` is at the root `t` -/
theorem g_le (c s t : ℝ) (hc : 0 < c) (hs : 0 ≤ s) (ht : 0 ≤ t) (hroot : c * t * t + 2 * t - 2 = 0) :
    (1 + c * s) / ((1 - s) * (1 - s) + c * s) ≤ (1 + c * t) / ((1 - t) * (1 - t) + c * t) := by
  rw [div_le_div_iff₀ (g_den_pos c s hc hs) (g_den_pos c t hc ht)]
  have hN : 0 ≤ (1 + c * t) * ((s - t) * (s - t)) :=
    mul_nonneg (by have := mul_nonneg hc.le ht; linarith) (mul_self_nonneg _)
  have key : (1 + c * t) * ((1 - s) * (1 - s) + c * s) - (1 + c * s) * ((1 - t) * (1 - t) + c * t)
      = (1 + c * t) * ((s - t) * (s - t)) + (c * t * t + 2 * t - 2) * (s - t) := by ring
  rw [hroot] at key
  linarith

/-- `|H(p)|² ≤ |H(p_peak)|²` for every frequency ratio `p = f/fn` -/
theorem vrsGain_le_peak (Q : ℝ) (hQ : 0 < Q) (fn f : ℝ) :
    vrsGain (1 / 2 / Q) fn f ≤ vrsGain (1 / 2 / Q) 1 (pPeak Q) := by
  rw [vrsGain_eq_g Q fn f hQ.ne', vrsGain_eq_g Q 1 (pPeak Q) hQ.ne']
  simp only [div_one]
  have hc : 0 < 1 / (Q * Q) := by positivity
  have hroot := pPeak_root Q hQ
  exact g_le (1 / (Q * Q)) (f / fn * (f / fn)) (pPeak Q * pPeak Q) hc (mul_self_nonneg _)
    (mul_self_nonneg _) (by linarith [hroot])

end PyYetiVerif.Srs
