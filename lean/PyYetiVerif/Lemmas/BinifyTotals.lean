import PyYetiVerif.Lemmas.BinifyCell
/-! Helper lemmas for C10 / the table total derived from the cells: a value is in exactly one bin
of an increasing edge vector iff it is inside the range; sums over the adjacent-edge pairs. -/
set_option linter.unusedSectionVars false
set_option linter.unusedVariables false
namespace PyYetiVerif.Binify

section axis
variable {α : Type} [LinearOrder α]

theorem inBin_self (right : Bool) (a x : α) : ¬ inBin right a a x := by
  unfold inBin
  cases right <;> simp

/-- splitting the interval `a … bl` at an inner edge `b` -/
theorem inBin_split (right : Bool) (a b bl x : α) (hab : a < b) (hb : b ≤ bl) :
    (inBin right a bl x ↔ inBin right a b x ∨ inBin right b bl x) ∧
      ¬ (inBin right a b x ∧ inBin right b bl x) := by
  unfold inBin
  cases right
  · simp only [Bool.false_eq_true, if_false]
    refine ⟨⟨?_, ?_⟩, ?_⟩
    · rintro ⟨h1, h2⟩
      by_cases h : x < b
      · exact Or.inl ⟨h1, h⟩
      · exact Or.inr ⟨h, h2⟩
    · rintro (⟨h1, h2⟩ | ⟨h1, h2⟩)
      · exact ⟨h1, lt_of_lt_of_le h2 hb⟩
      · exact ⟨fun h => h1 (lt_trans h hab), h2⟩
    · rintro ⟨⟨_, h⟩, ⟨h', _⟩⟩
      exact h' h
  · simp only [if_true]
    refine ⟨⟨?_, ?_⟩, ?_⟩
    · rintro ⟨h1, h2⟩
      by_cases h : b < x
      · exact Or.inr ⟨h, h2⟩
      · exact Or.inl ⟨h1, h⟩
    · rintro (⟨h1, h2⟩ | ⟨h1, h2⟩)
      · exact ⟨h1, fun h => h2 (lt_of_le_of_lt hb h)⟩
      · exact ⟨lt_trans hab h1, h2⟩
    · rintro ⟨⟨_, h⟩, ⟨h', _⟩⟩
      exact h h'

variable {β : Type} [AddCommMonoid β]

/-- **one axis**: over the adjacent-edge pairs of an increasing edge vector, a value is in exactly
one bin if it is inside the range and in none otherwise. -/
theorem axis_sum (right : Bool) (w : β) (x : α) :
    ∀ bins : List α, List.Pairwise (· < ·) bins →
      ((bins.zip bins.tail).map fun e => if inBin right e.1 e.2 x then w else 0).sum
        = if inRange right bins x = true then w else 0 := by
  intro bins
  induction bins with
  | nil => intro _; simp [inRange]
  | cons a t ih =>
      intro hs
      cases t with
      | nil => simp [inRange, inBin_self]
      | cons b t' =>
          have hs' := (List.pairwise_cons.mp hs).2
          have hab : a < b := (List.pairwise_cons.mp hs).1 b (by simp)
          have ih' := ih hs'
          simp only [List.tail_cons] at ih'
          simp only [List.tail_cons, List.zip_cons_cons, List.map_cons, List.sum_cons, ih']
          obtain ⟨bl, hl⟩ : ∃ bl, (b :: t').getLast? = some bl :=
            ⟨(b :: t').getLast (by simp), List.getLast?_eq_some_getLast (by simp)⟩
          have hb : b ≤ bl := pairwise_le_last (b :: t') hs' bl hl b (by simp)
          have e1 : inRange right (a :: b :: t') x = decide (inBin right a bl x) := by
            unfold inRange
            rw [List.getLast?_cons_cons, hl]
            rfl
          have e2 : inRange right (b :: t') x = decide (inBin right b bl x) := by
            unfold inRange
            rw [hl]
            rfl
          rw [e1, e2]
          simp only [decide_eq_true_eq]
          obtain ⟨h1, h2⟩ := inBin_split right a b bl x hab hb
          by_cases c1 : inBin right a b x
          · have c2 : ¬ inBin right b bl x := fun c => h2 ⟨c1, c⟩
            rw [if_pos c1, if_neg c2, if_pos (h1.mpr (Or.inl c1)), add_zero]
          · by_cases c2 : inBin right b bl x
            · rw [if_neg c1, if_pos c2, if_pos (h1.mpr (Or.inr c2)), zero_add]
            · rw [if_neg c1, if_neg c2, if_neg (fun c => (h1.mp c).elim c1 c2), zero_add]

theorem zip_tail_getElem? (bins : List α) (i : Nat) (e : α × α) :
    (bins.zip bins.tail)[i]? = some e ↔ bins[i]? = some e.1 ∧ bins[i + 1]? = some e.2 := by
  rw [List.getElem?_zip_eq_some, List.getElem?_tail]

theorem zip_tail_length (bins : List α) : (bins.zip bins.tail).length = bins.length - 1 := by
  simp only [List.length_zip, List.length_tail]
  omega

/-- the count sum of one cell after one more cycle -/
theorem cellCounts_cons_sum (right : Bool) (loa hia lom him : α) (c : α × α × β)
    (cs : List (α × α × β)) :
    (cellCounts right loa hia lom him (c :: cs)).sum
      = (if inBin right loa hia c.1 then (if inBin right lom him c.2.1 then c.2.2 else 0) else 0)
        + (cellCounts right loa hia lom him cs).sum := by
  unfold cellCounts
  by_cases h1 : inBin right lom him c.2.1 <;> by_cases h2 : inBin right loa hia c.1 <;>
    simp [h1, h2]

/-- **all cells together**: the double sum over the mean bins (rows) and amplitude bins (columns)
of the cell sums is the summed count of the cycles inside both ranges. -/
theorem cells_total (right : Bool) (br bm : List α) (hr : List.Pairwise (· < ·) br)
    (hm : List.Pairwise (· < ·) bm) (cycles : List (α × α × β)) :
    (((bm.zip bm.tail).map fun m => ((br.zip br.tail).map fun a =>
        (cellCounts right a.1 a.2 m.1 m.2 cycles).sum).sum).sum)
      = ((cycles.filter fun c => inRange right br c.1 && inRange right bm c.2.1).map (·.2.2)).sum := by
  induction cycles with
  | nil => simp [cellCounts]
  | cons c cs ih =>
      simp only [cellCounts_cons_sum, List.sum_map_add, ih]
      simp only [axis_sum right _ _ br hr]
      by_cases h2 : inRange right br c.1 = true
      · simp only [h2, if_true]
        rw [axis_sum right _ _ bm hm]
        by_cases h1 : inRange right bm c.2.1 = true <;> simp [h1, h2]
      · simp [h2]

end axis

section table
variable {β : Type} [AddCommMonoid β] {μ ν : Type}

theorem map_eq_map_of_getElem {γ δ ε : Type} (l : List γ) (E : List δ) (g : γ → ε) (h : δ → ε)
    (hl : l.length = E.length)
    (hh : ∀ (i : Nat) (h1 : i < l.length) (h2 : i < E.length), g l[i] = h E[i]) :
    l.map g = E.map h := by
  apply List.ext_getElem (by simp [hl])
  intro i h1 h2
  simp only [List.getElem_map]
  exact hh i (by simpa using h1) (by simpa using h2)

/-- general shape lemma: a table whose rows / columns are indexed by the lists `EM` / `EA` and
whose cells are `f m a` has the double sum as its total. -/
theorem tableSum_of_cells (T : List (List β)) (EM : List μ) (EA : List ν) (f : μ → ν → β)
    (hT : T.length = EM.length) (hrow : ∀ row ∈ T, row.length = EA.length)
    (hc : ∀ (i j : Nat) (m : μ) (a : ν), EM[i]? = some m → EA[j]? = some a →
      cell T i j = some (f m a)) :
    tableSum T = (EM.map fun m => (EA.map fun a => f m a).sum).sum := by
  unfold tableSum
  congr 1
  apply map_eq_map_of_getElem T EM _ _ hT
  intro i h1 h2
  congr 1
  have hl : T[i].length = EA.length := hrow _ (List.getElem_mem h1)
  have : T[i] = EA.map (fun a => f EM[i] a) := by
    apply List.ext_getElem (by simp [hl])
    intro j g1 g2
    have := hc i j EM[i] EA[j] (List.getElem?_eq_getElem h2)
      (List.getElem?_eq_getElem (by simpa using g2))
    simp only [cell, List.getElem?_eq_getElem h1, Option.bind_some,
      List.getElem?_eq_getElem g1, Option.some.injEq] at this
    simp only [List.getElem_map]
    exact this
  rw [this]

end table

end PyYetiVerif.Binify
