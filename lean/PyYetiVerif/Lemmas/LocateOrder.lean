import PyYetiVerif.Lemmas.Locate
import Mathlib.Data.List.Sort
/-!
Order of the index vector `mat_intersect` returns for the side it loops over: ascending, i.e. the
rows appear in the original order of that side (never sorted by value).
-/
namespace PyYetiVerif.Locate

theorem filterMap_idx_sublist {β : Type} : ∀ (res : List (Option β × Nat)),
    (res.filterMap (fun r => r.1.map (fun _ => r.2))).Sublist (res.map (·.2))
  | [] => List.Sublist.slnil
  | (none, n) :: t => by
      simp only [List.filterMap_cons, Option.map_none, List.map_cons]
      exact (filterMap_idx_sublist t).cons _
  | (some b, n) :: t => by
      simp only [List.filterMap_cons, Option.map_some, List.map_cons]
      exact (filterMap_idx_sublist t).cons_cons _

/-- the found needles are reported in ascending order of their index -/
theorem found_needles_sorted {β : Type} (l : List (Option β)) (k : Nat) :
    ((l.zipIdx k).filterMap (fun r => r.1.map (fun _ => r.2))).Pairwise (· < ·) := by
  refine List.Pairwise.sublist (filterMap_idx_sublist _) ?_
  rw [List.zipIdx_map_snd]
  exact List.pairwise_lt_range'

/-- an ascending list is determined by its members -/
theorem sorted_eq_filter_range : ∀ (l : List Nat) (n : Nat) (p : Nat → Bool),
    l.Pairwise (· < ·) → (∀ i, i ∈ l ↔ (i < n ∧ p i = true)) → l = (List.range n).filter p := by
  intro l n p hs hm
  refine List.Pairwise.eq_of_mem_iff (r := (· < ·)) hs
    (List.Pairwise.sublist List.filter_sublist List.pairwise_lt_range) ?_
  intro i
  rw [hm i, List.mem_filter, List.mem_range]

end PyYetiVerif.Locate
