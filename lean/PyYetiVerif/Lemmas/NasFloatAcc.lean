import PyYetiVerif.Lemmas.NasFloatChain
/-! C12: the accuracy of `format_float8/16` assembled over the if-chain dispatch: the explicit
piecewise bound `formatBound` and `formatFloat_acc`. -/
set_option linter.unusedSimpArgs false
set_option linter.unusedVariables false
namespace PyYetiVerif.NasFloat
open PyYetiVerif.PyFloat PyYetiVerif.Generated.NasFloat

/-- the decimal exponent `E` the scientific helpers print: that of `'%.{ePrec}e' % x` -/
def sciExp (c : Sci) (x : Dbl) : Int := (eParts c.ePrec x).2

/-- **accuracy of a scientific field**: `(½·10^-P + ½·10^-q)·10^E` — half a unit of the last of
the `P` decimals the width leaves for the sign of `x` and the number of digits of `E`, plus half a
unit of the `q`-decimal first rounding -/
def sciBound (c : Sci) (x : Dbl) : ℚ :=
  (1 / 2 * (10 : ℚ) ^ (-(sciPrec c x.neg (natDigits (sciExp c x).natAbs).length : Int)) +
    1 / 2 * (10 : ℚ) ^ (-(c.ePrec : Int))) * (10 : ℚ) ^ (sciExp c x)

/-- a well-formed field right-justified in `W` characters whose decimal is within `B` of `x` -/
def GoodA (W : Nat) (x : Dbl) (B : ℚ) (y : Str) : Prop :=
  ∃ f : Fld, f.wf = true ∧ f.text.length ≤ W ∧ y = rjust W f.text ∧ |decRat f.dec - dblRat x| ≤ B

theorem GoodA.good {W : Nat} {x : Dbl} {B : ℚ} {y : Str} (h : GoodA W x B y) : Good W y := by
  obtain ⟨f, h1, h2, h3, _⟩ := h
  exact ⟨f, h1, h2, h3⟩

/-- the scientific field with its exponent and accuracy exposed -/
theorem sciCore_acc (W : Nat) (c : Sci) (dm : Bool) (hc : SciOK W c (if dm then 1 else 0))
    (x : Dbl) (hn : 0 < x.num) (hd : 0 < x.den)
    (hlo : x.den ≤ 10 ^ 999 * x.num) (hhi : x.num < 10 ^ 999 * x.den) :
    ∃ f : Fld, f.wf = true ∧ sciCore W c (if dm then ['D'] else []) x = rjust W f.text ∧
      f.text.length ≤ W ∧ f.expVal = sciExp c x ∧ |decRat f.dec - dblRat x| ≤ sciBound c x := by
  obtain ⟨hq1, hq15, hrows⟩ := hc
  obtain ⟨hb1, hb2, hs1, hs2⟩ := eParts_exp_bounds c.ePrec 999 x hn hd hlo hhi
  obtain ⟨-, -, hacc, -⟩ := eParts_spec c.ePrec x hn hd
  unfold sciBound sciExp
  generalize he : (eParts c.ePrec x).2 = e at hb1 hb2 hs1 hs2 hacc
  have hLmem := natDigits_len_le3 e.natAbs (by omega)
  obtain ⟨hP1, hP2, hW⟩ := hrows x.neg _ hLmem
  obtain ⟨N3, h1, h2, h3, h4, hshape⟩ := sciCore_shape W c dm x hn hd hq1 hq15
    (sciPrec c x.neg (natDigits (eParts c.ePrec x).2.natAbs).length) rfl
    (by rw [he]; exact hP1) (by rw [he]; omega)
  rw [he] at h1 h2 h3 h4 hshape
  generalize hP : sciPrec c x.neg (natDigits e.natAbs).length = P at *
  have hen1 : x.absLtOne = true → e ≤ 0 := hs1
  have hen2 : x.absLtOne = false → 0 ≤ e := hs2
  have hexp := sciFld_expVal x.neg dm x.absLtOne P N3 e hen1 hen2
  refine ⟨sciFld x.neg dm x.absLtOne P N3 e, sciFld_wf _ _ _ _ _ _ (by omega), hshape, ?_, hexp, ?_⟩
  · have := sciFld_length x.neg dm x.absLtOne P N3 e hP1 h4
    omega
  · have := sci_rat_err x.neg dm x.absLtOne P N3 c.ePrec (eParts c.ePrec x).1 e
      ((x.num : ℚ) / x.den) (by omega) hen1 hen2 hacc h1 h2
    unfold dblRat
    exact this

theorem dblRat_zero (x : Dbl) (h0 : x.num = 0) : dblRat x = 0 := by
  unfold dblRat; rw [h0]; simp

theorem goodA_sci_zero (W : Nat) (c : Sci) (hc : SciOK W c 0) (x : Dbl) (h0 : x.num = 0) :
    GoodA W x 0 (formatScientific W c x) := by
  have hz : x.isZero = true := by simp [Dbl.isZero, h0]
  refine ⟨⟨false, ['0'], [], none⟩, by decide, ?_, ?_, ?_⟩
  · obtain ⟨_, _, hrows⟩ := hc
    have := (hrows false 1 (by simp)).2.2
    have h1 := (hrows false 1 (by simp)).1
    have hW2 : 2 ≤ W := by
      simp only [Bool.false_eq_true, if_false] at this; omega
    simp [Fld.text, Fld.mant, Fld.exText]
    exact hW2
  · simp [formatScientific, hz, Fld.text, Fld.mant, Fld.exText]
  · rw [dblRat_zero x h0]
    have : decRat (Fld.dec ⟨false, ['0'], [], none⟩) = 0 := by
      simp [Fld.dec, Fld.expVal, decOf, decRat, digitsVal]
    rw [this]; simp

theorem goodA_sci (W : Nat) (c : Sci) (hc : SciOK W c 0) (x : Dbl) (hn : 0 < x.num) (hd : 0 < x.den)
    (hlo : x.den ≤ 10 ^ 999 * x.num) (hhi : x.num < 10 ^ 999 * x.den) :
    GoodA W x (sciBound c x) (formatScientific W c x) := by
  have hz : x.isZero = false := by
    have : x.num ≠ 0 := by omega
    simp [Dbl.isZero, this]
  obtain ⟨f, hwf, hshape, hlen, _, hacc⟩ := sciCore_acc W c false hc x hn hd hlo hhi
  simp only [Bool.false_eq_true, if_false] at hshape
  exact ⟨f, hwf, hlen, by simp [formatScientific, hz, hshape], hacc⟩

/-! ### the bound, branch by branch -/

/-- half a unit of the `p`-th decimal -/
def halfUnit (p : Nat) : ℚ := 1 / 2 * (10 : ℚ) ^ (-(p : Int))

/-- the bound of one branch: scientific (`kind 0`), fixed notation with `p` decimals (`kinds 2, 3`),
and for the mixed branch (`kind 1`) the bound of the alternative that is emitted -/
def rowBound (W : Nat) (c : Sci) (neg : Bool) (r : Row) (x : Dbl) : ℚ :=
  match r.kind with
  | 0 => sciBound c x
  | 1 => if rowBody W c neg r x = formatScientific W c x then sciBound c x else halfUnit r.prec
  | _ => halfUnit r.prec

/-- the bound over an if-chain: that of the first branch whose test passes -/
def chainBound (W : Nat) (c : Sci) (neg : Bool) (lastB : Dbl → ℚ) : List Row → Dbl → ℚ
  | [], x => lastB x
  | r :: rs, x => if rowTest neg r x then rowBound W c neg r x else chainBound W c neg lastB rs x

/-- final `else` of the positive chain: the integer `dddddddd.` below `10^(W-1)`, scientific beyond -/
def lastBoundPos (W : Nat) (c : Sci) (x : Dbl) : ℚ :=
  if x.num < 10 ^ (W - 1) * x.den then 1 / 2 else sciBound c x

/-- **the explicit piecewise accuracy bound of `format_floatW`** -/
def formatBound (W : Nat) (c : Sci) (pos neg : List Row) (x : Dbl) : ℚ :=
  if x.num = 0 then 0
  else if geZero x then chainBound W c false (lastBoundPos W c) pos x
  else chainBound W c true (fun _ => 1 / 2) neg x

theorem stepA (W : Nat) (c : Sci) (neg : Bool) (hc : SciOK W c 0) (lo : Option Dbl) (r : Row)
    (hok : stepOK W neg lo r = true) (x : Dbl) (hx : x.neg = neg) (hn : 0 < x.num) (hd : 0 < x.den)
    (hlo : x.den ≤ 10 ^ 999 * x.num) (hhi : x.num < 10 ^ 999 * x.den)
    (hlow : ∀ l, lo = some l → mge x l)
    (htest : rowTest neg r x = true) : GoodA W x (rowBound W c neg r x) (rowBody W c neg r x) := by
  have hz : x.isZero = false := by
    have : x.num ≠ 0 := by omega
    simp [Dbl.isZero, this]
  unfold stepOK at hok
  simp only [Bool.and_eq_true, Bool.not_eq_true', decide_eq_true_eq] at hok
  obtain ⟨⟨hbneg, hbden⟩, hkind⟩ := hok
  rcases hk : r.kind with _ | _ | k
  · -- kind 0: scientific
    have e1 : rowBody W c neg r x = formatScientific W c x := by simp [rowBody, hk]
    have e2 : rowBound W c neg r x = sciBound c x := by simp [rowBound, hk]
    rw [e1, e2]
    exact goodA_sci W c hc x hn hd hlo hhi
  · -- kind 1: mixed
    rw [hk] at hkind
    simp only [Bool.and_eq_true, beq_iff_eq, decide_eq_true_eq] at hkind
    obtain ⟨⟨⟨hl0, hs⟩, hp⟩, hlo'⟩ := hkind
    have e2 : rowBound W c neg r x =
        if rowBody W c neg r x = formatScientific W c x then sciBound c x else halfUnit r.prec := by
      simp [rowBound, hk]
    rw [e2]
    by_cases hsci : rowBody W c neg r x = formatScientific W c x
    · simp only [hsci, if_true]
      exact goodA_sci W c hc x hn hd hlo hhi
    · simp only [hsci, if_false]
      cases hloeq : lo with
      | none => rw [hloeq] at hlo'; exact absurd hlo' (by simp)
      | some l =>
        rw [hloeq] at hlo'
        simp only [Bool.and_eq_true, decide_eq_true_eq, Bool.or_eq_true, bne_iff_ne, ne_eq,
          Bool.not_eq_true'] at hlo'
        obtain ⟨⟨hlden, h8c⟩, hnegc⟩ := hlo'
        have hge := hlow l hloeq
        have hlt : mlt x (rowB r) := by
          rw [rowTest_strict neg r x hx hl0 hs hbneg] at htest
          simpa using htest
        have h8 : W = 8 → x.den ≤ 10 ^ 9 * x.num ∧ x.num * 10 ^ 1 < x.den := by
          intro hW
          rcases h8c with h | ⟨h1, h2⟩
          · exact absurd hW h
          · exact ⟨mge_pow' x l 9 hlden hge h1, mlt_pow x (rowB r) 1 hbden hd hlt h2⟩
        have hS : formatScientific W c x = sciCore W c [] x := by simp [formatScientific, hz]
        cases neg with
        | false =>
          have hb : rowBody W c false r x = smallPos W r.prec c x := by simp [rowBody, hk]
          obtain ⟨f, hwf, hlen, hshape, hcase⟩ := smallPos_good W r.prec c hc hp x hx hn hd hlo hhi h8
          rcases hcase with h | h
          · exact absurd (by rw [hb, hshape, hS, h]) hsci
          · refine ⟨f, hwf, hlen, by rw [hb, hshape], ?_⟩
            rw [h]; exact fixed_rat_err false true r.prec x hd hx
        | true =>
          have hb : rowBody W c true r x = smallNeg W r.prec c x := by simp [rowBody, hk]
          rcases hnegc with h | ⟨⟨⟨h250, hm1⟩, hm2⟩, hl1⟩
          · exact absurd h (by simp)
          · obtain ⟨f, hwf, hlen, hshape, hcase⟩ := smallNeg_good W r.prec c hc hp h250 ⟨hm1, hm2⟩ x hx hn hd
              hlo hhi (mge_pow' x l (r.prec + 1) hlden hge hl1) h8
            rcases hcase with h | h
            · exact absurd (by rw [hb, hshape, hS, h]) hsci
            · refine ⟨f, hwf, hlen, by rw [hb, hshape], ?_⟩
              rw [h]; exact fixed_rat_err true true r.prec x hd hx
  · -- kinds 2, 3: fixed notation
    rw [hk] at hkind
    simp only [Bool.and_eq_true, beq_iff_eq, decide_eq_true_eq] at hkind
    obtain ⟨⟨⟨⟨⟨hl0, hs⟩, hrow⟩, hex⟩, hrden⟩, hlo'⟩ := hkind
    have e2 : rowBound W c neg r x = halfUnit r.prec := by simp [rowBound, hk]
    rw [e2]
    cases hloeq : lo with
    | none => rw [hloeq] at hlo'; exact absurd hlo' (by simp)
    | some l =>
      rw [hloeq] at hlo'
      simp only [Bool.and_eq_true, decide_eq_true_eq] at hlo'
      obtain ⟨hlden, hlp⟩ := hlo'
      have hge := hlow l hloeq
      have hlt : mlt x (rowB r) := by
        rw [rowTest_strict neg r x hx hl0 hs hbneg] at htest
        simpa using htest
      have hxb : x.num * r.den < r.num * x.den := mlt_exact x (rowB r) r.num r.den hbden hrden hlt hex
      have hlen := rowBody_length W c neg r hrow x hx hxb
      have hxlo : x.den ≤ x.num * 10 ^ r.prec := mge_pow x l r.prec hlden hge hlp
      have hrow' := hrow
      simp only [RowOK] at hrow'
      obtain ⟨_, _, _, hp, hk3, hkind', _⟩ := hrow'
      have hkind'' : r.kind = 2 ∨ (r.kind = 3 ∧ neg = true) := by
        rcases hkind' with h | h
        · exact Or.inl h
        · exact Or.inr ⟨h, (hk3.1 h).1⟩
      have hshape := rowBody_shape W c neg r hp hkind'' x hx
      have hN : 0 < rheDiv (x.num * 10 ^ r.prec) x.den := rheDiv_ge _ _ 1 hd (by simpa using hxlo)
      refine ⟨_, fixedFld_wf _ _ _ _ hN, ?_, hshape, fixed_rat_err neg _ r.prec x hd hx⟩
      rw [hshape] at hlen
      exact rjust_len_inv W _ hlen

theorem chainA (W : Nat) (c : Sci) (neg : Bool) (hc : SciOK W c 0) (last : Dbl → Str) (lastB : Dbl → ℚ)
    (rows : List Row) (lo : Option Dbl) (hok : chainOK W neg lo rows = true)
    (x : Dbl) (hx : x.neg = neg) (hn : 0 < x.num) (hd : 0 < x.den)
    (hlo : x.den ≤ 10 ^ 999 * x.num) (hhi : x.num < 10 ^ 999 * x.den)
    (hlow : ∀ l, lo = some l → mge x l)
    (hlast : (∀ r ∈ rows, rowTest neg r x = false) → GoodA W x (lastB x) (last x)) :
    GoodA W x (chainBound W c neg lastB rows x) (chain W c neg last rows x) := by
  induction rows generalizing lo with
  | nil => exact hlast (by simp)
  | cons r rs ih =>
    simp only [chainOK, Bool.and_eq_true] at hok
    obtain ⟨hstep, hrest⟩ := hok
    unfold chain chainBound
    by_cases htest : rowTest neg r x = true
    · simp only [htest, if_true]
      exact stepA W c neg hc lo r hstep x hx hn hd hlo hhi hlow htest
    · have hfalse : rowTest neg r x = false := by simpa using htest
      simp only [hfalse, Bool.false_eq_true, if_false]
      apply ih (nextLo lo r) hrest
      · intro l hl
        unfold nextLo at hl
        by_cases hcond : (r.lnum == 0 && r.strict) = true
        · simp only [hcond, if_true, Option.some.injEq] at hl
          subst hl
          simp only [Bool.and_eq_true, beq_iff_eq] at hcond
          have hbneg : (rowB r).neg = false := by
            unfold stepOK at hstep
            simp only [Bool.and_eq_true, Bool.not_eq_true'] at hstep
            exact hstep.1.1
          rw [rowTest_strict neg r x hx hcond.1 hcond.2 hbneg] at hfalse
          exact (not_mlt_iff x (rowB r)).1 (by simpa using hfalse)
        · simp only [hcond, Bool.false_eq_true, if_false] at hl
          exact hlow l hl
      · intro hall
        apply hlast
        intro r' hr'
        rcases List.mem_cons.1 hr' with rfl | h
        · exact hfalse
        · exact hall r' h

theorem lastA_pos (W : Nat) (c : Sci) (hc : SciOK W c 0) (hW : 2 ≤ W) (rows : List Row)
    (hok : lastOKpos W rows = true) (x : Dbl) (hx : x.neg = false) (hn : 0 < x.num) (hd : 0 < x.den)
    (hlo : x.den ≤ 10 ^ 999 * x.num) (hhi : x.num < 10 ^ 999 * x.den)
    (hall : ∀ r ∈ rows, rowTest false r x = false) :
    GoodA W x (lastBoundPos W c x) (lastPos W c (1, 1) x) := by
  unfold lastOKpos at hok
  cases hg : rows.getLast? with
  | none => rw [hg] at hok; exact absurd hok (by simp)
  | some g =>
    rw [hg] at hok
    simp only [Bool.and_eq_true, beq_iff_eq, bne_iff_ne, ne_eq, Bool.not_eq_true', decide_eq_true_eq] at hok
    obtain ⟨⟨⟨⟨⟨⟨⟨⟨hk, hl⟩, hs⟩, hloneg⟩, hhineg⟩, hloden⟩, hhiden⟩, hloeq⟩, hhieq⟩ := hok
    have hfail := hall g (List.mem_of_getLast? hg)
    unfold rowTest at hfail
    have hl' : (g.lnum == 0) = false := by simpa using hl
    simp only [Bool.false_eq_true, if_false, hl', hs, if_true] at hfail
    have hhineg' : (litDbl g.num g.den).neg = false := hhineg
    rw [le_pos _ x hx hloneg, lt_pos x (litDbl g.num g.den) hx hhineg'] at hfail
    simp only [Bool.and_eq_false_iff, decide_eq_false_iff_not] at hfail
    have h1W : 1 ≤ 10 ^ (W - 1) := Nat.one_le_pow _ _ (by norm_num)
    rcases hfail with h | h
    · have hlt : mlt x (litDbl g.lnum g.lden) := by
        unfold mlt mge at *; omega
      have hg2 : 2 * x.num < (2 * 10 ^ (W - 1) - 1) * x.den := by
        unfold mlt at hlt
        have h1 : 2 * x.num * (litDbl g.lnum g.lden).den < (litDbl g.lnum g.lden).num * 2 * x.den := by
          nlinarith
        rw [hloeq] at h1
        have h2 : (2 * 10 ^ (W - 1) - 1) * (litDbl g.lnum g.lden).den * x.den =
            (2 * 10 ^ (W - 1) - 1) * x.den * (litDbl g.lnum g.lden).den := by ring
        rw [h2] at h1
        exact Nat.lt_of_mul_lt_mul_right h1
      have hsmall : x.num < 10 ^ (W - 1) * x.den := by
        have : (2 * 10 ^ (W - 1) - 1) * x.den ≤ 2 * 10 ^ (W - 1) * x.den :=
          Nat.mul_le_mul_right _ (by omega)
        have h3 : 2 * x.num < 2 * (10 ^ (W - 1) * x.den) := by
          calc 2 * x.num < (2 * 10 ^ (W - 1) - 1) * x.den := hg2
            _ ≤ 2 * 10 ^ (W - 1) * x.den := this
            _ = 2 * (10 ^ (W - 1) * x.den) := by ring
        omega
      obtain ⟨fp, hfp, hshape, hlen⟩ := lastPos_shape W c hW x hx hd hg2
      have hB : lastBoundPos W c x = 1 / 2 := by simp [lastBoundPos, hsmall]
      rw [hB]
      exact ⟨_, intFld_wf false _ fp hfp, hlen, hshape, int_rat_err false x hd hx fp hfp⟩
    · have hge : mge x (rowB g) := (not_mlt_iff x (rowB g)).1 h
      have hbig : 10 ^ (W - 1) * x.den ≤ x.num := by
        unfold mge at hge
        rw [hhieq] at hge
        have : 10 ^ (W - 1) * x.den * (rowB g).den ≤ x.num * (rowB g).den := by
          calc 10 ^ (W - 1) * x.den * (rowB g).den = 10 ^ (W - 1) * (rowB g).den * x.den := by ring
            _ ≤ x.num * (rowB g).den := hge
        exact Nat.le_of_mul_le_mul_right this hhiden
      have hB : lastBoundPos W c x = sciBound c x := by
        have : ¬ x.num < 10 ^ (W - 1) * x.den := by omega
        simp [lastBoundPos, this]
      rw [lastPos_sci W c (by omega) x hx hd hbig, hB]
      exact goodA_sci W c hc x hn hd hlo hhi

theorem lastA_neg (W : Nat) (c : Sci) (hW : 3 ≤ W) (rows : List Row)
    (hok : lastOKneg W rows = true) (x : Dbl) (hx : x.neg = true) (hn : 0 < x.num) (hd : 0 < x.den)
    (hall : ∀ r ∈ rows, rowTest true r x = false) :
    GoodA W x (1 / 2) (lastNeg W c (1, W - 1) x) := by
  unfold lastOKneg at hok
  cases hg : rows.getLast? with
  | none => rw [hg] at hok; exact absurd hok (by simp)
  | some g =>
    rw [hg] at hok
    simp only [Bool.and_eq_true, beq_iff_eq, Bool.not_eq_true', decide_eq_true_eq] at hok
    obtain ⟨⟨⟨⟨hk, hs⟩, hbneg⟩, hbden⟩, hbeq⟩ := hok
    have hfail := hall g (List.mem_of_getLast? hg)
    unfold rowTest at hfail
    simp only [if_true, hs, Bool.false_eq_true, if_false] at hfail
    rw [le_neg x (litDbl g.num g.den) hx] at hfail
    have hlt : mlt x (rowB g) := by
      have : ¬ mge x (litDbl g.num g.den) := by simpa using hfail
      unfold mlt mge rowB at *; omega
    have hg2 : 2 * x.num < (2 * 10 ^ (W - 2) - 1) * x.den := by
      unfold mlt at hlt
      have h1 : 2 * x.num * (rowB g).den < (rowB g).num * 2 * x.den := by nlinarith
      rw [hbeq] at h1
      have h2 : (2 * 10 ^ (W - 2) - 1) * (rowB g).den * x.den =
          (2 * 10 ^ (W - 2) - 1) * x.den * (rowB g).den := by ring
      rw [h2] at h1
      exact Nat.lt_of_mul_lt_mul_right h1
    obtain ⟨hshape, hlen⟩ := lastNeg_shape W c hW x hx hd hg2
    have hrabs : (roundInt x).natAbs = rheDiv x.num x.den := by
      unfold roundInt; simp [hx]
    refine ⟨_, intFld_wf _ _ [] (Or.inl rfl), hlen, hshape, ?_⟩
    rw [hrabs]
    by_cases hr0 : rheDiv x.num x.den = 0
    · have hr := rheDiv_rat x.num x.den hd
      rw [hr0] at hr ⊢
      rw [intFld_rat _ 0 [] (Or.inl rfl)]
      unfold dblRat
      rw [hx]
      simp only [Nat.cast_zero, mul_zero, if_true, zero_sub] at hr ⊢
      rw [abs_neg] at hr ⊢
      simpa using hr
    · have hlt0 : roundInt x < 0 := by
        unfold roundInt; simp [hx]; omega
      have : decide (roundInt x < 0) = true := by simpa using hlt0
      rw [this]
      exact int_rat_err true x hd hx [] (Or.inl rfl)

/-- **accuracy of `format_floatW` as a whole**: for every fraction that is zero or has
`10^-999 ≤ |x| < 10^999` the result is a well-formed field, right-justified in `W` characters,
whose decimal is within `formatBound` of `x`. -/
theorem formatFloat_acc (W : Nat) (c : Sci) (pos neg : List Row) (posLast negLast : Nat × Nat)
    (hc : SciOK W c 0) (hW : 3 ≤ W) (hok : FormatOK W pos neg posLast negLast)
    (x : Dbl) (hd : 0 < x.den)
    (hr : x.num = 0 ∨ (x.den ≤ 10 ^ 999 * x.num ∧ x.num < 10 ^ 999 * x.den)) :
    GoodA W x (formatBound W c pos neg x)
      (if geZero x then chain W c false (lastPos W c posLast) pos x
       else chain W c true (lastNeg W c negLast) neg x) := by
  obtain ⟨hcp, hlp, hfp, hcn, hln, hpl, hnl⟩ := hok
  subst hpl hnl
  rcases Nat.eq_zero_or_pos x.num with h0 | hn
  · have hz : x.isZero = true := by simp [Dbl.isZero, h0]
    have hge : geZero x = true := by simp [geZero, hz]
    have hB : formatBound W c pos neg x = 0 := by simp [formatBound, h0]
    simp only [hge, if_true, hB]
    cases pos with
    | nil => exact absurd hfp (by simp [firstOK])
    | cons r0 rs =>
      simp only [firstOK, Bool.and_eq_true, beq_iff_eq, decide_eq_true_eq, Bool.not_eq_true'] at hfp
      obtain ⟨⟨⟨⟨hk, hl⟩, hs⟩, hbnum⟩, hbneg⟩ := hfp
      have htest : rowTest false r0 x = true := by
        unfold rowTest
        simp only [Bool.false_eq_true, if_false, hl, beq_self_eq_true, if_true, Bool.true_and, hs]
        unfold Dbl.lt Dbl.snum
        have hb : (litDbl r0.num r0.den).neg = false := hbneg
        have hbn : 0 < (litDbl r0.num r0.den).num := hbnum
        simp only [h0, hb, Bool.false_eq_true, if_false, decide_eq_true_eq]
        split_ifs <;> simp <;> positivity
      unfold chain
      simp only [htest, if_true]
      have : rowBody W c false r0 x = formatScientific W c x := by simp [rowBody, hk]
      rw [this]
      exact goodA_sci_zero W c hc x h0
  · have hz : x.isZero = false := by
      have : x.num ≠ 0 := by omega
      simp [Dbl.isZero, this]
    have hn0 : x.num ≠ 0 := by omega
    obtain ⟨hlo, hhi⟩ : x.den ≤ 10 ^ 999 * x.num ∧ x.num < 10 ^ 999 * x.den := by
      rcases hr with h | h
      · omega
      · exact h
    cases hxn : x.neg with
    | false =>
      have hge : geZero x = true := by simp [geZero, hxn]
      have hB : formatBound W c pos neg x = chainBound W c false (lastBoundPos W c) pos x := by
        simp [formatBound, hn0, hge]
      simp only [hge, if_true, hB]
      exact chainA W c false hc _ _ pos none hcp x hxn hn hd hlo hhi (by simp)
        (fun hall => lastA_pos W c hc (by omega) pos hlp x hxn hn hd hlo hhi hall)
    | true =>
      have hge : geZero x = false := by simp [geZero, hxn, hz]
      have hB : formatBound W c pos neg x = chainBound W c true (fun _ => 1 / 2) neg x := by
        simp [formatBound, hn0, hge]
      simp only [hge, Bool.false_eq_true, if_false, hB]
      exact chainA W c true hc _ _ neg none hcn x hxn hn hd hlo hhi (by simp)
        (fun hall => lastA_neg W c hW neg hln x hxn hn hd hall)

end PyYetiVerif.NasFloat
