import PyYetiVerif.Lemmas.Extrema
import PyYetiVerif.Model.ExtremaMerge
import Mathlib.Data.List.Nodup
import Mathlib.Algebra.Field.Basic
import Mathlib.Algebra.CharZero.Defs
import Mathlib.Algebra.BigOperators.Group.List.Basic
import Mathlib.Tactic.FieldSimp
import Mathlib.Tactic.Ring
import Mathlib.Algebra.Order.Group.Defs
import Mathlib.Algebra.Order.Group.Unbundled.Basic
/-! Helper lemmas for C16: the frf pipeline is the time pipeline with a mirrored minimum column. -/
namespace PyYetiVerif.Extrema

section frf
variable {α X L : Type} [AddCommGroup α] [LinearOrder α] [IsOrderedAddMonoid α]

theorem negTr_upd (a b : Tr α X L) : (negTr a).upd ltB (negTr b) = negTr (a.upd gtB b) := by
  unfold Tr.upd
  have : nanRepl ltB (negTr a).v (negTr b).v = nanRepl gtB a.v b.v := by
    rcases ha : a.v with _ | x <;> rcases hb : b.v with _ | y <;>
      simp [negTr, ha, hb, nanRepl, ltB, gtB]
  rw [this]
  split_ifs <;> rfl

/-- what `frf_data_recovery` makes of a time-pipeline state -/
def mirror (st : Option (Cur α X L) × List (Tr α X Nat × Tr α X Nat)) :
    Option (Cur α X L) × List (Tr α X Nat × Tr α X Nat) :=
  (st.1.map fun r => ⟨r.hi, negTr r.hi⟩, st.2.map fun p => (p.1, negTr p.1))

/-- the state of the frf pipeline is the mirrored state of the time pipeline's MAXIMUM column -/
def Mirrored (sf st : Option (Cur α X L) × List (Tr α X Nat × Tr α X Nat)) : Prop :=
  sf.1 = st.1.map (fun r => ⟨r.hi, negTr r.hi⟩) ∧ sf.2 = st.2.map (fun p => (p.1, negTr p.1))

theorem frf_time_foldl (cases : List (L × List (Option α) × List X))
    (sf st : Option (Option (Cur α X L) × List (Tr α X Nat × Tr α X Nat)))
    (h : (sf = none ∧ st = none) ∨ ∃ a b, sf = some a ∧ st = some b ∧ Mirrored a b) :
    let rf := cases.foldl (fun st c => st.bind fun (cur, per) =>
      (maxminRow c.2.1 c.2.2).map fun mm =>
        let lo : Tr α X Nat := ⟨mm.1.v.map (fun v => -v), mm.1.x, mm.1.lab⟩
        (some (upd2 cur (⟨mm.1.v, mm.1.x, c.1⟩, ⟨lo.v, lo.x, c.1⟩)), per ++ [(mm.1, lo)])) sf
    let rt := cases.foldl (fun st c => st.bind fun (cur, per) =>
      (maxminRow c.2.1 c.2.2).map fun mm =>
        (some (upd2 cur (⟨mm.1.v, mm.1.x, c.1⟩, ⟨mm.2.v, mm.2.x, c.1⟩)), per ++ [mm])) st
    (rf = none ∧ rt = none) ∨ ∃ a b, rf = some a ∧ rt = some b ∧ Mirrored a b := by
  induction cases generalizing sf st with
  | nil => exact h
  | cons c cs ih =>
    simp only [List.foldl_cons]
    apply ih
    rcases h with ⟨h1, h2⟩ | ⟨a, b, h1, h2, hm⟩
    · left
      simp [h1, h2]
    · subst h1 h2
      obtain ⟨acur, aper⟩ := a
      obtain ⟨bcur, bper⟩ := b
      obtain ⟨hc, hp⟩ := hm
      simp only at hc hp
      rcases hmm : maxminRow c.2.1 c.2.2 with _ | mm
      · left
        simp
      · right
        refine ⟨(some (upd2 acur (⟨mm.1.v, mm.1.x, c.1⟩, ⟨mm.1.v.map (fun v => -v), mm.1.x, c.1⟩)),
            aper ++ [(mm.1, ⟨mm.1.v.map (fun v => -v), mm.1.x, mm.1.lab⟩)]),
          (some (upd2 bcur (⟨mm.1.v, mm.1.x, c.1⟩, ⟨mm.2.v, mm.2.x, c.1⟩)), bper ++ [mm]),
          by simp, by simp, ?_, ?_⟩
        · subst hc
          rcases bcur with _ | r
          · simp [upd2, negTr]
          · simp only [upd2, Option.map_some, Option.some.injEq, Cur.mk.injEq, true_and]
            exact negTr_upd r.hi ⟨mm.1.v, mm.1.x, c.1⟩
        · subst hp
          simp [negTr]

theorem frfRow_eq_mirror (cases : List (L × List (Option α) × List X)) :
    frfRow cases = (timeRow cases).map mirror := by
  have := frf_time_foldl cases (some (none, [])) (some (none, []))
    (Or.inr ⟨_, _, rfl, rfl, rfl, rfl⟩)
  unfold frfRow timeRow
  rcases this with ⟨h1, h2⟩ | ⟨a, b, h1, h2, hm⟩
  · rw [h1, h2]
    rfl
  · rw [h1, h2]
    obtain ⟨ac, ap⟩ := a
    obtain ⟨hc, hp⟩ := hm
    simp only at hc hp
    simp [mirror, hc, hp]

end frf

section onepass
variable {α X L : Type} [LT α] [DecidableLT α]

/-- the per-case `mm` of a list of cases, relabelled with the case names (what the successive
`extrema(res, mm, case)` calls receive); `none` when `maxmin` refuses a case -/
def mmsOf : List (L × List (Option α) × List X) → Option (List (Tr α X L × Tr α X L))
  | [] => some []
  | c :: cs => (maxminRow c.2.1 c.2.2).bind fun mm =>
      (mmsOf cs).map fun r => (relab c.1 mm.1, relab c.1 mm.2) :: r

theorem mmsOf_append (a b : List (L × List (Option α) × List X)) :
    mmsOf (a ++ b) = (mmsOf a).bind fun x => (mmsOf b).map fun y => x ++ y := by
  induction a with
  | nil => simp [mmsOf]
  | cons c cs ih =>
    simp only [List.cons_append, mmsOf, ih]
    rcases maxminRow c.2.1 c.2.2 with _ | mm
    · rfl
    · rcases mmsOf cs with _ | x
      · rfl
      · rcases mmsOf b with _ | y <;> simp

theorem mmsOf_length (cs : List (L × List (Option α) × List X)) (ms : List (Tr α X L × Tr α X L))
    (h : mmsOf cs = some ms) : ms.length = cs.length := by
  induction cs generalizing ms with
  | nil =>
    simp [mmsOf] at h
    simp [← h]
  | cons c cs ih =>
    simp only [mmsOf] at h
    rcases hmm : maxminRow c.2.1 c.2.2 with _ | mm
    · simp [hmm] at h
    · rcases hm : mmsOf cs with _ | r
      · simp [hmm, hm] at h
      · simp [hmm, hm] at h
        simp [← h, ih r hm]

theorem timeRow_foldl_fst (cs : List (L × List (Option α) × List X)) (cur : Option (Cur α X L))
    (per : List (Tr α X Nat × Tr α X Nat)) :
    (cs.foldl (fun st c => st.bind fun (cur, per) =>
      (maxminRow c.2.1 c.2.2).map fun mm =>
        (some (upd2 cur (⟨mm.1.v, mm.1.x, c.1⟩, ⟨mm.2.v, mm.2.x, c.1⟩)), per ++ [mm]))
        (some (cur, per))).map (·.1)
      = (mmsOf cs).map fun ms => ms.foldl (fun s m => some (upd2 s m)) cur := by
  induction cs generalizing cur per with
  | nil => simp [mmsOf]
  | cons c cs ih =>
    simp only [List.foldl_cons, Option.bind_some, mmsOf]
    rcases maxminRow c.2.1 c.2.2 with _ | mm
    · have : ∀ l : List (L × List (Option α) × List X),
          (l.foldl (fun st c => st.bind fun (cur, per) =>
            (maxminRow c.2.1 c.2.2).map fun mm =>
              (some (upd2 cur (⟨mm.1.v, mm.1.x, c.1⟩, ⟨mm.2.v, mm.2.x, c.1⟩)), per ++ [mm]))
            (none : Option (Option (Cur α X L) × List (Tr α X Nat × Tr α X Nat)))) = none := by
        intro l
        induction l with
        | nil => rfl
        | cons _ _ ih => simpa using ih
      simp [this]
    · simp only [Option.map_some, Option.bind_some]
      rw [ih]
      rcases mmsOf cs with _ | r
      · rfl
      · simp [relab]

/-- the running extreme of the time pipeline is `extrema` run over the per-case `mm`s -/
theorem timeRow_fst (cs : List (L × List (Option α) × List X)) :
    (timeRow cs).map (·.1) = (mmsOf cs).map run2 := by
  unfold timeRow run2
  exact timeRow_foldl_fst cs none []

end onepass

section dup
variable {L : Type} [DecidableEq L]

theorem mergeEvents_none (rename : L → L) (inc : List L) :
    inc.foldl (fun st e => st.bind fun keys =>
      if keys.contains (rename e) then none else some (keys ++ [rename e])) (none : Option (List L))
      = none := by
  induction inc with
  | nil => rfl
  | cons _ _ ih => simpa using ih

theorem mergeEvents_iff (rename : L → L) (ex inc r : List L) (hex : ex.Nodup) :
    mergeEvents rename ex inc = some r ↔ (ex ++ inc.map rename).Nodup ∧ r = ex ++ inc.map rename := by
  induction inc generalizing ex with
  | nil => simp [mergeEvents, hex, eq_comm]
  | cons e inc ih =>
    simp only [mergeEvents, List.foldl_cons, Option.bind_some, List.map_cons]
    by_cases hc : ex.contains (rename e) = true
    · rw [if_pos hc, mergeEvents_none]
      have : rename e ∈ ex := by simpa using hc
      simp only [reduceCtorEq, false_iff, not_and]
      intro hnd
      exfalso
      rw [List.nodup_append] at hnd
      exact hnd.2.2 _ this _ (List.mem_cons_self ..) rfl
    · rw [if_neg hc]
      have hnot : rename e ∉ ex := by simpa using hc
      have hex' : (ex ++ [rename e]).Nodup := by
        rw [List.nodup_append]
        refine ⟨hex, by simp, ?_⟩
        intro a ha b hb
        simp at hb
        subst hb
        exact fun h => hnot (h ▸ ha)
      have := ih (ex ++ [rename e]) hex'
      simp only [mergeEvents, List.append_assoc, List.singleton_append] at this
      exact this

theorem storeCases_foldl_none (ws : List (Nat × L)) :
    ws.foldl (fun st w => st.bind fun cs => storeCase cs w.1 w.2) (none : Option (List (Option L)))
      = none := by
  induction ws with
  | nil => rfl
  | cons _ _ ih => simpa using ih

/-- invariant of `_store_maxmin`: the labels stored are exactly those written so far -/
theorem storeCases_labels (ws : List (Nat × L)) (cs0 cs : List (Option L)) (seen : List L)
    (hjs : (ws.map (·.1)).Nodup) (hlt : ∀ w ∈ ws, w.1 < cs0.length)
    (hfree : ∀ w ∈ ws, cs0[w.1]? = some none)
    (hseen : ∀ l, some l ∈ cs0 ↔ l ∈ seen) (hsn : seen.Nodup)
    (h : ws.foldl (fun st w => st.bind fun cs => storeCase cs w.1 w.2) (some cs0) = some cs) :
    (seen ++ ws.map (·.2)).Nodup := by
  induction ws generalizing cs0 seen with
  | nil => simpa using hsn
  | cons w ws ih =>
    rw [List.foldl_cons] at h
    simp only [Option.bind_some] at h
    by_cases hc : cs0.contains (some w.2) = true
    · have hs : storeCase cs0 w.1 w.2 = none := by simp only [storeCase, if_pos hc]
      rw [hs, storeCases_foldl_none] at h
      cases h
    · have hs : storeCase cs0 w.1 w.2 = some (cs0.set w.1 (some w.2)) := by
        simp only [storeCase, if_neg hc]
      rw [hs] at h
      have hnot : w.2 ∉ seen := by
        rw [← hseen]
        simpa using hc
      simp only [List.map_cons, List.nodup_cons] at hjs
      have hw : w.1 < cs0.length := hlt w (List.mem_cons_self ..)
      have := ih (cs0.set w.1 (some w.2)) (seen ++ [w.2]) hjs.2
        (fun v hv => by simpa using hlt v (List.mem_cons_of_mem _ hv))
        (fun v hv => by
          have hne : w.1 ≠ v.1 := fun he => hjs.1 (he ▸ List.mem_map_of_mem hv)
          rw [List.getElem?_set_ne hne]
          exact hfree v (List.mem_cons_of_mem _ hv))
        (fun l => by
          constructor
          · intro hl
            rcases List.mem_or_eq_of_mem_set hl with hl | hl
            · exact List.mem_append_left _ ((hseen l).1 hl)
            · simp at hl
              simp [hl]
          · intro hl
            rcases List.mem_append.1 hl with hl | hl
            · have h0 := (hseen l).2 hl
              obtain ⟨i, hi, hget⟩ := List.getElem_of_mem h0
              have hne : w.1 ≠ i := by
                intro he
                have := hfree w (List.mem_cons_self ..)
                rw [he, List.getElem?_eq_getElem hi, hget] at this
                simp at this
              have : (cs0.set w.1 (some w.2))[i]? = some (some l) := by
                rw [List.getElem?_set_ne hne, List.getElem?_eq_getElem hi, hget]
              exact List.mem_of_getElem? this
            · have : l = w.2 := by simpa using hl
              subst this
              have : (cs0.set w.1 (some w.2))[w.1]? = some (some w.2) := by
                simp [hw]
              exact List.mem_of_getElem? this)
        (by
          rw [List.nodup_append]
          refine ⟨hsn, by simp, ?_⟩
          intro a ha b hb
          simp at hb
          subst hb
          exact fun h => hnot (h ▸ ha))
        h
      simpa [List.append_assoc] using this

end dup

section calcext
variable {α L : Type}

theorem propRepl_some (better : α → α → Bool) (a : α) (b : Option α) (hb : b.isSome) :
    propRepl better (some a) b = nanRepl better (some a) b := by
  rcases b with _ | b
  · simp at hb
  · rfl

/-- on NaN-free per-case columns numpy's `max / argmax` is the NaN-ignoring first-best fold -/
theorem calcBest_eq_runTr (better : α → α → Bool) (t : Tr α Unit L) (ts : List (Tr α Unit L))
    (h : ∀ u ∈ t :: ts, u.v.isSome) : calcBest better (t :: ts) = some (runTr better t ts) := by
  simp only [calcBest, runTr, Option.some.injEq]
  induction ts generalizing t with
  | nil => rfl
  | cons c ts ih =>
    simp only [List.foldl_cons]
    have ht : t.v.isSome := h t (List.mem_cons_self ..)
    have hc : c.v.isSome := h c (by simp)
    obtain ⟨a, ha⟩ := Option.isSome_iff_exists.1 ht
    have hstep : (if propRepl better t.v c.v then c else t) = t.upd better c := by
      unfold Tr.upd
      rw [ha, propRepl_some better a c.v hc]
    rw [hstep]
    apply ih
    intro u hu
    rcases List.mem_cons.1 hu with hu | hu
    · subst hu
      unfold Tr.upd
      split_ifs
      · exact hc
      · exact ht
    · exact h u (by simp [hu])

end calcext

section stat
variable {α : Type} [Field α] [CharZero α]

theorem mean_replicate (n : Nat) (hn : n ≠ 0) (c : α) : mean (List.replicate n c) = c := by
  have : (n : α) ≠ 0 := Nat.cast_ne_zero.2 hn
  simp [mean, List.sum_replicate]
  field_simp

end stat

end PyYetiVerif.Extrema
