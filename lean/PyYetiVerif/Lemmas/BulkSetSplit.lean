import PyYetiVerif.Lemmas.BulkSetMulti
/-! `wtset` with a `max_length` shorter than the head token `SET n = ` (C13; core Lean only): the head is cut into
pieces, no line of the statement is a SET header any more, and `rdsets` returns nothing. -/
namespace PyYetiVerif.Bulk

/-- no line is a SET header: `rdsets` returns the dictionary it had (whether or not it meets `BEGIN BULK`) -/
theorem rdSetsAux_no_head (ls : List Txt) (h : ∀ l ∈ ls, setHead l = none) :
    ∀ (fuel : Nat) (d : List (Val × List Int)), rdSetsAux fuel ls d = some d := by
  induction ls with
  | nil => intro fuel d; exact rdSetsAux_nil fuel d
  | cons l r ih =>
      intro fuel d
      cases fuel with
      | zero => rfl
      | succ n =>
          simp only [rdSetsAux, h l (by simp)]
          split
          · rfl
          · exact ih (fun x hx => h x (by simp [hx])) n d

/-- lower-casing does not produce an `s` -/
def NotS (c : Char) : Prop := c.toLower ≠ 's'

theorem notS_digit {c : Char} (h : c.isDigit = true) : NotS c := by
  unfold NotS; rw [toLower_of_isDigit h]; intro e; subst e; exact absurd h (by decide)

/-- a line without a character that lower-cases to `s` is no SET header -/
theorem setHead_none_of_notS (l : Txt) (h : ∀ c ∈ l, NotS c) : setHead l = none := by
  unfold setHead
  have hsuf : ∀ c ∈ (skipSp l).take 3, NotS c := by
    intro c hc
    apply h
    exact (List.dropWhile_suffix _).subset ((List.take_subset 3 _) hc)
  have : startsWith (txt "set") (lower ((skipSp l).take 3)) = false := by
    cases hq : (skipSp l).take 3 with
    | nil => rfl
    | cons a t =>
        have ha : a.toLower ≠ 's' := hsuf a (by rw [hq]; simp)
        simp only [lower, List.map_cons, startsWith, txt]
        have e : ("set".toList : Txt) = ['s', 'e', 't'] := rfl
        rw [e]
        simp only [List.length_cons, List.length_nil, List.take_succ_cons]
        rw [Bool.eq_false_iff]
        intro hh
        rw [beq_iff_eq] at hh
        injection hh with h1 _
        exact ha h1
  simp [this]

/-- a line without `=` is no SET header -/
theorem setHead_none_of_no_eq (l : Txt) (h : '=' ∉ l) : setHead l = none := by
  unfold setHead
  simp only
  split
  · rfl
  · split
    · rfl
    · split
      · rename_i r heq
        exfalso
        apply h
        have h1 : '=' ∈ skipSp (List.dropWhile Char.isDigit (skipSp (List.drop 3 (skipSp l)))) := by rw [heq]; simp
        have s1 := (List.dropWhile_suffix (· = ' ') (l := List.dropWhile Char.isDigit (skipSp (List.drop 3 (skipSp l))))).subset
        have s2 := (List.dropWhile_suffix Char.isDigit (l := skipSp (List.drop 3 (skipSp l)))).subset
        have s3 := (List.dropWhile_suffix (· = ' ') (l := List.drop 3 (skipSp l))).subset
        have s4 := (List.drop_suffix 3 (skipSp l)).subset
        have s5 := (List.dropWhile_suffix (· = ' ') (l := l)).subset
        exact s5 (s4 (s3 (s2 (s1 h1))))
      · rfl

/-- the pieces of `_wrap_text_lines` never exceed `max_length` (`max_length ≥ 2`), split tokens or not -/
theorem presplit_fits (m : Nat) (hm : 2 ≤ m) (ts : List Txt) : ∀ t ∈ presplit m ts, t.length ≤ m := by
  intro t ht
  unfold presplit at ht
  obtain ⟨u, _, hu⟩ := List.mem_flatMap.mp ht
  split at hu
  · have := (chunks_length_le (m - 1) (by omega) u t hu).1
    omega
  · simp only [List.mem_singleton] at hu; subst hu; omega

theorem presplit_flatten (m : Nat) (ts : List Txt) : (presplit m ts).flatten = ts.flatten := by
  induction ts with
  | nil => rfl
  | cons t r ih =>
      unfold presplit at ih ⊢
      simp only [List.flatMap_cons, List.flatten_append, List.flatten_cons, ih]
      split
      · rw [chunks_flatten]
      · simp

/-- every line of `_wrap_text_lines` fits `max_length ≥ 2`, for ANY tokens -/
theorem wrapLines_fits_any (m : Nat) (hm : 2 ≤ m) (ts : List Txt) : ∀ l ∈ wrapLines m ts, l.length ≤ m := by
  intro l hl
  unfold wrapLines wrapGroups at hl
  obtain ⟨g, hg, rfl⟩ := List.mem_map.mp hl
  simp only at hg
  split at hg
  · obtain ⟨t, ht, rfl⟩ := List.mem_map.mp hg
    simpa using presplit_fits m hm ts t ht
  · exact wrapGo_fits m _ (presplit_fits m hm ts) [] 0 (by simp) (by omega) g hg

theorem flatten_map_flatten (G : List (List Txt)) : (G.map List.flatten).flatten = G.flatten.flatten := by
  induction G with
  | nil => rfl
  | cons a r ih => simp [ih]

/-- the lines concatenate to the concatenation of the tokens -/
theorem wrapLines_flatten (m : Nat) (ts : List Txt) : (wrapLines m ts).flatten = ts.flatten := by
  unfold wrapLines wrapGroups
  simp only
  rw [flatten_map_flatten, ← presplit_flatten m ts]
  split
  · congr 1
    generalize presplit m ts = p
    induction p with
    | nil => rfl
    | cons a r ih => simp at ih ⊢; exact ih
  · rw [wrapGo_flatten]; simp

/-- the first line is not empty when the first token is not -/
theorem wrapLines_head (m : Nat) (hm : 2 ≤ m) (t : Txt) (ts : List Txt) (ht : t ≠ []) :
    ∃ l0 rest, wrapLines m (t :: ts) = l0 :: rest ∧ l0 ≠ [] := by
  have hp : ∃ c p', presplit m (t :: ts) = c :: p' ∧ c ≠ [] := by
    unfold presplit
    simp only [List.flatMap_cons]
    split
    · rename_i hl
      have hne : chunks (m - 1) t ≠ [] := by
        intro e
        have := chunks_flatten (m - 1) t
        rw [e] at this
        exact ht this.symm
      cases hc : chunks (m - 1) t with
      | nil => exact absurd hc hne
      | cons c r =>
          refine ⟨c, _, rfl, ?_⟩
          have := (chunks_length_le (m - 1) (by omega) t c (by rw [hc]; simp)).2
          intro e; rw [e] at this; simp at this
    · exact ⟨t, _, rfl, ht⟩
  obtain ⟨c, p', hp, hc⟩ := hp
  have hcm : c.length ≤ m := presplit_fits m hm (t :: ts) c (by rw [hp]; simp)
  unfold wrapLines wrapGroups
  simp only [hp]
  split
  · exact ⟨c, (p'.map fun x => [x]).map List.flatten, by simp, hc⟩
  · -- the greedy loop keeps the first piece on the first line
    have key : ∀ (q : List Txt) (cur : List Txt) (n : Nat), cur ≠ [] → cur.flatten ≠ [] →
        ∃ g G, wrapGo m cur n q = g :: G ∧ g.flatten ≠ [] := by
      intro q
      induction q with
      | nil => intro cur n _ h2; exact ⟨cur, [], rfl, h2⟩
      | cons a r ih =>
          intro cur n h1 h2
          unfold wrapGo
          split
          · exact ⟨cur, _, rfl, h2⟩
          · exact ih (cur ++ [a]) _ (by simp) (by
              rw [List.flatten_append]; intro e; exact h2 (List.append_eq_nil_iff.mp e).1)
    have h0 : wrapGo m [] 0 (c :: p') = wrapGo m [c] c.length p' := by
      rw [wrapGo, if_neg (by omega)]
      simp
    obtain ⟨g, G, hg, hgne⟩ := key p' [c] c.length (by simp) (by simpa using hc)
    rw [h0, hg]
    exact ⟨g.flatten, G.map List.flatten, by simp, hgne⟩

/-! ### the head token cut into pieces -/

theorem notS_of_mem (c : Char) (h : c ∈ txt "ET = THRU,") : NotS c := by
  simp only [txt] at h
  have : c = 'E' ∨ c = 'T' ∨ c = ' ' ∨ c = '=' ∨ c = 'H' ∨ c = 'R' ∨ c = 'U' ∨ c = ',' := by
    have e : "ET = THRU,".toList = ['E', 'T', ' ', '=', ' ', 'T', 'H', 'R', 'U', ','] := rfl
    rw [e] at h
    simp only [List.mem_cons, List.not_mem_nil, or_false] at h
    rcases h with h | h | h | h | h | h | h | h | h | h <;> simp [h]
  unfold NotS
  rcases this with h | h | h | h | h | h | h | h <;> subst h <;> decide

theorem setBody_chars (J : List Item) (hn : ∀ x ∈ J, x.NonNeg) :
    ∀ c ∈ (setBody J).flatten, c.isDigit = true ∨ c ∈ txt "ET = THRU," := by
  have hit : ∀ it : Item, it.NonNeg → ∀ c ∈ it.txt, c.isDigit = true ∨ c ∈ txt "ET = THRU," := by
    intro it h c hc
    rcases item_chars it h c hc with h1 | h1
    · exact Or.inl h1
    · right
      have e : txt " THRU " = [' ', 'T', 'H', 'R', 'U', ' '] := rfl
      rw [e] at h1
      simp only [List.mem_cons, List.not_mem_nil, or_false] at h1
      rcases h1 with h | h | h | h | h | h <;> subst h <;> decide
  induction J with
  | nil => intro c hc; simp [setBody] at hc
  | cons it r ih =>
      intro c hc
      cases r with
      | nil =>
          simp only [setBody, List.flatten_cons, List.flatten_nil, List.append_nil] at hc
          exact hit it (hn it (by simp)) c hc
      | cons it' r' =>
          rw [setBody_cons2] at hc
          simp only [List.flatten_cons, List.mem_append, ctok] at hc
          rcases hc with (hc | hc) | hc
          · exact hit it (hn it (by simp)) c hc
          · right
            have e : txt ", " = [',', ' '] := rfl
            rw [e] at hc
            simp only [List.mem_cons, List.not_mem_nil, or_false] at hc
            rcases hc with h | h <;> subst h <;> decide
          · exact ih (fun x hx => hn x (by simp [hx])) c hc

/-- **the first line stops at least two columns before the end of the head token `SET n = `**: no line of the statement is a SET
header (the first line is a piece of the head without its `=`, no other line has an `S`), so `rdsets` finds no set -/
theorem rdSets_first_short (setid : Int) (ids : List Int) (m : Nat) (hs : 0 ≤ setid) (hn : ∀ x ∈ ids, 0 ≤ x)
    (l0 : Txt) (rest : List Txt)
    (hl : wrapLines m ((txt "SET " ++ dec setid ++ txt " = ") :: setBody (compress ids)) = l0 :: rest) (hl0 : l0 ≠ [])
    (hlen0 : l0.length ≤ (txt "SET " ++ dec setid ++ txt " = ").length - 2) :
    rdSets (setLines setid ids m) = some [] := by
  have hJn := compress_nonneg ids hn
  have hflat := wrapLines_flatten m ((txt "SET " ++ dec setid ++ txt " = ") :: setBody (compress ids))
  rw [hl] at hflat
  simp only [List.flatten_cons] at hflat
  -- the head token as 'S' :: tail, tail without a character that lower-cases to `s`
  have hhdr : txt "SET " ++ dec setid ++ txt " = " = 'S' :: ('E' :: 'T' :: ' ' :: (dec setid ++ [' ', '=', ' '])) := by simp [txt]
  have htail : ∀ c ∈ ('E' :: 'T' :: ' ' :: (dec setid ++ [' ', '=', ' '])) ++ (setBody (compress ids)).flatten, NotS c := by
    intro c hc
    simp only [List.cons_append, List.mem_cons, List.mem_append, List.not_mem_nil, or_false] at hc
    rcases hc with h | h | h | (h | h | h | h) | h
    · subst h; unfold NotS; decide
    · subst h; unfold NotS; decide
    · subst h; unfold NotS; decide
    · exact notS_digit (dec_nonneg_digits hs c h)
    · subst h; unfold NotS; decide
    · subst h; unfold NotS; decide
    · subst h; unfold NotS; decide
    · rcases setBody_chars _ hJn c h with h1 | h1
      · exact notS_digit h1
      · exact notS_of_mem c h1
  -- the first line is a prefix of the head that stops before the `=`
  have hpre : l0 = (txt "SET " ++ dec setid ++ txt " = ").take l0.length := by
    have e1 : (l0 ++ rest.flatten).take l0.length = l0 := by simp
    rw [hflat, List.take_append_of_le_length (by omega)] at e1
    exact e1.symm
  have hnoeq : '=' ∉ l0 := by
    rw [hpre]
    intro hm
    have hsub : (txt "SET " ++ dec setid ++ txt " = ").take l0.length <+: (txt "SET " ++ dec setid ++ txt " ") := by
      have e : txt "SET " ++ dec setid ++ txt " = " = (txt "SET " ++ dec setid ++ txt " ") ++ ['=', ' '] := by simp [txt]
      have hl' : l0.length ≤ (txt "SET " ++ dec setid ++ txt " ").length := by
        have : (txt "SET " ++ dec setid ++ txt " = ").length = (txt "SET " ++ dec setid ++ txt " ").length + 2 := by
          simp [txt]
        omega
      rw [e, List.take_append_of_le_length hl']
      exact List.take_prefix _ _
    have := hsub.subset hm
    simp only [txt, List.mem_append] at this
    rcases this with (h | h) | h
    · revert h; decide
    · exact absurd (dec_nonneg_digits hs '=' h) (by decide)
    · revert h; decide
  -- every other line lies in the tail
  have hrest : ∀ l ∈ rest, ∀ c ∈ l, NotS c := by
    intro l hlm c hc
    apply htail
    have hcr : c ∈ rest.flatten := List.mem_flatten.mpr ⟨l, hlm, hc⟩
    cases hq : l0 with
    | nil => exact absurd hq hl0
    | cons a t =>
        rw [hq, hhdr] at hflat
        simp only [List.cons_append] at hflat
        injection hflat with _ htl
        have : c ∈ t ++ rest.flatten := List.mem_append.mpr (Or.inr hcr)
        rw [htl] at this
        simpa using this
  have hall : ∀ l ∈ setLines setid ids m, setHead l = none := by
    intro l hlm
    unfold setLines setTokens at hlm
    rw [hl] at hlm
    rcases List.mem_cons.mp hlm with rfl | hlm
    · exact setHead_none_of_no_eq _ hnoeq
    · exact setHead_none_of_notS l (hrest l hlm)
  unfold rdSets
  exact rdSetsAux_no_head _ hall _ []

/-- **`max_length` at least two columns shorter than the head token `SET n = `** -/
theorem rdSets_header_split (setid : Int) (ids : List Int) (m : Nat) (hs : 0 ≤ setid) (hn : ∀ x ∈ ids, 0 ≤ x)
    (h2 : 2 ≤ m) (hlong : m + 2 ≤ (txt "SET " ++ dec setid ++ txt " = ").length) :
    rdSets (setLines setid ids m) = some [] := by
  have hhne : txt "SET " ++ dec setid ++ txt " = " ≠ [] := by simp [txt]
  obtain ⟨l0, rest, hl, hl0⟩ := wrapLines_head m h2 (txt "SET " ++ dec setid ++ txt " = ") (setBody (compress ids)) hhne
  have hfit := wrapLines_fits_any m h2 ((txt "SET " ++ dec setid ++ txt " = ") :: setBody (compress ids)) l0 (by rw [hl]; simp)
  exact rdSets_first_short setid ids m hs hn l0 rest hl hl0 (by omega)

/-- a first token exactly one column too long is cut into its first `max_length − 1` characters, alone on the first
line, and its last two characters, which begin the second line -/
theorem wrapLines_cut_first (m : Nat) (H : Txt) (ts : List Txt) (hm : 3 ≤ m) (hlen : H.length = m + 1) :
    wrapLines m (H :: ts) =
      H.take (m - 1) :: (wrapGo m [H.drop (m - 1)] (H.drop (m - 1)).length (presplit m ts)).map List.flatten := by
  have hc : chunks (m - 1) H = [H.take (m - 1), H.drop (m - 1)] := by
    rw [chunks_eq, if_neg (by omega), chunks_eq, if_pos (by right; simp; omega)]
    have : (H.drop (m - 1)).isEmpty = false := by
      cases hq : H.drop (m - 1) with
      | nil => have := congrArg List.length hq; simp at this; omega
      | cons a b => rfl
    simp [this]
  have hp : presplit m (H :: ts) = H.take (m - 1) :: H.drop (m - 1) :: presplit m ts := by
    unfold presplit
    simp only [List.flatMap_cons]
    rw [if_pos (by omega), hc]
    rfl
  have h1 : (H.take (m - 1)).length = m - 1 := by simp only [List.length_take]; omega
  have h2 : (H.drop (m - 1)).length = 2 := by simp only [List.length_drop]; omega
  unfold wrapLines wrapGroups
  simp only [hp]
  rw [if_neg (by simp)]
  rw [wrapGo, if_neg (by omega)]
  rw [wrapGo, if_pos (by simp only [h1, h2]; omega)]
  simp

/-- **`max_length` exactly one column shorter than the head token**: the head is cut into `SET n ` (`max_length − 1`
characters) and `= `; the second piece does not fit behind the first, so the first line is `SET n ` — no `=`, no
SET header — and `rdsets` finds no set -/
theorem rdSets_header_split1 (setid : Int) (ids : List Int) (m : Nat) (hs : 0 ≤ setid) (hn : ∀ x ∈ ids, 0 ≤ x)
    (hlong : (txt "SET " ++ dec setid ++ txt " = ").length = m + 1) :
    rdSets (setLines setid ids m) = some [] := by
  have hm : 6 ≤ m := by
    have : (txt "SET " ++ dec setid ++ txt " = ").length = 4 + (dec setid).length + 3 := by simp [txt]; omega
    omega
  have hl := wrapLines_cut_first m _ (setBody (compress ids)) (by omega) hlong
  have h1 : ((txt "SET " ++ dec setid ++ txt " = ").take (m - 1)).length = m - 1 := by
    simp only [List.length_take]; omega
  refine rdSets_first_short setid ids m hs hn _ _ hl ?_ ?_
  · intro e; rw [e] at h1; simp at h1; omega
  · rw [h1]; omega

end PyYetiVerif.Bulk
