import PyYetiVerif.Model.Locate
import Mathlib.Order.Defs.LinearOrder
import Mathlib.Order.Basic
import Mathlib.Data.List.Forall2
import Mathlib.Algebra.BigOperators.Group.List.Basic
/-!
Helper lemmas for the sorted search with re-check shared by `mat_intersect` and `mkdofpv`
(`Model/Locate.lean`).
-/
namespace PyYetiVerif.Locate

section search
variable {α : Type} [LinearOrder α]

/-- on a sorted list holding `x`, the number of leading entries `< x` is a position of `x`. -/
theorem getElem?_takeWhile_lt (x : α) :
    ∀ (ks : List α), ks.Pairwise (· ≤ ·) → x ∈ ks →
      ks[(ks.takeWhile (fun y => decide (y < x))).length]? = some x
  | [], _, h => by simp at h
  | a :: t, hs, hx => by
      rw [List.pairwise_cons] at hs
      by_cases ha : a < x
      · have hxt : x ∈ t := by
          rcases List.mem_cons.mp hx with h | h
          · exact absurd (h ▸ ha) (lt_irrefl _)
          · exact h
        simp only [List.takeWhile_cons, ha, decide_true, if_true, List.length_cons,
          List.getElem?_cons_succ]
        exact getElem?_takeWhile_lt x t hs.2 hxt
      · have hax : a = x := by
          rcases List.mem_cons.mp hx with h | h
          · exact h.symm
          · exact le_antisymm (hs.1 x h) (not_lt.mp ha)
        simp [hax]

theorem argsort_pairwise (xs : List α) : ((argsort xs).map (·.1)).Pairwise (· ≤ ·) := by
  unfold argsort
  rw [List.pairwise_map]
  have := List.pairwise_mergeSort (le := fun (a b : α × Nat) => decide (a.1 ≤ b.1))
    (by intro a b c; simp only [decide_eq_true_eq]; exact le_trans)
    (by intro a b; simp only [Bool.or_eq_true, decide_eq_true_eq]; exact le_total _ _)
    xs.zipIdx
  exact this.imp (by intro a b h; simpa using h)

theorem mem_argsort {xs : List α} {p : α × Nat} : p ∈ argsort xs ↔ xs[p.2]? = some p.1 := by
  unfold argsort
  rw [List.mem_mergeSort, List.mem_zipIdx_iff_getElem?]

/-- soundness of the re-check: a reported index holds the needle. -/
theorem lookup_sound' {xs : List α} {srt : List (α × Nat)} {x : α} {i : Nat}
    (h : lookup xs srt x = some i) : xs[i]? = some x := by
  unfold lookup at h
  simp only at h
  split at h
  · rename_i k idx _
    split at h
    · rename_i hk
      cases h; exact hk
    · cases h
  · cases h

/-- completeness of the search: a needle present in the haystack is found. -/
theorem lookup_complete' {xs : List α} {x : α} (hx : x ∈ xs) :
    ∃ i, lookup xs (argsort xs) x = some i := by
  have hkeys : x ∈ (argsort xs).map (·.1) := by
    obtain ⟨i, hi⟩ := List.getElem?_of_mem hx
    exact List.mem_map.mpr ⟨(x, i), mem_argsort.mpr hi, rfl⟩
  have hp := getElem?_takeWhile_lt x _ (argsort_pairwise xs) hkeys
  have hlt : ((argsort xs).map (·.1) |>.takeWhile (fun y => decide (y < x))).length
      < (argsort xs).length := by
    have := (List.getElem?_eq_some_iff.mp hp).1
    simpa using this
  rw [List.getElem?_map] at hp
  unfold lookup searchsortedLeft
  simp only [Nat.ne_of_lt hlt, if_false]
  cases hq : (argsort xs)[((argsort xs).map (·.1) |>.takeWhile (fun y => decide (y < x))).length]? with
  | none => rw [hq] at hp; simp at hp
  | some q =>
      rw [hq] at hp
      simp only [Option.map_some, Option.some.injEq] at hp
      have hmem : q ∈ argsort xs := List.mem_of_getElem? hq
      have := mem_argsort.mp hmem
      rw [hp] at this
      obtain ⟨k, idx⟩ := q
      exact ⟨idx, by simp [this]⟩

theorem lookup_eq_none_iff {xs : List α} {x : α} :
    lookup xs (argsort xs) x = none ↔ x ∉ xs := by
  constructor
  · intro h hx
    obtain ⟨i, hi⟩ := lookup_complete' hx
    rw [h] at hi; cases hi
  · intro hx
    cases h : lookup xs (argsort xs) x with
    | none => rfl
    | some i => exact absurd (List.mem_of_getElem? (lookup_sound' h)) hx

end search

section
variable {α : Type} [LinearOrder α]

/-- the two vectors produced from the looked-up needles (offset `k` = index of the first one) -/
theorem lookup_pairs (hay : List α) :
    ∀ (needles : List α) (k : Nat),
      let res := (needles.map (lookup hay (argsort hay))).zipIdx k
      List.Forall₂ (fun n h => ∃ x, needles[n - k]? = some x ∧ hay[h]? = some x ∧ k ≤ n)
        (res.filterMap (fun r => r.1.map (fun _ => r.2))) (res.filterMap (·.1)) ∧
      ∀ n, n ∈ res.filterMap (fun r => r.1.map (fun _ => r.2)) ↔
        k ≤ n ∧ ∃ x, needles[n - k]? = some x ∧ x ∈ hay
  | [], k => by simp
  | a :: t, k => by
      obtain ⟨ih1, ih2⟩ := lookup_pairs hay t (k + 1)
      simp only [List.map_cons, List.zipIdx_cons, List.filterMap_cons]
      cases hl : lookup hay (argsort hay) a with
      | none =>
          have hna : a ∉ hay := lookup_eq_none_iff.mp hl
          simp only [Option.map_none]
          constructor
          · refine ih1.imp ?_
            rintro n h ⟨x, h1, h2, h3⟩
            refine ⟨x, ?_, h2, by omega⟩
            have : n - k = (n - (k + 1)) + 1 := by omega
            rw [this, List.getElem?_cons_succ]; exact h1
          · intro n
            rw [ih2 n]
            constructor
            · rintro ⟨hk, x, h1, h2⟩
              refine ⟨by omega, x, ?_, h2⟩
              have : n - k = (n - (k + 1)) + 1 := by omega
              rw [this, List.getElem?_cons_succ]; exact h1
            · rintro ⟨hk, x, h1, h2⟩
              rcases Nat.eq_or_lt_of_le hk with heq | hlt
              · subst heq
                simp only [Nat.sub_self, List.getElem?_cons_zero, Option.some.injEq] at h1
                exact absurd (h1 ▸ h2) hna
              · refine ⟨by omega, x, ?_, h2⟩
                have : n - k = (n - (k + 1)) + 1 := by omega
                rw [this, List.getElem?_cons_succ] at h1; exact h1
      | some i =>
          have hget := lookup_sound' hl
          simp only [Option.map_some]
          constructor
          · refine List.Forall₂.cons ⟨a, by simp, hget, Nat.le_refl _⟩ (ih1.imp ?_)
            rintro n h ⟨x, h1, h2, h3⟩
            refine ⟨x, ?_, h2, by omega⟩
            have : n - k = (n - (k + 1)) + 1 := by omega
            rw [this, List.getElem?_cons_succ]; exact h1
          · intro n
            rw [List.mem_cons, ih2 n]
            constructor
            · rintro (rfl | ⟨hk, x, h1, h2⟩)
              · exact ⟨Nat.le_refl _, a, by simp, List.mem_of_getElem? hget⟩
              · refine ⟨by omega, x, ?_, h2⟩
                have : n - k = (n - (k + 1)) + 1 := by omega
                rw [this, List.getElem?_cons_succ]; exact h1
            · rintro ⟨hk, x, h1, h2⟩
              rcases Nat.eq_or_lt_of_le hk with heq | hlt
              · exact Or.inl heq.symm
              · refine Or.inr ⟨by omega, x, ?_, h2⟩
                have : n - k = (n - (k + 1)) + 1 := by omega
                rw [this, List.getElem?_cons_succ] at h1; exact h1
end



theorem zip_of_take_eq : ∀ (sub l : List Int), l.take sub.length = sub → l.zip sub = sub.zip sub
  | [], l, _ => by simp
  | b :: t, [], h => by simp at h
  | b :: t, a :: l', h => by
      simp only [List.length_cons, List.take_succ_cons, List.cons.injEq] at h
      obtain ⟨rfl, h2⟩ := h
      simp [zip_of_take_eq t l' h2]

theorem corr_of_window {seq sub : List Int} {k : Nat}
    (h : (seq.drop k).take sub.length = sub) : corrAt seq sub k = corrAt sub sub 0 := by
  unfold corrAt
  rw [zip_of_take_eq sub _ h, List.drop_zero]




theorem mapM_option {β γ : Type} (f : β → Option γ) :
    ∀ l : List β, (l.mapM f = none ↔ ∃ p ∈ l, f p = none) ∧
      ∀ ps, l.mapM f = some ps → List.Forall₂ (fun p q => f p = some q) l ps
  | [] => by simp
  | a :: t => by
      obtain ⟨ih1, ih2⟩ := mapM_option f t
      rw [List.mapM_cons]
      cases ha : f a with
      | none => simp [ha]
      | some b =>
          cases ht : t.mapM f with
          | none =>
              have := ih1.mp ht
              simp only [bind, Option.bind]
              constructor
              · constructor
                · intro _
                  obtain ⟨p, hp, hf⟩ := this
                  exact ⟨p, List.mem_cons_of_mem _ hp, hf⟩
                · intro _; trivial
              · intro ps h; cases h
          | some bs =>
              simp only [bind, Option.bind, pure]
              constructor
              · constructor
                · intro h; cases h
                · rintro ⟨p, hp, hf⟩
                  rcases List.mem_cons.mp hp with rfl | hp
                  · rw [ha] at hf; cases hf
                  · have := ih1.mpr ⟨p, hp, hf⟩
                    rw [ht] at this; cases this
              · intro ps h
                cases h
                exact List.Forall₂.cons ha (ih2 bs ht)

theorem mem_of_forall₂ {β γ : Type} {f : β → Option γ} {l : List β} {ps : List γ}
    (h : List.Forall₂ (fun p q => f p = some q) l ps) (q : γ) :
    q ∈ ps ↔ ∃ p ∈ l, f p = some q := by
  induction h with
  | nil => simp
  | @cons a b l' ps' hab _ ih =>
      simp only [List.mem_cons, ih]
      constructor
      · rintro (rfl | ⟨p, hp, hf⟩)
        · exact ⟨a, Or.inl rfl, hab⟩
        · exact ⟨p, Or.inr hp, hf⟩
      · rintro ⟨p, rfl | hp, hf⟩
        · rw [hab] at hf; exact Or.inl (Option.some.inj hf).symm
        · exact Or.inr ⟨p, hp, hf⟩


theorem foldl_or_mem (x : Int) : ∀ (v : List Int) (b : Bool),
    v.foldl (fun acc i => acc || decide (x = i)) b = (b || decide (x ∈ v))
  | [], b => by simp
  | a :: t, b => by
      rw [List.foldl_cons, foldl_or_mem x t]
      by_cases h : x = a <;> simp [h]

theorem zip_abs_sum_zero : ∀ (r row : List Int), r.length = row.length →
    ((((r.zip row).map fun p => (p.1 - p.2).natAbs).sum = 0) ↔ r = row)
  | [], [], _ => by simp
  | [], _ :: _, h => by simp at h
  | _ :: _, [], h => by simp at h
  | a :: t, b :: u, h => by
      have ih := zip_abs_sum_zero t u (by simpa using h)
      simp only [List.zip_cons_cons, List.map_cons, List.sum_cons, Nat.add_eq_zero_iff,
        Int.natAbs_eq_zero, List.cons.injEq, ih]
      constructor
      · rintro ⟨h1, h2⟩; exact ⟨by omega, h2⟩
      · rintro ⟨h1, h2⟩; exact ⟨by omega, h2⟩

theorem foldl_max_spec : ∀ (m : List Int) (a : Nat),
    let M := m.foldl (fun acc d => max acc d.natAbs) a
    a ≤ M ∧ (∀ d ∈ m, d.natAbs ≤ M) ∧ (M = a ∨ ∃ d ∈ m, d.natAbs = M)
  | [], a => by simp
  | x :: t, a => by
      obtain ⟨h1, h2, h3⟩ := foldl_max_spec t (max a x.natAbs)
      simp only [List.foldl_cons]
      refine ⟨by omega, ?_, ?_⟩
      · intro d hd
        rcases List.mem_cons.mp hd with hdx | hd
        · rw [hdx]; exact Nat.le_trans (Nat.le_max_right a x.natAbs) h1
        · exact h2 d hd
      · rcases h3 with h | ⟨d, hd, h⟩
        · by_cases hm : x.natAbs ≤ a
          · left; rw [h]; omega
          · right; exact ⟨x, List.mem_cons_self, by rw [h]; omega⟩
        · right; exact ⟨d, List.mem_cons_of_mem _ hd, h⟩


end PyYetiVerif.Locate
