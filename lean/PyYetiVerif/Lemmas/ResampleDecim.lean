import PyYetiVerif.Lemmas.ResampleConv
import PyYetiVerif.Model.ResampleDtype
/-! Helper lemmas for C19: `resample` as "low-pass, then every `q`-th sample", gcd reduction. -/
namespace PyYetiVerif.Resample

variable {α : Type} [Add α] [Sub α] [Mul α] [Div α] [LT α] [DecidableLT α]
  [OfNat α 0] [OfNat α 1] [OfNat α 2] [NatCast α] [SincOps α]

/-- the filtered, lag-compensated sequence at the high rate `p'` (before decimation and before the
mean is added back): `lfilter(fir, 1, padded)[M:]` -/
def filtered (data : List α) (p q pts : Nat) (w : List α) : List α :=
  let g := Nat.gcd p q
  let p' := p / g
  let q' := q / g
  let M := 2 * pts * max p' q'
  let fir := firTaps p' q' M w
  let m : α := sumL data / (data.length : α)
  let d := data.map (· - m)
  let up := if 1 < p' then stuff 0 p' d else d
  let nz := M / 2
  let padded := List.replicate nz 0 ++ up ++ List.replicate nz 0
  (firFilter fir padded).drop M

/-- `np.mean(data)` as the code's `sum/len` -/
def meanOf (data : List α) : α := sumL data / (data.length : α)

theorem resample_eq_decimated (data : List α) (p q pts : Nat) (w : List α) :
    resample data p q pts w =
      (if 1 < q / Nat.gcd p q then everyQ (q / Nat.gcd p q) (filtered data p q pts w)
        else filtered data p q pts w).map (· + meanOf data) := rfl

/-- output sample `j` is filtered sample `j·q'` plus the mean -/
theorem resample_getElem? (data : List α) (p q pts : Nat) (w : List α) (hq : 1 ≤ q) (j : Nat) :
    (resample data p q pts w)[j]? =
      ((filtered data p q pts w)[j * (q / Nat.gcd p q)]?).map (· + meanOf data) := by
  rw [resample_eq_decimated, List.getElem?_map]
  have hg : 0 < Nat.gcd p q := Nat.gcd_pos_of_pos_right p (by omega)
  have hq' : 1 ≤ q / Nat.gcd p q := by
    have := Nat.gcd_dvd_right p q
    obtain ⟨c, hc⟩ := this
    have hc0 : c ≠ 0 := by rintro rfl; omega
    have : q / Nat.gcd p q = c := Nat.div_eq_of_eq_mul_right hg hc
    omega
  split_ifs with h
  · rw [everyQ_getElem? _ hq' j]
  · have : q / Nat.gcd p q = 1 := by omega
    rw [this, Nat.mul_one]

/-- a common factor of `p` and `q` changes nothing -/
theorem resample_common_factor (data : List α) (p q pts k : Nat) (w : List α) (hk : 1 ≤ k) :
    resample data (k * p) (k * q) pts w = resample data p q pts w := by
  unfold resample
  have hg : Nat.gcd (k * p) (k * q) = k * Nat.gcd p q := Nat.gcd_mul_left k p q
  have e1 : k * p / Nat.gcd (k * p) (k * q) = p / Nat.gcd p q := by
    rw [hg, Nat.mul_div_mul_left _ _ (by omega)]
  have e2 : k * q / Nat.gcd (k * p) (k * q) = q / Nat.gcd p q := by
    rw [hg, Nat.mul_div_mul_left _ _ (by omega)]
  simp only [e1, e2]

end PyYetiVerif.Resample
