import PyYetiVerif.Model.FdePsd
import PyYetiVerif.Lemmas.Rainflow
import PyYetiVerif.Lemmas.RainflowMax
import Mathlib.Algebra.Order.Ring.Abs
import Mathlib.Algebra.Order.Field.Basic
import Mathlib.Tactic.Ring
import Mathlib.Tactic.Linarith
/-! Helper lemmas for C10 / fdepsd: every counted cycle's amplitude `|a − b| / 2` is bounded by
the SRS peak `max |x|`, because `a` and `b` are samples of the response history. -/
set_option linter.unusedSectionVars false
set_option linter.unusedVariables false
namespace PyYetiVerif.Fde

variable {α : Type} [Field α] [LinearOrder α] [IsStrictOrderedRing α]

theorem absv_eq_abs (x : α) : absv x = |x| := by
  unfold absv
  split
  · rw [abs_of_neg ‹_›]; ring
  · rw [abs_of_nonneg (not_lt.mp ‹_›)]

theorem foldl_absmax_ge (r : List α) :
    ∀ m : α, m ≤ r.foldl (fun m y => if m < absv y then absv y else m) m ∧
      ∀ x ∈ r, |x| ≤ r.foldl (fun m y => if m < absv y then absv y else m) m := by
  induction r with
  | nil => intro m; simp
  | cons x r ih =>
      intro m
      simp only [List.foldl_cons]
      obtain ⟨h1, h2⟩ := ih (if m < absv x then absv x else m)
      have hm : m ≤ (if m < absv x then absv x else m) := by
        split <;> [exact le_of_lt ‹_›; exact le_refl _]
      have hx : |x| ≤ (if m < absv x then absv x else m) := by
        rw [← absv_eq_abs]
        split
        · exact le_refl _
        · exact not_lt.mp ‹_›
      refine ⟨le_trans hm h1, ?_⟩
      intro d hd
      rcases List.mem_cons.mp hd with rfl | hd
      · exact le_trans hx h1
      · exact h2 d hd

/-- `SRSmax = abs(resphist).max()` bounds every sample -/
theorem srsPeak_spec (y : List α) (S : α) (h : srsPeak y = some S) : ∀ x ∈ y, |x| ≤ S := by
  cases y with
  | nil => simp [srsPeak] at h
  | cons a r =>
      simp only [srsPeak, Option.some.injEq] at h
      subst h
      obtain ⟨h1, h2⟩ := foldl_absmax_ge r (absv a)
      intro x hx
      rcases List.mem_cons.mp hx with rfl | hx
      · rw [← absv_eq_abs]; exact h1
      · exact h2 x hx

theorem select_mem (m : List Bool) (y : List α) (x : α) (h : x ∈ Findap.select m y) : x ∈ y := by
  induction m generalizing y with
  | nil => simp [Findap.select] at h
  | cons b m ih =>
      cases y with
      | nil => cases b <;> simp [Findap.select] at h
      | cons a r =>
          cases b
          · simp only [Findap.select] at h
            exact List.mem_cons_of_mem _ (ih r h)
          · simp only [Findap.select, List.mem_cons] at h
            rcases h with rfl | h
            · simp
            · exact List.mem_cons_of_mem _ (ih r h)

/-- every row of the rainflow table has the range of two of the points -/
theorem rainflow_rng (pts : List α) (c : Rainflow.Cyc α) (hc : c ∈ Rainflow.rainflow pts) :
    ∃ a ∈ pts, ∃ b ∈ pts, c.rng = |a - b| := by
  obtain ⟨_, _, a, b, ha, hb, hr, _⟩ := Rainflow.rainflow_ok pts c hc
  exact ⟨a, List.mem_of_getElem? ha, b, List.mem_of_getElem? hb, by rw [hr, Rainflow.absd_abs]⟩

/-- every cycle of `rainflow(resphist[findap(resphist)])` has amplitude `|a − b| / 2` for two
samples `a`, `b` of the response history, and count `1` or `1/2` -/
theorem cyclesOf_spec (tol : α) (y : List α) (cyc : List (α × α)) (h : cyclesOf tol y = some cyc) :
    ∀ d ∈ cyc, (∃ a ∈ y, ∃ b ∈ y, d.1 = |a - b| / 2) ∧ (d.2 = 1 ∨ d.2 = 1 / 2) := by
  unfold cyclesOf at h
  cases hm : Findap.findapDefFix tol y with
  | none => rw [hm] at h; cases h
  | some m =>
      rw [hm] at h
      simp only [Rainflow.rainflowApi] at h
      split at h
      · cases h
      · simp only [Option.map_some, Option.some.injEq] at h
        subst h
        intro d hd
        obtain ⟨c, hc, rfl⟩ := List.mem_map.mp hd
        obtain ⟨a, ha, b, hb, e⟩ := rainflow_rng _ c hc
        refine ⟨⟨a, select_mem m y a ha, b, select_mem m y b hb, ?_⟩, ?_⟩
        · simp only [e]; norm_num
        · cases c.full <;> simp

end PyYetiVerif.Fde
