import PyYetiVerif.Lemmas.Op4VariantsAsciiFile
/-! C11: `dir` = listing of `load`, and a named read = filter of the full read, for the ASCII reader model — on
every text on which the full read succeeds. -/
namespace PyYetiVerif.Op4VA
open PyYetiVerif.Op4 (checkName Layout chooseLayout unpackIS)
open PyYetiVerif.Op4A
open PyYetiVerif.Generated.Op4Consts

/-- `dir` (`dirA` of Model/Op4Ascii.lean) is the iteration of the listing step `skipMatrixA` -/
theorem dirA_succ (fuel : Nat) (ls : List Str) :
    dirA (fuel + 1) ls = (match skipMatrixA ls with
      | none => none
      | some none => some []
      | some (some (h, rest)) => (dirA fuel rest).map (listingH h :: ·)) := by
  cases ls with
  | nil => rfl
  | cons l0 ls1 =>
    simp only [dirA, skipMatrixA]
    cases rdHeader l0 with
    | none => rfl
    | some oh =>
      cases oh with
      | none => rfl
      | some h =>
        cases ls1 with
        | nil => rfl
        | cons line ls2 =>
          simp only
          cases pyInt? (slice line 0 8) with
          | none => rfl
          | some c1 =>
            cases pyInt? (slice line 8 16) with
            | none => rfl
            | some r =>
              simp only
              cases skipCols (if r > 0 then 0 else if h.rows < 0 ∨ h.rows ≥ ↑rows4bigmat then 1 else 2)
                  (if h.mtype % 2 = 1 then 1 else 2) h.perline h.cols (ls2.length + 1) (c1 - 1) line ls2 with
              | none => rfl
              | some rest => rfl

theorem skipMatrixA_eof (dformat : Bool) (ls : List Str) (h : rdMatrixA dformat ls = some none) :
    skipMatrixA ls = some none := by
  unfold rdMatrixA at h
  unfold skipMatrixA
  cases ls with
  | nil => rfl
  | cons l0 ls1 =>
    simp only at h ⊢
    cases hh : rdHeader l0 with
    | none => rw [hh] at h; simp at h
    | some oh =>
      cases oh with
      | none => rfl
      | some hd =>
        rw [hh] at h
        simp only at h
        cases ls1 with
        | nil => simp at h
        | cons line ls2 =>
          simp only at h
          cases hch : colHead line with
          | none => rw [hch] at h; simp at h
          | some q =>
            rw [hch] at h
            simp only at h
            split at h <;> simp at h

theorem skipMatrixA_header (l0 : Str) (ls1 : List Str) (hd : Hdr) (rest : List Str)
    (h : skipMatrixA (l0 :: ls1) = some (some (hd, rest))) : rdHeader l0 = some (some hd) := by
  unfold skipMatrixA at h
  simp only at h
  cases hh : rdHeader l0 with
  | none => rw [hh] at h; simp at h
  | some oh =>
    cases oh with
    | none => rw [hh] at h; simp at h
    | some h0 =>
      rw [hh] at h
      simp only at h
      cases ls1 with
      | nil => simp at h
      | cons line ls2 =>
        simp only at h
        repeat' split at h
        all_goals first
          | (cases h; rfl)
          | cases h
          | (simp only [Option.some.injEq, Prod.mk.injEq] at h; rw [h.1])

/-- **dir_matches_load_ascii**: whenever the loop of `listload` reads the matrices `ds` from the lines `ls`, the
loop of `dir` succeeds on the same lines and lists exactly the name field, `|rows|`, columns, form and type of
`ds`, in order -/
theorem dirA_of_rdFileA (dformat : Bool) :
    ∀ (fuel : Nat) (ls : List Str) (ds : List ADec), rdFileA dformat fuel ls = some ds →
      dirA fuel ls = some (ds.map listingA) := by
  intro fuel
  induction fuel with
  | zero => intro ls ds h; simp [rdFileA] at h
  | succ fuel ih =>
    intro ls ds h
    rw [rdFileA] at h
    rw [dirA_succ]
    cases hm : rdMatrixA dformat ls with
    | none => rw [hm] at h; simp at h
    | some o =>
      cases o with
      | none =>
        rw [hm] at h
        simp only [Option.some.injEq] at h
        rw [skipMatrixA_eof dformat ls hm, ← h]
        rfl
      | some q =>
        obtain ⟨d, rest⟩ := q
        rw [hm] at h
        simp only at h
        cases hr : rdFileA dformat fuel rest with
        | none => rw [hr] at h; simp at h
        | some ds' =>
          rw [hr] at h
          simp only [Option.map_some, Option.some.injEq] at h
          obtain ⟨hd, hs, hl, _⟩ := skipMatrixA_of_rdMatrixA dformat ls d rest hm
          rw [hs]
          simp only [ih rest ds' hr, Option.map_some, ← h, List.map_cons, hl]

/-- **named_subset_is_filter (OUTPUT4 ASCII)**: whenever the full read returns `ds`, the read with a name list
returns exactly those of `ds` whose name (through `_check_name`, counter = position in the file) passes the name
test, in file order, all occurrences of a repeated name -/
theorem loadLoopA_of_rdFileA (dformat : Bool) (pl : List (List Nat)) :
    ∀ (fuel count : Nat) (ls : List Str) (ds : List ADec), rdFileA dformat fuel ls = some ds →
      loadLoopA dformat pl fuel count ls = some ((namedFrom count ds).filter fun p => !Op4VR.skipped pl p.1) := by
  intro fuel
  induction fuel with
  | zero => intro count ls ds h; simp [rdFileA] at h
  | succ fuel ih =>
    intro count ls ds h
    rw [rdFileA] at h
    cases hm : rdMatrixA dformat ls with
    | none => rw [hm] at h; simp at h
    | some o =>
      cases o with
      | none =>
        rw [hm] at h
        simp only [Option.some.injEq] at h
        subst h
        have hs := skipMatrixA_eof dformat ls hm
        cases ls with
        | nil => rfl
        | cons l0 ls1 =>
          unfold skipMatrixA at hs
          simp only at hs
          rw [loadLoopA]
          simp only
          cases hh : rdHeader l0 with
          | none => rw [hh] at hs; simp at hs
          | some oh =>
            cases oh with
            | none => rfl
            | some h0 =>
              rw [hh] at hs
              simp only at hs
              cases ls1 with
              | nil => simp at hs
              | cons line ls2 =>
                simp only at hs
                repeat' split at hs
                all_goals simp at hs
      | some q =>
        obtain ⟨d, rest⟩ := q
        rw [hm] at h
        simp only at h
        cases hr : rdFileA dformat fuel rest with
        | none => rw [hr] at h; simp at h
        | some ds' =>
          rw [hr] at h
          simp only [Option.map_some, Option.some.injEq] at h
          subst h
          obtain ⟨hd, hs, _, hname⟩ := skipMatrixA_of_rdMatrixA dformat ls d rest hm
          cases ls with
          | nil => simp [skipMatrixA] at hs
          | cons l0 ls1 =>
            have hh := skipMatrixA_header l0 ls1 hd rest hs
            rw [loadLoopA]
            simp only [hh, hname, namedFrom]
            have hrec := ih (count + 1) rest ds' hr
            cases hsk : Op4VR.skipped pl (checkName count (d.rawName.map Char.toNat)) with
            | true =>
              simp only [if_true, hs, hrec]
              rw [List.filter_cons_of_neg (by simp [hsk])]
            | false =>
              simp only [Bool.false_eq_true, if_false, hm, hrec, Option.map_some]
              rw [List.filter_cons_of_pos (by simp [hsk])]

end PyYetiVerif.Op4VA
